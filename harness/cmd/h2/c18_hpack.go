package main

import (
	"bytes"
	"fmt"

	xhpack "golang.org/x/net/http2/hpack"
	mhpack "mosn.io/mosn/pkg/module/http2/hpack"

	. "vh/vhlib"
)

const hpackHeader = "From MV Require Import Lib.HBits Lib.HCaseIO Model.Hpack Model.HpackCases.\nFrom Coq Require Import List NArith Bool Uint63.\nImport ListNotations.\nOpen Scope N_scope.\n" + ubDefs

type shardSet struct {
	run *Run
	m   map[string]*Shard
}

func newShardSet(run *Run) *shardSet { return &shardSet{run: run, m: map[string]*Shard{}} }

// add appends a case to the shard family `fam`, rolling over at `max` cases per shard.
func (s *shardSet) add(fam, header, typ, eval string, max int, term string, descr interface{}) {
	sh := s.m[fam]
	if sh == nil {
		sh = s.run.NewShard(header, typ, eval)
		s.m[fam] = sh
	}
	sh.Add(term, descr)
	if sh.Len() >= max {
		sh.Close()
		delete(s.m, fam)
	}
}
func (s *shardSet) close() {
	for _, k := range []string{} {
		_ = k
	}
	keys := make([]string, 0, len(s.m))
	for k := range s.m {
		keys = append(keys, k)
	}
	for _, k := range keys {
		s.m[k].Close()
	}
	s.m = map[string]*Shard{}
}

// compareReference: run x/net's decoder / framer next to MOSN's (only property C18 is about the reference)
var compareReference = true

func coqHoutBytes(b []byte, err error) string {
	if err == nil {
		return "(HOk " + cb(b) + ")"
	}
	c := hpackErrClass(err)
	switch c {
	case "WPanic":
		return "HPanic"
	case "WFuel":
		return "HFuel"
	}
	return "(HErr " + c[len("WErr "):] + ")"
}

// ------------------------------------------------------------------------------------------
// A. integer codec

func hpackInts(run *Run, ss *shardSet) {
	r := run.R
	vals := []uint64{0, 1, 2, 5, 14, 15, 16, 30, 31, 32, 62, 63, 64, 126, 127, 128, 129, 254, 255, 256, 257, 16383, 16384, 1 << 20, 1<<32 - 1, 1 << 32,
		1<<62 - 1, 1 << 62, 1<<63 - 1, 1 << 63, 1<<63 + 254, 1<<63 + 255, 1<<63 + 256, 1<<64 - 1}
	for i := 0; i < run.N(30, 150); i++ {
		if abortRun {
			return
		}
		vals = append(vals, r.U64()>>uint(r.Intn(64)))
	}
	for n := byte(1); n <= 8; n++ {
		for _, v := range vals {
			enc := mhpack.VerifAppendVarInt(nil, n, v)
			ss.add("intenc", hpackHeader, "intenc_case", "intenc_mismatches", 400,
				fmt.Sprintf("(%s, %s, %s)", CoqN(uint64(n)), CoqN(v), cb(enc)), map[string]interface{}{"part": "intenc", "n": n, "v": v})
			// decode: whole, with a tail, and every proper prefix
			tail := r.Bytes(r.Intn(3))
			inputs := [][]byte{enc, append(append([]byte(nil), enc...), tail...)}
			for c := 0; c < len(enc); c++ {
				inputs = append(inputs, enc[:c])
			}
			for k, in := range inputs {
				got, rem, more, err := mhpack.VerifReadVarInt(n, in)
				// finder: round trip on the implementation (values the decoder accepts: below 2^63 + prefix)
				if k < 2 {
					xgot := uint64(0)
					_ = xgot
					if err == nil && !more && (got != v || !bytes.Equal(rem, in[len(enc):])) {
						run.Fail("hpack:int-roundtrip", fmt.Sprintf("readVarInt(%d, appendVarInt(%d)) = %d rest %x", n, v, got, rem), map[string]interface{}{"n": n, "v": v, "enc": Hex(enc)})
					}
					if (err != nil || more) && v < 1<<62 {
						run.Fail("hpack:int-roundtrip", fmt.Sprintf("readVarInt rejects appendVarInt(%d, %d): more=%v err=%v", n, v, more, err), map[string]interface{}{"n": n, "v": v, "enc": Hex(enc)})
					}
				} else if (!more || err != nil) && v < 1<<62 {
					run.Fail("hpack:int-prefix-not-needmore", fmt.Sprintf("readVarInt on a proper prefix of an integer: more=%v err=%v", more, err), map[string]interface{}{"n": n, "v": v, "prefix": Hex(in)})
				}
				var res string
				switch {
				case more:
					res = "HNeedMore"
				case err != nil:
					res = "(HErr EVarint)"
				default:
					res = fmt.Sprintf("(HOk (%s, %s))", CoqN(got), cb(rem))
				}
				ss.add("intdec", hpackHeader, "intdec_case", "intdec_mismatches", 400,
					fmt.Sprintf("(%s, %s, %s)", CoqN(uint64(n)), cb(in), res), map[string]interface{}{"part": "intdec", "n": n, "in": Hex(in)})
				run.Count(fmt.Sprintf("int|%d|%x", n, in), len(in) > 1, "hpack-int")
			}
		}
	}
	// malformed integers: long continuation runs
	for i := 0; i < run.N(100, 1000); i++ {
		if abortRun {
			return
		}
		n := byte(1 + r.Intn(8))
		k := r.Intn(13)
		in := []byte{0xff}
		for j := 0; j < k; j++ {
			in = append(in, byte(0x80|r.Intn(128)))
		}
		if r.Bool() {
			in = append(in, byte(r.Intn(128)))
		}
		var got uint64
		var rem []byte
		var more bool
		var err error
		perr := guarded(func() error { got, rem, more, err = mhpack.VerifReadVarInt(n, in); return nil })
		if perr != nil {
			run.Fail("hpack:int-decoder-panic", perr.Error(), map[string]interface{}{"n": n, "in": Hex(in)})
			continue
		}
		var res string
		switch {
		case more:
			res = "HNeedMore"
		case err != nil:
			res = "(HErr EVarint)"
		default:
			res = fmt.Sprintf("(HOk (%s, %s))", CoqN(got), cb(rem))
		}
		ss.add("intdec", hpackHeader, "intdec_case", "intdec_mismatches", 400,
			fmt.Sprintf("(%s, %s, %s)", CoqN(uint64(n)), cb(in), res), map[string]interface{}{"part": "intdec-malformed", "n": n, "in": Hex(in)})
		run.Count(fmt.Sprintf("intm|%d|%x", n, in), true, "hpack-int-malformed")
	}
}

// ------------------------------------------------------------------------------------------
// B. Huffman

func hpackHuffman(run *Run, ss *shardSet) {
	r := run.R
	var strs []string
	for c := 0; c < 256; c++ { // every symbol alone and doubled
		strs = append(strs, string([]byte{byte(c)}), string([]byte{byte(c), byte(c)}))
	}
	for i := 0; i < run.N(150, 3000); i++ {
		if abortRun {
			return
		}
		strs = append(strs, genString(r, run.N(120, 600)))
	}
	for _, s := range strs {
		enc := mhpack.AppendHuffmanString(nil, s)
		l := mhpack.HuffmanEncodeLength(s)
		xenc := xhpack.AppendHuffmanString(nil, s)
		rep := map[string]interface{}{"part": "huffman", "s": Hex([]byte(s))}
		if !bytes.Equal(enc, xenc) || uint64(len(enc)) != l {
			run.Fail("hpack:huffman-encode-differs", fmt.Sprintf("AppendHuffmanString differs from x/net or from HuffmanEncodeLength (%d vs %d)", len(enc), l), rep)
		}
		// finder: decode(encode(s)) = s across implementations
		for _, pair := range []struct {
			name string
			dec  func([]byte) (string, error)
			in   []byte
		}{{"mosn(mosn)", mhpack.HuffmanDecodeToString, enc}, {"xnet(mosn)", xhpack.HuffmanDecodeToString, enc}, {"mosn(xnet)", mhpack.HuffmanDecodeToString, xenc}} {
			var got string
			err := guarded(func() error { g, e := pair.dec(pair.in); got = g; return e })
			if err != nil || got != s {
				run.Fail("hpack:huffman-roundtrip", fmt.Sprintf("%s: decode(encode(s)) != s (err %v)", pair.name, err), rep)
			}
		}
		ss.add("huffenc", hpackHeader, "huffenc_case", "huffenc_mismatches", 300,
			fmt.Sprintf("(%s, %s, %s)", cb([]byte(s)), cb(enc), CoqN(l)), rep)
		run.Count("huff|"+s, len(s) > 1, "huffman-encode")
		// decoder inputs: the encoding, its corruptions, with and without a length limit
		ins := [][]byte{enc}
		for k := 0; k < 2; k++ {
			ins = append(ins, corruptBytes(r, enc))
		}
		for _, in := range ins {
			for _, maxLen := range []int{0, len(s), len(s) - 1, 1} {
				if maxLen < 0 || (maxLen != 0 && len(in) > 64 && r.Pct(50)) {
					continue
				}
				var buf bytes.Buffer
				var derr error
				perr := guarded(func() error { derr = mhpack.VerifHuffmanDecode(&buf, maxLen, in); return nil })
				if perr != nil {
					run.Fail("hpack:huffman-decoder-panic", perr.Error(), map[string]interface{}{"in": Hex(in), "maxlen": maxLen})
					continue
				}
				ss.add("huffdec", hpackHeader, "huffdec_case", "huffdec_mismatches", 300,
					fmt.Sprintf("(%s, %s, %s)", CoqN(uint64(maxLen)), cb(in), coqHoutBytes(buf.Bytes(), derr)),
					map[string]interface{}{"part": "huffdec", "in": Hex(in), "maxlen": maxLen})
				run.Count(fmt.Sprintf("huffdec|%d|%x", maxLen, in), true, "huffman-decode:"+hpackErrClass(derr))
			}
		}
	}
	for i := 0; i < run.N(150, 3000); i++ { // random bytes
		in := r.Bytes(1 + r.Intn(12))
		var buf bytes.Buffer
		var derr error
		perr := guarded(func() error { derr = mhpack.VerifHuffmanDecode(&buf, 0, in); return nil })
		if perr != nil {
			run.Fail("hpack:huffman-decoder-panic", perr.Error(), map[string]interface{}{"in": Hex(in)})
			continue
		}
		ss.add("huffdec", hpackHeader, "huffdec_case", "huffdec_mismatches", 300,
			fmt.Sprintf("(%s, %s, %s)", CoqN(0), cb(in), coqHoutBytes(buf.Bytes(), derr)), map[string]interface{}{"part": "huffdec-random", "in": Hex(in)})
		run.Count(fmt.Sprintf("huffdecr|%x", in), true, "huffman-decode-random:"+hpackErrClass(derr))
	}
}

// ------------------------------------------------------------------------------------------
// C/D. encoder-driven sessions

func coqDecCase(max uint32, ops []dop, obs []dobs, fin tsnap) string {
	po := make([]string, len(ops))
	for i, o := range ops {
		po[i] = o.coq()
	}
	pb := make([]string, len(obs))
	for i, o := range obs {
		pb[i] = o.coq()
	}
	return fmt.Sprintf("(%s, %s, %s, %s)", CoqN(uint64(max)), CoqList(po), CoqList(pb), fin.coq())
}

// hpackSessions: header lists -> encoder (MOSN or x/net) -> {MOSN decoder, x/net decoder, model decoder}
func hpackSessions(run *Run, ss *shardSet, which string, n int) {
	hpackSessionsGen(run, ss, which, n, "", func(r *Rng) []sessOp { return genSession(r, 3+r.Intn(run.N(8, 20))) })
}

func hpackSessionsGen(run *Run, ss *shardSet, which string, n int, tag string, gen func(r *Rng) []sessOp) {
	r := run.R
	for s := 0; s < n; s++ {
		if abortRun {
			return
		}
		sess := gen(r)
		var enc encoder
		var menc *mosnEnc
		if which == "mosn" {
			menc = newMosnEnc()
			enc = menc
		} else {
			enc = newXnetEnc()
		}
		md := newMosnDec(4096)
		xd := newXnetDec(4096)
		var eops []eop
		var eouts []string
		var dops []dop
		var dobsl []dobs
		dead := false
		nblocks, nupd := 0, 0
		rep := map[string]interface{}{"part": "hpack-session", "encoder": which, "session": sess}
		for _, op := range sess {
			if op.SetMax != nil {
				nupd++
				o := eop{Kind: "setmax", V: *op.SetMax}
				enc.apply(o)
				eops = append(eops, o)
				eouts = append(eouts, cb(nil))
				continue
			}
			nblocks++
			var block []byte
			for _, f := range op.Block {
				o := eop{Kind: "write", F: f}
				out := enc.apply(o)
				eops = append(eops, o)
				eouts = append(eouts, cb(out))
				block = append(block, out...)
			}
			// decoders: whole block or chunked
			var wops []dop
			if r.Pct(40) {
				for _, c := range cutRandom(r, block) {
					wops = append(wops, dop{Kind: "write", P: c})
				}
			} else {
				wops = []dop{{Kind: "write", P: block}}
			}
			wops = append(wops, dop{Kind: "close"})
			mo := runDec(md, wops)
			xo := runDec(xd, wops)
			dops = append(dops, wops[:len(mo)]...)
			dobsl = append(dobsl, mo...)
			var mf, xf []hfield
			for _, o := range mo {
				mf = append(mf, o.Fields...)
			}
			for _, o := range xo {
				xf = append(xf, o.Fields...)
			}
			// finder: decode(encode(x)) = x across implementations
			if last := mo[len(mo)-1]; last.Class == "WErr ESizeUpdate" && leadingSizeUpdates(block) >= 2 {
				run.Fail("hpack:second-size-update-rejected:mosn-decoder", fmt.Sprintf("block %d from the %s encoder starts with two dynamic table size updates (RFC 7541 4.2: smallest then final size); MOSN's decoder rejects the second one because entries survived the first", nblocks, which), rep)
				dead = true
			} else if last.Class != "WOk" || !fieldsEqual(mf, op.Block) {
				run.Fail("hpack:"+which+"-encoder->mosn-decoder", fmt.Sprintf("block %d: MOSN decoder yields %v (%s), encoded list was %v", nblocks, mf, last.Class, op.Block), rep)
				dead = true
			}
			if last := xo[len(xo)-1]; last.Class == "WErr ESizeUpdate" && leadingSizeUpdates(block) >= 2 {
				run.Fail("hpack:second-size-update-rejected:xnet-decoder", fmt.Sprintf("block %d from the %s encoder starts with two dynamic table size updates (RFC 7541 4.2: smallest then final size); the reference decoder (x/net) rejects the second one because entries survived the first", nblocks, which), rep)
				dead = true
			} else if last.Class != "WOk" || !fieldsEqual(xf, op.Block) {
				run.Fail("hpack:"+which+"-encoder->xnet-decoder", fmt.Sprintf("block %d: x/net decoder yields %v (%s), encoded list was %v", nblocks, xf, last.Class, op.Block), rep)
				dead = true
			}
			// finder: the two implementations must agree with each other - same outcome, same header list,
			// same dynamic table (read through the wire from both decoders)
			if compareReference && !dead {
				ml, xl := mo[len(mo)-1], xo[len(xo)-1]
				if (ml.Class == "WOk") != (xl.Class == "WOk") || !fieldsEqual(mf, xf) {
					run.Fail("hpack:decoders-disagree:"+which+"-encoder", fmt.Sprintf("block %d: MOSN decoder %s %d fields, reference decoder %s %d fields", nblocks, ml.Class, len(mf), xl.Class, len(xf)), rep)
					dead = true
				} else if mt, xt := probeEntries(md), probeEntries(xd); !fieldsEqual(mt, xt) {
					run.Fail("hpack:dynamic-tables-differ:mosn-vs-reference", fmt.Sprintf("after block %d (%s encoder) MOSN's decoder holds %d dynamic entries, the reference decoder %d", nblocks, which, len(mt), len(xt)), rep)
					dead = true
				}
			}
			if menc != nil && !dead {
				et := snapOf(menc.e.VerifTable())
				dt, _ := md.table()
				if !et.equal(dt) {
					run.Fail("hpack:tables-diverge", fmt.Sprintf("after block %d encoder table %+v != decoder table %+v", nblocks, et, dt), rep)
					dead = true
				}
			}
			if dead {
				break
			}
		}
		fin, _ := md.table()
		ss.add("dec", hpackHeader, "dec_case", "dec_mismatches", 40, coqDecCase(4096, dops, dobsl, fin), rep)
		if menc != nil {
			po := make([]string, len(eops))
			for i, o := range eops {
				po[i] = o.coq()
			}
			ss.add("enc", hpackHeader, "enc_case", "enc_mismatches", 25,
				fmt.Sprintf("(%s, %s, %s)", CoqList(po), CoqList(eouts), snapOf(menc.e.VerifTable()).coq()), rep)
		}
		run.Count(fmt.Sprintf("sess|%s|%v", which, sess), nblocks >= 2, "hpack-session-"+which+tag, fmt.Sprintf("hpack-session-updates=%d", min(nupd, 3)))
		if s < 2 {
			run.Sample(map[string]interface{}{"part": "hpack-session", "encoder": which, "blocks": nblocks, "table_size_updates": nupd, "first_ops": sess[:min(2, len(sess))]})
		}
	}
}

// E. representation-level generator -> {MOSN, x/net, model} decoders
func hpackReprSessions(run *Run, ss *shardSet, n int, malformed bool) {
	r := run.R
	static := mhpack.VerifStaticTable()
	for s := 0; s < n; s++ {
		if abortRun {
			return
		}
		allowed := []uint32{4096, 4096, 256, 100, 0, 65536}[r.Intn(6)]
		g := &genRepr{max: allowed, allowed: allowed}
		md := newMosnDec(allowed)
		xd := newXnetDec(allowed)
		var dops []dop
		var dobsl []dobs
		nb := 1 + r.Intn(6)
		rep := map[string]interface{}{"part": "hpack-repr-session", "allowed": allowed, "malformed": malformed}
		var blocksHex []string
		classes := "WOk"
		xdead := false   // the reference decoder already failed on an earlier block of this session
		tainted := false // a corrupted block was decoded: the generator's table no longer describes the decoder's
		for b := 0; b < nb; b++ {
			blk, want := g.block(r, 1+r.Intn(6), static)
			bad := malformed && (b == nb-1 || r.Pct(30))
			if bad {
				blk = corruptBytes(r, blk)
			}
			blocksHex = append(blocksHex, Hex(blk))
			rep["blocks"] = blocksHex
			var wops []dop
			if r.Pct(40) {
				for _, c := range cutRandom(r, blk) {
					wops = append(wops, dop{Kind: "write", P: c})
				}
			} else {
				wops = []dop{{Kind: "write", P: blk}}
			}
			wops = append(wops, dop{Kind: "close"})
			mo := runDec(md, wops)
			dops = append(dops, wops[:len(mo)]...)
			dobsl = append(dobsl, mo...)
			last := mo[len(mo)-1]
			classes = last.Class
			// C08 finder: the decoder must not panic or hang
			if last.Class == "WPanic" || last.Class == "WFuel" {
				run.Fail("hpack:decoder-panic-or-hang", fmt.Sprintf("hpack.Decoder on block %x: %s", blk, last.Class), rep)
			}
			if bad {
				tainted = true
			}
			if !tainted {
				var xo []dobs
				if compareReference {
					xo = runDec(xd, wops)
				} else {
					xo = mo
					xdead = true
				}
				var mf, xf []hfield
				for _, o := range mo {
					mf = append(mf, o.Fields...)
				}
				for _, o := range xo {
					xf = append(xf, o.Fields...)
				}
				// finder: valid representations decode to the fields they mean, on both implementations
				if last.Class == "WErr ESizeUpdate" && leadingSizeUpdates(blk) >= 2 {
					run.Fail("hpack:second-size-update-rejected:mosn-decoder", "a block of valid representations starts with two dynamic table size updates; MOSN's decoder rejects the second one because entries survived the first", rep)
				} else if last.Class != "WOk" || !fieldsEqual(mf, want) {
					run.Fail("hpack:valid-reprs->mosn-decoder", fmt.Sprintf("MOSN decoder yields %v (%s), representations mean %v", mf, last.Class, want), rep)
				}
				if xdead {
				} else if xl := xo[len(xo)-1]; xl.Class == "WErr ESizeUpdate" && leadingSizeUpdates(blk) >= 2 {
					xdead = true
					run.Fail("hpack:second-size-update-rejected:xnet-decoder", "a block of valid representations starts with two dynamic table size updates; the reference decoder (x/net) rejects the second one because entries survived the first", rep)
				} else if xl.Class != "WOk" || !fieldsEqual(xf, want) {
					run.Fail("hpack:valid-reprs->xnet-decoder", fmt.Sprintf("x/net decoder yields %v (%s), representations mean %v", xf, xl.Class, want), rep)
				}
			}
			if last.Class != "WOk" {
				break
			}
		}
		fin, _ := md.table()
		fam := "decr"
		if malformed {
			fam = "decm"
		}
		ss.add(fam, hpackHeader, "dec_case", "dec_mismatches", 80, coqDecCase(allowed, dops, dobsl, fin), rep)
		kind := "hpack-repr-session"
		if malformed {
			kind = "hpack-malformed:" + classes
		}
		run.Count(fmt.Sprintf("repr|%v|%v", malformed, blocksHex), true, kind)
	}
}

// F. decoder knobs: SetEmitEnabled(false), SetMaxStringLength, SetMaxDynamicTableSize on the decoder, SetAllowed...
func hpackKnobSessions(run *Run, ss *shardSet, n int) {
	r := run.R
	static := mhpack.VerifStaticTable()
	for s := 0; s < n; s++ {
		if abortRun {
			return
		}
		g := &genRepr{max: 4096, allowed: 4096}
		md := newMosnDec(4096)
		var dops []dop
		var dobsl []dobs
		rep := map[string]interface{}{"part": "hpack-knobs"}
		pre := []dop{}
		if r.Pct(60) {
			pre = append(pre, dop{Kind: "setmaxstr", V: uint32([]int{1, 5, 16, 40, 100}[r.Intn(5)])})
		}
		if r.Pct(50) {
			pre = append(pre, dop{Kind: "setemit", B: false})
		}
		class := "WOk"
		for b := 0; b < 1+r.Intn(4) && class == "WOk"; b++ {
			blk, _ := g.block(r, 1+r.Intn(5), static)
			if r.Pct(20) {
				blk = corruptBytes(r, blk)
			}
			wops := append(append([]dop{}, pre...), dop{Kind: "write", P: blk}, dop{Kind: "close"})
			pre = nil
			if r.Pct(30) {
				wops = append(wops, dop{Kind: "setemit", B: r.Bool()})
			}
			mo := runDec(md, wops)
			dops = append(dops, wops[:len(mo)]...)
			dobsl = append(dobsl, mo...)
			class = mo[len(mo)-1].Class
			if class == "WPanic" || class == "WFuel" {
				run.Fail("hpack:decoder-panic-or-hang", fmt.Sprintf("hpack.Decoder (limits set) on block %x: %s", blk, class), rep)
			}
		}
		rep["ops"] = dops
		fin, _ := md.table()
		ss.add("deck", hpackHeader, "dec_case", "dec_mismatches", 80, coqDecCase(4096, dops, dobsl, fin), rep)
		run.Count(fmt.Sprintf("knob|%v", dops), true, "hpack-knobs:"+class)
	}
}

func min(a, b int) int {
	if a < b {
		return a
	}
	return b
}

// leadingSizeUpdates counts the dynamic table size updates a block starts with.
func leadingSizeUpdates(b []byte) int {
	n := 0
	for len(b) > 0 && b[0]&0xe0 == 0x20 {
		_, rem, more, err := mhpack.VerifReadVarInt(5, b)
		if more || err != nil {
			break
		}
		n++
		b = rem
	}
	return n
}

func huffDecode(maxLen int, in []byte) ([]byte, error) {
	var buf bytes.Buffer
	var derr error
	perr := guarded(func() error { derr = mhpack.VerifHuffmanDecode(&buf, maxLen, in); return nil })
	if perr != nil {
		return nil, perr
	}
	return buf.Bytes(), derr
}
