package main

import (
	"fmt"

	mhpack "mosn.io/mosn/pkg/module/http2/hpack"

	. "vh/vhlib"
)

// c07 (HTTP/2 part): message extraction independent of segmentation.
func c07(args []string) int {
	run := NewRun("C07", args)
	run.Sum.Rule = "h2: valid frame sequences (1-8 frames, all types, CONTINUATION runs, padding) and single-field corruptions of them, each delivered whole, cut at EVERY single position (streams up to 700 bytes; 12 random single cuts above), as 1-byte chunks and as 4-20 random chunkings to MFramer.ReadFrame through the Dispatch read loop; client preface cut at every position; HPACK header blocks fed to Decoder.Write whole and cut at every position; real stream/http2 server stream connection (Dispatch -> HandleFrame -> NewStreamDetect/OnReceive): preface + SETTINGS + 1-3 requests (HEADERS, 0-2 CONTINUATION, DATA in 1-2 frames; 30% with one request carrying an invalid header name) cut at every position and as 1-byte reads, requests handed to the proxy compared with whole delivery; a frame that is a stream error for its own stream (6 kinds) in the middle of a valid multi-stream sequence, followed by complete frames SHORTER than it and nothing else: every 2-read cut in the frame and 3-read cuts around it, at the framer and through the real Dispatch. Non-trivial: >= 2 events; distinct by stream bytes."
	ss := newShardSet(run)
	compareReference = false
	framesStreams(run, ss, "c07", true, run.N(40, 400), true)
	framesStreams(run, ss, "c07m", false, run.N(40, 400), true)
	framesPreface(run, ss)
	framesPaddedBoundaries(run, ss)
	framesAfterStreamError(run, ss)
	hpackEveryCut(run, ss, run.N(25, 300))
	c07Dispatch(run, run.N(25, 250))
	c07DispatchAfterError(run)
	ss.close()
	return run.Finish()
}

// hpackEveryCut: one header block (valid representations), Write(whole) vs Write(a);Write(b) for every cut
func hpackEveryCut(run *Run, ss *shardSet, n int) {
	r := run.R
	static := mhpack.VerifStaticTable()
	for s := 0; s < n; s++ {
		if abortRun {
			return
		}
		g := &genRepr{max: 4096, allowed: 4096}
		pre, _ := g.block(r, 1+r.Intn(4), static) // a first block fills the table
		blk, want := g.block(r, 1+r.Intn(5), static)
		if leadingSizeUpdates(pre) >= 2 || leadingSizeUpdates(blk) >= 2 || len(blk) > 400 {
			continue
		}
		ref := newMosnDec(4096)
		runDec(ref, []dop{{Kind: "write", P: pre}, {Kind: "close"}})
		whole := runDec(ref, []dop{{Kind: "write", P: blk}, {Kind: "close"}})
		var wf []hfield
		for _, o := range whole {
			wf = append(wf, o.Fields...)
		}
		wt, _ := ref.table()
		rep := map[string]interface{}{"part": "hpack-every-cut", "first": Hex(pre), "block": Hex(blk)}
		if whole[len(whole)-1].Class != "WOk" || !fieldsEqual(wf, want) {
			run.Fail("hpack:valid-reprs->mosn-decoder", fmt.Sprintf("MOSN decoder yields %v (%s), representations mean %v", wf, whole[len(whole)-1].Class, want), rep)
			continue
		}
		for c := 1; c < len(blk); c++ {
			d := newMosnDec(4096)
			runDec(d, []dop{{Kind: "write", P: pre}, {Kind: "close"}})
			ops := []dop{{Kind: "write", P: blk[:c]}, {Kind: "write", P: blk[c:]}, {Kind: "close"}}
			obs := runDec(d, ops)
			var cf []hfield
			for _, o := range obs {
				cf = append(cf, o.Fields...)
			}
			ct, _ := d.table()
			run.Sum.Evaluations++
			if obs[len(obs)-1].Class != "WOk" || !fieldsEqual(cf, wf) || !ct.equal(wt) {
				rep["cut"] = c
				run.Fail("hpack:chunked-write-differs", fmt.Sprintf("Decoder.Write cut at %d: fields %v (%s), whole: %v", c, cf, obs[len(obs)-1].Class, wf), rep)
				break
			}
			if c%7 == 3 || c == len(blk)-1 { // a sample of the cuts goes to the model
				all := append([]dop{{Kind: "write", P: pre}, {Kind: "close"}}, ops...)
				d2 := newMosnDec(4096)
				o2 := runDec(d2, all)
				t2, _ := d2.table()
				ss.add("deccut", hpackHeader, "dec_case", "dec_mismatches", 80, coqDecCase(4096, all, o2, t2), rep)
			}
		}
		run.Count("hpcut|"+Hex(blk), true, "hpack-every-cut")
	}
}
