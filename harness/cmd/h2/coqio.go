package main

import (
	"fmt"
	"strings"
)

// ubDefs: the decoder of the packed byte-string literals, inlined into every shard header (test transport only).
const ubDefs = "From Coq Require Import ZArith Uint63.\n" +
	"Definition bytew (w : int) (k : int) : N := Z.to_N (Uint63.to_Z (Uint63.land (Uint63.lsr w k) 255%uint63)).\n" +
	"Definition unpack7 (w : int) : list N := [bytew w 48; bytew w 40; bytew w 32; bytew w 24; bytew w 16; bytew w 8; bytew w 0]%uint63.\n" +
	"Definition ub (n : N) (ws : list int) : list N := firstn (N.to_nat n) (flat_map unpack7 ws).\n"

// cb prints a byte string as a Coq term of type list N.  Short strings are list literals; longer ones use
// Lib/HCaseIO.ub (7 bytes per primitive 63-bit integer), runs of >= 32 equal bytes use `repeat`.
func cb(b []byte) string {
	if len(b) == 0 {
		return "(@nil N)"
	}
	var parts []string
	flush := func(seg []byte) {
		if len(seg) == 0 {
			return
		}
		if len(seg) <= 12 {
			lit := make([]string, len(seg))
			for i, x := range seg {
				lit[i] = fmt.Sprintf("%d", x)
			}
			parts = append(parts, "["+strings.Join(lit, ";")+"]%N")
			return
		}
		var ws []string
		for j := 0; j < len(seg); j += 7 {
			var v uint64
			for k := 0; k < 7; k++ {
				v <<= 8
				if j+k < len(seg) {
					v |= uint64(seg[j+k])
				}
			}
			ws = append(ws, fmt.Sprintf("%d", v))
		}
		parts = append(parts, fmt.Sprintf("ub %d [%s]%%uint63", len(seg), strings.Join(ws, ";")))
	}
	i, start := 0, 0
	for i < len(b) {
		j := i
		for j < len(b) && b[j] == b[i] {
			j++
		}
		if j-i >= 32 {
			flush(b[start:i])
			parts = append(parts, fmt.Sprintf("repeat %d%%N %d%%nat", b[i], j-i))
			i = j
			start = j
		} else {
			i = j
		}
	}
	flush(b[start:])
	if len(parts) == 1 {
		return "(" + parts[0] + ")"
	}
	return "(" + strings.Join(parts, " ++ ") + ")"
}
