package main

// C18, sender side of header blocks: MServerConn.writeHeaders (split at 16384) and MClientConn.writeHeaders (split at
// the peer's SETTINGS_MAX_FRAME_SIZE) with header lists whose ENCODED size is exactly k*maxFrameSize and one byte
// around it; the frames are read by the reference framer.

import (
	"bytes"
	"context"
	"fmt"
	"net/http"
	"strings"

	xh2 "golang.org/x/net/http2"
	xhpack "golang.org/x/net/http2/hpack"
	mh2 "mosn.io/mosn/pkg/module/http2"
	"mosn.io/pkg/buffer"

	. "vh/vhlib"
)

// headerFrames: the HEADERS/CONTINUATION frames in b: fragment sizes, END_HEADERS of each, total block size
func headerFrames(b []byte) (sizes []int, ends []bool, total int) {
	fr := xh2.NewFramer(nil, bytes.NewReader(b))
	fr.SetMaxReadFrameSize(1<<24 - 1)
	for {
		f, err := fr.ReadFrame()
		if err != nil {
			return
		}
		switch x := f.(type) {
		case *xh2.HeadersFrame:
			sizes = append(sizes, len(x.HeaderBlockFragment()))
			ends = append(ends, x.HeadersEnded())
			total += len(x.HeaderBlockFragment())
		case *xh2.ContinuationFrame:
			sizes = append(sizes, len(x.HeaderBlockFragment()))
			ends = append(ends, x.HeadersEnded())
			total += len(x.HeaderBlockFragment())
		}
	}
}

// serverWrite: a fresh MServerConn answers one request with a response carrying X-Pad of padLen bytes
// (and then a second, small response); returns what it wrote for each
func serverWrite(padLen int) (first, second []byte, err error) {
	ctx := context.Background()
	fc := &fakeConn{}
	sc := mh2.NewServerConn(fc)
	var hb bytes.Buffer
	cenc := xhpack.NewEncoder(&hb)
	open := func(sid uint32) (*mh2.MStream, error) {
		hb.Reset()
		for _, f := range []xhpack.HeaderField{{Name: ":method", Value: "GET"}, {Name: ":scheme", Value: "http"}, {Name: ":path", Value: "/"}, {Name: ":authority", Value: "h"}} {
			cenc.WriteField(f)
		}
		var w bytes.Buffer
		xh2.NewFramer(&w, nil).WriteHeaders(xh2.HeadersFrameParam{StreamID: sid, BlockFragment: hb.Bytes(), EndHeaders: true, EndStream: true})
		buf := buffer.NewIoBufferBytes(append([]byte(nil), w.Bytes()...))
		f, _, e := sc.Framer.ReadFrame(ctx, buf, 0)
		if e != nil {
			return nil, e
		}
		ms, _, _, _, e := sc.HandleFrame(ctx, f)
		return ms, e
	}
	ms, e := open(1)
	if e != nil || ms == nil {
		return nil, nil, fmt.Errorf("open: %v", e)
	}
	h := http.Header{}
	h.Set("Date", "Thu, 01 Jan 1970 00:00:00 GMT")
	h.Set("X-Pad", strings.Repeat("\\", padLen)) // 19-bit Huffman code: the encoder keeps it raw
	ms.Response = &http.Response{StatusCode: 200, Header: h}
	fc.out.Reset()
	if perr := guarded(func() error { return ms.SendResponse() }); perr != nil {
		return nil, nil, perr
	}
	first = append([]byte(nil), fc.out.Bytes()...)
	ms2, e := open(3)
	if e != nil || ms2 == nil {
		return first, nil, fmt.Errorf("open 2: %v", e)
	}
	h2 := http.Header{}
	h2.Set("Date", "Thu, 01 Jan 1970 00:00:00 GMT")
	ms2.Response = &http.Response{StatusCode: 204, Header: h2}
	fc.out.Reset()
	if perr := guarded(func() error { return ms2.SendResponse() }); perr != nil {
		return first, nil, perr
	}
	return first, append([]byte(nil), fc.out.Bytes()...), nil
}

func clientWrite(mx uint32, padLen int) (first, second []byte, err error) {
	ctx := context.Background()
	fc := &fakeConn{}
	cc := mh2.NewClientConn(fc)
	cc.WriteInitFrame()
	var w bytes.Buffer
	xh2.NewFramer(&w, nil).WriteSettings(xh2.Setting{ID: xh2.SettingMaxFrameSize, Val: mx})
	buf := buffer.NewIoBufferBytes(append([]byte(nil), w.Bytes()...))
	f, _, e := cc.Framer.ReadFrame(ctx, buf, 0)
	if e == nil {
		_, _, _, _, _, e = cc.HandleFrame(ctx, f)
	}
	if e != nil {
		return nil, nil, fmt.Errorf("settings: %v", e)
	}
	send := func(pad int) ([]byte, error) {
		req, _ := http.NewRequest("GET", "http://up.example/p", nil)
		if pad >= 0 {
			req.Header.Set("X-Pad", strings.Repeat("\\", pad))
		}
		fc.out.Reset()
		perr := guarded(func() error { _, e := cc.WriteHeaders(ctx, req, "", true); return e })
		return append([]byte(nil), fc.out.Bytes()...), perr
	}
	if first, err = send(padLen); err != nil {
		return
	}
	second, err = send(-1)
	return
}

// findPad searches the X-Pad length that makes the first header block exactly `target` bytes
func findPad(target int, write func(pad int) ([]byte, error)) (int, bool) {
	pad := target - 200
	if pad < 0 {
		pad = 0
	}
	for it := 0; it < 12; it++ {
		out, err := write(pad)
		if err != nil {
			return 0, false
		}
		_, _, total := headerFrames(out)
		if total == target {
			return pad, true
		}
		pad += target - total
		if pad < 0 {
			return 0, false
		}
	}
	return 0, false
}

func sendHeaderBlocks(run *Run) {
	type side struct {
		name  string
		mx    int
		write func(pad int) (first, second []byte, err error)
	}
	sides := []side{{"server", 16384, serverWrite}}
	for _, mx := range []uint32{16384, 16385, 20000, 65535} {
		m := mx
		sides = append(sides, side{fmt.Sprintf("client/%d", m), int(m), func(pad int) ([]byte, []byte, error) { return clientWrite(m, pad) }})
	}
	for _, sd := range sides {
		for k := 1; k <= 3; k++ {
			for _, d := range []int{-1, 0, 1} {
				if abortRun {
					return
				}
				target := k*sd.mx + d
				pad, ok := findPad(target, func(p int) ([]byte, error) { f, _, e := sd.write(p); return f, e })
				rep := map[string]interface{}{"part": "send-header-block", "side": sd.name, "max_frame_size": sd.mx, "block_size": target, "k": k, "delta": d}
				if !ok {
					run.Count(fmt.Sprintf("sendhb|%s|%d", sd.name, target), false, "send-header-block:size-not-reached")
					continue
				}
				first, second, err := sd.write(pad)
				if err != nil {
					run.Fail("h2send:write-failed", fmt.Sprintf("%s writeHeaders with a %d-byte block: %v", sd.name, target, err), rep)
					continue
				}
				sizes, ends, total := headerFrames(first)
				rep["fragments"] = sizes
				rep["end_headers"] = ends
				run.Count(fmt.Sprintf("sendhb|%s|%d", sd.name, target), true, "send-header-block:"+strings.Split(sd.name, "/")[0], fmt.Sprintf("send-header-block-fragments=%d", len(sizes)))
				// the property itself on the frames MOSN wrote
				bad := total != target || len(sizes) == 0
				for i, s := range sizes {
					if s > sd.mx || ends[i] != (i == len(sizes)-1) {
						bad = true
					}
				}
				if bad {
					run.Fail("h2send:header-block-not-terminated", fmt.Sprintf("%s: header block of %d bytes (max frame size %d) sent as fragments %v with END_HEADERS %v", sd.name, target, sd.mx, sizes, ends), rep)
					continue
				}
				// and as the reference reads them, followed by the next header block of the connection
				dec := xhpack.NewDecoder(4096, nil)
				metas, _, _, xerr := readAllXnet(dec, append(append([]byte(nil), first...), second...))
				okPad := false
				if xerr == nil && len(metas) == 2 {
					for _, f := range metas[0].Fields {
						if f.Name == "x-pad" && len(f.Value) == pad {
							okPad = true
						}
					}
				}
				if !okPad {
					run.Fail("h2send:reference-misreads-header-block", fmt.Sprintf("%s: x/net reading a %d-byte block in fragments %v followed by the next block: %v, %d header frames", sd.name, target, sizes, xerr, len(metas)), rep)
				}
			}
		}
	}
}
