package main

import (
	"bytes"
	"fmt"
	"os"
	"strings"

	xh2 "golang.org/x/net/http2"
	mh2 "mosn.io/mosn/pkg/module/http2"
	"mosn.io/pkg/buffer"

	. "vh/vhlib"
)

// srcSwitches re-reads the go/ast switches of the tree the harness was built against.
func srcSwitches() map[string]bool {
	out := map[string]bool{}
	repo := os.Getenv("VERIF_REPO")
	if repo == "" {
		repo = "/repo"
	}
	txt, err := genH2Src(repo)
	if err != nil {
		return out
	}
	for _, line := range strings.Split(txt, "\n") {
		var name, val string
		if n, _ := fmt.Sscanf(line, "Definition %s := %s", &name, &val); n == 2 {
			out[name] = val == "true."
		}
	}
	return out
}

func firstDiff(a, b []devent) string {
	for i := 0; i < len(a) && i < len(b); i++ {
		if a[i].coq() != b[i].coq() {
			k := "error"
			if a[i].Frame != nil {
				k = a[i].Frame.Kind
			} else if b[i].Frame != nil {
				k = b[i].Frame.Kind
			}
			return fmt.Sprintf("event %d (%s)", i, k)
		}
	}
	return fmt.Sprintf("length %d vs %d", len(a), len(b))
}

// framesStreams: byte streams of frames -> MOSN MFramer (every chunking) vs x/net Framer vs model.
//
//	valid=true : generated valid sequences; finder: MOSN == generator's meaning == x/net (C18), chunked == whole (C07)
//	valid=false: single-field corruptions; finder: no panic / hang (C08), chunked == whole (C07)
func framesStreams(run *Run, ss *shardSet, prop string, valid bool, nseq int, everyCut bool) {
	r := run.R
	sw := srcSwitches()
	cont := sw["h2_dispatch_continues"]
	for s := 0; s < nseq; s++ {
		if abortRun {
			return
		}
		g := newSeqGen(r)
		nfr := 1 + r.Intn(run.N(5, 8))
		for i := 0; i < nfr; i++ {
			g.frame()
		}
		data := append([]byte(nil), g.w.Bytes()...)
		if !valid {
			data = corruptFrames(r, data)
			if r.Pct(20) {
				data = corruptFrames(r, data)
			}
		}
		if len(data) > 6000 {
			everyCutHere := false
			_ = everyCutHere
		}
		cs := chunkings(r, len(data), everyCut && len(data) <= run.N(700, 3000), run.N(4, 20))
		whole, residue, dead := runMosn(cont, [][]byte{data})
		rep := map[string]interface{}{"part": "frames", "valid": valid, "stream": Hex(data)}
		bad := false
		for _, e := range whole {
			if e.Err == "PANIC" || e.Err == "HANG" {
				bad = true
				run.Fail("h2frame:reader-panic-or-hang", fmt.Sprintf("MFramer.ReadFrame %s on a %d-byte stream", e.Err, len(data)), rep)
			}
		}
		if bad {
			continue
		}
		// C07 finder: every chunking yields the same events, residue and liveness
		segOK := true
		for _, cuts := range cs[1:] {
			evs, res, dd := runMosn(cont, splitAt(data, cuts))
			if !eventsEqual(evs, whole) || dd != dead || (!dead && res != residue) {
				segOK = false
				rep2 := map[string]interface{}{"part": "frames", "valid": valid, "stream": Hex(data), "cuts": cuts}
				what := fmt.Sprintf("frames extracted depend on segmentation: cut at %v gives %d events / residue %d, whole delivery %d events / residue %d; first difference at %s", cuts, len(evs), res, len(whole), residue, firstDiff(evs, whole))
				sig := "h2frame:segmentation-dependent"
				if !valid {
					sig = "h2frame:segmentation-dependent:malformed-stream"
				}
				run.Fail(sig, what, rep2)
				break
			}
		}
		xevs := runXnet(data)
		if valid {
			// C18 finder: identical parse on both implementations, and it is what the frames mean
			if !eventsEqual(whole, g.exp) {
				run.Fail("h2frame:mosn-misparses-valid-sequence", "MFramer output differs from the frames written by the reference writer; first difference at "+firstDiff(whole, g.exp), rep)
			}
			if compareReference && !eventsEqual(xevs, g.exp) {
				run.Fail("h2frame:reference-misparses-valid-sequence", "x/net Framer output differs from the frames written; first difference at "+firstDiff(xevs, g.exp), rep)
			}
			if residue != 0 || dead {
				run.Fail("h2frame:valid-sequence-not-consumed", fmt.Sprintf("residue %d dead %v after a valid sequence", residue, dead), rep)
			}
		}
		if segOK {
			ss.add("fr-"+prop, frameHeader, "fr_case", "fr_mismatches", 40,
				fmt.Sprintf("(%s, %s, %s, %s, %s)", cb(data), coqChunkings(cs), eventsCoq(whole), CoqN(uint64(residueIfAlive(residue, dead))), CoqBool(dead)), rep)
		}
		kinds := []string{}
		if valid {
			for k := range g.kind {
				kinds = append(kinds, "frame:"+k)
			}
			kinds = append(kinds, "frames-valid-seq")
		} else {
			last := "ok"
			if len(whole) > 0 && whole[len(whole)-1].Frame == nil {
				last = whole[len(whole)-1].Err
			} else if residue > 0 {
				last = "again"
			}
			agree := "agree"
			if (len(xevs) > 0 && xevs[len(xevs)-1].Frame == nil) != (len(whole) > 0 && whole[len(whole)-1].Frame == nil) {
				agree = "differ"
			}
			kinds = append(kinds, "frames-corrupt:"+last, "frames-corrupt-vs-reference:"+agree)
		}
		run.Count(fmt.Sprintf("frames|%v|%x", valid, data), len(whole) >= 2, kinds...)
		for range cs {
			run.Sum.Evaluations++
		}
		if s < 1 {
			run.Sample(map[string]interface{}{"part": "frames", "valid": valid, "bytes": len(data), "chunkings": len(cs), "events": len(whole)})
		}
	}
}

// framesWriters: every writer of MFramer and of x/net's Framer against the model's serialiser, and
// parse(serialise f) = f through MOSN's reader.
func framesWriters(run *Run, ss *shardSet, n int) {
	r := run.R
	add := func(coq string, b []byte, kind string) {
		ss.add("wr", frameHeader, "wr_case", "wr_mismatches", 300, fmt.Sprintf("(%s, %s)", coq, cb(b)), map[string]interface{}{"part": "writer", "kind": kind, "bytes": Hex(b)})
		run.Count("wr|"+coq, true, "writer:"+kind)
	}
	optN := func(k int) string {
		if k < 0 {
			return "None"
		}
		return fmt.Sprintf("(Some %s)", CoqN(uint64(k)))
	}
	for i := 0; i < n; i++ {
		if abortRun {
			return
		}
		var w bytes.Buffer
		xf := xh2.NewFramer(&w, nil)
		fc := &fakeConn{}
		mf := mh2.NewServerConn(fc).Framer
		sid := uint32(1 + r.Intn(1<<uint(1+r.Intn(30))))
		data := r.Bytes([]int{0, 1, 5, 100, 16384, 16385, 40000}[r.Intn(7)])
		es := r.Bool()
		// DATA: x/net (padded) and MOSN (chunks of 16384)
		pad, _, pn := padOpt(r)
		small := data
		if len(small) > 200 {
			small = small[:200]
		}
		xf.WriteDataPadded(sid, es, small, pad)
		add(fmt.Sprintf("AData %s %s %s %s", CoqN(uint64(sid)), CoqBool(es), cb(small), optN(pn)), w.Bytes(), "x/net-data")
		fc.out.Reset()
		if err := mf.VerifWriteData(sid, es, data); err == nil {
			out := append([]byte(nil), fc.out.Bytes()...)
			// MOSN's writeData = a sequence of DATA frames of at most 16384 bytes, END_STREAM on the last
			var exp []string
			rest := data
			for len(rest) > 0 {
				c := rest
				if len(c) > 16384 {
					c = c[:16384]
				}
				rest = rest[len(c):]
				exp = append(exp, fmt.Sprintf("ser_frame (AData %s %s %s None)", CoqN(uint64(sid)), CoqBool(es && len(rest) == 0), cb(c)))
			}
			if len(data) > 0 {
				ss.add("wrm", frameHeader, "bytes * bytes", "mismatches (fun c => bytes_eqb (fst c) (snd c))", 40,
					fmt.Sprintf("(%s, %s)", strings.Join(exp, " ++ "), cb(out)), map[string]interface{}{"part": "writer", "kind": "mosn-writeData", "len": len(data)})
				run.Count(fmt.Sprintf("wrm|%d|%v", len(data), es), true, "writer:mosn-data")
			}
			// finder: what MOSN wrote parses back (x/net reader) to the same payload, every frame <= 16384
			xr := xh2.NewFramer(nil, bytes.NewReader(out))
			var got []byte
			ended := false
			for {
				f, err := xr.ReadFrame()
				if err != nil {
					break
				}
				df, ok := f.(*xh2.DataFrame)
				if !ok || df.Header().Length > 16384 {
					run.Fail("h2frame:mosn-writeData-bad-frame", fmt.Sprintf("writeData emitted %v", f.Header()), map[string]interface{}{"len": len(data)})
					break
				}
				got = append(got, df.Data()...)
				ended = df.StreamEnded()
			}
			if !bytes.Equal(got, data) || (len(data) > 0 && ended != es) {
				run.Fail("h2frame:mosn-writeData-roundtrip", "DATA written by MFramer.writeData does not read back as the payload", map[string]interface{}{"len": len(data), "es": es})
			}
		}
		// HEADERS through both writers
		frag := r.Bytes(r.Intn(60))
		eh := r.Bool()
		hp := xh2.HeadersFrameParam{StreamID: sid, BlockFragment: frag, EndStream: es, EndHeaders: eh}
		pcoq := "None"
		if r.Pct(40) {
			hp.Priority = xh2.PriorityParam{StreamDep: uint32(r.Intn(1 << 31)), Exclusive: r.Bool(), Weight: uint8(r.Intn(256))}
			if !hp.Priority.IsZero() {
				pcoq = fmt.Sprintf("(Some (mkPrio %s %s %s))", CoqN(uint64(hp.Priority.StreamDep)), CoqBool(hp.Priority.Exclusive), CoqN(uint64(hp.Priority.Weight)))
			}
		}
		hpn := -1
		if r.Pct(30) {
			hp.PadLength = uint8(1 + r.Intn(255))
			hpn = int(hp.PadLength)
		}
		hcoq := fmt.Sprintf("AHeaders %s %s %s %s %s %s", CoqN(uint64(sid)), CoqBool(es), CoqBool(eh), pcoq, cb(frag), optN(hpn))
		w.Reset()
		xf.WriteHeaders(hp)
		xb := append([]byte(nil), w.Bytes()...)
		add(hcoq, xb, "x/net-headers")
		fc.out.Reset()
		mf.VerifWriteHeaders(mh2.HeadersFrameParam{StreamID: sid, BlockFragment: frag, EndStream: es, EndHeaders: eh, PadLength: hp.PadLength,
			Priority: mh2.PriorityParam{StreamDep: hp.Priority.StreamDep, Exclusive: hp.Priority.Exclusive, Weight: hp.Priority.Weight}})
		add(hcoq, fc.out.Bytes(), "mosn-headers")
		if !bytes.Equal(xb, fc.out.Bytes()) {
			run.Fail("h2frame:mosn-writeHeaders-differs", "MFramer.writeHeaders and x/net WriteHeaders produce different bytes", map[string]interface{}{"mosn": Hex(fc.out.Bytes()), "xnet": Hex(xb)})
		}
		// CONTINUATION
		w.Reset()
		xf.WriteContinuation(sid, eh, frag)
		ccoq := fmt.Sprintf("ACont %s %s %s", CoqN(uint64(sid)), CoqBool(eh), cb(frag))
		add(ccoq, w.Bytes(), "x/net-continuation")
		fc.out.Reset()
		mf.VerifWriteContinuation(sid, eh, frag)
		add(ccoq, fc.out.Bytes(), "mosn-continuation")
		// SETTINGS
		var xs []xh2.Setting
		var ms []mh2.Setting
		var sc []string
		for k := 0; k < r.Intn(5); k++ {
			id, v := uint16(r.Intn(10)), uint32(r.U64())
			xs = append(xs, xh2.Setting{ID: xh2.SettingID(id), Val: v})
			ms = append(ms, mh2.Setting{ID: mh2.SettingID(id), Val: v})
			sc = append(sc, fmt.Sprintf("(%s, %s)", CoqN(uint64(id)), CoqN(uint64(v))))
		}
		w.Reset()
		xf.WriteSettings(xs...)
		add(fmt.Sprintf("ASettings false %s", CoqList(sc)), w.Bytes(), "x/net-settings")
		fc.out.Reset()
		mf.VerifWriteSettings(ms)
		add(fmt.Sprintf("ASettings false %s", CoqList(sc)), fc.out.Bytes(), "mosn-settings")
		// WINDOW_UPDATE
		inc := uint32(1 + r.Intn(1<<uint(1+r.Intn(30))))
		wsid := sid
		if r.Bool() {
			wsid = 0
		}
		w.Reset()
		xf.WriteWindowUpdate(wsid, inc)
		add(fmt.Sprintf("AWinUpd %s %s", CoqN(uint64(wsid)), CoqN(uint64(inc))), w.Bytes(), "x/net-winupd")
		fc.out.Reset()
		mf.VerifWriteWindowUpdate(wsid, inc)
		add(fmt.Sprintf("AWinUpd %s %s", CoqN(uint64(wsid)), CoqN(uint64(inc))), fc.out.Bytes(), "mosn-winupd")
		// the remaining x/net writers
		w.Reset()
		pp := xh2.PriorityParam{StreamDep: uint32(r.Intn(1 << 31)), Exclusive: r.Bool(), Weight: uint8(r.Intn(256))}
		xf.WritePriority(sid, pp)
		add(fmt.Sprintf("APriority %s (mkPrio %s %s %s)", CoqN(uint64(sid)), CoqN(uint64(pp.StreamDep)), CoqBool(pp.Exclusive), CoqN(uint64(pp.Weight))), w.Bytes(), "x/net-priority")
		w.Reset()
		code := uint32(r.U64())
		xf.WriteRSTStream(sid, xh2.ErrCode(code))
		add(fmt.Sprintf("ARst %s %s", CoqN(uint64(sid)), CoqN(uint64(code))), w.Bytes(), "x/net-rst")
		w.Reset()
		var pd [8]byte
		copy(pd[:], r.Bytes(8))
		ack := r.Bool()
		xf.WritePing(ack, pd)
		add(fmt.Sprintf("APing %s %s", CoqBool(ack), cb(pd[:])), w.Bytes(), "x/net-ping")
		w.Reset()
		last := uint32(r.Intn(1 << 31))
		dbg := r.Bytes(r.Intn(12))
		xf.WriteGoAway(last, xh2.ErrCode(code), dbg)
		add(fmt.Sprintf("AGoAway %s %s %s", CoqN(uint64(last)), CoqN(uint64(code)), cb(dbg)), w.Bytes(), "x/net-goaway")
		w.Reset()
		prom := uint32(r.Intn(1 << 31))
		ppn := -1
		ppp := xh2.PushPromiseParam{StreamID: sid, PromiseID: prom, BlockFragment: frag, EndHeaders: eh}
		if r.Pct(30) {
			ppp.PadLength = uint8(1 + r.Intn(40))
			ppn = int(ppp.PadLength)
		}
		xf.WritePushPromise(ppp)
		add(fmt.Sprintf("APush %s %s %s %s %s", CoqN(uint64(sid)), CoqN(uint64(prom)), CoqBool(eh), cb(frag), optN(ppn)), w.Bytes(), "x/net-push")
	}
}

func framesPreface(run *Run, ss *shardSet) {
	r := run.R
	pre := []byte(xh2.ClientPreface)
	var ins [][]byte
	for c := 0; c <= len(pre); c++ {
		ins = append(ins, pre[:c])
	}
	ins = append(ins, append(append([]byte(nil), pre...), 0, 0, 0, 4, 0, 0, 0, 0, 0))
	for i := 0; i < 30; i++ {
		b := append([]byte(nil), pre...)
		b[r.Intn(len(b))] ^= byte(1 << uint(r.Intn(8)))
		ins = append(ins, b[:12+r.Intn(len(b)-11)])
	}
	for _, in := range ins {
		sc := mh2.NewServerConn(&fakeConn{})
		buf := buffer.NewIoBufferBytes(append([]byte(nil), in...))
		err := sc.Framer.ReadPreface(buf)
		code := 0
		switch {
		case err == mh2.ErrAGAIN:
			code = 1
		case err != nil:
			code = 2
		}
		// finder: a proper prefix of the preface must ask for more and consume nothing
		if len(in) < len(pre) && bytes.Equal(in, pre[:len(in)]) && (code != 1 || buf.Len() != len(in)) {
			run.Fail("h2frame:preface-prefix", fmt.Sprintf("ReadPreface on a %d-byte prefix of the preface: code %d, buffered %d", len(in), code, buf.Len()), map[string]interface{}{"in": Hex(in)})
		}
		ss.add("pre", frameHeader, "pre_case", "pre_mismatches", 400, fmt.Sprintf("(%s, %s)", cb(in), CoqN(uint64(code))), map[string]interface{}{"part": "preface", "in": Hex(in)})
		run.Count("pre|"+Hex(in), true, "preface")
	}
}

// after a connection error the buffer is no longer observed
func residueIfAlive(residue int, dead bool) int {
	if dead {
		return 0
	}
	return residue
}

// framesPaddedBoundaries: every padded frame type (DATA, HEADERS with and without PRIORITY, PUSH_PROMISE) in its
// boundary shapes - pad length 0, pad length = everything after the fixed fields (zero content), one and two bytes
// less, a payload consisting of the Pad Length octet only - plus the first invalid pad length, each followed by a
// PING.  MOSN's MFramer, x/net's Framer and the model are compared frame by frame.
func framesPaddedBoundaries(run *Run, ss *shardSet) {
	sw := srcSwitches()
	type shape struct {
		typ     string
		ftype   byte
		flags   byte
		fixed   []byte // after the Pad Length octet, before the content
		content [][]byte
	}
	prio := []byte{0x80, 0, 0, 3, 200}
	shapes := []shape{
		{"data", 0, 0x8, nil, [][]byte{{}, {7}, {7, 8}, bytes.Repeat([]byte{9}, 20)}},
		{"data-endstream", 0, 0x9, nil, [][]byte{{}, {7}}},
		{"headers", 1, 0x8 | 0x4, nil, [][]byte{{}, {0x82}, {0x82, 0x86}}},
		{"headers-priority", 1, 0x8 | 0x4 | 0x20, prio, [][]byte{{}, {0x82}, {0x82, 0x86}}},
		{"push-promise", 5, 0x8 | 0x4, []byte{0, 0, 0, 2}, [][]byte{{}, {0x82}, {0x82, 0x86}}},
	}
	for _, sh := range shapes {
		for _, c := range sh.content {
			for _, k := range []int{0, 1, 2, 255} {
				for _, short := range []int{0, 1} { // short=1: one padding octet missing => pad length larger than what follows
					if abortRun {
						return
					}
					if short == 1 && k == 0 {
						continue
					}
					payload := append([]byte{byte(k)}, sh.fixed...)
					payload = append(payload, c...)
					payload = append(payload, make([]byte, k-short)...)
					if short == 1 { // make the announced padding exceed the remaining bytes entirely
						payload = append([]byte{byte(len(c) + k - short + 1)}, payload[1:]...)
					}
					var w bytes.Buffer
					fr := xh2.NewFramer(&w, nil)
					fr.AllowIllegalWrites = true
					fr.WriteRawFrame(xh2.FrameType(sh.ftype), xh2.Flags(sh.flags), 1, payload)
					fr.WritePing(false, [8]byte{1, 2, 3, 4, 5, 6, 7, 8})
					data := append([]byte(nil), w.Bytes()...)
					mevs, residue, dead := runMosn(sw["h2_dispatch_continues"], [][]byte{data})
					xevs := runXnet(data)
					valid := short == 0
					rep := map[string]interface{}{"part": "padded-boundary", "type": sh.typ, "content": len(c), "pad_length": int(payload[0]), "payload": len(payload), "stream": Hex(data)}
					run.Count(fmt.Sprintf("padb|%s|%d|%d|%d", sh.typ, len(c), k, short), true, "padded-boundary:"+sh.typ, fmt.Sprintf("padded-boundary-valid=%v", valid))
					bad := false
					for _, e := range mevs {
						if e.Err == "PANIC" || e.Err == "HANG" {
							bad = true
							run.Fail("h2frame:reader-panic-or-hang", fmt.Sprintf("MFramer.ReadFrame %s on a padded %s frame (content %d, pad length %d)", e.Err, sh.typ, len(c), payload[0]), rep)
						}
					}
					if bad {
						continue
					}
					// finder: a valid padded frame is returned (first event a frame, then the PING), identically by both parsers
					if valid && (len(mevs) != 2 || mevs[0].Frame == nil || mevs[1].Frame == nil) {
						run.Fail("h2frame:valid-frame-rejected:"+sh.typ, fmt.Sprintf("MFramer rejects a valid PADDED %s frame with %d content byte(s) and pad length %d (payload %d bytes): events %s", sh.typ, len(c), payload[0], len(payload), eventsCoq(mevs)), rep)
					} else if compareReference && !eventsEqual(mevs, xevs) {
						run.Fail("h2frame:parsers-disagree:"+sh.typ, fmt.Sprintf("padded %s frame (content %d, pad length %d, payload %d): MFramer %s, x/net %s", sh.typ, len(c), payload[0], len(payload), eventsCoq(mevs), eventsCoq(xevs)), rep)
					}
					// the forked plain Framer (frame.go ReadFrame) as well
					ff := mh2.NewFramer(nil, bytes.NewReader(data))
					f1, e1 := ff.ReadFrame()
					if valid && (e1 != nil || f1 == nil) {
						run.Fail("h2frame:valid-frame-rejected:"+sh.typ, fmt.Sprintf("Framer.ReadFrame (frame.go) rejects a valid PADDED %s frame with %d content byte(s) and pad length %d: %v", sh.typ, len(c), payload[0], e1), rep)
					}
					ss.add("frp", frameHeader, "fr_case", "fr_mismatches", 200,
						fmt.Sprintf("(%s, [[]], %s, %s, %s)", cb(data), eventsCoq(mevs), CoqN(uint64(residueIfAlive(residue, dead))), CoqBool(dead)), rep)
				}
			}
		}
	}
}
