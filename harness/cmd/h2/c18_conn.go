package main

// C18, MOSN's own use of HPACK and framing on REAL connections: responses written by MServerConn
// (writeHeaders: hpack encoder + HEADERS/CONTINUATION split) and requests written by MClientConn are read by
// the reference implementation (x/net Framer + hpack decoder) and must carry exactly the header fields that
// were set, across SETTINGS_HEADER_TABLE_SIZE changes announced by the peer.

import (
	"bytes"
	"context"
	"fmt"
	"net/http"
	"sort"
	"strings"

	xh2 "golang.org/x/net/http2"
	xhpack "golang.org/x/net/http2/hpack"
	mh2 "mosn.io/mosn/pkg/module/http2"
	"mosn.io/pkg/buffer"

	. "vh/vhlib"
)

func genHTTPHeader(r *Rng, big bool) http.Header {
	h := http.Header{}
	n := 1 + r.Intn(6)
	for i := 0; i < n; i++ {
		name := []string{"X-Req-Id", "Cookie", "X-A", "X-B", "X-C", "X-Long-Name-For-Tests", "Accept", "X-Trace"}[r.Intn(8)]
		var v string
		switch r.Intn(4) {
		case 0:
			v = fmt.Sprintf("%x", r.Bytes(r.Intn(24)))
		case 1:
			v = commonValues[r.Intn(len(commonValues))]
		case 2:
			v = strings.Repeat("y", r.Intn(200))
		default:
			v = "v" + fmt.Sprint(r.Intn(5))
		}
		h.Add(name, v)
	}
	if big { // a header block larger than one frame: forces CONTINUATION
		for i := 0; i < 3+r.Intn(3); i++ {
			h.Add(fmt.Sprintf("X-Big-%d", i), fmt.Sprintf("%x", r.Bytes(4000+r.Intn(3000))))
		}
	}
	return h
}

func flatHeader(h http.Header) []string {
	var out []string
	for k, vv := range h {
		for _, v := range vv {
			out = append(out, strings.ToLower(k)+"="+v)
		}
	}
	sort.Strings(out)
	return out
}

// readAllXnet parses everything in b with the reference framer; returns the MetaHeaders frames per stream
func readAllXnet(dec *xhpack.Decoder, b []byte) (metas []*xh2.MetaHeadersFrame, nframes int, ncont int, err error) {
	fr := xh2.NewFramer(nil, bytes.NewReader(b))
	fr.ReadMetaHeaders = dec
	fr.MaxHeaderListSize = 1 << 20
	// count CONTINUATION frames with a second, raw pass
	raw := xh2.NewFramer(nil, bytes.NewReader(b))
	for {
		f, e := raw.ReadFrame()
		if e != nil {
			break
		}
		if f.Header().Type == xh2.FrameContinuation {
			ncont++
		}
	}
	for {
		f, e := fr.ReadFrame()
		if e != nil {
			if e.Error() == "EOF" {
				return metas, nframes, ncont, nil
			}
			return metas, nframes, ncont, e
		}
		nframes++
		if mh, ok := f.(*xh2.MetaHeadersFrame); ok {
			cp := *mh
			cp.Fields = append([]xhpack.HeaderField(nil), mh.Fields...)
			metas = append(metas, &cp)
		}
	}
}

func connHeaders(run *Run, n int) {
	r := run.R
	ctx := context.Background()
	for s := 0; s < n; s++ {
		if abortRun {
			return
		}
		// ---------------- server: responses
		fc := &fakeConn{}
		sc := mh2.NewServerConn(fc)
		var hb bytes.Buffer
		cenc := xhpack.NewEncoder(&hb)
		xdec := xhpack.NewDecoder(4096, nil) // the peer's decoder of what MOSN writes
		feed := func(wr func(fr *xh2.Framer)) error {
			var w bytes.Buffer
			wr(xh2.NewFramer(&w, nil))
			buf := buffer.NewIoBufferBytes(append([]byte(nil), w.Bytes()...))
			for buf.Len() > 0 {
				f, _, err := sc.Framer.ReadFrame(ctx, buf, 0)
				if err != nil {
					return err
				}
				if _, _, _, _, err = sc.HandleFrame(ctx, f); err != nil {
					return err
				}
			}
			return nil
		}
		nresp := 2 + r.Intn(4)
		rep := map[string]interface{}{"part": "conn-headers", "side": "server"}
		var trace []interface{}
		okRun := true
		for i := 0; i < nresp && okRun; i++ {
			sid := uint32(1 + 2*i)
			upd := 0
			for r.Pct(30) && upd < 2 { // the peer changes its header table size (0..4096)
				v := tableSizes[r.Intn(len(tableSizes))]
				if v > 4096 {
					v = 4096
				}
				feed(func(fr *xh2.Framer) { fr.WriteSettings(xh2.Setting{ID: xh2.SettingHeaderTableSize, Val: v}) })
				xdec.SetAllowedMaxDynamicTableSize(4096)
				trace = append(trace, map[string]interface{}{"settings_header_table_size": v})
				upd++
			}
			// open the stream with a request
			hb.Reset()
			for _, f := range []xhpack.HeaderField{{Name: ":method", Value: "GET"}, {Name: ":scheme", Value: "http"}, {Name: ":path", Value: "/"}, {Name: ":authority", Value: "h"}} {
				cenc.WriteField(f)
			}
			var ms *mh2.MStream
			var w bytes.Buffer
			xh2.NewFramer(&w, nil).WriteHeaders(xh2.HeadersFrameParam{StreamID: sid, BlockFragment: hb.Bytes(), EndHeaders: true, EndStream: true})
			buf := buffer.NewIoBufferBytes(append([]byte(nil), w.Bytes()...))
			f, _, err := sc.Framer.ReadFrame(ctx, buf, 0)
			if err == nil {
				ms, _, _, _, err = sc.HandleFrame(ctx, f)
			}
			if err != nil || ms == nil {
				run.Fail("h2conn:server-refuses-valid-request", fmt.Sprintf("request %d: %v", i, err), rep)
				okRun = false
				break
			}
			hdr := genHTTPHeader(r, r.Pct(25))
			hdr.Set("Date", "Thu, 01 Jan 1970 00:00:00 GMT")
			want := flatHeader(hdr)
			status := []int{200, 204, 404, 500}[r.Intn(4)]
			ms.Response = &http.Response{StatusCode: status, Header: hdr.Clone()}
			fc.out.Reset()
			perr := guarded(func() error { return ms.SendResponse() })
			out := append([]byte(nil), fc.out.Bytes()...)
			trace = append(trace, map[string]interface{}{"response": sid, "status": status, "headers": want, "bytes": len(out)})
			rep["trace"] = trace
			if perr != nil {
				run.Fail("h2conn:server-write-failed", fmt.Sprintf("SendResponse: %v", perr), rep)
				okRun = false
				break
			}
			metas, _, ncont, xerr := readAllXnet(xdec, out)
			if xerr != nil {
				sig := "h2conn:reference-rejects-mosn-response"
				if strings.Contains(xerr.Error(), "COMPRESSION") && upd >= 2 {
					sig = "hpack:second-size-update-rejected:xnet-decoder"
				}
				run.Fail(sig, fmt.Sprintf("x/net cannot read response %d written by MServerConn (%d table-size changes before it): %v", i, upd, xerr), rep)
				okRun = false
				break
			}
			if len(metas) != 1 {
				run.Fail("h2conn:reference-misreads-mosn-response", fmt.Sprintf("response %d: %d header frames read", i, len(metas)), rep)
				okRun = false
				break
			}
			var got []string
			st := ""
			for _, f := range metas[0].Fields {
				switch f.Name {
				case ":status":
					st = f.Value
				case "content-length":
				default:
					got = append(got, f.Name+"="+f.Value)
				}
			}
			sort.Strings(got)
			if st != fmt.Sprint(status) || strings.Join(got, "\n") != strings.Join(want, "\n") || metas[0].StreamID != sid {
				run.Fail("h2conn:response-headers-altered", fmt.Sprintf("response %d read by x/net: status %q fields %v; written: status %d fields %v", i, st, got, status, want), rep)
				okRun = false
			}
			run.Count(fmt.Sprintf("connsrv|%d|%v", status, want), true, "conn-response", fmt.Sprintf("conn-response-continuations=%d", min(ncont, 3)), fmt.Sprintf("conn-table-size-changes=%d", upd))
		}
		// ---------------- client: requests
		fcc := &fakeConn{}
		cc := mh2.NewClientConn(fcc)
		cc.WriteInitFrame()
		sdec := xhpack.NewDecoder(4096, nil)
		fcc.out.Reset()
		repc := map[string]interface{}{"part": "conn-headers", "side": "client"}
		for i := 0; i < 1+r.Intn(4); i++ {
			hdr := genHTTPHeader(r, r.Pct(25))
			want := flatHeader(hdr)
			req, _ := http.NewRequest([]string{"GET", "POST"}[r.Intn(2)], "http://up.example/p"+fmt.Sprint(r.Intn(9)), nil)
			req.Header = hdr.Clone()
			fcc.out.Reset()
			var perr error
			perr = guarded(func() error { _, e := cc.WriteHeaders(ctx, req, "", true); return e })
			out := append([]byte(nil), fcc.out.Bytes()...)
			repc["request"] = want
			if perr != nil {
				run.Fail("h2conn:client-write-failed", fmt.Sprintf("WriteHeaders: %v", perr), repc)
				break
			}
			metas, _, ncont, xerr := readAllXnet(sdec, out)
			if xerr != nil || len(metas) != 1 {
				run.Fail("h2conn:reference-rejects-mosn-request", fmt.Sprintf("x/net cannot read request %d written by MClientConn: %v (%d header frames)", i, xerr, len(metas)), repc)
				break
			}
			var got []string
			pseudo := map[string]string{}
			for _, f := range metas[0].Fields {
				switch {
				case strings.HasPrefix(f.Name, ":"):
					pseudo[f.Name] = f.Value
				case f.Name == "accept-encoding" && f.Value == "gzip", f.Name == "content-length":
				case f.Name == "user-agent" && hdr.Get("User-Agent") == "":
				default:
					got = append(got, f.Name+"="+f.Value)
				}
			}
			sort.Strings(got)
			if pseudo[":method"] != req.Method || pseudo[":path"] != req.URL.Path || pseudo[":authority"] != "up.example" || strings.Join(got, "\n") != strings.Join(want, "\n") {
				run.Fail("h2conn:request-headers-altered", fmt.Sprintf("request %d read by x/net: pseudo %v fields %v; written: %s %s fields %v", i, pseudo, got, req.Method, req.URL.Path, want), repc)
				break
			}
			run.Count(fmt.Sprintf("conncli|%v", want), true, "conn-request", fmt.Sprintf("conn-request-continuations=%d", min(ncont, 3)))
		}
	}
}
