package main

func c07(args []string) int   { return 0 }
func c08(args []string) int   { return 0 }
func probe(args []string) int { return 0 }
