package main

// C02 (HTTP/2 part): nobody receives someone else's answer.  The real stream/http2 client (and server) stream
// connection demultiplexes the frames of interleaved streams; what it hands to the receiver registered for a stream
// must be that stream's headers and exactly the concatenation of that stream's DATA payloads - and must STAY that,
// however many later reads refill the connection's read buffer (the proxy keeps the body by reference until a worker
// writes it downstream).  The upstream bytes go through the real read-buffer path: ONE IoBuffer, ReadOnce, Dispatch,
// next ReadOnce into the same buffer (network.connection.doRead / onRead).

import (
	"bytes"
	"context"
	"fmt"
	"sort"
	"strings"

	xh2 "golang.org/x/net/http2"
	xhpack "golang.org/x/net/http2/hpack"
	"mosn.io/api"
	"mosn.io/mosn/pkg/protocol"
	"mosn.io/mosn/pkg/stream"
	_ "mosn.io/mosn/pkg/stream/http2"
	"mosn.io/mosn/pkg/types"
	"mosn.io/pkg/buffer"
	"mosn.io/pkg/variable"

	. "vh/vhlib"
)

const demuxHeader = "From MV Require Import Lib.HBits Lib.HCaseIO Model.H2Demux Model.H2DemuxCases.\nFrom Coq Require Import List NArith Bool.\nImport ListNotations.\nOpen Scope N_scope.\n" + ubDefs

type c02Conn struct {
	dispConn
}

func (c *c02Conn) Connect() error { return nil }
func (c *c02Conn) SetMark(uint32) {}

type c02Events struct{}

func (c02Events) OnGoAway() {}

// what a receiver was given - kept BY REFERENCE
type c02Delivery struct {
	headers  api.HeaderMap
	data     buffer.IoBuffer
	trailers api.HeaderMap
	atOnce   []byte // copy of the body taken at delivery time
}

type c02Receiver struct {
	name string
	got  []c02Delivery
	errs int
}

func (r *c02Receiver) OnReceive(ctx context.Context, headers api.HeaderMap, data buffer.IoBuffer, trailers api.HeaderMap) {
	d := c02Delivery{headers: headers, data: data, trailers: trailers}
	if data != nil {
		d.atOnce = append([]byte(nil), data.Bytes()...)
	}
	r.got = append(r.got, d)
}
func (r *c02Receiver) OnDecodeError(ctx context.Context, err error, headers api.HeaderMap) { r.errs++ }

// one frame of the scripted peer
type c02Frame struct {
	Kind string `json:"k"` // head data trail
	SID  uint32 `json:"sid"`
	Tok  string `json:"tok,omitempty"` // exchange token carried in the headers
	P    []byte `json:"p,omitempty"`
	ES   bool   `json:"es,omitempty"`
}

func (f c02Frame) coq() string {
	switch f.Kind {
	case "head":
		return fmt.Sprintf("FHead %s %s %s", CoqN(uint64(f.SID)), cb([]byte(f.Tok)), CoqBool(f.ES))
	case "data":
		return fmt.Sprintf("FData %s %s %s", CoqN(uint64(f.SID)), cb(f.P), CoqBool(f.ES))
	default:
		return fmt.Sprintf("FTrail %s %s", CoqN(uint64(f.SID)), cb([]byte(f.Tok)))
	}
}

// a body plan: how one exchange's body is framed
func c02BodyPlan(r *Rng, sid uint32, tok string, body []byte, withTrailer bool) []c02Frame {
	fs := []c02Frame{{Kind: "head", SID: sid, Tok: tok, ES: len(body) == 0 && !withTrailer && r.Bool()}}
	if fs[0].ES {
		return fs
	}
	switch shape := r.Intn(4); {
	case len(body) == 0:
		if !withTrailer {
			fs = append(fs, c02Frame{Kind: "data", SID: sid, P: []byte{}, ES: true})
		}
	case shape == 0: // one DATA frame carrying END_STREAM
		fs = append(fs, c02Frame{Kind: "data", SID: sid, P: body, ES: !withTrailer})
	case shape == 1: // several frames
		rest := body
		for len(rest) > 0 {
			n := 1 + r.Intn(len(rest))
			fs = append(fs, c02Frame{Kind: "data", SID: sid, P: rest[:n], ES: !withTrailer && n == len(rest)})
			rest = rest[n:]
		}
	case shape == 2: // body, then an empty final DATA
		fs = append(fs, c02Frame{Kind: "data", SID: sid, P: body})
		if !withTrailer {
			fs = append(fs, c02Frame{Kind: "data", SID: sid, P: []byte{}, ES: true})
		}
	default: // two halves
		h := len(body) / 2
		fs = append(fs, c02Frame{Kind: "data", SID: sid, P: body[:h]}, c02Frame{Kind: "data", SID: sid, P: body[h:], ES: !withTrailer})
	}
	if withTrailer {
		fs = append(fs, c02Frame{Kind: "trail", SID: sid, Tok: tok})
	}
	return fs
}

// interleave keeps the order within each plan
func c02Interleave(r *Rng, plans [][]c02Frame) []c02Frame {
	var out []c02Frame
	idx := make([]int, len(plans))
	for {
		var live []int
		for i := range plans {
			if idx[i] < len(plans[i]) {
				live = append(live, i)
			}
		}
		if len(live) == 0 {
			return out
		}
		i := live[r.Intn(len(live))]
		out = append(out, plans[i][idx[i]])
		idx[i]++
	}
}

type c02Wire struct {
	out bytes.Buffer
	fr  *xh2.Framer
	hb  bytes.Buffer
	enc *xhpack.Encoder
}

func newC02Wire() *c02Wire {
	w := &c02Wire{}
	w.fr = xh2.NewFramer(&w.out, nil)
	w.enc = xhpack.NewEncoder(&w.hb)
	return w
}

func (w *c02Wire) frame(f c02Frame, response bool) []byte {
	w.out.Reset()
	switch f.Kind {
	case "head":
		w.hb.Reset()
		if response {
			w.enc.WriteField(xhpack.HeaderField{Name: ":status", Value: "200"})
		} else {
			for _, h := range []xhpack.HeaderField{{Name: ":method", Value: "POST"}, {Name: ":scheme", Value: "http"}, {Name: ":path", Value: "/" + f.Tok}, {Name: ":authority", Value: "h"}} {
				w.enc.WriteField(h)
			}
		}
		w.enc.WriteField(xhpack.HeaderField{Name: "x-exchange", Value: f.Tok})
		w.fr.WriteHeaders(xh2.HeadersFrameParam{StreamID: f.SID, BlockFragment: w.hb.Bytes(), EndHeaders: true, EndStream: f.ES})
	case "data":
		w.fr.WriteData(f.SID, f.ES, f.P)
	case "trail":
		w.hb.Reset()
		w.enc.WriteField(xhpack.HeaderField{Name: "x-trailer", Value: f.Tok})
		w.fr.WriteHeaders(xh2.HeadersFrameParam{StreamID: f.SID, BlockFragment: w.hb.Bytes(), EndHeaders: true, EndStream: true})
	}
	return append([]byte(nil), w.out.Bytes()...)
}

type c02Obs struct {
	SID    uint32
	Tok    string // x-exchange of the headers delivered
	Final  []byte // the retained body buffer read at the END of the history
	AtOnce []byte
	Calls  int
	HasBuf bool
}

func (o c02Obs) coq() string {
	return fmt.Sprintf("(%s, %s, %s)", CoqN(uint64(o.SID)), cb([]byte(o.Tok)), cb(o.Final))
}

func headerTok(h api.HeaderMap) string {
	if h == nil {
		return ""
	}
	v, _ := h.Get("x-exchange")
	if v == "" {
		v, _ = h.Get("X-Exchange")
	}
	return v
}

// c02Run plays a history (frames grouped into reads) against a real client or server stream connection
func c02Run(side string, sids []uint32, toks map[uint32]string, reads [][]c02Frame) (obs []c02Obs, perr error) {
	ctxBase := variable.NewVariableContext(context.Background())
	conn := &c02Conn{}
	recvs := map[uint32]*c02Receiver{}
	readBuffer := buffer.GetIoBuffer(1 << 14)
	wire := newC02Wire()
	var dispatch func(buffer.IoBuffer)
	perr = guarded(func() error {
		factory, _ := protocol.GetProtocolStreamFactory(protocol.HTTP2)
		read := func(b []byte) {
			rd := bytes.NewReader(b)
			for rd.Len() > 0 {
				readBuffer.ReadOnce(rd)
				dispatch(readBuffer)
			}
		}
		if side == "client" {
			sc := factory.CreateClientStream(ctxBase, conn, c02Events{}, nil)
			sc.(api.ConnectionEventListener).OnEvent(api.Connected)
			dispatch = sc.Dispatch
			wire.fr.WriteSettings()
			read(append([]byte(nil), wire.out.Bytes()...))
			for _, sid := range sids { // streams are opened in id order: 1, 3, 5, ...
				ctx := variable.NewVariableContext(buffer.NewBufferPoolContext(context.Background()))
				variable.SetString(ctx, types.VarMethod, "GET")
				variable.SetString(ctx, types.VarHost, "up.test")
				variable.SetString(ctx, types.VarPath, "/"+toks[sid])
				rc := &c02Receiver{name: toks[sid]}
				recvs[sid] = rc
				sender := sc.NewStream(ctx, rc)
				if err := sender.AppendHeaders(ctx, protocol.CommonHeader{"x-request": toks[sid]}, true); err != nil {
					return err
				}
			}
		} else {
			l := &c02Listener{recvs: recvs}
			sc := stream.CreateServerStreamConnection(ctxBase, protocol.HTTP2, conn, l)
			dispatch = sc.Dispatch
			pre := append([]byte(xh2.ClientPreface), func() []byte { wire.fr.WriteSettings(); return wire.out.Bytes() }()...)
			read(append([]byte(nil), pre...))
		}
		for _, rdFrames := range reads {
			var b []byte
			for _, f := range rdFrames {
				b = append(b, wire.frame(f, side == "client")...)
			}
			read(b)
		}
		return nil
	})
	if perr != nil {
		return nil, perr
	}
	for _, sid := range sids {
		rc := recvs[sid]
		o := c02Obs{SID: sid}
		if rc != nil {
			o.Calls = len(rc.got)
			if len(rc.got) > 0 {
				d := rc.got[0]
				o.Tok = headerTok(d.headers)
				if d.data != nil {
					o.HasBuf = true
					o.Final = append([]byte(nil), d.data.Bytes()...) // read NOW, after every later read
					o.AtOnce = d.atOnce
				}
			}
		}
		obs = append(obs, o)
	}
	return obs, nil
}

type c02Listener struct {
	recvs map[uint32]*c02Receiver
}

func (l *c02Listener) OnGoAway() {}
func (l *c02Listener) NewStreamDetect(ctx context.Context, sender types.StreamSender, span api.Span) types.StreamReceiveListener {
	rc := &c02Receiver{}
	l.recvs[uint32(sender.GetStream().ID())] = rc
	return rc
}

func c02(args []string) int {
	run := NewRun("C02", args)
	run.Sum.Rule = "h2: 2-5 exchanges multiplexed on ONE real stream/http2 client (responses) or server (requests) stream connection; each body (0..700 bytes, a distinct letter per exchange) framed as one DATA+END_STREAM / several DATA / DATA + empty final DATA / two halves, 25% with trailers, HEADERS+END_STREAM for some empty bodies; the frames of the exchanges interleaved in random order (order kept within an exchange) and grouped into reads of 1..all frames, plus the scripted shape 'A complete in read 1, B in read 2'; every read goes through ONE reused IoBuffer (ReadOnce, Dispatch). Every delivered body buffer is retained BY REFERENCE and read at the end of the history. Non-trivial: >= 2 exchanges; distinct by the frame sequence and grouping."
	ss := newShardSet(run)
	r := run.R
	for _, side := range []string{"client", "server"} {
		n := run.N(120, 1500)
		for s := 0; s < n; s++ {
			if abortRun {
				break
			}
			nx := 2 + r.Intn(4)
			var sids []uint32
			toks := map[uint32]string{}
			bodies := map[uint32][]byte{}
			var plans [][]c02Frame
			for i := 0; i < nx; i++ {
				sid := uint32(1 + 2*i)
				sids = append(sids, sid)
				toks[sid] = fmt.Sprintf("ex%c%d", 'A'+i, s)
				body := bytes.Repeat([]byte{byte('A' + i)}, []int{0, 1, 60, 300, 700}[r.Intn(5)])
				bodies[sid] = body
				plans = append(plans, c02BodyPlan(r, sid, toks[sid], body, r.Pct(25)))
			}
			var frames []c02Frame
			if s%4 == 0 { // scripted: whole exchanges one after the other, each in its own read
				for _, p := range plans {
					frames = append(frames, p...)
				}
			} else {
				frames = c02Interleave(r, plans)
			}
			var reads [][]c02Frame
			if s%4 == 0 {
				i := 0
				for _, p := range plans {
					reads = append(reads, frames[i:i+len(p)])
					i += len(p)
				}
			} else {
				for i := 0; i < len(frames); {
					k := 1 + r.Intn(len(frames)-i)
					if r.Pct(50) && k > 2 {
						k = 1 + r.Intn(2)
					}
					reads = append(reads, frames[i:i+k])
					i += k
				}
			}
			if side == "server" {
				// a client must open its streams with increasing ids: relabel the exchanges in the order in
				// which their HEADERS appear
				next := uint32(1)
				relabel := map[uint32]uint32{}
				for _, f := range frames {
					if _, ok := relabel[f.SID]; !ok {
						relabel[f.SID] = next
						next += 2
					}
				}
				nt, nb := map[uint32]string{}, map[uint32][]byte{}
				for o, n := range relabel {
					nt[n], nb[n] = toks[o], bodies[o]
				}
				toks, bodies = nt, nb
				for i := range reads {
					for j := range reads[i] {
						reads[i][j].SID = relabel[reads[i][j].SID]
					}
				}
			}
			obs, perr := c02Run(side, sids, toks, reads)
			rep := map[string]interface{}{"part": "h2-demux", "side": side, "reads": reads}
			if perr != nil {
				run.Fail("h2stream:panic-or-hang", side+" stream connection: "+perr.Error(), rep)
				continue
			}
			bad := false
			for _, o := range obs {
				want := bodies[o.SID]
				switch {
				case o.Calls != 1:
					run.Fail("h2stream:response-to-wrong-receiver", fmt.Sprintf("%s: the receiver of stream %d (exchange %s) was called %d times", side, o.SID, toks[o.SID], o.Calls), rep)
					bad = true
				case o.Tok != toks[o.SID]:
					run.Fail("h2stream:response-to-wrong-receiver", fmt.Sprintf("%s: the receiver of stream %d (exchange %s) was given the headers of exchange %q", side, o.SID, toks[o.SID], o.Tok), rep)
					bad = true
				case o.HasBuf && !bytes.Equal(o.AtOnce, want):
					run.Fail("h2stream:body-of-other-stream", fmt.Sprintf("%s: stream %d (exchange %s) delivered a body of %d bytes that is not the concatenation of its DATA payloads (%d bytes)", side, o.SID, toks[o.SID], len(o.AtOnce), len(want)), rep)
					bad = true
				case o.HasBuf && !bytes.Equal(o.Final, o.AtOnce):
					foreign := 0
					for _, c := range o.Final {
						if len(want) > 0 && c != want[0] {
							foreign++
						}
					}
					run.Fail("h2stream:body-changed-after-delivery", fmt.Sprintf("%s: the body delivered for stream %d (exchange %s, %d bytes) changed after later reads on the connection: %d of its bytes now belong to other exchanges", side, o.SID, toks[o.SID], len(want), foreign), rep)
					bad = true
				case !o.HasBuf && len(want) > 0:
					run.Fail("h2stream:body-of-other-stream", fmt.Sprintf("%s: stream %d delivered without body, %d bytes were sent", side, o.SID, len(want)), rep)
					bad = true
				}
			}
			kinds := []string{"h2-demux:" + side, fmt.Sprintf("h2-demux-exchanges=%d", nx), fmt.Sprintf("h2-demux-reads=%d", min(len(reads), 6))}
			run.Count(fmt.Sprintf("c02|%s|%v", side, reads), nx >= 2, kinds...)
			if bad {
				continue
			}
			// the model on the same history
			var rds []string
			for _, rd := range reads {
				var fs []string
				for _, f := range rd {
					fs = append(fs, f.coq())
				}
				rds = append(rds, CoqList(fs))
			}
			var os []string
			sort.Slice(obs, func(i, j int) bool { return obs[i].SID < obs[j].SID })
			for _, o := range obs {
				os = append(os, o.coq())
			}
			var open []string
			for _, sid := range sids {
				open = append(open, CoqN(uint64(sid)))
			}
			ss.add("demux-"+side, demuxHeader, "demux_case", "demux_mismatches", 150,
				fmt.Sprintf("(%s, %s, %s)", CoqList(open), CoqList(rds), CoqList(os)), rep)
			if s < 1 {
				run.Sample(map[string]interface{}{"part": "h2-demux", "side": side, "exchanges": nx, "reads": len(reads), "frames": len(frames), "tokens": strings.Join(func() []string {
					var t []string
					for _, sid := range sids {
						t = append(t, toks[sid])
					}
					return t
				}(), ",")})
			}
		}
	}
	ss.close()
	return run.Finish()
}
