package main

// HTTP/2 frame layer: observations of MOSN's MFramer and of x/net's Framer in one canonical form,
// generators of valid / corrupted frame sequences, the codec-level read loop (Dispatch over Decode).

import (
	"bytes"
	"context"
	"fmt"
	"io"
	"strings"

	xh2 "golang.org/x/net/http2"
	xhpack "golang.org/x/net/http2/hpack"
	"mosn.io/api"
	mh2 "mosn.io/mosn/pkg/module/http2"
	"mosn.io/pkg/buffer"

	. "vh/vhlib"
)

const frameHeader = "From MV Require Import Lib.HBits Lib.HCaseIO Model.Hpack Model.H2Frame Model.H2FrameCases.\nFrom Coq Require Import List NArith Bool Uint63.\nImport ListNotations.\nOpen Scope N_scope.\n" + ubDefs

// fakeConn: an api.Connection that records what is written to it.
type fakeConn struct {
	api.Connection
	out bytes.Buffer
}

func (c *fakeConn) Write(bufs ...api.IoBuffer) error {
	for _, b := range bufs {
		c.out.Write(b.Bytes())
	}
	return nil
}
func (c *fakeConn) State() api.ConnState { return api.ConnActive }

// ---------------------------------------------------------------------------------------------
// canonical frame observation

type prioObs struct {
	Dep    uint32
	Excl   bool
	Weight uint8
}

type frameObs struct {
	Len, Type, Flags, SID uint32
	Kind                  string // data headers priority rst settings push ping goaway winupd cont unknown meta
	Data                  []byte
	Prio                  *prioObs
	Code, Last, Promised  uint32
	Settings              [][2]uint32
	Fields                []hfield
	Truncated             bool
}

func (p *prioObs) coq() string {
	if p == nil {
		return "None"
	}
	return fmt.Sprintf("(Some (mkPrio %s %s %s))", CoqN(uint64(p.Dep)), CoqBool(p.Excl), CoqN(uint64(p.Weight)))
}

func (f frameObs) coq() string {
	var body string
	switch f.Kind {
	case "data":
		body = "BData " + cb(f.Data)
	case "headers":
		body = fmt.Sprintf("BHeaders %s %s", f.Prio.coq(), cb(f.Data))
	case "priority":
		body = fmt.Sprintf("BPriority (mkPrio %s %s %s)", CoqN(uint64(f.Prio.Dep)), CoqBool(f.Prio.Excl), CoqN(uint64(f.Prio.Weight)))
	case "rst":
		body = "BRst " + CoqN(uint64(f.Code))
	case "settings":
		parts := make([]string, len(f.Settings))
		for i, s := range f.Settings {
			parts[i] = fmt.Sprintf("(%s, %s)", CoqN(uint64(s[0])), CoqN(uint64(s[1])))
		}
		body = "BSettings " + CoqList(parts)
	case "push":
		body = fmt.Sprintf("BPush %s %s", CoqN(uint64(f.Promised)), cb(f.Data))
	case "ping":
		body = "BPing " + cb(f.Data)
	case "goaway":
		body = fmt.Sprintf("BGoAway %s %s %s", CoqN(uint64(f.Last)), CoqN(uint64(f.Code)), cb(f.Data))
	case "winupd":
		body = "BWinUpd " + CoqN(uint64(f.Code))
	case "cont":
		body = "BCont " + cb(f.Data)
	case "unknown":
		body = "BUnknown " + cb(f.Data)
	case "meta":
		fs := make([]string, len(f.Fields))
		for i, x := range f.Fields {
			fs[i] = fmt.Sprintf("(mkF %s %s %s)", cb([]byte(x.Name)), cb([]byte(x.Value)), CoqBool(x.Sens))
		}
		body = fmt.Sprintf("BMeta %s %s %s", f.Prio.coq(), CoqList(fs), CoqBool(f.Truncated))
	}
	return fmt.Sprintf("(mkFrame (mkFh %s %s %s %s) (%s))", CoqN(uint64(f.Len)), CoqN(uint64(f.Type)), CoqN(uint64(f.Flags)), CoqN(uint64(f.SID)), body)
}

func (f frameObs) equal(g frameObs) bool {
	return f.coq() == g.coq()
}

func obsMosn(fr mh2.Frame) frameObs {
	h := fr.Header()
	o := frameObs{Len: h.Length, Type: uint32(h.Type), Flags: uint32(h.Flags), SID: h.StreamID}
	switch f := fr.(type) {
	case *mh2.DataFrame:
		o.Kind, o.Data = "data", append([]byte(nil), f.Data()...)
	case *mh2.MetaHeadersFrame:
		o.Kind = "meta"
		if f.HasPriority() {
			o.Prio = &prioObs{f.Priority.StreamDep, f.Priority.Exclusive, f.Priority.Weight}
		}
		for _, x := range f.Fields {
			o.Fields = append(o.Fields, hfield{x.Name, x.Value, x.Sensitive})
		}
		o.Truncated = f.Truncated
	case *mh2.HeadersFrame:
		o.Kind, o.Data = "headers", append([]byte(nil), f.HeaderBlockFragment()...)
		if f.HasPriority() {
			o.Prio = &prioObs{f.Priority.StreamDep, f.Priority.Exclusive, f.Priority.Weight}
		}
	case *mh2.PriorityFrame:
		o.Kind, o.Prio = "priority", &prioObs{f.StreamDep, f.Exclusive, f.Weight}
	case *mh2.RSTStreamFrame:
		o.Kind, o.Code = "rst", uint32(f.ErrCode)
	case *mh2.SettingsFrame:
		o.Kind = "settings"
		for i := 0; i < f.NumSettings(); i++ {
			s := f.Setting(i)
			o.Settings = append(o.Settings, [2]uint32{uint32(s.ID), s.Val})
		}
	case *mh2.PushPromiseFrame:
		o.Kind, o.Promised, o.Data = "push", f.PromiseID, append([]byte(nil), f.HeaderBlockFragment()...)
	case *mh2.PingFrame:
		o.Kind, o.Data = "ping", append([]byte(nil), f.Data[:]...)
	case *mh2.GoAwayFrame:
		o.Kind, o.Last, o.Code, o.Data = "goaway", f.LastStreamID, uint32(f.ErrCode), append([]byte(nil), f.DebugData()...)
	case *mh2.WindowUpdateFrame:
		o.Kind, o.Code = "winupd", f.Increment
	case *mh2.ContinuationFrame:
		o.Kind, o.Data = "cont", append([]byte(nil), f.HeaderBlockFragment()...)
	case *mh2.UnknownFrame:
		o.Kind, o.Data = "unknown", append([]byte(nil), f.Payload()...)
	default:
		o.Kind = fmt.Sprintf("?%T", fr)
	}
	return o
}

func obsXnet(fr xh2.Frame) frameObs {
	h := fr.Header()
	o := frameObs{Len: h.Length, Type: uint32(h.Type), Flags: uint32(h.Flags), SID: h.StreamID}
	switch f := fr.(type) {
	case *xh2.DataFrame:
		o.Kind, o.Data = "data", append([]byte(nil), f.Data()...)
	case *xh2.MetaHeadersFrame:
		o.Kind = "meta"
		if f.HasPriority() {
			o.Prio = &prioObs{f.Priority.StreamDep, f.Priority.Exclusive, f.Priority.Weight}
		}
		for _, x := range f.Fields {
			o.Fields = append(o.Fields, hfield{x.Name, x.Value, x.Sensitive})
		}
		o.Truncated = f.Truncated
	case *xh2.HeadersFrame:
		o.Kind, o.Data = "headers", append([]byte(nil), f.HeaderBlockFragment()...)
		if f.HasPriority() {
			o.Prio = &prioObs{f.Priority.StreamDep, f.Priority.Exclusive, f.Priority.Weight}
		}
	case *xh2.PriorityFrame:
		o.Kind, o.Prio = "priority", &prioObs{f.StreamDep, f.Exclusive, f.Weight}
	case *xh2.RSTStreamFrame:
		o.Kind, o.Code = "rst", uint32(f.ErrCode)
	case *xh2.SettingsFrame:
		o.Kind = "settings"
		for i := 0; i < f.NumSettings(); i++ {
			s := f.Setting(i)
			o.Settings = append(o.Settings, [2]uint32{uint32(s.ID), s.Val})
		}
	case *xh2.PushPromiseFrame:
		o.Kind, o.Promised, o.Data = "push", f.PromiseID, append([]byte(nil), f.HeaderBlockFragment()...)
	case *xh2.PingFrame:
		o.Kind, o.Data = "ping", append([]byte(nil), f.Data[:]...)
	case *xh2.GoAwayFrame:
		o.Kind, o.Last, o.Code, o.Data = "goaway", f.LastStreamID, uint32(f.ErrCode), append([]byte(nil), f.DebugData()...)
	case *xh2.WindowUpdateFrame:
		o.Kind, o.Code = "winupd", f.Increment
	case *xh2.ContinuationFrame:
		o.Kind, o.Data = "cont", append([]byte(nil), f.HeaderBlockFragment()...)
	case *xh2.UnknownFrame:
		o.Kind, o.Data = "unknown", append([]byte(nil), f.Payload()...)
	default:
		o.Kind = fmt.Sprintf("?%T", fr)
	}
	return o
}

// an event of the read loop
type devent struct {
	Frame *frameObs `json:"frame,omitempty"`
	Err   string    `json:"err,omitempty"` // "stream" or a connection error class (Coq herr constructor), "PANIC", "HANG"
}

func (e devent) coq() string {
	switch {
	case e.Frame != nil:
		return "EvFrame " + e.Frame.coq()
	case e.Err == "stream":
		return "EvStreamErr"
	default:
		return "EvConnErr " + e.Err
	}
}

func eventsCoq(evs []devent) string {
	parts := make([]string, len(evs))
	for i, e := range evs {
		parts[i] = e.coq()
	}
	return CoqList(parts)
}

func eventsEqual(a, b []devent) bool { return eventsCoq(a) == eventsCoq(b) }

func connErrClass(err error) string {
	s := err.Error()
	switch {
	case err == mh2.ErrFrameTooLarge || err == xh2.ErrFrameTooLarge:
		return "ETooLarge"
	case err == io.ErrUnexpectedEOF:
		return "EOther"
	case strings.Contains(s, "PROTOCOL_ERROR"):
		return "EProtocol"
	case strings.Contains(s, "FRAME_SIZE_ERROR"):
		return "EFrameSize"
	case strings.Contains(s, "FLOW_CONTROL_ERROR"):
		return "EFlow"
	case strings.Contains(s, "COMPRESSION_ERROR"):
		return "ECompression"
	case strings.HasPrefix(s, "PANIC"):
		return "PANIC"
	case strings.HasPrefix(s, "HANG"):
		return "HANG"
	}
	return "EOther"
}

// ---------------------------------------------------------------------------------------------
// MOSN: the read loop of stream/http2 Dispatch over codec Decode (ReadFrame(ctx, buf, 0)), one call per chunk

type mosnReader struct {
	sc   *mh2.MServerConn
	buf  buffer.IoBuffer
	dead bool
	evs  []devent
	cont bool // Dispatch continues after a stream error (read from the source by the translator)
}

func newMosnReader(cont bool) *mosnReader {
	return &mosnReader{sc: mh2.NewServerConn(&fakeConn{}), buf: buffer.NewIoBuffer(0), cont: cont}
}

func (m *mosnReader) feed(chunk []byte) {
	if m.dead {
		return
	}
	m.buf.Write(chunk)
	ctx := context.Background()
	for iter := 0; ; iter++ {
		var fr mh2.Frame
		var rerr error
		perr := guarded(func() error {
			f, _, e := m.sc.Framer.ReadFrame(ctx, m.buf, 0)
			fr, rerr = f, e
			return nil
		})
		if perr != nil {
			m.evs = append(m.evs, devent{Err: connErrClass(perr)})
			m.dead = true
			return
		}
		if rerr == mh2.ErrAGAIN {
			return
		}
		if rerr != nil {
			if _, isStream := rerr.(mh2.StreamError); isStream {
				m.evs = append(m.evs, devent{Err: "stream"})
				if m.cont && iter < 100000 {
					continue
				}
				return
			}
			m.evs = append(m.evs, devent{Err: connErrClass(rerr)})
			m.dead = true
			return
		}
		o := obsMosn(fr)
		m.evs = append(m.evs, devent{Frame: &o})
	}
}

func runMosn(cont bool, chunks [][]byte) (evs []devent, residue int, dead bool) {
	m := newMosnReader(cont)
	for _, c := range chunks {
		m.feed(c)
	}
	return m.evs, m.buf.Len(), m.dead
}

// x/net reference on the whole stream
func runXnet(data []byte) (evs []devent) {
	fr := xh2.NewFramer(nil, bytes.NewReader(data))
	fr.ReadMetaHeaders = xhpack.NewDecoder(4096, nil)
	fr.MaxHeaderListSize = 1 << 20
	fr.SetMaxReadFrameSize(1 << 20)
	for i := 0; i < 100000; i++ {
		f, err := fr.ReadFrame()
		if err == io.EOF || err == io.ErrUnexpectedEOF {
			return
		}
		if err != nil {
			if _, isStream := err.(xh2.StreamError); isStream {
				evs = append(evs, devent{Err: "stream"})
				continue
			}
			evs = append(evs, devent{Err: connErrClass(err)})
			return
		}
		o := obsXnet(f)
		evs = append(evs, devent{Frame: &o})
	}
	return
}

func splitAt(data []byte, cuts []int) [][]byte {
	var out [][]byte
	pos := 0
	for _, c := range cuts {
		out = append(out, data[pos:c])
		pos = c
	}
	return append(out, data[pos:])
}

// ---------------------------------------------------------------------------------------------
// generators: abstract frames written with x/net's Framer (reference writer) or MOSN's MFramer

type aframe struct {
	coq   string // Model/H2Frame.aframe term
	bytes []byte
	kind  string
}

func padOpt(r *Rng) (pad []byte, coq string, n int) {
	if r.Pct(70) {
		return nil, "None", -1
	}
	k := []int{0, 1, 2, 7, 255}[r.Intn(5)]
	return make([]byte, k), fmt.Sprintf("(Some %s)", CoqN(uint64(k))), k
}

func genValidHeaderList(r *Rng, response bool) []hfield {
	var fs []hfield
	if response {
		fs = append(fs, hfield{Name: ":status", Value: []string{"200", "204", "404", "500", "302"}[r.Intn(5)]})
	} else {
		fs = append(fs, hfield{Name: ":method", Value: []string{"GET", "POST", "PUT"}[r.Intn(3)]},
			hfield{Name: ":scheme", Value: "http"}, hfield{Name: ":path", Value: "/" + strings.ToLower(fmt.Sprintf("%x", r.Bytes(r.Intn(6))))})
		if r.Bool() {
			fs = append(fs, hfield{Name: ":authority", Value: "h" + fmt.Sprint(r.Intn(9)) + ".example"})
		}
	}
	n := r.Intn(6)
	for i := 0; i < n; i++ {
		name := []string{"accept", "x-req-id", "cookie", "content-type", "x-a", "user-agent", "x-long-header-name-for-tests", "te"}[r.Intn(8)]
		val := ""
		switch r.Intn(4) {
		case 0:
			val = fmt.Sprintf("%x", r.Bytes(r.Intn(20)))
		case 1:
			val = strings.Repeat("v", r.Intn(300))
		default:
			val = commonValues[r.Intn(len(commonValues))]
		}
		fs = append(fs, hfield{Name: name, Value: val, Sens: r.Pct(10)})
	}
	return fs
}

// genSequence produces a valid frame sequence and the bytes written by the reference writer.
// Header blocks are encoded with ONE x/net hpack encoder per sequence (a connection).
type seqGen struct {
	r    *Rng
	w    bytes.Buffer
	fr   *xh2.Framer
	hb   bytes.Buffer
	enc  *xhpack.Encoder
	exp  []devent // what the frames mean (generator's expectation)
	kind map[string]int
	next uint32
}

func newSeqGen(r *Rng) *seqGen {
	g := &seqGen{r: r, kind: map[string]int{}, next: 1}
	g.fr = xh2.NewFramer(&g.w, nil)
	g.fr.AllowIllegalWrites = true
	g.enc = xhpack.NewEncoder(&g.hb)
	return g
}

func (g *seqGen) sid() uint32 {
	if g.r.Pct(60) {
		s := g.next
		g.next += 2
		return s
	}
	return uint32(1 + g.r.Intn(1<<uint(1+g.r.Intn(30))))
}

func (g *seqGen) expectFrame(o frameObs) { g.exp = append(g.exp, devent{Frame: &o}) }

func (g *seqGen) headerBlock(fields []hfield) []byte {
	g.hb.Reset()
	for _, f := range fields {
		g.enc.WriteField(xhpack.HeaderField{Name: f.Name, Value: f.Value, Sensitive: f.Sens})
	}
	return append([]byte(nil), g.hb.Bytes()...)
}

func (g *seqGen) frame() {
	r := g.r
	start := g.w.Len()
	switch k := r.Intn(12); k {
	case 0, 1: // DATA
		sid := g.sid()
		data := r.Bytes([]int{0, 1, 10, 100, 1000}[r.Intn(5)])
		pad, _, n := padOpt(r)
		es := r.Bool()
		g.fr.WriteDataPadded(sid, es, data, pad)
		fl := uint32(0)
		if es {
			fl |= 1
		}
		l := len(data)
		if n >= 0 {
			fl |= 8
			l += 1 + n
		}
		g.expectFrame(frameObs{Len: uint32(l), Type: 0, Flags: fl, SID: sid, Kind: "data", Data: data})
		g.kind["data"]++
	case 2, 3, 4: // HEADERS (+ CONTINUATION*)
		sid := g.sid()
		fields := genValidHeaderList(r, r.Pct(30))
		blk := g.headerBlock(fields)
		ncont := []int{0, 0, 0, 1, 2, 3, 5}[r.Intn(7)]
		var frags [][]byte
		rest := blk
		for i := 0; i < ncont; i++ {
			n := 0
			if len(rest) > 0 && !r.Pct(15) { // 15%: empty fragment
				n = r.Intn(len(rest) + 1)
			}
			frags = append(frags, rest[:n])
			rest = rest[n:]
		}
		frags = append(frags, rest)
		p := xh2.HeadersFrameParam{StreamID: sid, BlockFragment: frags[0], EndStream: r.Bool(), EndHeaders: ncont == 0}
		if r.Pct(25) {
			p.PadLength = uint8([]int{1, 2, 200}[r.Intn(3)])
		}
		var po *prioObs
		if r.Pct(25) {
			p.Priority = xh2.PriorityParam{StreamDep: uint32(r.Intn(1 << 20)), Exclusive: r.Bool(), Weight: uint8(1 + r.Intn(255))}
			po = &prioObs{p.Priority.StreamDep, p.Priority.Exclusive, p.Priority.Weight}
		}
		g.fr.WriteHeaders(p)
		hdrLen := g.w.Len() - start - 9
		fl := uint32(0)
		if p.EndStream {
			fl |= 1
		}
		if p.EndHeaders {
			fl |= 4
		}
		if p.PadLength != 0 {
			fl |= 8
		}
		if po != nil {
			fl |= 0x20
		}
		for i := 1; i < len(frags); i++ {
			g.fr.WriteContinuation(sid, i == len(frags)-1, frags[i])
		}
		g.expectFrame(frameObs{Len: uint32(hdrLen), Type: 1, Flags: fl, SID: sid, Kind: "meta", Prio: po, Fields: fields})
		g.kind[fmt.Sprintf("headers+%dcont", min(ncont, 3))]++
	case 5:
		sid := g.sid()
		pp := xh2.PriorityParam{StreamDep: uint32(r.Intn(1 << 30)), Exclusive: r.Bool(), Weight: uint8(r.Intn(256))}
		g.fr.WritePriority(sid, pp)
		g.expectFrame(frameObs{Len: 5, Type: 2, SID: sid, Kind: "priority", Prio: &prioObs{pp.StreamDep, pp.Exclusive, pp.Weight}})
		g.kind["priority"]++
	case 6:
		sid := g.sid()
		code := uint32(r.U64())
		g.fr.WriteRSTStream(sid, xh2.ErrCode(code))
		g.expectFrame(frameObs{Len: 4, Type: 3, SID: sid, Kind: "rst", Code: code})
		g.kind["rst"]++
	case 7:
		if r.Pct(25) {
			g.fr.WriteSettingsAck()
			g.expectFrame(frameObs{Len: 0, Type: 4, Flags: 1, Kind: "settings"})
		} else {
			var ss []xh2.Setting
			var exp [][2]uint32
			for i := 0; i < r.Intn(5); i++ {
				id := xh2.SettingID(1 + r.Intn(8))
				v := uint32(r.U64())
				if id == xh2.SettingInitialWindowSize {
					v &= 0x7fffffff
				}
				ss = append(ss, xh2.Setting{ID: id, Val: v})
				exp = append(exp, [2]uint32{uint32(id), v})
			}
			g.fr.WriteSettings(ss...)
			g.expectFrame(frameObs{Len: uint32(6 * len(ss)), Type: 4, Kind: "settings", Settings: exp})
		}
		g.kind["settings"]++
	case 8:
		var d [8]byte
		copy(d[:], r.Bytes(8))
		ack := r.Bool()
		g.fr.WritePing(ack, d)
		fl := uint32(0)
		if ack {
			fl = 1
		}
		g.expectFrame(frameObs{Len: 8, Type: 6, Flags: fl, Kind: "ping", Data: d[:]})
		g.kind["ping"]++
	case 9:
		last := uint32(r.Intn(1 << 30))
		code := uint32(r.Intn(14))
		dbg := r.Bytes(r.Intn(20))
		g.fr.WriteGoAway(last, xh2.ErrCode(code), dbg)
		g.expectFrame(frameObs{Len: uint32(8 + len(dbg)), Type: 7, Kind: "goaway", Last: last, Code: code, Data: dbg})
		g.kind["goaway"]++
	case 10:
		sid := uint32(0)
		if r.Bool() {
			sid = g.sid()
		}
		inc := uint32(1 + r.Intn(1<<uint(1+r.Intn(30))))
		g.fr.WriteWindowUpdate(sid, inc)
		g.expectFrame(frameObs{Len: 4, Type: 8, SID: sid, Kind: "winupd", Code: inc})
		g.kind["winupd"]++
	default:
		if r.Bool() { // PUSH_PROMISE with END_HEADERS
			sid := g.sid()
			promised := uint32(2 + 2*r.Intn(1000))
			frag := r.Bytes(r.Intn(30))
			p := xh2.PushPromiseParam{StreamID: sid, PromiseID: promised, BlockFragment: frag, EndHeaders: true}
			fl := uint32(4)
			l := 4 + len(frag)
			if r.Pct(30) {
				p.PadLength = uint8(1 + r.Intn(9))
				fl |= 8
				l += 1 + int(p.PadLength)
			}
			g.fr.WritePushPromise(p)
			g.expectFrame(frameObs{Len: uint32(l), Type: 5, Flags: fl, SID: sid, Kind: "push", Promised: promised, Data: frag})
			g.kind["push"]++
		} else { // unknown frame type
			t := uint8(10 + r.Intn(240))
			fl := uint8(r.Intn(256))
			sid := uint32(r.Intn(1 << 31))
			pl := r.Bytes(r.Intn(40))
			g.fr.WriteRawFrame(xh2.FrameType(t), xh2.Flags(fl), sid, pl)
			g.expectFrame(frameObs{Len: uint32(len(pl)), Type: uint32(t), Flags: uint32(fl), SID: sid, Kind: "unknown", Data: pl})
			g.kind["unknown"]++
		}
	}
}

// corruptFrames: single-field corruptions of a valid frame stream (every length field, every header byte, truncation)
func corruptFrames(r *Rng, data []byte) []byte {
	c := append([]byte(nil), data...)
	// frame boundaries
	var offs []int
	for p := 0; p+9 <= len(c); {
		offs = append(offs, p)
		l := int(c[p])<<16 | int(c[p+1])<<8 | int(c[p+2])
		p += 9 + l
	}
	if len(offs) == 0 {
		return r.Bytes(1 + r.Intn(20))
	}
	o := offs[r.Intn(len(offs))]
	l := int(c[o])<<16 | int(c[o+1])<<8 | int(c[o+2])
	setLen := func(v int) {
		if v < 0 {
			v = 0
		}
		c[o], c[o+1], c[o+2] = byte(v>>16), byte(v>>8), byte(v)
	}
	switch r.Intn(9) {
	case 0:
		setLen([]int{0, 1, 2, 3, l - 1, l + 1, 0x7fff, 0xffff, 0xffffff, 1 << 20, 1<<20 + 1}[r.Intn(11)])
	case 1:
		c[o+3] = byte(r.Intn(12)) // frame type
	case 2:
		c[o+4] ^= byte(1 << uint(r.Intn(8))) // flags
	case 3:
		c[o+5+r.Intn(4)] = []byte{0, 0x80, 0xff, 1}[r.Intn(4)] // stream id
	case 4:
		if l > 0 && o+9+l <= len(c) {
			c[o+9+r.Intn(l)] = byte(r.Intn(256))
		} else {
			c[o+4] |= 0x8
		}
	case 5:
		c = c[:r.Intn(len(c))]
	case 6: // pad length byte larger than the payload
		c[o+4] |= 0x8
		if l > 0 && o+9 < len(c) {
			c[o+9] = byte(l + r.Intn(3))
		}
	case 7: // zero the stream id
		c[o+5], c[o+6], c[o+7], c[o+8] = 0, 0, 0, 0
	default:
		i := r.Intn(len(c))
		c[i] ^= byte(1 << uint(r.Intn(8)))
	}
	return c
}

// chunkings of a stream of n bytes: whole, every single cut (when short), 1-byte chunks, random
func chunkings(r *Rng, n int, everyCut bool, nrand int) [][]int {
	out := [][]int{{}}
	if n <= 1 {
		return out
	}
	if everyCut {
		for c := 1; c < n; c++ {
			out = append(out, []int{c})
		}
	} else {
		for k := 0; k < 12; k++ {
			out = append(out, []int{1 + r.Intn(n-1)})
		}
	}
	if n <= 400 {
		one := make([]int, n-1)
		for i := range one {
			one[i] = i + 1
		}
		out = append(out, one)
	}
	for k := 0; k < nrand; k++ {
		var cuts []int
		p := 0
		for {
			p += 1 + r.Intn(40)
			if p >= n {
				break
			}
			cuts = append(cuts, p)
		}
		out = append(out, cuts)
	}
	return out
}

func coqChunkings(cs [][]int) string {
	parts := make([]string, len(cs))
	for i, c := range cs {
		ns := make([]string, len(c))
		for j, v := range c {
			ns[j] = fmt.Sprint(v)
		}
		parts[i] = "[" + strings.Join(ns, ";") + "]"
	}
	return CoqList(parts)
}
