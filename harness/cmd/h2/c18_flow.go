package main

// C18, flow-control part: drives the REAL send-side flow control of pkg/module/http2
//   (a) flow.go at function level through http2.NewVerifFlow (add / take / available), against Model/Flow.v
//       (shards) and against exact big-integer arithmetic (finder);
//   (b) a real MServerConn / MClientConn on a fake connection against a scripted raw-frame peer built on
//       golang.org/x/net/http2's Framer: the peer advertises SETTINGS_INITIAL_WINDOW_SIZE / SETTINGS_MAX_FRAME_SIZE,
//       releases credit in scripted steps and checks every DATA frame MOSN writes against what it granted
//       (finder: safety), waits for exactly the bytes MOSN is entitled to after every step (finder: liveness),
//       and the per-step DATA frame lists and send windows go into shards checked by Model/FlowCases.v.

import (
	"bytes"
	"context"
	"fmt"
	"math/big"
	"net/http"
	"net/url"
	"runtime"
	"strings"
	"sync"
	"time"

	xh2 "golang.org/x/net/http2"
	xhpack "golang.org/x/net/http2/hpack"
	"mosn.io/api"
	mh2 "mosn.io/mosn/pkg/module/http2"
	"mosn.io/pkg/buffer"

	. "vh/vhlib"
)

const flowHeader = "From MV Require Import Lib.HCaseIO Model.Flow Model.FlowCases.\nFrom Coq Require Import List ZArith Bool.\nImport ListNotations.\nOpen Scope Z_scope.\n"

const (
	i32Max = int64(1)<<31 - 1
	i32Min = -(int64(1) << 31)
)

// flowPart is called by c18.
func flowPart(run *Run, ss *shardSet) {
	run.Sum.Rule += " flow: (e) flow.go: sequences of 4-40 add/take/available calls on a stream flow linked to a connection flow, operands from int32 boundary values " +
		"(0, +-1, +-2^31-1, -2^31, 65535, 16384) and random ones, checked against exact integer arithmetic and the model; " +
		"(f) real server and client connections against a scripted peer: SETTINGS_INITIAL_WINDOW_SIZE from {0,1,2,100,16383,16384,16385,65535,2^31-1}, " +
		"SETTINGS_MAX_FRAME_SIZE from {16384,16385,65536,2^24-1}, bodies {0,1,100,16384,16385,70000,200000}, credit released by stream / connection " +
		"WINDOW_UPDATEs and SETTINGS changes of the initial window (up and down) and of the max frame size in random order; one sender per connection " +
		"(exact DATA frame trace compared with the model) or 2-3 concurrent senders (safety and liveness checked by the peer, byte totals compared with the model); " +
		"(g) a peer that pushes a window beyond 2^31-1 by WINDOW_UPDATE (stream, connection) or by raising the initial window: the window must stay as it was (connection error, or ignored by the client's SETTINGS processing). " +
		"(h) scripted negative-window sequences: the stream window is used up (body > window), SETTINGS_INITIAL_WINDOW_SIZE drops below the bytes already sent (negative send window), then stream WINDOW_UPDATEs lead it negative->negative, negative->zero, zero->positive or negative->positive, alone or combined with an exhausted connection window updated before / after; after every step the bytes MOSN is entitled to must arrive within 2 s and the body must complete once the credit covers it. " +
		"A connection case is non-trivial when the sender had to wait for credit at least once; distinct by the full script."
	flowFnPart(run, ss, run.N(400, 4000))
	t0 := time.Now()
	n := run.N(400, 3000)
	for i := 0; i < n; i++ {
		sd := "server"
		if i%2 == 1 {
			sd = "client"
		}
		flowConnCase(run, ss, sd, i)
	}
	nm := run.N(80, 600)
	for i := 0; i < nm; i++ {
		sd := "server"
		if i%2 == 1 {
			sd = "client"
		}
		flowMultiCase(run, ss, sd, i)
	}
	no := run.N(48, 480)
	for i := 0; i < no; i++ {
		sd := "server"
		if i%2 == 1 {
			sd = "client"
		}
		flowOverflowCase(run, ss, sd, i/2)
	}
	nn := run.N(72, 720)
	for i := 0; i < nn; i++ {
		sd := "server"
		if i%2 == 1 {
			sd = "client"
		}
		flowNegativeCase(run, ss, sd, i/2)
	}
	run.Sum.Extra["flow_conn_seconds"] = time.Since(t0).Seconds()
}

// ---------------------------------------------------------------------------------------------
// (a) flow.go at function level

var flowBoundary = []int64{0, 1, -1, 2, 100, 16384, 65535, -65535, i32Max, i32Max - 1, i32Min, i32Min + 1, -i32Max, 1 << 30, -(1 << 30)}

func flowOperand(r *Rng) int64 {
	switch r.Intn(4) {
	case 0, 1:
		return flowBoundary[r.Intn(len(flowBoundary))]
	case 2:
		return int64(int32(r.U64()))
	default:
		return int64(r.Intn(200000)) - 50000
	}
}

func takePanics(v *mh2.VerifFlow, n int32) (msg string, panicked bool) {
	defer func() {
		if e := recover(); e != nil {
			msg, panicked = fmt.Sprint(e), true
		}
	}()
	v.Take(n)
	return "", false
}

func flowFnPart(run *Run, ss *shardSet, n int) {
	inI32 := func(x *big.Int) bool { return x.Cmp(big.NewInt(i32Min)) >= 0 && x.Cmp(big.NewInt(i32Max)) <= 0 }
	for i := 0; i < n; i++ {
		v := mh2.NewVerifFlow()
		nops := 4 + run.R.Intn(37)
		var ops, obs, descr []string
		nontrivial := false
		for j := 0; j < nops; j++ {
			k := run.R.Intn(10)
			switch {
			case k < 4: // add on the stream / connection
				onConn := k == 3 || run.R.Pct(30)
				cur := int64(v.StreamN())
				if onConn {
					cur = int64(v.ConnN())
				}
				d := flowOperand(run.R)
				if run.R.Pct(25) { // steer towards the int32 edges
					edge := i32Max
					if run.R.Bool() {
						edge = i32Min
					}
					if x := edge - cur + int64(run.R.Intn(5)) - 2; x >= i32Min && x <= i32Max {
						d = x
					}
				}
				var ok bool
				var after int64
				if onConn {
					ok = v.AddConn(int32(d))
					after = int64(v.ConnN())
				} else {
					ok = v.AddStream(int32(d))
					after = int64(v.StreamN())
				}
				exact := new(big.Int).Add(big.NewInt(cur), big.NewInt(d)) // exact integer arithmetic
				fits := inI32(exact)
				if !fits {
					nontrivial = true
				}
				what := fmt.Sprintf("add(%d) on window %d", d, cur)
				if fits && !(ok && big.NewInt(after).Cmp(exact) == 0) {
					run.Fail("flow:add-rejects-valid-sum", what+fmt.Sprintf(": exact sum %s fits int32 but add returned %v and stored %d", exact, ok, after), what)
				}
				if !fits && (ok || after != cur) {
					run.Fail("flow:add-wraps-silently", what+fmt.Sprintf(": exact sum %s is outside int32 but add returned %v and the window is now %d", exact, ok, after), what)
				}
				if onConn {
					ops = append(ops, "FAddC "+CoqZ(d))
				} else {
					ops = append(ops, "FAddS "+CoqZ(d))
				}
				obs = append(obs, "OBool "+CoqBool(ok))
				descr = append(descr, what)
			case k < 7: // take
				av := int64(v.Available())
				sw0, cw0 := int64(v.StreamN()), int64(v.ConnN())
				var t int64
				switch run.R.Intn(5) {
				case 0:
					t = av
				case 1:
					t = av + 1
				case 2:
					if av > 0 {
						t = int64(run.R.Intn(int(av%1000000) + 1))
					}
				case 3:
					t = flowOperand(run.R)
				default:
					t = int64(run.R.Intn(70000))
				}
				if t < 0 { // the callers never take a negative amount
					t = -(t + 1)
				}
				if t > i32Max {
					t = i32Max
				}
				msg, panicked := takePanics(v, int32(t))
				what := fmt.Sprintf("take(%d) with windows (%d,%d)", t, sw0, cw0)
				if t > av {
					nontrivial = true
					if !panicked || !strings.Contains(msg, "took too much") {
						run.Fail("flow:take-beyond-available", what+fmt.Sprintf(": expected panic \"took too much\", got panicked=%v %q", panicked, msg), what)
					}
					if int64(v.StreamN()) != sw0 || int64(v.ConnN()) != cw0 {
						run.Fail("flow:take-beyond-available", what+": the refused take changed the windows", what)
					}
				} else if panicked {
					run.Fail("flow:take-panics-within-available", what+": panicked "+msg, what)
				} else if int64(v.StreamN()) != sw0-t || int64(v.ConnN()) != cw0-t {
					run.Fail("flow:take-wrong-debit", what+fmt.Sprintf(": windows now (%d,%d)", v.StreamN(), v.ConnN()), what)
				}
				ops = append(ops, "FTake "+CoqZ(t))
				if panicked {
					obs = append(obs, "OPanic")
				} else {
					obs = append(obs, "ODone")
				}
				descr = append(descr, what)
			default:
				av := int64(v.Available())
				exact := int64(v.StreamN())
				if int64(v.ConnN()) < exact {
					exact = int64(v.ConnN())
				}
				if av != exact {
					run.Fail("flow:available-wrong", fmt.Sprintf("available() = %d with windows (%d,%d)", av, v.StreamN(), v.ConnN()), descr)
				}
				ops = append(ops, "FAvail")
				obs = append(obs, "OZ "+CoqZ(av))
				descr = append(descr, "available")
			}
		}
		term := fmt.Sprintf("(%s, %s, (%s, %s))", CoqList(ops), CoqList(obs), CoqZ(int64(v.StreamN())), CoqZ(int64(v.ConnN())))
		ss.add("flowfn", flowHeader, "flowfn_case", "flowfn_mismatches", 400, term, descr)
		run.Count("flowfn:"+term, nontrivial, "flow:fn")
	}
}

// ---------------------------------------------------------------------------------------------
// (b) connection level

type flowConn struct {
	api.Connection
	mu  sync.Mutex
	out []byte
}

func (c *flowConn) Write(bufs ...api.IoBuffer) error {
	c.mu.Lock()
	for _, b := range bufs {
		c.out = append(c.out, b.Bytes()...)
	}
	c.mu.Unlock()
	return nil
}
func (c *flowConn) State() api.ConnState { return api.ConnActive }

type flowStream struct {
	sid   uint32
	body  []byte
	incs  int64 // stream WINDOW_UPDATE increments granted
	recv  int64 // DATA bytes received
	ended bool
	win   func() (int32, int32) // VerifSendWindow of the MOSN stream
	done  chan error
}

type flowRig struct {
	run     *Run
	side    string
	conn    *flowConn
	sc      *mh2.MServerConn
	cc      *mh2.MClientConn
	ctx     context.Context
	off     int // bytes of conn.out already parsed
	rbuf    bytes.Buffer
	rd      *xh2.Framer // parses what MOSN wrote
	wbuf    bytes.Buffer
	wr      *xh2.Framer // builds the peer's frames
	henc    *xhpack.Encoder
	hbuf    bytes.Buffer
	init    int64 // SETTINGS_INITIAL_WINDOW_SIZE in force
	mfs     int64 // SETTINGS_MAX_FRAME_SIZE in force
	connCr  int64 // 65535 + connection WINDOW_UPDATE increments
	total   int64 // DATA bytes received on the connection
	streams map[uint32]*flowStream
	order   []uint32
	script  []string   // replay
	frames  [][2]int64 // DATA frames (sid, len) since the last takeFrames
	failed  bool
	liveSig string                 // when set: signature of a liveness failure in settle (scripted negative-window cases)
	wait    time.Duration          // watchdog of settle (default 3 s)
	meta    map[string]interface{} // extra replay fields
	strict  bool                   // several senders: keep the CREDITS (not only the windows) within 2^31-1, so that no scheduling of the senders makes a frame of the peer illegal
}

func newFlowRig(run *Run, side string) *flowRig {
	r := &flowRig{run: run, side: side, conn: &flowConn{}, ctx: context.Background(), init: 65535, mfs: 16384, connCr: 65535, streams: map[uint32]*flowStream{}}
	r.rd = xh2.NewFramer(nil, &r.rbuf)
	r.rd.SetMaxReadFrameSize(1<<24 - 1)
	r.wr = xh2.NewFramer(&r.wbuf, nil)
	r.henc = xhpack.NewEncoder(&r.hbuf)
	if side == "server" {
		r.sc = mh2.NewServerConn(r.conn)
	} else {
		r.cc = mh2.NewClientConn(r.conn)
	}
	return r
}

func (r *flowRig) fail(sig, what string) {
	r.failed = true
	rep := map[string]interface{}{"side": r.side, "script": append([]string(nil), r.script...)}
	for k, v := range r.meta {
		rep[k] = v
	}
	r.run.Fail(sig, what, rep)
}

// feed hands the frames the peer just built to MOSN's real frame reader and handler.
func (r *flowRig) feed() (ms *mh2.MStream, err error) {
	b := append([]byte(nil), r.wbuf.Bytes()...)
	r.wbuf.Reset()
	buf := buffer.NewIoBufferBytes(b)
	for buf.Len() > 0 {
		var f mh2.Frame
		if r.sc != nil {
			f, _, err = r.sc.Framer.ReadFrame(r.ctx, buf, 0)
		} else {
			f, _, err = r.cc.Framer.ReadFrame(r.ctx, buf, 0)
		}
		if err != nil {
			return nil, err
		}
		if r.sc != nil {
			var s *mh2.MStream
			s, _, _, _, err = r.sc.HandleFrame(r.ctx, f)
			if s != nil {
				ms = s
			}
		} else {
			_, _, _, _, _, err = r.cc.HandleFrame(r.ctx, f)
		}
		if err != nil {
			return ms, err
		}
	}
	return ms, nil
}

// poll parses every complete frame MOSN has written so far and checks each DATA frame against the credit granted.
func (r *flowRig) poll() {
	r.conn.mu.Lock()
	avail := r.conn.out[r.off:]
	for len(avail) >= 9 {
		l := int(avail[0])<<16 | int(avail[1])<<8 | int(avail[2])
		if len(avail) < 9+l {
			break
		}
		r.rbuf.Write(avail[:9+l])
		avail = avail[9+l:]
		r.off += 9 + l
	}
	r.conn.mu.Unlock()
	for r.rbuf.Len() > 0 {
		f, err := r.rd.ReadFrame()
		if err != nil {
			r.fail("flow:unparsable-output:"+r.side, "x/net cannot parse what MOSN wrote: "+err.Error())
			r.rbuf.Reset()
			return
		}
		df, ok := f.(*xh2.DataFrame)
		if !ok {
			continue
		}
		st := r.streams[df.StreamID]
		if st == nil {
			r.fail("flow:data-on-unknown-stream:"+r.side, fmt.Sprintf("DATA on stream %d", df.StreamID))
			continue
		}
		data := df.Data()
		l := int64(len(data))
		if df.StreamEnded() {
			st.ended = true
		}
		if l == 0 {
			continue // the closing empty DATA frame does not consume flow control
		}
		if l > r.mfs {
			r.fail("flow:data-exceeds-max-frame-size:"+r.side, fmt.Sprintf("DATA frame of %d bytes on stream %d, SETTINGS_MAX_FRAME_SIZE in force %d", l, st.sid, r.mfs))
		}
		if st.recv+l > r.init+st.incs {
			r.fail("flow:data-exceeds-window:"+r.side, fmt.Sprintf("stream %d: %d bytes received + frame of %d > stream credit %d (initial window %d + updates %d)", st.sid, st.recv, l, r.init+st.incs, r.init, st.incs))
		}
		if r.total+l > r.connCr {
			r.fail("flow:data-exceeds-window:"+r.side, fmt.Sprintf("connection: %d bytes received + frame of %d > connection credit %d", r.total, l, r.connCr))
		}
		if st.recv+l > int64(len(st.body)) || !bytes.Equal(data, st.body[st.recv:st.recv+l]) {
			r.fail("flow:body-corrupted", fmt.Sprintf("stream %d: DATA at offset %d (%d bytes) differs from the body sent", st.sid, st.recv, l))
		}
		st.recv += l
		r.total += l
		r.frames = append(r.frames, [2]int64{int64(st.sid), l})
	}
}

// entitled: DATA bytes MOSN may and must still write now.
func (r *flowRig) entitled() int64 {
	sum := int64(0)
	for _, sid := range r.order {
		st := r.streams[sid]
		a := int64(len(st.body)) - st.recv
		if w := r.init + st.incs - st.recv; w < a {
			a = w
		}
		if a > 0 {
			sum += a
		}
	}
	if c := r.connCr - r.total; c < sum {
		sum = c
	}
	if sum < 0 {
		sum = 0
	}
	return sum
}

// settle waits until the bytes MOSN is now entitled to have arrived (liveness), then checks MOSN's own send
// windows against the peer's books.
func (r *flowRig) settle(kind string) {
	r.poll()
	want := r.total + r.entitled()
	wait := 3 * time.Second
	if r.wait != 0 {
		wait = r.wait
	}
	if flowLivenessFailures >= 3 {
		wait = 500 * time.Millisecond // the finding is recorded; do not spend minutes on its repetitions
	}
	deadline := time.Now().Add(wait)
	for r.total < want && time.Now().Before(deadline) && !r.failed {
		runtime.Gosched()
		time.Sleep(50 * time.Microsecond)
		r.poll()
	}
	if r.failed {
		return
	}
	if r.total < want {
		flowLivenessFailures++
		sig := "flow:body-not-delivered-after-credit:" + r.side + ":" + kind
		if r.liveSig != "" {
			sig = r.liveSig
		}
		r.fail(sig,
			fmt.Sprintf("after %s MOSN is entitled to %d more DATA bytes; they did not arrive within %v (%d bytes received so far)", kind, want-r.total, wait, r.total))
		return
	}
	// Everything MOSN was entitled to has arrived; every unfinished sender will now find available() <= 0 and park.
	// Wait until it HAS parked (goroutine state sync.Cond.Wait inside awaitFlowControl): only then is the next frame of
	// the peer a wake-up test - a sender still on its way to cond.Wait would see the new window by itself.
	r.waitParked()
	// the take precedes the write: once the entitled bytes are here the windows must be exactly credit - sent
	for _, sid := range r.order {
		st := r.streams[sid]
		if st.win == nil || st.recv == int64(len(st.body)) {
			continue // a finished stream is closed on the MOSN side and no longer follows SETTINGS changes
		}
		sw, cw := st.win()
		if int64(sw) != r.init+st.incs-st.recv || int64(cw) != r.connCr-r.total {
			// somebody else may be between take and write: look again after the output is stable
			time.Sleep(200 * time.Microsecond)
			r.poll()
			sw, cw = st.win()
			if int64(sw) < r.init+st.incs-st.recv || int64(cw) < r.connCr-r.total {
				r.fail("flow:data-exceeds-window:"+r.side, fmt.Sprintf("stream %d: MOSN's send windows (%d, %d) are below credit minus DATA written (%d, %d): it took more than it wrote",
					sid, sw, cw, r.init+st.incs-st.recv, r.connCr-r.total))
			}
		}
	}
}

// flowParkedSenders counts the goroutines that sit in cond.Wait of an awaitFlowControl (server or client).
func flowParkedSenders() int {
	buf := make([]byte, 1<<18)
	n := runtime.Stack(buf, true)
	cnt := 0
	for _, g := range strings.Split(string(buf[:n]), "\n\n") {
		if !strings.Contains(g, "awaitFlowControl") {
			continue
		}
		hdr := g
		if i := strings.IndexByte(g, '\n'); i >= 0 {
			hdr = g[:i]
		}
		if strings.Contains(hdr, "sync.Cond.Wait") {
			cnt++
		}
	}
	return cnt
}

// senders of abandoned cases that could not be collected (they stay parked for the rest of the run)
var flowLeakedSenders int

func (r *flowRig) waitParked() {
	want := flowLeakedSenders
	for _, sid := range r.order {
		st := r.streams[sid]
		if st.win != nil && st.recv < int64(len(st.body)) {
			want++
		}
	}
	if want == flowLeakedSenders {
		return
	}
	deadline := time.Now().Add(300 * time.Millisecond)
	for flowParkedSenders() < want {
		if time.Now().After(deadline) {
			r.run.Sum.Distribution["flow:park-not-observed"]++
			return
		}
		runtime.Gosched()
		time.Sleep(20 * time.Microsecond)
	}
}

func (r *flowRig) takeFrames() [][2]int64 {
	f := r.frames
	r.frames = nil
	return f
}

// open creates a stream with a body on the MOSN side and starts its sender.
func (r *flowRig) open(sid uint32, body []byte) bool {
	st := &flowStream{sid: sid, body: body, done: make(chan error, 1)}
	r.streams[sid] = st
	r.order = append(r.order, sid)
	r.script = append(r.script, fmt.Sprintf("open stream %d body %d", sid, len(body)))
	if r.sc != nil {
		r.hbuf.Reset()
		for _, f := range []xhpack.HeaderField{{Name: ":method", Value: "GET"}, {Name: ":path", Value: "/"}, {Name: ":scheme", Value: "http"}, {Name: ":authority", Value: "h"}} {
			r.henc.WriteField(f)
		}
		r.wr.WriteHeaders(xh2.HeadersFrameParam{StreamID: sid, BlockFragment: append([]byte(nil), r.hbuf.Bytes()...), EndHeaders: true, EndStream: true})
		ms, err := r.feed()
		if err != nil || ms == nil {
			r.fail("flow:harness-open-failed:server", fmt.Sprintf("HEADERS not accepted: %v", err))
			return false
		}
		ms.Response = &http.Response{StatusCode: 200, Header: http.Header{"Content-Type": []string{"application/octet-stream"}}}
		ms.SendData = buffer.NewIoBufferBytes(append([]byte(nil), body...))
		st.win = ms.VerifSendWindow
		go func() { st.done <- ms.SendResponse() }()
		return true
	}
	req := &http.Request{Method: "POST", URL: &url.URL{Scheme: "http", Host: "h", Path: "/"}, Host: "h", Header: http.Header{}, ContentLength: int64(len(body))}
	cs := mh2.NewMClientStream(r.cc, req)
	cs.SendData = buffer.NewIoBufferBytes(append([]byte(nil), body...))
	if err := cs.RoundTrip(r.ctx); err != nil {
		r.fail("flow:harness-open-failed:client", fmt.Sprintf("RoundTrip (headers): %v", err))
		return false
	}
	if cs.GetID() != sid {
		r.fail("flow:harness-open-failed:client", fmt.Sprintf("stream id %d, expected %d", cs.GetID(), sid))
		return false
	}
	st.win = cs.VerifSendWindow
	go func() { st.done <- cs.RoundTrip(r.ctx) }()
	return true
}

var flowLivenessFailures int

type flowEv struct {
	kind string // "wu", "wuconn", "init", "mfs"
	sid  uint32
	v    int64
}

func (e flowEv) coq() string {
	switch e.kind {
	case "wu":
		return fmt.Sprintf("EWinUpd %s %s", CoqZ(int64(e.sid)), CoqZ(e.v))
	case "wuconn":
		return "EWinUpdConn " + CoqZ(e.v)
	case "init":
		return "ESetInit " + CoqZ(e.v)
	default:
		return "ESetMaxFrame " + CoqZ(e.v)
	}
}

// apply sends one frame of the peer to MOSN and updates the peer's books.
func (r *flowRig) apply(e flowEv) error {
	r.script = append(r.script, fmt.Sprintf("%s sid=%d v=%d", e.kind, e.sid, e.v))
	switch e.kind {
	case "wu":
		r.wr.WriteWindowUpdate(e.sid, uint32(e.v))
	case "wuconn":
		r.wr.WriteWindowUpdate(0, uint32(e.v))
	case "init":
		r.wr.WriteSettings(xh2.Setting{ID: xh2.SettingInitialWindowSize, Val: uint32(e.v)})
	case "mfs":
		r.wr.WriteSettings(xh2.Setting{ID: xh2.SettingMaxFrameSize, Val: uint32(e.v)})
	}
	// the books first: MOSN may write DATA before feed returns
	switch e.kind {
	case "wu":
		r.streams[e.sid].incs += e.v
	case "wuconn":
		r.connCr += e.v
	case "init":
		r.init = e.v
	case "mfs":
		// a larger limit is in force as soon as MOSN has seen it; a smaller one too - nothing is in flight (quiescent)
		r.mfs = e.v
	}
	_, err := r.feed()
	return err
}

var flowInits = []int64{0, 1, 2, 100, 16383, 16384, 16385, 65535, i32Max}
var flowMfs = []int64{16384, 16385, 65536, 1<<24 - 1}
var flowBodies = []int{0, 1, 100, 16384, 16385, 70000, 200000}
var flowIncs = []int64{1, 2, 100, 16383, 16384, 16385, 65535, 70000, 200000}

func sendEvents(sid uint32, nframes int) []string {
	out := make([]string, 0, nframes+2)
	for i := 0; i < nframes+2; i++ {
		out = append(out, "ESend "+CoqZ(int64(sid)))
	}
	return out
}

func coqFrames(fs [][2]int64) string {
	items := make([]string, len(fs))
	for i, f := range fs {
		items[i] = fmt.Sprintf("(%s, %s)", CoqZ(f[0]), CoqZ(f[1]))
	}
	return CoqList(items)
}

// nextCredit picks the peer's next frame.  The windows the peer grants never exceed 2^31-1 (RFC 7540 6.9.1).
func (r *flowRig) nextCredit(progress bool) flowEv {
	R := r.run.R
	for try := 0; ; try++ {
		k := R.Intn(10)
		if progress && try == 0 {
			// make sure the script terminates: grant what blocks the first unfinished stream
			for _, sid := range r.order {
				st := r.streams[sid]
				rem := int64(len(st.body)) - st.recv
				if rem == 0 {
					continue
				}
				sw := r.init + st.incs - st.recv
				cwin := r.connCr - r.total
				grant := func(have, limit int64) int64 {
					inc := rem - have
					if inc > i32Max {
						inc = i32Max
					}
					if limit+inc > i32Max {
						inc = i32Max - limit
					}
					return inc
				}
				if sw < rem && (cwin >= rem || R.Bool()) {
					if inc := grant(sw, r.init+st.incs-r.usedS(st)); inc > 0 {
						return flowEv{kind: "wu", sid: sid, v: inc}
					}
				}
				if cwin < rem {
					if inc := grant(cwin, r.connCr-r.usedC()); inc > 0 {
						return flowEv{kind: "wuconn", v: inc}
					}
				}
				if sw < rem {
					if inc := grant(sw, r.init+st.incs-r.usedS(st)); inc > 0 {
						return flowEv{kind: "wu", sid: sid, v: inc}
					}
				}
				break
			}
		}
		switch {
		case k < 3 && len(r.order) > 0:
			sid := r.order[R.Intn(len(r.order))]
			st := r.streams[sid]
			inc := flowIncs[R.Intn(len(flowIncs))]
			if R.Pct(20) {
				inc = 1 + int64(R.Intn(300000))
			}
			if r.init+st.incs-r.usedS(st)+inc > i32Max {
				continue
			}
			return flowEv{kind: "wu", sid: sid, v: inc}
		case k < 5:
			inc := flowIncs[R.Intn(len(flowIncs))]
			if R.Pct(10) {
				inc = i32Max - (r.connCr - r.usedC())
			}
			if inc <= 0 || r.connCr-r.usedC()+inc > i32Max {
				continue
			}
			return flowEv{kind: "wuconn", v: inc}
		case k < 8:
			v := flowInits[R.Intn(len(flowInits))]
			if R.Pct(30) {
				v = int64(R.Intn(200000))
			}
			ok := v != r.init
			for _, sid := range r.order {
				st := r.streams[sid]
				if v+st.incs-r.usedS(st) > i32Max {
					ok = false
				}
			}
			if !ok {
				continue
			}
			return flowEv{kind: "init", v: v}
		default:
			v := flowMfs[R.Intn(len(flowMfs))]
			if v == r.mfs && try < 5 {
				continue
			}
			return flowEv{kind: "mfs", v: v}
		}
	}
}

// used: what counts against the 2^31-1 limit when the peer sizes a grant
func (r *flowRig) usedS(st *flowStream) int64 {
	if r.strict {
		return 0
	}
	return st.recv
}
func (r *flowRig) usedC() int64 {
	if r.strict {
		return 0
	}
	return r.total
}

func (r *flowRig) allDone() bool {
	for _, sid := range r.order {
		st := r.streams[sid]
		if st.recv < int64(len(st.body)) {
			return false
		}
	}
	return true
}

// finish waits for the sender goroutines (they end with an empty END_STREAM DATA frame or trailers).
func (r *flowRig) finish() {
	for _, sid := range r.order {
		st := r.streams[sid]
		select {
		case err := <-st.done:
			if err != nil && !r.failed {
				r.fail("flow:sender-error:"+r.side, fmt.Sprintf("stream %d: sender returned %v", sid, err))
			}
		case <-time.After(3 * time.Second):
			flowLeakedSenders++
			if !r.failed {
				r.fail("flow:body-not-delivered-after-credit:"+r.side+":end", fmt.Sprintf("stream %d: sender did not return after the whole body was granted", sid))
			}
		}
	}
	r.poll()
}

// abandon lets the sender goroutines of a finished or failed case run to their end (no checks any more): both
// windows are topped up to 2^31-1, sized from MOSN's own counters so that nothing overflows.
func (r *flowRig) abandon() {
	for _, sid := range r.order {
		st := r.streams[sid]
		if st.win == nil || st.recv >= int64(len(st.body)) {
			continue
		}
		_, cw := st.win()
		if need := i32Max - int64(cw); need >= 1 {
			r.wr.WriteWindowUpdate(0, uint32(need))
			r.feed()
		}
		sw, _ := st.win()
		if need := i32Max - int64(sw); need >= 1 {
			r.wr.WriteWindowUpdate(sid, uint32(need))
			r.feed()
		}
	}
	// SETTINGS processing broadcasts (should a WINDOW_UPDATE above not have woken a sleeping sender)
	r.wr.WriteSettings(xh2.Setting{ID: xh2.SettingMaxFrameSize, Val: uint32(r.mfs)})
	r.feed()
	for _, sid := range r.order {
		st := r.streams[sid]
		if st.win == nil {
			continue
		}
		select {
		case <-st.done:
		case <-time.After(time.Second):
			flowLeakedSenders++
		}
	}
}

func coqSide(side string) string {
	if side == "server" {
		return "Server"
	}
	return "Client"
}

// flowConnCase: one sender on a real connection; exact trace against the model.
func flowConnCase(run *Run, ss *shardSet, side string, idx int) {
	R := run.R
	r := newFlowRig(run, side)
	var groups []string
	waited := false
	addGroup := func(evs []string, sid uint32) {
		fr := r.takeFrames()
		w := "None"
		if st := r.streams[sid]; st != nil && st.win != nil {
			sw, cw := st.win()
			w = fmt.Sprintf("(Some (%s, %s, %s))", CoqZ(int64(sid)), CoqZ(int64(sw)), CoqZ(int64(cw)))
		}
		evs = append(evs, sendEvents(sid, len(fr))...)
		groups = append(groups, fmt.Sprintf("(%s, %s, %s)", CoqList(evs), coqFrames(fr), w))
	}
	// the peer's first SETTINGS frame
	init0 := flowInits[(idx/2)%len(flowInits)]
	if R.Pct(25) {
		init0 = flowInits[R.Intn(len(flowInits))]
	}
	mfs0 := flowMfs[R.Intn(len(flowMfs))]
	body := R.Bytes(flowBodies[(idx/2+idx/18)%len(flowBodies)])
	var pre []string
	for _, e := range []flowEv{{kind: "init", v: init0}, {kind: "mfs", v: mfs0}} {
		if err := r.apply(e); err != nil {
			r.fail("flow:settings-rejected:"+side, fmt.Sprintf("%s %d: %v", e.kind, e.v, err))
			return
		}
		pre = append(pre, e.coq())
	}
	// sometimes widen the connection window first so that the stream window is the only limit
	if R.Pct(40) {
		e := flowEv{kind: "wuconn", v: int64(1 << 20)}
		r.apply(e)
		pre = append(pre, e.coq())
	}
	sid := uint32(1)
	if !r.open(sid, body) {
		return
	}
	pre = append(pre, fmt.Sprintf("EOpen %s %s", CoqZ(int64(sid)), CoqZ(int64(len(body)))))
	r.settle("open")
	addGroup(pre, sid)
	steps := 0
	kinds := map[string]bool{}
	for !r.failed && !r.allDone() {
		steps++
		if r.entitled() == 0 {
			waited = true
		}
		e := r.nextCredit(steps > 12)
		kinds[e.kind] = true
		if err := r.apply(e); err != nil {
			r.fail("flow:credit-rejected:"+side+":"+e.kind, fmt.Sprintf("%s sid=%d v=%d within the legal window range was answered with %v", e.kind, e.sid, e.v, err))
			break
		}
		r.settle(e.kind)
		addGroup([]string{e.coq()}, sid)
	}
	if r.failed {
		r.abandon()
		return
	}
	r.finish()
	if !r.streams[sid].ended && !r.failed {
		r.fail("flow:no-end-stream:"+side, "the body was delivered but no END_STREAM followed")
	}
	term := fmt.Sprintf("(%s, %s)", coqSide(side), CoqList(groups))
	ss.add("flow", flowHeader, "flow_case", "flow_mismatches", 60, term, map[string]interface{}{"side": side, "script": r.script})
	ks := []string{"flow:conn:" + side}
	for k := range map[string]bool{"wu": true, "wuconn": true, "init": true, "mfs": true} {
		if kinds[k] {
			ks = append(ks, "flow:ev:"+k)
		}
	}
	if len(body) == 0 {
		ks = append(ks, "flow:empty-body")
	}
	run.Count("flow:"+term, waited, ks...)
	if idx < 2 {
		run.Sample(map[string]interface{}{"flow_case": side, "script": r.script})
	}
}

// flowMultiCase: 2-3 concurrent senders on one connection.  Which sender gets the connection window first is a
// race, the byte total per step is not as long as the credit only grows; the peer's checks are the same.
func flowMultiCase(run *Run, ss *shardSet, side string, idx int) {
	R := run.R
	r := newFlowRig(run, side)
	r.strict = true
	var groups []string
	addGroup := func(evs []string) {
		fr := r.takeFrames()
		tot := int64(0)
		for _, f := range fr {
			tot += f[1]
		}
		// round-robin sender iterations, more than enough for quiescence
		for i := 0; i < len(fr)+2; i++ {
			for _, sid := range r.order {
				evs = append(evs, "ESend "+CoqZ(int64(sid)))
			}
		}
		groups = append(groups, fmt.Sprintf("(%s, %s)", CoqList(evs), CoqZ(tot)))
	}
	init0 := flowInits[R.Intn(len(flowInits)-1)]
	var pre []string
	for _, e := range []flowEv{{kind: "init", v: init0}, {kind: "mfs", v: flowMfs[R.Intn(len(flowMfs))]}} {
		if err := r.apply(e); err != nil {
			r.fail("flow:settings-rejected:"+side, fmt.Sprintf("%s %d: %v", e.kind, e.v, err))
			return
		}
		pre = append(pre, e.coq())
	}
	ns := 2 + R.Intn(2)
	for i := 0; i < ns; i++ {
		sid := uint32(1 + 2*i)
		body := R.Bytes(flowBodies[1+R.Intn(len(flowBodies)-1)])
		if !r.open(sid, body) {
			r.abandon()
			return
		}
		pre = append(pre, fmt.Sprintf("EOpen %s %s", CoqZ(int64(sid)), CoqZ(int64(len(body)))))
	}
	r.settle("open")
	addGroup(pre)
	steps := 0
	for !r.failed && !r.allDone() {
		steps++
		var e flowEv
		for {
			e = r.nextCredit(steps > 16)
			if e.kind == "init" && e.v < r.init {
				continue // credit only grows here (see above)
			}
			break
		}
		if err := r.apply(e); err != nil {
			r.fail("flow:credit-rejected:"+side+":"+e.kind, fmt.Sprintf("%s sid=%d v=%d within the legal window range was answered with %v", e.kind, e.sid, e.v, err))
			break
		}
		r.settle(e.kind)
		addGroup([]string{e.coq()})
	}
	if r.failed {
		r.abandon()
		return
	}
	r.finish()
	term := fmt.Sprintf("(%s, %s)", coqSide(side), CoqList(groups))
	ss.add("flowt", flowHeader, "flow_tcase", "flow_tmismatches", 40, term, map[string]interface{}{"side": side, "script": r.script})
	run.Count("flowt:"+term, true, "flow:multi:"+side)
}

// flowOverflowCase: an ill-behaved peer pushes a send window beyond 2^31-1.  flow.add must refuse (the window keeps
// its value): WINDOW_UPDATE -> connection error FLOW_CONTROL_ERROR on both sides; SETTINGS_INITIAL_WINDOW_SIZE ->
// connection error on the server, silently ignored for that stream on the client.  Compared with the model too.
func flowOverflowCase(run *Run, ss *shardSet, side string, idx int) {
	R := run.R
	r := newFlowRig(run, side)
	var groups []string
	sid := uint32(1)
	group := func(evs []string) {
		fr := r.takeFrames()
		sw, cw := r.streams[sid].win()
		evs = append(evs, sendEvents(sid, len(fr))...)
		groups = append(groups, fmt.Sprintf("(%s, %s, (Some (%s, %s, %s)))", CoqList(evs), coqFrames(fr), CoqZ(int64(sid)), CoqZ(int64(sw)), CoqZ(int64(cw))))
	}
	init0 := flowInits[R.Intn(len(flowInits)-1)]
	pre := []string{}
	e0 := flowEv{kind: "init", v: init0}
	if err := r.apply(e0); err != nil {
		r.fail("flow:settings-rejected:"+side, fmt.Sprintf("init %d: %v", init0, err))
		return
	}
	pre = append(pre, e0.coq())
	body := R.Bytes(300000)
	if !r.open(sid, body) {
		return
	}
	pre = append(pre, fmt.Sprintf("EOpen %s %s", CoqZ(int64(sid)), CoqZ(int64(len(body)))))
	r.settle("open")
	group(pre)
	st := r.streams[sid]
	kind := idx % 3
	// bring the window under attack close to the top first (legal), then push it over
	var legal, attack flowEv
	switch kind {
	case 0: // stream WINDOW_UPDATE
		sw := r.init + st.incs - st.recv
		legal = flowEv{kind: "wu", sid: sid, v: i32Max - sw - int64(R.Intn(3))}
	case 1: // connection WINDOW_UPDATE
		legal = flowEv{kind: "wuconn", v: i32Max - (r.connCr - r.total) - int64(R.Intn(3))}
	default: // SETTINGS_INITIAL_WINDOW_SIZE
		sw := r.init + st.incs - st.recv
		legal = flowEv{kind: "wu", sid: sid, v: i32Max - sw - int64(R.Intn(50))}
	}
	if legal.v >= 1 {
		if err := r.apply(legal); err != nil {
			r.fail("flow:credit-rejected:"+side+":"+legal.kind, fmt.Sprintf("%s v=%d within the legal window range was answered with %v", legal.kind, legal.v, err))
			r.abandon()
			return
		}
		r.settle(legal.kind)
		group([]string{legal.coq()})
	}
	if r.failed {
		r.abandon()
		return
	}
	sw0, cw0 := st.win()
	switch kind {
	case 0:
		attack = flowEv{kind: "wu", sid: sid, v: i32Max - int64(sw0) + 1 + int64(R.Intn(1000))}
	case 1:
		attack = flowEv{kind: "wuconn", v: i32Max - int64(cw0) + 1 + int64(R.Intn(1000))}
	default:
		attack = flowEv{kind: "init", v: r.init + (i32Max - int64(sw0)) + 1 + int64(R.Intn(50))}
	}
	if attack.v > i32Max {
		attack.v = i32Max
	}
	overflows := (kind == 0 && int64(sw0)+attack.v > i32Max) || (kind == 1 && int64(cw0)+attack.v > i32Max) || (kind == 2 && int64(sw0)+attack.v-r.init > i32Max)
	if !overflows || attack.v < 1 {
		return // the window could not be brought close enough to the top (initial window 2^31-1 taken etc.)
	}
	bookInit, bookIncs, bookConn := r.init, st.incs, r.connCr
	err := r.apply(attack)
	r.init, st.incs, r.connCr = bookInit, bookIncs, bookConn // the grant is void; keep the books for the checks in poll
	time.Sleep(300 * time.Microsecond)
	r.poll()
	sw1, cw1 := st.win()
	what := fmt.Sprintf("%s v=%d on windows (%d,%d)", attack.kind, attack.v, sw0, cw0)
	// the sender may have been running: windows can only have gone down by what it wrote meanwhile
	if int64(sw1) > int64(sw0) || int64(cw1) > int64(cw0) || sw1 < 0 && sw0 >= 0 {
		r.fail("flow:add-wraps-silently:"+side+":"+attack.kind, what+fmt.Sprintf(": windows afterwards (%d,%d)", sw1, cw1))
	}
	wantErr := !(side == "client" && kind == 2)
	if wantErr {
		ce, isCE := err.(mh2.ConnectionError)
		if !isCE || mh2.ErrCode(ce) != mh2.ErrCodeFlowControl {
			r.fail("flow:overflow-not-reported:"+side+":"+attack.kind, what+fmt.Sprintf(": expected connection error FLOW_CONTROL_ERROR, got %v", err))
		}
	} else if err != nil {
		r.fail("flow:overflow-not-ignored:client:init", what+fmt.Sprintf(": got %v", err))
	}
	group([]string{attack.coq()})
	term := fmt.Sprintf("(%s, %s)", coqSide(side), CoqList(groups))
	ss.add("flowo", flowHeader, "flow_case", "flow_mismatches", 60, term, map[string]interface{}{"side": side, "script": r.script})
	run.Count("flowo:"+term, true, "flow:overflow:"+side+":"+attack.kind)
	r.abandon()
}

// flowNegativeCase: scripted sequences around a NEGATIVE stream send window.  The sender uses up its window and
// parks; the peer lowers SETTINGS_INITIAL_WINDOW_SIZE below the bytes already sent (RFC 7540 6.9.2: the window
// becomes negative); stream WINDOW_UPDATEs then lift it in several ways.  Whatever the path, once the credit
// covers the body the body must be completed: a WINDOW_UPDATE that makes a non-positive window positive has to
// wake the sender.  Finder signature flow:body-not-completed-although-credit-arrived:<side>; the traces also go to
// the model shards (flow_mismatches, source switches from Gen).
func flowNegativeCase(run *Run, ss *shardSet, side string, idx int) {
	R := run.R
	r := newFlowRig(run, side)
	r.liveSig = "flow:body-not-completed-although-credit-arrived:" + side
	r.wait = 2 * time.Second
	variant := idx % 6
	names := []string{"neg->pos", "neg->neg,neg->0,0->pos", "neg->neg,neg->pos", "neg->0,0->pos", "conn 0->pos then stream neg->pos", "stream neg->pos then conn 0->pos"}
	sid := uint32(1)
	var groups []string
	group := func(evs []string) {
		fr := r.takeFrames()
		w := "None"
		if st := r.streams[sid]; st != nil && st.win != nil {
			sw, cw := st.win()
			w = fmt.Sprintf("(Some (%s, %s, %s))", CoqZ(int64(sid)), CoqZ(int64(sw)), CoqZ(int64(cw)))
		}
		evs = append(evs, sendEvents(sid, len(fr))...)
		groups = append(groups, fmt.Sprintf("(%s, %s, %s)", CoqList(evs), coqFrames(fr), w))
	}
	step := func(e flowEv) bool {
		if err := r.apply(e); err != nil {
			r.fail("flow:credit-rejected:"+side+":"+e.kind, fmt.Sprintf("%s sid=%d v=%d within the legal window range was answered with %v", e.kind, e.sid, e.v, err))
			return false
		}
		r.settle(e.kind)
		group([]string{e.coq()})
		return !r.failed
	}
	connCombined := variant >= 4
	w0 := []int64{16384, 20000, 65535, 30000}[(idx/6)%4]
	if connCombined {
		w0 = 65535 // equals the initial connection window: both are used up together
	}
	bodyLen := []int{70000, 100000, 200000}[(idx/24+idx)%3]
	mfs0 := flowMfs[R.Intn(len(flowMfs))]
	r.meta = map[string]interface{}{"body": bodyLen, "settings": map[string]int64{"initial_window": w0, "max_frame_size": mfs0}, "variant": names[variant]}
	var pre []string
	for _, e := range []flowEv{{kind: "init", v: w0}, {kind: "mfs", v: mfs0}} {
		if err := r.apply(e); err != nil {
			r.fail("flow:settings-rejected:"+side, fmt.Sprintf("%s %d: %v", e.kind, e.v, err))
			return
		}
		pre = append(pre, e.coq())
	}
	if !connCombined {
		e := flowEv{kind: "wuconn", v: int64(1 << 20)}
		r.apply(e)
		pre = append(pre, e.coq())
	}
	body := R.Bytes(bodyLen)
	if !r.open(sid, body) {
		return
	}
	pre = append(pre, fmt.Sprintf("EOpen %s %s", CoqZ(int64(sid)), CoqZ(int64(bodyLen))))
	r.settle("open")
	group(pre)
	st := r.streams[sid]
	if r.failed || st.recv != w0 {
		r.abandon()
		return
	}
	// the peer lowers the initial window below what was sent: negative send window
	low := []int64{0, 1, 1000, w0 / 2, w0 - 1}[R.Intn(5)]
	if !step(flowEv{kind: "init", v: low}) {
		r.abandon()
		return
	}
	neg := r.init + st.incs - st.recv // < 0
	up := 1 + int64(R.Intn(40000))    // where the window ends up above zero
	part := 1 + int64(R.Intn(int(-neg)-1+1))
	if part >= -neg {
		part = -neg - 1
	}
	var path []flowEv
	switch variant {
	case 0:
		path = []flowEv{{kind: "wu", sid: sid, v: -neg + up}}
	case 1:
		if part >= 1 {
			path = append(path, flowEv{kind: "wu", sid: sid, v: part})
		} else {
			part = 0
		}
		path = append(path, flowEv{kind: "wu", sid: sid, v: -neg - part}, flowEv{kind: "wu", sid: sid, v: up})
	case 2:
		if part >= 1 {
			path = append(path, flowEv{kind: "wu", sid: sid, v: part})
		} else {
			part = 0
		}
		path = append(path, flowEv{kind: "wu", sid: sid, v: -neg - part + up})
	case 3:
		path = []flowEv{{kind: "wu", sid: sid, v: -neg}, {kind: "wu", sid: sid, v: up}}
	case 4:
		path = []flowEv{{kind: "wuconn", v: 1 + int64(R.Intn(100000))}, {kind: "wu", sid: sid, v: -neg + up}}
	default:
		path = []flowEv{{kind: "wu", sid: sid, v: -neg + up}, {kind: "wuconn", v: 1 + int64(R.Intn(100000))}}
	}
	for _, e := range path {
		if !step(e) {
			r.abandon()
			return
		}
	}
	// release the rest: the credit ends up covering the body, which then has to be completed
	for steps := 0; !r.failed && !r.allDone() && steps < 64; steps++ {
		e := r.nextCredit(true)
		if e.kind == "init" || e.kind == "mfs" {
			continue
		}
		if !step(e) {
			break
		}
	}
	if r.failed {
		r.abandon()
		return
	}
	if !r.allDone() {
		r.fail(r.liveSig, "the script ran out of steps before the body was complete")
		r.abandon()
		return
	}
	r.finish()
	term := fmt.Sprintf("(%s, %s)", coqSide(side), CoqList(groups))
	ss.add("flown", flowHeader, "flow_case", "flow_mismatches", 60, term, map[string]interface{}{"side": side, "script": r.script, "variant": names[variant]})
	run.Count("flown:"+term, true, "flow:negative:"+side, "flow:negative:"+names[variant])
}
