package main

// C07, through the REAL stream layer: requests written by a reference client (x/net Framer + hpack encoder)
// are delivered to a real stream/http2 server stream connection (protocol registry -> newServerStreamConnection)
// whole and cut at every position; what the stream layer hands to the proxy (NewStreamDetect / OnReceive:
// headers, body) must not depend on the cut.

import (
	"bytes"
	"context"
	"fmt"
	"net"
	"sort"
	"strings"

	xh2 "golang.org/x/net/http2"
	xhpack "golang.org/x/net/http2/hpack"
	"mosn.io/api"
	"mosn.io/mosn/pkg/protocol"
	"mosn.io/mosn/pkg/stream"
	_ "mosn.io/mosn/pkg/stream/http2"
	"mosn.io/mosn/pkg/types"
	"mosn.io/pkg/buffer"
	"mosn.io/pkg/variable"

	. "vh/vhlib"
)

type dispConn struct {
	fakeConn
	closed bool
}

func (c *dispConn) SetTransferEventListener(func() bool)                   {}
func (c *dispConn) AddConnectionEventListener(api.ConnectionEventListener) {}
func (c *dispConn) RawConn() net.Conn                                      { return nil }
func (c *dispConn) ID() uint64                                             { return 1 }
func (c *dispConn) LocalAddr() net.Addr                                    { return &net.TCPAddr{} }
func (c *dispConn) RemoteAddr() net.Addr                                   { return &net.TCPAddr{} }
func (c *dispConn) Close(api.ConnectionCloseType, api.ConnectionEvent) error {
	c.closed = true
	return nil
}

type gotReq struct {
	Stream  string
	Headers string
	Body    string
}

type dispListener struct {
	reqs []gotReq
	n    int
}

func (l *dispListener) OnGoAway() {}
func (l *dispListener) NewStreamDetect(ctx context.Context, sender types.StreamSender, span api.Span) types.StreamReceiveListener {
	l.n++
	return &dispReceiver{l: l, id: fmt.Sprint(sender.GetStream().ID())}
}

type dispReceiver struct {
	l  *dispListener
	id string
}

func (r *dispReceiver) OnReceive(ctx context.Context, headers api.HeaderMap, data buffer.IoBuffer, trailers api.HeaderMap) {
	var hs []string
	if headers != nil {
		headers.Range(func(k, v string) bool { hs = append(hs, strings.ToLower(k)+"="+v); return true })
	}
	sort.Strings(hs)
	body := ""
	if data != nil {
		body = Hex(data.Bytes())
	}
	r.l.reqs = append(r.l.reqs, gotReq{Stream: r.id, Headers: strings.Join(hs, "&"), Body: body})
}
func (r *dispReceiver) OnDecodeError(ctx context.Context, err error, headers api.HeaderMap) {
	r.l.reqs = append(r.l.reqs, gotReq{Stream: r.id, Headers: "DECODE-ERROR"})
}

func runDispatch(chunks [][]byte) (reqs []gotReq, residue int, closed bool, perr error) {
	ctx := variable.NewVariableContext(context.Background())
	conn := &dispConn{}
	l := &dispListener{}
	sc := stream.CreateServerStreamConnection(ctx, protocol.HTTP2, conn, l)
	buf := buffer.NewIoBuffer(0)
	perr = guarded(func() error {
		for _, c := range chunks {
			if conn.closed {
				break
			}
			buf.Write(c)
			sc.Dispatch(buf)
		}
		return nil
	})
	return l.reqs, buf.Len(), conn.closed, perr
}

// c07Dispatch: preface + SETTINGS + k requests (HEADERS [+CONTINUATION*] [+DATA*]), optionally one request
// with an invalid header field in between (a stream error must not disturb the others).
func c07Dispatch(run *Run, n int) {
	r := run.R
	for s := 0; s < n; s++ {
		if abortRun {
			return
		}
		var w bytes.Buffer
		w.WriteString(xh2.ClientPreface)
		fr := xh2.NewFramer(&w, nil)
		var hb bytes.Buffer
		enc := xhpack.NewEncoder(&hb)
		fr.WriteSettings()
		nreq := 1 + r.Intn(3)
		var want []gotReq
		withBad := r.Pct(30)
		for i := 0; i < nreq; i++ {
			sid := uint32(1 + 2*i)
			fields := genValidHeaderList(r, false)
			bad := withBad && i == 0
			if bad {
				fields = append(fields, hfield{Name: "Bad-Upper", Value: "x"})
			}
			hb.Reset()
			for _, f := range fields {
				enc.WriteField(xhpack.HeaderField{Name: f.Name, Value: f.Value, Sensitive: f.Sens})
			}
			blk := append([]byte(nil), hb.Bytes()...)
			body := r.Bytes([]int{0, 0, 5, 300}[r.Intn(4)])
			if bad {
				body = nil // DATA for a stream whose HEADERS were refused is a connection error (idle stream), as in x/net
			}
			ncont := r.Intn(3)
			cut := 0
			if len(blk) > 0 {
				cut = r.Intn(len(blk) + 1)
			}
			if ncont == 0 {
				cut = len(blk)
			}
			fr.WriteHeaders(xh2.HeadersFrameParam{StreamID: sid, BlockFragment: blk[:cut], EndStream: len(body) == 0, EndHeaders: ncont == 0})
			rest := blk[cut:]
			for c := 0; c < ncont; c++ {
				k := len(rest)
				if c < ncont-1 && len(rest) > 0 {
					k = r.Intn(len(rest) + 1)
				}
				fr.WriteContinuation(sid, c == ncont-1, rest[:k])
				rest = rest[k:]
			}
			if len(body) > 0 {
				half := r.Intn(len(body) + 1)
				if half > 0 && half < len(body) {
					fr.WriteData(sid, false, body[:half])
					fr.WriteData(sid, true, body[half:])
				} else {
					fr.WriteData(sid, true, body)
				}
			}
			if !bad {
				want = append(want, gotReq{Stream: fmt.Sprint(sid), Body: Hex(body)})
			}
		}
		data := append([]byte(nil), w.Bytes()...)
		whole, wres, wclosed, perr := runDispatch([][]byte{data})
		rep := map[string]interface{}{"part": "dispatch", "stream": Hex(data)}
		if perr != nil {
			run.Fail("h2dispatch:panic-or-hang", "stream/http2 Dispatch: "+perr.Error(), rep)
			continue
		}
		// the requests that must come out (ids and bodies; header maps are compared chunked-vs-whole)
		ok := len(whole) == len(want)
		for i := 0; ok && i < len(want); i++ {
			ok = whole[i].Stream == want[i].Stream && whole[i].Body == want[i].Body
		}
		if !ok || wres != 0 || wclosed {
			run.Fail("h2dispatch:requests-lost-or-altered", fmt.Sprintf("whole delivery handed %d requests to the proxy (residue %d, closed %v), %d were sent (one more with an invalid header name: %v)", len(whole), wres, wclosed, len(want), withBad), rep)
		}
		nontriv := nreq >= 2
		cuts := len(data) - 1
		step := 1
		if len(data) > run.N(400, 2000) {
			step = 1 + len(data)/run.N(400, 2000)
		}
		for c := 1; c <= cuts; c += step {
			got, gres, gclosed, perr := runDispatch([][]byte{data[:c], data[c:]})
			run.Sum.Evaluations++
			if perr != nil || fmt.Sprint(got) != fmt.Sprint(whole) || gres != wres || gclosed != wclosed {
				rep2 := map[string]interface{}{"part": "dispatch", "stream": Hex(data), "cut": c}
				run.Fail("h2dispatch:segmentation-dependent", fmt.Sprintf("cut at %d: %d requests (residue %d, closed %v, %v); whole delivery: %d requests (residue %d)", c, len(got), gres, gclosed, perr, len(whole), wres), rep2)
				break
			}
		}
		// 1-byte reads
		one := make([][]byte, len(data))
		for i := range data {
			one[i] = data[i : i+1]
		}
		got, gres, gclosed, perr := runDispatch(one)
		if perr != nil || fmt.Sprint(got) != fmt.Sprint(whole) || gres != wres || gclosed != wclosed {
			run.Fail("h2dispatch:segmentation-dependent", fmt.Sprintf("1-byte reads: %d requests (residue %d, closed %v, %v); whole delivery: %d requests", len(got), gres, gclosed, perr, len(whole)), rep)
		}
		run.Count("disp|"+Hex(data), nontriv, "dispatch-real", fmt.Sprintf("dispatch-requests=%d", nreq), fmt.Sprintf("dispatch-bad-request=%v", withBad))
	}
}
