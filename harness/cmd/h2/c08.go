package main

import (
	"context"
	"fmt"
	"runtime"

	mh2 "mosn.io/mosn/pkg/module/http2"
	mhpack "mosn.io/mosn/pkg/module/http2/hpack"
	"mosn.io/pkg/buffer"

	. "vh/vhlib"
)

// c08 (HTTP/2 part): malformed input is contained - HPACK decoder and frame reader never panic, hang,
// or allocate for announced lengths whose bytes have not arrived.
func c08(args []string) int {
	run := NewRun("C08", args)
	run.Sum.Rule = "h2: (a) frame streams with single-field corruptions (every length field to 0,1,2,3,truth+-1,0x7fff,0xffff,0xffffff,2^20(+1); type, flags, stream id, payload bytes, pad lengths, truncation) and random bytes to MFramer.ReadFrame under recover() with a 5 s watchdog, whole and chunked; (b) HPACK blocks: corruptions of valid representation sequences (truncation, bit flips, over-long varints, announced huge strings, EOS / over-long padding), with and without SetMaxStringLength / SetEmitEnabled(false); (c) Huffman decoder and varint decoder on corrupted and random input; (d) allocation probes: announced lengths up to 2^31 with no bytes behind them, runtime.MemStats TotalAlloc delta. Non-trivial: every case; distinct by input bytes."
	ss := newShardSet(run)
	compareReference = false
	framesStreams(run, ss, "c08", false, run.N(150, 2000), false)
	framesRandom(run, ss, run.N(60, 1000))
	hpackReprSessions(run, ss, run.N(150, 2500), true)
	hpackKnobSessions(run, ss, run.N(80, 1200))
	hpackIntsMalformed(run, ss)
	hpackHuffmanMalformed(run, ss)
	allocProbes(run)
	ss.close()
	return run.Finish()
}

// random bytes as a frame stream
func framesRandom(run *Run, ss *shardSet, n int) {
	r := run.R
	sw := srcSwitches()
	for i := 0; i < n; i++ {
		if abortRun {
			return
		}
		data := r.Bytes(1 + r.Intn(60))
		if r.Bool() { // plausible header, random payload
			l := r.Intn(30)
			data = append([]byte{0, 0, byte(l), byte(r.Intn(11)), byte(r.Intn(256)), 0, 0, 0, byte(r.Intn(3))}, r.Bytes(l+r.Intn(3))...)
		}
		evs, residue, dead := runMosn(sw["h2_dispatch_continues"], [][]byte{data})
		rep := map[string]interface{}{"part": "frames-random", "stream": Hex(data)}
		for _, e := range evs {
			if e.Err == "PANIC" || e.Err == "HANG" {
				run.Fail("h2frame:reader-panic-or-hang", fmt.Sprintf("MFramer.ReadFrame %s on random bytes", e.Err), rep)
			}
		}
		ss.add("frr", frameHeader, "fr_case", "fr_mismatches", 200,
			fmt.Sprintf("(%s, [[]], %s, %s, %s)", cb(data), eventsCoq(evs), CoqN(uint64(residueIfAlive(residue, dead))), CoqBool(dead)), rep)
		run.Count("frr|"+Hex(data), true, "frames-random")
	}
}

func hpackIntsMalformed(run *Run, ss *shardSet) {
	r := run.R
	for i := 0; i < run.N(300, 3000); i++ {
		if abortRun {
			return
		}
		n := byte(1 + r.Intn(8))
		in := []byte{byte(r.Intn(256))}
		for j := 0; j < r.Intn(13); j++ {
			in = append(in, byte(0x80|r.Intn(128)))
		}
		if r.Bool() {
			in = append(in, byte(r.Intn(128)))
		}
		var got uint64
		var rem []byte
		var more bool
		var err error
		perr := guarded(func() error { got, rem, more, err = mhpack.VerifReadVarInt(n, in); return nil })
		if perr != nil {
			run.Fail("hpack:int-decoder-panic", perr.Error(), map[string]interface{}{"n": n, "in": Hex(in)})
			continue
		}
		var res string
		switch {
		case more:
			res = "HNeedMore"
		case err != nil:
			res = "(HErr EVarint)"
		default:
			res = fmt.Sprintf("(HOk (%s, %s))", CoqN(got), cb(rem))
		}
		ss.add("intdec", hpackHeader, "intdec_case", "intdec_mismatches", 400,
			fmt.Sprintf("(%s, %s, %s)", CoqN(uint64(n)), cb(in), res), map[string]interface{}{"part": "intdec-malformed", "n": n, "in": Hex(in)})
		run.Count(fmt.Sprintf("intm|%d|%x", n, in), true, "hpack-int-malformed")
	}
}

func hpackHuffmanMalformed(run *Run, ss *shardSet) {
	r := run.R
	for i := 0; i < run.N(400, 5000); i++ {
		if abortRun {
			return
		}
		var in []byte
		if r.Bool() {
			in = corruptBytes(r, mhpack.AppendHuffmanString(nil, genString(r, 40)))
		} else {
			in = r.Bytes(1 + r.Intn(16))
		}
		maxLen := []int{0, 0, 1, 3, 10}[r.Intn(5)]
		out, derr := huffDecode(maxLen, in)
		if c := hpackErrClass(derr); c == "WPanic" || c == "WFuel" {
			run.Fail("hpack:huffman-decoder-panic", derr.Error(), map[string]interface{}{"in": Hex(in), "maxlen": maxLen})
			continue
		}
		ss.add("huffdec", hpackHeader, "huffdec_case", "huffdec_mismatches", 300,
			fmt.Sprintf("(%s, %s, %s)", CoqN(uint64(maxLen)), cb(in), coqHoutBytes(out, derr)), map[string]interface{}{"part": "huffdec", "in": Hex(in), "maxlen": maxLen})
		run.Count(fmt.Sprintf("huffm|%d|%x", maxLen, in), true, "huffman-malformed:"+hpackErrClass(derr))
	}
}

// allocProbes: announced lengths whose bytes have not arrived must not be allocated
func allocProbes(run *Run) {
	measure := func(f func()) uint64 {
		var a, b runtime.MemStats
		runtime.GC()
		runtime.ReadMemStats(&a)
		f()
		runtime.ReadMemStats(&b)
		return b.TotalAlloc - a.TotalAlloc
	}
	const limit = 256 << 10
	// HPACK: literal with a huge announced string length, indexed with huge index, size update
	for _, in := range [][]byte{
		{0x00, 0x7f, 0xff, 0xff, 0xff, 0x07},             // new name, raw, length ~2^31
		{0x00, 0xff, 0xff, 0xff, 0xff, 0x07},             // new name, Huffman, length ~2^31
		{0x40, 0x01, 'a', 0x7f, 0x80, 0x80, 0x80, 0x40},  // value length 2^27
		{0x00, 0x7f, 0xff, 0xff, 0xff, 0xff, 0xff, 0x03}, // length ~2^41
		{0xff, 0xff, 0xff, 0xff, 0x07},                   // index ~2^31
		{0x3f, 0xff, 0xff, 0xff, 0x07},                   // size update ~2^31
	} {
		var class string
		delta := measure(func() {
			d := mhpack.NewDecoder(4096, func(mhpack.HeaderField) {})
			err := guarded(func() error { _, e := d.Write(in); return e })
			class = hpackErrClass(err)
		})
		run.Count("alloc|hpack|"+Hex(in), true, "alloc-probe-hpack")
		if class == "WPanic" || class == "WFuel" {
			run.Fail("hpack:decoder-panic-or-hang", "announced length probe: "+class, map[string]interface{}{"in": Hex(in)})
		}
		if delta > limit {
			run.Fail("hpack:allocates-for-announced-length", fmt.Sprintf("Decoder.Write on %x allocated %d bytes", in, delta), map[string]interface{}{"in": Hex(in), "allocated": delta})
		}
	}
	// frames: header announcing a large payload, nothing behind it
	for _, l := range []int{1 << 10, 1 << 16, 1 << 20, 1<<20 + 1, 1<<24 - 1} {
		for _, t := range []byte{0, 1, 4, 9, 77} {
			hdr := []byte{byte(l >> 16), byte(l >> 8), byte(l), t, 0, 0, 0, 0, 1}
			var res string
			delta := measure(func() {
				sc := mh2.NewServerConn(&fakeConn{})
				buf := buffer.NewIoBufferBytes(append(hdr, 1, 2, 3))
				err := guarded(func() error { _, _, e := sc.Framer.ReadFrame(context.Background(), buf, 0); return e })
				res = fmt.Sprint(err)
			})
			run.Count(fmt.Sprintf("alloc|frame|%d|%d", l, t), true, "alloc-probe-frame")
			if l <= 1<<20 && res != "EAGAIN" {
				run.Fail("h2frame:incomplete-frame-not-again", fmt.Sprintf("frame header announcing %d bytes with 3 present: %s", l, res), map[string]interface{}{"len": l, "type": t})
			}
			if delta > limit {
				run.Fail("h2frame:allocates-for-announced-length", fmt.Sprintf("ReadFrame on a header announcing %d bytes allocated %d bytes", l, delta), map[string]interface{}{"len": l, "type": t, "allocated": delta})
			}
		}
	}
}
