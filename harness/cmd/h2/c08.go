package main

import (
	"bytes"
	"context"
	"fmt"
	"net/http"
	"runtime"
	"strings"

	xh2 "golang.org/x/net/http2"

	mh2 "mosn.io/mosn/pkg/module/http2"
	mhpack "mosn.io/mosn/pkg/module/http2/hpack"
	"mosn.io/pkg/buffer"

	. "vh/vhlib"
)

// c08 (HTTP/2 part): malformed input is contained - HPACK decoder and frame reader never panic, hang,
// or allocate for announced lengths whose bytes have not arrived.
func c08(args []string) int {
	run := NewRun("C08", args)
	run.Sum.Rule = "h2: (a) frame streams with single-field corruptions (every length field to 0,1,2,3,truth+-1,0x7fff,0xffff,0xffffff,2^20(+1); type, flags, stream id, payload bytes, pad lengths, truncation) and random bytes to MFramer.ReadFrame under recover() with a 5 s watchdog, whole and chunked; (b) HPACK blocks: corruptions of valid representation sequences (truncation, bit flips, over-long varints, announced huge strings, EOS / over-long padding), with and without SetMaxStringLength / SetEmitEnabled(false); (c) Huffman decoder and varint decoder on corrupted and random input; (c') every representation kind x every integer field (index with 7/6/4-bit prefix, table-size update, name/value length raw and Huffman) x extreme varints the decoder still accepts (2^31+-1, 2^32+-1, 2^62, 2^63-1, 2^63, 2^63+k for k around the static table length up to 126, the largest accepted value and one beyond), on a fresh and on a populated table, directly and inside a HEADERS frame through MFramer; (e) SETTINGS_MAX_FRAME_SIZE values inside and outside the RFC range sent to a real MClientConn followed by a request with a 40 kB body (sender must finish or the setting must be refused); (d) allocation probes: announced lengths up to 2^31 with no bytes behind them, runtime.MemStats TotalAlloc delta. Non-trivial: every case; distinct by input bytes."
	ss := newShardSet(run)
	compareReference = false
	framesStreams(run, ss, "c08", false, run.N(100, 2000), false)
	framesRandom(run, ss, run.N(60, 1000))
	framesPaddedBoundaries(run, ss)
	hpackReprSessions(run, ss, run.N(100, 2500), true)
	hpackKnobSessions(run, ss, run.N(50, 1200))
	hpackIntsMalformed(run, ss)
	hpackExtremeInts(run, ss)
	hpackHuffmanMalformed(run, ss)
	allocProbes(run)
	clientSettingsProbes(run)
	ss.close()
	return run.Finish()
}

// random bytes as a frame stream
func framesRandom(run *Run, ss *shardSet, n int) {
	r := run.R
	sw := srcSwitches()
	for i := 0; i < n; i++ {
		if abortRun {
			return
		}
		data := r.Bytes(1 + r.Intn(60))
		if r.Bool() { // plausible header, random payload
			l := r.Intn(30)
			data = append([]byte{0, 0, byte(l), byte(r.Intn(11)), byte(r.Intn(256)), 0, 0, 0, byte(r.Intn(3))}, r.Bytes(l+r.Intn(3))...)
		}
		evs, residue, dead := runMosn(sw["h2_dispatch_continues"], [][]byte{data})
		rep := map[string]interface{}{"part": "frames-random", "stream": Hex(data)}
		for _, e := range evs {
			if e.Err == "PANIC" || e.Err == "HANG" {
				run.Fail("h2frame:reader-panic-or-hang", fmt.Sprintf("MFramer.ReadFrame %s on random bytes", e.Err), rep)
			}
		}
		ss.add("frr", frameHeader, "fr_case", "fr_mismatches", 200,
			fmt.Sprintf("(%s, [[]], %s, %s, %s)", cb(data), eventsCoq(evs), CoqN(uint64(residueIfAlive(residue, dead))), CoqBool(dead)), rep)
		run.Count("frr|"+Hex(data), true, "frames-random")
	}
}

func hpackIntsMalformed(run *Run, ss *shardSet) {
	r := run.R
	for i := 0; i < run.N(200, 3000); i++ {
		if abortRun {
			return
		}
		n := byte(1 + r.Intn(8))
		in := []byte{byte(r.Intn(256))}
		for j := 0; j < r.Intn(13); j++ {
			in = append(in, byte(0x80|r.Intn(128)))
		}
		if r.Bool() {
			in = append(in, byte(r.Intn(128)))
		}
		var got uint64
		var rem []byte
		var more bool
		var err error
		perr := guarded(func() error { got, rem, more, err = mhpack.VerifReadVarInt(n, in); return nil })
		if perr != nil {
			run.Fail("hpack:int-decoder-panic", perr.Error(), map[string]interface{}{"n": n, "in": Hex(in)})
			continue
		}
		var res string
		switch {
		case more:
			res = "HNeedMore"
		case err != nil:
			res = "(HErr EVarint)"
		default:
			res = fmt.Sprintf("(HOk (%s, %s))", CoqN(got), cb(rem))
		}
		ss.add("intdec", hpackHeader, "intdec_case", "intdec_mismatches", 400,
			fmt.Sprintf("(%s, %s, %s)", CoqN(uint64(n)), cb(in), res), map[string]interface{}{"part": "intdec-malformed", "n": n, "in": Hex(in)})
		run.Count(fmt.Sprintf("intm|%d|%x", n, in), true, "hpack-int-malformed")
	}
}

func hpackHuffmanMalformed(run *Run, ss *shardSet) {
	r := run.R
	for i := 0; i < run.N(250, 5000); i++ {
		if abortRun {
			return
		}
		var in []byte
		if r.Bool() {
			in = corruptBytes(r, mhpack.AppendHuffmanString(nil, genString(r, 40)))
		} else {
			in = r.Bytes(1 + r.Intn(16))
		}
		maxLen := []int{0, 0, 1, 3, 10}[r.Intn(5)]
		out, derr := huffDecode(maxLen, in)
		if c := hpackErrClass(derr); c == "WPanic" || c == "WFuel" {
			run.Fail("hpack:huffman-decoder-panic", derr.Error(), map[string]interface{}{"in": Hex(in), "maxlen": maxLen})
			continue
		}
		ss.add("huffdec", hpackHeader, "huffdec_case", "huffdec_mismatches", 300,
			fmt.Sprintf("(%s, %s, %s)", CoqN(uint64(maxLen)), cb(in), coqHoutBytes(out, derr)), map[string]interface{}{"part": "huffdec", "in": Hex(in), "maxlen": maxLen})
		run.Count(fmt.Sprintf("huffm|%d|%x", maxLen, in), true, "huffman-malformed:"+hpackErrClass(derr))
	}
}

// allocProbes: announced lengths whose bytes have not arrived must not be allocated
func allocProbes(run *Run) {
	measure := func(f func()) uint64 {
		var a, b runtime.MemStats
		runtime.GC()
		runtime.ReadMemStats(&a)
		f()
		runtime.ReadMemStats(&b)
		return b.TotalAlloc - a.TotalAlloc
	}
	const limit = 256 << 10
	// HPACK: literal with a huge announced string length, indexed with huge index, size update
	for _, in := range [][]byte{
		{0x00, 0x7f, 0xff, 0xff, 0xff, 0x07},             // new name, raw, length ~2^31
		{0x00, 0xff, 0xff, 0xff, 0xff, 0x07},             // new name, Huffman, length ~2^31
		{0x40, 0x01, 'a', 0x7f, 0x80, 0x80, 0x80, 0x40},  // value length 2^27
		{0x00, 0x7f, 0xff, 0xff, 0xff, 0xff, 0xff, 0x03}, // length ~2^41
		{0xff, 0xff, 0xff, 0xff, 0x07},                   // index ~2^31
		{0x3f, 0xff, 0xff, 0xff, 0x07},                   // size update ~2^31
	} {
		var class string
		delta := measure(func() {
			d := mhpack.NewDecoder(4096, func(mhpack.HeaderField) {})
			err := guarded(func() error { _, e := d.Write(in); return e })
			class = hpackErrClass(err)
		})
		run.Count("alloc|hpack|"+Hex(in), true, "alloc-probe-hpack")
		if class == "WPanic" || class == "WFuel" {
			run.Fail("hpack:decoder-panic-or-hang", "announced length probe: "+class, map[string]interface{}{"in": Hex(in)})
		}
		if delta > limit {
			run.Fail("hpack:allocates-for-announced-length", fmt.Sprintf("Decoder.Write on %x allocated %d bytes", in, delta), map[string]interface{}{"in": Hex(in), "allocated": delta})
		}
	}
	// frames: header announcing a large payload, nothing behind it
	for _, l := range []int{1 << 10, 1 << 16, 1 << 20, 1<<20 + 1, 1<<24 - 1} {
		for _, t := range []byte{0, 1, 4, 9, 77} {
			hdr := []byte{byte(l >> 16), byte(l >> 8), byte(l), t, 0, 0, 0, 0, 1}
			var res string
			delta := measure(func() {
				sc := mh2.NewServerConn(&fakeConn{})
				buf := buffer.NewIoBufferBytes(append(hdr, 1, 2, 3))
				err := guarded(func() error { _, _, e := sc.Framer.ReadFrame(context.Background(), buf, 0); return e })
				res = fmt.Sprint(err)
			})
			run.Count(fmt.Sprintf("alloc|frame|%d|%d", l, t), true, "alloc-probe-frame")
			if l <= 1<<20 && res != "EAGAIN" {
				run.Fail("h2frame:incomplete-frame-not-again", fmt.Sprintf("frame header announcing %d bytes with 3 present: %s", l, res), map[string]interface{}{"len": l, "type": t})
			}
			if delta > limit {
				run.Fail("h2frame:allocates-for-announced-length", fmt.Sprintf("ReadFrame on a header announcing %d bytes allocated %d bytes", l, delta), map[string]interface{}{"len": l, "type": t, "allocated": delta})
			}
		}
	}
}

// clientSettingsProbes: SETTINGS values outside the RFC ranges sent by an upstream peer must be refused
// (connection error) or at least must not wedge or crash the request sender of MOSN's HTTP/2 client.
func clientSettingsProbes(run *Run) {
	ctx := context.Background()
	for _, v := range []uint32{16384, 1<<24 - 1, 0, 1, 16383, 1 << 24, 1 << 31, 1<<32 - 1} {
		if abortRun {
			return
		}
		valid := v >= 16384 && v <= 1<<24-1
		fc := &fakeConn{}
		cc := mh2.NewClientConn(fc)
		cc.WriteInitFrame()
		var w bytes.Buffer
		xh2.NewFramer(&w, nil).WriteSettings(xh2.Setting{ID: xh2.SettingMaxFrameSize, Val: v})
		buf := buffer.NewIoBufferBytes(append([]byte(nil), w.Bytes()...))
		var herr error
		f, _, err := cc.Framer.ReadFrame(ctx, buf, 0)
		if err == nil {
			_, _, _, _, _, herr = cc.HandleFrame(ctx, f)
		} else {
			herr = err
		}
		rep := map[string]interface{}{"part": "client-settings", "max_frame_size": v}
		run.Count(fmt.Sprintf("clisettings|%d", v), true, "client-settings-probe")
		if herr != nil {
			if valid {
				run.Fail("h2conn:client-refuses-valid-max-frame-size", fmt.Sprintf("SETTINGS_MAX_FRAME_SIZE=%d: %v", v, herr), rep)
			}
			continue // refused: the connection is torn down by the caller
		}
		req, _ := http.NewRequest("POST", "http://up.example/x", nil)
		ms := mh2.NewMClientStream(cc, req)
		body := bytes.Repeat([]byte("b"), 40000)
		ms.SendData = buffer.NewIoBufferBytes(body)
		perr := guarded(func() error {
			if e := ms.RoundTrip(ctx); e != nil {
				return e
			}
			return ms.RoundTrip(ctx)
		})
		switch {
		case perr != nil && strings.HasPrefix(perr.Error(), "HANG"):
			run.Fail("h2conn:client-sender-wedged-by-invalid-max-frame-size", fmt.Sprintf("after SETTINGS_MAX_FRAME_SIZE=%d from the peer (accepted without error) the request sender never finishes", v), rep)
		case perr != nil && strings.HasPrefix(perr.Error(), "PANIC"):
			run.Fail("h2conn:client-sender-panics-on-invalid-max-frame-size", fmt.Sprintf("after SETTINGS_MAX_FRAME_SIZE=%d from the peer (accepted without error) the request sender panics: %v", v, perr), rep)
		case valid:
			// the body must have been written completely in frames of at most v bytes
			got := 0
			xr := xh2.NewFramer(nil, bytes.NewReader(fc.out.Bytes()[len(xh2.ClientPreface):]))
			for {
				fr, e := xr.ReadFrame()
				if e != nil {
					break
				}
				if df, ok := fr.(*xh2.DataFrame); ok {
					got += len(df.Data())
				}
			}
			if got != len(body) {
				run.Fail("h2conn:client-body-not-written", fmt.Sprintf("SETTINGS_MAX_FRAME_SIZE=%d: %d of %d body bytes written", v, got, len(body)), rep)
			}
		}
	}
}

// hpackExtremeInts: for EVERY representation kind and prefix width, and for every integer FIELD (index, string
// length of name / value with and without the Huffman flag, table-size update), varints at the extremes
// readVarInt still accepts: 2^31+-1, 2^32+-1, 2^62, 2^63-1, 2^63, 2^63+k (k around the static table length and up
// to 126), the largest accepted value 2^63-1+2^n-1, and one value beyond it.  Fed to hpack.Decoder (fresh and
// with a populated dynamic table) and, inside a HEADERS frame, to MFramer.ReadFrame, under recover().
func hpackExtremeInts(run *Run, ss *shardSet) {
	sw := srcSwitches()
	vals := func(n uint) []uint64 {
		max := uint64(1<<63-1) + (uint64(1)<<n - 1)
		vs := []uint64{1<<31 - 1, 1 << 31, 1<<31 + 1, 1<<32 - 1, 1 << 32, 1<<32 + 1, 1 << 62, 1<<63 - 1, 1 << 63}
		for _, k := range []uint64{1, 2, 59, 60, 61, 62, 63, 64, 100, 125, 126, 127, 128, 254} {
			vs = append(vs, 1<<63+k)
		}
		vs = append(vs, max-1, max, max+1)
		return vs
	}
	type kind struct {
		name string
		n    uint
		flag byte
		pre  []byte // bytes before the integer
		post []byte // bytes after it (so that smaller values would be complete representations)
	}
	kinds := []kind{
		{"indexed", 7, 0x80, nil, nil},
		{"literal-incr-index", 6, 0x40, nil, []byte{1, 'v'}},
		{"literal-plain-index", 4, 0x00, nil, []byte{1, 'v'}},
		{"literal-never-index", 4, 0x10, nil, []byte{1, 'v'}},
		{"size-update", 5, 0x20, nil, nil},
		{"name-length-raw", 7, 0x00, []byte{0x40}, []byte{1, 'v'}},
		{"name-length-huffman", 7, 0x80, []byte{0x00}, []byte{1, 'v'}},
		{"value-length-raw", 7, 0x00, []byte{0x41}, nil},
		{"value-length-huffman", 7, 0x80, []byte{0x10, 1, 'n'}, nil},
	}
	// a first block that puts three entries into the dynamic table
	fill := []byte{0x40, 1, 'a', 1, 'b', 0x40, 1, 'c', 1, 'd', 0x40, 1, 'e', 1, 'f'}
	for _, k := range kinds {
		for _, v := range vals(k.n) {
			if abortRun {
				return
			}
			blk := append([]byte(nil), k.pre...)
			blk = appendInt(blk, k.n, v, k.flag, nil)
			blk = append(blk, k.post...)
			for _, populated := range []bool{false, true} {
				md := newMosnDec(4096)
				var ops []dop
				if populated {
					ops = append(ops, dop{Kind: "write", P: fill}, dop{Kind: "close"})
				}
				ops = append(ops, dop{Kind: "write", P: blk}, dop{Kind: "close"})
				obs := runDec(md, ops)
				last := obs[len(obs)-1].Class
				rep := map[string]interface{}{"part": "hpack-extreme-int", "kind": k.name, "value": fmt.Sprint(v), "block": Hex(blk), "populated": populated}
				if last == "WPanic" || last == "WFuel" {
					run.Fail("hpack:decoder-panic-or-hang", fmt.Sprintf("hpack.Decoder on a %s field carrying the integer %d (block %x): %s", k.name, v, blk, last), rep)
					continue
				}
				fin, _ := md.table()
				ss.add("decx", hpackHeader, "dec_case", "dec_mismatches", 200, coqDecCase(4096, ops[:len(obs)], obs, fin), rep)
				run.Count(fmt.Sprintf("xint|%s|%d|%v", k.name, v, populated), true, "hpack-extreme-int:"+k.name, "hpack-extreme-int-class:"+last)
			}
			// the same block inside a HEADERS frame through the frame reader (readMetaFrame)
			frame := append([]byte{byte(len(blk) >> 16), byte(len(blk) >> 8), byte(len(blk)), 1, 4, 0, 0, 0, 1}, blk...)
			evs, residue, dead := runMosn(sw["h2_dispatch_continues"], [][]byte{frame})
			rep := map[string]interface{}{"part": "hpack-extreme-int-frame", "kind": k.name, "value": fmt.Sprint(v), "stream": Hex(frame)}
			bad := false
			for _, e := range evs {
				if e.Err == "PANIC" || e.Err == "HANG" {
					bad = true
					run.Fail("h2frame:reader-panic-or-hang", fmt.Sprintf("MFramer.ReadFrame %s on a HEADERS frame whose %s field carries the integer %d", e.Err, k.name, v), rep)
				}
			}
			if !bad {
				ss.add("frx", frameHeader, "fr_case", "fr_mismatches", 200,
					fmt.Sprintf("(%s, [[]], %s, %s, %s)", cb(frame), eventsCoq(evs), CoqN(uint64(residueIfAlive(residue, dead))), CoqBool(dead)), rep)
				run.Count(fmt.Sprintf("xintf|%s|%d", k.name, v), true, "hpack-extreme-int-frame")
			}
		}
	}
}
