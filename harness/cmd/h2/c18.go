package main

import (
	. "vh/vhlib"
)

func c18(args []string) int {
	run := NewRun("C18", args)
	run.Sum.Rule = "hpack: (a) integers: boundary and random uint64 values x prefix 1..8, whole / with tail / every proper prefix, plus malformed continuation runs; " +
		"(b) Huffman: every symbol, random strings (all byte values, long runs, rare symbols), encodings and their corruptions with and without length limit; " +
		"(c) sessions of 3-20 ops: header blocks (1-8 fields: static-table names, repeated fields, fresh names, values 0..5000 bytes, 12% sensitive) interleaved with SetMaxDynamicTableSize from {0,1,31..65536}, encoded by MOSN's and by x/net's encoder, decoded whole or in random chunks by MOSN's decoder, x/net's decoder and the model; " +
		"(c') exact-fill sessions: table sizes 128..4096, entries whose sizes divide the table size (table exactly full, one byte under/over), the list re-sent (indexed references to the oldest entries), size changes to exactly / around the current size, both encoders; after every block both decoders must agree on outcome, header list and dynamic table (tables read through the wire by indexed probes); " +
		"(d) blocks of random VALID representations (any index, either string coding, all three literal kinds, size updates, non-canonical integers). " +
		"A session is non-trivial with >= 2 blocks; distinct by full content. " +
		"frames: sequences of 1-8 valid frames of all ten types and unknown types (DATA/HEADERS/PUSH_PROMISE padding, priority, 0-5 CONTINUATIONs incl. empty fragments, header blocks from one x/net hpack encoder per connection) written by x/net's Framer, parsed by MOSN's MFramer under several chunkings, by x/net's Framer and by the model; every frame writer of MFramer and x/net against the model serialiser. " +
		"padded frames in boundary shapes: DATA / HEADERS (with and without PRIORITY) / PUSH_PROMISE x content 0,1,2(,20) bytes x pad length 0,1,2,255 (zero content = pad length is everything after the fixed fields; payload of the Pad Length octet only) and the first invalid pad length, each followed by a PING, MFramer vs frame.go Framer vs x/net vs model; " +
		"rejected blocks: a request whose header block is rejected in the middle (invalid field name / value, pseudo-header after a regular field, header list over the limit) with 1-4 fresh literal fields AFTER the offending field, then a well-formed request on the same connection referring to them: MOSN's decoder table vs the reference decoder fed the same bytes (indexed probes), and the second request's header list vs what the peer encoded; " +
		"connections: 2-5 responses per real MServerConn (random header maps, 25% larger than one frame => CONTINUATION, 0-2 SETTINGS_HEADER_TABLE_SIZE changes before each) and 1-4 requests per real MClientConn, read back by x/net's Framer + hpack decoder and compared with the header maps that were set; header blocks whose ENCODED size is exactly k*maxFrameSize and +-1 (k=1..3; server split at 16384, client at peer SETTINGS_MAX_FRAME_SIZE in {16384,16385,20000,65535}; size reached by padding one header value, searched against the real encoder) written by the real MServerConn / MClientConn: fragments <= max frame size, END_HEADERS exactly on the last, read back by x/net followed by the next block of the connection; stream-open race: a real MClientConn opens a stream while, exactly when its HEADERS reach the connection, the read goroutine handles the peer's SETTINGS_INITIAL_WINDOW_SIZE change (down to 10/0/999, up from 0/5, up to 100000) or a WINDOW_UPDATE for the new stream; the send window afterwards and the DATA sent against it are checked."
	ss := newShardSet(run)
	hpackInts(run, ss)
	hpackHuffman(run, ss)
	hpackSessions(run, ss, "mosn", run.N(70, 500))
	hpackSessions(run, ss, "xnet", run.N(50, 350))
	hpackSessionsGen(run, ss, "mosn", run.N(30, 200), "-exact-fill", genExactFillSession)
	hpackSessionsGen(run, ss, "xnet", run.N(30, 200), "-exact-fill", genExactFillSession)
	hpackReprSessions(run, ss, run.N(90, 700), false)
	hpackReprSessions(run, ss, run.N(40, 300), true)
	hpackKnobSessions(run, ss, run.N(40, 300))
	framesStreams(run, ss, "c18", true, run.N(40, 600), false)
	framesWriters(run, ss, run.N(40, 400))
	framesPreface(run, ss)
	framesPaddedBoundaries(run, ss)
	hpackAfterRejectedBlock(run, run.N(40, 400))
	connHeaders(run, run.N(40, 400))
	sendHeaderBlocks(run)
	flowPart(run, ss)
	flowOpenRace(run, ss)
	ss.close()
	return run.Finish()
}
