package main

// C07: a frame that is a stream error for its OWN stream sits in the MIDDLE of an otherwise valid multi-stream sequence and
// is followed by a tail of complete frames that is SHORTER than the skipped frame - and by nothing else.  Whatever the reads
// looked like (the frame's header in an earlier read than the end of its payload, ...), the frames extracted - errors
// included - and the residue must be those of the whole delivery: a reader that carries anything across frames except the
// buffer (a "bytes needed" hint left over from the skipped frame) leaves the tail in the buffer.

import (
	"bytes"
	"fmt"
	"strings"

	xh2 "golang.org/x/net/http2"
	xhpack "golang.org/x/net/http2/hpack"

	. "vh/vhlib"
)

// the stream-error frames (each one complete): name -> bytes, written on stream sid with the connection's encoder
func streamErrorFrames(fr *xh2.Framer, w *bytes.Buffer, enc *xhpack.Encoder, hb *bytes.Buffer, sid uint32) map[string][]byte {
	out := map[string][]byte{}
	block := func(fs ...[2]string) []byte {
		hb.Reset()
		for _, f := range fs {
			enc.WriteField(xhpack.HeaderField{Name: f[0], Value: f[1], Sensitive: true}) // never indexed: the table stays as it is
		}
		return append([]byte(nil), hb.Bytes()...)
	}
	take := func(name string, f func()) {
		w.Reset()
		f()
		out[name] = append([]byte(nil), w.Bytes()...)
	}
	long := strings.Repeat("v", 70)
	req := [][2]string{{":method", "GET"}, {":scheme", "http"}, {":path", "/"}}
	take("headers-invalid-field-name", func() {
		fr.WriteHeaders(xh2.HeadersFrameParam{StreamID: sid, EndHeaders: true, EndStream: true, BlockFragment: block(append(req, [2]string{"Bad-Upper", long})...)})
	})
	take("headers-pseudo-after-regular", func() {
		fr.WriteHeaders(xh2.HeadersFrameParam{StreamID: sid, EndHeaders: true, EndStream: true, BlockFragment: block([2]string{":method", "GET"}, [2]string{"x-a", long}, [2]string{":path", "/"})})
	})
	take("headers-mixed-pseudo", func() {
		fr.WriteHeaders(xh2.HeadersFrameParam{StreamID: sid, EndHeaders: true, EndStream: true, BlockFragment: block(append(req, [2]string{":status", "200"}, [2]string{"x-a", long})...)})
	})
	take("headers-continuation-invalid-field", func() {
		b := block(append(req, [2]string{"x-ok", long}, [2]string{"Bad-Upper", "x"})...)
		fr.WriteHeaders(xh2.HeadersFrameParam{StreamID: sid, EndHeaders: false, EndStream: true, BlockFragment: b[:len(b)/2]})
		fr.WriteContinuation(sid, true, b[len(b)/2:])
	})
	take("headers-pad-exceeds-payload", func() {
		// PADDED, pad length 200 > the rest of the payload
		p := append([]byte{200}, bytes.Repeat([]byte{0x82}, 40)...)
		fr.WriteRawFrame(xh2.FrameHeaders, xh2.FlagHeadersPadded|xh2.FlagHeadersEndHeaders|xh2.FlagHeadersEndStream, sid, p)
	})
	take("window-update-zero-increment", func() {
		fr.WriteRawFrame(xh2.FrameWindowUpdate, 0, sid, []byte{0, 0, 0, 0})
	})
	return out
}

func framesAfterStreamError(run *Run, ss *shardSet) {
	r := run.R
	sw := srcSwitches()
	cont := sw["h2_dispatch_continues"]
	var w bytes.Buffer
	var hb bytes.Buffer
	names := []string{"headers-invalid-field-name", "headers-pseudo-after-regular", "headers-mixed-pseudo", "headers-continuation-invalid-field", "headers-pad-exceeds-payload", "window-update-zero-increment"}
	tails := [][]string{{"settings-ack"}, {"ping"}, {"headers"}, {"rst"}, {"winupd", "settings-ack"}, {"headers", "data"}, {"ping", "headers"}, {"headers", "headers"}}
	for ki, name := range names {
		for ti, tail := range tails {
			for prefix := 0; prefix < 2; prefix++ {
				if abortRun {
					return
				}
				if run.N(0, 1) == 0 && (ki+ti+prefix)%2 == 1 && name != "headers-invalid-field-name" {
					continue // quick tier: half of the combinations
				}
				w.Reset()
				fr := xh2.NewFramer(&w, nil)
				fr.AllowIllegalWrites = true
				enc := xhpack.NewEncoder(&hb)
				var data []byte
				tiny := func(sid uint32, es bool) []byte { // a request of static-table indices only
					w.Reset()
					fr.WriteHeaders(xh2.HeadersFrameParam{StreamID: sid, EndHeaders: true, EndStream: es, BlockFragment: []byte{0x82, 0x86, 0x84}})
					return append([]byte(nil), w.Bytes()...)
				}
				next := uint32(1)
				for i := 0; i < prefix*(1+r.Intn(2)); i++ {
					data = append(data, tiny(next, true)...)
					next += 2
				}
				if name == "window-update-zero-increment" { // on an open stream
					data = append(data, tiny(next, false)...)
					next += 2
				}
				bad := streamErrorFrames(fr, &w, enc, &hb, map[bool]uint32{true: next - 2, false: next}[name == "window-update-zero-increment"])[name]
				if name != "window-update-zero-increment" {
					next += 2
				}
				sE := len(data)
				data = append(data, bad...)
				eE := len(data)
				for _, t := range tail {
					if len(data)-eE+9 >= len(bad) {
						break // the tail stays shorter than the skipped frame
					}
					w.Reset()
					switch t {
					case "settings-ack":
						fr.WriteSettingsAck()
					case "ping":
						fr.WritePing(false, [8]byte{1, 2, 3, 4, 5, 6, 7, 8})
					case "rst":
						fr.WriteRSTStream(1, xh2.ErrCodeCancel)
					case "winupd":
						fr.WriteWindowUpdate(0, 1000)
					case "data":
						fr.WriteData(next-2, true, []byte("ab"))
					case "headers":
						data = append(data, tiny(next, t == "headers" && !(len(tail) > 1 && tail[len(tail)-1] == "data"))...)
						next += 2
						continue
					}
					if len(data)-eE+w.Len() < len(bad) {
						data = append(data, w.Bytes()...)
					}
				}
				if len(data) == eE {
					w.Reset()
					fr.WriteSettingsAck()
					data = append(data, w.Bytes()...)
				}
				whole, residue, dead := runMosn(cont, [][]byte{data})
				rep := map[string]interface{}{"part": "frames-after-stream-error", "kind": name, "tail": tail, "stream": Hex(data), "bad_frame_at": []int{sE, eE}}
				nerr := 0
				for _, e := range whole {
					if e.Err == "stream" {
						nerr++
					}
				}
				if nerr != 1 || dead || residue != 0 {
					run.Fail("h2frame:stream-error-frame-not-contained", fmt.Sprintf("%s in the middle of a valid sequence: whole delivery gives %d stream errors, dead %v, residue %d (expected: one stream error, every other frame read)", name, nerr, dead, residue), rep)
					continue
				}
				// two reads: every cut inside the bad frame (and one at each of its ends); three reads: a cut inside the bad
				// frame combined with every later cut
				var cs [][]int
				for c1 := sE; c1 <= eE; c1++ {
					if c1 > 0 && c1 < len(data) {
						cs = append(cs, []int{c1})
					}
				}
				firsts := []int{sE + 9, sE + 10, (sE + eE) / 2, eE - 1}
				for _, c1 := range firsts {
					if c1 <= sE || c1 >= eE {
						continue
					}
					for c2 := c1 + 1; c2 < len(data); c2++ {
						cs = append(cs, []int{c1, c2})
					}
				}
				segOK := true
				for _, cuts := range cs {
					evs, res, dd := runMosn(cont, splitAt(data, cuts))
					run.Sum.Evaluations++
					if !eventsEqual(evs, whole) || dd != dead || res != residue {
						segOK = false
						rep2 := map[string]interface{}{"part": "frames-after-stream-error", "kind": name, "tail": tail, "stream": Hex(data), "bad_frame_at": []int{sE, eE}, "cuts": cuts}
						run.Fail("h2frame:segmentation-dependent:after-stream-error", fmt.Sprintf("%s at bytes %d..%d followed by %d bytes of complete frames: reads cut at %v give %d events / residue %d, the same bytes in one read give %d events / residue %d; first difference at %s",
							name, sE, eE, len(data)-eE, cuts, len(evs), res, len(whole), residue, firstDiff(evs, whole)), rep2)
						break
					}
				}
				if segOK {
					// the model on the same bytes: a sample of the segmentations
					sample := [][]int{{}}
					for i := 0; i < len(cs); i += 1 + len(cs)/10 {
						sample = append(sample, cs[i])
					}
					ss.add("fr-c07e", frameHeader, "fr_case", "fr_mismatches", 40,
						fmt.Sprintf("(%s, %s, %s, %s, %s)", cb(data), coqChunkings(sample), eventsCoq(whole), CoqN(uint64(residueIfAlive(residue, dead))), CoqBool(dead)), rep)
				}
				run.Count("frse|"+Hex(data), true, "frames-after-stream-error", "stream-error-kind="+name)
			}
		}
	}
}

// the same through the REAL stream layer (Dispatch -> HandleFrame -> OnReceive): a malformed request between two
// well-formed ones on other streams, the last one shorter than the malformed one and followed by nothing
func c07DispatchAfterError(run *Run) {
	for _, name := range []string{"headers-invalid-field-name", "headers-pseudo-after-regular", "headers-mixed-pseudo", "headers-continuation-invalid-field", "headers-pad-exceeds-payload"} {
		if abortRun {
			return
		}
		var w, hb bytes.Buffer
		fr := xh2.NewFramer(&w, nil)
		fr.AllowIllegalWrites = true
		enc := xhpack.NewEncoder(&hb)
		w.WriteString(xh2.ClientPreface)
		fr.WriteSettings()
		fr.WriteHeaders(xh2.HeadersFrameParam{StreamID: 1, EndHeaders: true, EndStream: true, BlockFragment: []byte{0x82, 0x86, 0x84}})
		data := append([]byte(nil), w.Bytes()...)
		sE := len(data)
		data = append(data, streamErrorFrames(fr, &w, enc, &hb, 3)[name]...)
		eE := len(data)
		w.Reset()
		fr.WriteHeaders(xh2.HeadersFrameParam{StreamID: 5, EndHeaders: true, EndStream: true, BlockFragment: []byte{0x82, 0x86, 0x84}})
		data = append(data, w.Bytes()...)
		whole, wres, wclosed, perr := runDispatch([][]byte{data})
		rep := map[string]interface{}{"part": "dispatch-after-stream-error", "kind": name, "stream": Hex(data), "bad_request_at": []int{sE, eE}}
		if perr != nil {
			run.Fail("h2dispatch:panic-or-hang", "stream/http2 Dispatch: "+perr.Error(), rep)
			continue
		}
		if len(whole) != 2 || wres != 0 || wclosed {
			run.Fail("h2dispatch:requests-lost-or-altered", fmt.Sprintf("%s between two well-formed requests: whole delivery handed %d requests to the proxy (residue %d, closed %v), 2 expected", name, len(whole), wres, wclosed), rep)
			continue
		}
		var cs [][]int
		for c := 1; c < len(data); c++ {
			cs = append(cs, []int{c})
		}
		for _, c1 := range []int{sE + 9, (sE + eE) / 2, eE - 1} {
			for c2 := c1 + 1; c2 < len(data); c2++ {
				cs = append(cs, []int{c1, c2})
			}
		}
		for _, cuts := range cs {
			got, gres, gclosed, perr := runDispatch(splitAt(data, cuts))
			run.Sum.Evaluations++
			if perr != nil || fmt.Sprint(got) != fmt.Sprint(whole) || gres != wres || gclosed != wclosed {
				rep2 := map[string]interface{}{"part": "dispatch-after-stream-error", "kind": name, "stream": Hex(data), "bad_request_at": []int{sE, eE}, "cuts": cuts}
				run.Fail("h2dispatch:segmentation-dependent:after-stream-error", fmt.Sprintf("%s on stream 3 between requests on streams 1 and 5: reads cut at %v hand %d requests to the proxy (residue %d, closed %v, %v); one read: %d requests (residue %d)", name, cuts, len(got), gres, gclosed, perr, len(whole), wres), rep2)
				break
			}
		}
		run.Count("dispse|"+name, true, "dispatch-after-stream-error", "dispatch-stream-error-kind="+name)
	}
}
