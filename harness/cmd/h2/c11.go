package main

// C11 (HTTP/2 part): graceful shutdown / hot upgrade loses no request on an HTTP/2 connection.
//   server side: REAL serverStreamConnection; a reference client (x/net framer + hpack) opens several streams whose frames
//     are interleaved; the shutdown event (serverStreamConnection.GoAway = what proxy.onDownstreamEvent does on
//     api.OnShutdown) is injected between / around the frames; every complete request is answered; the GOAWAY and the
//     responses are read back from the recording connection and every stream the client sent is classified
//     {answered, refused with id > last-stream-id (the client replays it), LOST};
//   client side: REAL clientStreamConnection with open streams receives GOAWAY(NO_ERROR, last) from a reference server,
//     then some responses, then the connection goes away: streams above last must be reported retriable
//     (StreamConnectionFailed), the connection must be taken out of service (OnGoAway), streams <= last keep waiting and
//     are answered.

import (
	"bytes"
	"context"
	"fmt"

	xh2 "golang.org/x/net/http2"
	xhpack "golang.org/x/net/http2/hpack"
	"mosn.io/api"
	"mosn.io/mosn/pkg/protocol"
	"mosn.io/mosn/pkg/stream"
	_ "mosn.io/mosn/pkg/stream/http2"
	"mosn.io/mosn/pkg/types"
	"mosn.io/pkg/buffer"
	"mosn.io/pkg/variable"

	. "vh/vhlib"
)

const goawayHeader = "From MV Require Import Lib.HBits Lib.HCaseIO Model.H2GoAway Model.H2GoAwayCases.\nFrom Coq Require Import List NArith Bool.\nImport ListNotations.\nOpen Scope N_scope.\n"

// one event of a server-side history
type gaEvent struct {
	Kind string `json:"k"` // head data trail rst shutdown answer
	SID  uint32 `json:"sid,omitempty"`
	ES   bool   `json:"es,omitempty"`
}

func (e gaEvent) coq() string {
	switch e.Kind {
	case "head":
		return fmt.Sprintf("GFrame (CHead %d %s)", e.SID, CoqBool(e.ES))
	case "data":
		return fmt.Sprintf("GFrame (CData %d %s)", e.SID, CoqBool(e.ES))
	case "trail":
		return fmt.Sprintf("GFrame (CTrail %d)", e.SID)
	case "rst":
		return fmt.Sprintf("GFrame (CRst %d)", e.SID)
	case "shutdown":
		return "GShutdown"
	default:
		return "GAnswer"
	}
}

type gaOut struct {
	goaways [][2]uint32 // (last-stream-id, code)
	answers []uint32    // streams with response HEADERS, in order
	rsts    []uint32
}

func gaParse(b []byte) (gaOut, error) {
	var o gaOut
	fr := xh2.NewFramer(nil, bytes.NewReader(b))
	fr.ReadMetaHeaders = xhpack.NewDecoder(4096, nil)
	fr.SetMaxReadFrameSize(1 << 20)
	for {
		f, err := fr.ReadFrame()
		if err != nil {
			if err.Error() == "EOF" {
				return o, nil
			}
			return o, err
		}
		switch x := f.(type) {
		case *xh2.GoAwayFrame:
			o.goaways = append(o.goaways, [2]uint32{x.LastStreamID, uint32(x.ErrCode)})
		case *xh2.MetaHeadersFrame:
			o.answers = append(o.answers, x.StreamID)
		case *xh2.RSTStreamFrame:
			o.rsts = append(o.rsts, x.StreamID)
		}
	}
}

// the frames of one request on stream sid: shape 0 HEADERS+ES, 1 HEADERS DATA+ES, 2 HEADERS DATA DATA+ES,
// 3 HEADERS DATA trailers, 4 HEADERS trailers, 5 HEADERS DATA then RST_STREAM (the client gives up)
func gaPlan(sid uint32, shape int) []gaEvent {
	switch shape {
	case 0:
		return []gaEvent{{Kind: "head", SID: sid, ES: true}}
	case 1:
		return []gaEvent{{Kind: "head", SID: sid}, {Kind: "data", SID: sid, ES: true}}
	case 2:
		return []gaEvent{{Kind: "head", SID: sid}, {Kind: "data", SID: sid}, {Kind: "data", SID: sid, ES: true}}
	case 3:
		return []gaEvent{{Kind: "head", SID: sid}, {Kind: "data", SID: sid}, {Kind: "trail", SID: sid}}
	case 4:
		return []gaEvent{{Kind: "head", SID: sid}, {Kind: "trail", SID: sid}}
	default:
		return []gaEvent{{Kind: "head", SID: sid}, {Kind: "data", SID: sid}, {Kind: "rst", SID: sid}}
	}
}

func gaFrameBytes(w *c02Wire, e gaEvent) []byte {
	w.out.Reset()
	switch e.Kind {
	case "head":
		w.hb.Reset()
		method := "POST"
		if e.ES {
			method = "GET"
		}
		for _, hf := range []xhpack.HeaderField{{Name: ":method", Value: method}, {Name: ":scheme", Value: "http"}, {Name: ":authority", Value: "drain.test"},
			{Name: ":path", Value: fmt.Sprintf("/r/%d", e.SID)}, {Name: "trailer", Value: "x-t"}} {
			w.enc.WriteField(hf)
		}
		w.fr.WriteHeaders(xh2.HeadersFrameParam{StreamID: e.SID, BlockFragment: w.hb.Bytes(), EndHeaders: true, EndStream: e.ES})
	case "data":
		w.fr.WriteData(e.SID, e.ES, []byte(fmt.Sprintf("body-of-%d", e.SID)))
	case "trail":
		w.hb.Reset()
		w.enc.WriteField(xhpack.HeaderField{Name: "x-t", Value: "1"})
		w.fr.WriteHeaders(xh2.HeadersFrameParam{StreamID: e.SID, BlockFragment: w.hb.Bytes(), EndHeaders: true, EndStream: true})
	case "rst":
		w.fr.WriteRSTStream(e.SID, xh2.ErrCodeCancel)
	}
	return append([]byte(nil), w.out.Bytes()...)
}

// server side: what NewStreamDetect / OnReceive were given, in delivery order
type gaSrvListener struct {
	held  map[uint32]*gaHeld
	order []uint32
}
type gaHeld struct {
	l      *gaSrvListener
	id     uint32
	ctx    context.Context
	sender types.StreamSender
}

func (l *gaSrvListener) OnGoAway() {}
func (l *gaSrvListener) NewStreamDetect(ctx context.Context, sender types.StreamSender, span api.Span) types.StreamReceiveListener {
	h := &gaHeld{l: l, id: uint32(sender.GetStream().ID()), sender: sender}
	l.held[h.id] = h
	return h
}
func (h *gaHeld) OnReceive(ctx context.Context, headers api.HeaderMap, data buffer.IoBuffer, trailers api.HeaderMap) {
	h.ctx = ctx
	h.l.order = append(h.l.order, h.id)
}
func (h *gaHeld) OnDecodeError(ctx context.Context, err error, headers api.HeaderMap) {}

type gaListener struct{ goaway int }

func (l *gaListener) OnGoAway() { l.goaway++ }

type gaReset struct {
	reasons []types.StreamResetReason
}

func (g *gaReset) OnResetStream(reason types.StreamResetReason) {
	g.reasons = append(g.reasons, reason)
}
func (g *gaReset) OnDestroyStream() {}

func c11(args []string) int {
	run := NewRun("C11", args)
	run.Sum.Rule = "h2 server side: 1-5 requests (HEADERS+END_STREAM; HEADERS DATA; HEADERS DATA DATA; HEADERS DATA trailers; HEADERS trailers; HEADERS DATA RST_STREAM) on one REAL stream/http2 server stream connection, frames interleaved, the shutdown event (GoAway() as on api.OnShutdown) injected at every position of the frame sequence (before the first HEADERS ... after the last frame), complete requests answered at once or at the end; GOAWAY and responses read back with x/net; every stream classified answered / refused above last-stream-id / lost. h2 client side: 1-5 open streams on a REAL client stream connection, GOAWAY(NO_ERROR, last) for every last in {0, ids, 2^31-1}, responses for a random subset <= last, then the connection is reset. Non-trivial: every history; distinct by event sequence."
	r := run.R
	ss := newShardSet(run)
	factory, _ := protocol.GetProtocolStreamFactory(protocol.HTTP2)
	n := run.N(60, 1500)
	// ------------------------------------------------------------------ server side
	for s := 0; s < n; s++ {
		if abortRun {
			break
		}
		nx := 1 + r.Intn(5)
		var plans [][]gaEvent
		for i := 0; i < nx; i++ {
			plans = append(plans, gaPlan(uint32(1+2*i), r.Intn(6)))
		}
		// interleave; the first frames (HEADERS) appear in id order
		var evs []gaEvent
		idx := make([]int, nx)
		opened := 0
		for {
			var live []int
			for i := range plans {
				if idx[i] < len(plans[i]) && (idx[i] > 0 || i == opened) {
					live = append(live, i)
				}
			}
			if len(live) == 0 {
				break
			}
			i := live[r.Intn(len(live))]
			if idx[i] == 0 {
				opened++
			}
			evs = append(evs, plans[i][idx[i]])
			idx[i]++
		}
		pos := r.Intn(len(evs) + 1)
		if s < 12 { // the boundary positions are always there
			pos = []int{0, len(evs), 1, len(evs) - 1}[s%4]
			if pos < 0 {
				pos = 0
			}
		}
		atOnce := r.Bool()
		var hist []gaEvent
		for i, e := range evs {
			if i == pos {
				hist = append(hist, gaEvent{Kind: "shutdown"})
			}
			hist = append(hist, e)
			if atOnce {
				hist = append(hist, gaEvent{Kind: "answer"})
			}
		}
		if pos == len(evs) {
			hist = append(hist, gaEvent{Kind: "shutdown"})
		}
		hist = append(hist, gaEvent{Kind: "answer"})
		rep := map[string]interface{}{"part": "h2-goaway-server", "history": hist}
		down := &c02Conn{}
		dl := &gaSrvListener{held: map[uint32]*gaHeld{}}
		nAnswered := 0
		perr := guarded(func() error {
			ctxBase := variable.NewVariableContext(context.Background())
			dsc := stream.CreateServerStreamConnection(ctxBase, protocol.HTTP2, down, dl)
			buf := buffer.GetIoBuffer(1 << 14)
			feed := func(b []byte) {
				rd := bytes.NewReader(b)
				for rd.Len() > 0 {
					buf.ReadOnce(rd)
					dsc.Dispatch(buf)
				}
			}
			cw := newC02Wire()
			cw.fr.WriteSettings()
			feed(append([]byte(xh2.ClientPreface), cw.out.Bytes()...))
			down.out.Reset()
			for _, e := range hist {
				switch e.Kind {
				case "shutdown":
					dsc.GoAway()
				case "answer":
					for nAnswered < len(dl.order) {
						h := dl.held[dl.order[nAnswered]]
						nAnswered++
						if err := h.sender.AppendHeaders(h.ctx, protocol.CommonHeader{"x-answer": fmt.Sprint(h.id)}, true); err != nil {
							return fmt.Errorf("answer of stream %d: %v", h.id, err)
						}
					}
				default:
					if down.closed {
						continue // the connection is gone: nothing is read any more
					}
					feed(gaFrameBytes(cw, e))
				}
			}
			return nil
		})
		if perr != nil {
			run.Fail("h2goaway:panic-or-error", perr.Error(), rep)
			continue
		}
		out, e := gaParse(down.out.Bytes())
		if e != nil {
			run.Fail("h2goaway:panic-or-error", "server output unreadable: "+e.Error(), rep)
			continue
		}
		rep["goaways"], rep["answers"], rep["closed"] = out.goaways, out.answers, down.closed
		ok := true
		var last uint32
		switch {
		case len(out.goaways) == 0:
			ok = false
			run.Fail("h2goaway:no-goaway-on-shutdown", "the shutdown event wrote no GOAWAY frame", rep)
			last = 1<<31 - 1
		default:
			// the client acts on every GOAWAY it reads; the last one governs (ids may only decrease)
			last = out.goaways[len(out.goaways)-1][0]
			for _, g := range out.goaways {
				if g[1] != 0 {
					ok = false
					run.Fail("h2goaway:graceful-shutdown-ends-with-error-code", fmt.Sprintf("GOAWAY with error code %d during a graceful shutdown", g[1]), rep)
				}
			}
		}
		ans := map[uint32]bool{}
		for _, id := range out.answers {
			ans[id] = true
		}
		shut := false
		beforeShut := map[uint32]bool{}
		gaveUp := map[uint32]bool{}
		for _, e := range hist {
			switch e.Kind {
			case "shutdown":
				shut = true
			case "head":
				if !shut {
					beforeShut[e.SID] = true
				}
			case "rst":
				gaveUp[e.SID] = true
			}
		}
		for i := 0; i < nx; i++ {
			sid := uint32(1 + 2*i)
			switch {
			case gaveUp[sid]:
				// the client cancelled the request itself
			case ans[sid]:
				if sid > last {
					ok = false
					run.Fail("h2goaway:stream-above-last-stream-id-served", fmt.Sprintf("stream %d was answered although the GOAWAY says last-stream-id=%d: the client replays it elsewhere (executed twice)", sid, last), rep)
				}
			case sid > last:
				// refused, and the GOAWAY tells the client so: it is replayed on another connection
			case beforeShut[sid]:
				ok = false
				run.Fail("h2goaway:accepted-stream-not-served", fmt.Sprintf("stream %d was accepted before the shutdown (last-stream-id=%d covers it, the client waits for it) but never answered; connection closed by the server: %v", sid, last, down.closed), rep)
			default:
				ok = false
				run.Fail("h2goaway:request-lost:id-not-above-last-stream-id", fmt.Sprintf("stream %d reached the server after the GOAWAY and was dropped, but the GOAWAY says last-stream-id=%d (>= %d): the client does not replay it", sid, last, sid), rep)
			}
		}
		if down.closed {
			ok = false
			run.Fail("h2goaway:connection-closed-while-draining", "the server closed the connection on a frame of a stream it had refused", rep)
		}
		_ = ok
		var hs, as []string
		for _, e := range hist {
			hs = append(hs, e.coq())
		}
		for _, id := range out.answers {
			as = append(as, CoqN(uint64(id)))
		}
		lastTerm := "None"
		if len(out.goaways) > 0 {
			lastTerm = fmt.Sprintf("(Some %d)", last)
		}
		ss.add("goaway-srv", goawayHeader, "gsrv_case", "gsrv_mismatches", 400,
			fmt.Sprintf("(%s, %s, %s, %s)", CoqList(hs), lastTerm, CoqList(as), CoqBool(down.closed)), rep)
		run.Count(fmt.Sprintf("c11s|%v", hist), true, "h2-goaway-server", fmt.Sprintf("h2-goaway-shutdown-pos=%s", map[bool]string{true: "first", false: map[bool]string{true: "last", false: "middle"}[pos == len(evs)]}[pos == 0]))
		if s < 1 {
			run.Sample(map[string]interface{}{"part": "h2-goaway-server", "history": hist, "goaways": out.goaways, "answers": out.answers})
		}
	}
	// ------------------------------------------------------------------ client side
	for s := 0; s < n; s++ {
		if abortRun {
			break
		}
		nx := 1 + r.Intn(5)
		var lasts []uint32
		lasts = append(lasts, 0, 1<<31-1)
		for i := 0; i < nx; i++ {
			lasts = append(lasts, uint32(1+2*i))
		}
		last := lasts[r.Intn(len(lasts))]
		if s < len(lasts) {
			last = lasts[s]
		}
		var respond []uint32
		for i := 0; i < nx; i++ {
			if sid := uint32(1 + 2*i); sid <= last && r.Pct(60) {
				respond = append(respond, sid)
			}
		}
		rep := map[string]interface{}{"part": "h2-goaway-client", "streams": nx, "goaway_last_stream_id": last, "responses": respond}
		up := &c02Conn{}
		gl := &gaListener{}
		recvs := map[uint32]*c02Receiver{}
		resets := map[uint32]*gaReset{}
		perr := guarded(func() error {
			ctxBase := variable.NewVariableContext(context.Background())
			usc := factory.CreateClientStream(ctxBase, up, gl, nil)
			usc.(api.ConnectionEventListener).OnEvent(api.Connected)
			buf := buffer.GetIoBuffer(1 << 14)
			feed := func(b []byte) {
				rd := bytes.NewReader(b)
				for rd.Len() > 0 {
					buf.ReadOnce(rd)
					usc.Dispatch(buf)
				}
			}
			sw := newC02Wire()
			sw.fr.WriteSettings()
			feed(append([]byte(nil), sw.out.Bytes()...))
			for i := 0; i < nx; i++ {
				sid := uint32(1 + 2*i)
				ctx := variable.NewVariableContext(buffer.NewBufferPoolContext(context.Background()))
				variable.SetString(ctx, types.VarMethod, "GET")
				variable.SetString(ctx, types.VarHost, "up.test")
				variable.SetString(ctx, types.VarPath, "/")
				rc := &c02Receiver{name: fmt.Sprint(sid)}
				recvs[sid] = rc
				sender := usc.NewStream(ctx, rc)
				gr := &gaReset{}
				resets[sid] = gr
				sender.GetStream().AddEventListener(gr)
				if err := sender.AppendHeaders(ctx, protocol.CommonHeader{"x-request": fmt.Sprint(sid)}, true); err != nil {
					return err
				}
				if got := uint32(sender.GetStream().ID()); got != sid {
					return fmt.Errorf("stream %d opened as %d", sid, got)
				}
			}
			sw.out.Reset()
			sw.fr.WriteGoAway(last, xh2.ErrCodeNo, nil)
			feed(append([]byte(nil), sw.out.Bytes()...))
			for _, sid := range respond {
				sw.out.Reset()
				sw.hb.Reset()
				sw.enc.WriteField(xhpack.HeaderField{Name: ":status", Value: "200"})
				sw.fr.WriteHeaders(xh2.HeadersFrameParam{StreamID: sid, BlockFragment: sw.hb.Bytes(), EndHeaders: true, EndStream: true})
				feed(append([]byte(nil), sw.out.Bytes()...))
			}
			// the drained connection goes away: what stream.client.OnEvent does on a close event of a connected connection
			usc.Reset(types.StreamConnectionTermination)
			return nil
		})
		if perr != nil {
			run.Fail("h2goaway:panic-or-error", perr.Error(), rep)
			continue
		}
		if gl.goaway == 0 {
			run.Fail("h2goaway:client-keeps-using-connection-after-goaway", fmt.Sprintf("GOAWAY(NO_ERROR, last-stream-id=%d) did not reach the connection's OnGoAway listener: the pool goes on opening streams on it", last), rep)
		}
		isResp := map[uint32]bool{}
		for _, sid := range respond {
			isResp[sid] = true
		}
		var obs []string
		for i := 0; i < nx; i++ {
			sid := uint32(1 + 2*i)
			got := len(recvs[sid].got) > 0
			rs := resets[sid].reasons
			retriable := len(rs) > 0 && rs[0] == types.StreamConnectionFailed
			cls := 0 // 0 waiting/terminated, 1 answered, 2 retriable
			switch {
			case got:
				cls = 1
			case retriable:
				cls = 2
			}
			obs = append(obs, fmt.Sprintf("(%d, %d)", sid, cls))
			switch {
			case isResp[sid] && !got:
				run.Fail("h2goaway:response-after-goaway-not-delivered", fmt.Sprintf("stream %d <= last-stream-id=%d was answered after the GOAWAY but its receiver got nothing (resets %v)", sid, last, rs), rep)
			case sid > last && !retriable:
				run.Fail("h2goaway:client-does-not-replay-refused-stream", fmt.Sprintf("stream %d is above the last-stream-id=%d of the GOAWAY (the server will not process it) but it is reported as %v, not as a retriable connection failure", sid, last, rs), rep)
			case sid <= last && retriable:
				run.Fail("h2goaway:client-replays-stream-the-server-may-have-processed", fmt.Sprintf("stream %d <= last-stream-id=%d is reported retriable", sid, last), rep)
			}
		}
		var rs []string
		for _, sid := range respond {
			rs = append(rs, CoqN(uint64(sid)))
		}
		ss.add("goaway-cli", goawayHeader, "gcli_case", "gcli_mismatches", 400,
			fmt.Sprintf("(%d, %d, %s, %s, %s)", nx, last, CoqList(rs), CoqList(obs), CoqBool(gl.goaway > 0)), rep)
		run.Count(fmt.Sprintf("c11c|%d|%d|%v", nx, last, respond), true, "h2-goaway-client", fmt.Sprintf("h2-goaway-client-last=%s", map[bool]string{true: "zero", false: map[bool]string{true: "max", false: "id"}[last == 1<<31-1]}[last == 0]))
	}
	ss.close()
	return run.Finish()
}
