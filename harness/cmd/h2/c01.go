package main

// C01 (HTTP/2 part): forwarding fidelity through the REAL stream layer in both directions.
//   requests : reference client (x/net framer + hpack) -> real serverStreamConnection (downstream side, ONE reused read
//              buffer, several multiplexed streams) -> the delivered (ctx, headers, body, trailers) are RETAINED BY
//              REFERENCE while all later reads happen -> forwarded through a real clientStreamConnection
//              (NewStream / AppendHeaders / AppendData / AppendTrailers, as the proxy's upstream request does) to a
//              recording connection -> parsed back with x/net framer + hpack -> compared with what the client sent.
//   responses: reference server -> the same real clientStreamConnection (reused read buffer, multiplexed) -> retained ->
//              forwarded through the downstream server streams' senders -> parsed back -> compared.

import (
	"bytes"
	"context"
	"fmt"
	"sort"
	"strings"

	xh2 "golang.org/x/net/http2"
	xhpack "golang.org/x/net/http2/hpack"
	"mosn.io/api"
	"mosn.io/mosn/pkg/protocol"
	"mosn.io/mosn/pkg/stream"
	_ "mosn.io/mosn/pkg/stream/http2"
	"mosn.io/mosn/pkg/types"
	"mosn.io/pkg/buffer"
	"mosn.io/pkg/variable"

	. "vh/vhlib"
)

const fwdHeader = "From MV Require Import Lib.HBits Lib.HCaseIO Model.H2Demux Model.H2Fwd Model.H2FwdCases.\nFrom Coq Require Import List NArith Bool.\nImport ListNotations.\nOpen Scope N_scope.\n" + ubDefs

type h2msg struct {
	Pseudo   map[string]string `json:"pseudo"` // :method :path :authority / :status
	Fields   [][2]string       `json:"fields"` // regular header fields in wire order
	Body     []byte            `json:"body"`
	Frames   []int             `json:"frames"` // DATA payload sizes; -1 = HEADERS carries END_STREAM
	Trailers [][2]string       `json:"trailers,omitempty"`
}

func genMsg(r *Rng, response bool, idx int) h2msg {
	m := h2msg{Pseudo: map[string]string{}}
	if response {
		m.Pseudo[":status"] = []string{"200", "201", "404", "500"}[r.Intn(4)]
	} else {
		m.Pseudo[":method"] = []string{"POST", "PUT", "GET"}[r.Intn(3)]
		m.Pseudo[":scheme"] = "http"
		m.Pseudo[":authority"] = fmt.Sprintf("svc%d.example:80%d", idx, r.Intn(10))
		m.Pseudo[":path"] = []string{"/", "/a/b", "/p%20q/r", "/x?k=v&k2=%26z", "/deep/er/path?q=1;2", "/a%2Fb"}[r.Intn(6)]
	}
	m.Fields = append(m.Fields, [2]string{"x-exchange", fmt.Sprintf("ex%d-%x", idx, r.Bytes(3))})
	for i := 0; i < r.Intn(5); i++ {
		name := []string{"x-a", "x-a", "accept", "x-b3-traceid", "x-multi", "x-multi", "via"}[r.Intn(7)]
		val := []string{"v1", "two words", "a,b;c=d", "", "Mixed-Case-Value", strings.Repeat("z", 40)}[r.Intn(6)]
		m.Fields = append(m.Fields, [2]string{name, val})
	}
	if !response && r.Pct(30) {
		m.Fields = append(m.Fields, [2]string{"user-agent", "curl/8.1 (verif)"})
	}
	if !response && r.Pct(15) {
		m.Fields = append(m.Fields, [2]string{"te", "trailers"})
	}
	if response && r.Pct(50) {
		m.Fields = append(m.Fields, [2]string{"content-type", []string{"text/plain", "application/grpc+proto"}[r.Intn(2)]})
	}
	if response && r.Pct(30) {
		m.Fields = append(m.Fields, [2]string{"date", "Mon, 02 Jan 2006 15:04:05 GMT"})
	}
	if response && r.Pct(30) {
		m.Fields = append(m.Fields, [2]string{"set-cookie", fmt.Sprintf("s%d=1; Path=/", idx)}, [2]string{"set-cookie", "t=2; HttpOnly"})
	}
	if !response && r.Pct(40) {
		for i := 0; i < 1+r.Intn(3); i++ {
			m.Fields = append(m.Fields, [2]string{"cookie", fmt.Sprintf("c%d=%x", i, r.Bytes(2))})
		}
	}
	body := bytes.Repeat([]byte{byte('A' + idx%26)}, []int{0, 1, 50, 700, 16384, 16385, 40000}[r.Intn(7)])
	if m.Pseudo[":method"] == "GET" {
		body = nil
	}
	m.Body = body
	withTrailer := len(body) > 0 && r.Pct(25)
	switch {
	case len(body) == 0 && !withTrailer:
		if r.Bool() {
			m.Frames = []int{-1}
		} else {
			m.Frames = []int{0}
		}
	default:
		rest := len(body)
		switch r.Intn(4) {
		case 0:
			if rest <= 16384 {
				m.Frames = []int{rest}
				break
			}
			fallthrough
		case 1:
			for rest > 0 {
				n := 1 + r.Intn(min(rest, 16384))
				m.Frames = append(m.Frames, n)
				rest -= n
			}
		case 2:
			for rest > 0 {
				n := min(rest, 16384)
				m.Frames = append(m.Frames, n)
				rest -= n
			}
			m.Frames = append(m.Frames, 0) // empty final DATA
		default:
			for rest > 0 {
				n := min(rest, 16384)
				m.Frames = append(m.Frames, n)
				rest -= n
			}
		}
	}
	if withTrailer {
		m.Trailers = [][2]string{{"x-trailer", fmt.Sprintf("t%d", idx)}, {"x-checksum", "abc"}}
	}
	return m
}

// a frame to be written; HEADERS are HPACK-encoded only when the frame is actually put on the wire, so that the
// encoder's dynamic table evolves in the order the peer decodes
type fspec struct {
	sid    uint32
	fields []xhpack.HeaderField // HEADERS if non-nil
	data   []byte
	es     bool
}

func (f fspec) bytes(w *c02Wire) []byte {
	w.out.Reset()
	if f.fields != nil {
		w.hb.Reset()
		for _, hf := range f.fields {
			w.enc.WriteField(hf)
		}
		w.fr.WriteHeaders(xh2.HeadersFrameParam{StreamID: f.sid, BlockFragment: w.hb.Bytes(), EndHeaders: true, EndStream: f.es})
	} else {
		w.fr.WriteData(f.sid, f.es, f.data)
	}
	return append([]byte(nil), w.out.Bytes()...)
}

// the frames of a message on stream sid
func (m h2msg) specs(sid uint32, response bool) []fspec {
	var out []fspec
	var hf []xhpack.HeaderField
	order := []string{":method", ":scheme", ":authority", ":path"}
	if response {
		order = []string{":status"}
	}
	for _, k := range order {
		hf = append(hf, xhpack.HeaderField{Name: k, Value: m.Pseudo[k]})
	}
	for _, f := range m.Fields {
		hf = append(hf, xhpack.HeaderField{Name: f[0], Value: f[1]})
	}
	if len(m.Trailers) > 0 {
		names := make([]string, len(m.Trailers))
		for i, t := range m.Trailers {
			names[i] = t[0]
		}
		hf = append(hf, xhpack.HeaderField{Name: "trailer", Value: strings.Join(names, ", ")})
	}
	headOnly := len(m.Frames) == 1 && m.Frames[0] == -1
	out = append(out, fspec{sid: sid, fields: hf, es: headOnly})
	if !headOnly {
		off := 0
		for i, n := range m.Frames {
			out = append(out, fspec{sid: sid, data: m.Body[off : off+n], es: i == len(m.Frames)-1 && len(m.Trailers) == 0})
			off += n
		}
		if len(m.Trailers) > 0 {
			var tf []xhpack.HeaderField
			for _, t := range m.Trailers {
				tf = append(tf, xhpack.HeaderField{Name: t[0], Value: t[1]})
			}
			out = append(out, fspec{sid: sid, fields: tf, es: true})
		}
	}
	return out
}

// what came out of MOSN on a recording connection, per stream
type gotMsg struct {
	pseudo   map[string]string
	fields   [][2]string
	body     []byte
	trailers [][2]string
	all      [][2]string // the first HEADERS as decoded, pseudo-header fields included, in wire order
	shapes   [][3]int    // (kind 0 HEADERS / 1 DATA / 2 trailers, payload length, END_STREAM)
}

func b2i(b bool) int {
	if b {
		return 1
	}
	return 0
}

func coqPairs(fs [][2]string) string {
	var out []string
	for _, f := range fs {
		out = append(out, fmt.Sprintf("(%s, %s)", cb([]byte(f[0])), cb([]byte(f[1]))))
	}
	return CoqList(out)
}

// the wire-order field list of a message as its sender wrote it
func (m h2msg) wireFields(response bool) [][2]string {
	var out [][2]string
	for _, f := range m.specs(1, response)[0].fields {
		out = append(out, [2]string{f.Name, f.Value})
	}
	return out
}

// the correspondence cases of one forwarded message: the header layer and the stream layer of Model/H2Fwd.v
func fwdCases(ss *shardSet, response bool, want h2msg, bodyNil bool, got *gotMsg, where string) {
	if got == nil {
		return
	}
	rep := map[string]interface{}{"part": "h2-forward", "message": where, "pseudo": want.Pseudo, "fields": want.Fields, "body_len": len(want.Body), "frames": want.Frames, "trailers": want.Trailers, "forwarded_fields": got.all, "forwarded_frames": got.shapes}
	headOnly := len(want.Frames) == 1 && want.Frames[0] == -1
	ss.add("fwd-hdr", fwdHeader, "hdr_case", "hdr_mismatches", 200,
		fmt.Sprintf("(%s, %s, %s, %s)", CoqBool(response), CoqBool(headOnly), coqPairs(want.wireFields(response)), coqPairs(got.all)), rep)
	var sh []string
	for _, x := range got.shapes {
		sh = append(sh, fmt.Sprintf("(%d, %d, %s)", x[0], x[1], CoqBool(x[2] == 1)))
	}
	ss.add("fwd-shape", fwdHeader, "shape_case", "shape_mismatches", 200,
		fmt.Sprintf("(%d, %s, %s, %s)", len(want.Body), CoqBool(bodyNil), CoqBool(len(want.Trailers) > 0), CoqList(sh)), rep)
}

func parseForwarded(b []byte) (map[uint32]*gotMsg, error) {
	if i := bytes.Index(b, []byte(xh2.ClientPreface)); i >= 0 {
		b = b[i+len(xh2.ClientPreface):]
	}
	fr := xh2.NewFramer(nil, bytes.NewReader(b))
	fr.ReadMetaHeaders = xhpack.NewDecoder(4096, nil)
	fr.MaxHeaderListSize = 1 << 20
	fr.SetMaxReadFrameSize(1 << 20)
	out := map[uint32]*gotMsg{}
	for {
		f, err := fr.ReadFrame()
		if err != nil {
			if err.Error() == "EOF" {
				return out, nil
			}
			return out, err
		}
		switch x := f.(type) {
		case *xh2.MetaHeadersFrame:
			g := out[x.StreamID]
			if g == nil {
				g = &gotMsg{pseudo: map[string]string{}}
				out[x.StreamID] = g
				g.shapes = append(g.shapes, [3]int{0, 0, b2i(x.StreamEnded())})
				for _, hf := range x.Fields {
					g.all = append(g.all, [2]string{hf.Name, hf.Value})
					if strings.HasPrefix(hf.Name, ":") {
						g.pseudo[hf.Name] = hf.Value
					} else {
						g.fields = append(g.fields, [2]string{hf.Name, hf.Value})
					}
				}
			} else {
				g.shapes = append(g.shapes, [3]int{2, 0, b2i(x.StreamEnded())})
				for _, hf := range x.Fields {
					g.trailers = append(g.trailers, [2]string{hf.Name, hf.Value})
				}
			}
		case *xh2.DataFrame:
			if g := out[x.StreamID]; g != nil {
				g.body = append(g.body, x.Data()...)
				g.shapes = append(g.shapes, [3]int{1, len(x.Data()), b2i(x.StreamEnded())})
			}
		}
	}
}

func valuesOf(fs [][2]string, name string) []string {
	var out []string
	for _, f := range fs {
		if f[0] == name {
			if name == "cookie" { // cookie crumbs may be joined with "; " or sent as separate fields (RFC 7540 8.1.2.5)
				out = append(out, strings.Split(f[1], "; ")...)
			} else {
				out = append(out, f[1])
			}
		}
	}
	return out
}

// compareMsg: every field that was sent must come out with the same values in the same order; fields MOSN's stack
// adds on its own account (user-agent, content-length, date, content-type sniffing, accept-encoding) are tolerated
func compareMsg(run *Run, dir string, want h2msg, got *gotMsg, rep map[string]interface{}) bool {
	ok := true
	if got == nil {
		run.Fail("h2fwd:message-lost", dir+": nothing was forwarded for this exchange", rep)
		return false
	}
	for k, v := range want.Pseudo {
		if got.pseudo[k] != v {
			ok = false
			run.Fail("h2fwd:header-field-altered:"+k, fmt.Sprintf("%s: %s sent %q, forwarded %q", dir, k, v, got.pseudo[k]), rep)
		}
	}
	names := map[string]bool{}
	for _, f := range want.Fields {
		names[f[0]] = true
	}
	var ns []string
	for n := range names {
		ns = append(ns, n)
	}
	sort.Strings(ns)
	for _, n := range ns {
		w, g := valuesOf(want.Fields, n), valuesOf(got.fields, n)
		if strings.Join(w, "\x00") != strings.Join(g, "\x00") {
			ok = false
			run.Fail("h2fwd:header-field-altered:"+n, fmt.Sprintf("%s: field %s sent %q, forwarded %q", dir, n, w, g), rep)
		}
	}
	tolerated := map[string]bool{"user-agent": true, "content-length": true, "date": true, "content-type": true, "accept-encoding": true, "trailer": true}
	for _, f := range got.fields {
		if !names[f[0]] && !tolerated[f[0]] {
			ok = false
			run.Fail("h2fwd:header-field-added:"+f[0], fmt.Sprintf("%s: field %s=%q was not sent", dir, f[0], f[1]), rep)
		}
	}
	if !bytes.Equal(want.Body, got.body) {
		ok = false
		foreign := 0
		for i, c := range got.body {
			if i >= len(want.Body) || c != want.Body[i] {
				foreign++
			}
		}
		run.Fail("h2fwd:body-altered", fmt.Sprintf("%s: body of %d bytes forwarded as %d bytes, %d of them differ", dir, len(want.Body), len(got.body), foreign), rep)
	}
	// the order of fields with different names is not significant (RFC 7230 3.2.2): compare per name
	canon := func(fs [][2]string) string {
		c := append([][2]string(nil), fs...)
		sort.SliceStable(c, func(i, j int) bool { return c[i][0] < c[j][0] })
		return fmt.Sprint(c)
	}
	wt, gt := canon(want.Trailers), canon(got.trailers)
	if wt != gt {
		ok = false
		run.Fail("h2fwd:trailers-altered", fmt.Sprintf("%s: trailers sent %s, forwarded %s", dir, wt, gt), rep)
	}
	return ok
}

type fwdHeld struct {
	ctx      context.Context
	headers  api.HeaderMap
	data     buffer.IoBuffer
	trailers api.HeaderMap
	sender   types.StreamSender // downstream sender (server side) for the response
	seen     bool
}

type fwdListener struct {
	held map[uint32]*fwdHeld
}

func (l *fwdListener) OnGoAway() {}
func (l *fwdListener) NewStreamDetect(ctx context.Context, sender types.StreamSender, span api.Span) types.StreamReceiveListener {
	h := &fwdHeld{sender: sender}
	l.held[uint32(sender.GetStream().ID())] = h
	return h
}
func (h *fwdHeld) OnReceive(ctx context.Context, headers api.HeaderMap, data buffer.IoBuffer, trailers api.HeaderMap) {
	h.ctx, h.headers, h.data, h.trailers, h.seen = ctx, headers, data, trailers, true
}
func (h *fwdHeld) OnDecodeError(ctx context.Context, err error, headers api.HeaderMap) {}

// interleave the frame lists of several messages (order kept within a message), encode in that order, group into reads
func fwdReads(r *Rng, w *c02Wire, per [][]fspec) [][]byte {
	idx := make([]int, len(per))
	var frames [][]byte
	for {
		var live []int
		for i := range per {
			if idx[i] < len(per[i]) {
				live = append(live, i)
			}
		}
		if len(live) == 0 {
			break
		}
		i := live[r.Intn(len(live))]
		frames = append(frames, per[i][idx[i]].bytes(w))
		idx[i]++
	}
	var reads [][]byte
	for i := 0; i < len(frames); {
		k := 1 + r.Intn(len(frames)-i)
		if k > 3 && r.Pct(60) {
			k = 1 + r.Intn(3)
		}
		var b []byte
		for _, f := range frames[i : i+k] {
			b = append(b, f...)
		}
		reads = append(reads, b)
		i += k
	}
	return reads
}

func c01(args []string) int {
	run := NewRun("C01", args)
	run.Sum.Rule = "h2: 2-4 exchanges multiplexed on one downstream and one upstream REAL stream/http2 stream connection; requests (method, path with query and percent-escapes, authority, 1-6 regular fields with duplicates and empty values, 0-3 cookie fields, bodies 0/1/50/700/16384/16385/40000 bytes framed as one DATA+END_STREAM, random pieces, max-size frames, max-size frames + empty final DATA, HEADERS+END_STREAM, 25% trailers) are decoded by the server stream connection through ONE reused read buffer with the streams' frames interleaved, RETAINED by reference over all later reads, then forwarded through the client stream connection and parsed back with x/net; responses take the reverse path. Non-trivial: every history; distinct by content."
	r := run.R
	ss := newShardSet(run)
	n := run.N(40, 500)
	for s := 0; s < n; s++ {
		if abortRun {
			break
		}
		nx := 2 + r.Intn(3)
		ctxBase := variable.NewVariableContext(context.Background())
		factory, _ := protocol.GetProtocolStreamFactory(protocol.HTTP2)
		down, up := &c02Conn{}, &c02Conn{}
		dl := &fwdListener{held: map[uint32]*fwdHeld{}}
		var reqs, rsps []h2msg
		rep := map[string]interface{}{"part": "h2-forward"}
		upHeld := map[int]*fwdHeld{}
		var gotReq, gotRsp map[uint32]*gotMsg
		reqNil, rspNil := map[int]bool{}, map[int]bool{}
		perr := guarded(func() error {
			dsc := stream.CreateServerStreamConnection(ctxBase, protocol.HTTP2, down, dl)
			usc := factory.CreateClientStream(ctxBase, up, c02Events{}, nil)
			usc.(api.ConnectionEventListener).OnEvent(api.Connected)
			readInto := func(buf buffer.IoBuffer, disp func(buffer.IoBuffer), b []byte) {
				rd := bytes.NewReader(b)
				for rd.Len() > 0 {
					buf.ReadOnce(rd)
					disp(buf)
				}
			}
			downBuf, upBuf := buffer.GetIoBuffer(1<<14), buffer.GetIoBuffer(1<<14)
			cw := newC02Wire()
			// the peers grant large windows so that flow control never parks a forwarder (that is C18's subject)
			cw.fr.WriteSettings(xh2.Setting{ID: xh2.SettingInitialWindowSize, Val: 1 << 20})
			cw.fr.WriteWindowUpdate(0, 1<<24)
			readInto(downBuf, dsc.Dispatch, append([]byte(xh2.ClientPreface), cw.out.Bytes()...))
			// ---- requests: client -> downstream server stream connection
			var per [][]fspec
			for i := 0; i < nx; i++ {
				m := genMsg(r, false, i)
				reqs = append(reqs, m)
			}
			// the HEADERS of the streams must appear in id order: build the per-stream frame lists and make the
			// interleaving keep the first frames ordered by generating ids in the order of first appearance
			for i, m := range reqs {
				per = append(per, m.specs(uint32(1+2*i), false))
			}
			var first []byte
			for i := range per { // a client opens its streams in id order
				first = append(first, per[i][0].bytes(cw)...)
				per[i] = per[i][1:]
			}
			rep["requests"] = reqs
			readInto(downBuf, dsc.Dispatch, first)
			for _, rd := range fwdReads(r, cw, per) {
				readInto(downBuf, dsc.Dispatch, rd)
			}
			// one more read that refills the buffer after everything was delivered
			cw.out.Reset()
			cw.fr.WritePing(false, [8]byte{1, 2, 3, 4, 5, 6, 7, 8})
			readInto(downBuf, dsc.Dispatch, bytes.Repeat(cw.out.Bytes(), 200))
			// ---- forward the retained requests upstream
			sw := newC02Wire()
			sw.fr.WriteSettings(xh2.Setting{ID: xh2.SettingInitialWindowSize, Val: 1 << 20})
			sw.fr.WriteWindowUpdate(0, 1<<24)
			readInto(upBuf, usc.Dispatch, append([]byte(nil), sw.out.Bytes()...))
			up.out.Reset()
			for i := 0; i < nx; i++ {
				h := dl.held[uint32(1+2*i)]
				if h == nil || !h.seen {
					continue
				}
				uh := &fwdHeld{}
				upHeld[i] = uh
				sender := usc.NewStream(h.ctx, uh)
				endH := h.data == nil && h.trailers == nil
				reqNil[i] = h.data == nil
				if err := sender.AppendHeaders(h.ctx, h.headers, endH); err != nil {
					return err
				}
				if h.data != nil {
					sender.AppendData(h.ctx, h.data, h.trailers == nil)
				}
				if h.trailers != nil {
					sender.AppendTrailers(h.ctx, h.trailers)
				}
			}
			var e error
			if gotReq, e = parseForwarded(up.out.Bytes()); e != nil {
				return fmt.Errorf("forwarded requests unreadable: %v", e)
			}
			// ---- responses: upstream server -> client stream connection -> retained -> downstream senders
			var rper [][]fspec
			for i := 0; i < nx; i++ {
				m := genMsg(r, true, i)
				rsps = append(rsps, m)
				rper = append(rper, m.specs(uint32(1+2*i), true))
			}
			rep["responses"] = rsps
			for _, rd := range fwdReads(r, sw, rper) {
				readInto(upBuf, usc.Dispatch, rd)
			}
			sw.out.Reset()
			sw.fr.WritePing(false, [8]byte{8, 7, 6, 5, 4, 3, 2, 1})
			readInto(upBuf, usc.Dispatch, bytes.Repeat(sw.out.Bytes(), 200))
			down.out.Reset()
			for i := 0; i < nx; i++ {
				uh, h := upHeld[i], dl.held[uint32(1+2*i)]
				if uh == nil || !uh.seen || h == nil {
					continue
				}
				endH := uh.data == nil && uh.trailers == nil
				rspNil[i] = uh.data == nil
				if err := h.sender.AppendHeaders(uh.ctx, uh.headers, endH); err != nil {
					return err
				}
				if uh.data != nil {
					h.sender.AppendData(uh.ctx, uh.data, uh.trailers == nil)
				}
				if uh.trailers != nil {
					h.sender.AppendTrailers(uh.ctx, uh.trailers)
				}
			}
			if gotRsp, e = parseForwarded(down.out.Bytes()); e != nil {
				return fmt.Errorf("forwarded responses unreadable: %v", e)
			}
			return nil
		})
		if perr != nil {
			run.Fail("h2fwd:panic-or-error", perr.Error(), rep)
			continue
		}
		for i := 0; i < nx; i++ {
			sid := uint32(1 + 2*i)
			compareMsg(run, fmt.Sprintf("request %d (downstream stream %d -> upstream)", i, sid), reqs[i], gotReq[sid], rep)
			compareMsg(run, fmt.Sprintf("response %d (upstream stream %d -> downstream)", i, sid), rsps[i], gotRsp[sid], rep)
			fwdCases(ss, false, reqs[i], reqNil[i], gotReq[sid], fmt.Sprintf("history %d request %d", s, i))
			fwdCases(ss, true, rsps[i], rspNil[i], gotRsp[sid], fmt.Sprintf("history %d response %d", s, i))
			run.Count(fmt.Sprintf("c01|%v|%v", reqs[i], rsps[i]), true, "h2-forward-exchange", fmt.Sprintf("h2-forward-req-frames=%d", min(len(reqs[i].Frames), 4)), fmt.Sprintf("h2-forward-trailers=%v", len(reqs[i].Trailers) > 0))
		}
		if s < 1 {
			run.Sample(map[string]interface{}{"part": "h2-forward", "exchanges": nx, "first_request": reqs[0].Pseudo, "first_request_fields": reqs[0].Fields, "first_body": len(reqs[0].Body), "first_frames": reqs[0].Frames})
		}
	}
	ss.close()
	return run.Finish()
}
