package main

// Translators of the group `h2` (HTTP/2 framing, HPACK, flow control).

import (
	"fmt"
	"go/ast"
	"go/token"
	"strings"

	"mosn.io/mosn/pkg/module/http2/hpack"

	. "vh/vhlib"
)

var gens = map[string]GenFn{"HpackTables": genHpackTables, "H2Src": genH2Src}

func coqByteList(s string) string {
	if len(s) == 0 {
		return "[]"
	}
	parts := make([]string, len(s))
	for i := 0; i < len(s); i++ {
		parts[i] = fmt.Sprintf("%d", s[i])
	}
	return "[" + strings.Join(parts, ";") + "]"
}

// genHpackTables dumps the tables of the hpack fork AS LINKED INTO THIS BINARY (the harness is rebuilt
// against /repo on every run): static table, huffmanCodes, huffmanCodeLen.
func genHpackTables(repo string) (string, error) {
	var b strings.Builder
	b.WriteString("From Coq Require Import List NArith.\nImport ListNotations.\nOpen Scope N_scope.\n")
	st := hpack.VerifStaticTable()
	b.WriteString("(* static table: entry i (0-based) has HPACK index i+1; (name, value) as byte lists *)\n")
	b.WriteString("Definition hpack_static_table : list (list N * list N) := [\n")
	for i, e := range st {
		sep := ";"
		if i == len(st)-1 {
			sep = ""
		}
		fmt.Fprintf(&b, " (%s, %s)%s (* %d %s *)\n", coqByteList(e.Name), coqByteList(e.Value), sep, i+1, strings.ReplaceAll(e.Name+": "+e.Value, "*", "+"))
	}
	b.WriteString("].\n")
	codes, lens := hpack.VerifHuffmanCodes()
	b.WriteString("(* huffmanCodes[i], huffmanCodeLen[i] for symbol i *)\nDefinition huffman_table : list (N * N) := [\n")
	for i := 0; i < 256; i++ {
		sep := ";"
		if i == 255 {
			sep = ""
		}
		fmt.Fprintf(&b, " (%d, %d)%s\n", codes[i], lens[i], sep)
	}
	b.WriteString("].\n")
	ok := len(st) > 0
	for _, e := range st {
		if e.Sensitive {
			ok = false
		}
	}
	fmt.Fprintf(&b, "Definition HpackTables_translator_ok := %v.\n", ok)
	return b.String(), nil
}

// ---------------------------------------------------------------------------------------------
// genH2Src: tokens / control shapes read from the source with go/ast.
//
//	h2_headers_empty_frag_ok    frame.go parseHeadersFrame: `len(p)-int(padLength) OP 0`  (`<` accepts an empty fragment, `<=` rejects it)
//	h2_data_pad_gt / h2_push_pad_gt  frame.go parseDataFrame / parsePushPromise: the pad-length test is `int(pad) > len(rest)` (true) or `>=` (false)
//	h2_cont_advance             mhttp2.go readMetaFrame: the recursive ReadFrame call reads at `off+msize` (true) or at `off` (false)
//	h2_client_settings_wakes    mhttp2.go MClientConn.processSettings: contains a call cc.cond.Broadcast()
//	h2_client_open_atomic       mhttp2.go MClientConn.WriteHeaders: newStream, the HEADERS write and cc.streams[id] = cs happen in ONE cc.mu
//	                            critical section (Lock + defer Unlock: true) or cc.mu is unlocked in between (false)
//	h2_client_settings_validated mhttp2.go MClientConn.processSettings: calls s.Valid() on every setting
//	h2_winupd_wakes_always      mhttp2.go MServerConn/MClientConn.processWindowUpdate: cond.Broadcast() is a top-level statement of both bodies (true) or nested in an `if` in both (false)
//	h2_write_chunk              mhttp2.go MFramer.writeData: const maxFrameSize
//	h2_stream_err_drains        mhttp2.go MFramer.ReadFrame: a StreamError path drains the offending frame (data.Drain inside `if _, ok := err.(StreamError)`)
//	h2_dispatch_continues       stream/http2/stream.go Dispatch (server and client): a StreamError does not leave the decode loop
//	h2_stream_data_copied       stream/http2/stream.go client and server handleFrame: a DATA payload (a slice of the connection's read buffer)
//	                            is copied into a buffer of the stream (recData.Write(data)) and never wrapped (no NewIoBufferBytes(data))
//	h2_hpack_at_u64cmp          hpack.go Decoder.at: the dynamic-table range test compares the uint64 index (`i > uint64(d.maxTableIndex())`, true)
//	                            or the converted int (`pos := int(i) - staticTable.len(); if pos > dt.len()`, false)
//	h2_hdr_split_last_le        mhttp2.go MServerConn.writeHeaders / MClientConn.writeHeaders: the fragment that completes the header block
//	                            (END_HEADERS) is the one for which the remaining block is <= maxFrameSize (true: today's loops
//	                            `if len(frag) > maxFrameSize {cut}` + `len(rest) == 0`, or a helper testing `<=`) or < maxFrameSize (false)
//	h2_hpack_multi_update       hpack.go Decoder.Write: `d.firstField = false` in the parse loop is guarded by `if !sizeUpdate` (true) or unconditional (false)
//	h2_hpack_indexed_strings_read hpack.go Decoder.parseFieldLiteral: the strings of a literal that will be inserted into the dynamic table are
//	                            decoded also while emitting is switched off (readString's wantStr argument is `d.emitEnabled || it.indexed()`: true);
//	                            a readString that decides from d.emitEnabled alone inserts EMPTY strings after a rejected field (false)
//	h2_framer_no_cross_frame_state mhttp2.go: type MFramer has no field of its own (only the embedded Framer and api.Connection) and
//	                            MFramer.ReadFrame / readMetaFrame assign only the per-frame fields of the embedded Framer (errDetail,
//	                            lastFrame, lastHeaderStream): between two frames the reader carries nothing but the buffer (true)
//	h2_goaway_last_is_max       mhttp2.go MServerConn.goAway: the last-stream-id written is sc.maxClientStreamID itself (true); anything else
//	                            (a variable, a constant such as 1<<31-1 for NO_ERROR) is false
//	h2_goaway_old_continue      mhttp2.go MServerConn.processHeaders: the inGoAway test that ignores HEADERS spares the streams at or below
//	                            sc.maxClientStreamID of a graceful GOAWAY (condition mentions maxClientStreamID: true) or ignores every HEADERS (false)
//	h2_goaway_late_discarded    mhttp2.go MServerConn.HandleFrame: before the frame switch an `if` on sc.inGoAway and sc.maxClientStreamID returns
//	                            (frames of refused streams are discarded: true); absent: they reach the idle-stream rules (false)
//	h2_client_goaway_zero       stream/http2/stream.go clientStream.ResetStream: the retriable test is `s.sc.goAway && s.id > s.sc.lastStream` (true) or
//	                            needs `lastStream > 0` (false)
func genH2Src(repo string) (string, error) {
	var b strings.Builder
	b.WriteString("From Coq Require Import NArith ZArith.\n")
	ok := true
	// --- parseHeadersFrame
	_, ff, err := ParseGoFile(repo, "pkg/module/http2/frame.go")
	if err != nil {
		return "", err
	}
	fd := FindFunc(ff, "", "parseHeadersFrame")
	op := ""
	if fd != nil {
		ast.Inspect(fd.Body, func(n ast.Node) bool {
			is, isIf := n.(*ast.IfStmt)
			if !isIf {
				return true
			}
			be, isBin := is.Cond.(*ast.BinaryExpr)
			if !isBin {
				return true
			}
			lit, isLit := be.Y.(*ast.BasicLit)
			sub, isSub := be.X.(*ast.BinaryExpr)
			if !isLit || lit.Value != "0" || !isSub || sub.Op != token.SUB {
				return true
			}
			if c, isCall := sub.X.(*ast.CallExpr); isCall {
				if id, isId := c.Fun.(*ast.Ident); isId && id.Name == "len" {
					op = be.Op.String()
				}
			}
			return true
		})
	}
	switch op {
	case "<":
		b.WriteString("Definition h2_headers_empty_frag_ok := true.\n")
	case "<=":
		b.WriteString("Definition h2_headers_empty_frag_ok := false.\n")
	default:
		ok = false
		b.WriteString("Definition h2_headers_empty_frag_ok := false.\n")
	}
	// --- pad checks of parseDataFrame / parsePushPromise: `int(pad) > len(x)` (true) or `>=` (false)
	padCmp := func(fn string) string {
		res := ""
		if fd := FindFunc(ff, "", fn); fd != nil {
			ast.Inspect(fd.Body, func(n ast.Node) bool {
				be, isBe := n.(*ast.BinaryExpr)
				if !isBe {
					return true
				}
				c, isCall := be.X.(*ast.CallExpr)
				if !isCall {
					return true
				}
				if f, isF := c.Fun.(*ast.Ident); !isF || f.Name != "int" {
					return true
				}
				if y, isY := be.Y.(*ast.CallExpr); isY {
					if f, isF := y.Fun.(*ast.Ident); isF && f.Name == "len" {
						switch be.Op {
						case token.GTR:
							res = "true"
						case token.GEQ:
							res = "false"
						}
					}
				}
				return true
			})
		}
		if res == "" {
			ok = false
			res = "false"
		}
		return res
	}
	fmt.Fprintf(&b, "Definition h2_data_pad_gt := %s.\n", padCmp("parseDataFrame"))
	fmt.Fprintf(&b, "Definition h2_push_pad_gt := %s.\n", padCmp("parsePushPromise"))
	// --- readMetaFrame
	_, mf, err := ParseGoFile(repo, "pkg/module/http2/mhttp2.go")
	if err != nil {
		return "", err
	}
	adv := ""
	if fd := FindFunc(mf, "MFramer", "readMetaFrame"); fd != nil {
		ncalls := 0
		ast.Inspect(fd.Body, func(n ast.Node) bool {
			c, isCall := n.(*ast.CallExpr)
			if !isCall {
				return true
			}
			sel, isSel := c.Fun.(*ast.SelectorExpr)
			if !isSel || sel.Sel.Name != "ReadFrame" || len(c.Args) != 3 {
				return true
			}
			ncalls++
			switch a := c.Args[2].(type) {
			case *ast.Ident:
				if a.Name == "off" {
					adv = "false"
				}
			case *ast.BinaryExpr:
				x, okx := a.X.(*ast.Ident)
				y, oky := a.Y.(*ast.Ident)
				if a.Op == token.ADD && okx && oky && ((x.Name == "off" && y.Name == "msize") || (x.Name == "msize" && y.Name == "off")) {
					adv = "true"
				}
			}
			return true
		})
		if ncalls != 1 {
			adv = ""
		}
	}
	if adv == "" {
		ok = false
		adv = "false"
	}
	fmt.Fprintf(&b, "Definition h2_cont_advance := %s.\n", adv)
	// --- MClientConn.processSettings
	wakes := false
	found := false
	if fd := FindFunc(mf, "MClientConn", "processSettings"); fd != nil {
		found = true
		ast.Inspect(fd.Body, func(n ast.Node) bool {
			c, isCall := n.(*ast.CallExpr)
			if !isCall {
				return true
			}
			if sel, isSel := c.Fun.(*ast.SelectorExpr); isSel && sel.Sel.Name == "Broadcast" {
				wakes = true
			}
			return true
		})
	}
	if !found {
		ok = false
	}
	fmt.Fprintf(&b, "Definition h2_client_settings_wakes := %v.\n", wakes)
	// --- MClientConn.processSettings validates every setting (call s.Valid())
	validated := false
	if fd := FindFunc(mf, "MClientConn", "processSettings"); fd != nil {
		ast.Inspect(fd.Body, func(n ast.Node) bool {
			if c, isCall := n.(*ast.CallExpr); isCall {
				if sel, isSel := c.Fun.(*ast.SelectorExpr); isSel && sel.Sel.Name == "Valid" && len(c.Args) == 0 {
					validated = true
				}
			}
			return true
		})
	}
	fmt.Fprintf(&b, "Definition h2_client_settings_validated := %v.\n", validated)
	// --- processWindowUpdate (server and client): is cond.Broadcast() a top-level statement of the body ("top") or nested in an if ("if")
	wuShape := func(recv string) string {
		fd := FindFunc(mf, recv, "processWindowUpdate")
		if fd == nil {
			return ""
		}
		isBroadcast := func(n ast.Node) bool {
			c, isCall := n.(*ast.CallExpr)
			if !isCall {
				return false
			}
			sel, isSel := c.Fun.(*ast.SelectorExpr)
			return isSel && sel.Sel.Name == "Broadcast"
		}
		total, top, inIf := 0, 0, 0
		ast.Inspect(fd.Body, func(n ast.Node) bool {
			if n != nil && isBroadcast(n) {
				total++
			}
			return true
		})
		for _, st := range fd.Body.List {
			switch x := st.(type) {
			case *ast.ExprStmt:
				if isBroadcast(x.X) {
					top++
				}
			case *ast.IfStmt:
				ast.Inspect(x, func(n ast.Node) bool {
					if n != nil && isBroadcast(n) {
						inIf++
					}
					return true
				})
			}
		}
		switch {
		case total == 1 && top == 1:
			return "top"
		case total == 1 && inIf == 1:
			return "if"
		}
		return ""
	}
	wuS, wuC := wuShape("MServerConn"), wuShape("MClientConn")
	wuAlways := wuS == "top" && wuC == "top"
	if !(wuAlways || (wuS == "if" && wuC == "if")) {
		ok = false
	}
	fmt.Fprintf(&b, "Definition h2_winupd_wakes_always := %v.\n", wuAlways)
	// --- MClientConn.WriteHeaders: one critical section?
	openAtomic := ""
	if fd := FindFunc(mf, "MClientConn", "WriteHeaders"); fd != nil {
		isMuUnlock := func(c *ast.CallExpr) bool {
			sel, isSel := c.Fun.(*ast.SelectorExpr)
			if !isSel || sel.Sel.Name != "Unlock" {
				return false
			}
			in, isIn := sel.X.(*ast.SelectorExpr)
			return isIn && in.Sel.Name == "mu"
		}
		deferred, plain := false, token.NoPos
		newPos, regPos := token.NoPos, token.NoPos
		ast.Inspect(fd.Body, func(n ast.Node) bool {
			switch x := n.(type) {
			case *ast.DeferStmt:
				if isMuUnlock(x.Call) {
					deferred = true
				}
				return false
			case *ast.ExprStmt:
				if c, isCall := x.X.(*ast.CallExpr); isCall && isMuUnlock(c) && plain == token.NoPos {
					plain = x.Pos()
				}
			case *ast.CallExpr:
				if sel, isSel := x.Fun.(*ast.SelectorExpr); isSel && sel.Sel.Name == "newStream" {
					newPos = x.Pos()
				}
			case *ast.AssignStmt:
				if len(x.Lhs) == 1 {
					if ix, isIx := x.Lhs[0].(*ast.IndexExpr); isIx {
						if sel, isSel := ix.X.(*ast.SelectorExpr); isSel && sel.Sel.Name == "streams" {
							regPos = x.Pos()
						}
					}
				}
			}
			return true
		})
		switch {
		case newPos != token.NoPos && regPos != token.NoPos && deferred && plain == token.NoPos:
			openAtomic = "true"
		case newPos != token.NoPos && regPos != token.NoPos && plain != token.NoPos && newPos < plain && plain < regPos:
			openAtomic = "false"
		}
	}
	if openAtomic == "" {
		ok = false
		openAtomic = "false"
	}
	fmt.Fprintf(&b, "Definition h2_client_open_atomic := %s.\n", openAtomic)
	// --- writeData chunk constant
	chunk := ""
	if fd := FindFunc(mf, "MFramer", "writeData"); fd != nil {
		ast.Inspect(fd.Body, func(n ast.Node) bool {
			vs, isVs := n.(*ast.ValueSpec)
			if isVs && len(vs.Names) == 1 && vs.Names[0].Name == "maxFrameSize" && len(vs.Values) == 1 {
				if lit, isLit := vs.Values[0].(*ast.BasicLit); isLit {
					chunk = lit.Value
				}
			}
			return true
		})
	}
	if chunk == "" {
		ok = false
		chunk = "16384"
	}
	fmt.Fprintf(&b, "Definition h2_write_chunk : Z := %s%%Z.\n", chunk)
	// --- ReadFrame: StreamError branches that drain
	drains := 0
	nested := false
	isStreamErrIf := func(is *ast.IfStmt) bool {
		found := false
		ast.Inspect(is, func(n ast.Node) bool {
			if ta, isTa := n.(*ast.TypeAssertExpr); isTa {
				if id, isId := ta.Type.(*ast.Ident); isId && id.Name == "StreamError" {
					found = true
				}
				if sel, isSel := ta.Type.(*ast.SelectorExpr); isSel && sel.Sel.Name == "StreamError" {
					found = true
				}
			}
			return true
		})
		return found && is.Init != nil
	}
	if fd := FindFunc(mf, "MFramer", "ReadFrame"); fd != nil {
		ast.Inspect(fd.Body, func(n ast.Node) bool {
			is, isIf := n.(*ast.IfStmt)
			if !isIf || !isStreamErrIf(is) {
				return true
			}
			ast.Inspect(is.Body, func(m ast.Node) bool {
				if c, isCall := m.(*ast.CallExpr); isCall {
					if sel, isSel := c.Fun.(*ast.SelectorExpr); isSel && sel.Sel.Name == "Drain" {
						drains++
					}
				}
				return true
			})
			return false
		})
	}
	if fd := FindFunc(mf, "MFramer", "readMetaFrame"); fd != nil {
		ast.Inspect(fd.Body, func(n ast.Node) bool {
			is, isIf := n.(*ast.IfStmt)
			if !isIf || !isStreamErrIf(is) {
				return true
			}
			ast.Inspect(is.Body, func(m ast.Node) bool {
				if c, isCall := m.(*ast.CallExpr); isCall {
					if id, isId := c.Fun.(*ast.Ident); isId && id.Name == "ConnectionError" {
						nested = true
					}
				}
				return true
			})
			return false
		})
	}
	switch {
	case drains == 2 && nested:
		b.WriteString("Definition h2_stream_err_drains := true.\n")
	case drains == 0 && !nested:
		b.WriteString("Definition h2_stream_err_drains := false.\n")
	default:
		ok = false
		b.WriteString("Definition h2_stream_err_drains := false.\n")
	}
	// --- Dispatch loops
	_, sf, err := ParseGoFile(repo, "pkg/stream/http2/stream.go")
	if err != nil {
		return "", err
	}
	conts, disp := 0, 0
	for _, recv := range []string{"serverStreamConnection", "clientStreamConnection"} {
		if fd := FindFunc(sf, recv, "Dispatch"); fd != nil {
			disp++
			ast.Inspect(fd.Body, func(n ast.Node) bool {
				is, isIf := n.(*ast.IfStmt)
				if !isIf || !isStreamErrIf(is) {
					return true
				}
				for _, st := range is.Body.List {
					if br, isBr := st.(*ast.BranchStmt); isBr && br.Tok == token.CONTINUE {
						conts++
					}
				}
				return false
			})
		}
	}
	copied := 0
	wrapped := false
	for _, recv := range []string{"serverStreamConnection", "clientStreamConnection"} {
		fd := FindFunc(sf, recv, "handleFrame")
		if fd == nil {
			continue
		}
		wr := false
		ast.Inspect(fd.Body, func(n ast.Node) bool {
			c, isCall := n.(*ast.CallExpr)
			if !isCall || len(c.Args) != 1 {
				return true
			}
			arg, isId := c.Args[0].(*ast.Ident)
			sel, isSel := c.Fun.(*ast.SelectorExpr)
			if !isId || !isSel || arg.Name != "data" {
				return true
			}
			switch sel.Sel.Name {
			case "Write":
				wr = true
			case "NewIoBufferBytes", "NewIoBufferString":
				wrapped = true
			}
			return true
		})
		if wr {
			copied++
		}
	}
	switch {
	case copied == 2 && !wrapped:
		b.WriteString("Definition h2_stream_data_copied := true.\n")
	case wrapped:
		b.WriteString("Definition h2_stream_data_copied := false.\n")
	default:
		ok = false
		b.WriteString("Definition h2_stream_data_copied := false.\n")
	}
	switch {
	case disp == 2 && conts == 2:
		b.WriteString("Definition h2_dispatch_continues := true.\n")
	case disp == 2 && conts == 0:
		b.WriteString("Definition h2_dispatch_continues := false.\n")
	default:
		ok = false
		b.WriteString("Definition h2_dispatch_continues := false.\n")
	}
	// --- header block fragmentation of the two writeHeaders
	splitLe := ""
	lenOf := func(e ast.Expr) string {
		if c, isCall := e.(*ast.CallExpr); isCall && len(c.Args) == 1 {
			if f, isF := c.Fun.(*ast.Ident); isF && f.Name == "len" {
				if id, isId := c.Args[0].(*ast.Ident); isId {
					return id.Name
				}
			}
		}
		return ""
	}
	if fd := FindFunc(mf, "", "nextHeaderFragment"); fd != nil {
		ast.Inspect(fd.Body, func(n ast.Node) bool {
			if be, isBe := n.(*ast.BinaryExpr); isBe && lenOf(be.X) != "" {
				if id, isId := be.Y.(*ast.Ident); isId && id.Name == "maxFrameSize" {
					switch be.Op {
					case token.LSS:
						splitLe = "false"
					case token.LEQ:
						splitLe = "true"
					}
				}
			}
			return true
		})
	} else {
		good := 0
		for _, recv := range []string{"MServerConn", "MClientConn"} {
			fd := FindFunc(mf, recv, "writeHeaders")
			if fd == nil {
				continue
			}
			cut, end := false, false
			ast.Inspect(fd.Body, func(n ast.Node) bool {
				be, isBe := n.(*ast.BinaryExpr)
				if !isBe || lenOf(be.X) == "" {
					return true
				}
				if id, isId := be.Y.(*ast.Ident); isId && id.Name == "maxFrameSize" && be.Op == token.GTR {
					cut = true // if len(frag) > maxFrameSize { frag = frag[:maxFrameSize] }
				}
				if lit, isLit := be.Y.(*ast.BasicLit); isLit && lit.Value == "0" && be.Op == token.EQL {
					end = true // END_HEADERS: len(rest) == 0
				}
				return true
			})
			if cut && end {
				good++
			}
		}
		if good == 2 {
			splitLe = "true"
		}
	}
	if splitLe == "" {
		ok = false
		splitLe = "false"
	}
	fmt.Fprintf(&b, "Definition h2_hdr_split_last_le := %s.\n", splitLe)
	// --- hpack Decoder.Write
	_, hf, err := ParseGoFile(repo, "pkg/module/http2/hpack/hpack.go")
	if err != nil {
		return "", err
	}
	multi := ""
	isFirstFalse := func(st ast.Stmt) bool {
		as, isAs := st.(*ast.AssignStmt)
		if !isAs || len(as.Lhs) != 1 || len(as.Rhs) != 1 {
			return false
		}
		sel, isSel := as.Lhs[0].(*ast.SelectorExpr)
		id, isId := as.Rhs[0].(*ast.Ident)
		return isSel && isId && sel.Sel.Name == "firstField" && id.Name == "false"
	}
	if fd := FindFunc(hf, "Decoder", "Write"); fd != nil {
		ast.Inspect(fd.Body, func(n ast.Node) bool {
			fs, isFor := n.(*ast.ForStmt)
			if !isFor {
				return true
			}
			for _, st := range fs.Body.List {
				if isFirstFalse(st) {
					multi = "false"
				}
				if is, isIf := st.(*ast.IfStmt); isIf && is.Else == nil && len(is.Body.List) == 1 && isFirstFalse(is.Body.List[0]) {
					if u, isU := is.Cond.(*ast.UnaryExpr); isU && u.Op == token.NOT {
						if id, isId := u.X.(*ast.Ident); isId && id.Name == "sizeUpdate" {
							multi = "true"
						}
					}
				}
			}
			return true
		})
	}
	if multi == "" {
		ok = false
		multi = "false"
	}
	fmt.Fprintf(&b, "Definition h2_hpack_multi_update := %s.\n", multi)
	// --- hpack Decoder.at
	atcmp := ""
	if fd := FindFunc(hf, "Decoder", "at"); fd != nil {
		u64test, intconv := false, false
		ast.Inspect(fd.Body, func(n ast.Node) bool {
			switch x := n.(type) {
			case *ast.BinaryExpr:
				if x.Op == token.GTR {
					if id, isId := x.X.(*ast.Ident); isId && id.Name == "i" {
						if c, isCall := x.Y.(*ast.CallExpr); isCall {
							if f, isF := c.Fun.(*ast.Ident); isF && f.Name == "uint64" {
								u64test = true
							}
						}
					}
				}
			case *ast.AssignStmt:
				// pos := int(i) - ...
				if len(x.Rhs) == 1 {
					if be, isBe := x.Rhs[0].(*ast.BinaryExpr); isBe && be.Op == token.SUB {
						if c, isCall := be.X.(*ast.CallExpr); isCall {
							if f, isF := c.Fun.(*ast.Ident); isF && f.Name == "int" {
								intconv = true
							}
						}
					}
				}
			}
			return true
		})
		switch {
		case u64test && !intconv:
			atcmp = "true"
		case !u64test && intconv:
			atcmp = "false"
		}
	}
	if atcmp == "" {
		ok = false
		atcmp = "false"
	}
	fmt.Fprintf(&b, "Definition h2_hpack_at_u64cmp := %s.\n", atcmp)
	// --- hpack parseFieldLiteral / readString
	idxStr := ""
	if fd := FindFunc(hf, "Decoder", "parseFieldLiteral"); fd != nil {
		idxStr = "false"
		ast.Inspect(fd.Body, func(n ast.Node) bool {
			be, isBe := n.(*ast.BinaryExpr)
			if !isBe || be.Op != token.LOR {
				return true
			}
			l, lok := be.X.(*ast.SelectorExpr)
			c, cok := be.Y.(*ast.CallExpr)
			if lok && cok && l.Sel.Name == "emitEnabled" {
				if cs, isSel := c.Fun.(*ast.SelectorExpr); isSel && cs.Sel.Name == "indexed" {
					idxStr = "true"
				}
			}
			return true
		})
		if rs := FindFunc(hf, "Decoder", "readString"); rs == nil || rs.Type.Params.NumFields() != 2 {
			idxStr = "false" // the decision is not passed in by the caller
		}
	}
	if idxStr == "" {
		ok = false
		idxStr = "false"
	}
	fmt.Fprintf(&b, "Definition h2_hpack_indexed_strings_read := %s.\n", idxStr)
	// --- MFramer: nothing carried across frames
	stateless := ""
	for _, d := range mf.Decls {
		gd, isGen := d.(*ast.GenDecl)
		if !isGen {
			continue
		}
		for _, sp := range gd.Specs {
			ts, isTs := sp.(*ast.TypeSpec)
			if !isTs || ts.Name.Name != "MFramer" {
				continue
			}
			if st, isSt := ts.Type.(*ast.StructType); isSt {
				stateless = "true"
				for _, f := range st.Fields.List {
					if len(f.Names) != 0 { // a named field: state of its own
						stateless = "false"
					}
				}
			}
		}
	}
	for _, fn := range []string{"ReadFrame", "readMetaFrame"} {
		fd := FindFunc(mf, "MFramer", fn)
		if fd == nil {
			stateless = ""
			break
		}
		ast.Inspect(fd.Body, func(n ast.Node) bool {
			as, isAs := n.(*ast.AssignStmt)
			if !isAs {
				return true
			}
			for _, l := range as.Lhs {
				if sel, isSel := l.(*ast.SelectorExpr); isSel {
					if id, isId := sel.X.(*ast.Ident); isId && id.Name == "fr" {
						switch sel.Sel.Name {
						case "errDetail", "lastFrame", "lastHeaderStream":
						default:
							stateless = "false"
						}
					}
				}
			}
			return true
		})
	}
	if stateless == "" {
		ok = false
		stateless = "false"
	}
	fmt.Fprintf(&b, "Definition h2_framer_no_cross_frame_state := %s.\n", stateless)
	// --- graceful GOAWAY
	mentions := func(e ast.Node, name string) bool {
		found := false
		ast.Inspect(e, func(n ast.Node) bool {
			if sel, isSel := n.(*ast.SelectorExpr); isSel && sel.Sel.Name == name {
				found = true
			}
			return true
		})
		return found
	}
	gaLast := ""
	if fd := FindFunc(mf, "MServerConn", "goAway"); fd != nil {
		ast.Inspect(fd.Body, func(n ast.Node) bool {
			c, isCall := n.(*ast.CallExpr)
			if !isCall || gaLast != "" {
				return true
			}
			if sel, isSel := c.Fun.(*ast.SelectorExpr); isSel && sel.Sel.Name == "writeUint32" && len(c.Args) == 2 {
				// the first writeUint32 of the frame is the last-stream-id
				if mentions(c.Args[1], "maxClientStreamID") {
					gaLast = "true"
				} else {
					gaLast = "false"
				}
			}
			return true
		})
	}
	if gaLast == "" {
		ok = false
		gaLast = "false"
	}
	fmt.Fprintf(&b, "Definition h2_goaway_last_is_max := %s.\n", gaLast)
	gaOld := ""
	if fd := FindFunc(mf, "MServerConn", "processHeaders"); fd != nil {
		for _, st := range fd.Body.List {
			if is, isIf := st.(*ast.IfStmt); isIf && mentions(is.Cond, "inGoAway") {
				if mentions(is.Cond, "maxClientStreamID") {
					gaOld = "true"
				} else {
					gaOld = "false"
				}
				break
			}
		}
		if gaOld == "" {
			gaOld = "true" // no GOAWAY test in processHeaders at all: HEADERS are never ignored there
		}
	}
	if gaOld == "" {
		ok = false
		gaOld = "false"
	}
	fmt.Fprintf(&b, "Definition h2_goaway_old_continue := %s.\n", gaOld)
	gaLate := ""
	if fd := FindFunc(mf, "MServerConn", "HandleFrame"); fd != nil {
		gaLate = "false"
		for _, st := range fd.Body.List {
			if _, isSw := st.(*ast.TypeSwitchStmt); isSw {
				break
			}
			if is, isIf := st.(*ast.IfStmt); isIf && mentions(is.Cond, "inGoAway") && mentions(is.Cond, "maxClientStreamID") && len(is.Body.List) > 0 {
				if _, isRet := is.Body.List[len(is.Body.List)-1].(*ast.ReturnStmt); isRet {
					gaLate = "true"
				}
			}
		}
	}
	if gaLate == "" {
		ok = false
		gaLate = "false"
	}
	fmt.Fprintf(&b, "Definition h2_goaway_late_discarded := %s.\n", gaLate)
	gaZero := ""
	if fd := FindFunc(sf, "clientStream", "ResetStream"); fd != nil {
		for _, st := range fd.Body.List {
			if is, isIf := st.(*ast.IfStmt); isIf && mentions(is.Cond, "lastStream") {
				needsPositive := false
				ast.Inspect(is.Cond, func(n ast.Node) bool {
					if be, isBe := n.(*ast.BinaryExpr); isBe && be.Op == token.GTR {
						if lit, isLit := be.Y.(*ast.BasicLit); isLit && lit.Value == "0" && mentions(be.X, "lastStream") {
							needsPositive = true
						}
					}
					return true
				})
				if !needsPositive && mentions(is.Cond, "goAway") {
					gaZero = "true"
				} else {
					gaZero = "false"
				}
				break
			}
		}
	}
	if gaZero == "" {
		ok = false
		gaZero = "false"
	}
	fmt.Fprintf(&b, "Definition h2_client_goaway_zero := %s.\n", gaZero)
	fmt.Fprintf(&b, "Definition H2Src_translator_ok := %v.\n", ok)
	return b.String(), nil
}
