package main

import . "vh/vhlib"

func main() {
	Main(map[string]CmdFn{
		"gen": func(a []string) int { return RunGen(gens, a) },
		"c18": c18,
		"c07": c07,
		"c08": c08,
		"c02": c02,
		"c01": c01,
		"c11": c11,
	})
}
