package main

// HPACK: generators, drivers of the three implementations (MOSN fork, x/net reference, Coq model via shards).

import (
	"bytes"
	"fmt"
	"strings"
	"time"

	xhpack "golang.org/x/net/http2/hpack"
	mhpack "mosn.io/mosn/pkg/module/http2/hpack"

	. "vh/vhlib"
)

type hfield struct {
	Name  string `json:"n"`
	Value string `json:"v"`
	Sens  bool   `json:"s,omitempty"`
}

func (f hfield) coq() string {
	return fmt.Sprintf("(%s, %s, %s)", cb([]byte(f.Name)), cb([]byte(f.Value)), CoqBool(f.Sens))
}

func coqFields(fs []hfield) string {
	parts := make([]string, len(fs))
	for i, f := range fs {
		parts[i] = f.coq()
	}
	return CoqList(parts)
}

type tsnap struct {
	Ents    []hfield
	Size    uint32
	MaxSize uint32
}

func snapOf(t mhpack.VerifDynTable) tsnap {
	s := tsnap{Size: t.Size, MaxSize: t.MaxSize}
	for _, e := range t.Ents {
		s.Ents = append(s.Ents, hfield{Name: e.Name, Value: e.Value})
	}
	return s
}

func (t tsnap) coq() string {
	parts := make([]string, len(t.Ents))
	for i, e := range t.Ents {
		parts[i] = fmt.Sprintf("(%s, %s)", cb([]byte(e.Name)), cb([]byte(e.Value)))
	}
	return fmt.Sprintf("(%s, %s, %s)", CoqList(parts), CoqN(uint64(t.Size)), CoqN(uint64(t.MaxSize)))
}

func (t tsnap) equal(o tsnap) bool {
	if t.Size != o.Size || t.MaxSize != o.MaxSize || len(t.Ents) != len(o.Ents) {
		return false
	}
	for i := range t.Ents {
		if t.Ents[i].Name != o.Ents[i].Name || t.Ents[i].Value != o.Ents[i].Value {
			return false
		}
	}
	return true
}

func fieldsEqual(a, b []hfield) bool {
	if len(a) != len(b) {
		return false
	}
	for i := range a {
		if a[i] != b[i] {
			return false
		}
	}
	return true
}

// ---------------------------------------------------------------------------------------------
// error classes

func hpackErrClass(err error) string {
	if err == nil {
		return "WOk"
	}
	s := err.Error()
	switch {
	case err == mhpack.ErrStringLength || err == xhpack.ErrStringLength:
		return "WErr EStrLen"
	case err == mhpack.ErrInvalidHuffman || err == xhpack.ErrInvalidHuffman:
		return "WErr EHuffman"
	case strings.Contains(s, "varint integer overflow"):
		return "WErr EVarint"
	case strings.Contains(s, "invalid indexed representation index"):
		return "WErr EIndex"
	case strings.Contains(s, "dynamic table size update"):
		return "WErr ESizeUpdate"
	case strings.Contains(s, "invalid encoding"):
		return "WErr EEncoding"
	case strings.Contains(s, "truncated headers"):
		return "WErr ETruncated"
	case strings.Contains(s, "PANIC"):
		return "WPanic"
	case strings.Contains(s, "HANG"):
		return "WFuel"
	}
	return "WErr EOther"
}

// abortRun is set once a call hung; the part functions stop generating cases.
var abortRun bool

// guarded runs f under recover() with a watchdog; a panic or a hang is reported as an error string.
func guarded(f func() error) (err error) {
	done := make(chan error, 1)
	go func() {
		defer func() {
			if r := recover(); r != nil {
				done <- fmt.Errorf("PANIC: %v", r)
			}
		}()
		done <- f()
	}()
	select {
	case e := <-done:
		return e
	case <-time.After(5 * time.Second):
		// the stuck goroutine cannot be stopped (and may keep allocating): the run records the
		// failure and winds down instead of starting more cases
		abortRun = true
		return fmt.Errorf("HANG: no result within 5s")
	}
}

// ---------------------------------------------------------------------------------------------
// decoder drivers: a decoder session is a list of ops; each yields (emitted fields, class)

type dop struct {
	Kind string `json:"k"` // write close setmax setallowed setemit setmaxstr
	P    []byte `json:"p,omitempty"`
	V    uint32 `json:"v,omitempty"`
	B    bool   `json:"b,omitempty"`
}

func (o dop) coq() string {
	switch o.Kind {
	case "write":
		return "DWrite " + cb(o.P)
	case "close":
		return "DClose"
	case "setmax":
		return "DSetMax " + CoqN(uint64(o.V))
	case "setallowed":
		return "DSetAllowed " + CoqN(uint64(o.V))
	case "setemit":
		return "DSetEmit " + CoqBool(o.B)
	case "setmaxstr":
		return "DSetMaxStr " + CoqN(uint64(o.V))
	}
	panic("bad dop")
}

type dobs struct {
	Fields []hfield `json:"f,omitempty"`
	Class  string   `json:"c"`
}

func (o dobs) coq() string { return fmt.Sprintf("(%s, %s)", coqFields(o.Fields), o.Class) }

type decoder interface {
	apply(o dop) dobs
	table() (tsnap, bool)
}

type mosnDec struct {
	d   *mhpack.Decoder
	cur []hfield
}

func newMosnDec(max uint32) *mosnDec {
	m := &mosnDec{}
	m.d = mhpack.NewDecoder(max, func(f mhpack.HeaderField) {
		m.cur = append(m.cur, hfield{f.Name, f.Value, f.Sensitive})
	})
	return m
}

func (m *mosnDec) apply(o dop) dobs {
	m.cur = nil
	var err error
	switch o.Kind {
	case "write":
		err = guarded(func() error { _, e := m.d.Write(o.P); return e })
	case "close":
		err = guarded(func() error { return m.d.Close() })
	case "setmax":
		m.d.SetMaxDynamicTableSize(o.V)
	case "setallowed":
		m.d.SetAllowedMaxDynamicTableSize(o.V)
	case "setemit":
		m.d.SetEmitEnabled(o.B)
	case "setmaxstr":
		m.d.SetMaxStringLength(int(o.V))
	}
	return dobs{Fields: m.cur, Class: hpackErrClass(err)}
}
func (m *mosnDec) table() (tsnap, bool) { return snapOf(m.d.VerifTable()), true }

type xnetDec struct {
	d   *xhpack.Decoder
	cur []hfield
}

func newXnetDec(max uint32) *xnetDec {
	m := &xnetDec{}
	m.d = xhpack.NewDecoder(max, func(f xhpack.HeaderField) {
		m.cur = append(m.cur, hfield{f.Name, f.Value, f.Sensitive})
	})
	return m
}

func (m *xnetDec) apply(o dop) dobs {
	m.cur = nil
	var err error
	switch o.Kind {
	case "write":
		err = guarded(func() error { _, e := m.d.Write(o.P); return e })
	case "close":
		err = guarded(func() error { return m.d.Close() })
	case "setmax":
		m.d.SetMaxDynamicTableSize(o.V)
	case "setallowed":
		m.d.SetAllowedMaxDynamicTableSize(o.V)
	case "setemit":
		m.d.SetEmitEnabled(o.B)
	case "setmaxstr":
		m.d.SetMaxStringLength(int(o.V))
	}
	return dobs{Fields: m.cur, Class: hpackErrClass(err)}
}
func (m *xnetDec) table() (tsnap, bool) { return tsnap{}, false }

// runDec applies ops until the first non-ok class; returns the observations (one per executed op).
func runDec(d decoder, ops []dop) []dobs {
	var out []dobs
	for _, o := range ops {
		ob := d.apply(o)
		out = append(out, ob)
		if ob.Class != "WOk" {
			break
		}
	}
	return out
}

// ---------------------------------------------------------------------------------------------
// encoder drivers

type eop struct {
	Kind string `json:"k"` // write setmax setlimit
	F    hfield `json:"f,omitempty"`
	V    uint32 `json:"v,omitempty"`
}

func (o eop) coq() string {
	switch o.Kind {
	case "write":
		return fmt.Sprintf("EWrite %s %s %s", cb([]byte(o.F.Name)), cb([]byte(o.F.Value)), CoqBool(o.F.Sens))
	case "setmax":
		return "ESetMax " + CoqN(uint64(o.V))
	case "setlimit":
		return "ESetLimit " + CoqN(uint64(o.V))
	}
	panic("bad eop")
}

type encoder interface {
	apply(o eop) []byte
}

type mosnEnc struct {
	e   *mhpack.Encoder
	buf bytes.Buffer
}

func newMosnEnc() *mosnEnc {
	m := &mosnEnc{}
	m.e = mhpack.NewEncoder(&m.buf)
	return m
}
func (m *mosnEnc) apply(o eop) []byte {
	m.buf.Reset()
	switch o.Kind {
	case "write":
		m.e.WriteField(mhpack.HeaderField{Name: o.F.Name, Value: o.F.Value, Sensitive: o.F.Sens})
	case "setmax":
		m.e.SetMaxDynamicTableSize(o.V)
	case "setlimit":
		m.e.SetMaxDynamicTableSizeLimit(o.V)
	}
	return append([]byte(nil), m.buf.Bytes()...)
}

type xnetEnc struct {
	e   *xhpack.Encoder
	buf bytes.Buffer
}

func newXnetEnc() *xnetEnc {
	m := &xnetEnc{}
	m.e = xhpack.NewEncoder(&m.buf)
	return m
}
func (m *xnetEnc) apply(o eop) []byte {
	m.buf.Reset()
	switch o.Kind {
	case "write":
		m.e.WriteField(xhpack.HeaderField{Name: o.F.Name, Value: o.F.Value, Sensitive: o.F.Sens})
	case "setmax":
		m.e.SetMaxDynamicTableSize(o.V)
	case "setlimit":
		m.e.SetMaxDynamicTableSizeLimit(o.V)
	}
	return append([]byte(nil), m.buf.Bytes()...)
}

// ---------------------------------------------------------------------------------------------
// generators

var commonNames = []string{":authority", ":method", ":path", ":scheme", ":status", "accept", "accept-encoding", "cookie",
	"content-type", "content-length", "user-agent", "x-request-id", "x-mosn-host", "set-cookie", "authorization", "x-a", "x-b", "te", "trailer-x"}
var commonValues = []string{"", "GET", "POST", "/", "/index.html", "http", "https", "200", "404", "gzip, deflate", "0", "1",
	"application/grpc", "text/html; charset=utf-8", "www.example.com", "no-cache", "custom-value", "Mozilla/5.0 (X11; Linux x86_64)"}

func genString(r *Rng, maxLen int) string {
	switch r.Intn(10) {
	case 0:
		return ""
	case 1, 2: // every byte value, Huffman-unfriendly
		b := r.Bytes(1 + r.Intn(maxLen))
		return string(b)
	case 3: // long runs (Huffman-friendly, crosses the 127 length boundary)
		n := []int{1, 5, 126, 127, 128, 129, 255, 256, 300}[r.Intn(9)]
		if n > maxLen {
			n = maxLen
		}
		return strings.Repeat(string(rune('a'+r.Intn(26))), n)
	case 4: // high-code-length symbols
		n := 1 + r.Intn(12)
		b := make([]byte, n)
		for i := range b {
			b[i] = []byte{0, 1, 9, 10, 13, 22, 127, 128, 200, 249, 255, 92, 60}[r.Intn(13)]
		}
		return string(b)
	default:
		n := 1 + r.Intn(maxLen)
		b := make([]byte, n)
		const al = "abcdefghijklmnopqrstuvwxyz0123456789-_./=;, ABCXYZ%"
		for i := range b {
			b[i] = al[r.Intn(len(al))]
		}
		return string(b)
	}
}

func genField(r *Rng, pool *[]hfield) hfield {
	var f hfield
	switch {
	case len(*pool) > 0 && r.Pct(30): // repeat an earlier field (dynamic-table hit)
		f = (*pool)[r.Intn(len(*pool))]
		if r.Pct(30) {
			f.Value = genString(r, 40) // same name, other value
		}
	case r.Pct(40):
		f = hfield{Name: commonNames[r.Intn(len(commonNames))], Value: commonValues[r.Intn(len(commonValues))]}
	case r.Pct(3): // entries around / larger than the table size
		f = hfield{Name: genString(r, 30), Value: strings.Repeat("v", []int{3000, 4040, 4064, 4065, 5000}[r.Intn(5)])}
	default:
		f = hfield{Name: genString(r, 30), Value: genString(r, 200)}
	}
	f.Sens = r.Pct(12)
	*pool = append(*pool, f)
	return f
}

var tableSizes = []uint32{0, 1, 31, 32, 33, 64, 100, 128, 1000, 4000, 4095, 4096, 4097, 8192, 65536}

// session: header blocks interleaved with table-size changes
type sessOp struct {
	SetMax   *uint32  `json:"setmax,omitempty"`
	SetLimit *uint32  `json:"setlimit,omitempty"`
	Block    []hfield `json:"block,omitempty"`
}

func genSession(r *Rng, nops int) []sessOp {
	var ops []sessOp
	var pool []hfield
	for i := 0; i < nops; i++ {
		switch {
		case r.Pct(22):
			v := tableSizes[r.Intn(len(tableSizes))]
			if r.Pct(20) {
				v = uint32(r.Intn(5000))
			}
			ops = append(ops, sessOp{SetMax: &v})
			if r.Pct(25) { // two changes between blocks: the smaller one must be signalled too
				v2 := tableSizes[r.Intn(len(tableSizes))]
				ops = append(ops, sessOp{SetMax: &v2})
			}
		default:
			n := 1 + r.Intn(8)
			blk := make([]hfield, n)
			for j := range blk {
				blk[j] = genField(r, &pool)
			}
			ops = append(ops, sessOp{Block: blk})
		}
	}
	return ops
}

// chunkings of a block for Decoder.Write
func cutRandom(r *Rng, b []byte) [][]byte {
	var out [][]byte
	for len(b) > 0 {
		n := 1 + r.Intn(len(b))
		if r.Pct(50) && n > 3 {
			n = 1 + r.Intn(3)
		}
		out = append(out, b[:n])
		b = b[n:]
	}
	return out
}

// ---------------------------------------------------------------------------------------------
// a representation-level generator: "any encoder that emits valid representations"

type genRepr struct {
	dyn     []hfield // newest first
	size    uint32
	max     uint32
	allowed uint32
}

func appendInt(dst []byte, n uint, i uint64, flag byte, r *Rng) []byte {
	k := uint64(1<<n - 1)
	if i < k {
		return append(dst, flag|byte(i))
	}
	dst = append(dst, flag|byte(k))
	i -= k
	for i >= 128 {
		dst = append(dst, byte(0x80|(i&0x7f)))
		i >>= 7
	}
	dst = append(dst, byte(i))
	if r != nil && r.Pct(5) { // non-canonical: extra zero continuation bytes (valid for the decoder)
		dst[len(dst)-1] |= 0x80
		dst = append(dst, 0)
	}
	return dst
}

func appendStr(dst []byte, s string, huff bool, r *Rng) []byte {
	if huff {
		h := xhpack.AppendHuffmanString(nil, s)
		dst = appendInt(dst, 7, uint64(len(h)), 0x80, r)
		return append(dst, h...)
	}
	dst = appendInt(dst, 7, uint64(len(s)), 0, r)
	return append(dst, s...)
}

func (g *genRepr) evict() {
	for g.size > g.max && len(g.dyn) > 0 {
		last := g.dyn[len(g.dyn)-1]
		g.size -= uint32(len(last.Name) + len(last.Value) + 32)
		g.dyn = g.dyn[:len(g.dyn)-1]
	}
}
func (g *genRepr) add(f hfield) {
	g.dyn = append([]hfield{{Name: f.Name, Value: f.Value}}, g.dyn...)
	g.size += uint32(len(f.Name) + len(f.Value) + 32)
	g.evict()
}
func (g *genRepr) at(i int, static []mhpack.HeaderField) hfield {
	if i <= len(static) {
		return hfield{Name: static[i-1].Name, Value: static[i-1].Value}
	}
	return g.dyn[i-len(static)-1]
}

// block emits one header block of n valid representations; returns the bytes and the fields it means.
func (g *genRepr) block(r *Rng, n int, static []mhpack.HeaderField) ([]byte, []hfield) {
	var out []byte
	var fs []hfield
	if r.Pct(25) {
		k := 1 + r.Intn(2)
		for j := 0; j < k; j++ {
			v := uint32(r.Intn(int(g.allowed) + 1))
			if r.Pct(30) {
				v = g.allowed
			}
			if r.Pct(20) {
				v = 0
			}
			out = appendInt(out, 5, uint64(v), 0x20, r)
			g.max = v
			g.evict()
		}
	}
	for j := 0; j < n; j++ {
		total := len(static) + len(g.dyn)
		switch r.Intn(4) {
		case 0: // indexed
			i := 1 + r.Intn(total)
			out = appendInt(out, 7, uint64(i), 0x80, r)
			f := g.at(i, static)
			fs = append(fs, hfield{Name: f.Name, Value: f.Value})
		case 1, 2: // literal with indexed name
			i := 1 + r.Intn(total)
			kind := r.Intn(3)
			nm := g.at(i, static).Name
			v := genString(r, 60)
			switch kind {
			case 0:
				out = appendInt(out, 6, uint64(i), 0x40, r)
			case 1:
				out = appendInt(out, 4, uint64(i), 0x00, r)
			case 2:
				out = appendInt(out, 4, uint64(i), 0x10, r)
			}
			out = appendStr(out, v, r.Bool(), r)
			f := hfield{Name: nm, Value: v, Sens: kind == 2}
			fs = append(fs, f)
			if kind == 0 {
				g.add(f)
			}
		default: // literal with new name
			kind := r.Intn(3)
			nm := genString(r, 20)
			v := genString(r, 60)
			out = append(out, []byte{0x40, 0x00, 0x10}[kind])
			out = appendStr(out, nm, r.Bool(), r)
			out = appendStr(out, v, r.Bool(), r)
			f := hfield{Name: nm, Value: v, Sens: kind == 2}
			fs = append(fs, f)
			if kind == 0 {
				g.add(f)
			}
		}
	}
	return out, fs
}

// corrupt returns a mutated copy of a valid block
func corruptBytes(r *Rng, b []byte) []byte {
	c := append([]byte(nil), b...)
	if len(c) == 0 {
		return []byte{byte(r.Intn(256))}
	}
	switch r.Intn(7) {
	case 0: // truncate
		c = c[:r.Intn(len(c))]
	case 1: // flip a byte
		c[r.Intn(len(c))] ^= byte(1 << uint(r.Intn(8)))
	case 2: // absurd length / index: long varint
		i := r.Intn(len(c))
		ins := []byte{0xff, 0xff, 0xff, 0xff, 0xff, 0xff, 0xff, 0xff, 0xff, 0xff, 0x7f}
		ins = ins[:1+r.Intn(len(ins))]
		c = append(c[:i], append(ins, c[i:]...)...)
	case 3: // set a byte to a boundary value
		c[r.Intn(len(c))] = []byte{0, 0x7f, 0x80, 0xff, 0x3f, 0x20, 0x1f, 0x0f, 0x40}[r.Intn(9)]
	case 4: // announce a huge string with no bytes behind it
		c = append(c, 0x00, 0x7f, 0xff, 0xff, 0xff, 0x7f)
	case 5: // insert random bytes
		i := r.Intn(len(c) + 1)
		c = append(c[:i], append(r.Bytes(1+r.Intn(6)), c[i:]...)...)
	default: // EOS / over-long padding inside a Huffman string
		c = append(c, 0x00, 0x84, 0xff, 0xff, 0xff, 0xff)
	}
	return c
}

// probeEntries reads a decoder's dynamic table through the wire: one indexed representation per index
// 62, 63, ... until the decoder answers "invalid index" (decoding an indexed field does not change the table).
func probeEntries(d decoder) []hfield {
	var out []hfield
	for i := uint64(62); i < 62+4096; i++ {
		o := d.apply(dop{Kind: "write", P: appendInt(nil, 7, i, 0x80, nil)})
		d.apply(dop{Kind: "close"})
		if o.Class != "WOk" || len(o.Fields) != 1 {
			break
		}
		out = append(out, hfield{Name: o.Fields[0].Name, Value: o.Fields[0].Value})
	}
	return out
}

// genExactFillSession: header lists whose entries fill the dynamic table EXACTLY (entry sizes dividing the
// table size), one byte under / over, re-sent so that the oldest entries are referenced, with table-size
// changes to exactly the current size and one byte around it.
func genExactFillSession(r *Rng) []sessOp {
	T := []int{4096, 4096, 2048, 1024, 256, 128}[r.Intn(6)]
	var ops []sessOp
	if T != 4096 {
		v := uint32(T)
		ops = append(ops, sessOp{SetMax: &v})
	}
	es := []int{64, 128, 256, 512, 1024, 2048, 4096}
	e := es[r.Intn(len(es))]
	for e > T {
		e /= 2
	}
	k := T / e
	mk := func(i, size int) hfield {
		name := fmt.Sprintf("x-%04d", i)
		return hfield{Name: name, Value: strings.Repeat(string(rune('a'+i%26)), size-32-len(name))}
	}
	var fill []hfield
	for i := 0; i < k; i++ {
		sz := e
		if i == k-1 {
			sz += []int{0, 0, 0, -1, 1}[r.Intn(5)] // exactly full, one byte under, one byte over
		}
		fill = append(fill, mk(i, sz))
	}
	// the fill may arrive in one block or in several
	if r.Bool() {
		ops = append(ops, sessOp{Block: fill})
	} else {
		c := 1 + r.Intn(len(fill))
		ops = append(ops, sessOp{Block: fill[:c]})
		if c < len(fill) {
			ops = append(ops, sessOp{Block: fill[c:]})
		}
	}
	for rep := 0; rep < 2+r.Intn(2); rep++ {
		switch r.Intn(5) {
		case 0: // size change to exactly / around the current table size
			v := uint32(T + []int{0, -1, 1, -e, 0}[r.Intn(5)])
			if v > 4096 {
				v = 4096
			}
			ops = append(ops, sessOp{SetMax: &v})
		case 1: // one more entry of the same size: evicts exactly one
			ops = append(ops, sessOp{Block: []hfield{mk(100+rep, e)}})
		}
		// the same list again: indexed representations reaching the oldest entries
		again := append([]hfield(nil), fill...)
		if r.Bool() {
			for i, j := 0, len(again)-1; i < j; i, j = i+1, j-1 {
				again[i], again[j] = again[j], again[i]
			}
		}
		ops = append(ops, sessOp{Block: again})
	}
	return ops
}
