package main

// C18 flow control, stream open vs the read side: a real MClientConn opens a stream (MClientStream.RoundTrip ->
// WriteHeaders) while - exactly when the HEADERS frame is handed to the connection - the read goroutine processes a
// peer frame (SETTINGS_INITIAL_WINDOW_SIZE change or a WINDOW_UPDATE for the new stream).  The interleaving is forced
// from the connection's Write (no hook in mosn): the peer frame is handled in another goroutine and Write waits up
// to 25 ms for it; with one cc.mu critical section in WriteHeaders the handler can only run after the registration,
// with cc.mu released in between it runs in the gap.

import (
	"bytes"
	"context"
	"fmt"
	"net/http"
	"sync"
	"time"

	xh2 "golang.org/x/net/http2"
	"mosn.io/api"
	mh2 "mosn.io/mosn/pkg/module/http2"
	"mosn.io/pkg/buffer"

	. "vh/vhlib"
)

const flowOpenHeader = "From MV Require Import Lib.HCaseIO Model.FlowOpen Model.FlowOpenCases.\nFrom Coq Require Import List ZArith Bool.\nImport ListNotations.\nOpen Scope Z_scope.\n"

type raceConn struct {
	api.Connection
	mu      sync.Mutex
	out     bytes.Buffer
	armed   bool
	onFirst func() // called (once) when a HEADERS frame is written
}

func (c *raceConn) Write(bufs ...api.IoBuffer) error {
	c.mu.Lock()
	fire := false
	for _, b := range bufs {
		p := b.Bytes()
		if c.armed && len(p) >= 9 && p[3] == 1 {
			c.armed = false
			fire = true
		}
		c.out.Write(p)
	}
	f := c.onFirst
	c.mu.Unlock()
	if fire && f != nil {
		f()
	}
	return nil
}
func (c *raceConn) State() api.ConnState { return api.ConnActive }
func (c *raceConn) dataBytes() int {
	c.mu.Lock()
	b := append([]byte(nil), c.out.Bytes()...)
	c.mu.Unlock()
	if i := bytes.Index(b, []byte(xh2.ClientPreface)); i >= 0 {
		b = b[i+len(xh2.ClientPreface):]
	}
	fr := xh2.NewFramer(nil, bytes.NewReader(b))
	n := 0
	for {
		f, err := fr.ReadFrame()
		if err != nil {
			return n
		}
		if d, ok := f.(*xh2.DataFrame); ok {
			n += len(d.Data())
		}
	}
}

func flowOpenRace(run *Run, ss *shardSet) {
	ctx := context.Background()
	type sc struct {
		init0 uint32
		kind  string // settings | winupd
		v     uint32
		body  int
	}
	var cases []sc
	for _, b := range []int{1000, 300} {
		cases = append(cases,
			sc{65535, "settings", 10, b}, sc{65535, "settings", 0, b}, sc{65535, "settings", 100000, b},
			sc{0, "settings", 65535, b}, sc{5, "settings", 2000, b}, sc{1000, "settings", 999, b},
			sc{65535, "winupd", 500, b}, sc{0, "winupd", 5000, b}, sc{100, "winupd", 50, b})
	}
	for _, c := range cases {
		if abortRun {
			return
		}
		conn := &raceConn{}
		cc := mh2.NewClientConn(conn)
		cc.WriteInitFrame()
		feed := func(wr func(fr *xh2.Framer)) error {
			var w bytes.Buffer
			wr(xh2.NewFramer(&w, nil))
			buf := buffer.NewIoBufferBytes(append([]byte(nil), w.Bytes()...))
			for buf.Len() > 0 {
				f, _, err := cc.Framer.ReadFrame(ctx, buf, 0)
				if err != nil {
					return err
				}
				if _, _, _, _, _, err = cc.HandleFrame(ctx, f); err != nil {
					return err
				}
			}
			return nil
		}
		feed(func(fr *xh2.Framer) { fr.WriteSettings(xh2.Setting{ID: xh2.SettingInitialWindowSize, Val: c.init0}) })
		done := make(chan error, 1)
		conn.mu.Lock()
		conn.armed = true
		conn.onFirst = func() {
			go func() {
				done <- feed(func(fr *xh2.Framer) {
					if c.kind == "settings" {
						fr.WriteSettings(xh2.Setting{ID: xh2.SettingInitialWindowSize, Val: c.v})
					} else {
						fr.WriteWindowUpdate(1, c.v)
					}
				})
			}()
			select { // give the read goroutine the chance to run inside the gap, if there is one
			case e := <-done:
				done <- e
			case <-time.After(25 * time.Millisecond):
			}
		}
		conn.mu.Unlock()
		req, _ := http.NewRequest("POST", "http://up.example/x", nil)
		ms := mh2.NewMClientStream(cc, req)
		body := bytes.Repeat([]byte("d"), c.body)
		ms.SendData = buffer.NewIoBufferBytes(body)
		rep := map[string]interface{}{"part": "flow-open-race", "initial_window": c.init0, "frame": c.kind, "value": c.v, "body": c.body}
		if err := ms.RoundTrip(ctx); err != nil {
			run.Fail("h2flow:open-failed", err.Error(), rep)
			continue
		}
		select {
		case err := <-done:
			if err != nil {
				run.Fail("h2flow:peer-frame-refused", err.Error(), rep)
				continue
			}
		case <-time.After(3 * time.Second):
			run.Fail("h2flow:peer-frame-never-handled", "the frame sent while the stream was being opened was not handled within 3 s", rep)
			continue
		}
		var want int64 // RFC 7540 6.9.2: acknowledged initial window - sent + increments
		if c.kind == "settings" {
			want = int64(c.v)
		} else {
			want = int64(c.init0) + int64(c.v)
		}
		sw, _ := ms.VerifSendWindow()
		run.Count(fmt.Sprintf("fopen|%v", c), true, "flow-open-race:"+c.kind)
		failed := false
		if int64(sw) != want {
			failed = true
			sig := "h2flow:stream-window-misses-settings-delta"
			if c.kind == "winupd" {
				sig = "h2flow:window-update-dropped-for-open-stream"
			}
			run.Fail(sig, fmt.Sprintf("stream opened while the peer's %s (%d) was processed and acknowledged: send window %d, must be %d (initial window in force %d)", c.kind, c.v, sw, want, c.init0), rep)
		}
		// now the body
		sent := make(chan struct{})
		go func() { ms.RoundTrip(ctx); close(sent) }()
		expect := int(want)
		if expect > c.body {
			expect = c.body
		}
		if expect < 0 {
			expect = 0
		}
		deadline := time.Now().Add(2 * time.Second)
		for conn.dataBytes() < expect && time.Now().Before(deadline) {
			time.Sleep(time.Millisecond)
		}
		time.Sleep(5 * time.Millisecond)
		got := conn.dataBytes()
		switch {
		case got > expect:
			failed = true
			run.Fail("h2flow:sent-beyond-acknowledged-window", fmt.Sprintf("%d DATA bytes sent on a stream whose acknowledged window allows %d", got, expect), rep)
		case got < expect:
			failed = true
			run.Fail("h2flow:body-not-sent-although-window-open", fmt.Sprintf("%d of %d permitted DATA bytes sent within 2 s", got, expect), rep)
		}
		var fr string
		if c.kind == "settings" {
			fr = fmt.Sprintf("PSettings %s", CoqZ(int64(c.v)))
		} else {
			fr = fmt.Sprintf("PWinUpd 1 %s", CoqZ(int64(c.v)))
		}
		if !failed {
			ss.add("fopen", flowOpenHeader, "fopen_case", "fopen_mismatches", 200,
				fmt.Sprintf("(%s, %s, %s, (%s, %s))", CoqZ(int64(c.init0)), fr, CoqZ(int64(c.body)), CoqZ(int64(sw)), CoqZ(int64(got))), rep)
		}
		if got < c.body { // release the parked sender so that the goroutine ends
			feed(func(fr *xh2.Framer) { fr.WriteWindowUpdate(1, uint32(c.body)) })
			select {
			case <-sent:
			case <-time.After(time.Second):
			}
		}
	}
}
