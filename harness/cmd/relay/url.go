package main

import (
	"bufio"
	"bytes"
	"context"
	"encoding/json"
	"fmt"
	"net"
	"net/url"
	"strconv"
	"strings"
	"sync"
	"time"

	"github.com/valyala/fasthttp"
	"mosn.io/mosn/pkg/config/v2"
	"mosn.io/mosn/pkg/configmanager"
	_ "mosn.io/mosn/pkg/filter/network/proxy"
	mosnhttp "mosn.io/mosn/pkg/protocol/http"
	"mosn.io/mosn/pkg/router"
	streamhttp "mosn.io/mosn/pkg/stream/http"
	"mosn.io/mosn/pkg/types"
	"mosn.io/pkg/variable"

	. "vh/vhlib"
)

const urlShardHeader = "From MV Require Import Model.UrlBuild.\nFrom Coq Require Import List NArith.\nImport ListNotations.\nOpen Scope N_scope.\n"

// ---------------------------------------------------------------------------------------------
// generators

var segAlphabet = []string{"a", "b", "Z", "0", "9", "-", ".", "_", "~", "!", "$", "&", "'", "(", ")", "*", "+", ",", ";", "=", ":", "@",
	"%2F", "%2f", "%20", "%41", "%7E", "%C3%A9", "%00", "%25", "%3F", "%23", "%2E", "%2e%2e"}

func genSegment(r *Rng) string {
	switch r.Intn(12) {
	case 0:
		return ""
	case 1:
		return "."
	case 2:
		return ".."
	case 3:
		return "%2e"
	}
	var b strings.Builder
	for i, n := 0, 1+r.Intn(5); i < n; i++ {
		b.WriteString(segAlphabet[r.Intn(len(segAlphabet))])
	}
	return b.String()
}

func genQuery(r *Rng) string {
	switch r.Intn(8) {
	case 0:
		return "a=1&b=2"
	case 1:
		return "x=%20y&z=%2F"
	case 2:
		return "?"
	case 3:
		return "a=b?c=/d//e/../f"
	case 4:
		return "="
	case 5:
		return "q=" + genSegment(r) + "&&" + genSegment(r)
	case 6:
		return "+"
	default:
		return genSegment(r) + "=" + genSegment(r)
	}
}

// genTarget returns a request target and its class:
//
//	wf         well-formed origin-form (or "*"): must come back byte for byte
//	wf-emptyq  well-formed, ends in '?' with an empty query
//	malformed  outside RFC 7230 request-target (fragment, raw space / non-ASCII / invalid escape): correspondence only
func genTarget(r *Rng) (string, string) {
	if r.Pct(3) {
		return "*", "wf"
	}
	var b strings.Builder
	n := r.Intn(5)
	b.WriteString("/")
	for i := 0; i < n; i++ {
		b.WriteString(genSegment(r))
		if i < n-1 || r.Pct(30) {
			b.WriteString("/")
		}
	}
	class := "wf"
	if r.Pct(12) {
		// malformed extras
		switch r.Intn(4) {
		case 0:
			b.WriteString("%zz")
		case 1:
			b.WriteString("a b")
		case 2:
			b.WriteString("\xc3\xa9")
		default:
			b.WriteString("%")
		}
		class = "malformed"
	}
	switch r.Intn(10) {
	case 0, 1:
		b.WriteString("?")
		if class == "wf" {
			class = "wf-emptyq"
		}
	case 2, 3, 4, 5:
		b.WriteString("?" + genQuery(r))
	}
	if r.Pct(5) {
		b.WriteString("#frag")
		if r.Bool() {
			b.WriteString("?x")
		}
		class = "malformed"
	}
	return b.String(), class
}

// ---------------------------------------------------------------------------------------------
// hook level

func coqOptBytes(ok bool, b []byte) string {
	if !ok {
		return "None"
	}
	return "(Some " + CoqBytes(b) + ")"
}

func buildWith(path, po, query string, setQuery bool) string {
	ctx := variable.NewVariableContext(context.Background())
	variable.SetString(ctx, types.VarPath, path)
	variable.SetString(ctx, types.VarPathOriginal, po)
	if setQuery {
		variable.SetString(ctx, types.VarQueryString, query)
	}
	return streamhttp.VerifBuildURL(ctx)
}

func urlHookPart(run *Run) {
	r := run.R
	// kind 1: request targets through the real fasthttp parser and the real variable injection
	sh := run.NewShard(urlShardHeader, "tgt_case", "tgt_mismatches")
	fixed := []string{"//x/y?u=http://z/", "/", "/a", "/a?", "/a?b", "/a??", "/a/?", "//", "//a//b", "/a/../b", "/a/./b", "/..", "/a/..", "/%2F", "/a%2Fb/%2e%2e/c", "*", "/*",
		"/a?b#c", "/a#c?b", "/a%20b", "/a+b", "/a;p=1?q", "/%", "/%zz", "/a b", "/?", "/?a=1", "/a/b/../../../c", "/%C3%A9", "/\xc3\xa9", "/a?x=http://h/p"}
	n := run.N(500, 20000)
	for i := 0; i < n+len(fixed); i++ {
		var t, class string
		if i < len(fixed) {
			t = fixed[i]
			class = "fixed"
		} else {
			t, class = genTarget(r)
		}
		var u fasthttp.URI
		if err := u.Parse([]byte("test.local"), []byte(t)); err != nil {
			run.Sum.Distribution["url-hook:parse-error"]++
			continue
		}
		ctx := variable.NewVariableContext(context.Background())
		hdr := mosnhttp.RequestHeader{RequestHeader: &fasthttp.RequestHeader{}}
		hdr.SetMethod("GET")
		streamhttp.VerifInjectCtxVars(ctx, hdr, &u)
		got := streamhttp.VerifBuildURL(ctx)
		po := string(u.PathOriginal())
		unesc, uerr := url.PathUnescape(po)
		normPo := streamhttp.VerifFasthttpPath(po)
		run.Count("t|"+t, strings.ContainsAny(t, "%?") || strings.Contains(t, "//") || strings.Contains(t, ".."), "url-hook:"+class)
		rep := map[string]interface{}{"part": "url-hook", "target": t, "class": class, "path": string(u.Path()), "path_original": po,
			"query": string(u.QueryString()), "rebuilt": got}
		if i%97 == 0 {
			run.Sample(rep)
		}
		urlFinder(run, "hook", t, class, got, rep)
		if strings.HasPrefix(t, "//") && strings.Contains(t, "://") {
			run.Sum.Distribution["url-hook:netpath-misparse(finder-only)"]++
			continue
		}
		sh.Add(fmt.Sprintf("mkTgt %s %s %s %s %s %s %s %s", CoqBytes([]byte(t)), CoqBytes(u.PathOriginal()), CoqBytes(u.QueryString()), CoqBytes(u.Hash()),
			CoqBytes(u.Path()), CoqBytes(normPo), coqOptBytes(uerr == nil, []byte(unesc)), CoqBytes([]byte(got))), rep)
		if sh.Len() >= 400 {
			sh.Close()
			sh = run.NewShard(urlShardHeader, "tgt_case", "tgt_mismatches")
		}
	}
	sh.Close()

	// kind 0: arbitrary (path, pathOriginal, query) - also rewritten paths
	sh0 := run.NewShard(urlShardHeader, "url_case", "url_mismatches")
	for i := 0; i < run.N(300, 10000); i++ {
		t, _ := genTarget(r)
		var u fasthttp.URI
		if u.Parse([]byte("test.local"), []byte(t)) != nil {
			continue
		}
		po := string(u.PathOriginal())
		path := string(u.Path())
		kind := "unrewritten"
		switch r.Intn(6) {
		case 0:
			path = "/rewritten/" + genSegment(r) + " x%6d"
			kind = "rewritten"
		case 1:
			path = "*"
			kind = "star"
		case 2:
			if un, err := url.PathUnescape(po); err == nil {
				path = un
				kind = "unescaped"
			}
		case 3:
			path = ""
			kind = "empty-path"
		}
		if r.Pct(10) {
			po = ""
		}
		query := ""
		setQ := r.Bool()
		if setQ && r.Pct(80) {
			query = genQuery(r)
		}
		got := buildWith(path, po, query, setQ)
		unesc, uerr := url.PathUnescape(po)
		normPo := streamhttp.VerifFasthttpPath(po)
		requri := (&url.URL{Path: path}).RequestURI()
		run.Count(fmt.Sprintf("b|%s|%s|%s", path, po, query), true, "url-build:"+kind)
		rep := map[string]interface{}{"part": "url-build", "kind": kind, "path": path, "path_original": po, "query": query, "query_set": setQ, "rebuilt": got}
		sh0.Add(fmt.Sprintf("mkUrl %s %s %s %s %s %s %s", CoqBytes([]byte(path)), CoqBytes([]byte(po)), CoqBytes([]byte(query)),
			coqOptBytes(uerr == nil, []byte(unesc)), CoqBytes(normPo), CoqBytes([]byte(requri)), CoqBytes([]byte(got))), rep)
		if sh0.Len() >= 400 {
			sh0.Close()
			sh0 = run.NewShard(urlShardHeader, "url_case", "url_mismatches")
		}
	}
	sh0.Close()
}

// urlFinder: the property itself for one request target and the request URI that was forwarded / rebuilt.
func urlFinder(run *Run, where, target, class, got string, rep interface{}) {
	if class == "malformed" || got == target {
		return
	}
	if class == "fixed" {
		// classify the fixed list by the same rule the generator uses
		if strings.ContainsAny(target, "# ") || strings.Contains(target, "%zz") || strings.HasSuffix(target, "%") || !isASCII(target) {
			return
		}
	}
	if strings.HasPrefix(target, "//") && strings.Contains(target, "://") {
		// fasthttp takes a target that starts with "//" and contains "://" somewhere for scheme-less absolute-form
		run.Fail("url:double-slash-target-with-scheme-separator-misparsed", fmt.Sprintf("request target %q is forwarded as %q (%s): fasthttp parses it as //authority/path", target, got, where), rep)
		return
	}
	if strings.HasSuffix(target, "?") && !strings.Contains(target[:len(target)-1], "?") && got == target[:len(target)-1] {
		run.Fail("url:empty-query-question-mark-dropped", fmt.Sprintf("request target %q is forwarded as %q (%s): the '?' of an empty query is dropped", target, got, where), rep)
		return
	}
	run.Fail("url:request-target-not-reproduced:"+where, fmt.Sprintf("request target %q is forwarded as %q (%s)", target, got, where), rep)
}

func isASCII(s string) bool {
	for i := 0; i < len(s); i++ {
		if s[i] >= 0x80 {
			return false
		}
	}
	return true
}

// ---------------------------------------------------------------------------------------------
// end to end: raw client -> real MOSN HTTP/1 proxy listener -> recording raw upstream

type httpUp struct {
	ln  net.Listener
	mu  sync.Mutex
	got []string // request targets in arrival order
}

func newHTTPUp() (*httpUp, error) {
	ln, err := net.Listen("tcp", "127.0.0.1:0")
	if err != nil {
		return nil, err
	}
	h := &httpUp{ln: ln}
	go func() {
		for {
			c, err := ln.Accept()
			if err != nil {
				return
			}
			go h.serve(c)
		}
	}()
	return h, nil
}

func (h *httpUp) serve(c net.Conn) {
	defer c.Close()
	br := bufio.NewReader(c)
	for {
		line, err := br.ReadString('\n')
		if err != nil {
			return
		}
		line = strings.TrimRight(line, "\r\n")
		sp1 := strings.IndexByte(line, ' ')
		sp2 := strings.LastIndexByte(line, ' ')
		target := ""
		if sp1 >= 0 && sp2 > sp1 {
			target = line[sp1+1 : sp2]
		}
		cl := 0
		for {
			l, err := br.ReadString('\n')
			if err != nil {
				return
			}
			l = strings.TrimRight(l, "\r\n")
			if l == "" {
				break
			}
			if i := strings.IndexByte(l, ':'); i > 0 && strings.EqualFold(l[:i], "content-length") {
				cl, _ = strconv.Atoi(strings.TrimSpace(l[i+1:]))
			}
		}
		if cl > 0 {
			if _, err := br.Discard(cl); err != nil {
				return
			}
		}
		h.mu.Lock()
		h.got = append(h.got, target)
		h.mu.Unlock()
		if _, err := c.Write([]byte("HTTP/1.1 200 OK\r\nContent-Length: 2\r\nX-Seen: 1\r\n\r\nok")); err != nil {
			return
		}
	}
}

func (h *httpUp) take() []string {
	h.mu.Lock()
	defer h.mu.Unlock()
	g := h.got
	h.got = nil
	return g
}

type httpEnv struct {
	up   *httpUp
	addr string
}

var theHTTPEnv *httpEnv

func initHTTPEnv(e *env) (*httpEnv, error) {
	if theHTTPEnv != nil {
		return theHTTPEnv, nil
	}
	configmanager.ParseServerConfig(&v2.ServerConfig{})
	up, err := newHTTPUp()
	if err != nil {
		return nil, err
	}
	const clusterName = "relay-http-up"
	if err := e.cm.AddOrUpdateClusterAndHost(v2.Cluster{Name: clusterName, ClusterType: v2.SIMPLE_CLUSTER, LbType: v2.LB_ROUNDROBIN, MaxRequestPerConn: 1024, ConnBufferLimitBytes: 32768},
		[]v2.Host{{HostConfig: v2.HostConfig{Address: up.ln.Addr().String()}}}); err != nil {
		return nil, err
	}
	toMap := func(v interface{}) map[string]interface{} {
		b, _ := json.Marshal(v)
		m := map[string]interface{}{}
		json.Unmarshal(b, &m)
		return m
	}
	route := func(m v2.RouterMatch) v2.Router {
		return v2.Router{RouterConfig: v2.RouterConfig{Match: m, Route: v2.RouteAction{RouterActionConfig: v2.RouterActionConfig{ClusterName: clusterName}}}}
	}
	rc := v2.RouterConfiguration{RouterConfigurationConfig: v2.RouterConfigurationConfig{RouterConfigName: "relay-http-router"},
		VirtualHosts: []v2.VirtualHost{{Name: "all", Domains: []string{"*"}, Routers: []v2.Router{
			route(v2.RouterMatch{Prefix: "/"}),
			route(v2.RouterMatch{Headers: []v2.HeaderMatcher{{Name: "x-relay", Value: ".*", Regex: true}}}),
		}}}}
	px := &v2.Proxy{DownstreamProtocol: "Http1", UpstreamProtocol: "Http1", RouterConfigName: "relay-http-router"}
	il, ta, addr := boundListener()
	lc := &v2.Listener{ListenerConfig: v2.ListenerConfig{Name: "relay-http", AddrConfig: addr, BindToPort: true, Network: "tcp",
		FilterChains: []v2.FilterChain{{FilterChainConfig: v2.FilterChainConfig{Filters: []v2.Filter{
			{Type: "proxy", Config: toMap(px)}}}}}}, Addr: ta, InheritListener: il}
	if err := router.GetRoutersMangerInstance().AddOrUpdateRouters(&rc); err != nil {
		return nil, err
	}
	if _, err := e.handler.AddOrUpdateListener(lc); err != nil {
		return nil, err
	}
	e.handler.StartListeners(context.Background())
	ok := false
	for i := 0; i < 400 && !ok; i++ {
		c, err := net.DialTimeout("tcp", addr, 200*time.Millisecond)
		if err == nil {
			c.Close()
			ok = true
		} else {
			time.Sleep(5 * time.Millisecond)
		}
	}
	if !ok {
		return nil, fmt.Errorf("http listener %s does not accept", addr)
	}
	theHTTPEnv = &httpEnv{up: up, addr: addr}
	return theHTTPEnv, nil
}

// repointHTTPCluster replaces the hosts of the HTTP/1 proxy listener's cluster.
func (e *env) repointHTTPCluster(addr string) error {
	return e.cm.AddOrUpdateClusterAndHost(v2.Cluster{Name: "relay-http-up", ClusterType: v2.SIMPLE_CLUSTER, LbType: v2.LB_ROUNDROBIN, MaxRequestPerConn: 1024, ConnBufferLimitBytes: 32768},
		[]v2.Host{{HostConfig: v2.HostConfig{Address: addr}}})
}

// roundTrip sends one request line with the given target over a fresh or kept connection and returns the status.
type httpClient struct {
	addr string
	c    net.Conn
	br   *bufio.Reader
}

func (hc *httpClient) do(target string) (int, error) {
	for attempt := 0; attempt < 2; attempt++ {
		if hc.c == nil {
			c, err := net.DialTimeout("tcp", hc.addr, 2*time.Second)
			if err != nil {
				return 0, err
			}
			hc.c, hc.br = c, bufio.NewReader(c)
		}
		hc.c.SetDeadline(time.Now().Add(5 * time.Second))
		_, err := hc.c.Write([]byte("GET " + target + " HTTP/1.1\r\nHost: test.local\r\nX-Relay: 1\r\n\r\n"))
		if err == nil {
			var status int
			status, err = readResponse(hc.br)
			if err == nil {
				return status, nil
			}
		}
		hc.c.Close()
		hc.c = nil
		if attempt == 1 {
			return 0, err
		}
	}
	return 0, fmt.Errorf("unreachable")
}

func readResponse(br *bufio.Reader) (int, error) {
	line, err := br.ReadString('\n')
	if err != nil {
		return 0, err
	}
	parts := strings.SplitN(strings.TrimSpace(line), " ", 3)
	if len(parts) < 2 {
		return 0, fmt.Errorf("bad status line %q", line)
	}
	status, _ := strconv.Atoi(parts[1])
	cl := -1
	closeConn := false
	for {
		l, err := br.ReadString('\n')
		if err != nil {
			return 0, err
		}
		l = strings.TrimRight(l, "\r\n")
		if l == "" {
			break
		}
		if i := strings.IndexByte(l, ':'); i > 0 {
			k, v := strings.ToLower(l[:i]), strings.TrimSpace(l[i+1:])
			if k == "content-length" {
				cl, _ = strconv.Atoi(v)
			}
			if k == "connection" && strings.EqualFold(v, "close") {
				closeConn = true
			}
		}
	}
	if cl > 0 {
		if _, err := br.Discard(cl); err != nil {
			return 0, err
		}
	}
	if closeConn {
		return status, fmt.Errorf("connection: close")
	}
	return status, nil
}

func urlE2EPart(run *Run, e *env) error {
	he, err := initHTTPEnv(e)
	if err != nil {
		return err
	}
	r := run.R
	hc := &httpClient{addr: he.addr}
	fixed := []string{"/", "/a", "/a?", "/a?b=1", "//a//b", "/a/../b", "/a/./b/", "/%2F", "/a%2Fb/%2e%2e/c?x=%20", "*", "/a;p=1?q", "/a+b?c+d", "/?", "/a??", "/%C3%A9?%C3%A9"}
	n := run.N(150, 4000)
	for i := 0; i < n+len(fixed); i++ {
		var t, class string
		if i < len(fixed) {
			t, class = fixed[i], "wf"
			if strings.HasSuffix(t, "?") && strings.Count(t, "?") == 1 {
				class = "wf-emptyq"
			}
		} else {
			t, class = genTarget(r)
			if class == "malformed" {
				continue // a raw space or '#' in the request line is not a well-formed message
			}
		}
		sent := t
		if t != "*" && r.Pct(12) {
			// absolute-form (RFC 7230 5.3.2): a proxy forwards the origin-form part; path and query byte for byte
			sent = "http://test.local" + t
			class += "+absolute-form"
		}
		he.up.take()
		status, err := hc.do(sent)
		seen := he.up.take()
		run.Count("e|"+t, strings.ContainsAny(t, "%?") || strings.Contains(t, "//") || strings.Contains(t, ".."), "url-e2e:"+class)
		rep := map[string]interface{}{"part": "url-e2e", "target": sent, "class": class, "status": status, "upstream_saw": seen}
		if i%53 == 0 {
			run.Sample(rep)
		}
		if err != nil && status == 0 {
			run.Fail("url:e2e:no-response", fmt.Sprintf("request target %q: no response through the proxy (%v)", t, err), rep)
			continue
		}
		if len(seen) != 1 {
			run.Fail("url:e2e:not-forwarded", fmt.Sprintf("request target %q: status %d, upstream saw %d requests %q", t, status, len(seen), seen), rep)
			continue
		}
		urlFinder(run, "e2e", t, strings.TrimSuffix(class, "+absolute-form"), seen[0], rep)
	}
	if hc.c != nil {
		hc.c.Close()
	}
	return nil
}

var _ = bytes.Equal
