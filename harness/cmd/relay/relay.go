package main

import (
	"bytes"
	gotls "crypto/tls"
	"fmt"
	"io"
	"net"
	"strings"
	"sync"
	"time"

	"mosn.io/api"
	"mosn.io/pkg/buffer"

	. "vh/vhlib"
)

// ---------------------------------------------------------------------------------------------
// recording read filter: placed in front of the real tcp_proxy filter, sees every OnData of the filter chain and
// (as a connection event listener) every close event of the downstream connection, in order.

type tevGo struct {
	Data  []byte
	Close string // "" = data
}

type traceRec struct {
	mu sync.Mutex
	t  []tevGo
}

func (r *traceRec) OnData(b buffer.IoBuffer) api.FilterStatus {
	r.mu.Lock()
	r.t = append(r.t, tevGo{Data: append([]byte(nil), b.Bytes()...)})
	r.mu.Unlock()
	return api.Continue
}
func (r *traceRec) OnNewConnection() api.FilterStatus                        { return api.Continue }
func (r *traceRec) InitializeReadFilterCallbacks(cb api.ReadFilterCallbacks) {}
func (r *traceRec) OnEvent(ev api.ConnectionEvent) {
	if ev.IsClose() {
		r.mu.Lock()
		r.t = append(r.t, tevGo{Close: string(ev)})
		r.mu.Unlock()
	}
}
func (r *traceRec) snapshot() []tevGo {
	r.mu.Lock()
	defer r.mu.Unlock()
	return append([]tevGo(nil), r.t...)
}

// ---------------------------------------------------------------------------------------------
// Coq printers

func coqCev(s string) (string, bool) {
	switch s {
	case "RemoteClose", "LocalClose", "OnReadErrClose", "OnWriteTimeout":
		return s, true
	}
	return "LocalClose", false
}

func coqCevList(l []string) (string, bool) {
	ok := true
	var xs []string
	for _, s := range l {
		c, k := coqCev(s)
		ok = ok && k
		xs = append(xs, c)
	}
	return CoqList(xs), ok
}

func coqTrace(t []tevGo) (string, bool) {
	ok := true
	var xs []string
	for _, e := range t {
		if e.Close != "" {
			c, k := coqCev(e.Close)
			ok = ok && k
			xs = append(xs, "TClose "+c)
		} else {
			xs = append(xs, "TData "+CoqBytes(e.Data))
		}
	}
	return CoqList(xs), ok
}

type mEvent struct {
	Connect *bool  `json:"connect,omitempty"`
	Side    string `json:"side,omitempty"`
	Data    string `json:"data,omitempty"` // hex
	N       int    `json:"n"`
	Err     string `json:"err,omitempty"`
	Wo      string `json:"wo,omitempty"`
	data    []byte
	wo      []string
}

func (e mEvent) coq() string {
	if e.Connect != nil {
		return "EvConnect " + CoqBool(*e.Connect)
	}
	err := map[string]string{"": "RNone", "nil": "RNone", "eof": "REOF", "timeout": "RTimeout", "reset": "RErr"}[e.Err]
	return fmt.Sprintf("EvRead %s %s %s %s", e.Side, CoqBytes(e.data), err, CoqList(e.wo))
}

func evConnect(ok bool) mEvent { return mEvent{Connect: &ok} }
func evRead(side string, data []byte, err string, wo ...string) mEvent {
	d := data
	if len(d) > 48 {
		d = d[:48]
	}
	return mEvent{Side: side, Data: Hex(d), N: len(data), Err: err, Wo: strings.Join(wo, ","), data: data, wo: wo}
}

func coqEvents(evs []mEvent) string {
	var xs []string
	for _, e := range evs {
		xs = append(xs, e.coq())
	}
	return "[" + strings.Join(xs, ";\n   ") + "]"
}

func coqCase(evs []mEvent, outD, outU []byte, traceD []tevGo, closesU []string, mode int) (string, bool) {
	td, ok1 := coqTrace(traceD)
	cu, ok2 := coqCevList(closesU)
	return fmt.Sprintf("mkCase %s\n  %s\n  %s\n  %s %s %d%%nat", coqEvents(evs), CoqBytes(outD), CoqBytes(outU), td, cu, mode), ok1 && ok2
}

// pattern: byte stream in which every 4-byte window identifies its position (detects loss, reordering, duplication)
func streamBytes(r *Rng, n int) []byte {
	b := make([]byte, n)
	seed := uint32(r.U64())
	for i := range b {
		x := seed + uint32(i)*2654435761
		b[i] = byte(x >> 24)
	}
	return b
}

func isPrefix(p, full []byte) bool { return len(p) <= len(full) && bytes.Equal(p, full[:len(p)]) }

func clip(b []byte) string {
	if len(b) > 32 {
		return Hex(b[:16]) + ".." + Hex(b[len(b)-16:])
	}
	return Hex(b)
}

// ---------------------------------------------------------------------------------------------
// part (a): scripted downstream socket in front of the real read loop and the real tcp_proxy filter

type sop struct {
	Op   string `json:"op"` // dread | usend | uclose | dwplan
	Data string `json:"data,omitempty"`
	N    int    `json:"n,omitempty"`
	Err  string `json:"err,omitempty"` // dread: nil|eof|timeout|reset ; dwplan: timeout|pipe
	K    int    `json:"k,omitempty"`
	data []byte
}

type scriptedResult struct {
	events   []mEvent
	outD     []byte
	outU     []byte
	traceD   []tevGo
	closesU  []string
	fedD     []byte // bytes the downstream socket returned from Read
	sentU    []byte // bytes the upstream peer wrote
	uSawEOF  bool
	dClosed  bool
	problems []string
}

const stepLimit = 10 * time.Second

// settle waits until cond holds (at most d); used where the other read loop finishes a reaction asynchronously
func settle(d time.Duration, cond func() bool) {
	dl := time.Now().Add(d)
	for time.Now().Before(dl) && !cond() {
		time.Sleep(100 * time.Microsecond)
	}
}

// poolChurn cycles MOSN's buffer pools: IoBuffers and byte slices of assorted sizes (around the pool's size classes and
// the connection's scratch sizes) are taken, filled with a marker and given back.  A buffer that the relay handed on while
// the pool (or the read loop) still owns it would now carry the marker.
var churnSizes = []int{1, 63, 64, 65, 127, 128, 129, 1000, 1023, 1024, 1025, 4095, 4096, 4097, 16384, 65535, 65536, 65537, 100000}

func poolChurn(round int) {
	var held []buffer.IoBuffer
	for i, n := range churnSizes {
		b := buffer.GetIoBuffer(n)
		junk := bytes.Repeat([]byte{0xEE}, n)
		b.Write(junk)
		held = append(held, b)
		if (i+round)%3 == 0 {
			p := buffer.GetBytes(n)
			copy(*p, junk)
			buffer.PutBytes(p)
		}
	}
	for _, b := range held {
		buffer.PutIoBuffer(b)
	}
}

func runScripted(e *env, ops []sop, connectFails bool) (*scriptedResult, error) {
	res := &scriptedResult{}
	rec := &evRec{}
	setCurRec(rec)
	defer setCurRec(nil)
	sc := newSconn()
	tr := &traceRec{}
	clusterName := clusterPlain
	if connectFails {
		clusterName = clusterDead
	}
	conn, err := e.newScriptedDownstreamWith(sc, rec, tr, clusterName)
	if err != nil {
		return nil, err
	}
	_ = conn
	res.events = append(res.events, evConnect(!connectFails))
	var u *upConn
	if !connectFails {
		u = e.upPlain.next(stepLimit)
		if u == nil {
			return nil, fmt.Errorf("upstream server saw no connection")
		}
		defer u.c.Close()
		if !sc.waitIdle(stepLimit) {
			res.problems = append(res.problems, "downstream read loop did not start reading")
		}
	}
	var pendingPlan []string // write outcomes planned for the next upstream->downstream delivery
	readLogPos := 0
	flushReads := func(wo []string) {
		// turn what the socket really returned since the last call into model events
		sc.mu.Lock()
		log := sc.rlog[readLogPos:]
		readLogPos = len(sc.rlog)
		sc.mu.Unlock()
		for i, r := range log {
			var w []string
			if i == len(log)-1 {
				w = wo
			}
			res.events = append(res.events, evRead("D", r.data, r.err, w...))
		}
	}
	for opi, op := range ops {
		poolChurn(opi)
		switch op.Op {
		case "dread":
			var rerr error
			switch op.Err {
			case "eof":
				rerr = io.EOF
			case "timeout":
				rerr = timeoutErr{}
			case "reset":
				rerr = errScriptedReset
			}
			if sc.isClosed() {
				continue // the read loop is gone: the model would ignore the event as well, do not record it
			}
			if !sc.feedRead(readRes{data: op.data, err: rerr}, stepLimit) {
				res.problems = append(res.problems, "read loop did not come back after a read result")
			}
			flushReads(nil)
		case "dwplan":
			var werr error = timeoutErr{}
			name := fmt.Sprintf("WTimeout %d", op.K)
			if op.Err == "pipe" {
				werr = errScriptedPipe
				name = fmt.Sprintf("WErr %d", op.K)
			}
			sc.planWrite(writePlan{k: op.K, err: werr})
			pendingPlan = append(pendingPlan, name)
		case "usend":
			if u == nil {
				continue
			}
			before := len(sc.snapshotWritten())
			dWasClosed := sc.isClosed()
			nw0 := sc.writeCalls()
			if _, err := u.c.Write(op.data); err != nil {
				continue // MOSN closed the upstream connection already
			}
			res.sentU = append(res.sentU, op.data...)
			// wait until MOSN has handled these bytes: a write call on the downstream socket, or its close
			dl := time.Now().Add(stepLimit)
			for time.Now().Before(dl) {
				if sc.writeCalls() > nw0 && (len(sc.snapshotWritten())-before >= len(op.data) || len(pendingPlan) > 0) {
					break
				}
				if sc.isClosed() && (dWasClosed || rec.hasClose("D")) {
					break
				}
				time.Sleep(100 * time.Microsecond)
			}
			if len(pendingPlan) > 0 && strings.HasPrefix(pendingPlan[0], "WTimeout") {
				// the time-out closes D, the proxy then flush-closes U: wait for both close events
				settle(stepLimit, func() bool { return rec.hasClose("D") && rec.hasClose("U") })
			}
			time.Sleep(300 * time.Microsecond)
			res.events = append(res.events, evRead("U", op.data, "nil", pendingPlan...))
			pendingPlan = nil
		case "uclose":
			if u == nil {
				continue
			}
			u.c.Close()
			dl := time.Now().Add(stepLimit)
			for time.Now().Before(dl) && !rec.hasClose("U") {
				time.Sleep(100 * time.Microsecond)
			}
			// the proxy flush-closes D on the same goroutine right after U's close event (unless D already holds
			// bytes a failed write left behind and the flush fails again - not generated)
			settle(200*time.Millisecond, func() bool { return sc.isClosed() && rec.hasClose("D") })
			time.Sleep(300 * time.Microsecond)
			res.events = append(res.events, evRead("U", nil, "eof", pendingPlan...))
			pendingPlan = nil
		}
	}
	// end of script: if the downstream connection is still open its peer closes now
	if !sc.isClosed() {
		sc.feedRead(readRes{err: io.EOF}, stepLimit)
		flushReads(nil)
	}
	if u != nil {
		if !u.waitDone(stepLimit) {
			res.problems = append(res.problems, "upstream peer never saw the end of its connection")
		}
		u.mu.Lock()
		res.uSawEOF = u.eof
		u.mu.Unlock()
		res.outU = u.received()
	}
	// let the closing goroutines finish their callbacks
	dl := time.Now().Add(stepLimit)
	for time.Now().Before(dl) && !(rec.hasClose("D") && (u == nil || rec.hasClose("U"))) {
		time.Sleep(100 * time.Microsecond)
	}
	time.Sleep(300 * time.Microsecond)
	res.outD = sc.snapshotWritten()
	res.traceD = tr.snapshot()
	res.closesU = rec.of("U")
	res.dClosed = sc.isClosed()
	sc.mu.Lock()
	res.fedD = append([]byte(nil), sc.readsIn...)
	sc.mu.Unlock()
	return res, nil
}

// ---------------------------------------------------------------------------------------------
// part (b): real sockets through a real tcp_proxy listener (server.NewHandler)

type peer interface {
	io.ReadWriter
	Close() error
}

type e2eSpec struct {
	Mode     string `json:"mode"`     // c2u | u2c | bidir | pingpong
	Listener string `json:"listener"` // plain | tlsup | tlsdown
	Closer   string `json:"closer"`   // client | upstream
	CChunks  []int  `json:"client_chunks"`
	UChunks  []int  `json:"upstream_chunks"`
	Coalesce bool   `json:"last_write_with_close"` // TLS peer: last record + close_notify in one segment
}

type e2eResult struct {
	cSent, uSent   []byte
	cGot, uGot     []byte
	cEOF, uEOF     bool
	closesU        []string
	problems       []string
	events         []mEvent
	cErr, uErrText string
}

func readAll(c io.Reader, into *[]byte, mu *sync.Mutex) (clean bool) {
	buf := make([]byte, 32<<10)
	for {
		n, err := c.Read(buf)
		mu.Lock()
		*into = append(*into, buf[:n]...)
		mu.Unlock()
		if err != nil {
			return err == io.EOF
		}
	}
}

func runE2E(e *env, sp e2eSpec, r *Rng) (*e2eResult, error) {
	res := &e2eResult{}
	rec := &evRec{}
	setCurRec(rec)
	defer setCurRec(nil)
	addr, up := e.lnPlain, e.upPlain
	switch sp.Listener {
	case "tlsup":
		addr, up = e.lnTLSUp, e.upTLS
	case "tlsdown":
		addr = e.lnTLSDown
	}
	raw, err := net.DialTimeout("tcp", addr, 2*time.Second)
	if err != nil {
		return nil, err
	}
	var cli net.Conn = raw
	var cliTLS *tlsPeer
	if sp.Listener == "tlsdown" {
		cc := &coalesceConn{Conn: raw}
		tc := gotls.Client(cc, e.cliTLS)
		raw.SetDeadline(time.Now().Add(5 * time.Second))
		if err := tc.Handshake(); err != nil {
			raw.Close()
			return nil, fmt.Errorf("client tls handshake: %v", err)
		}
		raw.SetDeadline(time.Time{})
		cliTLS = &tlsPeer{Conn: tc, cc: cc}
		cli = tc
	}
	defer raw.Close()
	u := up.next(stepLimit)
	if u == nil {
		return nil, fmt.Errorf("upstream server saw no connection (%s)", sp.Listener)
	}
	defer u.c.Close()
	var upTLS *tlsPeer
	if p, ok := u.c.(*tlsPeer); ok {
		upTLS = p
	}
	var cmu sync.Mutex
	cDone := make(chan bool, 1)
	go func() { cDone <- readAll(cli, &res.cGot, &cmu) }()
	cLen := func() int { cmu.Lock(); defer cmu.Unlock(); return len(res.cGot) }

	mk := func(chunks []int) [][]byte {
		var out [][]byte
		for _, n := range chunks {
			out = append(out, streamBytes(r, n))
		}
		return out
	}
	cChunks, uChunks := mk(sp.CChunks), mk(sp.UChunks)
	total := func(cs [][]byte) (n int) {
		for _, c := range cs {
			n += len(c)
		}
		return
	}
	// writer: all chunks; if this side is the closer, the last chunk goes out together with the close
	send := func(w io.Writer, tp *tlsPeer, chunks [][]byte, closer bool, waitFor func() bool, closeFn func(), sent *[]byte) {
		for i, c := range chunks {
			last := i == len(chunks)-1
			if last && closer {
				if waitFor != nil && !waitFor() {
					res.problems = append(res.problems, "closer did not receive the other side's bytes in time")
				}
				*sent = append(*sent, c...)
				if tp != nil && sp.Coalesce {
					tp.writeAndClose(c)
				} else {
					w.Write(c)
					closeFn()
				}
				return
			}
			if _, err := w.Write(c); err != nil {
				return
			}
			*sent = append(*sent, c...)
		}
		if closer {
			if waitFor != nil && !waitFor() {
				res.problems = append(res.problems, "closer did not receive the other side's bytes in time")
			}
			if tp != nil && sp.Coalesce {
				tp.writeAndClose(nil)
			} else {
				closeFn()
			}
		}
	}
	waitC := func() bool { // client has everything the upstream sends
		dl := time.Now().Add(stepLimit)
		for time.Now().Before(dl) {
			if cLen() >= total(uChunks) {
				return true
			}
			time.Sleep(100 * time.Microsecond)
		}
		return false
	}
	waitU := func() bool { return u.waitLen(total(cChunks), stepLimit) }
	var wg sync.WaitGroup
	clientCloses := sp.Closer == "client"
	run1 := func(f func()) { wg.Add(1); go func() { defer wg.Done(); f() }() }
	cSend := func() {
		var wf func() bool
		if clientCloses && len(uChunks) > 0 {
			wf = waitC
		}
		send(cli, cliTLS, cChunks, clientCloses, wf, func() { cli.Close() }, &res.cSent)
	}
	uSend := func() {
		var wf func() bool
		if !clientCloses && len(cChunks) > 0 {
			wf = waitU
		}
		send(u.c, upTLS, uChunks, !clientCloses, wf, func() { u.c.Close() }, &res.uSent)
	}
	switch sp.Mode {
	case "pingpong":
		// strictly alternating messages, the closer sends the last one
		n := len(cChunks)
		if len(uChunks) < n {
			n = len(uChunks)
		}
		okAll := true
		for i := 0; i < n && okAll; i++ {
			cli.Write(cChunks[i])
			res.cSent = append(res.cSent, cChunks[i]...)
			okAll = u.waitLen(len(res.cSent), stepLimit)
			if !okAll {
				break
			}
			lastU := i == n-1 && !clientCloses
			if lastU {
				res.uSent = append(res.uSent, uChunks[i]...)
				if upTLS != nil && sp.Coalesce {
					upTLS.writeAndClose(uChunks[i])
				} else {
					u.c.Write(uChunks[i])
					u.c.Close()
				}
			} else {
				u.c.Write(uChunks[i])
				res.uSent = append(res.uSent, uChunks[i]...)
				dl := time.Now().Add(stepLimit)
				for time.Now().Before(dl) && cLen() < len(res.uSent) {
					time.Sleep(100 * time.Microsecond)
				}
				okAll = cLen() >= len(res.uSent)
			}
		}
		if !okAll {
			res.problems = append(res.problems, "ping-pong message not relayed in time")
		}
		if clientCloses {
			if cliTLS != nil && sp.Coalesce {
				cliTLS.writeAndClose(nil)
			} else {
				cli.Close()
			}
		}
	default:
		run1(cSend)
		run1(uSend)
		wg.Wait()
	}
	// both ends must now see the end of their connection
	if !u.waitDone(stepLimit) {
		res.problems = append(res.problems, "upstream peer never saw the end of its connection")
	}
	select {
	case clean := <-cDone:
		res.cEOF = clean
	case <-time.After(stepLimit):
		res.problems = append(res.problems, "client never saw the end of its connection")
	}
	u.mu.Lock()
	res.uEOF = u.eof
	if u.rerr != nil {
		res.uErrText = u.rerr.Error()
	}
	u.mu.Unlock()
	res.uGot = u.received()
	dl := time.Now().Add(stepLimit)
	for time.Now().Before(dl) && !rec.hasClose("U") {
		time.Sleep(100 * time.Microsecond)
	}
	res.closesU = rec.of("U")
	// model events: the streams as written (the kernel's chunking does not change the final observables)
	res.events = append(res.events, evConnect(true))
	if len(res.cSent) > 0 {
		res.events = append(res.events, evRead("D", res.cSent, "nil"))
	}
	if len(res.uSent) > 0 {
		res.events = append(res.events, evRead("U", res.uSent, "nil"))
	}
	if clientCloses {
		res.events = append(res.events, evRead("D", nil, "eof"))
	} else {
		res.events = append(res.events, evRead("U", nil, "eof"))
	}
	return res, nil
}

// ---------------------------------------------------------------------------------------------
// part (c): several relayed connections through the SAME listener / filter factory at the same time: every session must
// behave as if it were alone (no byte of one session in another one, nothing lost), whatever the others do

type parSession struct {
	Closer                   string `json:"closer"` // client | upstream | both
	CLen                     int    `json:"client_bytes"`
	ULen                     int    `json:"upstream_bytes"`
	cSent, uSent, cGot, uGot []byte
	Problem                  string `json:"problem,omitempty"`
}

func runParallel(e *env, r *Rng, p int) ([]*parSession, error) {
	type pair struct {
		cli net.Conn
		up  *upConn
		s   *parSession
		rng *Rng
	}
	var pairs []*pair
	for i := 0; i < p; i++ {
		cli, err := net.DialTimeout("tcp", e.lnPlain, 2*time.Second)
		if err != nil {
			return nil, err
		}
		u := e.upPlain.next(stepLimit)
		if u == nil {
			cli.Close()
			return nil, fmt.Errorf("upstream server saw no connection (parallel)")
		}
		s := &parSession{Closer: []string{"client", "upstream", "both"}[r.Intn(3)]}
		s.cSent, s.uSent = streamBytes(r, 1+r.Intn(6000)), streamBytes(r, 1+r.Intn(6000))
		if r.Pct(15) {
			s.cSent = streamBytes(r, 60000+r.Intn(80000))
		}
		s.CLen, s.ULen = len(s.cSent), len(s.uSent)
		pairs = append(pairs, &pair{cli: cli, up: u, s: s, rng: NewRng(r.U64())})
	}
	var wg sync.WaitGroup
	for _, pr := range pairs {
		wg.Add(1)
		go func(pr *pair) {
			defer wg.Done()
			s := pr.s
			var mu sync.Mutex
			cDone := make(chan bool, 1)
			go func() { cDone <- readAll(pr.cli, &s.cGot, &mu) }()
			writeChunks := func(w io.Writer, b []byte, rg *Rng) {
				for off := 0; off < len(b); {
					n := 1 + rg.Intn(700)
					if off+n > len(b) {
						n = len(b) - off
					}
					if _, err := w.Write(b[off : off+n]); err != nil {
						return
					}
					off += n
				}
			}
			var ww sync.WaitGroup
			ww.Add(2)
			rg1, rg2 := NewRng(pr.rng.U64()), NewRng(pr.rng.U64())
			go func() { defer ww.Done(); writeChunks(pr.cli, s.cSent, rg1) }()
			go func() { defer ww.Done(); writeChunks(pr.up.c, s.uSent, rg2) }()
			ww.Wait()
			// each side waits for the other side's stream, then the closer(s) close
			if !pr.up.waitLen(len(s.cSent), stepLimit) {
				s.Problem = "the upstream did not receive the client's stream in time"
			}
			settle(stepLimit, func() bool { mu.Lock(); defer mu.Unlock(); return len(s.cGot) >= len(s.uSent) })
			switch s.Closer {
			case "client":
				pr.cli.Close()
			case "upstream":
				pr.up.c.Close()
			default:
				var cw sync.WaitGroup
				cw.Add(2)
				go func() { defer cw.Done(); pr.cli.Close() }()
				go func() { defer cw.Done(); pr.up.c.Close() }()
				cw.Wait()
			}
			if !pr.up.waitDone(stepLimit) && s.Problem == "" {
				s.Problem = "the upstream peer never saw the end of its connection"
			}
			select {
			case <-cDone:
			case <-time.After(stepLimit):
				if s.Problem == "" {
					s.Problem = "the client never saw the end of its connection"
				}
			}
			mu.Lock()
			s.cGot = append([]byte(nil), s.cGot...)
			mu.Unlock()
			s.uGot = pr.up.received()
			pr.cli.Close()
			pr.up.c.Close()
		}(pr)
	}
	wg.Wait()
	var out []*parSession
	for _, pr := range pairs {
		out = append(out, pr.s)
	}
	return out, nil
}

// ---------------------------------------------------------------------------------------------
// part (d): the write deadline.  (1) probes on the scripted socket: the deadline armed for every Write of the connection;
// (2) a busy receiver: a small write, a pause d1, a burst larger than the kernel buffers while the receiver does not read for
// d2 < W (the write time-out), d1 + d2 > W: the relay only has to stay blocked in the write for a while.

type dlProbe struct {
	StartMs    []int64 `json:"write_start_ms"`
	DeadlineMs []int64 `json:"deadline_ms"` // relative to the first write
	PausesMs   []int   `json:"pauses_ms"`
}

func runDeadlineProbe(e *env, r *Rng) (*dlProbe, error) {
	rec := &evRec{}
	setCurRec(rec)
	defer setCurRec(nil)
	sc := newSconn()
	if _, err := e.newScriptedDownstreamWith(sc, rec, nil, clusterPlain); err != nil {
		return nil, err
	}
	u := e.upPlain.next(stepLimit)
	if u == nil {
		return nil, fmt.Errorf("upstream server saw no connection (probe)")
	}
	defer u.c.Close()
	sc.waitIdle(stepLimit)
	p := &dlProbe{}
	n := 2 + r.Intn(2)
	for i := 0; i < n; i++ {
		if i > 0 {
			ms := 40 + r.Intn(50)
			p.PausesMs = append(p.PausesMs, ms)
			time.Sleep(time.Duration(ms) * time.Millisecond)
		}
		nw := sc.writeCalls()
		u.c.Write(streamBytes(r, 1+r.Intn(40)))
		settle(stepLimit, func() bool { return sc.writeCalls() > nw })
	}
	u.c.Close()
	settle(stepLimit, func() bool { return sc.isClosed() })
	wl := sc.writeLog()
	if len(wl) == 0 {
		return nil, fmt.Errorf("the probe saw no write")
	}
	t0 := wl[0].at
	for _, w := range wl {
		p.StartMs = append(p.StartMs, w.at.Sub(t0).Milliseconds())
		if w.deadline.IsZero() {
			p.DeadlineMs = append(p.DeadlineMs, -1)
		} else {
			p.DeadlineMs = append(p.DeadlineMs, w.deadline.Sub(t0).Milliseconds())
		}
	}
	return p, nil
}

type stallSpec struct {
	Dir     string `json:"direction"` // c2u: the upstream is the busy receiver; u2c: the client
	WMs     int    `json:"write_timeout_ms"`
	D1Ms    int    `json:"pause_before_burst_ms"`
	D2Ms    int    `json:"receiver_busy_ms"`
	BurstMB int    `json:"burst_mb"`
}
type stallResult struct {
	Want          int    `json:"bytes_sent"`
	Got           int    `json:"bytes_received"`
	AtStallEnd    int    `json:"bytes_received_when_the_receiver_resumed"`
	CleanEnd      bool   `json:"receiver_saw_clean_end"`
	ContentOK     bool   `json:"received_is_prefix_of_sent"`
	UpstreamClose string `json:"upstream_close_events"`
	Problem       string `json:"problem,omitempty"`
}

func runStall(e *env, sp stallSpec) (*stallResult, error) {
	res := &stallResult{}
	rec := &evRec{}
	setCurRec(rec)
	defer setCurRec(nil)
	raw, err := net.DialTimeout("tcp", e.lnPlain, 2*time.Second)
	if err != nil {
		return nil, err
	}
	defer raw.Close()
	u := e.upPlain.next(stepLimit)
	if u == nil {
		return nil, fmt.Errorf("upstream server saw no connection (stall)")
	}
	defer u.c.Close()
	first := []byte("hello")
	burst := make([]byte, sp.BurstMB<<20)
	for i := range burst {
		burst[i] = byte(i*7 + i>>11)
	}
	want := append(append([]byte(nil), first...), burst...)
	res.Want = len(want)
	d1, d2 := time.Duration(sp.D1Ms)*time.Millisecond, time.Duration(sp.D2Ms)*time.Millisecond
	var sender, receiver net.Conn
	if sp.Dir == "c2u" {
		sender, receiver = raw, u.c
	} else {
		sender, receiver = u.c, raw
	}
	if tc, ok := receiver.(*net.TCPConn); ok {
		tc.SetReadBuffer(32 << 10) // a small receive window: the relay's write has to wait for the receiver
	}
	// the receiving end
	var got []byte
	var gmu sync.Mutex
	count := func() int { gmu.Lock(); defer gmu.Unlock(); return len(got) }
	recvDone := make(chan bool, 1)
	var resume time.Time
	var rmu sync.Mutex
	if sp.Dir == "c2u" {
		// u.reader is already reading: it is stalled through stallUntil
	} else {
		go func() {
			buf := make([]byte, 64<<10)
			for {
				rmu.Lock()
				st := resume
				rmu.Unlock()
				if d := time.Until(st); d > 0 {
					time.Sleep(d)
					continue
				}
				n, err := raw.Read(buf)
				gmu.Lock()
				got = append(got, buf[:n]...)
				gmu.Unlock()
				if err != nil {
					recvDone <- err == io.EOF
					return
				}
			}
		}()
	}
	received := func() int {
		if sp.Dir == "c2u" {
			return u.count()
		}
		return count()
	}
	if _, err := sender.Write(first); err != nil {
		return nil, err
	}
	settle(stepLimit, func() bool { return received() >= len(first) })
	t0 := time.Now()
	busyUntil := t0.Add(d1 + d2)
	if sp.Dir == "c2u" {
		u.stall(busyUntil)
	} else {
		rmu.Lock()
		resume = busyUntil
		rmu.Unlock()
		// wake the reader out of a pending Read so that it notices the stall: it is blocked in Read with nothing to
		// read, which is fine - it reads nothing until the burst arrives; the burst's first bytes may slip through
	}
	time.Sleep(time.Until(t0.Add(d1)))
	sendDone := make(chan struct{})
	go func() {
		defer close(sendDone)
		sender.Write(burst)
		if tc, ok := sender.(*net.TCPConn); ok {
			tc.CloseWrite()
		} else {
			sender.Close()
		}
	}()
	time.Sleep(time.Until(busyUntil))
	res.AtStallEnd = received()
	// the receiver resumes; everything must arrive, then the end of the stream
	limit := stepLimit + time.Duration(sp.WMs)*time.Millisecond
	if sp.Dir == "c2u" {
		if !u.waitDone(limit) {
			res.Problem = "the receiver never saw the end of the stream"
		}
		u.mu.Lock()
		res.CleanEnd = u.eof
		res.Got = len(u.got)
		res.ContentOK = isPrefix(u.got, want)
		u.mu.Unlock()
	} else {
		select {
		case clean := <-recvDone:
			res.CleanEnd = clean
		case <-time.After(limit):
			res.Problem = "the receiver never saw the end of the stream"
		}
		gmu.Lock()
		res.Got = len(got)
		res.ContentOK = isPrefix(got, want)
		gmu.Unlock()
	}
	raw.Close()
	u.c.Close()
	select {
	case <-sendDone:
	case <-time.After(limit):
	}
	res.UpstreamClose = strings.Join(rec.of("U"), ",")
	return res, nil
}
