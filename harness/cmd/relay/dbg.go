package main

import (
	"fmt"
	"os"
	"time"

	. "vh/vhlib"
)

func dbg(args []string) int {
	e, err := initEnv()
	if err != nil {
		fmt.Println(err)
		return 2
	}
	r := NewRng(7)
	for _, sp := range []e2eSpec{
		{Mode: "u2c", Listener: "tlsup", Closer: "upstream", UChunks: []int{10, 20}, Coalesce: true},
		{Mode: "u2c", Listener: "tlsup", Closer: "upstream", UChunks: []int{10, 20}, Coalesce: false},
		{Mode: "c2u", Listener: "tlsdown", Closer: "client", CChunks: []int{10, 20}, Coalesce: true},
		{Mode: "bidir", Listener: "tlsup", Closer: "upstream", CChunks: []int{5}, UChunks: []int{10, 70000}, Coalesce: true},
	} {
		t0 := time.Now()
		res, err := runE2E(e, sp, r)
		fmt.Fprintln(os.Stderr, sp, err, time.Since(t0))
		if res != nil {
			fmt.Fprintln(os.Stderr, " csent", len(res.cSent), "ugot", len(res.uGot), "usent", len(res.uSent), "cgot", len(res.cGot), res.closesU, res.problems, res.cEOF, res.uEOF, res.uErrText)
		}
	}
	return 0
}
