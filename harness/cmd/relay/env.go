package main

import (
	"context"
	"crypto/ecdsa"
	"crypto/elliptic"
	"crypto/rand"
	gotls "crypto/tls"
	"crypto/x509"
	"crypto/x509/pkix"
	"encoding/pem"
	"fmt"
	"math/big"
	"net"
	"sync"
	"time"

	"mosn.io/api"
	"mosn.io/mosn/pkg/config/v2"
	_ "mosn.io/mosn/pkg/filter/network/streamproxy"
	"mosn.io/mosn/pkg/log"
	"mosn.io/mosn/pkg/network"
	"mosn.io/mosn/pkg/server"
	"mosn.io/mosn/pkg/types"
	"mosn.io/mosn/pkg/upstream/cluster"
	"mosn.io/pkg/variable"
)

// ---------------------------------------------------------------------------------------------
// recording of connection close events (listener added to the real connection objects)

type evRec struct {
	mu  sync.Mutex
	seq []string // "D:RemoteClose", "U:LocalClose", ... in the order the callbacks ran
}

func (e *evRec) add(side string, ev api.ConnectionEvent) {
	if !ev.IsClose() {
		return
	}
	e.mu.Lock()
	e.seq = append(e.seq, side+":"+string(ev))
	e.mu.Unlock()
}
func (e *evRec) of(side string) []string {
	e.mu.Lock()
	defer e.mu.Unlock()
	var out []string
	for _, s := range e.seq {
		if s[:1] == side {
			out = append(out, s[2:])
		}
	}
	return out
}
func (e *evRec) hasClose(side string) bool { return len(e.of(side)) > 0 }
func (e *evRec) all() []string {
	e.mu.Lock()
	defer e.mu.Unlock()
	return append([]string(nil), e.seq...)
}

type sideListener struct {
	side string
	rec  *evRec
}

func (l *sideListener) OnEvent(ev api.ConnectionEvent) { l.rec.add(l.side, ev) }

// the recorder the next upstream client connection is attached to (cases run one after the other)
var curRec struct {
	mu  sync.Mutex
	rec *evRec
}

func setCurRec(r *evRec) {
	curRec.mu.Lock()
	curRec.rec = r
	curRec.mu.Unlock()
}

// ---------------------------------------------------------------------------------------------
// upstream: a recording TCP server under the harness' control

type upConn struct {
	c          net.Conn
	mu         sync.Mutex
	got        []byte
	eof        bool  // the read side saw a clean EOF
	rerr       error // any other read error
	done       chan struct{}
	stallUntil time.Time // the reader does not read before this moment (a busy receiver)
}

func (u *upConn) stall(t time.Time) {
	u.mu.Lock()
	u.stallUntil = t
	u.mu.Unlock()
}
func (u *upConn) count() int {
	u.mu.Lock()
	defer u.mu.Unlock()
	return len(u.got)
}

func (u *upConn) reader() {
	buf := make([]byte, 64<<10)
	for {
		u.mu.Lock()
		st := u.stallUntil
		u.mu.Unlock()
		if d := time.Until(st); d > 0 {
			time.Sleep(d)
			continue
		}
		n, err := u.c.Read(buf)
		u.mu.Lock()
		u.got = append(u.got, buf[:n]...)
		if err != nil {
			if err.Error() == "EOF" {
				u.eof = true
			} else {
				u.rerr = err
			}
			u.mu.Unlock()
			close(u.done)
			return
		}
		u.mu.Unlock()
	}
}
func (u *upConn) received() []byte {
	u.mu.Lock()
	defer u.mu.Unlock()
	return append([]byte(nil), u.got...)
}
func (u *upConn) waitLen(n int, limit time.Duration) bool {
	dl := time.Now().Add(limit)
	for time.Now().Before(dl) {
		u.mu.Lock()
		l := len(u.got)
		u.mu.Unlock()
		if l >= n {
			return true
		}
		select {
		case <-u.done:
			u.mu.Lock()
			l = len(u.got)
			u.mu.Unlock()
			return l >= n
		case <-time.After(200 * time.Microsecond):
		}
	}
	return false
}
func (u *upConn) waitDone(limit time.Duration) bool {
	select {
	case <-u.done:
		return true
	case <-time.After(limit):
		return false
	}
}

type upServer struct {
	ln     net.Listener
	accept chan *upConn
	tls    bool
}

// coalesceConn buffers Writes while `hold` is set and sends them as ONE write on flush: used under a TLS server so
// that the last application-data record and close_notify reach the peer in one segment.
type coalesceConn struct {
	net.Conn
	mu   sync.Mutex
	hold bool
	buf  []byte
}

func (c *coalesceConn) Write(b []byte) (int, error) {
	c.mu.Lock()
	if c.hold {
		c.buf = append(c.buf, b...)
		c.mu.Unlock()
		return len(b), nil
	}
	c.mu.Unlock()
	return c.Conn.Write(b)
}

// crypto/tls sets an expired write deadline after close_notify ("any subsequent writes will fail"); the held bytes
// still have to go out
func (c *coalesceConn) SetWriteDeadline(t time.Time) error { return nil }
func (c *coalesceConn) setHold(h bool) {
	c.mu.Lock()
	c.hold = h
	c.mu.Unlock()
}
func (c *coalesceConn) flush() error {
	c.mu.Lock()
	b := c.buf
	c.buf = nil
	c.hold = false
	c.mu.Unlock()
	if len(b) == 0 {
		return nil
	}
	_, err := c.Conn.Write(b)
	return err
}

func newUpServer(tlsCfg *gotls.Config) (*upServer, error) {
	ln, err := net.Listen("tcp", "127.0.0.1:0")
	if err != nil {
		return nil, err
	}
	s := &upServer{ln: ln, accept: make(chan *upConn, 64), tls: tlsCfg != nil}
	go func() {
		for {
			c, err := ln.Accept()
			if err != nil {
				return
			}
			go func(c net.Conn) {
				u := &upConn{done: make(chan struct{})}
				if tlsCfg != nil {
					cc := &coalesceConn{Conn: c}
					tc := gotls.Server(cc, tlsCfg)
					c.SetDeadline(time.Now().Add(5 * time.Second))
					if err := tc.Handshake(); err != nil {
						c.Close()
						return
					}
					c.SetDeadline(time.Time{})
					u.c = &tlsPeer{Conn: tc, cc: cc}
				} else {
					u.c = c
				}
				go u.reader()
				s.accept <- u
			}(c)
		}
	}()
	return s, nil
}

// tlsPeer: a TLS peer whose final write can be sent together with close_notify in one TCP write.
type tlsPeer struct {
	*gotls.Conn
	cc *coalesceConn
}

// writeAndClose sends b and close_notify in ONE write of the underlying socket, then closes the socket.
func (p *tlsPeer) writeAndClose(b []byte) error {
	p.cc.setHold(true)
	if len(b) > 0 {
		if _, err := p.Conn.Write(b); err != nil {
			return err
		}
	}
	p.Conn.CloseWrite() // queues close_notify
	if err := p.cc.flush(); err != nil {
		return err
	}
	return p.cc.Conn.Close()
}

func (s *upServer) next(limit time.Duration) *upConn {
	select {
	case u := <-s.accept:
		return u
	case <-time.After(limit):
		return nil
	}
}

// ---------------------------------------------------------------------------------------------
// MOSN side

const (
	clusterPlain = "relay-up-plain"
	clusterTLS   = "relay-up-tls"
	clusterDead  = "relay-up-dead" // its only host refuses connections
)

type env struct {
	cm        types.ClusterManager
	upPlain   *upServer
	upTLS     *upServer
	handler   types.ConnectionHandler
	lnPlain   string // address of the real tcp_proxy listener -> plain upstream
	lnTLSUp   string // real tcp_proxy listener -> TLS upstream
	lnTLSDown string // real TLS tcp_proxy listener -> plain upstream
	certPEM   string
	keyPEM    string
	cliTLS    *gotls.Config
}

var theEnv *env

func selfSigned() (certPEM, keyPEM string, cert gotls.Certificate, err error) {
	key, err := ecdsa.GenerateKey(elliptic.P256(), rand.Reader)
	if err != nil {
		return
	}
	tpl := &x509.Certificate{SerialNumber: big.NewInt(1), Subject: pkix.Name{CommonName: "vh-relay"},
		NotBefore: time.Now().Add(-time.Hour), NotAfter: time.Now().Add(24 * time.Hour),
		KeyUsage: x509.KeyUsageDigitalSignature | x509.KeyUsageCertSign, ExtKeyUsage: []x509.ExtKeyUsage{x509.ExtKeyUsageServerAuth},
		IsCA: true, BasicConstraintsValid: true, DNSNames: []string{"vh-relay"}, IPAddresses: []net.IP{net.IPv4(127, 0, 0, 1)}}
	der, err := x509.CreateCertificate(rand.Reader, tpl, tpl, &key.PublicKey, key)
	if err != nil {
		return
	}
	kb, err := x509.MarshalECPrivateKey(key)
	if err != nil {
		return
	}
	certPEM = string(pem.EncodeToMemory(&pem.Block{Type: "CERTIFICATE", Bytes: der}))
	keyPEM = string(pem.EncodeToMemory(&pem.Block{Type: "EC PRIVATE KEY", Bytes: kb}))
	cert, err = gotls.X509KeyPair([]byte(certPEM), []byte(keyPEM))
	return
}

// boundListener binds a loopback port NOW and returns it for v2.Listener.InheritListener, so that nobody else can take
// the port between choosing it and MOSN's listener start (many checks run on this machine at the same time).
func boundListener() (net.Listener, *net.TCPAddr, string) {
	l, err := net.Listen("tcp", "127.0.0.1:0")
	if err != nil {
		panic(err)
	}
	ta := l.Addr().(*net.TCPAddr)
	return l, ta, ta.String()
}

func freeAddr() string {
	l, err := net.Listen("tcp", "127.0.0.1:0")
	if err != nil {
		panic(err)
	}
	a := l.Addr().String()
	l.Close()
	return a
}

type noopCMF struct{}

func (noopCMF) OnCreated(cccb types.ClusterConfigFactoryCb, chcb types.ClusterHostFactoryCb) {}

func initEnv() (*env, error) {
	if theEnv != nil {
		return theEnv, nil
	}
	log.DefaultLogger.SetLogLevel(log.FATAL)
	log.StartLogger.SetLogLevel(log.FATAL)
	log.Proxy.SetLogLevel(log.FATAL)
	e := &env{}
	certPEM, keyPEM, cert, err := selfSigned()
	if err != nil {
		return nil, err
	}
	e.certPEM, e.keyPEM = certPEM, keyPEM
	e.cliTLS = &gotls.Config{InsecureSkipVerify: true, MinVersion: gotls.VersionTLS12, MaxVersion: gotls.VersionTLS12}
	if e.upPlain, err = newUpServer(nil); err != nil {
		return nil, err
	}
	if e.upTLS, err = newUpServer(&gotls.Config{Certificates: []gotls.Certificate{cert}, MinVersion: gotls.VersionTLS12, MaxVersion: gotls.VersionTLS12}); err != nil {
		return nil, err
	}
	// every upstream client connection MOSN creates reports its close events to the current case
	orig := network.GetClientConnFactory()
	network.RegisterClientConnFactory(func(connectTimeout time.Duration, tlsMng types.TLSClientContextManager, remoteAddr net.Addr, stopChan chan struct{}) types.ClientConnection {
		cc := orig(connectTimeout, tlsMng, remoteAddr, stopChan)
		curRec.mu.Lock()
		r := curRec.rec
		curRec.mu.Unlock()
		if r != nil {
			cc.AddConnectionEventListener(&sideListener{side: "U", rec: r})
		}
		if h := getAcctHooks(); h != nil {
			h.onCreate(cc)
		}
		return cc
	})
	e.cm = cluster.NewClusterManagerSingleton(nil, nil, nil)
	if err := e.cm.AddOrUpdateClusterAndHost(v2.Cluster{Name: clusterPlain, ClusterType: v2.SIMPLE_CLUSTER, LbType: v2.LB_RANDOM, ConnBufferLimitBytes: 32768},
		[]v2.Host{{HostConfig: v2.HostConfig{Address: e.upPlain.ln.Addr().String()}}}); err != nil {
		return nil, err
	}
	if err := e.cm.AddOrUpdateClusterAndHost(v2.Cluster{Name: clusterTLS, ClusterType: v2.SIMPLE_CLUSTER, LbType: v2.LB_RANDOM, ConnBufferLimitBytes: 32768,
		TLS: v2.TLSConfig{Status: true, InsecureSkip: true, MaxVersion: "TLSv1_2"}},
		[]v2.Host{{HostConfig: v2.HostConfig{Address: e.upTLS.ln.Addr().String()}}}); err != nil {
		return nil, err
	}
	if err := e.cm.AddOrUpdateClusterAndHost(v2.Cluster{Name: clusterDead, ClusterType: v2.SIMPLE_CLUSTER, LbType: v2.LB_RANDOM, ConnBufferLimitBytes: 32768},
		[]v2.Host{{HostConfig: v2.HostConfig{Address: "127.0.0.1:1"}}}); err != nil {
		return nil, err
	}
	// real listeners
	e.handler = server.NewHandler(noopCMF{}, e.cm)
	mk := func(name, clusterName string, tls *v2.TLSConfig) (string, error) {
		il, ta, addr := boundListener()
		fc := v2.FilterChain{FilterChainConfig: v2.FilterChainConfig{Filters: []v2.Filter{{Type: v2.TCP_PROXY, Config: map[string]interface{}{"cluster": clusterName}}}}}
		if tls != nil {
			fc.TLSContexts = []v2.TLSConfig{*tls}
		}
		lc := &v2.Listener{ListenerConfig: v2.ListenerConfig{Name: name, AddrConfig: addr, BindToPort: true, Network: "tcp", FilterChains: []v2.FilterChain{fc}}, Addr: ta, InheritListener: il}
		if _, err := e.handler.AddOrUpdateListener(lc); err != nil {
			return "", err
		}
		return addr, nil
	}
	if e.lnPlain, err = mk("relay-plain", clusterPlain, nil); err != nil {
		return nil, err
	}
	if e.lnTLSUp, err = mk("relay-tlsup", clusterTLS, nil); err != nil {
		return nil, err
	}
	if e.lnTLSDown, err = mk("relay-tlsdown", clusterPlain, &v2.TLSConfig{Status: true, CertChain: certPEM, PrivateKey: keyPEM, MaxVersion: "TLSv1_2"}); err != nil {
		return nil, err
	}
	e.handler.StartListeners(context.Background())
	// wait until the listeners accept
	for _, a := range []string{e.lnPlain, e.lnTLSUp, e.lnTLSDown} {
		ok := false
		for i := 0; i < 400 && !ok; i++ {
			c, err := net.DialTimeout("tcp", a, 200*time.Millisecond)
			if err == nil {
				c.Close()
				ok = true
			} else {
				time.Sleep(5 * time.Millisecond)
			}
		}
		if !ok {
			return nil, fmt.Errorf("listener %s does not accept", a)
		}
	}
	// the probe connections reached the upstream servers: drop them
	time.Sleep(50 * time.Millisecond)
	drain := func(s *upServer) {
		for {
			select {
			case u := <-s.accept:
				u.c.Close()
			case <-time.After(100 * time.Millisecond):
				return
			}
		}
	}
	drain(e.upPlain)
	drain(e.upTLS)
	theEnv = e
	return e, nil
}

// newScriptedDownstream builds what activeListener.OnNewConnection builds, around a scripted net.Conn:
// the real server connection, the real tcp_proxy filter from its registered factory, InitializeReadFilters, Start.
var (
	tcpFactoryMu sync.Mutex
	tcpFactories = map[string]api.NetworkFilterChainFactory{}
)

func (e *env) newScriptedDownstreamWith(sc *sconn, rec *evRec, tr *traceRec, clusterName string) (api.Connection, error) {
	ctx := variable.NewVariableContext(context.Background())
	_ = variable.Set(ctx, types.VariableAccessLogs, []api.AccessLog{})
	_ = variable.Set(ctx, types.VariableListenerName, "relay-scripted")
	conn := network.NewServerConnection(ctx, sc, nil)
	conn.AddConnectionEventListener(&sideListener{side: "D", rec: rec})
	if tr != nil { // recorder in front of the proxy filter: sees every OnData and every close event, in order
		conn.AddConnectionEventListener(tr)
		conn.FilterManager().AddReadFilter(tr)
	}
	// ONE filter factory per cluster for all scripted cases (as a listener has): whatever a session leaves behind in the
	// factory or its config would be seen by the next one
	tcpFactoryMu.Lock()
	f, ok := tcpFactories[clusterName]
	if !ok {
		var err error
		f, err = api.CreateNetworkFilterChainFactory(v2.TCP_PROXY, map[string]interface{}{"cluster": clusterName})
		if err != nil {
			tcpFactoryMu.Unlock()
			return nil, err
		}
		tcpFactories[clusterName] = f
	}
	tcpFactoryMu.Unlock()
	f.CreateFilterChain(ctx, conn.FilterManager())
	conn.FilterManager().InitializeReadFilters()
	conn.Start(ctx)
	return conn, nil
}
