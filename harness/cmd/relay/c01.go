package main

import (
	"bytes"
	"fmt"
	"time"

	"mosn.io/mosn/pkg/types"

	. "vh/vhlib"
)

const shardHeader = "From MV Require Import Model.Relay Model.RelayCheck.\nFrom Coq Require Import List NArith.\nImport ListNotations.\nOpen Scope N_scope.\n"

// sizes: mostly small (the cases are replayed in Coq as literal byte lists); 64 and 128 are the initial capacities of
// the client / server connection read buffers (a larger chunk is returned by several Read calls)
func pickSize(r *Rng) int {
	switch r.Intn(20) {
	case 0, 1:
		return 1
	case 2, 3:
		return 2 + r.Intn(6)
	case 4:
		return []int{63, 64, 65, 127, 128, 129}[r.Intn(6)]
	case 5:
		return []int{255, 256, 257, 300}[r.Intn(4)]
	case 6:
		if r.Pct(30) {
			return 600 + r.Intn(900)
		}
		return 130 + r.Intn(100)
	default:
		return 1 + r.Intn(48)
	}
}

// genScripted draws one script for the scripted-socket part.
func genScripted(r *Rng) (ops []sop, kind string, connectFails bool) {
	dread := func(n int, err string) sop {
		d := streamBytes(r, n)
		return sop{Op: "dread", N: n, Err: err, data: d, Data: clip(d)}
	}
	usend := func(n int) sop {
		d := streamBytes(r, n)
		return sop{Op: "usend", N: n, data: d, Data: clip(d)}
	}
	some := func(side string) {
		for i, k := 0, r.Intn(4); i < k; i++ {
			if side == "D" {
				if r.Pct(15) {
					ops = append(ops, dread(0, "timeout"))
				} else if r.Pct(10) {
					ops = append(ops, dread(pickSize(r), "timeout"))
				} else {
					ops = append(ops, dread(pickSize(r), "nil"))
				}
			} else {
				ops = append(ops, usend(pickSize(r)))
			}
		}
	}
	mixed := func() {
		for i, k := 0, 1+r.Intn(3); i < k; i++ {
			if r.Bool() {
				some("D")
			} else {
				some("U")
			}
		}
	}
	switch k := r.Intn(20); {
	case k < 5: // the bytes arrive in the same Read as io.EOF
		kind = "d-n+eof"
		mixed()
		ops = append(ops, dread(pickSize(r), "eof"))
	case k < 8:
		kind = "d-eof-alone"
		mixed()
		ops = append(ops, dread(pickSize(r), "nil"), dread(0, "eof"))
	case k < 10: // a Read returning (0, nil) is treated as EOF by doRead
		kind = "d-zero-nil"
		mixed()
		ops = append(ops, dread(pickSize(r), "nil"), dread(0, "nil"))
	case k < 13:
		kind = "u-close-first"
		mixed()
		ops = append(ops, usend(pickSize(r)), sop{Op: "uclose"})
		if r.Bool() {
			ops = append(ops, dread(pickSize(r), "nil")) // ignored: the connection is closed
		}
	case k < 15:
		kind = "d-read-error"
		mixed()
		ops = append(ops, dread([]int{0, pickSize(r)}[r.Intn(2)], "reset"))
	case k < 17: // the write towards the downstream socket times out after k bytes
		kind = "d-write-timeout"
		mixed()
		n := 2 + r.Intn(59) // at most the initial read buffer of the client connection: one Read, one Write
		ops = append(ops, sop{Op: "dwplan", Err: "timeout", K: r.Intn(n)}, usend(n))
		if r.Bool() {
			ops = append(ops, dread(pickSize(r), "eof"))
		}
	case k < 19: // ... fails with another error after k bytes: the connection stays open, the rest stays queued
		kind = "d-write-error"
		mixed()
		n := 2 + r.Intn(59)
		ops = append(ops, sop{Op: "dwplan", Err: "pipe", K: r.Intn(n)}, usend(n))
		switch r.Intn(3) {
		case 0: // the rest stays queued while the upstream read buffer is reused by further reads
			for i, k := 0, 1+r.Intn(3); i < k; i++ {
				ops = append(ops, usend(pickSize(r)))
			}
			ops = append(ops, sop{Op: "uclose"})
		case 1:
			ops = append(ops, dread(pickSize(r), "eof"))
		default:
			ops = append(ops, sop{Op: "uclose"})
		}
	default:
		kind = "connect-fails"
		connectFails = true
		ops = append(ops, dread(pickSize(r), "nil"))
	}
	return
}

func genE2E(r *Rng, listener string) e2eSpec {
	sp := e2eSpec{Listener: listener, Coalesce: listener != "plain" && r.Pct(85)}
	chunks := func(min int) []int {
		n := min + r.Intn(5)
		var out []int
		for i := 0; i < n; i++ {
			if r.Pct(8) {
				out = append(out, 20000+r.Intn(120000))
			} else {
				out = append(out, pickSize(r))
			}
		}
		return out
	}
	switch r.Intn(6) {
	case 0:
		sp.Mode, sp.Closer, sp.CChunks = "c2u", "client", chunks(1)
	case 1:
		sp.Mode, sp.Closer, sp.UChunks = "u2c", "upstream", chunks(1)
	case 2, 3:
		sp.Mode, sp.CChunks, sp.UChunks = "bidir", chunks(1), chunks(1)
		sp.Closer = []string{"client", "upstream"}[r.Intn(2)]
	default:
		sp.Mode = "pingpong"
		n := 1 + r.Intn(5)
		for i := 0; i < n; i++ {
			sp.CChunks = append(sp.CChunks, pickSize(r))
			sp.UChunks = append(sp.UChunks, pickSize(r))
		}
		sp.Closer = []string{"client", "upstream"}[r.Intn(2)]
	}
	if listener == "tlsdown" && sp.Closer == "upstream" && r.Pct(60) {
		sp.Closer = "client" // the TLS peer is the interesting closer
		if len(sp.CChunks) == 0 {
			sp.CChunks = chunks(1)
			sp.Mode = "bidir"
		}
	}
	if listener == "tlsup" && sp.Closer == "client" && r.Pct(60) {
		sp.Closer = "upstream"
		if len(sp.UChunks) == 0 {
			sp.UChunks = chunks(1)
			sp.Mode = "bidir"
		}
	}
	return sp
}

func c01(args []string) int {
	run := NewRun("C01", args)
	r := run.R
	e, err := initEnv()
	if err != nil {
		fmt.Println("env:", err)
		return 2
	}
	run.Sum.Rule = "relay part: (a) scripted downstream socket (each Read of the REAL connection read loop returns a scripted result: chunk, chunk together with io.EOF, io.EOF alone, (0,nil), time-out with and without bytes, reset with and without bytes; writes towards it may time out or fail after k bytes) in front of the REAL tcp_proxy filter and a real loopback upstream that sends/closes on script; the model is run on the results the socket's Read calls really returned; compared: bytes written to both sockets, every OnData of the downstream filter chain and every close event in order, the upstream connection's close events. (b) real sockets through a real tcp_proxy listener (server.NewHandler): client->upstream, upstream->client, both directions at once, ping-pong; the closing peer closes right after its last write; plain, TLS 1.2 upstream and TLS 1.2 client (last record and close_notify in one segment => MOSN's TLS Read returns n>0 with io.EOF). (c) 2-5 sessions through the same listener at the same time, each streaming both ways, closed by the client, the upstream or both at once: every session's bytes as if it were alone. The scripted cases share ONE filter factory and cycle MOSN's buffer pools (IoBuffers and byte slices of 1 B .. 100 KB around the size classes) before every step, also while bytes of a failed write are still queued. Sizes 1..2000 and some 20k-140k chunks. Non-trivial: at least two chunks or both directions used; distinct by (kind, sizes)."

	// ---------------------------------------------------------------- (a) scripted
	sh := run.NewShard(shardHeader, "relay_case", "relay_mismatches")
	nScripted := run.N(160, 2500)
	for i := 0; i < nScripted; i++ {
		ops, kind, cf := genScripted(r)
		res, err := runScripted(e, ops, cf)
		if err != nil {
			fmt.Println("scripted case failed to run:", err)
			return 2
		}
		var sizes []int
		usedD, usedU := false, false
		for _, o := range ops {
			sizes = append(sizes, o.N)
			if o.Op == "dread" && o.N > 0 {
				usedD = true
			}
			if o.Op == "usend" {
				usedU = true
			}
		}
		run.Count(fmt.Sprintf("s|%s|%v", kind, sizes), len(ops) >= 2 || (usedD && usedU), "scripted:"+kind)
		rep := map[string]interface{}{"part": "relay-scripted", "kind": kind, "ops": ops, "events": res.events,
			"upstream_got": len(res.outU), "downstream_got": len(res.outD), "upstream_closes": res.closesU, "trace_d_len": len(res.traceD)}
		run.Sample(rep)
		// ---- finder: the property itself
		plan, reset, uclose, deof := false, false, false, false
		firstClose := ""
		for _, o := range ops {
			switch {
			case o.Op == "dwplan":
				plan = true
			case o.Op == "dread" && o.Err == "reset":
				reset = true
				if firstClose == "" {
					firstClose = "reset"
				}
			case o.Op == "uclose":
				uclose = true
				if firstClose == "" {
					firstClose = "u"
				}
			case o.Op == "dread" && (o.Err == "eof" || (o.Err == "nil" && o.N == 0)):
				deof = true
				if firstClose == "" {
					firstClose = "d"
				}
			}
		}
		if firstClose == "" {
			firstClose = "d" // the harness ends every script with the downstream peer's close
		}
		_ = deof
		_ = uclose
		for _, p := range res.problems {
			run.Fail("relay:scripted:stalled:"+kind, "scripted relay case did not make progress: "+p, rep)
		}
		if !isPrefix(res.outU, res.fedD) {
			run.Fail("relay:scripted:upstream-bytes-not-a-prefix", fmt.Sprintf("bytes written to the upstream socket are not a prefix of the bytes read from the downstream socket (%s; fed %d, upstream got %d)", kind, len(res.fedD), len(res.outU)), rep)
		}
		if !isPrefix(res.outD, res.sentU) {
			run.Fail("relay:scripted:downstream-bytes-not-a-prefix", fmt.Sprintf("bytes written to the downstream socket are not a prefix of the bytes the upstream peer sent (%s; sent %d, got %d)", kind, len(res.sentU), len(res.outD)), rep)
		}
		if !cf && !plan && !reset && firstClose == "d" {
			if !bytes.Equal(res.outU, res.fedD) || !res.uSawEOF {
				what := "the downstream peer's bytes did not all reach the upstream before its close was propagated"
				sig := "relay:scripted:lost-before-close:" + kind
				run.Fail(sig, fmt.Sprintf("%s (%s): read from the downstream socket %d bytes [%s], upstream received %d bytes [%s], upstream saw EOF=%v", what, kind, len(res.fedD), clip(res.fedD), len(res.outU), clip(res.outU), res.uSawEOF), rep)
			}
		}
		if !cf && !plan && !reset && firstClose == "u" {
			if !bytes.Equal(res.outD, res.sentU) || !res.dClosed {
				run.Fail("relay:scripted:lost-before-close:upstream-to-downstream:"+kind, fmt.Sprintf("the upstream peer's bytes did not all reach the downstream socket before it was closed: sent %d, written %d, closed=%v", len(res.sentU), len(res.outD), res.dClosed), rep)
			}
		}
		// ---- doRead level, on the implementation: everything the socket returned before / with EOF was handed to
		// the filter chain before the close event
		if !cf && !reset {
			var fd []byte
			closedSeen := false
			order := true
			for _, t := range res.traceD {
				if t.Close != "" {
					closedSeen = true
				} else {
					if closedSeen {
						order = false
					}
					fd = append(fd, t.Data...)
				}
			}
			// a write time-out on the downstream socket closes the connection from the other read loop; reads fed
			// afterwards are not made at all (fedD only holds what Read really returned)
			if !order || (firstClose == "d" && !plan && !bytes.Equal(fd, res.fedD)) {
				run.Fail("relay:scripted:read-bytes-not-delivered-before-close:"+kind, fmt.Sprintf("the filter chain saw %d of the %d bytes the socket's Read returned before the close event (in order=%v)", len(fd), len(res.fedD), order), rep)
			}
		}
		term, ok := coqCase(res.events, res.outD, res.outU, res.traceD, res.closesU, 0)
		if !ok {
			run.Fail("relay:scripted:unexpected-close-event", fmt.Sprintf("a close event outside the modelled set was raised: D %v U %v", res.traceD, res.closesU), rep)
		}
		sh.Add(term, rep)
		if sh.Len() >= 40 {
			sh.Close()
			sh = run.NewShard(shardHeader, "relay_case", "relay_mismatches")
		}
	}
	sh.Close()

	// ---------------------------------------------------------------- (b) real sockets, real listener
	sh = run.NewShard(shardHeader, "relay_case", "relay_mismatches")
	plan := []struct {
		listener string
		n        int
	}{{"plain", run.N(60, 1500)}, {"tlsup", run.N(25, 600)}, {"tlsdown", run.N(25, 600)}}
	for _, p := range plan {
		for i := 0; i < p.n; i++ {
			sp := genE2E(r, p.listener)
			res, err := runE2E(e, sp, r)
			if err != nil {
				fmt.Println("e2e case failed to run:", err)
				return 2
			}
			kind := fmt.Sprintf("%s:%s:closer=%s", sp.Listener, sp.Mode, sp.Closer)
			if sp.Coalesce {
				kind += ":with-close"
			}
			run.Count(fmt.Sprintf("e|%s|%v|%v", kind, sp.CChunks, sp.UChunks), len(sp.CChunks)+len(sp.UChunks) >= 2, "e2e:"+kind)
			rep := map[string]interface{}{"part": "relay-e2e", "spec": sp, "client_sent": len(res.cSent), "upstream_got": len(res.uGot),
				"upstream_sent": len(res.uSent), "client_got": len(res.cGot), "upstream_closes": res.closesU, "client_eof": res.cEOF, "upstream_eof": res.uEOF}
			if i < 2 {
				run.Sample(rep)
			}
			for _, pr := range res.problems {
				run.Fail("relay:e2e:stalled:"+kind, "relay through the real listener did not make progress: "+pr, rep)
			}
			if !isPrefix(res.uGot, res.cSent) {
				run.Fail("relay:e2e:upstream-bytes-not-a-prefix:"+sp.Listener, fmt.Sprintf("upstream received bytes that are not a prefix of what the client sent (%s)", kind), rep)
			}
			if !isPrefix(res.cGot, res.uSent) {
				run.Fail("relay:e2e:client-bytes-not-a-prefix:"+sp.Listener, fmt.Sprintf("client received bytes that are not a prefix of what the upstream sent (%s)", kind), rep)
			}
			if sp.Closer == "client" && !bytes.Equal(res.uGot, res.cSent) {
				run.Fail("relay:e2e:lost-before-close:client-to-upstream:"+sp.Listener, fmt.Sprintf("client sent %d bytes and closed right after its last write; upstream received %d [sent ..%s, got ..%s] (%s)", len(res.cSent), len(res.uGot), clip(res.cSent), clip(res.uGot), kind), rep)
			}
			if sp.Closer == "upstream" && !bytes.Equal(res.cGot, res.uSent) {
				run.Fail("relay:e2e:lost-before-close:upstream-to-client:"+sp.Listener, fmt.Sprintf("upstream sent %d bytes and closed right after its last write; client received %d [sent ..%s, got ..%s] (%s)", len(res.uSent), len(res.cGot), clip(res.uSent), clip(res.cGot), kind), rep)
			}
			// the non-closing direction is complete as well in these schedules (the closer waited for the bytes)
			if sp.Closer == "client" && !bytes.Equal(res.cGot, res.uSent) {
				run.Fail("relay:e2e:incomplete:upstream-to-client:"+sp.Listener, fmt.Sprintf("client waited for %d bytes from the upstream, got %d (%s)", len(res.uSent), len(res.cGot), kind), rep)
			}
			if sp.Closer == "upstream" && !bytes.Equal(res.uGot, res.cSent) {
				run.Fail("relay:e2e:incomplete:client-to-upstream:"+sp.Listener, fmt.Sprintf("upstream waited for %d bytes from the client, got %d (%s)", len(res.cSent), len(res.uGot), kind), rep)
			}
			if len(res.cSent)+len(res.uSent) > 3000 {
				run.Sum.Distribution["e2e-finder-only(large)"]++
				continue // too large to replay as a literal byte list; the finder above has checked it
			}
			term, _ := coqCase(res.events, res.cGot, res.uGot, nil, res.closesU, 2)
			sh.Add(term, rep)
			if sh.Len() >= 40 {
				sh.Close()
				sh = run.NewShard(shardHeader, "relay_case", "relay_mismatches")
			}
		}
	}
	sh.Close()

	// ---------------------------------------------------------------- (c) several sessions at the same time
	for g := 0; g < run.N(4, 60); g++ {
		p := 2 + r.Intn(4)
		ss, err := runParallel(e, r, p)
		if err != nil {
			fmt.Println("parallel sessions failed to run:", err)
			return 2
		}
		for i, s := range ss {
			run.Count(fmt.Sprintf("p|%d|%d|%s|%d|%d", g, i, s.Closer, s.CLen, s.ULen), true, "parallel:closer="+s.Closer)
			rep := map[string]interface{}{"part": "relay-parallel", "group": g, "sessions_in_group": p, "session": i, "spec": s,
				"upstream_got": len(s.uGot), "client_got": len(s.cGot)}
			if s.Problem != "" {
				run.Fail("relay:e2e:parallel:stalled", "one of several simultaneous sessions did not make progress: "+s.Problem, rep)
			}
			if !bytes.Equal(s.uGot, s.cSent) || !bytes.Equal(s.cGot, s.uSent) {
				run.Fail("relay:e2e:parallel:stream-mismatch", fmt.Sprintf("session %d of %d simultaneous ones: client sent %d bytes, upstream got %d [..%s vs ..%s]; upstream sent %d, client got %d", i, p, len(s.cSent), len(s.uGot), clip(s.cSent), clip(s.uGot), len(s.uSent), len(s.cGot)), rep)
			}
		}
	}

	// ---------------------------------------------------------------- (d) the write deadline
	{
		// (1) probes: for every Write of the relaying connection, the deadline armed at that moment must be (the time of the
		// write) + DefaultConnWriteTimeout - also for a write that follows an earlier one after a pause
		wms := types.DefaultConnWriteTimeout.Milliseconds()
		const tolMs = 25
		dsh := run.NewShard("From MV Require Import Model.RelayDeadline Gen.RelaySrc.\nFrom Coq Require Import List ZArith.\nImport ListNotations.\nOpen Scope Z_scope.\n",
			"list dl_obs", fmt.Sprintf("dl_mismatches write_deadline_fresh %d %d", wms, tolMs))
		for i := 0; i < run.N(4, 40); i++ {
			var p *dlProbe
			bad := -1
			for attempt := 0; attempt < 3; attempt++ { // a descheduled goroutine between arming and writing: look again
				var err error
				if p, err = runDeadlineProbe(e, r); err != nil {
					fmt.Println("deadline probe failed to run:", err)
					return 2
				}
				bad = -1
				for k := range p.StartMs {
					if p.DeadlineMs[k] < 0 || p.DeadlineMs[k]-p.StartMs[k] < wms-tolMs || p.DeadlineMs[k]-p.StartMs[k] > wms+tolMs {
						bad = k
					}
				}
				if bad < 0 {
					break
				}
			}
			run.Count(fmt.Sprintf("dl|%d|%v", i, p.PausesMs), true, "write-deadline-probe")
			rep := map[string]interface{}{"part": "relay-write-deadline-probe", "probe": p, "write_timeout_ms": wms}
			if bad >= 0 {
				run.Fail("relay:write-deadline-not-armed-afresh", fmt.Sprintf("write %d of a relaying connection started at %d ms with the deadline at %d ms: %d ms ahead instead of the write time-out %d ms (three runs)", bad, p.StartMs[bad], p.DeadlineMs[bad], p.DeadlineMs[bad]-p.StartMs[bad], wms), rep)
			}
			var obs []string
			for k := range p.StartMs {
				obs = append(obs, fmt.Sprintf("mkDl %d %d", p.StartMs[k], p.DeadlineMs[k]))
			}
			dsh.Add(CoqList(obs), rep)
		}
		dsh.Close()

		// (2) a busy receiver behind a relay whose connection wrote something shortly before
		oldW := types.DefaultConnWriteTimeout
		stallCase := func(dir string, wMs int, d1f, d2f float64) (stallSpec, *stallResult, error) {
			sp := stallSpec{Dir: dir, WMs: wMs, D1Ms: int(float64(wMs) * d1f), D2Ms: int(float64(wMs) * d2f), BurstMB: 12}
			types.DefaultConnWriteTimeout = time.Duration(wMs) * time.Millisecond
			defer func() { types.DefaultConnWriteTimeout = oldW }()
			res, err := runStall(e, sp)
			return sp, res, err
		}
		for _, dir := range []string{"c2u", "u2c"} {
			var sp stallSpec
			var res *stallResult
			failed := false
			// d2 < W: must arrive completely.  A failure is re-examined with a two and four times longer time-out (the
			// margins grow with it): a machine that was merely slow passes then, an inherited deadline fails at every scale.
			bad := func(res *stallResult) bool { return res.Got != res.Want || !res.ContentOK || res.Problem != "" }
			for _, w := range []int{400, 800, 1600} {
				var err error
				if sp, res, err = stallCase(dir, w, 0.6, 0.65); err != nil {
					fmt.Println("stall case failed to run:", err)
					return 2
				}
				if failed = bad(res); !failed {
					break
				}
			}
			if run.Thorough() && !failed && dir == "c2u" { // once with the real 15 s
				var err error
				if sp, res, err = stallCase(dir, int(oldW.Milliseconds()), 0.6, 0.65); err != nil {
					fmt.Println("stall case failed to run:", err)
					return 2
				}
				failed = bad(res)
			}
			run.Count(fmt.Sprintf("stall|%s|%d", dir, sp.WMs), true, "busy-receiver:"+dir)
			rep := map[string]interface{}{"part": "relay-busy-receiver", "spec": sp, "result": res}
			run.Sample(rep)
			if res.AtStallEnd >= res.Want {
				run.Sum.Distribution["busy-receiver:write-never-blocked"]++
			}
			if failed {
				run.Fail("relay:stream-truncated:write-timeout-inherited-from-earlier-write", fmt.Sprintf("%s: a small write, a pause of %d ms, then a %d MB burst while the receiver was busy for %d ms (write time-out %d ms): %d of %d bytes arrived, clean end=%v, upstream close events %q %s", dir, sp.D1Ms, sp.BurstMB, sp.D2Ms, sp.WMs, res.Got, res.Want, res.CleanEnd, res.UpstreamClose, res.Problem), rep)
			}
		}
		// control: the receiver busy for longer than the write time-out - the time-out mechanism is alive (no verdict)
		if sp, res, err := stallCase("c2u", 300, 0.3, 1.6); err == nil {
			out := "complete"
			if res.Got != res.Want {
				out = "cut-by-write-timeout"
			}
			run.Count("stall-control", true, "busy-receiver:longer-than-timeout:"+out)
			_ = sp
		}
	}

	// ---------------------------------------------------------------- HTTP/1 request URI
	run.Sum.Rule += " || url part: request targets generated from path segments (unreserved / sub-delims / escaped bytes incl. %2F %2e %00 %25, '', '.', '..'), '//' and trailing '/', optional query (incl. empty, '?', '=', '//' and '..' inside the query), '*', plus malformed extras (fragment, raw space, raw non-ASCII, invalid escapes; correspondence only). (1) hook level: the REAL fasthttp URI parser, injectCtxVarFromProtocolHeaders and buildUrlFromCtxVar, and buildUrlFromCtxVar on arbitrary (path, pathOriginal, query) triples incl. rewritten paths, compared with Model/UrlBuild.v; (2) end to end: raw client -> real MOSN HTTP/1 proxy listener -> raw recording upstream, forwarded request line compared byte for byte. Non-trivial: the target contains an escape, a query, '//' or '..'."
	urlHookPart(run)
	if err := urlE2EPart(run, e); err != nil {
		fmt.Println("url e2e:", err)
		return 2
	}
	run.Sum.Rule += " || http1 message part: generated requests (GET/POST/PUT/HEAD/DELETE/OPTIONS/PATCH; 0-9 ordinary fields from a pool with repeated names on separate lines, Cookie on several lines, values that are empty / quoted / contain ';' without spaces / double spaces / non-ASCII; User-Agent, Content-Type, Connection variants incl. close and repeated; mixed-case names and random optional white space on the wire; Expect: 100-continue; no body / Content-Length / chunked bodies of 0, 1, 15-17, 255-257, ~300 and up to 70000 bytes, binary or text) and generated responses (200/201/204/206/304/404/500; repeated Set-Cookie, Via, Vary...; Date, Server, Content-Encoding, keep-alive; Content-Length / chunked / close-delimited; HEAD) through the REAL HTTP/1 proxy listener between a raw client and a raw recording upstream; every forwarded message is parsed from the raw bytes and compared with Model/RelayHttp.v (field order included) and by the finder (per name: values, multiplicity and relative order; body bytes). Non-trivial: at least four fields in request + response."
	if err := http1Part(run, e); err != nil {
		fmt.Println("http1:", err)
		return 2
	}
	return run.Finish()
}
