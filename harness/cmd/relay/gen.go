package main

import (
	"bytes"
	"fmt"
	"go/ast"
	"go/printer"
	"go/token"
	"sort"
	"strings"

	. "vh/vhlib"
)

var gens = map[string]GenFn{
	"RelaySrc":     genRelaySrc,
	"RelayAcctSrc": genRelayAcctSrc,
	"RelayHttpSrc": genRelayHttpSrc,
}

// genRelayHttpSrc reads from pkg/stream/http/stream.go how the HTTP/1 stream layer hands a proxied message's header
// section over (C01, header fields and body):
//   - clientStream.AppendHeaders copies the request header with fasthttp's RequestHeader.CopyTo (raw fields, cookies not
//     collected) and whether it switches fasthttp's default Content-Type off afterwards
//   - serverStream.AppendHeaders (ResponseHeader case) copies with CopyTo and whether it switches the default off
//   - serve() deletes Expect after answering 100 Continue; AppendHeaders deletes Connection only when the close flag is set
func genRelayHttpSrc(repo string) (string, error) {
	fset, f, err := ParseGoFile(repo, "pkg/stream/http/stream.go")
	if err != nil {
		return "", err
	}
	stmts := func(recv, fn string) ([]string, error) {
		fd := FindFunc(f, recv, fn)
		if fd == nil {
			return nil, fmt.Errorf("%s.%s not found", recv, fn)
		}
		var out []string
		ast.Inspect(fd.Body, func(n ast.Node) bool {
			if es, ok := n.(*ast.ExprStmt); ok {
				out = append(out, exprStr(fset, es.X))
			}
			return true
		})
		return out, nil
	}
	idx := func(l []string, want string) int {
		for i, s := range l {
			if s == want {
				return i
			}
		}
		return -1
	}
	cs, err := stmts("clientStream", "AppendHeaders")
	if err != nil {
		return "", err
	}
	ss, err := stmts("serverStream", "AppendHeaders")
	if err != nil {
		return "", err
	}
	sv, err := stmts("serverStreamConnection", "serve")
	if err != nil {
		return "", err
	}
	cCopy := idx(cs, "headers.CopyTo(&s.request.Header)")
	cNoDef := idx(cs, "s.request.Header.SetNoDefaultContentType(true)")
	sCopy := idx(ss, "headers.CopyTo(&s.response.Header)")
	sNoDef := idx(ss, "s.response.Header.SetNoDefaultContentType(true)")
	noPre := idx(sv, "request.ReadLimitBody(conn.br, maxRequestBodySize)") < 0
	nContinue := 0
	for _, x := range sv {
		if strings.HasSuffix(x, "request.ContinueReadBody(conn.br, maxRequestBodySize, false)") {
			nContinue++
		}
	}
	if fd := FindFunc(f, "serverStreamConnection", "serve"); fd != nil {
		// the two body reads are assignments (err = ...), not expression statements
		body := exprStr(fset, fd.Body)
		nContinue = strings.Count(body, "request.ContinueReadBody(conn.br, maxRequestBodySize, false)")
		noPre = !strings.Contains(body, "ReadLimitBody(") && strings.Contains(body, "request.Header.Read(conn.br)") && nContinue == 2
	}
	shape := sCopy >= 0 && idx(sv, "request.Header.Del(\"Expect\")") >= 0 && idx(cs, "headers.Del(\"Connection\")") >= 0 &&
		idx(cs, "FillRequestHeadersFromCtxVar(context, headers, s.connection.conn.RemoteAddr())") >= 0
	var out strings.Builder
	out.WriteString("From MV Require Import Model.RelayHttp.\n\n")
	fmt.Fprintf(&out, "(* clientStream.AppendHeaders copies with RequestHeader.CopyTo: %v; switches the default request Content-Type off after it: %v;\n   serverStream.AppendHeaders switches the default response Content-Type off after CopyTo: %v *)\n", cCopy >= 0, cNoDef > cCopy && cCopy >= 0, sNoDef > sCopy && sCopy >= 0)
	fmt.Fprintf(&out, "(* serve() reads the header and then the body with ContinueReadBody(.., false) (no multipart pre-parse, no ReadLimitBody): %v *)\n", noPre)
	fmt.Fprintf(&out, "Definition src_hsw : sw := mkHsw %s %s %s %s.\n", CoqBool(cCopy >= 0), CoqBool(cNoDef > cCopy && cCopy >= 0), CoqBool(sNoDef > sCopy && sCopy >= 0), CoqBool(noPre))
	fmt.Fprintf(&out, "(* response CopyTo, Del(\"Expect\") in serve, guarded Del(\"Connection\") and FillRequestHeadersFromCtxVar in clientStream.AppendHeaders *)\nDefinition http_shape_ok : bool := %s.\n", CoqBool(shape))
	out.WriteString("Definition RelayHttpSrc_translator_ok := true.\n")
	return out.String(), nil
}

// genRelayAcctSrc reads WHERE the L4 connection accounting of streamproxy.go sits (C10):
//   - initializeUpstreamConnection: is `clusterConnectionResource.Increase()` (with SetUpstreamHost) inside the connect
//     loop in front of `upstreamConnection.Connect()` or behind the loop; does the Connect error branch call Decrease
//   - onUpstreamEvent: does the ConnectTimeout case call finalizeUpstreamConnectionStats; do all five close events
//   - finalizeUpstreamConnectionStats: a single Decrease guarded by "an upstream host is set"
func genRelayAcctSrc(repo string) (string, error) {
	fset, f, err := ParseGoFile(repo, "pkg/filter/network/streamproxy/streamproxy.go")
	if err != nil {
		return "", err
	}
	init := FindFunc(f, "proxy", "initializeUpstreamConnection")
	if init == nil {
		return "", fmt.Errorf("initializeUpstreamConnection not found")
	}
	var loop *ast.ForStmt
	loopIdx := -1
	for i, st := range init.Body.List {
		if fs, ok := st.(*ast.ForStmt); ok && loop == nil {
			loop, loopIdx = fs, i
		}
	}
	if loop == nil {
		return "", fmt.Errorf("connect loop not found")
	}
	isCall := func(n ast.Node, want string) bool {
		es, ok := n.(*ast.ExprStmt)
		return ok && exprStr(fset, es.X) == want
	}
	// inside the loop: position of Connect and of Increase / SetUpstreamHost / the two active gauges
	const (
		sInc   = "clusterConnectionResource.Increase()"
		sHost  = "p.readCallbacks.SetUpstreamHost(connectionData.Host)"
		sGHost = "connectionData.Host.HostStats().UpstreamConnectionActive.Inc(1)"
		sGClu  = "p.clusterInfo.Stats().UpstreamConnectionActive.Inc(1)"
	)
	connectIdx := -1
	in := map[string]int{}
	errHas := map[string]bool{}
	for i, st := range loop.Body.List {
		if is, ok := st.(*ast.IfStmt); ok && is.Init != nil && strings.Contains(exprStr(fset, is.Init), "upstreamConnection.Connect()") {
			connectIdx = i
			for _, es := range is.Body.List {
				if x, ok := es.(*ast.ExprStmt); ok {
					errHas[exprStr(fset, x.X)] = true
				}
			}
		}
		for _, want := range []string{sInc, sHost, sGHost, sGClu} {
			if isCall(st, want) {
				in[want] = i + 1
			}
		}
	}
	if connectIdx < 0 {
		return "", fmt.Errorf("Connect() call not found in the connect loop")
	}
	after := map[string]bool{}
	for i, st := range init.Body.List {
		if i <= loopIdx {
			continue
		}
		for _, want := range []string{sInc, sHost, sGHost, sGClu} {
			if isCall(st, want) {
				after[want] = true
			}
		}
	}
	nInc := 0
	ast.Inspect(f, func(n ast.Node) bool {
		if c, ok := n.(*ast.CallExpr); ok && strings.HasSuffix(exprStr(fset, c.Fun), ".Increase") {
			nInc++
		}
		return true
	})
	place := func(a, b string) (bool, error) { // both in front of Connect inside the loop, or both behind the loop
		inA, inB := in[a] > 0 && in[a]-1 < connectIdx, in[b] > 0 && in[b]-1 < connectIdx
		switch {
		case inA && inB && !after[a] && !after[b]:
			return true, nil
		case after[a] && after[b] && in[a] == 0 && in[b] == 0:
			return false, nil
		}
		return false, fmt.Errorf("cannot place %s / %s relative to Connect()", a, b)
	}
	before, err := place(sInc, sHost)
	if err != nil {
		return "", err
	}
	gaugesBefore, err := place(sGHost, sGClu)
	if err != nil {
		return "", err
	}
	errDec := errHas["clusterConnectionResource.Decrease()"]
	gh, gc := errHas["connectionData.Host.HostStats().UpstreamConnectionActive.Dec(1)"], errHas["p.clusterInfo.Stats().UpstreamConnectionActive.Dec(1)"]
	if gh != gc {
		return "", fmt.Errorf("the Connect error branch gives back only one of the two active gauges")
	}
	errGauges := gh
	errUnset := errHas["p.readCallbacks.SetUpstreamHost(nil)"]
	// onUpstreamEvent
	ev := FindFunc(f, "proxy", "onUpstreamEvent")
	if ev == nil {
		return "", fmt.Errorf("onUpstreamEvent not found")
	}
	finalizes := map[string]bool{}
	ast.Inspect(ev.Body, func(n ast.Node) bool {
		cc, ok := n.(*ast.CaseClause)
		if !ok {
			return true
		}
		fin := false
		for _, bs := range cc.Body {
			if isCall(bs, "p.finalizeUpstreamConnectionStats()") {
				fin = true
			}
		}
		for _, e := range cc.List {
			finalizes[strings.TrimPrefix(exprStr(fset, e), "api.")] = fin
		}
		return true
	})
	allClose := true
	for _, c := range []string{"RemoteClose", "LocalClose", "OnReadErrClose", "OnWriteTimeout", "OnWriteErrClose"} {
		allClose = allClose && finalizes[c]
	}
	// finalizeUpstreamConnectionStats
	fin := FindFunc(f, "proxy", "finalizeUpstreamConnectionStats")
	if fin == nil {
		return "", fmt.Errorf("finalizeUpstreamConnectionStats not found")
	}
	finBody := exprStr(fset, fin.Body)
	finOK := finBody == "{ hostInfo := p.readCallbacks.UpstreamHost() if host, ok := hostInfo.(types.Host); ok { host.ClusterInfo().ResourceManager().Connections().Decrease() } }"
	// resource_manager.go: do Increase / Decrease count unconditionally?
	fsetR, fR, err := ParseGoFile(repo, "pkg/upstream/cluster/resource_manager.go")
	if err != nil {
		return "", err
	}
	countsAlways := true
	for _, fn := range []string{"Increase", "Decrease"} {
		fd := FindFunc(fR, "resource", fn)
		if fd == nil {
			return "", fmt.Errorf("resource.%s not found", fn)
		}
		body := exprStr(fsetR, fd.Body)
		sign := map[string]string{"Increase": "1", "Decrease": "-1"}[fn]
		switch body {
		case "{ atomic.AddInt64(&r.current, " + sign + ") }":
		case "{ if r.max != 0 { atomic.AddInt64(&r.current, " + sign + ") } }":
			countsAlways = false
		default:
			return "", fmt.Errorf("resource.%s has an unexpected body: %s", fn, body)
		}
	}
	if cc := FindFunc(fR, "resource", "CanCreate"); cc == nil || !strings.Contains(exprStr(fsetR, cc.Body), "if r.max == 0 { return true }") || !strings.Contains(exprStr(fsetR, cc.Body), "if curValue < 0 { return true }") {
		return "", fmt.Errorf("resource.CanCreate has an unexpected shape")
	}
	var out strings.Builder
	out.WriteString("From MV Require Import Model.RelayAcct.\n\n")
	fmt.Fprintf(&out, "(* initializeUpstreamConnection: Increase+SetUpstreamHost before Connect = %v; the two UpstreamConnectionActive++ before Connect = %v;\n   Connect error branch: Decrease = %v, the two UpstreamConnectionActive-- = %v, SetUpstreamHost(nil) = %v;\n   onUpstreamEvent: the ConnectTimeout case finalizes = %v *)\n", before, gaugesBefore, errDec, errGauges, errUnset, finalizes["ConnectTimeout"])
	fmt.Fprintf(&out, "(* resource_manager.go: Increase/Decrease count unconditionally (also while max == 0) = %v *)\n", countsAlways)
	fmt.Fprintf(&out, "Definition src_sw : sw := mkSw %s %s %s %s %s %s %s.\n", CoqBool(before), CoqBool(gaugesBefore), CoqBool(errDec), CoqBool(errGauges), CoqBool(errUnset), CoqBool(finalizes["ConnectTimeout"]), CoqBool(countsAlways))
	fmt.Fprintf(&out, "(* exactly one Increase call in the file (%d); all five close events finalize (%v); finalize is one Decrease guarded by the\n   upstream host being set (%v) *)\n", nInc, allClose, finOK)
	fmt.Fprintf(&out, "Definition acct_shape_ok : bool := %s.\n", CoqBool(nInc == 1 && allClose && finOK))
	out.WriteString("Definition RelayAcctSrc_translator_ok := true.\n")
	return out.String(), nil
}

func exprStr(fset *token.FileSet, e ast.Node) string {
	var b bytes.Buffer
	printer.Fprint(&b, fset, e)
	return strings.Join(strings.Fields(b.String()), " ")
}

// genRelaySrc reads from the tree
//   - streamproxy.go onUpstreamEvent / onDownstreamEvent: for each connection event, whether the proxy closes the
//     OTHER connection with FlushWrite or NoFlush  -> up_reaction / down_reaction : cev -> option bool
//   - connection.go doRead: under which guards the error block returns before onRead  -> doread_returns, and
//     doread_eof_delivers (io.EOF and a time-out with bytes fall through to onRead; nothing else does)
func genRelaySrc(repo string) (string, error) {
	var out strings.Builder
	out.WriteString("From Coq Require Import List String.\nFrom MV Require Import Model.Relay.\nImport ListNotations.\nOpen Scope string_scope.\n\n")

	// ---- streamproxy reaction tables
	fset, f, err := ParseGoFile(repo, "pkg/filter/network/streamproxy/streamproxy.go")
	if err != nil {
		return "", err
	}
	cevs := []string{"RemoteClose", "LocalClose", "OnReadErrClose", "OnWriteTimeout"}
	table := func(fn, target string) (map[string]string, error) {
		fd := FindFunc(f, "proxy", fn)
		if fd == nil {
			return nil, fmt.Errorf("%s not found", fn)
		}
		res := map[string]string{}
		var sw *ast.SwitchStmt
		ast.Inspect(fd.Body, func(n ast.Node) bool {
			if s, ok := n.(*ast.SwitchStmt); ok && sw == nil && exprStr(fset, s.Tag) == "event" {
				sw = s
			}
			return true
		})
		if sw == nil {
			return nil, fmt.Errorf("%s: no switch on event", fn)
		}
		for _, st := range sw.Body.List {
			cc := st.(*ast.CaseClause)
			mode := ""
			for _, bs := range cc.Body {
				ast.Inspect(bs, func(n ast.Node) bool {
					call, ok := n.(*ast.CallExpr)
					if !ok {
						return true
					}
					s := exprStr(fset, call.Fun)
					if s == target+".Close" && len(call.Args) == 2 {
						switch exprStr(fset, call.Args[0]) {
						case "api.FlushWrite":
							mode = "Some true"
						case "api.NoFlush":
							mode = "Some false"
						default:
							mode = "?"
						}
					}
					return true
				})
			}
			for _, e := range cc.List {
				name := strings.TrimPrefix(exprStr(fset, e), "api.")
				if mode != "" {
					res[name] = mode
				}
			}
		}
		return res, nil
	}
	up, err := table("onUpstreamEvent", "p.readCallbacks.Connection()")
	if err != nil {
		return "", err
	}
	down, err := table("onDownstreamEvent", "p.upstreamConnection")
	if err != nil {
		return "", err
	}
	emit := func(name string, m map[string]string) error {
		fmt.Fprintf(&out, "Definition %s (ev : cev) : option bool :=\n  match ev with\n", name)
		for _, c := range cevs {
			v, ok := m[c]
			if !ok {
				v = "None"
			}
			if v == "?" {
				return fmt.Errorf("%s: unrecognised close type for %s", name, c)
			}
			fmt.Fprintf(&out, "  | %s => %s\n", c, v)
		}
		out.WriteString("  end.\n")
		return nil
	}
	if err := emit("up_reaction", up); err != nil {
		return "", err
	}
	if err := emit("down_reaction", down); err != nil {
		return "", err
	}
	// OnData / onUpstreamData: Write(buffer.Clone()) on the other connection followed by a full drain
	for _, chk := range []struct{ fn, want string }{
		{"OnData", "p.upstreamConnection.Write(buffer.Clone())"},
		{"onUpstreamData", "p.readCallbacks.Connection().Write(buffer.Clone())"},
	} {
		fd := FindFunc(f, "proxy", chk.fn)
		if fd == nil {
			return "", fmt.Errorf("%s not found", chk.fn)
		}
		body := exprStr(fset, fd.Body)
		i := strings.Index(body, chk.want)
		j := strings.Index(body, "buffer.Drain(buffer.Len())")
		if i < 0 || j < i {
			return "", fmt.Errorf("%s: expected %s followed by buffer.Drain(buffer.Len())", chk.fn, chk.want)
		}
	}

	// ---- doRead error block
	fset2, f2, err := ParseGoFile(repo, "pkg/network/connection.go")
	if err != nil {
		return "", err
	}
	dr := FindFunc(f2, "connection", "doRead")
	if dr == nil {
		return "", fmt.Errorf("doRead not found")
	}
	var errBlock *ast.IfStmt
	errIdx := -1
	onReadAfter := false
	for i, st := range dr.Body.List {
		if is, ok := st.(*ast.IfStmt); ok && errBlock == nil && exprStr(fset2, is.Cond) == "err != nil" {
			errBlock, errIdx = is, i
		}
		if es, ok := st.(*ast.ExprStmt); ok && errIdx >= 0 && i > errIdx && exprStr(fset2, es.X) == "c.onRead(bytesRead)" {
			onReadAfter = true
		}
	}
	if errBlock == nil {
		return "", fmt.Errorf("doRead: `if err != nil` block not found")
	}
	// collect every return with the chain of guards leading to it
	var rets []string
	var walk func(stmts []ast.Stmt, guards []string)
	walkIf := func(is *ast.IfStmt, guards []string) {}
	walkIf = func(is *ast.IfStmt, guards []string) {
		g := exprStr(fset2, is.Cond)
		if is.Init != nil {
			g = exprStr(fset2, is.Init) + "; " + g
		}
		walk(is.Body.List, append(append([]string{}, guards...), g))
		switch e := is.Else.(type) {
		case *ast.IfStmt:
			walkIf(e, append(append([]string{}, guards...), "!("+g+")"))
		case *ast.BlockStmt:
			walk(e.List, append(append([]string{}, guards...), "!("+g+")"))
		}
	}
	walk = func(stmts []ast.Stmt, guards []string) {
		for _, st := range stmts {
			switch s := st.(type) {
			case *ast.ReturnStmt:
				rets = append(rets, strings.Join(guards, " && ")+" => "+exprStr(fset2, s))
			case *ast.IfStmt:
				walkIf(s, guards)
			case *ast.BlockStmt:
				walk(s.List, guards)
			case *ast.ForStmt, *ast.RangeStmt, *ast.SwitchStmt, *ast.SelectStmt:
				ast.Inspect(s, func(n ast.Node) bool {
					if r, ok := n.(*ast.ReturnStmt); ok {
						rets = append(rets, strings.Join(guards, " && ")+" && <loop/switch> => "+exprStr(fset2, r))
					}
					return true
				})
			}
		}
	}
	walk(errBlock.Body.List, nil)
	sort.Strings(rets)
	want := []string{
		"atomic.LoadUint32(&c.closed) == 1 => return err",
		"te, ok := err.(net.Error); ok && te.Timeout() && bytesRead == 0 => return err",
		"!(te, ok := err.(net.Error); ok && te.Timeout()) && err != io.EOF => return err",
	}
	sort.Strings(want)
	same := len(rets) == len(want)
	for i := range want {
		if same && rets[i] != want[i] {
			same = false
		}
	}
	out.WriteString("\n(* returns inside doRead's `if err != nil` block, each with the guards leading to it *)\nDefinition doread_returns : list string := [\n")
	for i, r := range rets {
		sep := ";"
		if i == len(rets)-1 {
			sep = ""
		}
		fmt.Fprintf(&out, "  %s%s\n", CoqString(r), sep)
	}
	out.WriteString("].\n")
	fmt.Fprintf(&out, "(* only a closed connection, a time-out without bytes and an error other than io.EOF / time-out return before onRead;\n   onRead(bytesRead) follows the block *)\nDefinition doread_eof_delivers : bool := %s.\n", CoqBool(same && onReadAfter))
	// ---- write deadline: armed afresh (now + DefaultConnWriteTimeout) in front of EVERY raw write
	swd := FindFunc(f2, "connection", "setWriteDeadline")
	if swd == nil {
		return "", fmt.Errorf("setWriteDeadline not found")
	}
	const wantSWD = `{ switch c.network { case "udp": c.rawConnection.SetWriteDeadline(time.Now().Add(types.DefaultUDPIdleTimeout)) default: c.rawConnection.SetWriteDeadline(time.Now().Add(types.DefaultConnWriteTimeout)) } }`
	fresh := exprStr(fset2, swd.Body) == wantSWD
	nWrites, nArmed := 0, 0
	ast.Inspect(f2, func(n ast.Node) bool {
		var list []ast.Stmt
		switch b := n.(type) {
		case *ast.BlockStmt:
			list = b.List
		case *ast.CaseClause:
			list = b.Body
		case *ast.CommClause:
			list = b.Body
		default:
			return true
		}
		for i, st := range list {
			as, ok := st.(*ast.AssignStmt)
			if !ok || len(as.Rhs) != 1 || exprStr(fset2, as.Rhs[0]) != "c.doWrite()" {
				continue
			}
			nWrites++
			if i > 0 {
				if es, ok := list[i-1].(*ast.ExprStmt); ok && exprStr(fset2, es.X) == "c.setWriteDeadline()" {
					nArmed++
				}
			}
		}
		return true
	})
	fmt.Fprintf(&out, "(* setWriteDeadline arms time.Now().Add(DefaultConnWriteTimeout) unconditionally (no cached / conditional deadline): %v;\n   raw writes (c.doWrite()): %d, of which directly preceded by c.setWriteDeadline(): %d *)\n", fresh, nWrites, nArmed)
	fmt.Fprintf(&out, "Definition write_deadline_fresh : bool := %s.\n", CoqBool(fresh && nWrites > 0 && nWrites == nArmed))
	out.WriteString("Definition RelaySrc_translator_ok := true.\n")
	return out.String(), nil
}
