package main

import . "vh/vhlib"

var gens = map[string]GenFn{}
