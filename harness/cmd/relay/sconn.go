package main

import (
	"errors"
	"io"
	"net"
	"sync"
	"time"
)

// sconn is a scripted net.Conn: every Read of the MOSN read loop returns exactly what the harness feeds
// (a chunk, a chunk together with io.EOF, io.EOF alone, a timeout, another error), every Write is recorded and
// may be made to fail after k bytes.  It lets the harness hand the REAL connection read loop results a kernel
// socket produces only under timing luck (n>0 together with io.EOF is what a TLS conn returns when the last
// record and close_notify arrive together).

type readRes struct {
	data []byte
	err  error
}

type readLog struct {
	data []byte
	err  string // nil | eof | timeout | reset
}

func errName(err error) string {
	switch {
	case err == nil:
		return "nil"
	case err == io.EOF:
		return "eof"
	}
	if te, ok := err.(interface{ Timeout() bool }); ok && te.Timeout() {
		return "timeout"
	}
	return "reset"
}

type timeoutErr struct{}

func (timeoutErr) Error() string   { return "i/o timeout (scripted)" }
func (timeoutErr) Timeout() bool   { return true }
func (timeoutErr) Temporary() bool { return true }

var errScriptedReset = errors.New("read: connection reset by peer (scripted)")
var errScriptedPipe = errors.New("write: broken pipe (scripted)")

type writePlan struct {
	k   int   // bytes accepted before the error
	err error // nil: no failure
}

type sconn struct {
	mu       sync.Mutex
	feed     chan readRes
	entered  chan struct{} // one token per Read call that found nothing left over (the loop is idle again)
	closedCh chan struct{}
	closed   bool
	left     readRes // remainder of a result larger than the caller's buffer
	hasLeft  bool
	written  []byte
	wplans   []writePlan // consumed one per Write call that has bytes
	nwrites  int
	readsIn  []byte    // every byte returned by Read, in order
	rlog     []readLog // every Read return that carried bytes or an error, in order
	wdl      time.Time
	wlog     []writeAt
	local    net.Addr
	remote   net.Addr
}

func newSconn() *sconn {
	return &sconn{feed: make(chan readRes), entered: make(chan struct{}, 1024), closedCh: make(chan struct{}),
		local:  &net.TCPAddr{IP: net.IPv4(127, 0, 0, 1), Port: 2046},
		remote: &net.TCPAddr{IP: net.IPv4(127, 0, 0, 1), Port: 40001}}
}

func (c *sconn) Read(b []byte) (int, error) {
	c.mu.Lock()
	if c.hasLeft {
		n := copy(b, c.left.data)
		c.left.data = c.left.data[n:]
		var err error
		if len(c.left.data) == 0 {
			err = c.left.err
			c.hasLeft = false
		}
		c.readsIn = append(c.readsIn, b[:n]...)
		c.rlog = append(c.rlog, readLog{data: append([]byte(nil), b[:n]...), err: errName(err)})
		c.mu.Unlock()
		return n, err
	}
	c.mu.Unlock()
	select {
	case c.entered <- struct{}{}:
	default:
	}
	select {
	case r := <-c.feed:
		n := copy(b, r.data)
		c.mu.Lock()
		c.readsIn = append(c.readsIn, b[:n]...)
		if n < len(r.data) {
			c.left = readRes{data: r.data[n:], err: r.err}
			c.hasLeft = true
			c.rlog = append(c.rlog, readLog{data: append([]byte(nil), b[:n]...), err: "nil"})
			c.mu.Unlock()
			return n, nil
		}
		c.rlog = append(c.rlog, readLog{data: append([]byte(nil), b[:n]...), err: errName(r.err)})
		c.mu.Unlock()
		return n, r.err
	case <-c.closedCh:
		return 0, net.ErrClosed
	}
}

func (c *sconn) Write(b []byte) (int, error) {
	c.mu.Lock()
	defer c.mu.Unlock()
	if c.closed {
		return 0, net.ErrClosed
	}
	if len(b) == 0 {
		return 0, nil
	}
	c.wlog = append(c.wlog, writeAt{at: time.Now(), deadline: c.wdl})
	c.nwrites++
	if len(c.wplans) > 0 {
		p := c.wplans[0]
		c.wplans = c.wplans[1:]
		if p.err != nil {
			k := p.k
			if k > len(b) {
				k = len(b)
			}
			c.written = append(c.written, b[:k]...)
			return k, p.err
		}
	}
	c.written = append(c.written, b...)
	return len(b), nil
}

func (c *sconn) Close() error {
	c.mu.Lock()
	defer c.mu.Unlock()
	if !c.closed {
		c.closed = true
		close(c.closedCh)
	}
	return nil
}

func (c *sconn) LocalAddr() net.Addr               { return c.local }
func (c *sconn) RemoteAddr() net.Addr              { return c.remote }
func (c *sconn) SetDeadline(t time.Time) error     { return nil }
func (c *sconn) SetReadDeadline(t time.Time) error { return nil }

// the write deadline the connection arms, and for every Write call the time of the call and the deadline in force
func (c *sconn) SetWriteDeadline(t time.Time) error {
	c.mu.Lock()
	c.wdl = t
	c.mu.Unlock()
	return nil
}

type writeAt struct{ at, deadline time.Time }

func (c *sconn) writeLog() []writeAt {
	c.mu.Lock()
	defer c.mu.Unlock()
	return append([]writeAt(nil), c.wlog...)
}

func (c *sconn) isClosed() bool {
	c.mu.Lock()
	defer c.mu.Unlock()
	return c.closed
}

func (c *sconn) snapshotWritten() []byte {
	c.mu.Lock()
	defer c.mu.Unlock()
	return append([]byte(nil), c.written...)
}

func (c *sconn) writeCalls() int {
	c.mu.Lock()
	defer c.mu.Unlock()
	return c.nwrites
}

func (c *sconn) planWrite(p writePlan) {
	c.mu.Lock()
	c.wplans = append(c.wplans, p)
	c.mu.Unlock()
}

// drainEntered forgets idle tokens of earlier reads.
func (c *sconn) drainEntered() {
	for {
		select {
		case <-c.entered:
		default:
			return
		}
	}
}

// feedRead hands one Read result to the read loop and waits until the loop has processed it: it is back in
// Read (idle) or the conn has been closed.  false = neither happened within the time limit.
func (c *sconn) feedRead(r readRes, limit time.Duration) bool {
	c.drainEntered()
	t := time.NewTimer(limit)
	defer t.Stop()
	select {
	case c.feed <- r:
	case <-c.closedCh:
		return true
	case <-t.C:
		return false
	}
	select {
	case <-c.entered:
		return true
	case <-c.closedCh:
		return true
	case <-t.C:
		return false
	}
}

// waitIdle waits until the read loop sits in Read for the first time.
func (c *sconn) waitIdle(limit time.Duration) bool {
	select {
	case <-c.entered:
		return true
	case <-c.closedCh:
		return true
	case <-time.After(limit):
		return false
	}
}

var _ = io.EOF
