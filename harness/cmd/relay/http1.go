package main

import (
	"bufio"
	"bytes"
	"fmt"
	"io"
	"net"
	"strconv"
	"strings"
	"sync"
	"time"

	. "vh/vhlib"
)

// ---------------------------------------------------------------------------------------------
// HTTP/1 messages as the property sees them

type hfield struct {
	Name  string `json:"n"` // lower-cased
	Value string `json:"v"` // without surrounding OWS
}

type hmsg struct {
	Method string   `json:"method,omitempty"`
	Target string   `json:"target,omitempty"`
	Status int      `json:"status,omitempty"`
	Fields []hfield `json:"fields"`
	Body   []byte   `json:"-"`
	BodyN  int      `json:"body_len"`
	Decl   int      `json:"declared_length,omitempty"` // response to HEAD: the Content-Length the upstream declared
	CloseD bool     `json:"close_delimited,omitempty"`
}

func framing(n string) bool {
	return n == "content-length" || n == "transfer-encoding" || n == "trailer"
}

// parseHead parses a header block (without the first line) into fields, names lower-cased, values trimmed.
func parseFields(lines []string) []hfield {
	var fs []hfield
	for _, l := range lines {
		i := strings.IndexByte(l, ':')
		if i <= 0 {
			continue
		}
		fs = append(fs, hfield{Name: strings.ToLower(l[:i]), Value: strings.Trim(l[i+1:], " \t")})
	}
	return fs
}

func withoutFraming(fs []hfield) []hfield {
	var out []hfield
	for _, f := range fs {
		if !framing(f.Name) {
			out = append(out, f)
		}
	}
	return out
}

func fieldValue(fs []hfield, name string) (string, bool) {
	v, ok := "", false
	for _, f := range fs {
		if f.Name == name {
			v, ok = f.Value, true
		}
	}
	return v, ok
}

func namedValues(fs []hfield, name string) []string {
	var out []string
	for _, f := range fs {
		if f.Name == name {
			out = append(out, f.Value)
		}
	}
	return out
}

// readMessage reads one HTTP/1 message from br: first line, header lines, body (Content-Length, chunked, or - if
// untilClose - everything up to EOF).  noBody: the message cannot have a body (response to HEAD, 1xx/204/304).
func readMessage(br *bufio.Reader, noBody func(first string) bool, untilCloseOK bool) (first string, lines []string, body []byte, err error) {
	first, err = br.ReadString('\n')
	if err != nil {
		return
	}
	first = strings.TrimRight(first, "\r\n")
	cl, chunked := -1, false
	for {
		var l string
		l, err = br.ReadString('\n')
		if err != nil {
			return
		}
		l = strings.TrimRight(l, "\r\n")
		if l == "" {
			break
		}
		lines = append(lines, l)
		if i := strings.IndexByte(l, ':'); i > 0 {
			n, v := strings.ToLower(l[:i]), strings.TrimSpace(l[i+1:])
			if n == "content-length" {
				cl, _ = strconv.Atoi(v)
			}
			if n == "transfer-encoding" && !strings.EqualFold(v, "identity") {
				chunked = true
			}
		}
	}
	if noBody != nil && noBody(first) {
		return
	}
	switch {
	case chunked:
		for {
			var l string
			l, err = br.ReadString('\n')
			if err != nil {
				return
			}
			n, perr := strconv.ParseInt(strings.TrimSpace(strings.SplitN(l, ";", 2)[0]), 16, 64)
			if perr != nil {
				err = perr
				return
			}
			if n == 0 {
				for { // trailers
					l, err = br.ReadString('\n')
					if err != nil || strings.TrimRight(l, "\r\n") == "" {
						return
					}
				}
			}
			b := make([]byte, n+2)
			if _, err = io.ReadFull(br, b); err != nil {
				return
			}
			body = append(body, b[:n]...)
		}
	case cl >= 0:
		body = make([]byte, cl)
		_, err = io.ReadFull(br, body)
	case untilCloseOK:
		body, _ = io.ReadAll(br)
	}
	return
}

// ---------------------------------------------------------------------------------------------
// raw recording upstream with scripted raw responses

type h1Upstream struct {
	ln   net.Listener
	mu   sync.Mutex
	got  map[string][]rawReq // by case id (the value of the x-relay field)
	next map[string]rawResp
}

type rawReq struct {
	first string
	lines []string
	body  []byte
}
type rawResp struct {
	wire       []byte
	closeAfter bool
}

func newH1Upstream() (*h1Upstream, error) {
	ln, err := net.Listen("tcp", "127.0.0.1:0")
	if err != nil {
		return nil, err
	}
	u := &h1Upstream{ln: ln, got: map[string][]rawReq{}, next: map[string]rawResp{}}
	go func() {
		for {
			c, err := ln.Accept()
			if err != nil {
				return
			}
			go u.serve(c)
		}
	}()
	return u, nil
}

func (u *h1Upstream) serve(c net.Conn) {
	defer c.Close()
	br := bufio.NewReader(c)
	for {
		first, lines, body, err := readMessage(br, nil, false)
		if err != nil {
			return
		}
		id, _ := fieldValue(parseFields(lines), "x-relay")
		u.mu.Lock()
		u.got[id] = append(u.got[id], rawReq{first, lines, body})
		r, ok := u.next[id]
		if !ok {
			r = rawResp{wire: []byte("HTTP/1.1 200 OK\r\nContent-Length: 0\r\n\r\n")}
		}
		delete(u.next, id)
		u.mu.Unlock()
		if _, err := c.Write(r.wire); err != nil {
			return
		}
		if r.closeAfter {
			return
		}
	}
}

func (u *h1Upstream) script(id string, r rawResp) {
	u.mu.Lock()
	u.next[id] = r
	u.mu.Unlock()
}
func (u *h1Upstream) taken(id string) []rawReq {
	u.mu.Lock()
	defer u.mu.Unlock()
	g := u.got[id]
	delete(u.got, id)
	delete(u.next, id)
	return g
}

// ---------------------------------------------------------------------------------------------
// generators

var h1Values = []string{"1", "text/html", "*/*", "a=1", "a=1;b=2", "a=1; b=2", "pref=\"x y\"", "k=v;", "", "\"quoted, string\"", "x  y", "1.1 proxy-a", "gzip, deflate",
	"W/\"etag-1\"", "a,b,,c", "=", "q=0.5;level=1", "\xc3\xa9t\xc3\xa9", "v;", "0"}

var h1ReqNames = []string{"accept", "cookie", "via", "accept-language", "x-custom", "x-forwarded-for", "cache-control", "if-none-match", "authorization", "x_under-score", "te", "keep-alive", "upgrade-insecure-requests", "referer"}
var h1RespNames = []string{"set-cookie", "via", "vary", "cache-control", "etag", "x-custom", "warning", "link", "keep-alive", "last-modified", "age", "x_under-score", "www-authenticate", "content-language"}

func randCase(r *Rng, s string) string {
	switch r.Intn(4) {
	case 0:
		return s
	case 1:
		return strings.ToUpper(s)
	case 2: // Canonical-Case
		parts := strings.Split(s, "-")
		for i, p := range parts {
			if p != "" {
				parts[i] = strings.ToUpper(p[:1]) + p[1:]
			}
		}
		return strings.Join(parts, "-")
	}
	b := []byte(s)
	for i := range b {
		if r.Bool() && b[i] >= 'a' && b[i] <= 'z' {
			b[i] -= 32
		}
	}
	return string(b)
}

func renderField(r *Rng, f hfield) string {
	// optional white space: SP only here - fasthttp does not treat HTAB as OWS (see the htab cases)
	pre := []string{" ", "", "  ", "   ", " "}[r.Intn(5)]
	post := []string{"", "", " ", "  ", ""}[r.Intn(5)]
	if f.Value == "" {
		post = ""
	}
	return randCase(r, f.Name) + ":" + pre + f.Value + post + "\r\n"
}

func genBody(r *Rng, big bool) []byte {
	var n int
	switch r.Intn(8) {
	case 0:
		n = 0
	case 1:
		n = 1
	case 2:
		n = []int{15, 16, 17, 255, 256, 257}[r.Intn(6)]
	case 3:
		if big {
			n = []int{4095, 4096, 4097, 8192, 20000, 70000}[r.Intn(6)]
		} else {
			n = 300
		}
	default:
		n = 2 + r.Intn(60)
	}
	b := r.Bytes(n)
	if r.Pct(40) { // text
		for i := range b {
			const alpha = "abcdefghijklmnop \r\n0123"
			b[i] = alpha[int(b[i])%len(alpha)]
		}
	}
	return b
}

func chunkedWire(r *Rng, body []byte) []byte {
	var w bytes.Buffer
	for off := 0; off < len(body); {
		n := 1 + r.Intn(40)
		if r.Pct(10) {
			n = 1 + r.Intn(5000)
		}
		if off+n > len(body) {
			n = len(body) - off
		}
		fmt.Fprintf(&w, "%x\r\n", n)
		w.Write(body[off : off+n])
		w.WriteString("\r\n")
		off += n
	}
	w.WriteString("0\r\n\r\n")
	return w.Bytes()
}

type h1ReqSpec struct {
	multipart bool
	msg       hmsg
	framing   string // none | cl | chunked
	expect    bool
	wireHead  string
}

func genH1Request(r *Rng, big bool, id string) h1ReqSpec {
	var sp h1ReqSpec
	m := &sp.msg
	m.Method = []string{"GET", "GET", "POST", "POST", "PUT", "HEAD", "DELETE", "OPTIONS", "PATCH"}[r.Intn(9)]
	m.Target = []string{"/", "/h1/a", "/h1/b?x=1&y=%20", "/h1//c/../d"}[r.Intn(4)]
	var fs []hfield
	add := func(n, v string) { fs = append(fs, hfield{n, v}) }
	for i, k := 0, r.Intn(9); i < k; i++ {
		n := h1ReqNames[r.Intn(len(h1ReqNames))]
		add(n, h1Values[r.Intn(len(h1Values))])
		if r.Pct(30) { // the same field again, on another line
			add(n, h1Values[r.Intn(len(h1Values))])
		}
	}
	if r.Pct(45) {
		add("cookie", []string{"a=1;b=2", "sid=abc; theme=\"dark mode\"", "k=v;", "a=1", ""}[r.Intn(5)])
		if r.Pct(50) {
			add("cookie", []string{"c=3", "pref=\"x y\"; z=", "=novalue"}[r.Intn(3)])
		}
	}
	if r.Pct(60) {
		add("user-agent", []string{"vh/1.0", "Mozilla/5.0 (X11; Linux) Gecko", ""}[r.Intn(3)])
		if r.Pct(10) {
			add("user-agent", "second/2")
		}
	}
	switch r.Intn(8) {
	case 0:
		add("connection", "keep-alive")
	case 1:
		add("connection", "close")
	case 2:
		add("connection", "keep-alive")
		add("connection", "close")
	case 3:
		add("connection", "close")
		add("connection", "Keep-Alive")
	case 4:
		add("connection", "TE")
	}
	hasBody := m.Method != "GET" && m.Method != "HEAD" && m.Method != "DELETE" && m.Method != "OPTIONS" || r.Pct(8)
	sp.framing = "none"
	if hasBody {
		m.Body = genBody(r, big)
		sp.framing = []string{"cl", "cl", "chunked"}[r.Intn(3)]
		if r.Pct(65) {
			add("content-type", []string{"application/json", "text/plain; charset=utf-8", "application/octet-stream", "application/x-www-form-urlencoded"}[r.Intn(4)])
			if r.Pct(8) {
				add("content-type", "text/second")
			}
		}
		if r.Pct(12) { // a well-formed multipart/form-data body: preamble, parts with extra header fields, epilogue
			b := []string{"vhB0undary", "x", "----WebKitFormBoundary7MA4YWxk"}[r.Intn(3)]
			var mb bytes.Buffer
			if r.Bool() {
				mb.WriteString("This is the preamble.\r\n")
			}
			for i, k := 0, 1+r.Intn(3); i < k; i++ {
				mb.WriteString("--" + b + "\r\n")
				if r.Bool() {
					mb.WriteString("content-type: text/plain\r\n")
				}
				fmt.Fprintf(&mb, "Content-Disposition: form-data; name=\"f%d\"", i)
				if r.Bool() {
					fmt.Fprintf(&mb, "; filename=\"f%d.bin\"", i)
				}
				mb.WriteString("\r\n")
				if r.Bool() {
					mb.WriteString("X-Part-Extra: keep me\r\n")
				}
				mb.WriteString("\r\n")
				mb.Write(genBody(r, false))
				mb.WriteString("\r\n")
			}
			mb.WriteString("--" + b + "--\r\n")
			if r.Bool() {
				mb.WriteString("epilogue")
			}
			m.Body = mb.Bytes()
			for i := range fs {
				if fs[i].Name == "content-type" {
					fs[i].Name = "x-was-content-type"
				}
			}
			add("content-type", "multipart/form-data; boundary="+b)
			sp.multipart = true
		}
		if r.Pct(12) && len(m.Body) > 0 {
			add("expect", "100-continue")
			sp.expect = true
		}
	} else if r.Pct(10) {
		add("content-type", "text/x-nobody")
	}
	// shuffle, then Host somewhere
	for i := len(fs) - 1; i > 0; i-- {
		j := r.Intn(i + 1)
		if fs[i].Name != fs[j].Name { // keep the relative order of same-name fields as generated
			fs[i], fs[j] = fs[j], fs[i]
		}
	}
	host := []string{"test.local", "Test.Local", "TEST.LOCAL:8080", "test.local"}[r.Intn(4)]
	pos := r.Intn(len(fs) + 1)
	fs = append(fs[:pos], append([]hfield{{"host", host}, {"x-relay", id}}, fs[pos:]...)...)
	m.Fields = fs
	m.BodyN = len(m.Body)
	var w strings.Builder
	w.WriteString(m.Method + " " + m.Target + " HTTP/1.1\r\n")
	for _, f := range fs {
		w.WriteString(renderField(r, f))
	}
	switch sp.framing {
	case "cl":
		w.WriteString(randCase(r, "content-length") + ": " + strconv.Itoa(len(m.Body)) + "\r\n")
	case "chunked":
		w.WriteString(randCase(r, "transfer-encoding") + ": chunked\r\n")
	}
	w.WriteString("\r\n")
	sp.wireHead = w.String()
	return sp
}

type h1RespSpec struct {
	msg     hmsg
	framing string // cl | chunked | close | none
	wire    []byte
}

func genH1Response(r *Rng, head bool, big bool) h1RespSpec {
	var sp h1RespSpec
	m := &sp.msg
	m.Status = []int{200, 200, 200, 201, 204, 304, 404, 500, 206}[r.Intn(9)]
	var fs []hfield
	add := func(n, v string) { fs = append(fs, hfield{n, v}) }
	for i, k := 0, r.Intn(8); i < k; i++ {
		n := h1RespNames[r.Intn(len(h1RespNames))]
		add(n, h1Values[r.Intn(len(h1Values))])
		if r.Pct(30) {
			add(n, h1Values[r.Intn(len(h1Values))])
		}
	}
	if r.Pct(50) {
		add("set-cookie", "sid=abc; Path=/; HttpOnly")
		if r.Pct(60) {
			add("set-cookie", []string{"sid=def; Path=/x", "theme=\"dark mode\"; Max-Age=3", "k=;", ""}[r.Intn(4)])
		}
	}
	if r.Pct(50) {
		add("date", []string{"Mon, 01 Jan 2001 00:00:00 GMT", "Tue, 15 Nov 1994 08:12:31 GMT"}[r.Intn(2)])
	}
	if r.Pct(50) {
		add("server", []string{"up/1.0", "nginx", ""}[r.Intn(3)])
		if r.Pct(8) {
			add("server", "second")
		}
	}
	if r.Pct(25) {
		add("content-encoding", []string{"gzip", "identity", "br"}[r.Intn(3)])
	}
	switch r.Intn(6) {
	case 0:
		add("connection", "keep-alive")
	case 1:
		add("connection", "keep-alive")
		add("keep-alive", "timeout=5, max=100")
	}
	noBody := m.Status == 204 || m.Status == 304
	sp.framing = "none"
	if !noBody {
		m.Body = genBody(r, big)
		sp.framing = []string{"cl", "cl", "chunked", "close"}[r.Intn(4)]
		if r.Pct(65) {
			add("content-type", []string{"application/json", "text/html", "application/octet-stream", "image/png"}[r.Intn(4)])
		}
	} else if r.Pct(20) {
		add("content-type", "text/x-nobody")
	}
	for i := len(fs) - 1; i > 0; i-- {
		j := r.Intn(i + 1)
		if fs[i].Name != fs[j].Name {
			fs[i], fs[j] = fs[j], fs[i]
		}
	}
	m.Fields = fs
	var w bytes.Buffer
	fmt.Fprintf(&w, "HTTP/1.1 %d %s\r\n", m.Status, map[int]string{200: "OK", 201: "Created", 204: "No Content", 304: "Not Modified", 404: "Not Found", 500: "Internal Server Error", 206: "Partial Content"}[m.Status])
	for _, f := range fs {
		w.WriteString(renderField(r, f))
	}
	body := m.Body
	if head {
		// a HEAD response carries the header section of the GET response and no body
		body = nil
		if sp.framing == "chunked" || sp.framing == "close" {
			sp.framing = "cl"
		}
	}
	switch sp.framing {
	case "cl":
		w.WriteString(randCase(r, "content-length") + ": " + strconv.Itoa(len(m.Body)) + "\r\n\r\n")
		w.Write(body)
	case "chunked":
		w.WriteString(randCase(r, "transfer-encoding") + ": chunked\r\n\r\n")
		w.Write(chunkedWire(r, body))
	case "close":
		w.WriteString("\r\n")
		w.Write(body)
	default:
		w.WriteString("\r\n")
	}
	if head {
		m.Decl = len(m.Body)
		m.Body = nil
	}
	m.BodyN = len(m.Body)
	m.CloseD = sp.framing == "close"
	sp.wire = w.Bytes()
	return sp
}

// ---------------------------------------------------------------------------------------------
// one round trip

type h1Result struct {
	upGot   *hmsg
	cliGot  *hmsg
	problem string
	onConn  int // how many round trips the downstream connection had already served
}

// h1Client keeps its connection across round trips (keep-alive): several requests of a history go through the SAME
// downstream stream connection of MOSN.
type h1Client struct {
	addr  string
	c     net.Conn
	br    *bufio.Reader
	reuse int // round trips made on the current connection
}

func (hc *h1Client) drop() {
	if hc.c != nil {
		hc.c.Close()
		hc.c = nil
	}
}

func h1RoundTrip(addr string, up *h1Upstream, r *Rng, id string, rq h1ReqSpec, rs h1RespSpec) h1Result {
	hc := &h1Client{addr: addr}
	defer hc.drop()
	return hc.roundTrip(up, r, id, rq, rs)
}

func (hc *h1Client) roundTrip(up *h1Upstream, r *Rng, id string, rq h1ReqSpec, rs h1RespSpec) (res h1Result) {
	up.script(id, rawResp{wire: rs.wire, closeAfter: rs.framing == "close"})
	defer up.taken(id)
	defer func() {
		if res.problem != "" {
			hc.drop()
		}
	}()
	if hc.c == nil {
		c, err := net.DialTimeout("tcp", hc.addr, 2*time.Second)
		if err != nil {
			res.problem = err.Error()
			return res
		}
		hc.c, hc.br, hc.reuse = c, bufio.NewReader(c), 0
	}
	c, br := hc.c, hc.br
	res.onConn = hc.reuse
	hc.reuse++
	c.SetDeadline(time.Now().Add(4 * time.Second))
	if _, err := c.Write([]byte(rq.wireHead)); err != nil {
		res.problem = err.Error()
		return res
	}
	if rq.expect {
		first, _, _, err := readMessage(br, func(string) bool { return true }, false)
		if err != nil || !strings.Contains(first, " 100 ") {
			res.problem = fmt.Sprintf("no 100 Continue (%q, %v)", first, err)
			return res
		}
	}
	switch rq.framing {
	case "cl":
		c.Write(rq.msg.Body)
	case "chunked":
		c.Write(chunkedWire(r, rq.msg.Body))
	}
	head := rq.msg.Method == "HEAD"
	first, lines, body, err := readMessage(br, func(first string) bool {
		return head || strings.Contains(first, " 204 ") || strings.Contains(first, " 304 ")
	}, true)
	if err != nil {
		res.problem = fmt.Sprintf("reading the response: %v (status line %q)", err, first)
		return res
	}
	st := 0
	if p := strings.SplitN(first, " ", 3); len(p) >= 2 {
		st, _ = strconv.Atoi(p[1])
	}
	res.cliGot = &hmsg{Status: st, Fields: withoutFraming(parseFields(lines)), Body: body, BodyN: len(body), Decl: rs.msg.Decl, CloseD: rs.msg.CloseD}
	// the connection is over if the response says so (MOSN closes after a request with "Connection: close"; it also
	// passes the close flag of a close-delimited upstream response on)
	for _, v := range namedValues(res.cliGot.Fields, "connection") {
		if strings.EqualFold(v, "close") {
			hc.drop()
		}
	}
	got := up.taken(id)
	if len(got) != 1 {
		res.problem = fmt.Sprintf("the upstream saw %d requests", len(got))
		return res
	}
	g := got[0]
	p := strings.SplitN(g.first, " ", 3)
	um := &hmsg{Fields: withoutFraming(parseFields(g.lines)), Body: g.body, BodyN: len(g.body)}
	if len(p) == 3 {
		um.Method, um.Target = p[0], p[1]
	}
	res.upGot = um
	return res
}

// ---------------------------------------------------------------------------------------------
// finder: the property on the implementation

var h1ReqExceptions = map[string]bool{"host": true, "user-agent": true, "content-type": true, "connection": true, "expect": true}
var h1RespExceptions = map[string]bool{"server": true, "content-type": true, "content-encoding": true, "connection": true, "date": true}

func sameStrings(a, b []string) bool {
	if len(a) != len(b) {
		return false
	}
	for i := range a {
		if a[i] != b[i] {
			return false
		}
	}
	return true
}

// h1Compare reports every end-to-end alteration between the message sent and the message that arrived.
// singles: fields that may legitimately be reduced to one occurrence; for them an alteration is reported when exactly one
// was sent and a different one (or none) arrived, or none was sent and one arrived.
func h1Compare(run *Run, dir string, sent, got *hmsg, exceptions map[string]bool, rep interface{}) {
	h1CompareTag(run, dir, "", sent, got, exceptions, rep)
}

func h1CompareTag(run *Run, dir, bodyTag string, sent, got *hmsg, exceptions map[string]bool, rep interface{}) {
	names := map[string]bool{}
	for _, f := range sent.Fields {
		names[f.Name] = true
	}
	for _, f := range got.Fields {
		names[f.Name] = true
	}
	for n := range names {
		if framing(n) {
			continue
		}
		sv, gv := namedValues(sent.Fields, n), namedValues(got.Fields, n)
		if !exceptions[n] {
			if !sameStrings(sv, gv) {
				run.Fail("http1:header-field-altered:"+n, fmt.Sprintf("%s: field %q sent as %q arrived as %q", dir, n, sv, gv), rep)
			}
			continue
		}
		switch n {
		case "connection", "expect":
			// hop-by-hop (RFC 7230 6.1) / handled by the proxy itself (RFC 7231 5.1.1)
		case "host":
			if len(sv) == 1 && (len(gv) != 1 || !strings.EqualFold(sv[0], gv[0])) {
				run.Fail("http1:header-field-altered:host", fmt.Sprintf("%s: Host %q arrived as %q", dir, sv, gv), rep)
			}
		case "date":
			if len(sv) == 1 && !sameStrings(sv, gv) {
				run.Fail("http1:header-field-altered:date", fmt.Sprintf("%s: the origin's Date %q arrived as %q", dir, sv[0], gv), rep)
			}
		default: // user-agent, server, content-type, content-encoding
			var nonEmpty []string
			for _, v := range sv {
				if v != "" {
					nonEmpty = append(nonEmpty, v)
				}
			}
			if len(sv) <= 1 && !sameStrings(nonEmpty, gv) && !sameStrings(sv, gv) {
				sig := "http1:header-field-altered:" + n
				if len(nonEmpty) == 0 {
					sig = "http1:header-field-invented:" + n + ":" + dir
				}
				run.Fail(sig, fmt.Sprintf("%s: field %q sent as %q arrived as %q", dir, n, sv, gv), rep)
			}
		}
	}
	if !bytes.Equal(sent.Body, got.Body) {
		run.Fail("http1:body-altered:"+dir+bodyTag, fmt.Sprintf("%s: body of %d bytes arrived as %d bytes", dir, len(sent.Body), len(got.Body)), rep)
	}
}

// ---------------------------------------------------------------------------------------------
// Coq printers

func coqFields(fs []hfield) string {
	var xs []string
	for _, f := range fs {
		xs = append(xs, fmt.Sprintf("(%s, %s)", CoqString(f.Name), CoqBytes([]byte(f.Value))))
	}
	return CoqList(xs)
}
func coqReq(m *hmsg) string {
	return fmt.Sprintf("(mkReq %s %s %s)", CoqString(m.Method), coqFields(m.Fields), CoqBytes(m.Body))
}
func coqResp(m *hmsg) string {
	return fmt.Sprintf("(mkResp %d%%nat %s %s %d%%nat %s)", m.Status, coqFields(m.Fields), CoqBytes(m.Body), m.Decl, CoqBool(m.CloseD))
}

const h1ShardHeader = "From MV Require Import Model.RelayHttp Gen.RelayHttpSrc.\nFrom Coq Require Import List NArith String.\nImport ListNotations.\nOpen Scope string_scope.\n"

func asciiOnly(fs []hfield) bool {
	for _, f := range fs {
		if strings.ContainsAny(f.Name, "\"") {
			return false
		}
	}
	return true
}

func http1Part(run *Run, e *env) error {
	he, err := initHTTPEnv(e)
	if err != nil {
		return err
	}
	up, err := newH1Upstream()
	if err != nil {
		return err
	}
	// a second listener/cluster pair would do as well; re-point the URL part's cluster at the scripted upstream
	if err := e.repointHTTPCluster(up.ln.Addr().String()); err != nil {
		return err
	}
	r := run.R
	qsh := run.NewShard(h1ShardHeader, "req_case", "req_mismatches src_hsw")
	psh := run.NewShard(h1ShardHeader, "resp_case", "resp_mismatches src_hsw")
	n := run.N(220, 6000)
	// generate everything first; then run it as keep-alive HISTORIES (2-6 consecutive messages share one downstream
	// connection = one server stream connection, its buffers and its request/response objects; the upstream pool is shared by
	// all) on three clients at the same time; then evaluate message by message: the model and the finder judge every message
	// on its own, so what arrives for message k of a history must be what arrives when it is sent alone
	type h1Case struct {
		id   string
		rq   h1ReqSpec
		rs   h1RespSpec
		res  h1Result
		hist int
	}
	cases := make([]*h1Case, n)
	var hists [][]*h1Case
	for i := 0; i < n; {
		k := 2 + r.Intn(5)
		if r.Pct(15) {
			k = 1
		}
		var h []*h1Case
		for j := 0; j < k && i < n; j, i = j+1, i+1 {
			big := r.Pct(15)
			id := fmt.Sprintf("c%d", i)
			rq := genH1Request(r, big, id)
			rs := genH1Response(r, rq.msg.Method == "HEAD", big)
			cases[i] = &h1Case{id: id, rq: rq, rs: rs, hist: len(hists)}
			h = append(h, cases[i])
		}
		hists = append(hists, h)
	}
	var wg sync.WaitGroup
	work := make(chan []*h1Case, len(hists))
	for _, h := range hists {
		work <- h
	}
	close(work)
	for w := 0; w < 3; w++ {
		wr := NewRng(r.U64())
		wg.Add(1)
		go func(wr *Rng) {
			defer wg.Done()
			for h := range work {
				hc := &h1Client{addr: he.addr}
				for _, k := range h {
					k.res = hc.roundTrip(up, wr, k.id, k.rq, k.rs)
				}
				hc.drop()
			}
		}(wr)
	}
	wg.Wait()
	for i := 0; i < n; i++ {
		rq, rs, res := cases[i].rq, cases[i].rs, cases[i].res
		if res.onConn > 0 {
			run.Sum.Distribution["http1:on-reused-downstream-connection"]++
		}
		kind := fmt.Sprintf("%s/%s->%d/%s", rq.msg.Method, rq.framing, rs.msg.Status, rs.framing)
		if rq.multipart {
			kind = "multipart:" + kind
		}
		run.Count(fmt.Sprintf("h1|%d|%s|%v|%v", i, kind, rq.msg.Fields, rs.msg.Fields), len(rq.msg.Fields)+len(rs.msg.Fields) >= 4, "http1:"+kind)
		rep := map[string]interface{}{"part": "http1-message", "request": rq.msg, "request_head_on_the_wire": rq.wireHead, "response": rs.msg,
			"response_framing": rs.framing, "upstream_received": res.upGot, "client_received": res.cliGot,
			"history": cases[i].hist, "earlier_round_trips_on_this_connection": res.onConn}
		if i%40 == 0 {
			run.Sample(rep)
		}
		if res.problem != "" {
			run.Fail("http1:no-round-trip", "the message did not make it through the proxy: "+res.problem+" ("+kind+")", rep)
			continue
		}
		if res.upGot.Method != rq.msg.Method {
			run.Fail("http1:method-altered", fmt.Sprintf("method %s arrived as %s", rq.msg.Method, res.upGot.Method), rep)
		}
		tag := ""
		if rq.multipart {
			tag = ":multipart-form-data"
		}
		h1CompareTag(run, "request", tag, &rq.msg, res.upGot, h1ReqExceptions, rep)
		if res.cliGot.Status != rs.msg.Status {
			run.Fail("http1:status-altered", fmt.Sprintf("status %d arrived as %d", rs.msg.Status, res.cliGot.Status), rep)
		}
		h1Compare(run, "response", &rs.msg, res.cliGot, h1RespExceptions, rep)
		// model
		if len(rq.msg.Body)+len(rs.msg.Body) > 1500 {
			run.Sum.Distribution["http1-finder-only(large)"]++
			continue
		}
		qsh.Add(fmt.Sprintf("mkReqCase %s %s", coqReq(&rq.msg), coqReq(res.upGot)), rep)
		closing := false
		if cv := namedValues(rq.msg.Fields, "connection"); len(cv) > 0 && cv[len(cv)-1] == "close" {
			closing = true
		}
		now, _ := fieldValue(res.cliGot.Fields, "date")
		psh.Add(fmt.Sprintf("mkRespCase %s %s %s %s %s", CoqBool(rq.msg.Method == "HEAD"), CoqBool(closing), CoqBytes([]byte(now)), coqResp(&rs.msg), coqResp(res.cliGot)), rep)
		if qsh.Len() >= 150 {
			qsh.Close()
			psh.Close()
			qsh = run.NewShard(h1ShardHeader, "req_case", "req_mismatches src_hsw")
			psh = run.NewShard(h1ShardHeader, "resp_case", "resp_mismatches src_hsw")
		}
	}
	qsh.Close()
	psh.Close()

	// a request without body semantics that declares chunked coding and carries an empty body: the forwarded message
	// must be complete (the proxy re-frames it), not "Transfer-Encoding: chunked" without any chunk
	for i, m := range []string{"GET", "HEAD", "GET"} {
		id := fmt.Sprintf("e%d", i)
		var rq h1ReqSpec
		rq.msg = hmsg{Method: m, Target: "/h1/empty-chunked", Fields: []hfield{{"host", "test.local"}, {"x-relay", id}, {"accept", "*/*"}}}
		rq.framing = "chunked"
		rq.wireHead = m + " /h1/empty-chunked HTTP/1.1\r\nHost: test.local\r\nX-Relay: " + id + "\r\nAccept: */*\r\nTransfer-Encoding: chunked\r\n\r\n"
		rs := genH1Response(r, m == "HEAD", false)
		res := h1RoundTrip(he.addr, up, r, id, rq, rs)
		run.Count("h1emptychunked|"+m+id, true, "http1:empty-chunked-body")
		rep := map[string]interface{}{"part": "http1-empty-chunked", "request_head_on_the_wire": rq.wireHead, "upstream_received": res.upGot, "problem": res.problem}
		if res.problem != "" {
			run.Fail("http1:framing:chunked-declared-without-body:"+m, "a "+m+" request with an empty chunked body is not forwarded as a complete message (the upstream, which honours the declared chunked coding, never sees its end): "+res.problem, rep)
			continue
		}
		h1Compare(run, "request", &rq.msg, res.upGot, h1ReqExceptions, rep)
	}

	// HTAB is optional white space too (RFC 7230 3.2.3); fasthttp only strips SP.  A tab after the Host value ends up
	// in the host, the request URI no longer parses and the stream layer forwards "/" instead of the target.
	for i, tgt := range []string{"/h1/tab/a?x=1", "/h1/tab/b"} {
		id := fmt.Sprintf("t%d", i)
		var rq h1ReqSpec
		rq.msg = hmsg{Method: "GET", Target: tgt, Fields: []hfield{{"host", "test.local"}, {"x-relay", id}, {"accept", "*/*"}}}
		rq.framing = "none"
		rq.wireHead = "GET " + tgt + " HTTP/1.1\r\nHost: test.local\t\r\nX-Relay: " + id + "\r\nAccept:\t*/*\t\r\n\r\n"
		rs := genH1Response(r, false, false)
		res := h1RoundTrip(he.addr, up, r, id, rq, rs)
		run.Count("h1tab|"+tgt, true, "http1:htab-ows")
		rep := map[string]interface{}{"part": "http1-htab-ows", "request_head_on_the_wire": rq.wireHead, "upstream_received": res.upGot, "problem": res.problem}
		if res.problem != "" {
			run.Fail("http1:htab-after-host:no-round-trip", "a request whose Host value is followed by HTAB did not make it through the proxy: "+res.problem, rep)
			continue
		}
		if res.upGot.Target != tgt {
			run.Fail("http1:htab-after-host:request-target-altered", fmt.Sprintf("request target %q was forwarded as %q (the Host value was followed by a horizontal tab)", tgt, res.upGot.Target), rep)
		}
		if v := namedValues(res.upGot.Fields, "accept"); len(v) != 1 || strings.Trim(v[0], " \t") != "*/*" {
			run.Fail("http1:header-field-altered:accept", fmt.Sprintf("Accept sent with HTAB as optional white space arrived as %q", v), rep)
		}
	}
	return nil
}
