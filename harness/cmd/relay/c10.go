package main

import (
	"context"
	"fmt"
	"io"
	"net"
	"strings"
	"sync"
	"time"

	"mosn.io/api"
	"mosn.io/mosn/pkg/config/v2"
	"mosn.io/mosn/pkg/metrics"
	"mosn.io/mosn/pkg/types"

	. "vh/vhlib"
)

// ---------------------------------------------------------------------------------------------
// hooks on the upstream client connections MOSN creates (through the public RegisterClientConnFactory extension
// point): capture the connection object, optionally hold the creating goroutine (a slow dial set-up) or the
// Connected callback (a slow listener) - legal schedules made deterministic.

type acctHooks struct {
	mu            sync.Mutex
	conns         []types.ClientConnection
	gate          chan struct{} // non-nil: every factory call reports on arrived and waits for gate to be closed
	arrived       chan struct{}
	connectedHold chan struct{} // non-nil: the Connected event of every new connection is held until it is closed
	connectedSeen chan struct{}
	closeSeen     chan struct{} // a close event of an upstream connection has been delivered to the listeners
}

var acctHooksCur struct {
	mu sync.Mutex
	h  *acctHooks
}

func getAcctHooks() *acctHooks {
	acctHooksCur.mu.Lock()
	defer acctHooksCur.mu.Unlock()
	return acctHooksCur.h
}
func setAcctHooks(h *acctHooks) {
	acctHooksCur.mu.Lock()
	acctHooksCur.h = h
	acctHooksCur.mu.Unlock()
}

type holdListener struct{ h *acctHooks }

func (l *holdListener) OnEvent(ev api.ConnectionEvent) {
	h := l.h
	if ev == api.Connected {
		h.mu.Lock()
		hold, seen := h.connectedHold, h.connectedSeen
		h.mu.Unlock()
		if hold != nil {
			select {
			case seen <- struct{}{}:
			default:
			}
			<-hold
		}
	}
	if ev.IsClose() {
		h.mu.Lock()
		cs := h.closeSeen
		h.mu.Unlock()
		if cs != nil {
			select {
			case cs <- struct{}{}:
			default:
			}
		}
	}
}

func (h *acctHooks) onCreate(cc types.ClientConnection) {
	h.mu.Lock()
	h.conns = append(h.conns, cc)
	gate, arrived := h.gate, h.arrived
	h.mu.Unlock()
	cc.AddConnectionEventListener(&holdListener{h: h})
	if gate != nil {
		arrived <- struct{}{}
		<-gate
	}
}

// ---------------------------------------------------------------------------------------------
// clusters and listeners

type acctCluster struct {
	name    string
	kind    string // acc | ref1 | ref3 | tmo1 | tmo2 | nohost | imm
	maxc    int
	tries   int
	addr    string // listener address
	up      *upServer
	outcome string // model outcome of one dial
	cfg     v2.Cluster
	hosts   []v2.Host
}

type acctEnv struct {
	e        *env
	clusters map[string]*acctCluster
	immUp    *immServer
}

// immServer accepts and closes at once
type immServer struct{ ln net.Listener }

func newImmServer() (*immServer, error) {
	ln, err := net.Listen("tcp", "127.0.0.1:0")
	if err != nil {
		return nil, err
	}
	go func() {
		for {
			c, err := ln.Accept()
			if err != nil {
				return
			}
			c.Close()
		}
	}()
	return &immServer{ln: ln}, nil
}

func (ae *acctEnv) add(kind string, maxc int, variant string, idle time.Duration, connectTimeout ...time.Duration) (*acctCluster, error) {
	e := ae.e
	name := fmt.Sprintf("acct-%s-m%d%s", kind, maxc, variant)
	c := &acctCluster{name: name, kind: kind, maxc: maxc}
	cc := v2.Cluster{Name: name, ClusterType: v2.SIMPLE_CLUSTER, LbType: v2.LB_ROUNDROBIN, ConnBufferLimitBytes: 32768}
	if maxc > 0 {
		cc.CirBreThresholds = v2.CircuitBreakers{Thresholds: []v2.Thresholds{{MaxConnections: uint32(maxc)}}}
	}
	if idle > 0 {
		cc.IdleTimeout = &api.DurationConfig{Duration: idle}
	}
	var hosts []v2.Host
	switch kind {
	case "acc":
		up, err := newUpServer(nil)
		if err != nil {
			return nil, err
		}
		c.up = up
		hosts = []v2.Host{{HostConfig: v2.HostConfig{Address: up.ln.Addr().String()}}}
		c.tries, c.outcome = 1, "ConnOk"
	case "imm":
		hosts = []v2.Host{{HostConfig: v2.HostConfig{Address: ae.immUp.ln.Addr().String()}}}
		c.tries, c.outcome = 1, "ConnOkEarly"
	case "ref1", "ref3":
		n := 1
		if kind == "ref3" {
			n = 3
		}
		for i := 0; i < n; i++ {
			hosts = append(hosts, v2.Host{HostConfig: v2.HostConfig{Address: fmt.Sprintf("127.0.0.1:%d", 1+i)}}) // nobody listens on ports 1..3
		}
		c.tries, c.outcome = n, "Refused"
	case "tmo1", "tmo2":
		n := 1
		if kind == "tmo2" {
			n = 2
		}
		for i := 0; i < n; i++ {
			hosts = append(hosts, v2.Host{HostConfig: v2.HostConfig{Address: fmt.Sprintf("127.0.0.1:%d", 9+i)}})
		}
		cc.ConnectTimeout = &api.DurationConfig{Duration: time.Nanosecond} // every dial times out at once
		c.tries, c.outcome = n, "TimedOut"
	case "nohost":
		c.tries = 0
	}
	if len(connectTimeout) > 0 {
		cc.ConnectTimeout = &api.DurationConfig{Duration: connectTimeout[0]}
	}
	c.cfg, c.hosts = cc, hosts
	if err := e.cm.AddOrUpdateClusterAndHost(cc, hosts); err != nil {
		return nil, err
	}
	il, ta, addr := boundListener()
	fc := v2.FilterChain{FilterChainConfig: v2.FilterChainConfig{Filters: []v2.Filter{{Type: v2.TCP_PROXY, Config: map[string]interface{}{"cluster": name}}}}}
	lc := &v2.Listener{ListenerConfig: v2.ListenerConfig{Name: "l-" + name, AddrConfig: addr, BindToPort: true, Network: "tcp", FilterChains: []v2.FilterChain{fc}}, Addr: ta, InheritListener: il}
	if _, err := e.handler.AddOrUpdateListener(lc); err != nil {
		return nil, err
	}
	c.addr = addr
	ae.clusters[name] = c
	return c, nil
}

func initAcctEnv() (*acctEnv, error) {
	// short read time-out: the idle checkers (upstream: cluster idle_timeout, downstream: default) tick on it
	types.DefaultConnReadTimeout = 40 * time.Millisecond
	e, err := initEnv()
	if err != nil {
		return nil, err
	}
	ae := &acctEnv{e: e, clusters: map[string]*acctCluster{}}
	if ae.immUp, err = newImmServer(); err != nil {
		return nil, err
	}
	for _, kind := range []string{"acc", "ref1", "ref3", "tmo1", "tmo2", "nohost"} {
		for _, m := range []int{0, 1, 2} {
			if _, err := ae.add(kind, m, "", 0); err != nil {
				return nil, err
			}
		}
	}
	for _, m := range []int{0, 1, 2} {
		if _, err := ae.add("imm", m, "", 0); err != nil { // close before Connect returns (held Connected callback)
			return nil, err
		}
		if _, err := ae.add("acc", m, "-conc", 0); err != nil { // concurrent admissions
			return nil, err
		}
	}
	if _, err := ae.add("acc", 1, "-idle", 30*time.Millisecond); err != nil {
		return nil, err
	}
	if _, err := ae.add("imm", 2, "-natural", 0); err != nil { // the same race without any held callback (finder only)
		return nil, err
	}
	for _, m := range []int{0, 2} { // many sessions opening and closing at the same time (finder only)
		if _, err := ae.add("acc", m, "-storm", 0); err != nil {
			return nil, err
		}
	}
	for i, ct := range []time.Duration{25 * time.Microsecond, 70 * time.Microsecond, 180 * time.Microsecond} {
		// connect time-out in the range of a loopback dial: time-out and success both happen
		if _, err := ae.add("acc", 2, fmt.Sprintf("-edge%d", i), 0, ct); err != nil {
			return nil, err
		}
	}
	if _, err := ae.add("acc", 0, "-upd", 0); err != nil { // max_connections changed while connections are open
		return nil, err
	}
	e.handler.StartListeners(context.Background())
	for _, c := range ae.clusters {
		ok := false
		for i := 0; i < 400 && !ok; i++ {
			l, err := net.DialTimeout("tcp", c.addr, 200*time.Millisecond)
			if err == nil {
				// this probe is a session of its own: let it end before anything is measured
				l.SetReadDeadline(time.Now().Add(50 * time.Millisecond))
				io.Copy(io.Discard, l)
				l.Close()
				ok = true
			} else {
				time.Sleep(5 * time.Millisecond)
			}
		}
		if !ok {
			return nil, fmt.Errorf("listener of %s does not accept", c.name)
		}
	}
	time.Sleep(100 * time.Millisecond)
	for _, c := range ae.clusters {
		if c.up != nil {
			for drained := false; !drained; {
				select {
				case u := <-c.up.accept:
					u.c.Close()
				case <-time.After(20 * time.Millisecond):
					drained = true
				}
			}
		}
	}
	time.Sleep(100 * time.Millisecond)
	return ae, nil
}

func numConns(e *env) uint64 {
	return e.handler.(interface{ NumConnections() uint64 }).NumConnections()
}

// ---------------------------------------------------------------------------------------------
// reading the real counters

type acctObs struct {
	Res   int64  `json:"connections_cur"`
	Host  int64  `json:"host_upstream_connection_active"`
	Clu   int64  `json:"cluster_upstream_connection_active"`
	Down  int64  `json:"handler_connections"`
	Ovf   int    `json:"refused"`
	After string `json:"after"`
}

func (ae *acctEnv) read(c *acctCluster, downBase int64) acctObs {
	snap := ae.e.cm.GetClusterSnapshot(context.Background(), c.name)
	var o acctObs
	o.Res = snap.ClusterInfo().ResourceManager().Connections().Cur()
	o.Clu = snap.ClusterInfo().Stats().UpstreamConnectionActive.Count()
	snap.HostSet().Range(func(h types.Host) bool {
		o.Host += h.HostStats().UpstreamConnectionActive.Count()
		return true
	})
	o.Down = int64(numConns(ae.e)) - downBase
	return o
}

// connTotal: the cluster's monotone upstream_connection_total - the last statement of the accounting after a
// successful Connect; used as a completion signal only.
func (ae *acctEnv) connTotal(c *acctCluster) int64 {
	return ae.e.cm.GetClusterSnapshot(context.Background(), c.name).ClusterInfo().Stats().UpstreamConnectionTotal.Count()
}

// readStable reads until three consecutive reads 300us apart agree (the stats of a close event are updated after the
// sockets are closed, on MOSN's goroutines).
func (ae *acctEnv) readStable(c *acctCluster, downBase int64) acctObs {
	last := ae.read(c, downBase)
	same := 0
	dl := time.Now().Add(2 * time.Second)
	for same < 3 && time.Now().Before(dl) {
		time.Sleep(300 * time.Microsecond)
		cur := ae.read(c, downBase)
		if cur == last {
			same++
		} else {
			same = 0
			last = cur
		}
	}
	return last
}

// ---------------------------------------------------------------------------------------------
// sessions

type acctSess struct {
	idx    int
	cli    net.Conn
	up     *upConn
	cc     types.ClientConnection
	estab  bool // the upstream peer accepted and nothing has been closed yet
	ended  bool
	cliEOF chan struct{}
}

func (s *acctSess) watch() {
	s.cliEOF = make(chan struct{})
	go func() {
		io.Copy(io.Discard, s.cli)
		close(s.cliEOF)
	}()
}

// barrier: one byte through the relay.  The downstream read loop is started after initializeUpstreamConnection has
// returned, so once the upstream peer has the byte the set-up (accounting included) is over.
func (s *acctSess) barrier(ar *acctRun) {
	before := len(s.up.received())
	if _, err := s.cli.Write([]byte{'x'}); err != nil {
		return
	}
	if !s.up.waitLen(before+1, acctLimit) {
		ar.run.Fail("l4:stalled:relay", "a byte sent after the set-up did not reach the upstream", ar.rep)
	}
}

func (s *acctSess) waitCliEOF(d time.Duration) bool {
	select {
	case <-s.cliEOF:
		return true
	case <-time.After(d):
		return false
	}
}

type acctStep struct {
	Action string  `json:"action"`
	Sess   int     `json:"session,omitempty"`
	Obs    acctObs `json:"observed"`
	events []string
}

type acctRun struct {
	ae         *acctEnv
	c          *acctCluster
	run        *Run
	sess       []*acctSess
	steps      []acctStep
	downBase   int64
	refused    int
	hooks      *acctHooks
	rep        map[string]interface{}
	kind       string
	stopSamp   chan struct{}
	sampDone   chan struct{}
	initMax    int
	maxChanged bool
	minObs     acctObs // smallest value of each counter seen by the sampler while the history ran
}

// sample polls the counters while the history runs: "never negative in between".
func (ar *acctRun) sample() {
	defer close(ar.sampDone)
	for {
		select {
		case <-ar.stopSamp:
			return
		default:
		}
		o := ar.ae.read(ar.c, ar.downBase)
		if o.Res < ar.minObs.Res {
			ar.minObs.Res = o.Res
		}
		if o.Host < ar.minObs.Host {
			ar.minObs.Host = o.Host
		}
		if o.Clu < ar.minObs.Clu {
			ar.minObs.Clu = o.Clu
		}
		if o.Down < ar.minObs.Down {
			ar.minObs.Down = o.Down
		}
		time.Sleep(40 * time.Microsecond)
	}
}

func (ar *acctRun) stopSampler(known string) {
	if ar.stopSamp == nil {
		return
	}
	close(ar.stopSamp)
	<-ar.sampDone
	ar.stopSamp = nil
	tag := ar.c.kind + ":" + ar.kind
	if known != "" {
		tag = known
	}
	m := ar.minObs
	ar.rep["smallest_values_seen_while_running"] = m
	if m.Res < 0 {
		ar.run.Fail("l4:connections-resource-negative:transient:"+tag, fmt.Sprintf("cluster %s: Connections().Cur() was %d at some moment of the history", ar.c.name, m.Res), ar.rep)
	}
	if m.Host < 0 || m.Clu < 0 || m.Down < 0 {
		ar.run.Fail("l4:gauge-negative:transient:"+tag, fmt.Sprintf("cluster %s: host/cluster upstream_connection_active / handler connections were %d/%d/%d at some moment of the history", ar.c.name, m.Host, m.Clu, m.Down), ar.rep)
	}
}

func (ar *acctRun) live() int {
	n := 0
	for _, s := range ar.sess {
		if s.estab && !s.ended {
			n++
		}
	}
	return n
}
func (ar *acctRun) open() int {
	n := 0
	for _, s := range ar.sess {
		if !s.ended {
			n++
		}
	}
	return n
}

func (ar *acctRun) dialEvents(i int) []string {
	evs := []string{"Accept", fmt.Sprintf("Admit %d%%nat", i)}
	for k := 0; k < ar.c.tries; k++ {
		evs = append(evs, fmt.Sprintf("Dial %d%%nat %s", i, ar.c.outcome))
	}
	return evs
}

// record reads the counters after an action, runs the finder and stores the group for the model.
func (ar *acctRun) record(action string, sess int, events []string, known string) {
	o := ar.ae.readStable(ar.c, ar.downBase)
	o.Ovf = ar.refused
	o.After = action
	ar.steps = append(ar.steps, acctStep{Action: action, Sess: sess, Obs: o, events: events})
	ar.rep["steps"] = ar.steps
	run := ar.run
	tag := ar.c.kind + ":" + action
	if known != "" {
		tag = known
	}
	// ---- the property itself
	if o.Res < 0 {
		run.Fail("l4:connections-resource-negative:"+tag, fmt.Sprintf("cluster %s (max_connections %d): Connections().Cur() = %d after %s", ar.c.name, ar.c.maxc, o.Res, action), ar.rep)
	}
	if o.Host < 0 || o.Clu < 0 || o.Down < 0 {
		run.Fail("l4:gauge-negative:"+tag, fmt.Sprintf("cluster %s: host/cluster upstream_connection_active = %d/%d, handler connections = %d after %s", ar.c.name, o.Host, o.Clu, o.Down, action), ar.rep)
	}
	live, open := int64(ar.live()), int64(ar.open())
	wantRes := live // the resource counts what is open, also while no limit is set (fix c8b45b4d7)
	if o.Res >= 0 && o.Res != wantRes {
		sig := "l4:connections-resource-drift:" + tag
		if open == 0 {
			sig = "l4:not-zero-at-idle:connections:" + tag
		}
		run.Fail(sig, fmt.Sprintf("cluster %s (max_connections %d): Connections().Cur() = %d with %d relayed connections open (%d sessions not over) after %s", ar.c.name, ar.c.maxc, o.Res, live, open, action), ar.rep)
	}
	if (o.Host >= 0 && o.Host != live) || (o.Clu >= 0 && o.Clu != live) {
		sig := "l4:gauge-drift:upstream_connection_active:" + tag
		if open == 0 {
			sig = "l4:not-zero-at-idle:upstream_connection_active:" + tag
		}
		run.Fail(sig, fmt.Sprintf("cluster %s: host/cluster upstream_connection_active = %d/%d with %d relayed connections open after %s", ar.c.name, o.Host, o.Clu, live, action), ar.rep)
	}
	if o.Down >= 0 && o.Down != open {
		sig := "l4:gauge-drift:handler-connections:" + tag
		if open == 0 {
			sig = "l4:not-zero-at-idle:handler-connections:" + tag
		}
		run.Fail(sig, fmt.Sprintf("cluster %s: the handler counts %d connections with %d downstream connections open after %s", ar.c.name, o.Down, open, action), ar.rep)
	}
	if ar.c.maxc > 0 && live > int64(ar.c.maxc) && !ar.maxChanged { // (lowering the limit does not close anything)
		run.Fail("l4:threshold-not-enforced:"+tag, fmt.Sprintf("cluster %s: %d upstream connections are open with max_connections = %d", ar.c.name, live, ar.c.maxc), ar.rep)
	}
}

const acctLimit = 5 * time.Second

// openSession: one client connects through the listener; returns when MOSN has finished setting the session up
// (the upstream peer accepted) or has closed the client connection.
func (ar *acctRun) openSession() *acctSess {
	s := &acctSess{idx: len(ar.sess)}
	ar.sess = append(ar.sess, s)
	liveBefore := ar.live()
	cli, err := net.DialTimeout("tcp", ar.c.addr, 2*time.Second)
	if err != nil {
		s.ended = true
		ar.run.Fail("l4:listener-unreachable", err.Error(), ar.rep)
		return s
	}
	s.cli = cli
	s.watch()
	if ar.c.kind == "acc" {
		select {
		case u := <-ar.c.up.accept:
			s.up, s.estab = u, true
			s.barrier(ar)
		case <-s.cliEOF:
			s.ended = true
		case <-time.After(acctLimit):
			ar.run.Fail("l4:stalled:open", "neither an upstream connection nor a close of the client connection", ar.rep)
			s.ended = true
		}
		ar.hooks.mu.Lock()
		if s.estab && len(ar.hooks.conns) > 0 {
			s.cc = ar.hooks.conns[len(ar.hooks.conns)-1]
		}
		ar.hooks.mu.Unlock()
		if !s.estab {
			ar.refused++
			// threshold, below the limit: must not have been refused
			if ar.c.maxc == 0 || liveBefore < ar.c.maxc {
				ar.run.Fail("l4:threshold-refuses-below-limit:"+ar.c.kind, fmt.Sprintf("cluster %s (max_connections %d): a connection was refused with %d open", ar.c.name, ar.c.maxc, liveBefore), ar.rep)
			}
		} else if ar.c.maxc > 0 && liveBefore >= ar.c.maxc {
			ar.run.Fail("l4:threshold-not-enforced:"+ar.c.kind+":open", fmt.Sprintf("cluster %s (max_connections %d): a connection was admitted with %d already open", ar.c.name, ar.c.maxc, liveBefore), ar.rep)
		}
	} else {
		if !s.waitCliEOF(acctLimit) {
			ar.run.Fail("l4:stalled:open", "the client connection of a failed set-up was not closed", ar.rep)
		}
		s.ended = true
	}
	return s
}

func (ar *acctRun) closeAll() {
	for _, s := range ar.sess {
		if s.cli != nil {
			s.cli.Close()
		}
		if s.up != nil {
			s.up.c.Close()
		}
	}
}

// setMax changes max_connections of the cluster at run time through the real cluster manager (the resource manager and
// its counter are kept, only the limit is replaced).
func (ar *acctRun) setMax(m int) {
	c := ar.c
	cc := c.cfg
	cc.CirBreThresholds = v2.CircuitBreakers{}
	if m > 0 {
		cc.CirBreThresholds = v2.CircuitBreakers{Thresholds: []v2.Thresholds{{MaxConnections: uint32(m)}}}
	}
	if err := ar.ae.e.cm.AddOrUpdateClusterAndHost(cc, c.hosts); err != nil {
		ar.run.Fail("l4:cluster-update-failed", err.Error(), ar.rep)
	}
	c.maxc = m
	ar.maxChanged = true
}

func (ar *acctRun) coqCase() string {
	var groups []string
	for _, st := range ar.steps {
		groups = append(groups, fmt.Sprintf("(%s, mkObs %s %s %s %s %d%%nat)", CoqList(st.events), CoqZ(st.Obs.Res), CoqZ(st.Obs.Host), CoqZ(st.Obs.Clu), CoqZ(st.Obs.Down), st.Obs.Ovf))
	}
	return fmt.Sprintf("mkAcct (mkCfg %s %d%%nat) [%s]", CoqZ(int64(ar.initMax)), ar.c.tries, strings.Join(groups, ";\n   "))
}

func newAcctRun(ae *acctEnv, run *Run, c *acctCluster, kind string) *acctRun {
	ar := &acctRun{ae: ae, c: c, run: run, kind: kind, hooks: &acctHooks{}, initMax: c.maxc}
	ar.rep = map[string]interface{}{"part": "l4-accounting", "cluster": c.name, "cluster_kind": c.kind, "max_connections": c.maxc, "history": kind}
	setAcctHooks(ar.hooks)
	ar.downBase = int64(numConns(ae.e))
	ar.stopSamp, ar.sampDone = make(chan struct{}), make(chan struct{})
	go ar.sample()
	return ar
}

const acctShardHeader = "From MV Require Import Model.RelayAcct Gen.RelayAcctSrc.\nFrom Coq Require Import List ZArith.\nImport ListNotations.\nOpen Scope Z_scope.\n"

func c10(args []string) int {
	run := NewRun("C10", args)
	r := run.R
	ae, err := initAcctEnv()
	if err != nil {
		fmt.Println("env:", err)
		return 2
	}
	run.Sum.Rule = "l4 part: histories of downstream connections through REAL tcp_proxy listeners (server.NewHandler) onto clusters with max_connections 0/1/2 whose hosts accept / refuse (1 or 3 hosts = 1 or 3 attempts) / time out (connect_timeout 1ns, 1 or 2 hosts) / do not exist; up to max+2 simultaneous sessions; sessions end by client close, upstream peer close, local close of the upstream connection, upstream idle time-out; plus two held schedules (a slow dial set-up so that two admissions overlap; a slow Connected callback so that the upstream's close is handled before Connect returns) and the same immediate-close upstream without any hold. After EVERY action the real Connections().Cur(), the host's and the cluster's upstream_connection_active and the handler's connection count are read and compared with Model/RelayAcct.v run on the source-derived switches; the finder compares them with the harness' own count of open connections. Non-trivial: at least two sessions or a failed set-up; distinct by (cluster, action list)."
	sh := run.NewShard(acctShardHeader, "acct_case", "acct_mismatches src_sw")
	finish := func(ar *acctRun, inShard bool) {
		ar.closeAll()
		setAcctHooks(nil)
		known := ""
		if k, ok := ar.rep["known_tag"].(string); ok {
			known = k
		}
		ar.stopSampler(known)
		// let MOSN finish closing before the next history measures its base line
		ar.ae.readStable(ar.c, ar.downBase)
		var acts []string
		for _, st := range ar.steps {
			acts = append(acts, st.Action)
		}
		run.Count(fmt.Sprintf("%s|%s|%v", ar.c.name, ar.kind, acts), len(ar.sess) >= 2 || ar.c.kind != "acc", "l4:"+ar.kind+":"+ar.c.kind)
		run.Sample(ar.rep)
		if inShard {
			sh.Add(ar.coqCase(), ar.rep)
			if sh.Len() >= 300 {
				sh.Close()
				sh = run.NewShard(acctShardHeader, "acct_case", "acct_mismatches src_sw")
			}
		}
	}

	// ---- (1) random sequential histories on every ordinary cluster
	names := []string{}
	for _, kind := range []string{"acc", "ref1", "ref3", "tmo1", "tmo2", "nohost"} {
		for _, m := range []int{0, 1, 2} {
			names = append(names, fmt.Sprintf("acct-%s-m%d", kind, m))
		}
	}
	reps := run.N(3, 40)
	for rep := 0; rep < reps; rep++ {
		for _, name := range names {
			c := ae.clusters[name]
			ar := newAcctRun(ae, run, c, "sequential")
			nAct := 3 + r.Intn(run.N(6, 14))
			if c.kind != "acc" {
				nAct = 1 + r.Intn(4)
			}
			for a := 0; a < nAct; a++ {
				var liveIdx []int
				for _, s := range ar.sess {
					if s.estab && !s.ended {
						liveIdx = append(liveIdx, s.idx)
					}
				}
				if c.kind == "acc" && r.Pct(12) {
					m := r.Intn(4)
					ar.setMax(m)
					ar.record(fmt.Sprintf("set-max(%d)", m), 0, []string{fmt.Sprintf("SetMax %d", m)}, "max-connections-changed-at-run-time")
					continue
				}
				if len(liveIdx) == 0 || (len(liveIdx) <= c.maxc+1 && r.Pct(55)) || (c.maxc == 0 && len(liveIdx) < 4 && r.Pct(55)) {
					s := ar.openSession()
					ar.record("open", s.idx, ar.dialEvents(s.idx), "")
					continue
				}
				s := ar.sess[liveIdx[r.Intn(len(liveIdx))]]
				switch r.Intn(4) {
				case 3: // both peers close at the same moment: whichever close event MOSN handles first ends the session
					var wg sync.WaitGroup
					wg.Add(2)
					go func() { defer wg.Done(); s.cli.Close() }()
					go func() { defer wg.Done(); s.up.c.Close() }()
					wg.Wait()
					s.up.waitDone(acctLimit)
					s.waitCliEOF(acctLimit)
					s.ended = true
					ar.record("both-close", s.idx, []string{fmt.Sprintf("UpClose %d%%nat", s.idx)}, "")
				case 0:
					s.cli.Close()
					s.up.waitDone(acctLimit)
					s.ended = true
					ar.record("client-close", s.idx, []string{fmt.Sprintf("DownClose %d%%nat", s.idx)}, "")
				case 1:
					s.up.c.Close()
					s.waitCliEOF(acctLimit)
					s.ended = true
					ar.record("upstream-close", s.idx, []string{fmt.Sprintf("UpClose %d%%nat", s.idx)}, "")
				default:
					if s.cc == nil {
						continue
					}
					s.cc.Close(api.NoFlush, api.LocalClose) // what the idle checker of the upstream connection does
					s.waitCliEOF(acctLimit)
					s.ended = true
					ar.record("upstream-local-close", s.idx, []string{fmt.Sprintf("UpClose %d%%nat", s.idx)}, "")
				}
			}
			if ar.maxChanged {
				ar.setMax(ar.initMax)
				ar.record(fmt.Sprintf("set-max(%d)", ar.initMax), 0, []string{fmt.Sprintf("SetMax %d", ar.initMax)}, "max-connections-changed-at-run-time")
			}
			// end: everything is closed - the idle point
			for _, s := range ar.sess {
				if s.estab && !s.ended {
					s.cli.Close()
					s.up.waitDone(acctLimit)
					s.ended = true
					ar.record("client-close", s.idx, []string{fmt.Sprintf("DownClose %d%%nat", s.idx)}, "")
				}
			}
			finish(ar, true)
		}
	}

	// ---- (2) the real idle checker closes the upstream connection
	for rep := 0; rep < run.N(2, 10); rep++ {
		c := ae.clusters["acct-acc-m1-idle"]
		ar := newAcctRun(ae, run, c, "upstream-idle-timeout")
		s := ar.openSession()
		ar.record("open", s.idx, ar.dialEvents(s.idx), "")
		if s.estab {
			if !s.waitCliEOF(acctLimit) {
				run.Fail("l4:stalled:idle", "the idle upstream connection was not closed", ar.rep)
			}
			s.ended = true
			ar.record("upstream-idle-timeout", s.idx, []string{fmt.Sprintf("UpClose %d%%nat", s.idx)}, "")
		}
		finish(ar, true)
	}

	// ---- (3) two admissions overlap: the dial set-up of the first is held while the second passes CanCreate
	for _, m := range []int{0, 1, 2} {
		for rep := 0; rep < run.N(2, 12); rep++ {
			c := ae.clusters[fmt.Sprintf("acct-acc-m%d-conc", m)]
			ar := newAcctRun(ae, run, c, "overlapping-admissions")
			n := 2 + r.Intn(2)
			ar.hooks.mu.Lock()
			ar.hooks.gate, ar.hooks.arrived = make(chan struct{}), make(chan struct{}, 8)
			gate := ar.hooks.gate
			ar.hooks.mu.Unlock()
			var ss []*acctSess
			for i := 0; i < n; i++ {
				s := &acctSess{idx: len(ar.sess)}
				ar.sess = append(ar.sess, s)
				cli, err := net.DialTimeout("tcp", c.addr, 2*time.Second)
				if err != nil {
					s.ended = true
					continue
				}
				s.cli = cli
				s.watch()
				ss = append(ss, s)
				select { // this session has passed CanCreate and sits in the connection factory
				case <-ar.hooks.arrived:
				case <-time.After(acctLimit):
					run.Fail("l4:stalled:gate", "the session did not reach the connection factory", ar.rep)
				}
			}
			close(gate)
			ar.hooks.mu.Lock()
			ar.hooks.gate = nil
			ar.hooks.mu.Unlock()
			var evs []string
			for range ss {
				evs = append(evs, "Accept")
			}
			for _, s := range ss {
				evs = append(evs, fmt.Sprintf("Admit %d%%nat", s.idx))
			}
			for _, s := range ss {
				select {
				case u := <-c.up.accept:
					s.up, s.estab = u, true
				case <-time.After(acctLimit):
					s.ended = true
				}
				evs = append(evs, fmt.Sprintf("Dial %d%%nat ConnOk", s.idx))
			}
			// barrier: every client sends one byte; all upstream connections together must receive as many bytes
			for _, s := range ss {
				s.cli.Write([]byte{'x'})
			}
			settle(acctLimit, func() bool {
				n := 0
				for _, s := range ss {
					if s.up != nil {
						n += len(s.up.received())
					}
				}
				return n >= len(ss)
			})
			// which accepted upstream connection belongs to which client does not matter for the counters
			known := ""
			if m > 0 && n > m {
				known = "overlapping-admissions"
			}
			ar.record("open-overlapping", 0, evs, known)
			for _, s := range ss {
				s.cli.Close()
			}
			for _, s := range ss {
				if s.up != nil {
					s.up.waitDone(acctLimit)
				}
				s.ended = true
			}
			var cl []string
			for _, s := range ss {
				cl = append(cl, fmt.Sprintf("DownClose %d%%nat", s.idx))
			}
			ar.record("client-close-all", 0, cl, "")
			finish(ar, true)
		}
	}

	// ---- (4) the upstream's close is handled before Connect returns (held Connected callback)
	for _, m := range []int{0, 1, 2} {
		c := ae.clusters[fmt.Sprintf("acct-imm-m%d", m)]
		ar := newAcctRun(ae, run, c, "close-before-connect-returns")
		// the leak accumulates on this cluster: one long history, absolute values
		base := ae.read(c, 0)
		ar.rep["counters_before"] = base
		if base.Res != 0 || base.Host != 0 || base.Clu != 0 {
			// an earlier run in this process cannot have happened; report it anyway
			run.Fail("l4:not-zero-at-idle:before-history", fmt.Sprintf("cluster %s starts with %+v", c.name, base), ar.rep)
		}
		for k := 0; k < run.N(2, 6); k++ {
			ar.hooks.mu.Lock()
			ar.hooks.connectedHold, ar.hooks.connectedSeen, ar.hooks.closeSeen = make(chan struct{}), make(chan struct{}, 1), make(chan struct{}, 1)
			hold := ar.hooks.connectedHold
			ar.hooks.mu.Unlock()
			s := &acctSess{idx: len(ar.sess)}
			ar.sess = append(ar.sess, s)
			total0 := ae.connTotal(c)
			cli, err := net.DialTimeout("tcp", c.addr, 2*time.Second)
			if err != nil {
				s.ended = true
				close(hold)
				continue
			}
			s.cli = cli
			s.watch()
			okSeen, refusedNow := false, false
			select {
			case <-ar.hooks.connectedSeen:
				okSeen = true
			case <-s.cliEOF: // refused by the breaker (the units leaked by the earlier sessions count)
				refusedNow = true
			case <-time.After(acctLimit):
			}
			// the upstream peer has closed at once; its close event is handled by the upstream read loop while the
			// Connected callback is still running
			if okSeen {
				select {
				case <-ar.hooks.closeSeen:
				case <-time.After(acctLimit):
					okSeen = false
				}
			}
			s.waitCliEOF(acctLimit)
			close(hold)
			ar.hooks.mu.Lock()
			ar.hooks.connectedHold = nil
			ar.hooks.mu.Unlock()
			s.ended = true
			if refusedNow {
				ar.refused++
				ar.record("open-refused-by-breaker", s.idx, ar.dialEvents(s.idx), "close-before-connect-returns")
				continue
			}
			if !okSeen {
				run.Fail("l4:stalled:held-connect", "the held schedule did not play out", ar.rep)
			} else {
				// the set-up goroutine resumes after the hold; upstream_connection_total is the last counter it touches
				settle(acctLimit, func() bool { return ae.connTotal(c) >= total0+1 })
			}
			ar.record("open-closed-before-connect-returns", s.idx, ar.dialEvents(s.idx), "close-before-connect-returns")
		}
		finish(ar, true)
	}

	// ---- (5) the same upstream without any hold: whichever way the race goes, the finder applies (no model run)
	{
		c := ae.clusters["acct-imm-m2-natural"]
		ar := newAcctRun(ae, run, c, "immediate-close-natural")
		for k := 0; k < run.N(40, 600); k++ {
			s := &acctSess{idx: len(ar.sess)}
			ar.sess = append(ar.sess, s)
			total0 := ae.connTotal(c)
			cli, err := net.DialTimeout("tcp", c.addr, 2*time.Second)
			if err != nil {
				s.ended = true
				continue
			}
			s.cli = cli
			s.watch()
			s.waitCliEOF(acctLimit)
			s.ended = true
			cli.Close()
			// (bounded: once two units have leaked the breaker of this max_connections = 2 cluster refuses everything)
			settle(50*time.Millisecond, func() bool { return ae.connTotal(c) >= total0+1 })
		}
		ar.rep["leaked_without_any_hold"] = ae.read(c, 0).Res
		ar.record("open-upstream-closes-at-once-x-many", 0, nil, "close-before-connect-returns")
		finish(ar, false)
	}

	// ---- (7) the client closes while the upstream dial of its session is still in flight (held in the factory)
	for _, m := range []int{0, 1, 2} {
		for rep := 0; rep < run.N(1, 8); rep++ {
			c := ae.clusters[fmt.Sprintf("acct-acc-m%d-conc", m)]
			ar := newAcctRun(ae, run, c, "client-close-during-connect")
			ar.hooks.mu.Lock()
			ar.hooks.gate, ar.hooks.arrived = make(chan struct{}), make(chan struct{}, 8)
			gate := ar.hooks.gate
			ar.hooks.mu.Unlock()
			s := &acctSess{idx: 0}
			ar.sess = append(ar.sess, s)
			cli, err := net.DialTimeout("tcp", c.addr, 2*time.Second)
			if err == nil {
				s.cli = cli
				s.watch()
				select {
				case <-ar.hooks.arrived:
				case <-time.After(acctLimit):
					run.Fail("l4:stalled:gate", "the session did not reach the connection factory", ar.rep)
				}
				cli.Close() // MOSN is still dialling: the downstream read loop has not been started yet
			}
			close(gate)
			ar.hooks.mu.Lock()
			ar.hooks.gate = nil
			ar.hooks.mu.Unlock()
			// the dial succeeds, the session is set up, the read loop starts and sees the close at once
			select {
			case u := <-c.up.accept:
				s.up = u
				u.waitDone(acctLimit)
			case <-time.After(acctLimit):
				run.Fail("l4:stalled:open", "no upstream connection after the held dial", ar.rep)
			}
			s.ended = true
			ar.record("open-then-client-close-during-connect", 0, []string{"Accept", "Admit 0%nat", "Dial 0%nat ConnOk", "DownClose 0%nat"}, "")
			finish(ar, true)
		}
	}

	// ---- (8) connect time-out in the range of the dial time: time-outs and successes mixed, each classified by what happened
	for i := 0; i < 3; i++ {
		c := ae.clusters[fmt.Sprintf("acct-acc-m2-edge%d", i)]
		ar := newAcctRun(ae, run, c, "borderline-connect-timeout")
		nOK, nTO := 0, 0
		for k := 0; k < run.N(6, 40); k++ {
			s := &acctSess{idx: len(ar.sess)}
			ar.sess = append(ar.sess, s)
			cli, err := net.DialTimeout("tcp", c.addr, 2*time.Second)
			if err != nil {
				s.ended = true
				continue
			}
			s.cli = cli
			s.watch()
			cli.Write([]byte{'x'})
			// established <=> the byte arrives at an upstream connection; failed <=> MOSN closes the client connection
			var cands []*upConn
			dl := time.Now().Add(acctLimit)
			for s.up == nil && time.Now().Before(dl) {
				select {
				case u := <-c.up.accept:
					cands = append(cands, u)
				case <-s.cliEOF:
					dl = time.Now()
				case <-time.After(300 * time.Microsecond):
				}
				for _, u := range cands {
					if len(u.received()) > 0 {
						s.up = u
					}
				}
			}
			for _, u := range cands { // connections the kernel completed but the dialler had already given up on
				if u != s.up {
					u.c.Close()
				}
			}
			outcome := "TimedOut"
			if s.up != nil {
				s.estab, outcome = true, "ConnOk"
				nOK++
			} else {
				s.waitCliEOF(acctLimit)
				s.ended = true
				nTO++
			}
			ar.record("open("+outcome+")", s.idx, []string{"Accept", fmt.Sprintf("Admit %d%%nat", s.idx), fmt.Sprintf("Dial %d%%nat %s", s.idx, outcome)}, "")
			if s.estab {
				s.cli.Close()
				s.up.waitDone(acctLimit)
				s.ended = true
				ar.record("client-close", s.idx, []string{fmt.Sprintf("DownClose %d%%nat", s.idx)}, "")
			}
		}
		ar.rep["connected"], ar.rep["timed_out"] = nOK, nTO
		run.Sum.Distribution["l4:borderline:connected"] += nOK
		run.Sum.Distribution["l4:borderline:timed-out"] += nTO
		finish(ar, true)
	}

	// ---- (9) many sessions opening, relaying and closing at the same time (finder only: zero at idle, never negative)
	for _, m := range []int{0, 2} {
		c := ae.clusters[fmt.Sprintf("acct-acc-m%d-storm", m)]
		ar := newAcctRun(ae, run, c, "storm")
		if m > 0 {
			ar.rep["known_tag"] = "overlapping-admissions" // the threshold is not what this history checks
		}
		stopUp := make(chan struct{})
		var upWG sync.WaitGroup
		upWG.Add(1)
		go func() { // upstream side: half of the connections are closed by the upstream peer after a moment
			defer upWG.Done()
			k := 0
			for {
				select {
				case u := <-c.up.accept:
					k++
					if k%2 == 0 {
						go func(u *upConn) { time.Sleep(time.Duration(200+50*k) * time.Microsecond); u.c.Close() }(u)
					} else {
						go func(u *upConn) { u.waitDone(acctLimit); u.c.Close() }(u)
					}
				case <-stopUp:
					return
				}
			}
		}()
		var wg sync.WaitGroup
		for g := 0; g < 6; g++ {
			wg.Add(1)
			go func(g int) {
				defer wg.Done()
				for k := 0; k < run.N(3, 15); k++ {
					cli, err := net.DialTimeout("tcp", c.addr, 2*time.Second)
					if err != nil {
						continue
					}
					cli.Write([]byte("storm"))
					if (g+k)%2 == 0 {
						time.Sleep(time.Duration(100*(g+1)) * time.Microsecond)
						cli.Close()
					} else {
						// wait a moment for the upstream peer's close (half of them close), then close anyway
						cli.SetReadDeadline(time.Now().Add(3 * time.Millisecond))
						io.Copy(io.Discard, cli)
						cli.Close()
					}
				}
			}(g)
		}
		wg.Wait()
		time.Sleep(2 * time.Millisecond)
		close(stopUp)
		upWG.Wait()
		ar.record("storm-over", 0, nil, "")
		finish(ar, false)
	}

	// ---- (10) max_connections is changed while connections are open (the defect repaired by c8b45b4d7: the finder stays)
	for rep := 0; rep < run.N(1, 6); rep++ {
		c := ae.clusters["acct-acc-m0-upd"]
		ar := newAcctRun(ae, run, c, "max-connections-update")
		const tag = "max-connections-changed-at-run-time"
		ar.rep["known_tag"] = tag
		s1 := ar.openSession()
		ar.record("open", s1.idx, ar.dialEvents(s1.idx), tag)
		s2 := ar.openSession()
		ar.record("open", s2.idx, ar.dialEvents(s2.idx), tag)
		ar.setMax(3)
		ar.record("set-max(3)", 0, []string{"SetMax 3"}, tag)
		for _, s := range []*acctSess{s1, s2} {
			if s.estab {
				s.cli.Close()
				s.up.waitDone(acctLimit)
				s.ended = true
				ar.record("client-close", s.idx, []string{fmt.Sprintf("DownClose %d%%nat", s.idx)}, tag)
			}
		}
		s3 := ar.openSession()
		ar.record("open", s3.idx, ar.dialEvents(s3.idx), tag)
		ar.setMax(0)
		ar.record("set-max(0)", 0, []string{"SetMax 0"}, tag)
		if s3.estab {
			s3.cli.Close()
			s3.up.waitDone(acctLimit)
			s3.ended = true
			ar.record("client-close", s3.idx, []string{fmt.Sprintf("DownClose %d%%nat", s3.idx)}, tag)
		}
		ar.setMax(1)
		ar.record("set-max(1)", 0, []string{"SetMax 1"}, tag)
		s4 := ar.openSession()
		ar.record("open", s4.idx, ar.dialEvents(s4.idx), tag)
		s5 := ar.openSession() // the second one at limit 1 must be refused
		ar.record("open", s5.idx, ar.dialEvents(s5.idx), tag)
		for _, s := range []*acctSess{s4, s5} {
			if s.estab && !s.ended {
				s.cli.Close()
				s.up.waitDone(acctLimit)
				s.ended = true
				ar.record("client-close", s.idx, []string{fmt.Sprintf("DownClose %d%%nat", s.idx)}, tag)
			}
		}
		ar.setMax(0)
		ar.record("set-max(0)", 0, []string{"SetMax 0"}, tag)
		finish(ar, true)
	}
	sh.Close()

	// ---- (6) L7 listener: connection_active of the listener and of the proxy
	if err := l7ConnGauge(run, ae); err != nil {
		fmt.Println("l7:", err)
		return 2
	}
	return run.Finish()
}

func l7ConnGauge(run *Run, ae *acctEnv) error {
	he, err := initHTTPEnv(ae.e)
	if err != nil {
		return err
	}
	r := run.R
	sh := run.NewShard(acctShardHeader, "acct_case", "acct_mismatches src_sw")
	ls := metrics.NewListenerStats("relay-http").Counter(metrics.DownstreamConnectionActive)
	time.Sleep(50 * time.Millisecond)
	for rep := 0; rep < run.N(6, 60); rep++ {
		base := ls.Count()
		downBase := int64(numConns(ae.e))
		var conns []net.Conn
		var groups []string
		var steps []map[string]interface{}
		rp := map[string]interface{}{"part": "l7-connection-gauge", "listener": "relay-http", "connection_active_before": base}
		obs := func(action string, evs []string) {
			// settle
			var g, d int64
			same := 0
			last := [2]int64{-999, -999}
			dl := time.Now().Add(2 * time.Second)
			for same < 3 && time.Now().Before(dl) {
				time.Sleep(300 * time.Microsecond)
				g, d = ls.Count()-base, int64(numConns(ae.e))-downBase
				if [2]int64{g, d} == last {
					same++
				} else {
					same, last = 0, [2]int64{g, d}
				}
			}
			open := 0
			for _, c := range conns {
				if c != nil {
					open++
				}
			}
			steps = append(steps, map[string]interface{}{"action": action, "listener_connection_active": g, "handler_connections": d, "open": open})
			rp["steps"] = steps
			if g < 0 || d < 0 {
				run.Fail("l7:gauge-negative:connection_active", fmt.Sprintf("listener connection_active %d / handler connections %d after %s", g, d, action), rp)
			} else if g != int64(open) || d != int64(open) {
				sig := "l7:gauge-drift:connection_active"
				if open == 0 {
					sig = "l7:not-zero-at-idle:connection_active"
				}
				run.Fail(sig, fmt.Sprintf("listener connection_active %d / handler connections %d with %d connections open after %s", g, d, open, action), rp)
			}
			// model: an accepted connection without an L4 upstream; both counters follow g_down
			if g == d {
				groups = append(groups, fmt.Sprintf("(%s, mkObs 0 0 0 %s 0%%nat)", CoqList(evs), CoqZ(g)))
			} else {
				groups = append(groups, fmt.Sprintf("(%s, mkObs 0 0 0 %s 0%%nat)", CoqList(evs), CoqZ(-1000)))
			}
		}
		for a, n := 0, 2+r.Intn(8); a < n; a++ {
			var openIdx []int
			for i, c := range conns {
				if c != nil {
					openIdx = append(openIdx, i)
				}
			}
			if len(openIdx) == 0 || r.Pct(55) {
				c, err := net.DialTimeout("tcp", he.addr, 2*time.Second)
				if err != nil {
					return err
				}
				if r.Bool() { // one request over it
					c.SetDeadline(time.Now().Add(3 * time.Second))
					c.Write([]byte("GET /c10 HTTP/1.1\r\nHost: test.local\r\n\r\n"))
					buf := make([]byte, 4096)
					c.Read(buf)
				}
				conns = append(conns, c)
				obs("open", []string{"Accept"})
			} else {
				i := openIdx[r.Intn(len(openIdx))]
				conns[i].Close()
				conns[i] = nil
				obs("close", []string{fmt.Sprintf("DownClose %d%%nat", i)})
			}
		}
		for i, c := range conns {
			if c != nil {
				c.Close()
				conns[i] = nil
				obs("close", []string{fmt.Sprintf("DownClose %d%%nat", i)})
			}
		}
		run.Count(fmt.Sprintf("l7|%d|%v", rep, steps), len(conns) >= 2, "l7:connection-gauge")
		sh.Add(fmt.Sprintf("mkAcct (mkCfg 0 0%%nat) [%s]", strings.Join(groups, ";\n   ")), rp)
	}
	sh.Close()
	return nil
}
