// Group `relay`: the TCP relay clause and the HTTP/1 request-URI clause of C01.
package main

import . "vh/vhlib"

func main() {
	Main(map[string]CmdFn{
		"gen": func(a []string) int { return RunGen(gens, a) },
		"c01": c01,
		"c10": c10,
	})
}
