package main

// C12: runtime updates coherent with the dumped configuration.  Generated operation histories are applied to the REAL
// singleton router manager and cluster manager (names unique per history), then
//   - the live answers (MatchRoute on a request battery, host sets, lb types, per-operation error/nil) are compared with
//     Model/Update.v in Coq shards, and
//   - (finder) fresh objects are built from configmanager's dump (through its JSON form) and their answers are compared
//     with the live ones; after every endpoint assignment the live host set is compared with the union of its localities.

import (
	"context"
	"encoding/json"
	"fmt"
	"sort"
	"strings"

	envoy_config_core_v3 "github.com/envoyproxy/go-control-plane/envoy/config/core/v3"
	envoy_config_endpoint_v3 "github.com/envoyproxy/go-control-plane/envoy/config/endpoint/v3"
	v2 "mosn.io/mosn/pkg/config/v2"
	"mosn.io/mosn/pkg/configmanager"
	"mosn.io/mosn/pkg/router"
	"mosn.io/mosn/pkg/types"
	"mosn.io/mosn/pkg/upstream/cluster"

	"mosn.io/mosn/istio/istio1106/xds/conv"

	. "vh/vhlib"
)

type opT struct {
	Kind       string     `json:"kind"`
	Name       string     `json:"name,omitempty"`
	Names      []string   `json:"names,omitempty"`
	Domain     string     `json:"domain,omitempty"`
	Config     cfgT       `json:"config,omitempty"`
	Route      *rtT       `json:"route,omitempty"`
	Lb         string     `json:"lb,omitempty"`
	CfgHosts   []string   `json:"cfg_hosts,omitempty"`
	Hosts      []string   `json:"hosts,omitempty"`
	Localities [][]string `json:"localities,omitempty"`
}

var lbCodes = map[string]int{"LB_RANDOM": 1, "LB_ROUNDROBIN": 2, "LB_LEAST_REQUEST": 3, "": 0}
var lbNames = []string{"LB_RANDOM", "LB_ROUNDROBIN", "LB_LEAST_REQUEST"}

func hostsV2(addrs []string) []v2.Host {
	if addrs == nil {
		return nil
	}
	hs := make([]v2.Host, 0, len(addrs))
	for _, a := range addrs {
		hs = append(hs, v2.Host{HostConfig: v2.HostConfig{Address: a}})
	}
	return hs
}

func loadAssignment(name string, localities [][]string) *envoy_config_endpoint_v3.ClusterLoadAssignment {
	la := &envoy_config_endpoint_v3.ClusterLoadAssignment{ClusterName: name}
	for li, l := range localities {
		le := &envoy_config_endpoint_v3.LocalityLbEndpoints{
			Locality: &envoy_config_core_v3.Locality{Region: fmt.Sprintf("region-%d", li), Zone: fmt.Sprintf("zone-%d", li)},
			Priority: 0,
		}
		for _, addr := range l {
			i := strings.LastIndex(addr, ":")
			var port uint32
			fmt.Sscanf(addr[i+1:], "%d", &port)
			le.LbEndpoints = append(le.LbEndpoints, &envoy_config_endpoint_v3.LbEndpoint{
				HostIdentifier: &envoy_config_endpoint_v3.LbEndpoint_Endpoint{Endpoint: &envoy_config_endpoint_v3.Endpoint{
					Address: &envoy_config_core_v3.Address{Address: &envoy_config_core_v3.Address_SocketAddress{SocketAddress: &envoy_config_core_v3.SocketAddress{
						Address: addr[:i], PortSpecifier: &envoy_config_core_v3.SocketAddress_PortValue{PortValue: port}}}}}},
			})
		}
		la.Endpoints = append(la.Endpoints, le)
	}
	return la
}

func liveHosts(name string) (lb string, hosts []string, ok bool) {
	snap := cluster.GetClusterMngAdapterInstance().GetClusterSnapshot(context.Background(), name)
	if snap == nil {
		return "", nil, false
	}
	snap.HostSet().Range(func(h types.Host) bool {
		hosts = append(hosts, h.AddressString())
		return true
	})
	sort.Strings(hosts)
	return string(snap.ClusterInfo().LbType()), hosts, true
}

func coqOp(o opT) string {
	switch o.Kind {
	case "routers":
		return fmt.Sprintf("OAddOrUpdateRouters %s %s", CoqString(o.Name), o.Config.coq())
	case "add-route":
		return fmt.Sprintf("OAddRoute %s %s (%s)", CoqString(o.Name), CoqString(o.Domain), o.Route.coq())
	case "remove-routes":
		return fmt.Sprintf("ORemoveAllRoutes %s %s", CoqString(o.Name), CoqString(o.Domain))
	case "cluster":
		return fmt.Sprintf("OAddOrUpdateCluster %s %s %s", CoqString(o.Name), CoqNat(lbCodes[o.Lb]), coqStrList(o.CfgHosts))
	case "cluster-hosts":
		return fmt.Sprintf("OAddOrUpdateClusterAndHosts %s %s %s %s", CoqString(o.Name), CoqNat(lbCodes[o.Lb]), coqStrList(o.CfgHosts), coqStrList(o.Hosts))
	case "remove-clusters":
		return fmt.Sprintf("ORemoveClusters %s", coqStrList(o.Names))
	case "update-hosts":
		return fmt.Sprintf("OUpdateHosts %s %s", CoqString(o.Name), coqStrList(o.Hosts))
	case "append-hosts":
		return fmt.Sprintf("OAppendHosts %s %s", CoqString(o.Name), coqStrList(o.Hosts))
	case "remove-hosts":
		return fmt.Sprintf("ORemoveHosts %s %s", CoqString(o.Name), coqStrList(o.Hosts))
	case "endpoints":
		var ls []string
		for _, l := range o.Localities {
			ls = append(ls, coqStrList(l))
		}
		return fmt.Sprintf("OEndpoints %s %s", CoqString(o.Name), CoqList(ls))
	}
	panic("op kind " + o.Kind)
}

var addrPool = []string{"10.0.0.1:80", "10.0.0.2:80", "10.0.0.3:8080", "10.0.1.1:80", "10.0.1.2:443", "127.0.0.1:9000"}

func pickAddrs(r *Rng, max int) []string {
	n := r.Intn(max + 1)
	out := []string{}
	for i := 0; i < n; i++ {
		out = append(out, r.PickS(addrPool))
	}
	return out
}

func distinctAddrs(r *Rng, n int) []string {
	perm := append([]string(nil), addrPool...)
	for i := len(perm) - 1; i > 0; i-- {
		j := r.Intn(i + 1)
		perm[i], perm[j] = perm[j], perm[i]
	}
	if n > len(perm) {
		n = len(perm)
	}
	return perm[:n]
}

func c12(args []string) int {
	run := NewRun("C12", args)
	r := run.R
	c17ClusterManager() // the cluster manager singleton (created once per process)
	rm := router.GetRoutersMangerInstance()
	cvt := conv.NewConverter()
	g := &rtGen{r: r, keepIDs: true}
	run.Sum.Rule = "operation histories of 4-25 operations over 2 router names, 2 cluster names and 1 unknown name per history: AddOrUpdateRouters (generated configurations as in C04, ~20% rejected), AddRoute / RemoveAllRoutes (domains: configured ones, other hosts, mixed case, empty, malformed; 8% unbuildable routes), AddOrUpdatePrimaryCluster, AddOrUpdateClusterAndHost, RemovePrimaryCluster (1-2 names, unknown ones included), Update/Append/RemoveClusterHosts (addresses from a pool of 6, duplicates allowed), and ConvertUpdateEndpoints with real ClusterLoadAssignment protos of 0-3 localities; then a battery of requests per router name and the host set / lb type per cluster name are read from the real managers.  Non-trivial: a history in which some object was updated at least twice; distinct by (history number, seed)."
	header := "From MV Require Import Model.Router Model.Update Gen.EndpointSrc.\nFrom Coq Require Import List String.\nImport ListNotations.\nOpen Scope string_scope.\n"
	sh := run.NewShard(header, "up_case", "up_mismatches endpoints_update_per_locality")
	weight := 0
	nh := run.N(160, 1600)
	for hi := 0; hi < nh; hi++ {
		pfx := fmt.Sprintf("s%dh%d", run.Seed, hi)
		rnames := []string{pfx + "r0", pfx + "r1"}
		cnames := []string{pfx + "c0", pfx + "c1"}
		unknown := pfx + "zz"
		g.rid, g.did = 0, 0
		var allRoutes []rtT // every route that appears in the history (for the regex oracle)
		var ops []opT
		nops := 4 + r.Intn(22)
		nadd := 0
		var lastDomains []string
		for k := 0; k < nops; k++ {
			var o opT
			pickR := func() string {
				if r.Pct(6) {
					return unknown
				}
				return r.PickS(rnames)
			}
			pickC := func() string {
				if r.Pct(8) {
					return unknown
				}
				return r.PickS(cnames)
			}
			switch x := r.Intn(100); {
			case x < 16 || k == 0:
				c := g.config()
				o = opT{Kind: "routers", Name: pickR(), Config: c}
				for _, vh := range c {
					allRoutes = append(allRoutes, vh.Routes...)
					lastDomains = append(lastDomains, vh.Domains...)
				}
			case x < 32:
				rt := g.route(fmt.Sprintf("add%d", nadd))
				nadd++
				if r.Pct(8) {
					rt.Bad = true
				}
				allRoutes = append(allRoutes, rt)
				o = opT{Kind: "add-route", Name: pickR(), Domain: pickDomain(r, lastDomains), Route: &rt}
			case x < 40:
				o = opT{Kind: "remove-routes", Name: pickR(), Domain: pickDomain(r, lastDomains)}
			case x < 50 || k == 1 || k == 2:
				name := pickC()
				if k <= 2 && r.Pct(85) { // most histories start with both clusters present
					name = cnames[k-1]
				}
				o = opT{Kind: "cluster", Name: name, Lb: r.PickS(lbNames), CfgHosts: pickAddrs(r, 2)}
			case x < 58:
				o = opT{Kind: "cluster-hosts", Name: pickC(), Lb: r.PickS(lbNames), CfgHosts: pickAddrs(r, 2), Hosts: pickAddrs(r, 3)}
			case x < 64:
				o = opT{Kind: "remove-clusters", Names: []string{pickC()}}
				if r.Pct(30) {
					o.Names = append(o.Names, pickC())
				}
			case x < 74:
				o = opT{Kind: "update-hosts", Name: pickC(), Hosts: pickAddrs(r, 4)}
			case x < 82:
				o = opT{Kind: "append-hosts", Name: pickC(), Hosts: pickAddrs(r, 2)}
			case x < 90:
				o = opT{Kind: "remove-hosts", Name: pickC(), Hosts: pickAddrs(r, 3)}
			default:
				nl := r.Intn(4)
				addrs := distinctAddrs(r, 6)
				o = opT{Kind: "endpoints", Name: pickC(), Localities: [][]string{}}
				for li := 0; li < nl; li++ {
					n := 1 + r.Intn(2)
					o.Localities = append(o.Localities, addrs[:n])
					addrs = addrs[n:]
				}
			}
			ops = append(ops, o)
		}

		// ---- apply to the real managers
		results := make([]bool, len(ops))
		touched := map[string]int{}
		for k, o := range ops {
			var err error
			switch o.Kind {
			case "routers":
				err = rm.AddOrUpdateRouters(o.Config.v2config(o.Name, false))
				touched[o.Name]++
			case "add-route":
				rr := o.Route.v2()
				err = rm.AddRoute(o.Name, o.Domain, &rr)
				touched[o.Name]++
			case "remove-routes":
				err = rm.RemoveAllRoutes(o.Name, o.Domain)
				touched[o.Name]++
			case "cluster":
				err = cluster.GetClusterMngAdapterInstance().TriggerClusterAddOrUpdate(v2.Cluster{Name: o.Name, ClusterType: v2.SIMPLE_CLUSTER, LbType: v2.LbType(o.Lb), Hosts: hostsV2(o.CfgHosts)})
				touched[o.Name]++
			case "cluster-hosts":
				err = cluster.GetClusterMngAdapterInstance().TriggerClusterAndHostsAddOrUpdate(v2.Cluster{Name: o.Name, ClusterType: v2.SIMPLE_CLUSTER, LbType: v2.LbType(o.Lb), Hosts: hostsV2(o.CfgHosts)}, hostsV2(o.Hosts))
				touched[o.Name]++
			case "remove-clusters":
				err = cluster.GetClusterMngAdapterInstance().TriggerClusterDel(o.Names...)
			case "update-hosts":
				err = cluster.GetClusterMngAdapterInstance().TriggerClusterHostUpdate(o.Name, hostsV2(o.Hosts))
				touched[o.Name]++
			case "append-hosts":
				err = cluster.GetClusterMngAdapterInstance().TriggerHostAppend(o.Name, hostsV2(o.Hosts))
				touched[o.Name]++
			case "remove-hosts":
				err = cluster.GetClusterMngAdapterInstance().TriggerHostDel(o.Name, o.Hosts)
				touched[o.Name]++
			case "endpoints":
				err = cvt.ConvertUpdateEndpoints([]*envoy_config_endpoint_v3.ClusterLoadAssignment{loadAssignment(o.Name, o.Localities)})
				touched[o.Name]++
				run.Sum.Distribution[fmt.Sprintf("endpoint-localities=%d", len(o.Localities))]++
				// finder: an endpoint assignment yields the union of all its endpoints
				if _, got, ok := liveHosts(o.Name); ok {
					var want []string
					for _, l := range o.Localities {
						want = append(want, l...)
					}
					sort.Strings(want)
					if fmt.Sprint(got) != fmt.Sprint(want) && !(len(got) == 0 && len(want) == 0) {
						sig := "c12:endpoints-union:other"
						if n := len(o.Localities); n >= 2 {
							last := append([]string(nil), o.Localities[n-1]...)
							sort.Strings(last)
							if fmt.Sprint(got) == fmt.Sprint(last) {
								sig = "c12:endpoints-union:last-locality-wins"
							}
						}
						run.Fail(sig, fmt.Sprintf("endpoint assignment with localities %v left cluster %s with hosts %v, the union is %v", o.Localities, o.Name, got, want),
							map[string]interface{}{"history": ops[:k+1], "op": k})
					}
				}
			}
			results[k] = err == nil
			run.Sum.Distribution["op:"+o.Kind]++
			if err != nil {
				run.Sum.Distribution["op-error:"+o.Kind]++
			}
		}

		// ---- observe the live objects
		battery := make([]reqT, 0, 12)
		for k := 0; k < 8; k++ {
			battery = append(battery, g.request())
		}
		for _, d := range lastDomains {
			if len(battery) >= 14 {
				break
			}
			if r.Pct(40) {
				q := g.request()
				q.Vars[types.VarHost] = d
				battery = append(battery, q)
			}
		}
		oracle := cfgT{{Routes: allRoutes}}
		var robs, cobs []string
		type liveAns struct {
			one   string
			found bool
			all   []string
		}
		live := map[string][]liveAns{}
		for _, name := range append(append([]string(nil), rnames...), unknown) {
			var rs types.Routers
			if w := rm.GetRouterWrapperByName(name); w != nil {
				rs = w.GetRouters()
			}
			var ls []string
			for _, q := range battery {
				var a liveAns
				if rs != nil {
					a.one, a.found, a.all = lookup(rs, q)
				}
				live[name] = append(live[name], a)
				var allq []string
				for _, s := range a.all {
					allq = append(allq, CoqString(s))
				}
				ls = append(ls, fmt.Sprintf("(%s, %s, %s)", oracle.coqReq(q), CoqOption(a.found, CoqString(a.one)), CoqList(allq)))
			}
			robs = append(robs, fmt.Sprintf("(%s, %s)", CoqString(name), CoqList(ls)))
		}
		type liveCl struct {
			lb    string
			hosts []string
			ok    bool
		}
		liveC := map[string]liveCl{}
		for _, name := range append(append([]string(nil), cnames...), unknown) {
			lb, hosts, ok := liveHosts(name)
			liveC[name] = liveCl{lb, hosts, ok}
			got := "None"
			if ok {
				got = fmt.Sprintf("(Some (%s, %s))", CoqNat(lbCodes[lb]), coqStrList(hosts))
			}
			cobs = append(cobs, fmt.Sprintf("(%s, %s)", CoqString(name), got))
		}

		// ---- finder: fresh objects from the dumped configuration answer like the live ones
		rep := map[string]interface{}{"history": ops}
		dumpR := map[string]v2.RouterConfiguration{}
		dumpC := map[string]v2.Cluster{}
		configmanager.HandleMOSNConfig(configmanager.CfgTypeRouter, func(v interface{}) {
			m, _ := v.(map[string]v2.RouterConfiguration)
			for _, name := range append(append([]string(nil), rnames...), unknown) {
				if rc, ok := m[name]; ok {
					// through the dumped (JSON) form
					b, err := json.Marshal(rc)
					var back v2.RouterConfiguration
					if err == nil {
						err = json.Unmarshal(b, &back)
					}
					if err != nil {
						run.Fail("c12:router-dump-unreadable", "the dumped router configuration cannot be read back: "+err.Error(), rep)
						continue
					}
					dumpR[name] = back
				}
			}
		})
		configmanager.HandleMOSNConfig(configmanager.CfgTypeCluster, func(v interface{}) {
			m, _ := v.(map[string]v2.Cluster)
			for _, name := range append(append([]string(nil), cnames...), unknown) {
				if cc, ok := m[name]; ok {
					b, err := json.Marshal(cc)
					var back v2.Cluster
					if err == nil {
						err = json.Unmarshal(b, &back)
					}
					if err != nil {
						run.Fail("c12:cluster-dump-unreadable", "the dumped cluster configuration cannot be read back: "+err.Error(), rep)
						continue
					}
					dumpC[name] = back
				}
			}
		})
		var rdump, cdump []string
		for _, name := range append(append([]string(nil), rnames...), unknown) {
			var fresh types.Routers
			rc, inDump := dumpR[name]
			if inDump {
				fresh, _ = router.NewRouters(&rc)
			}
			if w := rm.GetRouterWrapperByName(name); (w != nil) != inDump {
				run.Fail("c12:router-presence", fmt.Sprintf("router %s: live=%v, in dumped configuration=%v", name, w != nil, inDump), rep)
			}
			var ls []string
			reported := false
			for k, q := range battery {
				var f liveAns
				if fresh != nil {
					f.one, f.found, f.all = lookup(fresh, q)
				}
				var allq []string
				for _, s := range f.all {
					allq = append(allq, CoqString(s))
				}
				ls = append(ls, fmt.Sprintf("(%s, %s, %s)", oracle.coqReq(q), CoqOption(f.found, CoqString(f.one)), CoqList(allq)))
				l := live[name][k]
				if !reported && (f.found != l.found || f.one != l.one || fmt.Sprint(f.all) != fmt.Sprint(l.all)) {
					run.Fail("c12:router-live-differs-from-dump", fmt.Sprintf("router %s, request %v: live answers %q %v, a router built from the dumped configuration answers %q %v", name, q, l.one, l.all, f.one, f.all), rep)
					reported = true
				}
			}
			rdump = append(rdump, fmt.Sprintf("(%s, %s)", CoqString(name), CoqList(ls)))
		}
		for _, name := range append(append([]string(nil), cnames...), unknown) {
			cc, inDump := dumpC[name]
			l := liveC[name]
			if inDump != l.ok {
				sig := "c12:cluster-presence"
				if l.ok {
					sig = "c12:cluster-live-but-not-dumped"
				}
				run.Fail(sig, fmt.Sprintf("cluster %s: live=%v, in dumped configuration=%v", name, l.ok, inDump), rep)
				if !inDump {
					cdump = append(cdump, fmt.Sprintf("(%s, None)", CoqString(name)))
					continue
				}
			}
			if !inDump {
				cdump = append(cdump, fmt.Sprintf("(%s, None)", CoqString(name)))
				continue
			}
			fc := cluster.NewCluster(cc)
			cluster.NewSimpleHostHandler(fc, cc.Hosts)
			var fh []string
			fc.Snapshot().HostSet().Range(func(h types.Host) bool {
				fh = append(fh, h.AddressString())
				return true
			})
			sort.Strings(fh)
			cdump = append(cdump, fmt.Sprintf("(%s, (Some (%s, %s)))", CoqString(name), CoqNat(lbCodes[string(fc.Snapshot().ClusterInfo().LbType())]), coqStrList(fh)))
			if flb := string(fc.Snapshot().ClusterInfo().LbType()); flb != l.lb || fmt.Sprint(fh) != fmt.Sprint(l.hosts) {
				run.Fail("c12:cluster-live-differs-from-dump", fmt.Sprintf("cluster %s: live %s %v, built from the dumped configuration %s %v", name, l.lb, l.hosts, flb, fh), rep)
			}
		}

		reportPanics(run, "c12", rep)
		nontrivial := false
		for _, n := range touched {
			if n >= 2 {
				nontrivial = true
			}
		}
		run.Count(fmt.Sprintf("%d|%d", run.Seed, hi), nontrivial, fmt.Sprintf("history-len=%d-%d", len(ops)/5*5, len(ops)/5*5+4))
		if nontrivial {
			var kinds []string
			for _, o := range ops {
				kinds = append(kinds, o.Kind)
			}
			run.Sample(map[string]interface{}{"ops": kinds, "results": results, "clusters": liveC[cnames[0]].hosts})
		}
		var cops, cres []string
		for k, o := range ops {
			cops = append(cops, coqOp(o))
			cres = append(cres, CoqBool(results[k]))
		}
		sh.Add(fmt.Sprintf("(%s,\n  %s,\n  %s,\n  %s,\n  %s,\n  %s)", CoqList(cops), CoqList(cres), CoqList(robs), CoqList(cobs), CoqList(rdump), CoqList(cdump)), rep)
		weight += len(ops) + len(battery)*6
		if weight >= 900 {
			sh.Close()
			sh = run.NewShard(header, "up_case", "up_mismatches endpoints_update_per_locality")
			weight = 0
		}
		// leave the singletons small
		for _, n := range cnames {
			cluster.GetClusterMngAdapterInstance().TriggerClusterDel(n)
		}
	}
	sh.Close()
	return run.Finish()
}

func pickDomain(r *Rng, configured []string) string {
	if len(configured) > 0 && r.Pct(60) {
		d := configured[r.Intn(len(configured))]
		if r.Pct(15) {
			return upper(d)
		}
		return d
	}
	return r.PickS([]string{"a.com", "x.a.com:80", "", "nowhere.invalid", "::1", "*", "A.COM", "q.com:8080"})
}
