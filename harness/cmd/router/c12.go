package main

// C12: runtime updates coherent with the dumped configuration.  Generated operation histories are applied to the REAL
// singleton router manager and cluster manager (names unique per history), then
//   - the live answers (MatchRoute on a request battery, host sets, lb types, per-operation error/nil) are compared with
//     Model/Update.v in Coq shards, and
//   - (finder) fresh objects are built from configmanager's dump (through its JSON form) and their answers are compared
//     with the live ones; after every endpoint assignment the live host set is compared with the union of its localities.

import (
	"context"
	"encoding/json"
	"fmt"
	"sort"
	"strings"
	"sync"
	"sync/atomic"

	envoy_config_core_v3 "github.com/envoyproxy/go-control-plane/envoy/config/core/v3"
	envoy_config_endpoint_v3 "github.com/envoyproxy/go-control-plane/envoy/config/endpoint/v3"
	"google.golang.org/protobuf/types/known/wrapperspb"
	v2 "mosn.io/mosn/pkg/config/v2"
	"mosn.io/mosn/pkg/configmanager"
	"mosn.io/mosn/pkg/router"
	"mosn.io/mosn/pkg/types"
	"mosn.io/mosn/pkg/upstream/cluster"

	"mosn.io/mosn/istio/istio1106/xds/conv"

	. "vh/vhlib"
)

type opT struct {
	Kind       string     `json:"kind"`
	Name       string     `json:"name,omitempty"`
	Names      []string   `json:"names,omitempty"`
	Domain     string     `json:"domain,omitempty"`
	Config     cfgT       `json:"config,omitempty"`
	Route      *rtT       `json:"route,omitempty"`
	Lb         string    `json:"lb,omitempty"`
	CfgHosts   []hostT   `json:"cfg_hosts,omitempty"`
	Hosts      []hostT   `json:"hosts,omitempty"`
	Addrs      []string  `json:"addrs,omitempty"`
	Localities [][]epT   `json:"localities,omitempty"`
}

// hostT: everything v2.Host carries
type hostT struct {
	Addr       string            `json:"address"`
	Weight     uint32            `json:"weight,omitempty"`
	Hostname   string            `json:"hostname,omitempty"`
	TLSDisable bool              `json:"tls_disable,omitempty"`
	Meta       map[string]string `json:"metadata,omitempty"`
}

// epT: one xDS LbEndpoint (Weight < 0: no load_balancing_weight)
type epT struct {
	Addr   string `json:"address"`
	Weight int    `json:"weight"`
}

func (h hostT) coq() string {
	return fmt.Sprintf("Build_host %s %s %s %s %s", CoqString(h.Addr), CoqNat(int(h.Weight)), CoqString(h.Hostname), CoqBool(h.TLSDisable), coqPairs(h.Meta))
}

func coqHosts(hs []hostT) string {
	var it []string
	for _, h := range hs {
		it = append(it, h.coq())
	}
	return CoqList(it)
}

func (h hostT) String() string {
	return fmt.Sprintf("%s/w%d/%q/tls_disable=%v/%s", h.Addr, h.Weight, h.Hostname, h.TLSDisable, fmtMap(h.Meta))
}

func hostOfConfig(c v2.Host) hostT {
	h := hostT{Addr: c.Address, Weight: c.Weight, Hostname: c.Hostname, TLSDisable: c.TLSDisable}
	if len(c.MetaData) > 0 {
		h.Meta = map[string]string{}
		for k, v := range c.MetaData {
			h.Meta[k] = v
		}
	}
	return h
}

func hostsString(hs []hostT) string {
	var it []string
	for _, h := range hs {
		it = append(it, h.String())
	}
	return "[" + strings.Join(it, " ") + "]"
}

var lbCodes = map[string]int{"LB_RANDOM": 1, "LB_ROUNDROBIN": 2, "LB_LEAST_REQUEST": 3, "": 0, "LB_BOGUS": 4}
var lbNames = []string{"LB_RANDOM", "LB_ROUNDROBIN", "LB_LEAST_REQUEST"}

func hostsV2(hosts []hostT) []v2.Host {
	if hosts == nil {
		return nil
	}
	hs := make([]v2.Host, 0, len(hosts))
	for _, h := range hosts {
		c := v2.Host{HostConfig: v2.HostConfig{Address: h.Addr, Weight: h.Weight, Hostname: h.Hostname, TLSDisable: h.TLSDisable}}
		if h.Meta != nil {
			c.MetaData = map[string]string{}
			for k, v := range h.Meta {
				c.MetaData[k] = v
			}
		}
		hs = append(hs, c)
	}
	return hs
}

func loadAssignment(name string, localities [][]epT) *envoy_config_endpoint_v3.ClusterLoadAssignment {
	la := &envoy_config_endpoint_v3.ClusterLoadAssignment{ClusterName: name}
	for li, l := range localities {
		le := &envoy_config_endpoint_v3.LocalityLbEndpoints{
			Locality: &envoy_config_core_v3.Locality{Region: fmt.Sprintf("region-%d", li), Zone: fmt.Sprintf("zone-%d", li)},
			Priority: 0,
		}
		for _, ep := range l {
			addr := ep.Addr
			i := strings.LastIndex(addr, ":")
			var port uint32
			fmt.Sscanf(addr[i+1:], "%d", &port)
			lbe := &envoy_config_endpoint_v3.LbEndpoint{
				HostIdentifier: &envoy_config_endpoint_v3.LbEndpoint_Endpoint{Endpoint: &envoy_config_endpoint_v3.Endpoint{
					Address: &envoy_config_core_v3.Address{Address: &envoy_config_core_v3.Address_SocketAddress{SocketAddress: &envoy_config_core_v3.SocketAddress{
						Address: addr[:i], PortSpecifier: &envoy_config_core_v3.SocketAddress_PortValue{PortValue: port}}}}}},
			}
			if ep.Weight >= 0 {
				lbe.LoadBalancingWeight = &wrapperspb.UInt32Value{Value: uint32(ep.Weight)}
			}
			le.LbEndpoints = append(le.LbEndpoints, lbe)
		}
		la.Endpoints = append(la.Endpoints, le)
	}
	return la
}

// hostsOfSet: the hosts of a host set with their attributes, sorted by address.  The attributes are read through the
// accessors the load balancers and the upstream code use (Weight, Hostname, Metadata) and tls_disable through Config();
// accessorMismatch reports a host whose Config() disagrees with its accessors
func hostsOfSet(hs types.HostSet) (hosts []hostT, accessorMismatch string) {
	hs.Range(func(h types.Host) bool {
		c := hostOfConfig(h.Config())
		a := hostT{Addr: h.AddressString(), Weight: h.Weight(), Hostname: h.Hostname(), TLSDisable: c.TLSDisable}
		if md := h.Metadata(); len(md) > 0 {
			a.Meta = map[string]string{}
			for k, v := range md {
				a.Meta[k] = v
			}
		}
		if a.String() != c.String() {
			accessorMismatch = fmt.Sprintf("accessors %s, Config() %s", a, c)
		}
		hosts = append(hosts, a)
		return true
	})
	sort.SliceStable(hosts, func(i, j int) bool { return hosts[i].Addr < hosts[j].Addr })
	return
}

func liveHosts(name string) (lb string, hosts []hostT, ok bool) {
	snap := cluster.GetClusterMngAdapterInstance().GetClusterSnapshot(context.Background(), name)
	if snap == nil {
		return "", nil, false
	}
	hosts, _ = hostsOfSet(snap.HostSet())
	return string(snap.ClusterInfo().LbType()), hosts, true
}

func coqOp(o opT) string {
	switch o.Kind {
	case "routers":
		return fmt.Sprintf("OAddOrUpdateRouters %s %s", CoqString(o.Name), o.Config.coq())
	case "add-route":
		return fmt.Sprintf("OAddRoute %s %s (%s)", CoqString(o.Name), CoqString(o.Domain), o.Route.coq())
	case "remove-routes":
		return fmt.Sprintf("ORemoveAllRoutes %s %s", CoqString(o.Name), CoqString(o.Domain))
	case "cluster":
		return fmt.Sprintf("OAddOrUpdateCluster %s %s %s", CoqString(o.Name), CoqNat(lbCodes[o.Lb]), coqHosts(o.CfgHosts))
	case "cluster-hosts":
		return fmt.Sprintf("OAddOrUpdateClusterAndHosts %s %s %s %s", CoqString(o.Name), CoqNat(lbCodes[o.Lb]), coqHosts(o.CfgHosts), coqHosts(o.Hosts))
	case "remove-clusters":
		return fmt.Sprintf("ORemoveClusters %s", coqStrList(o.Names))
	case "update-hosts":
		return fmt.Sprintf("OUpdateHosts %s %s", CoqString(o.Name), coqHosts(o.Hosts))
	case "append-hosts":
		return fmt.Sprintf("OAppendHosts %s %s", CoqString(o.Name), coqHosts(o.Hosts))
	case "remove-hosts":
		return fmt.Sprintf("ORemoveHosts %s %s", CoqString(o.Name), coqStrList(o.Addrs))
	case "endpoints":
		var ls []string
		for _, l := range o.Localities {
			var es []string
			for _, e := range l {
				es = append(es, fmt.Sprintf("Build_endpoint %s %s", CoqString(e.Addr), CoqOption(e.Weight >= 0, CoqNat(e.Weight))))
			}
			ls = append(ls, CoqList(es))
		}
		return fmt.Sprintf("OEndpoints %s %s", CoqString(o.Name), CoqList(ls))
	}
	panic("op kind " + o.Kind)
}

var addrPool = []string{"10.0.0.1:80", "10.0.0.2:80", "10.0.0.3:8080", "10.0.1.1:80", "10.0.1.2:443", "127.0.0.1:9000"}

func genHost(r *Rng, addr string) hostT {
	h := hostT{Addr: addr, Weight: uint32(r.Pick([]int{0, 1, 1, 5, 100, 128, 200})), Hostname: r.PickS([]string{"", "", "h1", "h2"}), TLSDisable: r.Pct(20)}
	switch r.Intn(4) {
	case 0:
		h.Meta = map[string]string{"zone": r.PickS([]string{"a", "b"})}
	case 1:
		h.Meta = map[string]string{"zone": r.PickS([]string{"a", "b"}), "version": r.PickS([]string{"1", "2"})}
	}
	return h
}

func pickHosts(r *Rng, max int) []hostT {
	n := r.Intn(max + 1)
	out := []hostT{}
	for i := 0; i < n; i++ {
		out = append(out, genHost(r, r.PickS(addrPool)))
	}
	return out
}

func pickAddrs(r *Rng, max int) []string {
	n := r.Intn(max + 1)
	out := []string{}
	for i := 0; i < n; i++ {
		out = append(out, r.PickS(addrPool))
	}
	return out
}

// presentHosts: 1..max hosts whose addresses are (as far as the generator's bookkeeping knows) already in the cluster,
// with freshly drawn attributes; with dup, one address may occur twice with different attributes
func presentHosts(r *Rng, present map[string]bool, max int, dup bool) []hostT {
	var addrs []string
	for a := range present {
		addrs = append(addrs, a)
	}
	sort.Strings(addrs)
	if len(addrs) == 0 {
		return pickHosts(r, max)
	}
	n := 1 + r.Intn(max)
	var out []hostT
	for i := 0; i < n; i++ {
		out = append(out, genHost(r, addrs[r.Intn(len(addrs))]))
	}
	if dup && len(out) > 0 {
		out = append(out, genHost(r, out[0].Addr))
	}
	return out
}

func c12(args []string) int {
	run := NewRun("C12", args)
	r := run.R
	c17ClusterManager() // the cluster manager singleton (created once per process)
	rm := router.GetRoutersMangerInstance()
	cvt := conv.NewConverter()
	g := &rtGen{r: r, keepIDs: true}
	run.Sum.Rule = "24 scripted histories (repeated AddRoute / RemoveAllRoutes with equal fast-index keys; re-application: A A B A for routers, clusters, host lists and endpoint assignments, a run-time route must not survive a re-applied configuration, remove and re-create under one name) + a probe of lookups racing with updates (one writer alternating two configurations and adding routes, 4 readers: every answer entirely from one table) + random operation histories of 4-25 operations (quick: 300 histories, thorough: 2400) over 2 router names, 2 cluster names and 1 unknown name per history: AddOrUpdateRouters (generated configurations as in C04, ~20% rejected), AddRoute / RemoveAllRoutes (domains: configured ones, other hosts, mixed case, empty, malformed; 8% unbuildable routes), AddOrUpdatePrimaryCluster, AddOrUpdateClusterAndHost, RemovePrimaryCluster (1-2 names, unknown ones included), Update/Append/RemoveClusterHosts (hosts = address from a pool of 6 + weight, hostname, tls_disable, metadata; duplicates inside a batch; 12% of the operations re-append and a third of the updates re-send addresses that are already present with other attributes; removal of a present address followed later by its re-append), and ConvertUpdateEndpoints with real ClusterLoadAssignment protos of 0-3 localities (optional load_balancing_weight incl. 0 and 500, an address repeated in a later locality with another weight); after EVERY operation the object it addresses is fingerprinted (live / wrapper configuration / dump) and the live object is compared with one rebuilt from the dump; 45% of the router updates after the first are degenerate (no virtual hosts, nil route lists, duplicate default, unparsable regex), mostly aimed at routers that exist, 12% of the later cluster updates use an unknown lb type or the empty name; then a battery of requests per router name and the hosts WITH their attributes (Weight(), Hostname(), Metadata(), Config()) and lb type per cluster name are read from the real managers, from clusters rebuilt from the dump, and from the dumped host entries themselves.  Non-trivial: a history in which some object was updated at least twice; distinct by (history number, seed)."
	header := "From MV Require Import Model.Router Model.Update Gen.EndpointSrc.\nFrom Coq Require Import List String.\nImport ListNotations.\nOpen Scope string_scope.\n"
	sh := run.NewShard(header, "up_case", "up_mismatches endpoints_update_per_locality")
	weight := 0
	nh := run.N(300, 2400)
	for hi := 0; hi < nh; hi++ {
		pfx := fmt.Sprintf("s%dh%d", run.Seed, hi)
		rnames := []string{pfx + "r0", pfx + "r1"}
		cnames := []string{pfx + "c0", pfx + "c1"}
		unknown := pfx + "zz"
		allCNames := []string{cnames[0], cnames[1], unknown, ""}
		g.rid, g.did = 0, 0
		var allRoutes []rtT // every route that appears in the history (for the regex oracle)
		var ops []opT
		nops := 4 + r.Intn(22)
		nadd := 0
		var lastDomains []string
		var rexisting []string // router names that have been added so far
		// the first histories of every run are SCRIPTED: repeated AddRoute / RemoveAllRoutes with equal fast-index keys
		var scriptedReqs []reqT
		const nScripted = 24
		if hi < nScripted {
			ops, scriptedReqs, allRoutes, lastDomains = scriptedRouteHistory(hi, r, rnames[0], unknown, cnames)
			nops = 0
			if hi%12 < 6 {
				run.Sum.Distribution["scripted-history:add-route-equal-index-key"]++
			} else {
				run.Sum.Distribution["scripted-history:re-application"]++
			}
		}
		// the generator's own bookkeeping of which clusters exist and which addresses they hold (only used to aim operations)
		exists := map[string]bool{}
		present := map[string]map[string]bool{cnames[0]: {}, cnames[1]: {}, unknown: {}, "": {}}
		setPresent := func(name string, hs []hostT) {
			present[name] = map[string]bool{}
			for _, h := range hs {
				present[name][h.Addr] = true
			}
		}
		for k := 0; k < nops; k++ {
			var o opT
			pickR := func() string {
				if r.Pct(6) {
					return unknown
				}
				return r.PickS(rnames)
			}
			pickC := func() string {
				if r.Pct(8) {
					return unknown
				}
				return r.PickS(cnames)
			}
			switch x := r.Intn(100); {
			case x < 12 || k == 0:
				c := g.config()
				name := pickR()
				if k > 0 && r.Pct(45) {
					// a degenerate or invalid update, mostly of a router that exists already
					if len(rexisting) > 0 && r.Pct(80) {
						name = rexisting[r.Intn(len(rexisting))]
					}
					switch r.Intn(5) {
					case 0, 1: // no virtual hosts at all (what the RDS listener conversion sends as a placeholder)
						c = cfgT{}
					case 2: // virtual hosts without route lists
						for i := range c {
							c[i].Routes = nil
						}
					case 3: // two defaults
						c = append(c, vhT{Name: "dup0", Domains: []string{"*"}}, vhT{Name: "dup1", Domains: []string{r.PickS([]string{"*", "*:*"})}})
					default: // a route whose regex does not compile
						g.rid++
						bad := rtT{Regex: "(", RegexID: g.rid, Cluster: fmt.Sprintf("badre%d", k), Bad: true, BadRegex: true}
						if len(c) == 0 {
							c = cfgT{{Name: "vh0", Domains: []string{"re.test"}}}
						}
						i := r.Intn(len(c))
						c[i].Routes = append(c[i].Routes, bad)
					}
					run.Sum.Distribution["gen:degenerate-router-update"]++
				}
				if name != unknown {
					seen := false
					for _, n := range rexisting {
						seen = seen || n == name
					}
					if !seen {
						rexisting = append(rexisting, name)
					}
				}
				o = opT{Kind: "routers", Name: name, Config: c}
				for _, vh := range c {
					allRoutes = append(allRoutes, vh.Routes...)
					lastDomains = append(lastDomains, vh.Domains...)
				}
			case x < 24:
				rt := g.route(fmt.Sprintf("add%d", nadd))
				nadd++
				if r.Pct(8) {
					rt.Bad = true
				}
				allRoutes = append(allRoutes, rt)
				o = opT{Kind: "add-route", Name: pickR(), Domain: pickDomain(r, lastDomains), Route: &rt}
			case x < 30:
				o = opT{Kind: "remove-routes", Name: pickR(), Domain: pickDomain(r, lastDomains)}
			case x < 46 || k == 1 || k == 2:
				name := pickC()
				if k <= 2 && r.Pct(85) { // most histories start with both clusters present
					name = cnames[k-1]
				}
				o = opT{Kind: "cluster", Name: name, Lb: r.PickS(lbNames), CfgHosts: pickHosts(r, 2)}
				if k > 2 && r.Pct(12) { // degenerate cluster updates: unknown lb type, empty name
					if r.Bool() {
						o.Lb = "LB_BOGUS"
					} else {
						o.Name, name = "", ""
					}
					run.Sum.Distribution["gen:degenerate-cluster-update"]++
				}
				exists[name] = true
			case x < 52:
				o = opT{Kind: "cluster-hosts", Name: pickC(), Lb: r.PickS(lbNames), CfgHosts: pickHosts(r, 2), Hosts: pickHosts(r, 3)}
				exists[o.Name] = true
				setPresent(o.Name, o.Hosts)
			case x < 56:
				o = opT{Kind: "remove-clusters", Names: []string{pickC()}}
				if r.Pct(30) {
					o.Names = append(o.Names, pickC())
				}
				all := true
				for _, n := range o.Names {
					all = all && exists[n]
				}
				if all {
					for _, n := range o.Names {
						exists[n] = false
						present[n] = map[string]bool{}
					}
				}
			case x < 64:
				o = opT{Kind: "update-hosts", Name: pickC(), Hosts: pickHosts(r, 4)}
				if r.Pct(35) { // the same addresses again, other attributes (duplicates inside the batch now and then)
					o.Hosts = presentHosts(r, present[o.Name], 3, r.Pct(30))
				}
				if exists[o.Name] {
					setPresent(o.Name, o.Hosts)
				}
			case x < 72:
				o = opT{Kind: "append-hosts", Name: pickC(), Hosts: pickHosts(r, 2)}
				if exists[o.Name] {
					for _, h := range o.Hosts {
						present[o.Name][h.Addr] = true
					}
				}
			case x < 84:
				// re-append of addresses that are already in the cluster, with other attributes: the new ones must win
				name := pickC()
				o = opT{Kind: "append-hosts", Name: name, Hosts: presentHosts(r, present[name], 2, r.Pct(30))}
				if exists[o.Name] {
					for _, h := range o.Hosts {
						present[o.Name][h.Addr] = true
					}
				}
				run.Sum.Distribution["gen:re-append-of-present-addresses"]++
			case x < 91:
				o = opT{Kind: "remove-hosts", Name: pickC(), Addrs: pickAddrs(r, 3)}
				if r.Pct(40) && len(present[o.Name]) > 0 { // remove a present one; a later append brings it back with new attributes
					var as []string
					for a := range present[o.Name] {
						as = append(as, a)
					}
					sort.Strings(as)
					o.Addrs = []string{as[r.Intn(len(as))]}
				}
				if exists[o.Name] {
					for _, a := range o.Addrs {
						delete(present[o.Name], a)
					}
				}
			default:
				nl := r.Intn(4)
				addrs := distinctAddrs(r, 6)
				o = opT{Kind: "endpoints", Name: pickC(), Localities: [][]epT{}}
				var all []hostT
				for li := 0; li < nl; li++ {
					n := 1 + r.Intn(2)
					var l []epT
					for _, a := range addrs[:n] {
						l = append(l, epT{Addr: a, Weight: r.Pick([]int{-1, -1, 0, 1, 7, 128, 500})})
					}
					if li > 0 && r.Pct(35) { // an address of an earlier locality again, with another weight
						l = append(l, epT{Addr: o.Localities[0][0].Addr, Weight: r.Pick([]int{-1, 3, 64})})
					}
					for _, e := range l {
						all = append(all, hostT{Addr: e.Addr})
					}
					o.Localities = append(o.Localities, l)
					addrs = addrs[n:]
				}
				if exists[o.Name] {
					setPresent(o.Name, all)
				}
			}
			ops = append(ops, o)
		}

		// ---- the request battery of this history
		battery := make([]reqT, 0, 12)
		battery = append(battery, scriptedReqs...)
		for k := 0; k < 5; k++ {
			battery = append(battery, g.request())
		}
		for _, d := range lastDomains {
			if len(battery) >= 9+len(scriptedReqs) {
				break
			}
			if r.Pct(40) {
				q := g.request()
				q.Vars[types.VarHost] = d
				battery = append(battery, q)
			}
		}
		// ---- apply to the real managers
		var fps []string
		results := make([]bool, len(ops))
		touched := map[string]int{}
		for k, o := range ops {
			var err error
			switch o.Kind {
			case "routers":
				err = rm.AddOrUpdateRouters(o.Config.v2config(o.Name, false))
				touched[o.Name]++
			case "add-route":
				rr := o.Route.v2()
				err = rm.AddRoute(o.Name, o.Domain, &rr)
				touched[o.Name]++
			case "remove-routes":
				err = rm.RemoveAllRoutes(o.Name, o.Domain)
				touched[o.Name]++
			case "cluster":
				err = cluster.GetClusterMngAdapterInstance().TriggerClusterAddOrUpdate(v2.Cluster{Name: o.Name, ClusterType: v2.SIMPLE_CLUSTER, LbType: v2.LbType(o.Lb), Hosts: hostsV2(o.CfgHosts)})
				touched[o.Name]++
			case "cluster-hosts":
				err = cluster.GetClusterMngAdapterInstance().TriggerClusterAndHostsAddOrUpdate(v2.Cluster{Name: o.Name, ClusterType: v2.SIMPLE_CLUSTER, LbType: v2.LbType(o.Lb), Hosts: hostsV2(o.CfgHosts)}, hostsV2(o.Hosts))
				touched[o.Name]++
			case "remove-clusters":
				err = cluster.GetClusterMngAdapterInstance().TriggerClusterDel(o.Names...)
			case "update-hosts":
				err = cluster.GetClusterMngAdapterInstance().TriggerClusterHostUpdate(o.Name, hostsV2(o.Hosts))
				touched[o.Name]++
			case "append-hosts":
				err = cluster.GetClusterMngAdapterInstance().TriggerHostAppend(o.Name, hostsV2(o.Hosts))
				touched[o.Name]++
			case "remove-hosts":
				err = cluster.GetClusterMngAdapterInstance().TriggerHostDel(o.Name, o.Addrs)
				touched[o.Name]++
			case "endpoints":
				err = cvt.ConvertUpdateEndpoints([]*envoy_config_endpoint_v3.ClusterLoadAssignment{loadAssignment(o.Name, o.Localities)})
				touched[o.Name]++
				run.Sum.Distribution[fmt.Sprintf("endpoint-localities=%d", len(o.Localities))]++
				// finder: an endpoint assignment yields the union of all its endpoints (first occurrence of an address gives the weight)
				if _, got, ok := liveHosts(o.Name); ok {
					var want []hostT
					seen := map[string]bool{}
					for _, l := range o.Localities {
						for _, e := range l {
							if seen[e.Addr] {
								continue
							}
							seen[e.Addr] = true
							h := hostT{Addr: e.Addr}
							if e.Weight >= 0 {
								h.Weight = uint32(e.Weight)
								if h.Weight < 1 {
									h.Weight = 1
								} else if h.Weight > 128 {
									h.Weight = 128
								}
							}
							want = append(want, h)
						}
					}
					sort.SliceStable(want, func(i, j int) bool { return want[i].Addr < want[j].Addr })
					if hostsString(got) != hostsString(want) {
						sig := "c12:endpoints-union:other"
						if n := len(o.Localities); n >= 2 && len(got) < len(want) {
							sig = "c12:endpoints-union:last-locality-wins"
						} else if len(got) == len(want) {
							sig = "c12:endpoints-union:attributes"
						}
						run.Fail(sig, fmt.Sprintf("endpoint assignment with localities %v left cluster %s with hosts %s, the union is %s", o.Localities, o.Name, hostsString(got), hostsString(want)),
							map[string]interface{}{"history": ops[:k+1], "op": k})
					}
				}
			}
			// finder: the last update wins, per address and with all attributes: after a successful host operation every
			// address of the batch is held by the live cluster with the attributes of its first entry in the batch
			if err == nil && (o.Kind == "update-hosts" || o.Kind == "append-hosts" || o.Kind == "cluster-hosts") {
				if _, got, ok := liveHosts(o.Name); ok {
					byAddr := map[string]hostT{}
					for _, h := range got {
						byAddr[h.Addr] = h
					}
					seen := map[string]bool{}
					for _, h := range o.Hosts {
						if seen[h.Addr] {
							continue
						}
						seen[h.Addr] = true
						if g, in := byAddr[h.Addr]; !in || g.String() != h.String() {
							sig := "c12:last-update-wins:" + o.Kind + ":stale-host-attributes"
							if !in {
								sig = "c12:last-update-wins:" + o.Kind + ":host-missing"
							}
							run.Fail(sig, fmt.Sprintf("%s on cluster %s with %s: the live cluster holds %s for that address", o.Kind, o.Name, h, g),
								map[string]interface{}{"history": ops[:k+1], "op": k})
						}
					}
					if o.Kind != "append-hosts" && len(got) != len(seen) {
						run.Fail("c12:last-update-wins:"+o.Kind+":extra-hosts", fmt.Sprintf("%s on cluster %s with %s left %s", o.Kind, o.Name, hostsString(o.Hosts), hostsString(got)),
							map[string]interface{}{"history": ops[:k+1], "op": k})
					}
				}
			}
			results[k] = err == nil
			// ---- after EVERY operation: fingerprint of the object it addresses (live, wrapper configuration, dump) for the
			// Coq comparison, and (finder) live object vs object rebuilt from the dumped configuration
			hrep := map[string]interface{}{"history": ops[:k+1], "op": k}
			switch o.Kind {
			case "routers", "add-route", "remove-routes":
				fps = append(fps, coqNatList(routerFP(rm, o.Name)))
				compareRouterWithDump(run, rm, o.Name, battery, hrep, true)
			case "remove-clusters":
				fps = append(fps, coqNatList(clusterFP(o.Names[0])))
				for _, n := range o.Names {
					compareClusterWithDump(run, n, hrep)
				}
			default:
				fps = append(fps, coqNatList(clusterFP(o.Name)))
				compareClusterWithDump(run, o.Name, hrep)
			}
			run.Sum.Distribution["op:"+o.Kind]++
			if err != nil {
				run.Sum.Distribution["op-error:"+o.Kind]++
			}
		}

		// ---- observe the live objects
		oracle := cfgT{{Routes: allRoutes}}
		var robs, cobs []string
		type liveAns struct {
			one   string
			found bool
			all   []string
		}
		live := map[string][]liveAns{}
		for _, name := range append(append([]string(nil), rnames...), unknown) {
			var rs types.Routers
			if w := rm.GetRouterWrapperByName(name); w != nil {
				rs = w.GetRouters()
			}
			var ls []string
			for _, q := range battery {
				var a liveAns
				if rs != nil {
					a.one, a.found, a.all = lookup(rs, q)
				}
				live[name] = append(live[name], a)
				var allq []string
				for _, s := range a.all {
					allq = append(allq, CoqString(s))
				}
				ls = append(ls, fmt.Sprintf("(%s, %s, %s)", oracle.coqReq(q), CoqOption(a.found, CoqString(a.one)), CoqList(allq)))
			}
			robs = append(robs, fmt.Sprintf("(%s, %s)", CoqString(name), CoqList(ls)))
		}
		type liveCl struct {
			lb    string
			hosts []hostT
			ok    bool
		}
		liveC := map[string]liveCl{}
		for _, name := range allCNames {
			lb, hosts, ok := liveHosts(name)
			liveC[name] = liveCl{lb, hosts, ok}
			got := "None"
			if ok {
				got = fmt.Sprintf("(Some (%s, %s))", CoqNat(lbCodes[lb]), coqHosts(hosts))
			}
			cobs = append(cobs, fmt.Sprintf("(%s, %s)", CoqString(name), got))
		}

		// ---- finder: fresh objects from the dumped configuration answer like the live ones
		rep := map[string]interface{}{"history": ops}
		dumpR := map[string]v2.RouterConfiguration{}
		dumpC := map[string]v2.Cluster{}
		configmanager.HandleMOSNConfig(configmanager.CfgTypeRouter, func(v interface{}) {
			m, _ := v.(map[string]v2.RouterConfiguration)
			for _, name := range append(append([]string(nil), rnames...), unknown) {
				if rc, ok := m[name]; ok {
					// through the dumped (JSON) form
					b, err := json.Marshal(rc)
					var back v2.RouterConfiguration
					if err == nil {
						err = json.Unmarshal(b, &back)
					}
					if err != nil {
						run.Fail("c12:router-dump-unreadable", "the dumped router configuration cannot be read back: "+err.Error(), rep)
						continue
					}
					dumpR[name] = back
				}
			}
		})
		configmanager.HandleMOSNConfig(configmanager.CfgTypeCluster, func(v interface{}) {
			m, _ := v.(map[string]v2.Cluster)
			for _, name := range allCNames {
				if cc, ok := m[name]; ok {
					b, err := json.Marshal(cc)
					var back v2.Cluster
					if err == nil {
						err = json.Unmarshal(b, &back)
					}
					if err != nil {
						run.Fail("c12:cluster-dump-unreadable", "the dumped cluster configuration cannot be read back: "+err.Error(), rep)
						continue
					}
					dumpC[name] = back
				}
			}
		})
		var rdump, cdump []string
		for _, name := range append(append([]string(nil), rnames...), unknown) {
			var fresh types.Routers
			rc, inDump := dumpR[name]
			if inDump {
				fresh, _ = router.NewRouters(&rc)
			}
			if w := rm.GetRouterWrapperByName(name); (w != nil) != inDump {
				run.Fail("c12:router-presence", fmt.Sprintf("router %s: live=%v, in dumped configuration=%v", name, w != nil, inDump), rep)
			}
			var ls []string
			reported := false
			for k, q := range battery {
				var f liveAns
				if fresh != nil {
					f.one, f.found, f.all = lookup(fresh, q)
				}
				var allq []string
				for _, s := range f.all {
					allq = append(allq, CoqString(s))
				}
				ls = append(ls, fmt.Sprintf("(%s, %s, %s)", oracle.coqReq(q), CoqOption(f.found, CoqString(f.one)), CoqList(allq)))
				l := live[name][k]
				if !reported && (f.found != l.found || f.one != l.one || fmt.Sprint(f.all) != fmt.Sprint(l.all)) {
					run.Fail("c12:router-live-differs-from-dump", fmt.Sprintf("router %s, request %v: live answers %q %v, a router built from the dumped configuration answers %q %v", name, q, l.one, l.all, f.one, f.all), rep)
					reported = true
				}
			}
			rdump = append(rdump, fmt.Sprintf("(%s, %s)", CoqString(name), CoqList(ls)))
		}
		for _, name := range allCNames {
			cc, inDump := dumpC[name]
			l := liveC[name]
			if inDump != l.ok {
				sig := "c12:cluster-presence"
				if l.ok {
					sig = "c12:cluster-live-but-not-dumped"
				}
				run.Fail(sig, fmt.Sprintf("cluster %s: live=%v, in dumped configuration=%v", name, l.ok, inDump), rep)
				if !inDump {
					cdump = append(cdump, fmt.Sprintf("(%s, None)", CoqString(name)))
					continue
				}
			}
			if !inDump {
				cdump = append(cdump, fmt.Sprintf("(%s, None)", CoqString(name)))
				continue
			}
			fc := cluster.NewCluster(cc)
			cluster.NewSimpleHostHandler(fc, cc.Hosts)
			fh, mism := hostsOfSet(fc.Snapshot().HostSet())
			if mism != "" {
				run.Fail("c12:host-config-differs-from-accessors", "cluster "+name+": "+mism, rep)
			}
			cdump = append(cdump, fmt.Sprintf("(%s, (Some (%s, %s)))", CoqString(name), CoqNat(lbCodes[string(fc.Snapshot().ClusterInfo().LbType())]), coqHosts(fh)))
			if flb := string(fc.Snapshot().ClusterInfo().LbType()); flb != l.lb || hostsString(fh) != hostsString(l.hosts) {
				sig := "c12:cluster-live-differs-from-dump"
				if flb == l.lb && len(fh) == len(l.hosts) {
					sig = "c12:cluster-live-differs-from-dump:host-attributes"
				}
				run.Fail(sig, fmt.Sprintf("cluster %s: live %s %s, built from the dumped configuration %s %s", name, l.lb, hostsString(l.hosts), flb, hostsString(fh)), rep)
			}
			// the dumped host entries themselves (not only what a cluster built from them reports)
			var dh []hostT
			seenD := map[string]bool{}
			for _, hc := range cc.Hosts {
				if !seenD[hc.Address] {
					seenD[hc.Address] = true
					dh = append(dh, hostOfConfig(hc))
				}
			}
			sort.SliceStable(dh, func(i, j int) bool { return dh[i].Addr < dh[j].Addr })
			if hostsString(dh) != hostsString(l.hosts) {
				run.Fail("c12:dumped-hosts-differ-from-live", fmt.Sprintf("cluster %s: live %s, dumped host entries %s", name, hostsString(l.hosts), hostsString(dh)), rep)
			}
		}
		reportPanics(run, "c12", rep)
		nontrivial := false
		for _, n := range touched {
			if n >= 2 {
				nontrivial = true
			}
		}
		run.Count(fmt.Sprintf("%d|%d", run.Seed, hi), nontrivial, fmt.Sprintf("history-len=%d-%d", len(ops)/5*5, len(ops)/5*5+4))
		if nontrivial {
			var kinds []string
			for _, o := range ops {
				kinds = append(kinds, o.Kind)
			}
			run.Sample(map[string]interface{}{"ops": kinds, "results": results, "clusters": liveC[cnames[0]].hosts})
		}
		var cops, cres []string
		for k, o := range ops {
			cops = append(cops, coqOp(o))
			cres = append(cres, CoqBool(results[k]))
		}
		sh.Add(fmt.Sprintf("(%s,\n  %s,\n  %s,\n  %s,\n  %s,\n  %s,\n  %s)", CoqList(cops), CoqList(cres), CoqList(fps), CoqList(robs), CoqList(cobs), CoqList(rdump), CoqList(cdump)), rep)
		weight += len(ops) + len(battery)*6
		if weight >= 900 {
			sh.Close()
			sh = run.NewShard(header, "up_case", "up_mismatches endpoints_update_per_locality")
			weight = 0
		}
		// leave the singletons small
		for _, n := range allCNames {
			cluster.GetClusterMngAdapterInstance().TriggerClusterDel(n)
		}
	}
	c12ConcurrentProbe(run, rm)
	c12Resources(run)
	sh.Close()
	return run.Finish()
}

// c12ConcurrentProbe: lookups racing with AddOrUpdateRouters / AddRoute on the real manager.  One writer alternates two
// configurations A and B under one router name (every route of A names a cluster "A-...", of B "B-...") and adds routes
// to the table in force; readers fetch the wrapper's routers and look a request up.  Every answer must come entirely from
// A or entirely from B: never a nil routers object, never "no route" (both tables have a catch-all), never clusters of
// both tables in one MatchAllRoutes answer, never a panic.
func c12ConcurrentProbe(run *Run, rm types.RouterManager) {
	name := fmt.Sprintf("s%dconcurrent", run.Seed)
	mk := func(tab string, n int) cfgT {
		c := cfgT{{Name: "vh0", Domains: []string{"*"}}, {Name: "vh1", Domains: []string{"x.test"}}}
		for i := 0; i < n; i++ {
			c[0].Routes = append(c[0].Routes, rtT{Cluster: fmt.Sprintf("%s-r%d", tab, i), Prefix: "/", Headers: []hmT{{Name: "k1", Value: "v1"}}})
		}
		c[0].Routes = append(c[0].Routes, rtT{Cluster: tab + "-base", Prefix: "/"})
		c[1].Routes = []rtT{{Cluster: tab + "-x", Prefix: "/"}}
		return c
	}
	if err := rm.AddOrUpdateRouters(mk("A", 2).v2config(name, false)); err != nil {
		run.Fail("c12:concurrent-lookup:setup", err.Error(), nil)
		return
	}
	q := reqT{Vars: map[string]string{types.VarHost: "any.test", types.VarPath: "/p", types.VarMethod: "GET"}, Hdr: map[string]string{"k1": "v1"}}
	var stop int32
	var wg sync.WaitGroup
	var mu sync.Mutex
	bad := map[string]string{}
	lookups := 0
	for rd := 0; rd < 4; rd++ {
		wg.Add(1)
		go func() {
			defer wg.Done()
			n := 0
			for atomic.LoadInt32(&stop) == 0 {
				n++
				w := rm.GetRouterWrapperByName(name)
				if w == nil || w.GetRouters() == nil {
					mu.Lock()
					bad["c12:concurrent-lookup:nil-routers"] = "the wrapper or its routers object was nil while the router was being updated"
					mu.Unlock()
					continue
				}
				one, found, all := lookup(w.GetRouters(), q)
				sig, what := "", ""
				if !found || len(all) == 0 {
					sig, what = "c12:concurrent-lookup:no-route-during-update", "a request that both tables route got no route while the router was being updated"
				} else {
					for _, cl := range append([]string{one}, all...) {
						if cl[0] != all[0][0] {
							sig, what = "c12:concurrent-lookup:mixed-tables", fmt.Sprintf("one lookup was answered with routes of both tables: MatchRoute %q, MatchAllRoutes %v", one, all)
						}
					}
				}
				if sig != "" {
					mu.Lock()
					bad[sig] = what
					mu.Unlock()
				}
			}
			mu.Lock()
			lookups += n
			mu.Unlock()
		}()
	}
	iters := run.N(150, 1500)
	for i := 0; i < iters; i++ {
		tab := "A"
		if i%2 == 1 {
			tab = "B"
		}
		if err := rm.AddOrUpdateRouters(mk(tab, 1+i%3).v2config(name, false)); err != nil {
			bad["c12:concurrent-lookup:update-failed"] = err.Error()
		}
		rr := rtT{Cluster: fmt.Sprintf("%s-add%d", tab, i), Prefix: "/p"}.v2()
		if err := rm.AddRoute(name, "nowhere.invalid", &rr); err != nil {
			bad["c12:concurrent-lookup:update-failed"] = err.Error()
		}
		if i%5 == 0 {
			rm.RemoveAllRoutes(name, "x.test")
		}
	}
	atomic.StoreInt32(&stop, 1)
	wg.Wait()
	reportPanics(run, "c12", map[string]interface{}{"probe": "concurrent lookups during updates"})
	for sig, what := range bad {
		run.Fail(sig, what, map[string]interface{}{"probe": "concurrent lookups during updates", "updates": iters, "lookups": lookups})
	}
	run.Sum.Distribution["concurrent-probe:updates"] += iters
	run.Sum.Distribution["concurrent-probe:lookups"] += lookups
	run.Count(fmt.Sprintf("%d|concurrent", run.Seed), true, "concurrent-probe")
}

func pickDomain(r *Rng, configured []string) string {
	if len(configured) > 0 && r.Pct(60) {
		d := configured[r.Intn(len(configured))]
		if r.Pct(15) {
			return upper(d)
		}
		return d
	}
	return r.PickS([]string{"a.com", "x.a.com:80", "", "nowhere.invalid", "::1", "*", "A.COM", "q.com:8080"})
}

func distinctAddrs(r *Rng, n int) []string {
	perm := append([]string(nil), addrPool...)
	for i := len(perm) - 1; i > 0; i-- {
		j := r.Intn(i + 1)
		perm[i], perm[j] = perm[j], perm[i]
	}
	if n > len(perm) {
		n = len(perm)
	}
	return perm[:n]
}

// ---------------------------------------------------------------------------------------- dump access and per-operation checks

// dumpedRouter / dumpedCluster: the configuration configmanager would dump for the name, through its JSON form
func dumpedRouter(name string) (rc v2.RouterConfiguration, ok bool, err error) {
	configmanager.HandleMOSNConfig(configmanager.CfgTypeRouter, func(v interface{}) {
		m, _ := v.(map[string]v2.RouterConfiguration)
		var in v2.RouterConfiguration
		if in, ok = m[name]; ok {
			var b []byte
			if b, err = json.Marshal(in); err == nil {
				err = json.Unmarshal(b, &rc)
			}
		}
	})
	return
}

func dumpedCluster(name string) (cc v2.Cluster, ok bool, err error) {
	configmanager.HandleMOSNConfig(configmanager.CfgTypeCluster, func(v interface{}) {
		m, _ := v.(map[string]v2.Cluster)
		var in v2.Cluster
		if in, ok = m[name]; ok {
			var b []byte
			if b, err = json.Marshal(in); err == nil {
				err = json.Unmarshal(b, &cc)
			}
		}
	})
	return
}

func countRoutes(vhs []v2.VirtualHost) int {
	n := 0
	for _, vh := range vhs {
		n += len(vh.Routers)
	}
	return n
}

// routerFP: [0 absent | 1 nil routers | 2 routers; virtual hosts, routes of the wrapper's configuration; in dump; virtual hosts, routes of the dump]
func routerFP(rm types.RouterManager, name string) []int {
	fp := []int{0, 0, 0, 0, 0, 0}
	if w := rm.GetRouterWrapperByName(name); w != nil {
		fp[0] = 1
		if w.GetRouters() != nil {
			fp[0] = 2
		}
		wc := w.GetRoutersConfig()
		fp[1], fp[2] = len(wc.VirtualHosts), countRoutes(wc.VirtualHosts)
	}
	if rc, ok, err := dumpedRouter(name); ok && err == nil {
		fp[3], fp[4], fp[5] = 1, len(rc.VirtualHosts), countRoutes(rc.VirtualHosts)
	}
	return fp
}

// clusterFP: [live; lb; hosts; in dump; lb; hosts]
func clusterFP(name string) []int {
	fp := []int{0, 0, 0, 0, 0, 0}
	if lb, hosts, ok := liveHosts(name); ok {
		fp[0], fp[1], fp[2] = 1, lbCodes[lb], len(hosts)
	}
	if cc, ok, err := dumpedCluster(name); ok && err == nil {
		seen := map[string]bool{}
		for _, h := range cc.Hosts {
			seen[h.Address] = true
		}
		fp[3], fp[4], fp[5] = 1, lbCodes[string(cc.LbType)], len(seen)
	}
	return fp
}

// compareRouterWithDump (finder): the live router answers every request of the battery like a router built from the
// dumped configuration; presence agrees
func compareRouterWithDump(run *Run, rm types.RouterManager, name string, battery []reqT, rep interface{}, perOp bool) {
	var liveR, fresh types.Routers
	w := rm.GetRouterWrapperByName(name)
	if w != nil {
		liveR = w.GetRouters()
	}
	rc, inDump, err := dumpedRouter(name)
	if err != nil {
		run.Fail("c12:router-dump-unreadable", "the dumped router configuration cannot be read back: "+err.Error(), rep)
		return
	}
	if (w != nil) != inDump {
		run.Fail("c12:router-presence", fmt.Sprintf("router %s: live=%v, in dumped configuration=%v", name, w != nil, inDump), rep)
	}
	if inDump {
		fresh, _ = router.NewRouters(&rc)
	}
	if (liveR == nil) != (fresh == nil) {
		sig := "c12:router-live-differs-from-dump:live-router-but-dump-builds-none"
		if liveR == nil {
			sig = "c12:router-live-differs-from-dump:no-live-router-but-dump-builds-one"
		}
		run.Fail(sig, fmt.Sprintf("router %s: live routers present=%v, a router built from the dumped configuration (%d virtual hosts, %d routes) present=%v", name, liveR != nil, len(rc.VirtualHosts), countRoutes(rc.VirtualHosts), fresh != nil), rep)
		return
	}
	if liveR == nil {
		return
	}
	for _, q := range battery {
		lo, lf, la := lookup(liveR, q)
		fo, ff, fa := lookup(fresh, q)
		if lo != fo || lf != ff || fmt.Sprint(la) != fmt.Sprint(fa) {
			run.Fail("c12:router-live-differs-from-dump", fmt.Sprintf("router %s, request %v: live answers %q %v, a router built from the dumped configuration answers %q %v", name, q, lo, la, fo, fa), rep)
			return
		}
	}
}

// compareClusterWithDump (finder): live lb type and hosts (with attributes) = those of a cluster built from the dump
func compareClusterWithDump(run *Run, name string, rep interface{}) {
	lb, hosts, live := liveHosts(name)
	cc, inDump, err := dumpedCluster(name)
	if err != nil {
		run.Fail("c12:cluster-dump-unreadable", "the dumped cluster configuration cannot be read back: "+err.Error(), rep)
		return
	}
	if live != inDump {
		sig := "c12:cluster-presence"
		if live {
			sig = "c12:cluster-live-but-not-dumped"
		}
		run.Fail(sig, fmt.Sprintf("cluster %s: live=%v, in dumped configuration=%v", name, live, inDump), rep)
		return
	}
	if !live {
		return
	}
	fc := cluster.NewCluster(cc)
	cluster.NewSimpleHostHandler(fc, cc.Hosts)
	fh, _ := hostsOfSet(fc.Snapshot().HostSet())
	if flb := string(fc.Snapshot().ClusterInfo().LbType()); flb != lb || hostsString(fh) != hostsString(hosts) {
		sig := "c12:cluster-live-differs-from-dump"
		if flb == lb && len(fh) == len(hosts) {
			sig = "c12:cluster-live-differs-from-dump:host-attributes"
		}
		run.Fail(sig, fmt.Sprintf("cluster %s: live %s %s, built from the dumped configuration %s %s", name, lb, hostsString(hosts), flb, hostsString(fh)), rep)
	}
}

// scriptedRouteHistory: a deterministic family (variant = n % 6, values drawn from r) of histories in which AddRoute is
// called several times with routes that have the SAME fast-index key (one exact header, equal name and value) but
// different paths / clusters, interleaved with RemoveAllRoutes, on an exact-domain virtual host and on the default one
// (reached through a domain no virtual host has).  Every added route must be APPENDED to the live route list exactly as
// it is appended to the stored configuration.  The returned requests carry the headers and paths that tell the added
// routes apart.
func scriptedRouteHistory(n int, r *Rng, name, unknown string, cnames []string) (ops []opT, reqs []reqT, all []rtT, domains []string) {
	key := r.PickS([]string{"service", "k1", "x-env"})
	val := r.PickS([]string{"svcA", "v1", "gray"})
	other := val + "-other"
	mk := func(cluster, prefix string, v string, method bool) rtT {
		rt := rtT{Cluster: cluster, Prefix: prefix, Headers: []hmT{{Name: key, Value: v}}}
		if method {
			rt.Headers = append(rt.Headers, hmT{Name: "method", Value: "GET"})
		}
		return rt
	}
	c := cfgT{
		{Name: "vh0", Domains: []string{"svc.test"}, Routes: []rtT{mk("v0r0", "", val, false)}},
		{Name: "vh1", Domains: []string{"*"}, Routes: []rtT{mk("v1r0", "/a", val, false), mk("v1r1", "/", other, false)}},
	}
	domains = []string{"svc.test", "*"}
	ops = append(ops, opT{Kind: "routers", Name: name, Config: c})
	for _, vh := range c {
		all = append(all, vh.Routes...)
	}
	nadd := 0
	add := func(domain, prefix, v string, method bool) {
		rt := mk(fmt.Sprintf("add%d", nadd), prefix, v, method)
		nadd++
		all = append(all, rt)
		ops = append(ops, opT{Kind: "add-route", Name: name, Domain: domain, Route: &rt})
	}
	remove := func(domain string) { ops = append(ops, opT{Kind: "remove-routes", Name: name, Domain: domain}) }
	// configuration B: same router name, same domains, other content
	cfgB := func() cfgT {
		b := cfgT{
			{Name: "vh0", Domains: []string{"svc.test"}, Routes: []rtT{mk("b0r0", "/a", val, false), mk("b0r1", "", other, false)}},
			{Name: "vh1", Domains: []string{"*"}, Routes: []rtT{mk("b1r0", "/", val, false)}},
		}
		for _, vh := range b {
			all = append(all, vh.Routes...)
		}
		return b
	}
	cfgA := func() cfgT { // a fresh copy of A (the manager keeps and mutates the object it is given)
		a := cfgT{
			{Name: "vh0", Domains: []string{"svc.test"}, Routes: []rtT{mk("v0r0", "", val, false)}},
			{Name: "vh1", Domains: []string{"*"}, Routes: []rtT{mk("v1r0", "/a", val, false), mk("v1r1", "/", other, false)}},
		}
		return a
	}
	routers := func(c cfgT) { ops = append(ops, opT{Kind: "routers", Name: name, Config: c}) }
	hostsX := []hostT{{Addr: addrPool[0], Weight: 1}, {Addr: addrPool[1], Weight: 5, Hostname: "h1"}}
	hostsY := []hostT{{Addr: addrPool[1], Weight: 9, Meta: map[string]string{"zone": "b"}}, {Addr: addrPool[2], Weight: 1, TLSDisable: true}}
	switch n % 12 {
	case 6: // re-applied unchanged, then other content under the same name, then the first again (A A B A)
		routers(cfgA())
		routers(cfgB())
		routers(cfgA())
	case 7: // a route added at run time must not survive the re-application of the configuration (A +route A; A +route B A)
		add("svc.test", "/", val, false)
		routers(cfgA())
		add("nowhere.invalid", "/", val, false)
		routers(cfgB())
		add("svc.test", "/a/b", val, false)
		routers(cfgA())
	case 8: // cluster with hosts: A, A again, B, A
		c := cnames[0]
		ops = append(ops, opT{Kind: "cluster-hosts", Name: c, Lb: "LB_RANDOM", CfgHosts: hostsX, Hosts: hostsX},
			opT{Kind: "cluster-hosts", Name: c, Lb: "LB_RANDOM", CfgHosts: hostsX, Hosts: hostsX},
			opT{Kind: "cluster-hosts", Name: c, Lb: "LB_ROUNDROBIN", CfgHosts: hostsY, Hosts: hostsY},
			opT{Kind: "cluster-hosts", Name: c, Lb: "LB_RANDOM", CfgHosts: hostsX, Hosts: hostsX},
			opT{Kind: "cluster", Name: c, Lb: "LB_LEAST_REQUEST", CfgHosts: hostsY}, // keeps the live hosts X
			opT{Kind: "cluster", Name: c, Lb: "LB_LEAST_REQUEST", CfgHosts: hostsY})
	case 9: // host lists: X, X, Y, X; the same append twice; the same removal twice
		c := cnames[1]
		ops = append(ops, opT{Kind: "cluster", Name: c, Lb: "LB_RANDOM"},
			opT{Kind: "update-hosts", Name: c, Hosts: hostsX}, opT{Kind: "update-hosts", Name: c, Hosts: hostsX},
			opT{Kind: "update-hosts", Name: c, Hosts: hostsY}, opT{Kind: "update-hosts", Name: c, Hosts: hostsX},
			opT{Kind: "append-hosts", Name: c, Hosts: hostsY[:1]}, opT{Kind: "append-hosts", Name: c, Hosts: hostsY[:1]},
			opT{Kind: "append-hosts", Name: c, Hosts: hostsX[1:]},
			opT{Kind: "remove-hosts", Name: c, Addrs: []string{addrPool[0]}}, opT{Kind: "remove-hosts", Name: c, Addrs: []string{addrPool[0]}},
			opT{Kind: "append-hosts", Name: c, Hosts: hostsX[:1]})
	case 10: // the very same route added twice, removal twice, and again
		add("svc.test", "/a", val, false)
		ops = append(ops, ops[len(ops)-1])
		remove("svc.test")
		remove("svc.test")
		ops = append(ops, ops[len(ops)-3])
	case 11: // endpoint assignments: E, E again, E', E; cluster removed and created again under the same name
		c := cnames[0]
		e1 := [][]epT{{{Addr: addrPool[0], Weight: 3}}, {{Addr: addrPool[1], Weight: -1}}}
		e2 := [][]epT{{{Addr: addrPool[1], Weight: 7}, {Addr: addrPool[3], Weight: 200}}}
		ops = append(ops, opT{Kind: "cluster", Name: c, Lb: "LB_RANDOM"},
			opT{Kind: "endpoints", Name: c, Localities: e1}, opT{Kind: "endpoints", Name: c, Localities: e1},
			opT{Kind: "endpoints", Name: c, Localities: e2}, opT{Kind: "endpoints", Name: c, Localities: e1},
			opT{Kind: "remove-clusters", Names: []string{c}}, opT{Kind: "cluster", Name: c, Lb: "LB_ROUNDROBIN", CfgHosts: hostsX},
			opT{Kind: "endpoints", Name: c, Localities: e2})
	case 0: // the same rpc key twice on the exact-domain virtual host
		add("svc.test", "", val, false)
		add("svc.test", "", val, false)
	case 1: // twice on the default virtual host, reached through an unknown domain; different prefixes
		add("nowhere.invalid", "/a/b", val, false)
		add("nowhere.invalid", "/", val, false)
	case 2: // after a removal: the first addition creates the index entry, the second has the same key
		remove("svc.test")
		add("svc.test", "/x", val, false)
		add("svc.test", "/", val, false)
	case 3: // three times, with a method matcher beside the indexed header
		add("svc.test", "/a", val, true)
		add("svc.test", "/", val, true)
		add("svc.test", "", val, false)
	case 4: // another value between two equal ones
		add("svc.test", "/a", val, false)
		add("svc.test", "/", other, false)
		add("svc.test", "/", val, false)
	default: // add, remove, add, add, remove, add
		add("svc.test", "/a", val, false)
		remove("svc.test")
		add("svc.test", "/a/b", val, false)
		add("svc.test", "/", val, false)
		remove("nowhere.invalid")
		add("nowhere.invalid", "/", val, false)
		add("nowhere.invalid", "/a", val, false)
	}
	if r.Bool() { // the same on a router name that does not exist: nothing happens
		rt := mk("ghost", "/", val, false)
		all = append(all, rt)
		ops = append(ops, opT{Kind: "add-route", Name: unknown, Domain: "svc.test", Route: &rt})
	}
	for _, host := range []string{"svc.test", "SVC.test", "other.org"} {
		for _, path := range []string{"/a/b", "/x/y", "/"} {
			for _, v := range []string{val, other} {
				reqs = append(reqs, reqT{Vars: map[string]string{types.VarHost: host, types.VarPath: path, types.VarMethod: "GET"}, Hdr: map[string]string{key: v}})
			}
		}
	}
	return
}

// ---------------------------------------------------------------------------------------- resource manager identity across updates

type ropT struct {
	Kind string `json:"kind"` // update | update-hosts-too | hosts | remove | acquire | release
	Max  int    `json:"max,omitempty"`
	K    int    `json:"k,omitempty"`
}

func (o ropT) coq() string {
	switch o.Kind {
	case "update", "update-hosts-too":
		return fmt.Sprintf("RUpdate %s", CoqNat(o.Max))
	case "hosts":
		return "RHosts"
	case "remove":
		return "RRemove"
	case "acquire":
		return "RAcquire"
	}
	return fmt.Sprintf("RRelease %s", CoqNat(o.K))
}

func boolInt(b bool) int64 {
	if b {
		return 1
	}
	return 0
}

// c12Resources: requests in flight hold the snapshot they started with and count themselves in its resource manager
// (Increase); the cluster is updated (identical / changed thresholds, with and without hosts, hosts only, removed and
// created again); the requests end and give their count back through the snapshot THEY hold (Decrease).  After every
// operation the live cluster's threshold / count / CanCreate and the dumped threshold go to Coq (Model/UpdateRes.v);
// at the end every holder releases and the finder requires: every live counter is 0 again, and the live cluster
// answers CanCreate like a cluster freshly built from the dumped configuration.
func c12Resources(run *Run) {
	r := run.R
	ad := cluster.GetClusterMngAdapterInstance()
	header := "From MV Require Import Model.UpdateRes Gen.ClusterSrc.\nFrom Coq Require Import List ZArith.\nImport ListNotations.\nOpen Scope Z_scope.\n"
	sh := run.NewShard(header, "res_case", "res_mismatches resource_manager_adopted")
	nh := run.N(60, 600)
	for hi := 0; hi < nh; hi++ {
		name := fmt.Sprintf("s%dres%d", run.Seed, hi)
		var ops []ropT
		switch hi {
		case 0: // a retry in flight while the cluster is updated with the identical configuration
			ops = []ropT{{Kind: "update", Max: 1}, {Kind: "acquire"}, {Kind: "update", Max: 1}, {Kind: "release", K: 0}}
		case 1: // an open stream while cluster and hosts are replaced
			ops = []ropT{{Kind: "update", Max: 2}, {Kind: "acquire"}, {Kind: "update-hosts-too", Max: 2}, {Kind: "acquire"}, {Kind: "update", Max: 1}, {Kind: "release", K: 0}, {Kind: "release", K: 0}}
		case 2: // changed thresholds, several overlaps
			ops = []ropT{{Kind: "update", Max: 3}, {Kind: "acquire"}, {Kind: "acquire"}, {Kind: "update", Max: 1}, {Kind: "release", K: 1}, {Kind: "update", Max: 2}, {Kind: "acquire"}, {Kind: "hosts"}, {Kind: "release", K: 0}}
		case 3: // removed and created again while a request is in flight
			ops = []ropT{{Kind: "update", Max: 1}, {Kind: "acquire"}, {Kind: "remove"}, {Kind: "update", Max: 1}, {Kind: "acquire"}, {Kind: "release", K: 0}, {Kind: "update", Max: 1}}
		default:
			held := 0
			for k, n := 0, 5+r.Intn(10); k < n; k++ {
				switch x := r.Intn(100); {
				case k == 0 || x < 28:
					ops = append(ops, ropT{Kind: r.PickS([]string{"update", "update", "update-hosts-too"}), Max: r.Pick([]int{0, 1, 1, 2, 3})})
				case x < 36:
					ops = append(ops, ropT{Kind: "hosts"})
				case x < 42:
					ops = append(ops, ropT{Kind: "remove"})
				case x < 75:
					ops = append(ops, ropT{Kind: "acquire"})
					held++ // an upper bound (acquire on a missing cluster holds nothing)
				default:
					ops = append(ops, ropT{Kind: "release", K: r.Intn(held + 1)})
				}
			}
		}
		type holder struct{ snap types.ClusterSnapshot }
		var holders []holder
		var fps []string
		rep := map[string]interface{}{"cluster": name, "history": ops}
		mkCluster := func(max int) v2.Cluster {
			return v2.Cluster{Name: name, ClusterType: v2.SIMPLE_CLUSTER, LbType: v2.LB_RANDOM,
				CirBreThresholds: v2.CircuitBreakers{Thresholds: []v2.Thresholds{{MaxConnections: uint32(max), MaxPendingRequests: uint32(max), MaxRequests: uint32(max), MaxRetries: uint32(max)}}}}
		}
		resources := func(m types.ResourceManager) []types.Resource {
			return []types.Resource{m.Retries(), m.Connections(), m.Requests(), m.PendingRequests()}
		}
		observe := func() string {
			fp := []int64{0, 0, 0, 0, 0, 0}
			if snap := ad.GetClusterSnapshot(context.Background(), name); snap != nil {
				rs := resources(snap.ClusterInfo().ResourceManager())
				fp[0], fp[1], fp[2], fp[3] = 1, int64(rs[0].Max()), rs[0].Cur(), boolInt(rs[0].CanCreate())
				for _, x := range rs[1:] {
					if int64(x.Max()) != fp[1] || x.Cur() != fp[2] || boolInt(x.CanCreate()) != fp[3] {
						run.Fail("c12:resources-of-one-manager-differ", "the four resources were used alike and report different threshold / count / CanCreate", rep)
					}
				}
			}
			if cc, ok, err := dumpedCluster(name); ok && err == nil {
				fp[4] = 1
				if len(cc.CirBreThresholds.Thresholds) > 0 {
					fp[5] = int64(cc.CirBreThresholds.Thresholds[0].MaxRetries)
				}
			}
			var it []string
			for _, x := range fp {
				it = append(it, CoqZ(x))
			}
			return CoqList(it)
		}
		apply := func(o ropT) {
			switch o.Kind {
			case "update":
				ad.TriggerClusterAddOrUpdate(mkCluster(o.Max))
			case "update-hosts-too":
				ad.TriggerClusterAndHostsAddOrUpdate(mkCluster(o.Max), hostsV2([]hostT{{Addr: addrPool[hi%len(addrPool)], Weight: 1}}))
			case "hosts":
				ad.TriggerClusterHostUpdate(name, hostsV2([]hostT{{Addr: addrPool[(hi+1)%len(addrPool)], Weight: 2}}))
			case "remove":
				ad.TriggerClusterDel(name)
			case "acquire":
				if snap := ad.GetClusterSnapshot(context.Background(), name); snap != nil {
					for _, x := range resources(snap.ClusterInfo().ResourceManager()) {
						x.Increase()
					}
					holders = append(holders, holder{snap})
				}
			case "release":
				if o.K < len(holders) {
					for _, x := range resources(holders[o.K].snap.ClusterInfo().ResourceManager()) {
						x.Decrease()
					}
					holders = append(holders[:o.K], holders[o.K+1:]...)
				}
			}
		}
		for _, o := range ops {
			guarded("resource history", o, func() { apply(o) })
			fps = append(fps, observe())
		}
		// every request in flight ends
		for len(holders) > 0 {
			o := ropT{Kind: "release", K: 0}
			ops = append(ops, o)
			apply(o)
			fps = append(fps, observe())
		}
		rep["history"] = ops
		reportPanics(run, "c12", rep)
		if snap := ad.GetClusterSnapshot(context.Background(), name); snap != nil {
			live := resources(snap.ClusterInfo().ResourceManager())
			for _, x := range live {
				if x.Cur() != 0 {
					run.Fail("c12:resource-count-stuck-after-update", fmt.Sprintf("every request that counted itself in cluster %s has ended, the live cluster still counts %d (threshold %d)", name, x.Cur(), x.Max()), rep)
					break
				}
			}
			if cc, ok, err := dumpedCluster(name); ok && err == nil {
				fresh := resources(cluster.NewCluster(cc).Snapshot().ClusterInfo().ResourceManager())
				for i := range live {
					if live[i].CanCreate() != fresh[i].CanCreate() {
						sig := "c12:live-differs-from-fresh-start:can-create"
						if !live[i].CanCreate() {
							sig = "c12:live-refuses-what-fresh-start-serves"
						}
						run.Fail(sig, fmt.Sprintf("with no request in flight the live cluster %s answers CanCreate=%v (count %d, threshold %d), a cluster built from the dumped configuration answers %v", name, live[i].CanCreate(), live[i].Cur(), live[i].Max(), fresh[i].CanCreate()), rep)
						break
					}
				}
			}
		}
		var cops []string
		for _, o := range ops {
			cops = append(cops, o.coq())
		}
		sh.Add(fmt.Sprintf("(%s, %s)", CoqList(cops), CoqList(fps)), rep)
		run.Count(fmt.Sprintf("%d|res|%d", run.Seed, hi), true, "resource-history")
		ad.TriggerClusterDel(name)
	}
	sh.Close()
}
