package main

// C17 (route part): header mutations at route / virtual host / router level, path and host rewrite, redirect and direct
// response rules - the REAL route rules built by router.NewRouters from generated configurations, run on generated
// header maps and variables, compared with Model/RouteAction.v (Coq shards) and with an independent Go evaluation of
// the documented behaviour (finder).

import (
	"context"
	"fmt"
	"regexp"
	"sort"
	"strings"
	"sync"
	"time"

	"mosn.io/api"
	v2 "mosn.io/mosn/pkg/config/v2"
	"mosn.io/mosn/pkg/network"
	"mosn.io/mosn/pkg/protocol"
	"mosn.io/mosn/pkg/proxy"
	"mosn.io/mosn/pkg/router"
	"mosn.io/mosn/pkg/types"
	"mosn.io/mosn/pkg/upstream/cluster"
	"mosn.io/pkg/variable"

	. "vh/vhlib"
)

type addT struct {
	Key    string `json:"key"`
	Value  string `json:"value"`
	Append *bool  `json:"append,omitempty"`
}
type parserT struct {
	Add    []addT   `json:"add,omitempty"`
	Remove []string `json:"remove,omitempty"`
}

type actT struct {
	Kind          string  `json:"kind"` // prefix path regex rpc var dsl
	Matched       string  `json:"matched,omitempty"`
	PrefixRewrite string  `json:"prefix_rewrite,omitempty"`
	RegexRewrite  *string `json:"regex_rewrite,omitempty"`
	Substitution  string  `json:"substitution,omitempty"`
	HostRewrite   string  `json:"host_rewrite,omitempty"`
	AutoHeader    string  `json:"auto_host_rewrite_header,omitempty"`
	Auto          bool    `json:"auto_host_rewrite,omitempty"`
	Cluster       string  `json:"cluster"`
	Req, Resp     [3]parserT
}

type envT struct {
	Vars    map[string]string `json:"vars"`
	Hdr     map[string]string `json:"hdr"`
	DNSHost string            `json:"upstream_hostname,omitempty"`
}

var c17Keys = []string{"k1", "K2", "x-a", "x-b", "k2", "host-src"}
var c17Vals = []string{"v1", "v2", "", "%x-mosn-method%", "%nope%", "%%", "%x-mosn-path%", "%%x-mosn-scheme%%", "a,b", "%x-mosn-host%", "%k%"}
var c17VarCandidates = []string{types.VarMethod, types.VarPath, types.VarScheme, types.VarHost, "nope", "k", ""}

func boolp(b bool) *bool { return &b }

func genParser(r *Rng) parserT {
	var p parserT
	if r.Pct(25) {
		return p
	}
	for i, n := 0, r.Intn(4); i < n; i++ {
		a := addT{Key: r.PickS(c17Keys), Value: r.PickS(c17Vals)}
		switch r.Intn(3) {
		case 0:
			a.Append = boolp(true)
		case 1:
			a.Append = boolp(false)
		}
		p.Add = append(p.Add, a)
	}
	for i, n := 0, r.Intn(3); i < n; i++ {
		p.Remove = append(p.Remove, r.PickS(c17Keys))
	}
	return p
}

func (p parserT) v2() ([]*v2.HeaderValueOption, []string) {
	var adds []*v2.HeaderValueOption
	for _, a := range p.Add {
		adds = append(adds, &v2.HeaderValueOption{Header: &v2.HeaderValue{Key: a.Key, Value: a.Value}, Append: a.Append})
	}
	return adds, append([]string(nil), p.Remove...)
}

func (p parserT) coq() string {
	var as, rs []string
	for _, a := range p.Add {
		ap := "None"
		if a.Append != nil {
			ap = "(Some " + CoqBool(*a.Append) + ")"
		}
		as = append(as, fmt.Sprintf("Build_hadd %s %s %s", CoqString(a.Key), CoqString(a.Value), ap))
	}
	for _, k := range p.Remove {
		rs = append(rs, CoqString(k))
	}
	return fmt.Sprintf("(Build_hparser %s %s)", CoqList(as), CoqList(rs))
}

func genAction(r *Rng) actT {
	a := actT{Kind: r.PickS([]string{"prefix", "prefix", "path", "regex", "rpc", "var", "dsl"})}
	switch a.Kind {
	case "prefix":
		a.Matched = r.PickS([]string{"/", "/a", "/a/", "/svc"})
	case "path":
		a.Matched = r.PickS([]string{"/a", "/a/b", "/Svc/x"})
	case "regex":
		a.Matched = r.PickS([]string{"^/r/.*", "/[0-9]+$", "/r"})
	}
	if r.Pct(45) {
		a.PrefixRewrite = r.PickS([]string{"/new", "/", "/n/", "x"})
	}
	if r.Pct(40) {
		re := r.PickS([]string{"^/a", "/r/([0-9]+)", "b", "/+", "(a|b)$", "^/svc/(.*)$"})
		a.RegexRewrite = &re
		a.Substitution = r.PickS([]string{"/z", "", "/id/$1", "${1}x", "/"})
	}
	switch r.Intn(6) {
	case 0:
		a.HostRewrite = r.PickS([]string{"up.example", "UP:80"})
	case 1:
		a.AutoHeader = r.PickS([]string{"host-src", "k1", "absent"})
	case 2:
		a.Auto = true
	case 3:
		a.HostRewrite, a.AutoHeader, a.Auto = "up.example", "host-src", true
	case 4:
		a.AutoHeader, a.Auto = "absent", true
	}
	a.Cluster = r.PickS([]string{"c17dns", "c17plain", "c17absent"})
	for i := 0; i < 3; i++ {
		a.Req[i], a.Resp[i] = genParser(r), genParser(r)
	}
	return a
}

// selector: a request that the generated rule matches, used only to fetch the real rule object from the real table
func (a actT) selector() reqT {
	q := reqT{Vars: map[string]string{types.VarHost: "c17.test", types.VarMethod: "GET"}, Hdr: map[string]string{}}
	switch a.Kind {
	case "prefix":
		q.Vars[types.VarPath] = a.Matched + "zz"
	case "path":
		q.Vars[types.VarPath] = a.Matched
	case "regex":
		q.Vars[types.VarPath] = map[string]string{"^/r/.*": "/r/1", "/[0-9]+$": "/x/42", "/r": "/r"}[a.Matched]
	}
	return q
}

func (a actT) v2config() *v2.RouterConfiguration {
	rr := v2.Router{}
	switch a.Kind {
	case "prefix":
		rr.Match.Prefix = a.Matched
	case "path":
		rr.Match.Path = a.Matched
	case "regex":
		rr.Match.Regex = a.Matched
	case "var":
		rr.Match.Variables = []v2.VariableMatcher{{Name: types.VarMethod, Value: "GET"}}
	case "dsl":
		rr.Match.DslExpressions = []v2.DslExpressionMatcher{{Expression: `conditional((request.method == "GET"),true,false)`}}
	}
	rr.Route.ClusterName = a.Cluster
	rr.Route.PrefixRewrite = a.PrefixRewrite
	if a.RegexRewrite != nil {
		rr.Route.RegexRewrite = &v2.RegexRewrite{Pattern: v2.PatternConfig{Regex: *a.RegexRewrite}, Substitution: a.Substitution}
	}
	rr.Route.HostRewrite, rr.Route.AutoHostRewriteHeader, rr.Route.AutoHostRewrite = a.HostRewrite, a.AutoHeader, a.Auto
	rr.Route.RequestHeadersToAdd, rr.Route.RequestHeadersToRemove = a.Req[0].v2()
	rr.Route.ResponseHeadersToAdd, rr.Route.ResponseHeadersToRemove = a.Resp[0].v2()
	vh := v2.VirtualHost{Name: "c17", Domains: []string{"*"}, Routers: []v2.Router{rr}}
	vh.RequestHeadersToAdd, vh.RequestHeadersToRemove = a.Req[1].v2()
	vh.ResponseHeadersToAdd, vh.ResponseHeadersToRemove = a.Resp[1].v2()
	rc := &v2.RouterConfiguration{VirtualHosts: []v2.VirtualHost{vh}}
	rc.RouterConfigName = "c17"
	rc.RequestHeadersToAdd, rc.RequestHeadersToRemove = a.Req[2].v2()
	rc.ResponseHeadersToAdd, rc.ResponseHeadersToRemove = a.Resp[2].v2()
	return rc
}

func (a actT) coq() string {
	kind := map[string]string{"rpc": "RKRpc", "var": "RKVar", "dsl": "RKDsl"}[a.Kind]
	switch a.Kind {
	case "prefix":
		kind = "(RKPrefix " + CoqString(a.Matched) + ")"
	case "path":
		kind = "(RKPath " + CoqString(a.Matched) + ")"
	case "regex":
		kind = "(RKRegex " + CoqString(a.Matched) + ")"
	}
	re := "None"
	if a.RegexRewrite != nil {
		re = "(Some " + CoqString(*a.RegexRewrite) + ")"
	}
	return fmt.Sprintf("(Build_raction %s %s %s %s %s %s %s %s %s %s %s %s)", kind, CoqString(a.PrefixRewrite), re, CoqString(a.HostRewrite),
		CoqString(a.AutoHeader), CoqBool(a.Auto), a.Req[0].coq(), a.Resp[0].coq(), a.Req[1].coq(), a.Resp[1].coq(), a.Req[2].coq(), a.Resp[2].coq())
}

// ---------------------------------------------------------------------------------------- documented behaviour, evaluated independently

func knownVars() []string {
	var ks []string
	for _, n := range c17VarCandidates {
		if _, err := variable.Check(n); err == nil {
			ks = append(ks, n)
		}
	}
	return ks
}

func specFormat(known map[string]bool, vars map[string]string, v string) string {
	if len(v) > 2 && v[0] == '%' && v[len(v)-1] == '%' {
		name := strings.Trim(v, "%")
		if known[name] {
			return vars[name] // unset -> ""
		}
	}
	return v
}

func specParser(known map[string]bool, vars map[string]string, p parserT, h map[string]string) {
	for _, a := range p.Add {
		key := asciiLower(a.Key)
		val := specFormat(known, vars, a.Value)
		app := a.Append == nil || *a.Append
		if old, ok := h[key]; ok && old != "" && app {
			val = old + "," + val
		}
		h[key] = val
	}
	for _, k := range p.Remove {
		delete(h, asciiLower(k))
	}
}

func copyMap(m map[string]string) map[string]string {
	o := make(map[string]string, len(m))
	for k, v := range m {
		o[k] = v
	}
	return o
}

func mapEq(a, b map[string]string) bool {
	if len(a) != len(b) {
		return false
	}
	for k, v := range a {
		if w, ok := b[k]; !ok || w != v {
			return false
		}
	}
	return true
}

func fmtMap(m map[string]string) string {
	ks := sortedKeys(m)
	var parts []string
	for _, k := range ks {
		parts = append(parts, fmt.Sprintf("%s=%q", k, m[k]))
	}
	return "{" + strings.Join(parts, " ") + "}"
}

// ---------------------------------------------------------------------------------------- cluster manager (for auto_host_rewrite)

var c17cmOnce sync.Once

func c17ClusterManager() {
	c17cmOnce.Do(func() {
		cluster.NewClusterManagerSingleton([]v2.Cluster{
			{Name: "c17dns", ClusterType: v2.STRICT_DNS_CLUSTER, LbType: v2.LB_RANDOM},
			{Name: "c17plain", ClusterType: v2.SIMPLE_CLUSTER, LbType: v2.LB_RANDOM},
		}, nil, nil)
	})
}

func c17(args []string) int {
	run := NewRun("C17", args)
	r := run.R
	c17ClusterManager()
	known := knownVars()
	knownSet := map[string]bool{}
	for _, k := range known {
		knownSet[k] = true
	}
	run.Sum.Rule = "route part: generated route actions (rule kind prefix/path/regex/rpc/variable/dsl; request and response header parsers at route, virtual-host and router level with 0-3 additions (append nil/true/false; plain, %variable%, %undefined% and odd values) and 0-2 removals over a small overlapping key set with mixed case; prefix rewrite, regex rewrite with substitution, host rewrite / header-derived / auto (STRICT_DNS, other, absent cluster)) x generated requests (path with and without the matched prefix, unset/empty path, 0-4 headers). The real rule object is fetched from a real table and FinalizeRequestHeaders / FinalizeResponseHeaders are called on it. Non-trivial: at least two levels mutate a common key, or a rewrite applies; distinct by (action number, request). Plus redirect configurations (codes incl. unsupported, schemes incl. invalid, mixed case) and direct responses; and the local reply of the real downStream.chooseHost (hook proxy.VerifChooseHostLocalReply) for redirect / direct-response routes over current scheme x host (with :80 / :443 / other / no port, IPv6 literal, unset) x path x query: status, location, body. Plus request HISTORIES (4-7 requests with per-request variables, header values and x-mosn-router-meta) through one Routers object with time-out / retry policy / metadata_match / weighted-cluster metadata configured: request k must give what it gives alone on a freshly built Routers, and the header maps returned for request k must not change afterwards."
	shHeader := "From MV Require Import Model.Router Model.RouteAction Gen.RouteSrc.\nFrom Coq Require Import List String.\nImport ListNotations.\nOpen Scope string_scope.\n"
	sh := run.NewShard(shHeader, "ra_case", "ra_mismatches var_rule_finalizes dsl_rule_finalizes redirect_strip")
	flush := func() {
		if sh.Len() >= 350 {
			sh.Close()
			sh = run.NewShard(shHeader, "ra_case", "ra_mismatches var_rule_finalizes dsl_rule_finalizes redirect_strip")
		}
	}
	nact := run.N(220, 2500)
	nenv := run.N(5, 8)
	for ai := 0; ai < nact; ai++ {
		a := genAction(r)
		rs, err := router.NewRouters(a.v2config())
		if err != nil {
			fmt.Println("c17: unexpected construction error", err)
			return 2
		}
		sctx, sh0 := a.selector().ctx()
		rt := rs.MatchRoute(sctx, sh0)
		if rt == nil {
			fmt.Println("c17: selector request did not match its own rule", a.Kind, a.Matched)
			return 2
		}
		rule := rt.RouteRule()
		var rre *regexp.Regexp
		if a.RegexRewrite != nil {
			rre = regexp.MustCompile(*a.RegexRewrite)
		}
		for ei := 0; ei < nenv; ei++ {
			e := envT{Vars: map[string]string{}, Hdr: map[string]string{}}
			if !r.Pct(8) {
				pool := []string{"/", "/a", "/a/b", "/a/bb", "/svc/x", "/Svc/x", "/r/12", "/r", "/b", "", "/x/42", "//a//b"}
				if a.Matched != "" && a.Kind != "regex" && r.Pct(40) {
					pool = []string{a.Matched, a.Matched + "/rest", a.Matched + "x", strings.ToUpper(a.Matched)}
				}
				e.Vars[types.VarPath] = r.PickS(pool)
			}
			if !r.Pct(20) {
				e.Vars[types.VarMethod] = r.PickS(methods)
			}
			if r.Pct(50) {
				e.Vars[types.VarScheme] = r.PickS([]string{"http", "https"})
			}
			if r.Pct(60) {
				e.Vars[types.VarHost] = r.PickS([]string{"a.com", "b.org:80"})
			}
			if r.Pct(15) {
				e.Vars[types.VarIstioHeaderHost] = "old.authority"
			}
			for i, n := 0, r.Intn(5); i < n; i++ {
				e.Hdr[r.PickS(c17Keys)] = r.PickS([]string{"h1", "h2", "", "src.example"})
			}
			e.DNSHost = r.PickS([]string{"dns-host.example", "h2.example"})

			// ---- real code: request side
			q := reqT{Vars: e.Vars, Hdr: e.Hdr}
			ctx, hm := q.ctx()
			ri := network.NewRequestInfo()
			snap := cluster.GetClusterMngAdapterInstance().GetClusterSnapshot(context.Background(), "c17plain")
			ri.OnUpstreamHostSelected(cluster.NewSimpleHost(v2.Host{HostConfig: v2.HostConfig{Address: "127.0.0.1:8080", Hostname: e.DNSHost}}, snap.ClusterInfo()))
			guarded("FinalizeRequestHeaders", e, func() { rule.FinalizeRequestHeaders(ctx, hm, ri) })
			gotH := map[string]string(hm.(protocol.CommonHeader))
			gotPath, perr := variable.GetString(ctx, types.VarPath)
			gotAuth, aerr := variable.GetString(ctx, types.VarIstioHeaderHost)

			// ---- documented behaviour
			wantH := copyMap(e.Hdr)
			for lvl := 0; lvl < 3; lvl++ {
				specParser(knownSet, e.Vars, a.Req[lvl], wantH)
			}
			wantAuth, wantAuthSet := e.Vars[types.VarIstioHeaderHost]
			switch {
			case a.HostRewrite != "":
				wantAuth, wantAuthSet = a.HostRewrite, true
			case a.AutoHeader != "":
				if v, ok := wantH[a.AutoHeader]; ok {
					wantAuth, wantAuthSet = v, true
				}
			case a.Auto:
				if a.Cluster == "c17dns" {
					wantAuth, wantAuthSet = e.DNSHost, true
				}
			}
			wantPath, wantPathSet := e.Vars[types.VarPath]
			rewrote := false
			replaced := ""
			if rre != nil {
				replaced = rre.ReplaceAllString(wantPath, a.Substitution)
			}
			if a.Kind == "prefix" || a.Kind == "path" || a.Kind == "regex" {
				if wantPathSet && wantPath != "" {
					if a.PrefixRewrite != "" {
						if strings.HasPrefix(wantPath, a.Matched) {
							wantH["x-mosn-original-path"] = wantPath
							wantPath = a.PrefixRewrite + wantPath[len(a.Matched):]
							rewrote = true
						}
					} else if rre != nil && len(*a.RegexRewrite) > 1 && replaced != wantPath {
						wantH["x-mosn-original-path"] = wantPath
						wantPath = replaced
						rewrote = true
					}
				}
			}
			rep := map[string]interface{}{"part": "request", "action": a, "env": e, "got_headers": gotH, "got_path": gotPath, "got_authority": gotAuth}
			kindTag := "req:" + a.Kind
			if !mapEq(gotH, wantH) {
				sig := "c17:request-headers:" + a.Kind
				if mapEq(gotH, e.Hdr) {
					sig = "c17:request-headers-not-applied:" + a.Kind + "-rule"
				}
				run.Fail(sig, fmt.Sprintf("%s rule: request headers after the route, virtual-host and router level actions should be %s, FinalizeRequestHeaders left %s", a.Kind, fmtMap(wantH), fmtMap(gotH)), rep)
			}
			if (perr == nil) != wantPathSet || gotPath != wantPath {
				run.Fail("c17:path-rewrite:"+a.Kind, fmt.Sprintf("%s rule: path should be %q (set=%v), is %q (err=%v)", a.Kind, wantPath, wantPathSet, gotPath, perr), rep)
			}
			if (aerr == nil) != wantAuthSet || gotAuth != wantAuth {
				sig := "c17:host-rewrite:" + a.Kind
				if a.Kind == "var" || a.Kind == "dsl" {
					sig = "c17:host-rewrite-not-applied:" + a.Kind + "-rule"
				}
				run.Fail(sig, fmt.Sprintf("%s rule: upstream authority should be %q (set=%v), is %q (err=%v)", a.Kind, wantAuth, wantAuthSet, gotAuth, aerr), rep)
			}
			multi := multiLevel(a.Req)
			run.Count(fmt.Sprintf("%d|%d|%d|req", run.Seed, ai, ei), multi || rewrote, kindTag, fmt.Sprintf("rewrote=%v", rewrote))
			if multi && rewrote {
				run.Sample(map[string]interface{}{"kind": a.Kind, "in": e.Hdr, "out": gotH, "path_in": e.Vars[types.VarPath], "path_out": gotPath})
			}
			dns := "None"
			if a.Cluster == "c17dns" {
				dns = "(Some " + CoqString(e.DNSHost) + ")"
			}
			env := fmt.Sprintf("(Build_renv %s %s %s %s %s)", coqPairs(e.Vars), coqPairs(e.Hdr), coqStrList(known), CoqString(replaced), dns)
			sh.Add(fmt.Sprintf("CFin (%s,\n  %s,\n  (%s, %s, %s))", a.coq(), env, coqPairs(gotH), CoqOption(perr == nil, CoqString(gotPath)), CoqOption(aerr == nil, CoqString(gotAuth))), rep)
			flush()

			// ---- response side
			ctx2, hm2 := q.ctx()
			guarded("FinalizeResponseHeaders", e, func() { rule.FinalizeResponseHeaders(ctx2, hm2, ri) })
			reportPanics(run, "c17", map[string]interface{}{"action": a})
			gotR := map[string]string(hm2.(protocol.CommonHeader))
			wantR := copyMap(e.Hdr)
			for lvl := 0; lvl < 3; lvl++ {
				specParser(knownSet, e.Vars, a.Resp[lvl], wantR)
			}
			rep2 := map[string]interface{}{"part": "response", "action": a, "env": e, "got_headers": gotR}
			if !mapEq(gotR, wantR) {
				run.Fail("c17:response-headers:"+a.Kind, fmt.Sprintf("%s rule: response headers should be %s, FinalizeResponseHeaders left %s", a.Kind, fmtMap(wantR), fmtMap(gotR)), rep2)
			}
			run.Count(fmt.Sprintf("%d|%d|%d|resp", run.Seed, ai, ei), multiLevel(a.Resp), "resp:"+a.Kind)
			sh.Add(fmt.Sprintf("CResp (%s, %s, %s, %s, %s)", a.coq(), coqStrList(known), coqPairs(e.Vars), coqPairs(e.Hdr), coqPairs(gotR)), rep2)
			flush()
		}
	}

	// ---------------- redirect / direct response rules
	codes := []int{0, 301, 302, 303, 307, 308, 200, 304, 404, 999}
	schemes := []string{"", "http", "https", "HTTPS", "Http", "h2c+x.y-z", "1http", "ht tp", "-a", "ftp.", "a", "H", "h_"}
	nrd := run.N(150, 1500)
	for i := 0; i < nrd; i++ {
		rc := v2.RedirectAction{ResponseCode: r.Pick(codes), SchemeRedirect: r.PickS(schemes), PathRedirect: r.PickS([]string{"", "/new", "/"}), HostRedirect: r.PickS([]string{"", "x.org", "x.org:8443"})}
		if i < len(codes)*len(schemes) { // every (code, scheme) pair once
			rc.ResponseCode, rc.SchemeRedirect = codes[i%len(codes)], schemes[i/len(codes)]
		}
		rr := v2.Router{}
		rr.Route.ClusterName = "c"
		rr.Redirect = &rc
		body := r.PickS([]string{"", "hello", "{\"a\":1}"})
		status := r.Pick([]int{0, 200, 404, 503})
		if r.Pct(30) {
			rr.DirectResponse = &v2.DirectResponseAction{StatusCode: status, Body: body}
		}
		base, err := router.NewRouteRuleImplBase(nil, &rr)
		got := "None"
		rep := map[string]interface{}{"part": "redirect", "config": rc, "error": fmt.Sprint(err)}
		// documented: code 0 -> 301, 301/302/303/307/308 kept, anything else refused; scheme lower-cased, must be an RFC 3986 scheme
		wantCode, wantOK := rc.ResponseCode, true
		switch rc.ResponseCode {
		case 0:
			wantCode = 301
		case 301, 302, 303, 307, 308:
		default:
			wantOK = false
		}
		ls := asciiLower(rc.SchemeRedirect)
		if ls != "" && !regexp.MustCompile(`^[a-z][a-z0-9.+-]*$`).MatchString(ls) {
			wantOK = false
		}
		if (err == nil) != wantOK {
			run.Fail("c17:redirect-rule:acceptance", fmt.Sprintf("redirect %+v: accepted=%v, documented=%v", rc, err == nil, wantOK), rep)
		}
		if err == nil {
			rd := base.RedirectRule()
			if rd == nil {
				run.Fail("c17:redirect-rule:missing", "configured redirect produced no redirect rule", rep)
				continue
			}
			rep["got"] = []interface{}{rd.RedirectCode(), rd.RedirectPath(), rd.RedirectHost(), rd.RedirectScheme()}
			if rd.RedirectCode() != wantCode || rd.RedirectPath() != rc.PathRedirect || rd.RedirectHost() != rc.HostRedirect || rd.RedirectScheme() != ls {
				run.Fail("c17:redirect-rule:fields", fmt.Sprintf("redirect %+v gave code=%d path=%q host=%q scheme=%q", rc, rd.RedirectCode(), rd.RedirectPath(), rd.RedirectHost(), rd.RedirectScheme()), rep)
			}
			got = fmt.Sprintf("(Some (%s, %s, %s, %s))", CoqNat(rd.RedirectCode()), CoqString(rd.RedirectPath()), CoqString(rd.RedirectHost()), CoqString(rd.RedirectScheme()))
			if rr.DirectResponse != nil {
				dr := base.DirectResponseRule()
				if dr == nil || dr.StatusCode() != status || dr.Body() != body {
					run.Fail("c17:direct-response:fields", fmt.Sprintf("direct response status=%d body=%q not kept", status, body), rep)
				}
				run.Sum.Distribution["direct-response"]++
			}
		}
		run.Count(fmt.Sprintf("%d|rd|%d", run.Seed, i), true, fmt.Sprintf("redirect-accepted=%v", err == nil))
		sh.Add(fmt.Sprintf("CRdr (Build_redirect_cfg %s %s %s %s, %s)", CoqNat(rc.ResponseCode), CoqString(rc.PathRedirect), CoqString(rc.HostRedirect), CoqString(rc.SchemeRedirect), got), rep)
		flush()
	}

	// ---------------- the local reply of downStream.chooseHost for redirect / direct-response routes (real proxy code through
	// the add-only hook proxy.VerifChooseHostLocalReply): status, location, body
	// protocol "vhrouter": its SCHEME resource is the x-mosn-scheme variable (registered names are "<protocol>_<name>")
	variable.Register(variable.NewStringVariable("vhrouter_scheme", nil, func(ctx context.Context, _ *variable.IndexedValue, _ interface{}) (string, error) {
		return variable.GetString(ctx, types.VarScheme)
	}, nil, 0))
	variable.RegisterProtocolResource(api.ProtocolName("vhrouter"), api.SCHEME, "scheme")
	nurl := run.N(400, 4000)
	okCodes := []int{0, 301, 302, 303, 307, 308}
	okSchemes := []string{"", "", "http", "https", "HTTPS", "Http", "ws"}
	for i := 0; i < nurl; i++ {
		rc := v2.RedirectAction{ResponseCode: r.Pick(okCodes), SchemeRedirect: r.PickS(okSchemes),
			PathRedirect: r.PickS([]string{"", "", "/new", "/", "/n/x.html"}),
			HostRedirect: r.PickS([]string{"", "", "x.org", "x.org:8443", "x.org:80", "x.org:443", "[::1]:80"})}
		rr := v2.Router{}
		rr.Route.ClusterName = "c17url"
		direct := r.Pct(15)
		body := r.PickS([]string{"", "hello", "not found"})
		status := r.Pick([]int{200, 404, 503})
		if direct {
			rr.DirectResponse = &v2.DirectResponseAction{StatusCode: status, Body: body}
			if r.Bool() {
				rr.Redirect = &rc // a direct response wins over a redirect
			}
		} else {
			rr.Redirect = &rc
		}
		rcfg := &v2.RouterConfiguration{VirtualHosts: []v2.VirtualHost{{Name: "u", Domains: []string{"*"}, Routers: []v2.Router{rr}}}}
		rcfg.RouterConfigName = "c17url"
		rs, err := router.NewRouters(rcfg)
		if err != nil {
			fmt.Println("c17: unexpected construction error", err)
			return 2
		}
		cur := map[string]string{
			types.VarScheme:      r.PickS([]string{"http", "https", "http", "https", "ws"}),
			types.VarHost:        r.PickS([]string{"a.com", "a.com:80", "a.com:443", "a.com:8080", "A.com:80", "[::1]:443", "a.com:"}),
			types.VarPath:        r.PickS([]string{"/", "/p", "/p/q.html", "/a-b_c.d~e"}),
			types.VarQueryString: r.PickS([]string{"", "", "q=1", "a=1&b=2"}),
		}
		if r.Pct(8) {
			delete(cur, types.VarHost)
		}
		if r.Pct(8) {
			delete(cur, types.VarPath)
		}
		q := reqT{Vars: cur, Hdr: map[string]string{"k1": "v1"}}
		ctx, hm := q.ctx()
		variable.Set(ctx, types.VariableDownStreamProtocol, api.ProtocolName("vhrouter"))
		rt := rs.MatchRoute(ctx, hm)
		if rt == nil {
			fmt.Println("c17: catch-all route did not match")
			return 2
		}
		var replied bool
		var gotStatus int
		var gotHdr api.HeaderMap
		var gotBody string
		guarded("chooseHost", q, func() { replied, gotStatus, gotHdr, gotBody = proxy.VerifChooseHostLocalReply(ctx, rt, hm) })
		reportPanics(run, "c17", map[string]interface{}{"redirect": rc, "direct": direct})
		gotLoc := ""
		if gotHdr != nil {
			gotLoc, _ = gotHdr.Get("location")
		}
		rep := map[string]interface{}{"part": "local-reply", "redirect": rc, "direct_response": rr.DirectResponse, "current": cur, "got_status": gotStatus, "got_location": gotLoc, "got_body": gotBody}
		if !replied {
			run.Fail("c17:local-reply:not-answered-locally", "a route with a redirect / direct response was not answered locally by chooseHost", rep)
		}
		if direct {
			// documented: the configured status and body, nothing else
			if gotStatus != status || gotBody != body {
				run.Fail("c17:direct-response:reply", fmt.Sprintf("direct response status=%d body=%q configured, reply has status=%d body=%q", status, body, gotStatus, gotBody), rep)
			}
			run.Count(fmt.Sprintf("%d|direct|%d", run.Seed, i), true, "local-reply:direct")
			continue
		}
		// documented: scheme / host / path of the rule override the request's, query preserved; on a change of scheme the
		// default port of the scheme left behind is dropped (":80" when going to https, ":443" when going to http)
		wantCode := rc.ResponseCode
		if wantCode == 0 {
			wantCode = 301
		}
		scheme := asciiLower(rc.SchemeRedirect)
		if scheme == "" {
			scheme = cur[types.VarScheme]
		}
		host := rc.HostRedirect
		if host == "" {
			host = cur[types.VarHost]
		}
		path := rc.PathRedirect
		if path == "" {
			path = cur[types.VarPath]
		}
		stripped := false
		if scheme != cur[types.VarScheme] {
			if h, p, ok := hostPort(host); ok && ((scheme == "https" && p == "80") || (scheme == "http" && p == "443")) {
				if strings.HasPrefix(host, "[") {
					h = host[:strings.LastIndex(host, ":")]
					h = strings.TrimSuffix(strings.TrimPrefix(h, "["), "]")
				}
				host, stripped = h, true
			}
		}
		want := scheme + ":"
		if host != "" || path != "" {
			want += "//"
		}
		want += host + path
		if cur[types.VarQueryString] != "" {
			want += "?" + cur[types.VarQueryString]
		}
		ipv6 := strings.Contains(host, ":") && !strings.Contains(host, "]") && stripped
		if !ipv6 && (gotStatus != wantCode || gotLoc != want) {
			run.Fail("c17:redirect:reply", fmt.Sprintf("redirect %+v on %v: reply should be %d location %q, is %d location %q", rc, cur, wantCode, want, gotStatus, gotLoc), rep)
		}
		run.Count(fmt.Sprintf("%d|url|%d", run.Seed, i), true, "local-reply:redirect", fmt.Sprintf("port-stripped=%v", stripped))
		if stripped {
			run.Sample(map[string]interface{}{"redirect": rc, "current": cur, "location": gotLoc})
		}
		sh.Add(fmt.Sprintf("CUrl (Build_redirect_cfg %s %s %s %s, (%s, %s, %s, %s), (%s, %s))", CoqNat(rc.ResponseCode), CoqString(rc.PathRedirect), CoqString(rc.HostRedirect), CoqString(rc.SchemeRedirect),
			CoqString(cur[types.VarScheme]), CoqString(cur[types.VarHost]), CoqString(cur[types.VarPath]), CoqString(cur[types.VarQueryString]), CoqNat(gotStatus), CoqString(gotLoc)), rep)
		flush()
	}
	c17Histories(run, knownSet)
	sh.Close()
	return run.Finish()
}

// routeStatics: what a route says about itself, apart from any request: time-out, retry policy, metadata match criteria
// (default cluster and a weighted cluster), upstream protocol, redirect / direct response rule
func routeStatics(rt api.Route) string {
	rule := rt.RouteRule()
	var b strings.Builder
	fmt.Fprintf(&b, "timeout=%v proto=%q", rule.GlobalTimeout(), rule.UpstreamProtocol())
	if p := rule.Policy(); p != nil && p.RetryPolicy() != nil {
		rp := p.RetryPolicy()
		fmt.Fprintf(&b, " retry=(%v %v %d %v)", rp.RetryOn(), rp.TryTimeout(), rp.NumRetries(), rp.RetryableStatusCodes())
	}
	for _, cn := range []string{"c17plain", "wc1", "wc2"} {
		if mc := rule.MetadataMatchCriteria(cn); mc != nil {
			fmt.Fprintf(&b, " criteria[%s]=", cn)
			for _, kv := range mc.MetadataMatchCriteria() {
				fmt.Fprintf(&b, "%s:%s,", kv.MetadataKeyName(), kv.MetadataValue())
			}
		}
	}
	if rd := rt.RedirectRule(); rd != nil {
		fmt.Fprintf(&b, " redirect=(%d %q %q %q)", rd.RedirectCode(), rd.RedirectPath(), rd.RedirectHost(), rd.RedirectScheme())
	}
	return b.String()
}

// c17Histories: state leaking across requests and aliasing.  A history of requests (with per-request variables, header
// values used by %variable% formatters, and a per-request x-mosn-router-meta map) goes through ONE Routers object:
// MatchRoute, FinalizeRequestHeaders, FinalizeResponseHeaders, the route's static answers.  Request k must give exactly
// what it gives alone on a Routers freshly built from the same configuration; and the header maps handed back for
// request k must not change while later requests are served.
func c17Histories(run *Run, knownSet map[string]bool) {
	r := run.R
	nh := run.N(80, 800)
	for hi := 0; hi < nh; hi++ {
		a := genAction(r)
		a.Cluster = "c17plain"
		mkConfig := func() *v2.RouterConfiguration {
			rc := a.v2config()
			rt := &rc.VirtualHosts[0].Routers[0]
			rt.Route.Timeout = time.Duration(1+hi%7) * time.Second
			rt.Route.UpstreamProtocol = []string{"", "Http1", "bolt"}[hi%3]
			if hi%2 == 0 {
				rt.Route.RetryPolicy = &v2.RetryPolicy{RetryPolicyConfig: v2.RetryPolicyConfig{RetryOn: true, NumRetries: uint32(hi % 5), StatusCodes: []uint32{502, 503}}, RetryTimeout: time.Duration(hi%4) * time.Second}
			}
			if hi%3 != 0 {
				rt.Route.MetadataMatch = map[string]string{"zone": "a", "version": fmt.Sprint(hi % 2)}
			}
			if hi%4 == 0 {
				rt.Route.WeightedClusters = []v2.WeightedCluster{
					{Cluster: v2.ClusterWeight{ClusterWeightConfig: v2.ClusterWeightConfig{Name: "wc1", Weight: 1}, MetadataMatch: map[string]string{"zone": "b"}}},
					{Cluster: v2.ClusterWeight{ClusterWeightConfig: v2.ClusterWeightConfig{Name: "wc2", Weight: 3}, MetadataMatch: map[string]string{"ver": "2", "zone": "c"}}},
				}
			}
			return rc
		}
		shared, err := router.NewRouters(mkConfig())
		if err != nil {
			fmt.Println("c17: unexpected construction error", err)
			return
		}
		type kept struct {
			hdr, resp protocol.CommonHeader
			snapH     string
			snapR     string
			statics   string
			route     api.Route
		}
		var retained []kept
		var reqLog []interface{}
		eval := func(rs types.Routers, e envT, meta map[string]string) (string, kept) {
			sctx, sh0 := a.selector().ctx()
			rt := rs.MatchRoute(sctx, sh0)
			if rt == nil {
				return "no-route", kept{}
			}
			q := reqT{Vars: e.Vars, Hdr: e.Hdr}
			ctx, hm := q.ctx()
			variable.Set(ctx, types.VarRouterMeta, meta)
			ri := network.NewRequestInfo()
			snap := cluster.GetClusterMngAdapterInstance().GetClusterSnapshot(context.Background(), "c17plain")
			ri.OnUpstreamHostSelected(cluster.NewSimpleHost(v2.Host{HostConfig: v2.HostConfig{Address: "127.0.0.1:8080", Hostname: e.DNSHost}}, snap.ClusterInfo()))
			rule := rt.RouteRule()
			guarded("history", e, func() { rule.FinalizeRequestHeaders(ctx, hm, ri) })
			path, _ := variable.GetString(ctx, types.VarPath)
			auth, _ := variable.GetString(ctx, types.VarIstioHeaderHost)
			ctx2, hm2 := q.ctx()
			guarded("history", e, func() { rule.FinalizeResponseHeaders(ctx2, hm2, ri) })
			h1, h2 := hm.(protocol.CommonHeader), hm2.(protocol.CommonHeader)
			k := kept{hdr: h1, resp: h2, snapH: fmtMap(h1), snapR: fmtMap(h2), statics: routeStatics(rt), route: rt}
			return fmt.Sprintf("req=%s path=%q authority=%q resp=%s statics{%s}", k.snapH, path, auth, k.snapR, k.statics), k
		}
		nreq := 4 + r.Intn(4)
		for k := 0; k < nreq; k++ {
			e := envT{Vars: map[string]string{}, Hdr: map[string]string{}, DNSHost: r.PickS([]string{"dns-host.example", "h2.example"})}
			e.Vars[types.VarPath] = r.PickS([]string{"/", "/a", "/a/b", "/svc/x", "/r/12", "/x/42", a.Matched + "/rest"})
			e.Vars[types.VarMethod] = r.PickS(methods)
			e.Vars[types.VarScheme] = r.PickS([]string{"http", "https"})
			e.Vars[types.VarHost] = fmt.Sprintf("h%d.example", k)
			for i, n := 0, r.Intn(5); i < n; i++ {
				e.Hdr[r.PickS(c17Keys)] = fmt.Sprintf("req%d-%s", k, r.PickS([]string{"h1", "h2", ""}))
			}
			meta := map[string]string{"zone": fmt.Sprintf("req%d", k), r.PickS([]string{"canary", "version"}): "x"}
			reqLog = append(reqLog, map[string]interface{}{"env": e, "router_meta": meta})
			got, kp := eval(shared, e, meta)
			fresh, ferr := router.NewRouters(mkConfig())
			if ferr != nil {
				run.Fail("c17:history:configuration-not-accepted-twice", ferr.Error(), map[string]interface{}{"action": a})
				break
			}
			want, _ := eval(fresh, e, meta)
			run.Count(fmt.Sprintf("%d|hist|%d|%d", run.Seed, hi, k), k > 0, "history:request")
			if got != want {
				run.Fail("c17:history:request-differs-from-fresh-evaluation", fmt.Sprintf("request %d of a history on one Routers object gives %s; alone on a freshly built Routers it gives %s", k, got, want),
					map[string]interface{}{"action": a, "history": reqLog})
				break
			}
			retained = append(retained, kp)
		}
		reportPanics(run, "c17", map[string]interface{}{"action": a, "history": reqLog})
		// aliasing: what was handed back for request k is still the same after the later requests
		for k, kp := range retained {
			if kp.hdr == nil {
				continue
			}
			if fmtMap(kp.hdr) != kp.snapH || fmtMap(kp.resp) != kp.snapR {
				run.Fail("c17:aliasing:finalized-headers-changed-after-later-request", fmt.Sprintf("the headers finalized for request %d were %s / %s and are now %s / %s", k, kp.snapH, kp.snapR, fmtMap(kp.hdr), fmtMap(kp.resp)),
					map[string]interface{}{"action": a, "history": reqLog})
			}
			if s := routeStatics(kp.route); s != kp.statics {
				run.Fail("c17:history:route-statics-changed", fmt.Sprintf("the route matched for request %d said %s and now says %s", k, kp.statics, s), map[string]interface{}{"action": a, "history": reqLog})
			}
		}
	}
}

// multiLevel: do at least two of the three levels touch a common (lower-cased) key?
func multiLevel(ps [3]parserT) bool {
	cnt := map[string]int{}
	for _, p := range ps {
		seen := map[string]bool{}
		for _, a := range p.Add {
			seen[asciiLower(a.Key)] = true
		}
		for _, k := range p.Remove {
			seen[asciiLower(k)] = true
		}
		for k := range seen {
			cnt[k]++
		}
	}
	for _, n := range cnt {
		if n >= 2 {
			return true
		}
	}
	return false
}

var _ = sort.Strings
var _ api.HeaderMap
