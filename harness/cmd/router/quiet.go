package main

import (
	mlog "mosn.io/mosn/pkg/log"
	plog "mosn.io/pkg/log"
)

// the router logs every failed variable-rule match at ERROR level; the harness does not need mosn's logs
func quietLogs() {
	mlog.DefaultLogger.Toggle(true)
	mlog.StartLogger.Toggle(true)
	mlog.Proxy.Toggle(true)
	plog.DefaultLogger.Toggle(true)
}
