package main

// Translators of the group `router`.

import (
	. "vh/vhlib"
)

var gens = map[string]GenFn{}
