package main

// Translators of the group `router`.

import (
	"fmt"
	"go/ast"
	"go/token"
	"strconv"
	"strings"

	. "vh/vhlib"
)

var gens = map[string]GenFn{"RouteSrc": genRouteSrc, "EndpointSrc": genEndpointSrc, "RouterSrc": genRouterSrc, "ClusterSrc": genClusterSrc}

// delegatesToBase: does `func (x *recv) FinalizeRequestHeaders(ctx, headers, requestInfo)` run the base implementation?
//
//	absent (method promoted from the embedded *RouteRuleImplBase)     -> true
//	body = one call x.RouteRuleImplBase.FinalizeRequestHeaders(...) or x.finalizeRequestHeaders(...) with the three arguments -> true
//	empty body                                                          -> false
//	anything else                                                       -> not recognised
func delegatesToBase(f *ast.File, recv string) (delegates bool, recognised bool) {
	fd := FindFunc(f, recv, "FinalizeRequestHeaders")
	if fd == nil {
		return true, true
	}
	if fd.Body == nil || len(fd.Body.List) == 0 {
		return false, true
	}
	if len(fd.Body.List) != 1 {
		return false, false
	}
	es, ok := fd.Body.List[0].(*ast.ExprStmt)
	if !ok {
		return false, false
	}
	call, ok := es.X.(*ast.CallExpr)
	if !ok || len(call.Args) != 3 {
		return false, false
	}
	sel, ok := call.Fun.(*ast.SelectorExpr)
	if !ok || (sel.Sel.Name != "FinalizeRequestHeaders" && sel.Sel.Name != "finalizeRequestHeaders") {
		return false, false
	}
	// arguments must be the method's own parameters, in order
	var params []string
	for _, p := range fd.Type.Params.List {
		for _, n := range p.Names {
			params = append(params, n.Name)
		}
	}
	if len(params) != 3 {
		return false, false
	}
	for i, a := range call.Args {
		id, ok := a.(*ast.Ident)
		if !ok || id.Name != params[i] {
			return false, false
		}
	}
	switch x := sel.X.(type) {
	case *ast.Ident: // x.finalizeRequestHeaders / x.FinalizeRequestHeaders would recurse for the exported name
		if sel.Sel.Name == "FinalizeRequestHeaders" {
			return false, false
		}
		return true, true
	case *ast.SelectorExpr:
		if x.Sel.Name == "RouteRuleImplBase" {
			return true, true
		}
	}
	return false, false
}

func strLit(e ast.Expr) (string, bool) {
	bl, ok := e.(*ast.BasicLit)
	if !ok || bl.Kind != token.STRING {
		return "", false
	}
	s, err := strconv.Unquote(bl.Value)
	return s, err == nil
}

func selName(e ast.Expr) string {
	switch x := e.(type) {
	case *ast.Ident:
		return x.Name
	case *ast.SelectorExpr:
		return selName(x.X) + "." + x.Sel.Name
	case *ast.CallExpr:
		return selName(x.Fun) + "()"
	}
	return "?"
}

// genRouteSrc:
//
//	var_rule_finalizes / dsl_rule_finalizes : do the variable / DSL rule kinds apply the request header actions?
//	redirect_strip : the (new scheme, port) pairs of chooseHost whose port is removed when the scheme changes
//	redirect_fields_ok : the url.URL literal of chooseHost takes scheme/host/path from the rule with the current value as default and keeps the query
func genRouteSrc(repo string) (string, error) {
	var b strings.Builder
	b.WriteString("From Coq Require Import List String.\nImport ListNotations.\nLocal Open Scope string_scope.\n")
	ok := true
	for _, it := range []struct{ file, recv, name string }{
		{"pkg/router/variable_rule.go", "VariableRouteRuleImpl", "var_rule_finalizes"},
		{"pkg/router/dsl_rule.go", "DslExpressionRouteRuleImpl", "dsl_rule_finalizes"},
	} {
		_, f, err := ParseGoFile(repo, it.file)
		if err != nil {
			return "", err
		}
		d, rec := delegatesToBase(f, it.recv)
		if !rec {
			ok = false
		}
		fmt.Fprintf(&b, "Definition %s := %v.\n", it.name, d)
	}
	// the http / rpc rule kinds must still be the known shape: finalizeRequestHeaders then finalizePathHeader(matched)
	_, hf, err := ParseGoFile(repo, "pkg/router/http_rule.go")
	if err != nil {
		return "", err
	}
	for _, it := range []struct{ recv, field string }{{"PathRouteRuleImpl", "path"}, {"PrefixRouteRuleImpl", "prefix"}, {"RegexRouteRuleImpl", "regexStr"}} {
		fd := FindFunc(hf, it.recv, "FinalizeRequestHeaders")
		if fd == nil || fd.Body == nil || len(fd.Body.List) != 2 {
			ok = false
			continue
		}
		c1, ok1 := callOf(fd.Body.List[0])
		c2, ok2 := callOf(fd.Body.List[1])
		if !ok1 || !ok2 || !strings.HasSuffix(selName(c1.Fun), ".finalizeRequestHeaders") || !strings.HasSuffix(selName(c2.Fun), ".finalizePathHeader") ||
			len(c2.Args) != 3 || !strings.HasSuffix(selName(c2.Args[2]), "."+it.field) {
			ok = false
		}
	}
	// redirect assembly
	_, df, err := ParseGoFile(repo, "pkg/proxy/downstream.go")
	if err != nil {
		return "", err
	}
	fd := FindFunc(df, "downStream", "chooseHost")
	if fd == nil {
		return "", fmt.Errorf("chooseHost not found")
	}
	fieldsOK := false
	var pairs [][2]string
	nIf := 0
	ast.Inspect(fd.Body, func(n ast.Node) bool {
		switch x := n.(type) {
		case *ast.CompositeLit:
			if selName(x.Type) != "url.URL" {
				return true
			}
			want := map[string][2]string{"Scheme": {"rule.RedirectScheme()", "currentScheme"}, "Host": {"rule.RedirectHost()", "currentHost"}, "Path": {"rule.RedirectPath()", "currentPath"}}
			good := len(x.Elts) == 4
			for _, el := range x.Elts {
				kv, isKV := el.(*ast.KeyValueExpr)
				if !isKV {
					good = false
					continue
				}
				key := selName(kv.Key)
				if key == "RawQuery" {
					if selName(kv.Value) != "currentQuery" {
						good = false
					}
					continue
				}
				w, has := want[key]
				call, isCall := kv.Value.(*ast.CallExpr)
				if !has || !isCall || selName(call.Fun) != "getStringOr" || len(call.Args) != 2 || selName(call.Args[0]) != w[0] || selName(call.Args[1]) != w[1] {
					good = false
				}
			}
			fieldsOK = good
		case *ast.IfStmt:
			be, isBE := x.Cond.(*ast.BinaryExpr)
			if !isBE || be.Op != token.NEQ || selName(be.X) != "u.Scheme" || selName(be.Y) != "currentScheme" {
				return true
			}
			nIf++
			// inside: host, port, err := net.SplitHostPort(u.Host); if err == nil { if (A) || (B) { u.Host = host } }
			ast.Inspect(x.Body, func(m ast.Node) bool {
				is2, isIf := m.(*ast.IfStmt)
				if !isIf {
					return true
				}
				or, isOr := is2.Cond.(*ast.BinaryExpr)
				if !isOr || or.Op != token.LOR {
					return true
				}
				for _, side := range []ast.Expr{or.X, or.Y} {
					if p, isP := side.(*ast.ParenExpr); isP {
						side = p.X
					}
					and, isAnd := side.(*ast.BinaryExpr)
					if !isAnd || and.Op != token.LAND {
						continue
					}
					l, lok := and.X.(*ast.BinaryExpr)
					r, rok := and.Y.(*ast.BinaryExpr)
					if !lok || !rok || l.Op != token.EQL || r.Op != token.EQL || selName(l.X) != "u.Scheme" || selName(r.X) != "port" {
						continue
					}
					s, ok1 := strLit(l.Y)
					p, ok2 := strLit(r.Y)
					if ok1 && ok2 {
						pairs = append(pairs, [2]string{s, p})
					}
				}
				return true
			})
		}
		return true
	})
	if nIf != 1 || len(pairs) != 2 {
		ok = false
	}
	var ps []string
	for _, p := range pairs {
		ps = append(ps, fmt.Sprintf("(%s, %s)", CoqString(p[0]), CoqString(p[1])))
	}
	fmt.Fprintf(&b, "Definition redirect_strip : list (string * string) := %s.\n", CoqList(ps))
	fmt.Fprintf(&b, "Definition redirect_fields_ok := %v.\n", fieldsOK)
	fmt.Fprintf(&b, "Definition RouteSrc_translator_ok := %v.\n", ok)
	return b.String(), nil
}

func callOf(s ast.Stmt) (*ast.CallExpr, bool) {
	es, ok := s.(*ast.ExprStmt)
	if !ok {
		return nil, false
	}
	c, ok := es.X.(*ast.CallExpr)
	return c, ok
}

// genEndpointSrc (C12): shape of istio1106 ConvertUpdateEndpoints: is TriggerClusterHostUpdate called inside the loop
// over the localities (once per locality: the last one replaces the others) or once after it with the collected hosts?
func genEndpointSrc(repo string) (string, error) {
	var b strings.Builder
	_, f, err := ParseGoFile(repo, "istio/istio1106/xds/conv/update.go")
	if err != nil {
		return "", err
	}
	fd := FindFunc(f, "xdsConverter", "ConvertUpdateEndpoints")
	if fd == nil {
		return "", fmt.Errorf("ConvertUpdateEndpoints not found")
	}
	inLocalityLoop, afterLoop := 0, 0
	var walk func(n ast.Node, depthLocality int)
	walk = func(n ast.Node, depthLocality int) {
		ast.Inspect(n, func(m ast.Node) bool {
			switch x := m.(type) {
			case *ast.RangeStmt:
				if ast.Node(x) == n {
					return true
				}
				d := depthLocality
				if strings.HasSuffix(selName(x.X), ".Endpoints") || strings.HasSuffix(selName(x.X), ".GetEndpoints()") {
					d++
				}
				walk(x.Body, d)
				return false
			case *ast.CallExpr:
				if strings.HasSuffix(selName(x.Fun), "TriggerClusterHostUpdate") && len(x.Args) == 2 {
					if id, isID := x.Args[1].(*ast.Ident); isID && id.Name == "nil" {
						return true // the "no endpoints at all" branch
					}
					if depthLocality > 0 {
						inLocalityLoop++
					} else {
						afterLoop++
					}
				}
			}
			return true
		})
	}
	walk(fd.Body, 0)
	ok := (inLocalityLoop == 1 && afterLoop == 0) || (inLocalityLoop == 0 && afterLoop == 1)
	fmt.Fprintf(&b, "Definition endpoints_update_per_locality := %v.\n", inLocalityLoop == 1)
	fmt.Fprintf(&b, "Definition EndpointSrc_translator_ok := %v.\n", ok)
	return b.String(), nil
}

// genRouterSrc (C04): does routersImpl.findVirtualHost fall back to the default virtual host when the Host value gave
// no index (`if index == -1 { index = ri.defaultVirtualHostIndex }`)?
func genRouterSrc(repo string) (string, error) {
	_, f, err := ParseGoFile(repo, "pkg/router/routers_impl.go")
	if err != nil {
		return "", err
	}
	fd := FindFunc(f, "routersImpl", "findVirtualHost")
	if fd == nil {
		return "", fmt.Errorf("findVirtualHost not found")
	}
	fallback, returnsNil, lowers := 0, 0, 0
	for _, st := range fd.Body.List {
		is, ok := st.(*ast.IfStmt)
		if !ok {
			continue
		}
		be, ok := is.Cond.(*ast.BinaryExpr)
		if ok && be.Op == token.EQL && selName(be.X) == "index" {
			// if index == -1 { ... }
			for _, b := range is.Body.List {
				switch x := b.(type) {
				case *ast.AssignStmt:
					if len(x.Lhs) == 1 && len(x.Rhs) == 1 && selName(x.Lhs[0]) == "index" && strings.HasSuffix(selName(x.Rhs[0]), ".defaultVirtualHostIndex") && returnsNil == 0 {
						fallback++
					}
				case *ast.ReturnStmt:
					if len(x.Results) == 1 && selName(x.Results[0]) == "nil" {
						returnsNil++
					}
				}
			}
		}
	}
	ast.Inspect(fd.Body, func(n ast.Node) bool {
		if c, ok := n.(*ast.CallExpr); ok && selName(c.Fun) == "strings.ToLower" {
			lowers++
		}
		return true
	})
	// GetRouteFromEntries: lock, deferred unlock, ONE loop over vh.routes returning the first Match, return nil
	_, vf, err := ParseGoFile(repo, "pkg/router/virtualhost.go")
	if err != nil {
		return "", err
	}
	linear := false
	if gd := FindFunc(vf, "VirtualHostImpl", "GetRouteFromEntries"); gd != nil && gd.Body != nil && len(gd.Body.List) == 4 {
		_, isLock := gd.Body.List[0].(*ast.ExprStmt)
		_, isDefer := gd.Body.List[1].(*ast.DeferStmt)
		rs, isRange := gd.Body.List[2].(*ast.RangeStmt)
		ret, isRet := gd.Body.List[3].(*ast.ReturnStmt)
		if isLock && isDefer && isRange && isRet && selName(rs.X) == "vh.routes" && len(rs.Body.List) == 1 &&
			len(ret.Results) == 1 && selName(ret.Results[0]) == "nil" {
			if is, ok := rs.Body.List[0].(*ast.IfStmt); ok && is.Init != nil && is.Else == nil && len(is.Body.List) == 1 {
				if as, ok := is.Init.(*ast.AssignStmt); ok && len(as.Rhs) == 1 && strings.HasSuffix(selName(as.Rhs[0]), ".Match()") {
					if _, ok := is.Body.List[0].(*ast.ReturnStmt); ok {
						linear = true
					}
				}
			}
		}
	}
	// where the duplicate checks are made: generateHostWithPortConfig must refuse, at insertion time, a second default
	// (ErrDuplicateVirtualHost), a repeated exact host:port (ErrDuplicateHostPort) and - inside a loop over ALL entries of
	// the port - a repeated wildcard suffix (ErrDuplicateVirtualHost); NewRouters itself returns no duplicate error
	dupOnInsert := false
	if gd := FindFunc(f, "routersImpl", "generateHostWithPortConfig"); gd != nil {
		nVH, nHP, inLoop := 0, 0, 0
		var walk func(n ast.Node, loops int)
		walk = func(n ast.Node, loops int) {
			ast.Inspect(n, func(m ast.Node) bool {
				switch x := m.(type) {
				case *ast.RangeStmt:
					if ast.Node(x) != n {
						walk(x.Body, loops+1)
						return false
					}
				case *ast.ForStmt:
					if ast.Node(x) != n {
						walk(x.Body, loops+1)
						return false
					}
				case *ast.ReturnStmt:
					if len(x.Results) == 1 {
						switch selName(x.Results[0]) {
						case "ErrDuplicateVirtualHost":
							nVH++
							if loops > 0 {
								inLoop++
							}
						case "ErrDuplicateHostPort":
							nHP++
						}
					}
				}
				return true
			})
		}
		walk(gd.Body, 0)
		inNew := 0
		if nd := FindFunc(f, "", "NewRouters"); nd != nil {
			ast.Inspect(nd.Body, func(m ast.Node) bool {
				if x, ok := m.(*ast.ReturnStmt); ok && len(x.Results) == 2 && strings.HasPrefix(selName(x.Results[1]), "ErrDuplicate") {
					inNew++
				}
				return true
			})
		}
		dupOnInsert = nVH == 2 && inLoop == 1 && nHP == 1 && inNew == 0
	}
	var b strings.Builder
	fmt.Fprintf(&b, "Definition duplicate_checks_on_insert := %v.\n", dupOnInsert)
	fmt.Fprintf(&b, "Definition route_scan_is_linear := %v.\n", linear)
	fmt.Fprintf(&b, "Definition host_fallback_default := %v.\n", fallback == 1)
	fmt.Fprintf(&b, "Definition RouterSrc_translator_ok := %v.\n", fallback <= 1 && returnsNil == 1 && lowers == 1)
	return b.String(), nil
}

// genClusterSrc (C12): does UpdateClusterResourceManagerHandler make the updated cluster ADOPT the old cluster's resource
// manager object (`ci.resourceManager = oldResourceManager` + `updateResourceValue(oldResourceManager, newResourceManager)`:
// thresholds rewritten in place, counters shared with the requests in flight)?
func genClusterSrc(repo string) (string, error) {
	_, f, err := ParseGoFile(repo, "pkg/upstream/cluster/cluster_manager.go")
	if err != nil {
		return "", err
	}
	fd := FindFunc(f, "", "UpdateClusterResourceManagerHandler")
	if fd == nil {
		return "", fmt.Errorf("UpdateClusterResourceManagerHandler not found")
	}
	assigns, updates, others := 0, 0, 0
	ast.Inspect(fd.Body, func(n ast.Node) bool {
		switch x := n.(type) {
		case *ast.AssignStmt:
			if len(x.Lhs) == 1 && len(x.Rhs) == 1 && strings.HasSuffix(selName(x.Lhs[0]), ".resourceManager") && selName(x.Rhs[0]) == "oldResourceManager" {
				assigns++
			}
		case *ast.CallExpr:
			switch name := selName(x.Fun); {
			case name == "updateResourceValue" && len(x.Args) == 2 && selName(x.Args[0]) == "oldResourceManager" && selName(x.Args[1]) == "newResourceManager":
				updates++
			case strings.Contains(strings.ToLower(name), "resourcevalue") || strings.HasSuffix(name, ".UpdateCur"):
				others++
			}
		}
		return true
	})
	var b strings.Builder
	fmt.Fprintf(&b, "Definition resource_manager_adopted := %v.\n", assigns == 1 && updates == 1 && others == 0)
	fmt.Fprintf(&b, "Definition ClusterSrc_translator_ok := %v.\n", true)
	return b.String(), nil
}
