package main

// Router configurations and requests: generator, conversion to the real v2 config, Coq printers and an
// independent Go evaluation of the documented precedence (used by the finders of C04 and C12).

import (
	"context"
	"fmt"
	"net"
	"regexp"
	"sort"
	"strings"
	"sync"

	"mosn.io/api"
	v2 "mosn.io/mosn/pkg/config/v2"
	"mosn.io/mosn/pkg/protocol"
	"mosn.io/mosn/pkg/types"
	"mosn.io/pkg/variable"

	. "vh/vhlib"
)

type hmT struct {
	Name  string `json:"name"`
	Value string `json:"value"`
	Regex bool   `json:"regex,omitempty"`
	ID    int    `json:"-"`
}
type vmT struct {
	Name  string `json:"name"`
	Value string `json:"value,omitempty"`
	Regex string `json:"regex,omitempty"`
	Model string `json:"model,omitempty"`
	ID    int    `json:"-"`
}

// dslT: one CEL expression of a fixed shape, so that the harness can evaluate it without the cel package
type dslT struct {
	Kind string `json:"kind"` // method | header | host
	Key  string `json:"key,omitempty"`
	Val  string `json:"val"`
	ID   int    `json:"-"`
}

func (d dslT) expr() string {
	switch d.Kind {
	case "method":
		return fmt.Sprintf("conditional((request.method == %q),true,false)", d.Val)
	case "host":
		return fmt.Sprintf("conditional((request.host == %q),true,false)", d.Val)
	default:
		return fmt.Sprintf("conditional((request.headers[%q] == %q),true,false)", d.Key, d.Val)
	}
}

type rtT struct {
	Prefix  string `json:"prefix,omitempty"`
	Path    string `json:"path,omitempty"`
	Regex   string `json:"regex,omitempty"`
	RegexID int    `json:"-"`
	Headers []hmT  `json:"headers,omitempty"`
	Vars    []vmT  `json:"vars,omitempty"`
	Dsl     []dslT `json:"dsl,omitempty"`
	Cluster string `json:"cluster"`
	Bad     bool   `json:"bad,omitempty"` // NewRouteBase fails (unsupported redirect code, or BadRegex)
	BadRegex bool  `json:"bad_regex,omitempty"` // the path regex does not compile
}
type vhT struct {
	Name    string   `json:"name,omitempty"`
	Domains []string `json:"domains"`
	Routes  []rtT    `json:"routes"`
	Indexed bool     `json:"all_routes_single_exact_header,omitempty"`
}
type cfgT []vhT

type reqT struct {
	Vars map[string]string `json:"vars"`
	Hdr  map[string]string `json:"hdr"`
}

// ---------------------------------------------------------------------------------------- generator

var domainPool = []string{
	"a.com", "A.Com", "*.com", "*.a.com", "a.com:80", "a.com:*", "*:80", "*", "*:*", "b.a.com", "*.b.a.com",
	"*.com:80", "*.com:*", "*.a.com:80", "*a.com", "B.A.COM:80", "b.a.com:*", "x.a.com:8080", "*.A.com:*",
	"[::1]:80", "[::1]", "z.org", "*.org", "*.z.org:80", "*:8080", "*.Com:8080", "a.com:8080", ".com", "com",
}

// rarely used: rejected or odd domains
var oddDomains = []string{"", "::1", "a*.com", ":80", "a.com:", "[::1", "a.com:80:80", "**.com", "*.", "a.com.", "[a.com]:80", "*.*"}

var hostPool = []string{
	"a.com", "A.COM", "a.com:80", "A.com:80", "a.com:81", "a.com:8080", "x.a.com", "X.A.Com:80", "y.b.a.com:80", "y.b.a.com", "b.a.com",
	"B.a.com:80", "b.a.com:9", "com", ".com", "q.com", "q.com:80", "Q.COM:8080", "z.org", "z.org:80", "w.z.org:80", "w.z.org", "a.com:*", "x.com:*",
	"[::1]:80", "[::1]", "::1", "a.com.", "a.com:", "*", "*.com", "xa.com", "xa.com:80", "a.com:80:80", "[::1", "x.a.com:8080", "1.2.3.4:80", "org",
}

var pathPool = []string{"/", "/a", "/a/b", "/A/B", "/ab", "/a/1.html", "/x/22", "/b", "/B", "", "/a/", "/abc/def"}
var prefixPool = []string{"/", "/a", "/a/", "/ab", "/A", "/x", "/b"}
var exactPool = []string{"/a", "/a/b", "/A/b", "/b", "/ab", "/x/22"}
var pathRegexPool = []string{"^/a/.*", "/[0-9]+$", ".*html$", "^/b$", "^/(a|x)/", "^$", "b"}
var valRegexPool = []string{"^v[0-9]$", "v1|v3", "^$", ".*", "^GE", "2$"}
var hdrKeys = []string{"k1", "k2", "service", "method", "K1"}
var hdrVals = []string{"v1", "v2", "v3", "", "svc", ".*", "GET"}
var methods = []string{"GET", "POST", "get"}
var varNames = []string{types.VarMethod, types.VarScheme, types.VarQueryString, types.VarPath, "no_such_variable"}
var varVals = []string{"GET", "POST", "http", "https", "a=1", "/a", ""}

func canonDomain(d string) string { return strings.ToLower(d) }

type rtGen struct {
	r       *Rng
	rid     int  // regex occurrence ids
	did     int  // dsl occurrence ids
	keepIDs bool // do not restart the ids with every configuration (several configurations in one history)
}

func (g *rtGen) headers(n int, http bool) []hmT {
	var hs []hmT
	for i := 0; i < n; i++ {
		h := hmT{Name: g.r.PickS(hdrKeys), Value: g.r.PickS(hdrVals)}
		if g.r.Pct(25) {
			h.Regex = true
			h.Value = g.r.PickS(valRegexPool)
			g.rid++
			h.ID = g.rid
		}
		if h.Name == "method" && http {
			h.Value = g.r.PickS(methods)
		}
		hs = append(hs, h)
	}
	return hs
}

func (g *rtGen) route(cluster string) rtT {
	r := g.r
	rt := rtT{Cluster: cluster}
	nh := 0
	if r.Pct(45) {
		nh = 1 + r.Intn(2)
	}
	switch k := r.Intn(100); {
	case k < 22:
		rt.Prefix = r.PickS(prefixPool)
		rt.Headers = g.headers(nh, true)
	case k < 40:
		rt.Path = r.PickS(exactPool)
		rt.Headers = g.headers(nh, true)
	case k < 55:
		rt.Regex = r.PickS(pathRegexPool)
		g.rid++
		rt.RegexID = g.rid
		rt.Headers = g.headers(nh, true)
	case k < 70:
		n := 1 + r.Intn(3)
		for i := 0; i < n; i++ {
			v := vmT{Name: r.PickS(varNames)}
			switch r.Intn(4) {
			case 0:
				v.Regex = r.PickS(valRegexPool)
				g.rid++
				v.ID = g.rid
			case 1: // neither value nor regex: never holds
			default:
				v.Value = r.PickS(varVals)
			}
			if r.Pct(10) && v.Regex == "" { // both value and regex: the regex decides
				v.Value = r.PickS(varVals)
				v.Regex = r.PickS(valRegexPool)
				g.rid++
				v.ID = g.rid
			}
			v.Model = r.PickS([]string{"", "and", "or", "OR", "And", "or"})
			rt.Vars = append(rt.Vars, v)
		}
	case k < 78:
		n := 1 + r.Intn(2)
		for i := 0; i < n; i++ {
			d := dslT{Kind: r.PickS([]string{"method", "header", "host"})}
			switch d.Kind {
			case "method":
				d.Val = r.PickS(methods)
			case "host":
				d.Val = r.PickS(hostPool)
			default:
				d.Key = r.PickS(hdrKeys)
				d.Val = r.PickS(hdrVals)
			}
			g.did++
			d.ID = g.did
			rt.Dsl = append(rt.Dsl, d)
		}
	case k < 88: // rpc, fast match shape
		rt.Headers = []hmT{{Name: "service", Value: r.PickS([]string{"svc", "v1", ".*", ""})}}
	case k < 96:
		rt.Headers = g.headers(r.Intn(3), false)
	default: // several path fields at once: NewRouteBase takes the first in its order
		rt.Prefix = r.PickS([]string{"", "/a"})
		rt.Path = r.PickS(exactPool)
		rt.Regex = r.PickS(pathRegexPool)
		g.rid++
		rt.RegexID = g.rid
		rt.Vars = []vmT{{Name: types.VarMethod, Value: "GET"}}
	}
	return rt
}

// indexedRoute: a route of the fast-index-eligible shape: exactly one exact-value header matcher (an http rule may
// also carry a "method" matcher, which is not a header criterion), on a prefix / path rule or an RPC rule (the
// "service" fast match with a literal or ".*" included).  Keys and values come from a tiny pool so that several routes
// of one virtual host match the same request and several routes share one key/value.
var idxKeys = []string{"k1", "k2", "service", "x-env"}
var idxVals = []string{"v1", "v2", "gray", ".*", "svc"}

func (g *rtGen) indexedRoute(cluster string) rtT {
	r := g.r
	rt := rtT{Cluster: cluster}
	h := hmT{Name: r.PickS(idxKeys), Value: r.PickS(idxVals)}
	switch k := r.Intn(100); {
	case k < 35:
		rt.Prefix = r.PickS([]string{"/", "/a", "/a/", "/a/b", "/api", "/api/v1"})
	case k < 45:
		rt.Path = r.PickS([]string{"/a/b", "/api/v1/x", "/a"})
	case k < 75: // rpc, "service" fast match shape
		h.Name = "service"
		h.Value = r.PickS([]string{".*", "svc", "v1", "gray", "svc"})
	default: // rpc, common header matcher
	}
	rt.Headers = []hmT{h}
	if (rt.Prefix != "" || rt.Path != "") && r.Pct(25) {
		m := hmT{Name: "method", Value: r.PickS(methods)}
		if r.Bool() {
			rt.Headers = []hmT{m, h}
		} else {
			rt.Headers = []hmT{h, m}
		}
	}
	return rt
}

// config: mostly accepted (distinct canonical domains), sometimes a duplicate or an odd domain, rarely a bad route
func (g *rtGen) config() cfgT {
	r := g.r
	if !g.keepIDs {
		g.rid, g.did = 0, 0
	}
	nvh := 2 + r.Intn(7)
	if r.Pct(8) {
		nvh = 1
	}
	used := map[string]bool{}
	var c cfgT
	for i := 0; i < nvh; i++ {
		vh := vhT{Name: fmt.Sprintf("vh%d", i)}
		nd := 1 + r.Intn(3)
		if r.Pct(3) {
			nd = 0
		}
		for j := 0; j < nd; j++ {
			var d string
			switch k := r.Intn(100); {
			case k < 2:
				d = r.PickS(oddDomains)
			case k < 5: // anything, duplicates included
				d = r.PickS(domainPool)
			default:
				for t := 0; t < 20; t++ {
					d = r.PickS(domainPool)
					if !used[canonDomain(d)] {
						break
					}
					d = ""
				}
				if d == "" {
					continue
				}
			}
			used[canonDomain(d)] = true
			if d == "*" || d == "*:*" { // the same default
				used["*"], used["*:*"] = true, true
			}
			vh.Domains = append(vh.Domains, d)
		}
		nr := r.Intn(7)
		vh.Indexed = r.Pct(25)
		if vh.Indexed {
			nr = 2 + r.Intn(5)
		}
		for j := 0; j < nr; j++ {
			var rt rtT
			if vh.Indexed {
				rt = g.indexedRoute(fmt.Sprintf("v%dr%d", i, j))
			} else {
				rt = g.route(fmt.Sprintf("v%dr%d", i, j))
			}
			vh.Routes = append(vh.Routes, rt)
		}
		c = append(c, vh)
	}
	if r.Pct(4) { // one route that NewRouteBase refuses
		i := r.Intn(len(c))
		if n := len(c[i].Routes); n > 0 {
			c[i].Routes[r.Intn(n)].Bad = true
		}
	}
	if r.Pct(10) {
		g.injectRepeatedDomain(c)
	}
	if r.Pct(6) { // default only
		c = cfgT{{Name: "vh0", Domains: []string{r.PickS([]string{"*", "*:*"})}, Routes: c[0].Routes, Indexed: c[0].Indexed}}
		for j := range c[0].Routes {
			c[0].Routes[j].Cluster = fmt.Sprintf("v0r%d", j)
		}
	}
	return c
}

// injectRepeatedDomain: one domain occurs twice (the second time possibly in another case, or as the other spelling of
// the default), at NON-adjacent positions of the configuration, with 1-3 distractors of the same kind, the same port
// and the same length between the two occurrences (and sometimes the same name with another port, which is no
// repetition).  Such a configuration has two domains that are equal after normalisation and must be rejected.
func (g *rtGen) injectRepeatedDomain(c cfgT) {
	r := g.r
	port := r.PickS([]string{"", "", ":80", ":*", ":8080"})
	var seq []string
	switch r.Intn(10) {
	case 0: // the default, spelled twice
		seq = []string{r.PickS([]string{"*", "*:*"}), "*:80", "*.zz" + port, r.PickS([]string{"*", "*:*"})}
	case 1, 2, 3: // exact domains
		fam := []string{"aaa.com", "bbb.com", "ccc.com", "ddd.com"}
		shuffleStrings(r, fam)
		seq = append(seq, fam[0]+port)
		for k, n := 1, 1+r.Intn(3); k <= n; k++ {
			seq = append(seq, fam[k]+port)
		}
		seq = append(seq, caseVariant(r, fam[0])+port)
	default: // wildcard domains: the distractors have the same suffix length
		fam := []string{"*.aaa.com", "*.bbb.com", "*.ccc.com", "*.ddd.com"}
		if r.Bool() {
			fam = []string{"*aa.org", "*.b.org", "*cc.org", "*.d.org"}
		}
		shuffleStrings(r, fam)
		seq = append(seq, fam[0]+port)
		for k, n := 1, 1+r.Intn(3); k <= n; k++ {
			seq = append(seq, fam[k]+port)
		}
		seq = append(seq, caseVariant(r, fam[0])+port)
	}
	if r.Pct(40) { // same name, other port: not a repetition
		other := ":81"
		if port == "" {
			other = ":80"
		}
		seq = append(seq[:1], append([]string{strings.TrimSuffix(seq[0], port) + other}, seq[1:]...)...)
	}
	// spread over the virtual hosts in order (several may land in one virtual host)
	i := r.Intn(len(c))
	for _, d := range seq {
		c[i].Domains = append(c[i].Domains, d)
		if i < len(c)-1 {
			i += r.Intn(len(c) - i)
		}
	}
}

func shuffleStrings(r *Rng, xs []string) {
	for i := len(xs) - 1; i > 0; i-- {
		j := r.Intn(i + 1)
		xs[i], xs[j] = xs[j], xs[i]
	}
}

func caseVariant(r *Rng, s string) string {
	switch r.Intn(3) {
	case 0:
		return s
	case 1:
		return upper(s)
	}
	b := []byte(s)
	for i := range b {
		if i%2 == 0 && b[i] >= 'a' && b[i] <= 'z' {
			b[i] -= 32
		}
	}
	return string(b)
}

// normalDomain: what a domain is after normalisation - kind (default / exact / wildcard), lower-cased host or suffix, port.
// ok=false: not a domain NewRouters can accept
func normalDomain(d string) (key string, ok bool) {
	h, p, ok := hostPort(asciiLower(d))
	if !ok || (h == "" && p == "") {
		return "", false
	}
	switch {
	case h == "*" && (p == "" || p == "*"):
		return "default", true
	case !strings.Contains(h, "*"):
		return "exact|" + h + "|" + p, true
	case strings.HasPrefix(h, "*"):
		return "wild|" + h[1:] + "|" + p, true
	}
	return "", false
}

// repeatedDomain: two domains of the configuration that are equal after normalisation ("" if none); allValid says
// whether every domain is acceptable on its own
func (c cfgT) repeatedDomain() (first, second string, allValid bool) {
	seen := map[string]string{}
	allValid = true
	for _, vh := range c {
		for _, d := range vh.Domains {
			k, ok := normalDomain(d)
			if !ok {
				allValid = false
				continue
			}
			if prev, dup := seen[k]; dup && first == "" {
				first, second = prev, d
			}
			if _, dup := seen[k]; !dup {
				seen[k] = d
			}
		}
	}
	return
}

func (g *rtGen) request() reqT {
	r := g.r
	q := reqT{Vars: map[string]string{}, Hdr: map[string]string{}}
	if !r.Pct(4) {
		q.Vars[types.VarHost] = r.PickS(hostPool)
	}
	if !r.Pct(6) {
		q.Vars[types.VarPath] = r.PickS(pathPool)
	}
	if !r.Pct(15) {
		q.Vars[types.VarMethod] = r.PickS(methods)
	}
	if r.Pct(50) {
		q.Vars[types.VarScheme] = r.PickS([]string{"http", "https"})
	}
	if r.Pct(40) {
		q.Vars[types.VarQueryString] = r.PickS([]string{"a=1", "", "b=2"})
	}
	nh := r.Intn(4)
	for i := 0; i < nh; i++ {
		q.Hdr[r.PickS(hdrKeys)] = r.PickS(hdrVals)
	}
	return q
}

// hostFor: a Host value that the configured domain applies to (wildcards instantiated, a port "*" made concrete)
func hostFor(d string) string {
	h := d
	if strings.HasPrefix(h, "*") {
		h = "w" + h[1:]
	}
	if strings.HasSuffix(h, ":*") {
		h = h[:len(h)-2] + ":81"
	}
	return h
}

// requestFor: a request aimed at virtual host vh: its headers are the header matchers of several of its routes (so that
// more than one route matches), the path lies under most configured prefixes
func (g *rtGen) requestFor(vh vhT) reqT {
	r := g.r
	q := g.request()
	if len(vh.Domains) > 0 {
		q.Vars[types.VarHost] = hostFor(vh.Domains[r.Intn(len(vh.Domains))])
	}
	q.Vars[types.VarPath] = r.PickS([]string{"/a/b", "/api/v1/x", "/a/b", "/a", "/"})
	q.Vars[types.VarMethod] = r.PickS(methods)
	q.Hdr = map[string]string{}
	for k, n := 0, 1+r.Intn(4); k < n && len(vh.Routes) > 0; k++ {
		for _, h := range vh.Routes[r.Intn(len(vh.Routes))].Headers {
			if h.Name == "method" || h.Regex {
				continue
			}
			v := h.Value
			if v == ".*" && r.Pct(70) {
				v = r.PickS([]string{"svc", "v1", "gray"})
			}
			q.Hdr[h.Name] = v
		}
	}
	return q
}

// indexKey: the key/value under which the route is recorded in the fast index ("", "", false if it is not)
func (rt rtT) indexKey() (string, string, bool) {
	if len(rt.Vars) > 0 && rt.Prefix == "" && rt.Path == "" && rt.Regex == "" {
		return "", "", false
	}
	if len(rt.Dsl) > 0 && rt.Prefix == "" && rt.Path == "" && rt.Regex == "" && len(rt.Vars) == 0 {
		return "", "", false
	}
	http := rt.Prefix != "" || rt.Path != "" || rt.Regex != ""
	var hs []hmT
	for _, h := range rt.Headers {
		if http && h.Name == "method" {
			continue
		}
		hs = append(hs, h)
	}
	if len(hs) != 1 || hs[0].Regex {
		return "", "", false
	}
	return hs[0].Name, hs[0].Value, true
}

// ---------------------------------------------------------------------------------------- real objects

func (c cfgT) v2vhosts(probe bool) []v2.VirtualHost {
	var out []v2.VirtualHost
	for i, vh := range c {
		v := v2.VirtualHost{Name: vh.Name, Domains: append([]string(nil), vh.Domains...)}
		if probe {
			// same domains, one catch-all route: makes the selected virtual host observable
			rr := v2.Router{}
			rr.Route.ClusterName = fmt.Sprintf("vh%d", i)
			v.Routers = []v2.Router{rr}
		} else {
			for _, rt := range vh.Routes {
				v.Routers = append(v.Routers, rt.v2())
			}
		}
		out = append(out, v)
	}
	return out
}

func (rt rtT) v2() v2.Router {
	rr := v2.Router{}
	rr.Match.Prefix, rr.Match.Path, rr.Match.Regex = rt.Prefix, rt.Path, rt.Regex
	for _, h := range rt.Headers {
		rr.Match.Headers = append(rr.Match.Headers, v2.HeaderMatcher{Name: h.Name, Value: h.Value, Regex: h.Regex})
	}
	for _, v := range rt.Vars {
		rr.Match.Variables = append(rr.Match.Variables, v2.VariableMatcher{Name: v.Name, Value: v.Value, Regex: v.Regex, Model: v.Model})
	}
	for _, d := range rt.Dsl {
		rr.Match.DslExpressions = append(rr.Match.DslExpressions, v2.DslExpressionMatcher{Expression: d.expr()})
	}
	rr.Route.ClusterName = rt.Cluster
	if rt.BadRegex {
		rr.Match.Prefix, rr.Match.Path, rr.Match.Regex = "", "", "(" // unparsable
	} else if rt.Bad {
		rr.Redirect = &v2.RedirectAction{ResponseCode: 999}
	}
	return rr
}

func (c cfgT) v2config(name string, probe bool) *v2.RouterConfiguration {
	rc := &v2.RouterConfiguration{VirtualHosts: c.v2vhosts(probe)}
	rc.RouterConfigName = name
	return rc
}

func (q reqT) ctx() (context.Context, api.HeaderMap) {
	ctx := variable.NewVariableContext(context.Background())
	for _, k := range sortedKeys(q.Vars) {
		variable.SetString(ctx, k, q.Vars[k])
	}
	h := protocol.CommonHeader{}
	for k, v := range q.Hdr {
		h[k] = v
	}
	return ctx, h
}

func sortedKeys(m map[string]string) []string {
	ks := make([]string, 0, len(m))
	for k := range m {
		ks = append(ks, k)
	}
	sort.Strings(ks)
	return ks
}

type panicT struct {
	What    string      `json:"panic"`
	Request interface{} `json:"request"`
}

// panics raised by the real code under test (a lookup or a route action must never panic)
var panics []panicT
var panicsMu sync.Mutex

func addPanic(p panicT) {
	panicsMu.Lock()
	panics = append(panics, p)
	panicsMu.Unlock()
}

func reportPanics(run *Run, prop string, ctxInfo interface{}) {
	for _, p := range panics {
		run.Fail(prop+":panic", "the router panicked: "+p.What, map[string]interface{}{"panic": p, "context": ctxInfo})
	}
	panics = nil
}

func guarded(what string, req interface{}, f func()) {
	defer func() {
		if p := recover(); p != nil {
			addPanic(panicT{What: what + ": " + fmt.Sprint(p), Request: req})
		}
	}()
	f()
}

// lookup runs the real MatchRoute / MatchAllRoutes; "" / nil = no route
func lookup(rs types.Routers, q reqT) (one string, found bool, all []string) {
	defer func() {
		if p := recover(); p != nil {
			addPanic(panicT{What: fmt.Sprint(p), Request: q})
			one, found, all = "<panic>", true, nil
		}
	}()
	ctx, h := q.ctx()
	if r := rs.MatchRoute(ctx, h); r != nil {
		one, found = r.RouteRule().ClusterName(ctx), true
	}
	ctx2, h2 := q.ctx()
	for _, r := range rs.MatchAllRoutes(ctx2, h2) {
		all = append(all, r.RouteRule().ClusterName(ctx2))
	}
	return
}

// lookupKV runs the real MatchRouteFromHeaderKV
func lookupKV(rs types.Routers, q reqT, k, v string) (one string, found bool) {
	defer func() {
		if p := recover(); p != nil {
			addPanic(panicT{What: fmt.Sprint(p), Request: q})
			one, found = "<panic>", true
		}
	}()
	ctx, h := q.ctx()
	if r := rs.MatchRouteFromHeaderKV(ctx, h, k, v); r != nil {
		return r.RouteRule().ClusterName(ctx), true
	}
	return "", false
}

// ---------------------------------------------------------------------------------------- regex / dsl oracle

var rxCache = map[string]*regexp.Regexp{}

func rxMatch(pat, s string) bool {
	re, ok := rxCache[pat]
	if !ok {
		re = regexp.MustCompile(pat)
		rxCache[pat] = re
	}
	return re.MatchString(s)
}

// rxIDs: identifiers of the regex occurrences of the configuration that hold for q (on the subject the code uses)
func (c cfgT) rxIDs(q reqT) (rx []int, dsl []int) {
	for _, vh := range c {
		for _, rt := range vh.Routes {
			if rt.Bad {
				continue // never part of an accepted table
			}
			if rt.RegexID != 0 {
				if rxMatch(rt.Regex, q.Vars[types.VarPath]) {
					rx = append(rx, rt.RegexID)
				}
			}
			for _, h := range rt.Headers {
				if h.Regex {
					if v, ok := q.Hdr[h.Name]; ok && rxMatch(h.Value, v) {
						rx = append(rx, h.ID)
					}
				}
			}
			for _, v := range rt.Vars {
				if v.Regex != "" && rxMatch(v.Regex, q.Vars[v.Name]) {
					rx = append(rx, v.ID)
				}
			}
			for _, d := range rt.Dsl {
				if d.holds(q) {
					dsl = append(dsl, d.ID)
				}
			}
		}
	}
	return
}

func (d dslT) holds(q reqT) bool {
	switch d.Kind {
	case "method":
		v, ok := q.Vars[types.VarMethod]
		return ok && v != "" && v == d.Val
	case "host":
		v, ok := q.Vars[types.VarHost]
		return ok && v != "" && v == d.Val
	default:
		v, ok := q.Hdr[d.Key]
		return ok && v == d.Val
	}
}

// ---------------------------------------------------------------------------------------- independent evaluation of the documented precedence

func asciiLower(s string) string {
	b := []byte(s)
	for i, c := range b {
		if c >= 'A' && c <= 'Z' {
			b[i] = c + 32
		}
	}
	return string(b)
}

// hostPort: the documented reading of a Host value or a configured domain: "host:port", port optional
func hostPort(s string) (host, port string, ok bool) {
	h, p, err := net.SplitHostPort(s)
	if err != nil {
		if ae, isAE := err.(*net.AddrError); isAE && ae.Err == "missing port in address" {
			return s, "", true
		}
		return "", "", false
	}
	return h, p, true
}

type cand struct {
	vh, class, slen int
	domain       string
}

// specVhost: candidates of every priority class, maximum taken.  ok=false: the Host value is empty or not host[:port]
// (the precedence says nothing about it).  vh=-1: no candidate.
func (c cfgT) specVhost(hostVal string) (vh int, best cand, ok bool) {
	if hostVal == "" {
		return -1, cand{}, false
	}
	host, port, ok := hostPort(asciiLower(hostVal))
	if !ok {
		return -1, cand{}, false
	}
	best = cand{vh: -1, class: -1}
	for i, v := range c {
		for _, d := range v.Domains {
			dh, dp, ok := hostPort(asciiLower(d))
			if !ok {
				continue
			}
			k := cand{vh: i, class: -1, domain: d}
			switch {
			case dh == "*" && (dp == "" || dp == "*"):
				k.class = 0
			case !strings.Contains(dh, "*"):
				if dh == host && dp == port {
					k.class = 4
				} else if dh == host && dp == "*" {
					k.class = 3
				}
			case strings.HasPrefix(dh, "*"):
				suf := dh[1:]
				if len(suf) < len(host) && strings.HasSuffix(host, suf) {
					k.slen = len(suf)
					if dp == port {
						k.class = 2
					} else if dp == "*" {
						k.class = 1
					}
				}
			}
			if k.class > best.class || (k.class == best.class && k.class >= 0 && k.slen > best.slen) {
				best = k
			}
		}
	}
	return best.vh, best, true
}

// defaultVhost: the virtual host that has the default domain ("*" or "*:*"), -1 if none
func (c cfgT) defaultVhost() int {
	for i, v := range c {
		for _, d := range v.Domains {
			if dh, dp, ok := hostPort(asciiLower(d)); ok && dh == "*" && (dp == "" || dp == "*") {
				return i
			}
		}
	}
	return -1
}

func (h hmT) holds(q reqT) bool {
	v, ok := q.Hdr[h.Name]
	if !ok {
		return false
	}
	if h.Regex {
		return rxMatch(h.Value, v)
	}
	return v == h.Value
}

// specRouteHolds: do the path rule and the header / method / variable matchers of the route all hold?
func (rt rtT) specHolds(q reqT) bool {
	httpHeaders := func() bool {
		method, has := "", false
		for _, h := range rt.Headers {
			if h.Name == "method" {
				method, has = h.Value, true
				continue
			}
			if !h.holds(q) {
				return false
			}
		}
		if has {
			if v, ok := q.Vars[types.VarMethod]; !ok || v != method {
				return false
			}
		}
		return true
	}
	path := q.Vars[types.VarPath]
	switch {
	case rt.Prefix != "":
		return httpHeaders() && path != "" && strings.HasPrefix(path, rt.Prefix)
	case rt.Path != "":
		return httpHeaders() && path != "" && asciiLower(path) == asciiLower(rt.Path)
	case rt.Regex != "":
		return httpHeaders() && path != "" && rxMatch(rt.Regex, path)
	case len(rt.Vars) > 0:
		// documented: consecutive matchers are joined by the model of the LEFT one ("and" default), evaluated left to right,
		// stopping at the first "or" whose left side holds
		res, lastAnd := true, true
		for _, v := range rt.Vars {
			cur := false
			if v.Value != "" {
				cur = q.Vars[v.Name] == v.Value
			}
			if v.Regex != "" {
				cur = rxMatch(v.Regex, q.Vars[v.Name])
			}
			if lastAnd {
				res = res && cur
			} else {
				res = cur
			}
			or := asciiLower(v.Model) == "or"
			if res && or {
				return true
			}
			lastAnd = !or
		}
		return res
	case len(rt.Dsl) > 0:
		for _, d := range rt.Dsl {
			if !d.holds(q) {
				return false
			}
		}
		return true
	default:
		if len(rt.Headers) == 1 && rt.Headers[0].Name == "service" && rt.Headers[0].Value != "" {
			v := q.Hdr["service"]
			return v != "" && (v == rt.Headers[0].Value || rt.Headers[0].Value == ".*")
		}
		for _, h := range rt.Headers {
			if !h.holds(q) {
				return false
			}
		}
		return true
	}
}

// ---------------------------------------------------------------------------------------- Coq printers

func coqOptNat(id int, some bool) string { return CoqOption(some, CoqNat(id)) }

func coqStrList(xs []string) string {
	var it []string
	for _, x := range xs {
		it = append(it, CoqString(x))
	}
	return CoqList(it)
}

func coqNatList(xs []int) string {
	var it []string
	for _, x := range xs {
		it = append(it, CoqNat(x))
	}
	return CoqList(it)
}

func coqPairs(m map[string]string) string {
	var it []string
	for _, k := range sortedKeys(m) {
		it = append(it, "("+CoqString(k)+", "+CoqString(m[k])+")")
	}
	return CoqList(it)
}

func (rt rtT) coq() string {
	var hs, vs []string
	for _, h := range rt.Headers {
		hs = append(hs, fmt.Sprintf("Build_hmatch %s %s %s", CoqString(h.Name), CoqString(h.Value), coqOptNat(h.ID, h.Regex)))
	}
	for _, v := range rt.Vars {
		vs = append(vs, fmt.Sprintf("Build_vmatch %s %s %s %s", CoqString(v.Name), CoqOption(v.Value != "", CoqString(v.Value)),
			coqOptNat(v.ID, v.Regex != ""), CoqBool(asciiLower(v.Model) == "or")))
	}
	var ds []int
	for _, d := range rt.Dsl {
		ds = append(ds, d.ID)
	}
	m := fmt.Sprintf("(Build_rmatch %s %s %s %s %s %s)", CoqString(rt.Prefix), CoqString(rt.Path), coqOptNat(rt.RegexID, rt.Regex != ""),
		CoqList(hs), CoqList(vs), coqNatList(ds))
	return fmt.Sprintf("Build_route %s %s %s", m, CoqString(rt.Cluster), CoqBool(rt.Bad))
}

func (c cfgT) coq() string {
	var vs []string
	for _, vh := range c {
		var rs []string
		for _, rt := range vh.Routes {
			rs = append(rs, rt.coq())
		}
		vs = append(vs, fmt.Sprintf("Build_vhost %s %s", coqStrList(vh.Domains), CoqList(rs)))
	}
	return CoqList(vs)
}

func (c cfgT) coqReq(q reqT) string {
	rx, dsl := c.rxIDs(q)
	return fmt.Sprintf("(Build_request %s %s %s %s)", coqPairs(q.Vars), coqPairs(q.Hdr), coqNatList(rx), coqNatList(dsl))
}

const rtShardHeader = "From MV Require Import Model.Router.\nFrom Coq Require Import List String.\nImport ListNotations.\nOpen Scope string_scope.\n"
