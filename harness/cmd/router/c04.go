package main

import (
	"fmt"
	"sync"

	"mosn.io/mosn/pkg/router"
	"mosn.io/mosn/pkg/types"

	. "vh/vhlib"
)

func errClass(err error) int {
	switch err {
	case nil:
		return 0
	case router.ErrNilRouterConfig:
		return 1
	case router.ErrNoVirtualHost:
		return 3
	case router.ErrDuplicateVirtualHost:
		return 4
	case router.ErrDuplicateHostPort:
		return 5
	case router.ErrNoVirtualHostPort:
		return 6
	}
	return 2 // a route could not be built
}

func vhIndex(name string) int {
	var i int
	if _, err := fmt.Sscanf(name, "vh%d", &i); err != nil {
		return -1
	}
	return i
}

func c04(args []string) int {
	run := NewRun("C04", args)
	g := &rtGen{r: run.R}
	run.Sum.Rule = "configurations: 1-8 virtual hosts, 0-3 domains each drawn without repetition (95%) from an overlapping pool (exact / mixed case / *.suffix / *suffix / :port / :* / default / IPv6 literal), 2% odd or rejected domains, 3% unrestricted draws (duplicates), 10% of the configurations with one domain repeated at non-adjacent positions (exact / wildcard / default, other case, 1-3 same-kind same-port same-length distractors between, same name with another port), 0-6 routes per host mixing prefix / path / regex (+header, method, regex-header matchers), variable (and/or), DSL and RPC rules, 25% of the virtual hosts with 2-6 routes that are ALL of the fast-index shape (one exact header on a prefix / path / RPC rule, `service` fast match incl. `.*`, keys and values from a pool of 4 x 5 so that routes share keys and several match), 4% of configurations with an unbuildable route; per configuration a battery of requests (Host from a pool with/without port, mixed case, malformed, empty, unset; path; method; 0-3 headers; variables). plus requests aimed at each such virtual host carrying the header matchers of several of its routes; every lookup is repeated 8 times (map order). Each request is looked up with the real MatchRoute, MatchAllRoutes and MatchRouteFromHeaderKV (for its own headers) and on a probe table (same domains, one catch-all route per host) that shows which virtual host was selected. A lookup is non-trivial when the configuration was accepted and has >= 2 virtual hosts; distinct by (configuration number, request)."
	ncfg := run.N(260, 2600)
	nreq := run.N(14, 24)
	sh := run.NewShard(rtShardHeader, "rt_case", "rt_mismatches")
	casesInShard := 0
	for ci := 0; ci < ncfg; ci++ {
		c := g.config()
		real, err := router.NewRouters(c.v2config("c04", false))
		code := errClass(err)
		run.Sum.Distribution[fmt.Sprintf("build-class=%d", code)]++
		// ---- finder: acceptance.  Two domains that are equal after normalisation (lower case, host / port split, "*" = "*:*")
		// would make one virtual host shadow the other: such a configuration must be rejected; and a configuration must not
		// be rejected as "duplicate" when all its normalised domains are distinct
		if d1, d2, _ := c.repeatedDomain(); d1 != "" {
			run.Sum.Distribution["config-with-repeated-domain"]++
			if err == nil {
				run.Fail("c04:vhost:duplicate-domain-accepted", fmt.Sprintf("domains %q and %q are the same after normalisation, NewRouters accepted the configuration (one virtual host shadows the other)", d1, d2),
					map[string]interface{}{"config": c, "domains": domainsOf(c)})
			}
		} else if code == 4 || code == 5 {
			run.Fail("c04:vhost:distinct-domains-rejected-as-duplicate", fmt.Sprintf("all domains are distinct after normalisation, NewRouters refused the configuration: %v", err),
				map[string]interface{}{"config": c, "domains": domainsOf(c)})
		}
		var obs []string
		var descr []interface{}
		if err == nil {
			probe, perr := router.NewRouters(c.v2config("c04p", true))
			if perr != nil {
				// the probe has the same domains and buildable routes: it must be accepted too
				run.Fail("c04:probe-rejected", "the same domains were accepted with one route list and rejected with another: "+perr.Error(), map[string]interface{}{"config": c})
				continue
			}
			reqs := make([]reqT, 0, nreq)
			for k := 0; k < nreq; k++ {
				reqs = append(reqs, g.request())
			}
			// requests derived from the configuration: every configured domain as Host (as written and upper-cased), with a sub-domain prefix
			for _, vh := range c {
				for _, d := range vh.Domains {
					if run.R.Pct(50) {
						q := g.request()
						h := d
						switch run.R.Intn(4) {
						case 0:
							h = "w." + d
						case 1:
							h = upper(d)
						case 2:
							if len(d) > 0 && d[0] == '*' {
								h = "q" + d[1:]
							}
						}
						q.Vars[types.VarHost] = h
						reqs = append(reqs, q)
					}
				}
			}
			// requests aimed at the virtual hosts whose routes are all single-exact-header rules (several routes match)
			for _, vh := range c {
				if vh.Indexed {
					for k := 0; k < 4; k++ {
						reqs = append(reqs, g.requestFor(vh))
					}
				} else if run.R.Pct(20) {
					reqs = append(reqs, g.requestFor(vh))
				}
			}
			type kvAns struct {
				k, v, one string
				found     bool
			}
			type ans struct {
				kvs []kvAns
				vh       int
				one      string
				found    bool
				all      []string
				repeated bool
			}
			answers := make([]ans, len(reqs))
			for k, q := range reqs {
				pone, pfound, _ := lookup(probe, q)
				a := ans{vh: -1}
				if pfound {
					a.vh = vhIndex(pone)
				}
				a.one, a.found, a.all = lookup(real, q)
				// MatchRouteFromHeaderKV for the request's own headers and a pair that is (probably) not indexed
				for _, hk := range sortedKeys(q.Hdr) {
					kv := kvAns{k: hk, v: q.Hdr[hk]}
					kv.one, kv.found = lookupKV(real, q, kv.k, kv.v)
					a.kvs = append(a.kvs, kv)
				}
				kv := kvAns{k: "k1", v: "no-such-value"}
				kv.one, kv.found = lookupKV(real, q, kv.k, kv.v)
				a.kvs = append(a.kvs, kv)
				answers[k] = a
			}
			// purity: the same lookups again, concurrently and in reverse order, must give the same answers
			var wg sync.WaitGroup
			again := make([]ans, len(reqs))
			for k := len(reqs) - 1; k >= 0; k-- {
				wg.Add(1)
				go func(k int) {
					defer wg.Done()
					// several rounds: an answer that depends on Go's map iteration order shows up as a changing answer
					a := answers[k]
					for round := 0; round < 7; round++ {
						one, found, all := lookup(real, reqs[k])
						if one != a.one || found != a.found || fmt.Sprint(all) != fmt.Sprint(a.all) {
							a.one, a.found, a.all = one, found, all
							break
						}
					}
					again[k] = a
				}(k)
			}
			wg.Wait()
			// state leaking across requests: after the whole history of lookups on `real`, every request must still be answered
			// as on a table freshly built from the same configuration and asked that request alone
			for k, q := range reqs {
				fresh, ferr := router.NewRouters(c.v2config("c04f", false))
				if ferr != nil {
					run.Fail("c04:history:configuration-not-accepted-twice", "the configuration was accepted once and refused when built again: "+ferr.Error(), map[string]interface{}{"config": c})
					break
				}
				fo, ff, fa := lookup(fresh, q)
				lo, lf, la := lookup(real, q)
				if fo != lo || ff != lf || fmt.Sprint(fa) != fmt.Sprint(la) {
					run.Fail("c04:history:answer-differs-from-fresh-table", fmt.Sprintf("request %d of the history: the table that served %d lookups answers %q %v, a freshly built table answers %q %v", k, len(reqs)*10, lo, la, fo, fa),
						map[string]interface{}{"config": c, "request": q, "history": reqs[:k]})
					break
				}
				if k >= 5 && !run.Thorough() {
					break
				}
			}
			reportPanics(run, "c04", map[string]interface{}{"config": c})
			for k, q := range reqs {
				a := answers[k]
				rep := map[string]interface{}{"config": c, "request": q, "got_vhost": a.vh, "got_route": a.one, "got_all": a.all}
				if again[k].one != a.one || again[k].found != a.found || fmt.Sprint(again[k].all) != fmt.Sprint(a.all) {
					run.Fail("c04:lookup-not-pure", fmt.Sprintf("the same request was answered %q then %q on an unchanged table", a.one, again[k].one), rep)
				}
				// ---- finder: the documented precedence evaluated directly on the real answers
				hostVal, hostSet := q.Vars[types.VarHost]
				want, best, wellFormed := c.specVhost(hostVal)
				nontrivial := len(c) >= 2
				kind := "host-malformed-or-empty"
				if wellFormed {
					kind = fmt.Sprintf("vhost-class=%d", best.class)
					if a.vh != want {
						gotClass := "none"
						if a.vh >= 0 {
							gotClass = "other"
						}
						run.Fail(fmt.Sprintf("c04:vhost-precedence:want-class%d-got-%s", best.class, gotClass),
							fmt.Sprintf("Host %q: the documented precedence selects virtual host %d (domain %q, class %d, suffix length %d) but virtual host %d was used", hostVal, want, best.domain, best.class, best.slen, a.vh), rep)
					}
				} else {
					// no Host, an empty one, or one that is not host[:port]: no exact or wildcard domain can apply, the default does
					_ = hostSet
					if w := c.defaultVhost(); w != a.vh {
						sig := "c04:vhost-precedence:unusable-host-want-default-got-other"
						if a.vh < 0 {
							sig = "c04:vhost-precedence:unusable-host-want-default-got-none"
						}
						run.Fail(sig, fmt.Sprintf("Host %q (set=%v) is empty or not host[:port]: only the default virtual host (%d) can apply, but virtual host %d was used", hostVal, hostSet, w, a.vh), rep)
					}
				}
				if a.vh >= 0 {
					// within the virtual host that was used: first route in configuration order whose matchers all hold
					wantOne, wantFound := "", false
					var wantAll []string
					for _, rt := range c[a.vh].Routes {
						if rt.specHolds(q) {
							if !wantFound {
								wantOne, wantFound = rt.Cluster, true
							}
							wantAll = append(wantAll, rt.Cluster)
						}
					}
					if wantFound != a.found || wantOne != a.one {
						sig := "c04:first-match:wrong-route"
						if !a.found {
							sig = "c04:first-match:no-route-although-one-matches"
						} else if !wantFound {
							sig = "c04:first-match:route-although-none-matches"
						}
						run.Fail(sig, fmt.Sprintf("virtual host %d: first matching route is %q (found=%v), MatchRoute returned %q (found=%v)", a.vh, wantOne, wantFound, a.one, a.found), rep)
					}
					if fmt.Sprint(wantAll) != fmt.Sprint(a.all) {
						run.Fail("c04:all-matches", fmt.Sprintf("virtual host %d: matching routes are %v, MatchAllRoutes returned %v", a.vh, wantAll, a.all), rep)
					}
					// the selected route is the first of all matching routes (both answers come from the implementation)
					if (a.found && (len(a.all) == 0 || a.all[0] != a.one)) || (!a.found && len(a.all) > 0) {
						run.Fail("c04:first-match:match-route-differs-from-first-of-all-routes", fmt.Sprintf("virtual host %d: MatchRoute returned %q (found=%v) but MatchAllRoutes returned %v", a.vh, a.one, a.found, a.all), rep)
					}
					if len(wantAll) >= 2 {
						kind += ",several-match"
					}
					if c[a.vh].Indexed {
						kind += ",all-routes-indexed"
					}
					// MatchRouteFromHeaderKV: the route recorded under key/value = the LAST route of the virtual host whose only header
					// criterion is key == value (exact); where it is the single route matching the request, MatchRoute must return it too
					for _, kv := range a.kvs {
						wantKV, wantKVFound, nKV := "", false, 0
						for _, rt := range c[a.vh].Routes {
							if ik, iv, ok := rt.indexKey(); ok && ik == kv.k && iv == kv.v {
								wantKV, wantKVFound = rt.Cluster, true
								nKV++
							}
						}
						if nKV <= 1 && (wantKVFound != kv.found || wantKV != kv.one) {
							run.Fail("c04:header-kv:wrong-route", fmt.Sprintf("virtual host %d: the only route indexed under %s=%q is %q (exists=%v), MatchRouteFromHeaderKV returned %q (found=%v)", a.vh, kv.k, kv.v, wantKV, wantKVFound, kv.one, kv.found), rep)
						}
						if kv.found && len(wantAll) == 1 && wantAll[0] == kv.one && a.one != kv.one {
							run.Fail("c04:header-kv:disagrees-with-match-route", fmt.Sprintf("virtual host %d: %q is the only matching route and is indexed under %s=%q, MatchRoute returned %q", a.vh, kv.one, kv.k, kv.v, a.one), rep)
						}
						run.Sum.Distribution[fmt.Sprintf("header-kv-found=%v", kv.found)]++
					}
					if a.found {
						kind += ",route"
					} else {
						kind += ",no-route"
					}
				} else if a.found || len(a.all) > 0 {
					run.Fail("c04:route-without-vhost", "a route was returned although no virtual host applies", rep)
				}
				run.Count(fmt.Sprintf("%d|%d|%v", run.Seed, ci, q), nontrivial, kind)
				if nontrivial && a.found {
					run.Sample(map[string]interface{}{"domains": domainsOf(c), "host": hostVal, "path": q.Vars[types.VarPath], "vhost": a.vh, "route": a.one})
				}
				var allq []string
				for _, s := range a.all {
					allq = append(allq, CoqString(s))
				}
				var kvq []string
				for _, kv := range a.kvs {
					kvq = append(kvq, fmt.Sprintf("(%s, %s, %s)", CoqString(kv.k), CoqString(kv.v), CoqOption(kv.found, CoqString(kv.one))))
				}
				obs = append(obs, fmt.Sprintf("(%s, %s, %s, %s, %s)", c.coqReq(q), CoqOption(a.vh >= 0, CoqNat(a.vh)), CoqOption(a.found, CoqString(a.one)), CoqList(allq), CoqList(kvq)))
				descr = append(descr, rep)
			}
		} else {
			run.Count(fmt.Sprintf("%d|%d|rejected", run.Seed, ci), false, "rejected-config")
		}
		sh.Add(fmt.Sprintf("(%s,\n  %s,\n  %s)", c.coq(), CoqNat(code), CoqList(obs)), map[string]interface{}{"config": c, "build_class": code, "lookups": len(obs)})
		casesInShard += 1 + len(obs)
		if casesInShard >= 700 {
			sh.Close()
			sh = run.NewShard(rtShardHeader, "rt_case", "rt_mismatches")
			casesInShard = 0
		}
	}
	sh.Close()
	return run.Finish()
}

func upper(s string) string {
	b := []byte(s)
	for i, c := range b {
		if c >= 'a' && c <= 'z' {
			b[i] = c - 32
		}
	}
	return string(b)
}

func domainsOf(c cfgT) [][]string {
	var out [][]string
	for _, vh := range c {
		out = append(out, vh.Domains)
	}
	return out
}
