package main

import (
	"fmt"
	"sync"

	"mosn.io/mosn/pkg/router"
	"mosn.io/mosn/pkg/types"

	. "vh/vhlib"
)

func errClass(err error) int {
	switch err {
	case nil:
		return 0
	case router.ErrNilRouterConfig:
		return 1
	case router.ErrNoVirtualHost:
		return 3
	case router.ErrDuplicateVirtualHost:
		return 4
	case router.ErrDuplicateHostPort:
		return 5
	case router.ErrNoVirtualHostPort:
		return 6
	}
	return 2 // a route could not be built
}

func vhIndex(name string) int {
	var i int
	if _, err := fmt.Sscanf(name, "vh%d", &i); err != nil {
		return -1
	}
	return i
}

func c04(args []string) int {
	run := NewRun("C04", args)
	g := &rtGen{r: run.R}
	run.Sum.Rule = "configurations: 1-8 virtual hosts, 0-3 domains each drawn without repetition (95%) from an overlapping pool (exact / mixed case / *.suffix / *suffix / :port / :* / default / IPv6 literal), 2% odd or rejected domains, 3% unrestricted draws (duplicates), 0-6 routes per host mixing prefix / path / regex (+header, method, regex-header matchers), variable (and/or), DSL and RPC rules, 4% of configurations with an unbuildable route; per configuration a battery of requests (Host from a pool with/without port, mixed case, malformed, empty, unset; path; method; 0-3 headers; variables). Each request is looked up with the real MatchRoute and MatchAllRoutes and on a probe table (same domains, one catch-all route per host) that shows which virtual host was selected. A lookup is non-trivial when the configuration was accepted and has >= 2 virtual hosts; distinct by (configuration number, request)."
	ncfg := run.N(260, 2600)
	nreq := run.N(14, 24)
	sh := run.NewShard(rtShardHeader, "rt_case", "rt_mismatches")
	casesInShard := 0
	for ci := 0; ci < ncfg; ci++ {
		c := g.config()
		real, err := router.NewRouters(c.v2config("c04", false))
		code := errClass(err)
		run.Sum.Distribution[fmt.Sprintf("build-class=%d", code)]++
		var obs []string
		var descr []interface{}
		if err == nil {
			probe, perr := router.NewRouters(c.v2config("c04p", true))
			if perr != nil {
				// the probe has the same domains and buildable routes: it must be accepted too
				run.Fail("c04:probe-rejected", "the same domains were accepted with one route list and rejected with another: "+perr.Error(), map[string]interface{}{"config": c})
				continue
			}
			reqs := make([]reqT, 0, nreq)
			for k := 0; k < nreq; k++ {
				reqs = append(reqs, g.request())
			}
			// requests derived from the configuration: every configured domain as Host (as written and upper-cased), with a sub-domain prefix
			for _, vh := range c {
				for _, d := range vh.Domains {
					if run.R.Pct(50) {
						q := g.request()
						h := d
						switch run.R.Intn(4) {
						case 0:
							h = "w." + d
						case 1:
							h = upper(d)
						case 2:
							if len(d) > 0 && d[0] == '*' {
								h = "q" + d[1:]
							}
						}
						q.Vars[types.VarHost] = h
						reqs = append(reqs, q)
					}
				}
			}
			type ans struct {
				vh       int
				one      string
				found    bool
				all      []string
				repeated bool
			}
			answers := make([]ans, len(reqs))
			for k, q := range reqs {
				pone, pfound, _ := lookup(probe, q)
				a := ans{vh: -1}
				if pfound {
					a.vh = vhIndex(pone)
				}
				a.one, a.found, a.all = lookup(real, q)
				answers[k] = a
			}
			// purity: the same lookups again, concurrently and in reverse order, must give the same answers
			var wg sync.WaitGroup
			again := make([]ans, len(reqs))
			for k := len(reqs) - 1; k >= 0; k-- {
				wg.Add(1)
				go func(k int) {
					defer wg.Done()
					a := ans{}
					a.one, a.found, a.all = lookup(real, reqs[k])
					again[k] = a
				}(k)
			}
			wg.Wait()
			reportPanics(run, "c04", map[string]interface{}{"config": c})
			for k, q := range reqs {
				a := answers[k]
				rep := map[string]interface{}{"config": c, "request": q, "got_vhost": a.vh, "got_route": a.one, "got_all": a.all}
				if again[k].one != a.one || again[k].found != a.found || fmt.Sprint(again[k].all) != fmt.Sprint(a.all) {
					run.Fail("c04:lookup-not-pure", fmt.Sprintf("the same request was answered %q then %q on an unchanged table", a.one, again[k].one), rep)
				}
				// ---- finder: the documented precedence evaluated directly on the real answers
				hostVal, hostSet := q.Vars[types.VarHost]
				want, best, wellFormed := c.specVhost(hostVal)
				nontrivial := len(c) >= 2
				kind := "host-malformed-or-empty"
				if wellFormed {
					kind = fmt.Sprintf("vhost-class=%d", best.class)
					if a.vh != want {
						gotClass := "none"
						if a.vh >= 0 {
							gotClass = "other"
						}
						run.Fail(fmt.Sprintf("c04:vhost-precedence:want-class%d-got-%s", best.class, gotClass),
							fmt.Sprintf("Host %q: the documented precedence selects virtual host %d (domain %q, class %d, suffix length %d) but virtual host %d was used", hostVal, want, best.domain, best.class, best.slen, a.vh), rep)
					}
				} else {
					// no Host, an empty one, or one that is not host[:port]: no exact or wildcard domain can apply, the default does
					_ = hostSet
					if w := c.defaultVhost(); w != a.vh {
						sig := "c04:vhost-precedence:unusable-host-want-default-got-other"
						if a.vh < 0 {
							sig = "c04:vhost-precedence:unusable-host-want-default-got-none"
						}
						run.Fail(sig, fmt.Sprintf("Host %q (set=%v) is empty or not host[:port]: only the default virtual host (%d) can apply, but virtual host %d was used", hostVal, hostSet, w, a.vh), rep)
					}
				}
				if a.vh >= 0 {
					// within the virtual host that was used: first route in configuration order whose matchers all hold
					wantOne, wantFound := "", false
					var wantAll []string
					for _, rt := range c[a.vh].Routes {
						if rt.specHolds(q) {
							if !wantFound {
								wantOne, wantFound = rt.Cluster, true
							}
							wantAll = append(wantAll, rt.Cluster)
						}
					}
					if wantFound != a.found || wantOne != a.one {
						sig := "c04:first-match:wrong-route"
						if !a.found {
							sig = "c04:first-match:no-route-although-one-matches"
						} else if !wantFound {
							sig = "c04:first-match:route-although-none-matches"
						}
						run.Fail(sig, fmt.Sprintf("virtual host %d: first matching route is %q (found=%v), MatchRoute returned %q (found=%v)", a.vh, wantOne, wantFound, a.one, a.found), rep)
					}
					if fmt.Sprint(wantAll) != fmt.Sprint(a.all) {
						run.Fail("c04:all-matches", fmt.Sprintf("virtual host %d: matching routes are %v, MatchAllRoutes returned %v", a.vh, wantAll, a.all), rep)
					}
					if a.found {
						kind += ",route"
					} else {
						kind += ",no-route"
					}
				} else if a.found || len(a.all) > 0 {
					run.Fail("c04:route-without-vhost", "a route was returned although no virtual host applies", rep)
				}
				run.Count(fmt.Sprintf("%d|%d|%v", run.Seed, ci, q), nontrivial, kind)
				if nontrivial && a.found {
					run.Sample(map[string]interface{}{"domains": domainsOf(c), "host": hostVal, "path": q.Vars[types.VarPath], "vhost": a.vh, "route": a.one})
				}
				var allq []string
				for _, s := range a.all {
					allq = append(allq, CoqString(s))
				}
				obs = append(obs, fmt.Sprintf("(%s, %s, %s, %s)", c.coqReq(q), CoqOption(a.vh >= 0, CoqNat(a.vh)), CoqOption(a.found, CoqString(a.one)), CoqList(allq)))
				descr = append(descr, rep)
			}
		} else {
			run.Count(fmt.Sprintf("%d|%d|rejected", run.Seed, ci), false, "rejected-config")
		}
		sh.Add(fmt.Sprintf("(%s,\n  %s,\n  %s)", c.coq(), CoqNat(code), CoqList(obs)), map[string]interface{}{"config": c, "build_class": code, "lookups": len(obs)})
		casesInShard += 1 + len(obs)
		if casesInShard >= 700 {
			sh.Close()
			sh = run.NewShard(rtShardHeader, "rt_case", "rt_mismatches")
			casesInShard = 0
		}
	}
	sh.Close()
	return run.Finish()
}

func upper(s string) string {
	b := []byte(s)
	for i, c := range b {
		if c >= 'a' && c <= 'z' {
			b[i] = c - 32
		}
	}
	return string(b)
}

func domainsOf(c cfgT) [][]string {
	var out [][]string
	for _, vh := range c {
		out = append(out, vh.Domains)
	}
	return out
}
