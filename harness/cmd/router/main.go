package main

import . "vh/vhlib"

func main() {
	Main(map[string]CmdFn{
		"gen": func(a []string) int { return RunGen(gens, a) },
		"c04": c04,
		"c17": c17,
		"c12": c12,
	})
}

func init() { quietLogs() }
