package main

// Translators of the group `lb` (weights, load balancers, health).

import (
	"fmt"
	"go/ast"
	"go/parser"
	"go/printer"
	"go/token"
	"go/types"
	"os"
	"path/filepath"
	"sort"
	"strings"

	. "vh/vhlib"
)

var gens = map[string]GenFn{"SrcTokens": genSrcTokens, "HealthOps": genHealthOps, "LBTokens": genLBTokens, "HealthLoop": genHealthLoop, "RRTokens": genRRTokens, "HealthStoreOps": genHealthStoreOps, "SubsetTokens": genSubsetTokens, "HostSetTokens": genHostSetTokens, "CriteriaTokens": genCriteriaTokens, "HealthXferTokens": genHealthXferTokens, "HealthLifecycleTokens": genHealthLifecycleTokens, "HostUpdateTokens": genHostUpdateTokens}

// genSrcTokens: literal tokens / constants at named sites.
//
//	wc_cmp : the comparison of the weighted-cluster scan in router/base_rule.go ClusterName
func genSrcTokens(repo string) (string, error) {
	var b strings.Builder
	b.WriteString("Require Import ZArith.\n")
	_, f, err := ParseGoFile(repo, "pkg/router/base_rule.go")
	if err != nil {
		return "", err
	}
	fd := FindFunc(f, "RouteRuleImplBase", "ClusterName")
	if fd == nil {
		return "", fmt.Errorf("ClusterName not found")
	}
	// expected shape:  for _, wc := range rri.weightedClusters { sel = sel - int(wc.clusterWeight); if sel OP 0 { return wc.clusterName } }
	op := ""
	nrange := 0
	ast.Inspect(fd.Body, func(n ast.Node) bool {
		rs, ok := n.(*ast.RangeStmt)
		if !ok {
			return true
		}
		nrange++
		if len(rs.Body.List) != 2 {
			return true
		}
		as, ok1 := rs.Body.List[0].(*ast.AssignStmt)
		is, ok2 := rs.Body.List[1].(*ast.IfStmt)
		if !ok1 || !ok2 || len(as.Lhs) != 1 || len(as.Rhs) != 1 {
			return true
		}
		sub, ok := as.Rhs[0].(*ast.BinaryExpr)
		if !(ok && sub.Op == token.SUB) && !(as.Tok == token.SUB_ASSIGN) {
			return true
		}
		be, ok := is.Cond.(*ast.BinaryExpr)
		if !ok {
			return true
		}
		lit, ok := be.Y.(*ast.BasicLit)
		if !ok || lit.Value != "0" {
			return true
		}
		if len(is.Body.List) == 1 {
			if _, ok := is.Body.List[0].(*ast.ReturnStmt); ok && is.Else == nil {
				op = be.Op.String()
			}
		}
		return true
	})
	ok := nrange == 1
	// the draw must be taken from exactly [0, totalClusterWeight): the single Intn call of ClusterName
	nIntn, intnArgOK := 0, false
	ast.Inspect(fd.Body, func(n ast.Node) bool {
		ce, isCall := n.(*ast.CallExpr)
		if !isCall {
			return true
		}
		if se, isSel := ce.Fun.(*ast.SelectorExpr); isSel && se.Sel.Name == "Intn" && len(ce.Args) == 1 {
			nIntn++
			if conv, isConv := ce.Args[0].(*ast.CallExpr); isConv && len(conv.Args) == 1 {
				if f, isId := conv.Fun.(*ast.Ident); isId && f.Name == "int" {
					if s2, isSel2 := conv.Args[0].(*ast.SelectorExpr); isSel2 && s2.Sel.Name == "totalClusterWeight" {
						intnArgOK = true
					}
				}
			}
		}
		return true
	})
	if nIntn != 1 || !intnArgOK {
		ok = false
	}
	switch op {
	case "<":
		b.WriteString("Definition wc_cmp (v : Z) : bool := Z.ltb v 0.\nDefinition wc_cmp_is_lt := true.\n")
	case "<=":
		b.WriteString("Definition wc_cmp (v : Z) : bool := Z.leb v 0.\nDefinition wc_cmp_is_lt := false.\n")
	default:
		ok = false
		b.WriteString("Definition wc_cmp (v : Z) : bool := Z.ltb v 0.\nDefinition wc_cmp_is_lt := false.\n")
	}
	fmt.Fprintf(&b, "Definition SrcTokens_translator_ok := %v.\n", ok)
	fmt.Fprintf(&b, "Definition edf_requeue_asks_weightfunc := %v.\n", edfRequeueShape(repo))
	fmt.Fprintf(&b, "Definition edf_refresh_adds_every_host := %v.\n", edfRefreshShape(repo))
	return b.String(), nil
}

// edfRefreshShape: EdfLoadBalancer.refresh queues EVERY host of the host set, whatever its health
// (Model/EdfHealth.v): the only Add call of refresh is the single statement of the hosts.Range callback besides
// `return true`, not under any condition; and ChooseHost takes up to `total` scheduler picks, returning the first
// healthy candidate.
func edfRefreshShape(repo string) bool {
	_, f, err := ParseGoFile(repo, "pkg/upstream/cluster/loadbalancer.go")
	if err != nil {
		return false
	}
	fd := FindFunc(f, "EdfLoadBalancer", "refresh")
	ch := FindFunc(f, "EdfLoadBalancer", "ChooseHost")
	if fd == nil || ch == nil {
		return false
	}
	str := func(n ast.Node) string {
		var sb strings.Builder
		printer.Fprint(&sb, token.NewFileSet(), n)
		return strings.Join(strings.Fields(sb.String()), " ")
	}
	nAdd, shapeOK := 0, false
	ast.Inspect(fd.Body, func(n ast.Node) bool {
		if ce, ok := n.(*ast.CallExpr); ok {
			if se, ok := ce.Fun.(*ast.SelectorExpr); ok && se.Sel.Name == "Add" {
				nAdd++
			}
			if se, ok := ce.Fun.(*ast.SelectorExpr); ok && se.Sel.Name == "Range" && len(ce.Args) == 1 {
				if fl, ok := ce.Args[0].(*ast.FuncLit); ok && len(fl.Body.List) == 2 {
					a := str(fl.Body.List[0])
					b := str(fl.Body.List[1])
					shapeOK = a == "lb.scheduler.Add(host, lb.hostWeightFunc(host))" && b == "return true"
				}
			}
		}
		return true
	})
	// ChooseHost: `for i := 0; i < total; i++ { candidate = lb.scheduler.NextAndPush(lb.hostWeightFunc).(types.Host); if candidate != nil && candidate.Health() { return candidate } }`
	loopOK := false
	ast.Inspect(ch.Body, func(n ast.Node) bool {
		fs, ok := n.(*ast.ForStmt)
		if !ok || fs.Cond == nil || len(fs.Body.List) != 2 {
			return true
		}
		if str(fs.Cond) == "i < total" &&
			str(fs.Body.List[0]) == "candidate = lb.scheduler.NextAndPush(lb.hostWeightFunc).(types.Host)" &&
			str(fs.Body.List[1]) == "if candidate != nil && candidate.Health() { return candidate }" {
			loopOK = true
		}
		return true
	})
	return nAdd == 1 && shapeOK && loopOK
}

// edfRequeueShape: edf.go re-queues the popped entry with the weight the weight function answers NOW
// (Model/EdfVar.v edf_pickw):  NextAndPush has `weight := weightFunc(entry.item)` and its only assignment to
// entry.deadline is `entry.deadline = entry.deadline + 1.0/weight` (or `+= 1.0/weight`); Add queues with
// `deadline: edf.currentTime + 1.0/weight`.
func edfRequeueShape(repo string) bool {
	_, f, err := ParseGoFile(repo, "pkg/upstream/cluster/edf.go")
	if err != nil {
		return false
	}
	str := func(e ast.Expr) string { return strings.ReplaceAll(types.ExprString(e), " ", "") }
	np := FindFunc(f, "edfScheduler", "NextAndPush")
	ad := FindFunc(f, "edfScheduler", "Add")
	if np == nil || ad == nil {
		return false
	}
	asks, ndl, dlOK := false, 0, false
	ast.Inspect(np.Body, func(n ast.Node) bool {
		as, ok := n.(*ast.AssignStmt)
		if !ok || len(as.Lhs) != 1 || len(as.Rhs) != 1 {
			return true
		}
		l, r := str(as.Lhs[0]), str(as.Rhs[0])
		if l == "weight" && as.Tok == token.DEFINE && r == "weightFunc(entry.item)" {
			asks = true
		} else if l == "weight" {
			asks = false
		}
		if l == "entry.deadline" {
			ndl++
			dlOK = (as.Tok == token.ASSIGN && r == "entry.deadline+1.0/weight") || (as.Tok == token.ADD_ASSIGN && r == "1.0/weight")
		}
		return true
	})
	addOK := false
	ast.Inspect(ad.Body, func(n ast.Node) bool {
		kv, ok := n.(*ast.KeyValueExpr)
		if ok && str(kv.Key) == "deadline" {
			addOK = str(kv.Value) == "edf.currentTime+1.0/weight"
		}
		return true
	})
	return asks && ndl == 1 && dlOK && addOK
}

// ---------------------------------------------------------------------------
// genHealthOps: control shape of cluster/health.go SetHealthFlag / ClearHealthFlag.
//
//	ShLoadStore : f := atomic.LoadUint64(p); f |= uint64(flag); atomic.StoreUint64(p, f)
//	ShCasLoop   : for { old := atomic.LoadUint64(p); if atomic.CompareAndSwapUint64(p, old, old|uint64(flag)) { return } }
//	ShRmw       : atomic.OrUint64(p, uint64(flag)) / atomic.AndUint64(p, ^uint64(flag))
//
// (a call `verifYield()` between the statements is ignored; a leading `if p == nil { return }` is skipped).
// Anything else => HealthOps_translator_ok := false.
func genHealthOps(repo string) (string, error) {
	_, f, err := ParseGoFile(repo, "pkg/upstream/cluster/health.go")
	if err != nil {
		return "", err
	}
	var b strings.Builder
	b.WriteString("From MV Require Import Model.Health.\n")
	ok := true
	for _, it := range []struct {
		fn, def string
		set     bool
	}{{"SetHealthFlag", "health_set_shape", true}, {"ClearHealthFlag", "health_clear_shape", false}} {
		fd := FindFunc(f, "", it.fn)
		shape := ""
		if fd != nil && fd.Body != nil {
			shape = healthShape(fd, it.set)
		}
		if shape == "" {
			ok = false
			shape = "ShLoadStore"
			fmt.Fprintf(&b, "(* %s: shape not recognised *)\n", it.fn)
		}
		fmt.Fprintf(&b, "Definition %s : shape := %s.\n", it.def, shape)
	}
	// every write of a flag word in package cluster must be one of the atomic updates inside SetHealthFlag /
	// ClearHealthFlag: no other sync/atomic write on `healthFlags` or on a word obtained from GetHealthFlagPointer
	writers, werr := healthWordWriters(repo)
	if werr != nil {
		return "", werr
	}
	if len(writers) > 0 {
		ok = false
		fmt.Fprintf(&b, "(* flag word written outside SetHealthFlag/ClearHealthFlag: %s *)\n", strings.Join(writers, ", "))
	}
	fmt.Fprintf(&b, "Definition health_word_written_only_by_set_clear := %v.\n", len(writers) == 0)
	fmt.Fprintf(&b, "Definition HealthOps_translator_ok := %v.\n", ok)
	return b.String(), nil
}

// healthWordWriters lists sync/atomic write calls (Store/Swap/Add/CompareAndSwap/Or/And on uint64) in package cluster
// that target a health flag word and are not inside SetHealthFlag / ClearHealthFlag.
func healthWordWriters(repo string) ([]string, error) {
	dir := filepath.Join(repo, "pkg/upstream/cluster")
	fset := token.NewFileSet()
	pkgs, err := parser.ParseDir(fset, dir, func(fi os.FileInfo) bool {
		n := fi.Name()
		return !strings.HasSuffix(n, "_test.go") && !strings.HasPrefix(n, "verif_hooks")
	}, 0)
	if err != nil {
		return nil, err
	}
	var out []string
	for _, pkg := range pkgs {
		for fname, f := range pkg.Files {
			for _, d := range f.Decls {
				fd, ok := d.(*ast.FuncDecl)
				if !ok || fd.Body == nil {
					continue
				}
				if fd.Recv == nil && (fd.Name.Name == "SetHealthFlag" || fd.Name.Name == "ClearHealthFlag") {
					continue
				}
				ast.Inspect(fd.Body, func(n ast.Node) bool {
					c, ok := n.(*ast.CallExpr)
					if !ok || len(c.Args) == 0 {
						return true
					}
					sel, ok := c.Fun.(*ast.SelectorExpr)
					if !ok || identName(sel.X) != "atomic" {
						return true
					}
					switch sel.Sel.Name {
					case "StoreUint64", "SwapUint64", "AddUint64", "CompareAndSwapUint64", "OrUint64", "AndUint64":
					default:
						return true
					}
					var sb strings.Builder
					printer.Fprint(&sb, fset, c.Args[0])
					arg := sb.String()
					if strings.Contains(arg, "healthFlags") || strings.Contains(arg, "GetHealthFlagPointer") {
						out = append(out, fmt.Sprintf("%s:%s %s(%s)", filepath.Base(fname), fd.Name.Name, sel.Sel.Name, arg))
					}
					return true
				})
			}
		}
	}
	sort.Strings(out)
	return out, nil
}

func isAtomicCall(e ast.Expr, name string) *ast.CallExpr {
	c, ok := e.(*ast.CallExpr)
	if !ok {
		return nil
	}
	sel, ok := c.Fun.(*ast.SelectorExpr)
	if !ok || sel.Sel.Name != name {
		return nil
	}
	if id, ok := sel.X.(*ast.Ident); !ok || id.Name != "atomic" {
		return nil
	}
	return c
}

func identName(e ast.Expr) string {
	if id, ok := e.(*ast.Ident); ok {
		return id.Name
	}
	return ""
}

// isFlagExpr: uint64(flag) (flag = the second parameter)
func isFlagExpr(e ast.Expr, flag string) bool {
	if p, ok := e.(*ast.ParenExpr); ok {
		return isFlagExpr(p.X, flag)
	}
	c, ok := e.(*ast.CallExpr)
	return ok && identName(c.Fun) == "uint64" && len(c.Args) == 1 && identName(c.Args[0]) == flag
}
func isNotFlagExpr(e ast.Expr, flag string) bool {
	if p, ok := e.(*ast.ParenExpr); ok {
		return isNotFlagExpr(p.X, flag)
	}
	u, ok := e.(*ast.UnaryExpr)
	return ok && u.Op == token.XOR && isFlagExpr(u.X, flag)
}

// isUpdateExpr: v | uint64(flag) (set) ; v &^ uint64(flag) or v & ^uint64(flag) (clear)
func isUpdateExpr(e ast.Expr, v, flag string, set bool) bool {
	if p, ok := e.(*ast.ParenExpr); ok {
		return isUpdateExpr(p.X, v, flag, set)
	}
	be, ok := e.(*ast.BinaryExpr)
	if !ok || identName(be.X) != v {
		return false
	}
	if set {
		return be.Op == token.OR && isFlagExpr(be.Y, flag)
	}
	return (be.Op == token.AND_NOT && isFlagExpr(be.Y, flag)) || (be.Op == token.AND && isNotFlagExpr(be.Y, flag))
}

func healthShape(fd *ast.FuncDecl, set bool) string {
	params := fd.Type.Params.List
	var names []string
	for _, p := range params {
		for _, n := range p.Names {
			names = append(names, n.Name)
		}
	}
	if len(names) != 2 {
		return ""
	}
	ptr, flag := names[0], names[1]
	// strip `if p == nil { return }` and verifYield() calls
	strip := func(in []ast.Stmt) []ast.Stmt {
		var out []ast.Stmt
		for i, st := range in {
			if is, ok := st.(*ast.IfStmt); ok && i == 0 && is.Init == nil && is.Else == nil && len(is.Body.List) == 1 {
				if be, ok := is.Cond.(*ast.BinaryExpr); ok && be.Op == token.EQL && identName(be.X) == ptr && identName(be.Y) == "nil" {
					if rs, ok := is.Body.List[0].(*ast.ReturnStmt); ok && len(rs.Results) == 0 {
						continue
					}
				}
			}
			if es, ok := st.(*ast.ExprStmt); ok {
				if c, ok := es.X.(*ast.CallExpr); ok && identName(c.Fun) == "verifYield" && len(c.Args) == 0 {
					continue
				}
			}
			out = append(out, st)
		}
		return out
	}
	// v := atomic.LoadUint64(p)
	loadVar := func(st ast.Stmt) string {
		as, ok := st.(*ast.AssignStmt)
		if !ok || as.Tok != token.DEFINE || len(as.Lhs) != 1 || len(as.Rhs) != 1 {
			return ""
		}
		c := isAtomicCall(as.Rhs[0], "LoadUint64")
		if c == nil || len(c.Args) != 1 || identName(c.Args[0]) != ptr {
			return ""
		}
		return identName(as.Lhs[0])
	}
	body := strip(fd.Body.List)
	switch len(body) {
	case 1:
		// ShRmw
		if es, ok := body[0].(*ast.ExprStmt); ok {
			if set {
				if c := isAtomicCall(es.X, "OrUint64"); c != nil && len(c.Args) == 2 && identName(c.Args[0]) == ptr && isFlagExpr(c.Args[1], flag) {
					return "ShRmw"
				}
			} else {
				if c := isAtomicCall(es.X, "AndUint64"); c != nil && len(c.Args) == 2 && identName(c.Args[0]) == ptr && isNotFlagExpr(c.Args[1], flag) {
					return "ShRmw"
				}
			}
			return ""
		}
		// ShCasLoop
		fs, ok := body[0].(*ast.ForStmt)
		if !ok || fs.Init != nil || fs.Cond != nil || fs.Post != nil {
			return ""
		}
		lb := strip(append([]ast.Stmt{&ast.EmptyStmt{}}, fs.Body.List...))[1:]
		if len(lb) != 2 {
			return ""
		}
		v := loadVar(lb[0])
		is, ok := lb[1].(*ast.IfStmt)
		if v == "" || !ok || is.Init != nil || is.Else != nil || len(is.Body.List) != 1 {
			return ""
		}
		if rs, ok := is.Body.List[0].(*ast.ReturnStmt); !ok || len(rs.Results) != 0 {
			return ""
		}
		c := isAtomicCall(is.Cond, "CompareAndSwapUint64")
		if c == nil || len(c.Args) != 3 || identName(c.Args[0]) != ptr || identName(c.Args[1]) != v || !isUpdateExpr(c.Args[2], v, flag, set) {
			return ""
		}
		return "ShCasLoop"
	case 3:
		// ShLoadStore
		v := loadVar(body[0])
		if v == "" {
			return ""
		}
		as, ok := body[1].(*ast.AssignStmt)
		if !ok || len(as.Lhs) != 1 || len(as.Rhs) != 1 || identName(as.Lhs[0]) != v {
			return ""
		}
		switch {
		case set && as.Tok == token.OR_ASSIGN && isFlagExpr(as.Rhs[0], flag):
		case !set && as.Tok == token.AND_NOT_ASSIGN && isFlagExpr(as.Rhs[0], flag):
		case !set && as.Tok == token.AND_ASSIGN && isNotFlagExpr(as.Rhs[0], flag):
		case as.Tok == token.ASSIGN && isUpdateExpr(as.Rhs[0], v, flag, set):
		default:
			return ""
		}
		es, ok := body[2].(*ast.ExprStmt)
		if !ok {
			return ""
		}
		c := isAtomicCall(es.X, "StoreUint64")
		if c == nil || len(c.Args) != 2 || identName(c.Args[0]) != ptr || identName(c.Args[1]) != v {
			return ""
		}
		return "ShLoadStore"
	}
	return ""
}

// ---------------------------------------------------------------------------
// genLBTokens: does the "power of `choice` picks" fallback of the least-request / least-connection balancers
// test Health()?  The text of the two functions (comments dropped, gofmt layout) is compared with the two
// known shapes: the loop as it was (no health test) and the repaired loop (skip unhealthy samples, then
// firstHealthyHost from a random position).  Any other text => LBTokens_translator_ok := false.
func funcText(repo, rel, recv, name string) (string, error) {
	fset, f, err := ParseGoFile(repo, rel)
	if err != nil {
		return "", err
	}
	fd := FindFunc(f, recv, name)
	if fd == nil {
		return "", nil
	}
	var sb strings.Builder
	if err := printer.Fprint(&sb, fset, fd.Body); err != nil {
		return "", err
	}
	return sb.String(), nil
}

func leastLoopText(aware bool, stat string) string {
	s := "{\n\ths := lb.hosts\n\ttotal := hs.Size()\n\tlb.mutex.Lock()\n\tdefer lb.mutex.Unlock()\n\tvar candidate types.Host\n\n\tfor cur := 0; cur < int(lb.choice); cur++ {\n\n\t\trandIdx := lb.rand.Intn(total)\n\t\ttempHost := hs.Get(randIdx)\n"
	if aware {
		s += "\t\tif !tempHost.Health() {\n\t\t\tcontinue\n\t\t}\n"
	}
	s += "\t\tif candidate == nil {\n\t\t\tcandidate = tempHost\n\t\t\tcontinue\n\t\t}\n\t\tif candidate.HostStats()." + stat + ".Count() > tempHost.HostStats()." + stat + ".Count() {\n\t\t\tcandidate = tempHost\n\t\t}\n\t}\n"
	if aware {
		s += "\tif candidate == nil {\n\n\t\tcandidate = firstHealthyHost(hs, lb.rand.Intn(total))\n\t}\n"
	}
	s += "\treturn candidate\n\n}"
	return s
}

const firstHealthyHostText = "{\n\ttotal := hs.Size()\n\tfor i := 0; i < total; i++ {\n\t\thost := hs.Get((start + i) % total)\n\t\tif host.Health() {\n\t\t\treturn host\n\t\t}\n\t}\n\treturn nil\n}"

func normText(s string) string {
	// drop blank lines (the printer keeps the blank lines left by dropped comments)
	var out []string
	for _, l := range strings.Split(s, "\n") {
		if strings.TrimSpace(l) != "" {
			out = append(out, l)
		}
	}
	return strings.Join(out, "\n")
}

func genLBTokens(repo string) (string, error) {
	var b strings.Builder
	ok := true
	fh, err := funcText(repo, "pkg/upstream/cluster/loadbalancer.go", "", "firstHealthyHost")
	if err != nil {
		return "", err
	}
	for _, it := range []struct{ file, recv, stat, def string }{
		{"pkg/upstream/cluster/loadbalancer.go", "leastActiveRequestLoadBalancer", "UpstreamRequestActive", "lr_fallback_aware"},
		{"pkg/upstream/cluster/lb_leastconnection.go", "leastActiveConnectionLoadBalancer", "UpstreamConnectionActive", "lc_fallback_aware"},
	} {
		txt, err := funcText(repo, it.file, it.recv, "unweightChooseHost")
		if err != nil {
			return "", err
		}
		switch normText(txt) {
		case normText(leastLoopText(false, it.stat)):
			fmt.Fprintf(&b, "Definition %s := false.\n", it.def)
		case normText(leastLoopText(true, it.stat)):
			fmt.Fprintf(&b, "Definition %s := true.\n", it.def)
			if normText(fh) != normText(firstHealthyHostText) {
				ok = false
				b.WriteString("(* firstHealthyHost: text not recognised *)\n")
			}
		default:
			ok = false
			fmt.Fprintf(&b, "(* %s.unweightChooseHost: text not recognised *)\nDefinition %s := false.\n", it.recv, it.def)
		}
	}
	fmt.Fprintf(&b, "Definition LBTokens_translator_ok := %v.\n", ok)
	return b.String(), nil
}

// ---------------------------------------------------------------------------
// genHealthLoop: where does sessionChecker.Start advance the awaited check id?
//
//	IdLoopTop  : `currentID := atomic.AddUint64(&c.checkID, 1)` is the first statement of the `default:` branch of
//	             the loop (every iteration, also after an ignored response); OnCheck loads the id
//	IdOnResult : one AddUint64 before the loop, one in the `if resp.ID == currentID` body, one in the
//	             `<-c.timeout` branch, none elsewhere; OnCheck loads the id
//
// Anything else (e.g. the id allocated in OnCheck) => HealthLoop_translator_ok := false.
func isCheckIDCall(e ast.Expr, fn string) bool {
	c := isAtomicCall(e, fn)
	if c == nil || len(c.Args) < 1 {
		return false
	}
	u, ok := c.Args[0].(*ast.UnaryExpr)
	if !ok || u.Op != token.AND {
		return false
	}
	sel, ok := u.X.(*ast.SelectorExpr)
	return ok && sel.Sel.Name == "checkID"
}

func countCheckIDAdds(n ast.Node) int {
	cnt := 0
	if n == nil {
		return 0
	}
	ast.Inspect(n, func(x ast.Node) bool {
		if e, ok := x.(ast.Expr); ok && isCheckIDCall(e, "AddUint64") {
			cnt++
		}
		return true
	})
	return cnt
}

func isAddAssign(st ast.Stmt) bool {
	as, ok := st.(*ast.AssignStmt)
	return ok && len(as.Rhs) == 1 && isCheckIDCall(as.Rhs[0], "AddUint64")
}

func genHealthLoop(repo string) (string, error) {
	_, f, err := ParseGoFile(repo, "pkg/upstream/healthcheck/session_checker.go")
	if err != nil {
		return "", err
	}
	var b strings.Builder
	b.WriteString("From MV Require Import Model.HealthLoop.\n")
	fail := func(why string) (string, error) {
		fmt.Fprintf(&b, "(* %s *)\nDefinition hl_idmode : idmode := IdLoopTop.\nDefinition HealthLoop_translator_ok := false.\n", why)
		return b.String(), nil
	}
	start := FindFunc(f, "sessionChecker", "Start")
	onCheck := FindFunc(f, "sessionChecker", "OnCheck")
	if start == nil || onCheck == nil {
		return fail("Start / OnCheck not found")
	}
	// OnCheck: loads the id, never allocates one
	loads := 0
	ast.Inspect(onCheck.Body, func(x ast.Node) bool {
		if e, ok := x.(ast.Expr); ok && isCheckIDCall(e, "LoadUint64") {
			loads++
		}
		return true
	})
	if countCheckIDAdds(onCheck.Body) != 0 || loads != 1 {
		return fail("OnCheck does not simply load the check id")
	}
	var loop *ast.ForStmt
	preAdd := 0
	for _, st := range start.Body.List {
		if fs, ok := st.(*ast.ForStmt); ok {
			loop = fs
			break
		}
		if isAddAssign(st) {
			preAdd++
		}
	}
	if loop == nil || loop.Cond != nil || len(loop.Body.List) != 1 {
		return fail("loop shape not recognised")
	}
	outer, ok := loop.Body.List[0].(*ast.SelectStmt)
	if !ok {
		return fail("outer select not found")
	}
	var dflt *ast.CommClause
	for _, cl := range outer.Body.List {
		if cc := cl.(*ast.CommClause); cc.Comm == nil {
			dflt = cc
		}
	}
	if dflt == nil || len(dflt.Body) == 0 {
		return fail("default branch not found")
	}
	loopTop := isAddAssign(dflt.Body[0])
	var inner *ast.SelectStmt
	for _, st := range dflt.Body {
		if s, ok := st.(*ast.SelectStmt); ok {
			inner = s
		}
	}
	if inner == nil {
		return fail("inner select not found")
	}
	matchAdds, elseAdds, timeoutAdds, seenResp, seenTimeout := 0, 0, 0, false, false
	for _, cl := range inner.Body.List {
		cc := cl.(*ast.CommClause)
		var ch string
		switch c := cc.Comm.(type) {
		case *ast.AssignStmt:
			if u, ok := c.Rhs[0].(*ast.UnaryExpr); ok && u.Op == token.ARROW {
				if sel, ok := u.X.(*ast.SelectorExpr); ok {
					ch = sel.Sel.Name
				}
			}
		case *ast.ExprStmt:
			if u, ok := c.X.(*ast.UnaryExpr); ok && u.Op == token.ARROW {
				if sel, ok := u.X.(*ast.SelectorExpr); ok {
					ch = sel.Sel.Name
				}
			}
		}
		switch ch {
		case "resp":
			seenResp = true
			if len(cc.Body) != 1 {
				return fail("response branch shape not recognised")
			}
			is, ok := cc.Body[0].(*ast.IfStmt)
			if !ok {
				return fail("response branch shape not recognised")
			}
			be, ok := is.Cond.(*ast.BinaryExpr)
			if !ok || be.Op != token.EQL {
				return fail("response id comparison not recognised")
			}
			matchAdds = countCheckIDAdds(is.Body)
			if is.Else != nil {
				elseAdds = countCheckIDAdds(is.Else)
			}
		case "timeout":
			seenTimeout = true
			for _, st := range cc.Body {
				timeoutAdds += countCheckIDAdds(st)
			}
		}
	}
	if !seenResp || !seenTimeout {
		return fail("response / timeout branches not found")
	}
	total := countCheckIDAdds(start.Body)
	switch {
	case preAdd == 0 && loopTop && matchAdds == 0 && elseAdds == 0 && timeoutAdds == 0 && total == 1:
		b.WriteString("Definition hl_idmode : idmode := IdLoopTop.\n")
	case preAdd == 1 && !loopTop && matchAdds == 1 && elseAdds == 0 && timeoutAdds == 1 && total == 3:
		b.WriteString("Definition hl_idmode : idmode := IdOnResult.\n")
	default:
		return fail(fmt.Sprintf("check id allocation not recognised (before loop %d, loop top %v, match %d, else %d, timeout %d, total %d)", preAdd, loopTop, matchAdds, elseAdds, timeoutAdds, total))
	}
	b.WriteString("Definition HealthLoop_translator_ok := true.\n")
	return b.String(), nil
}

// ---------------------------------------------------------------------------
// genRRTokens: the index expression of the second (issue 1663) pass of roundRobinLoadBalancer.ChooseHost.
// The printed function body (comments dropped) is compared with the two known shapes:
//
//	SPReduced : secondStartIndex := int(atomic.AddUint32(&lb.rrIndex, 1) % uint32(total)); index := (i + secondStartIndex) % total
//	SPRaw     : secondStartIndex := atomic.AddUint32(&lb.rrIndex, 1); index := (secondStartIndex + uint32(i)) % uint32(total)
//
// Any other text => RRTokens_translator_ok := false.
func rrChooseText(raw bool) string {
	s := "{\n\ths := lb.hosts\n\ttotal := hs.Size()\n\tif total == 0 {\n\t\treturn nil\n\t}\n\tfor i := 0; i < total; i++ {\n\t\tindex := atomic.AddUint32(&lb.rrIndex, 1) % uint32(total)\n\t\thost := hs.Get(int(index))\n\t\tif host.Health() {\n\t\t\treturn host\n\t\t}\n\t}\n"
	if raw {
		s += "\tsecondStartIndex := atomic.AddUint32(&lb.rrIndex, 1)\n\tfor i := 0; i < total; i++ {\n\t\tindex := (secondStartIndex + uint32(i)) % uint32(total)\n\t\thost := hs.Get(int(index))\n"
	} else {
		s += "\tsecondStartIndex := int(atomic.AddUint32(&lb.rrIndex, 1) % uint32(total))\n\tfor i := 0; i < total; i++ {\n\t\tindex := (i + secondStartIndex) % total\n\t\thost := hs.Get(index)\n"
	}
	s += "\t\tif host.Health() {\n\t\t\treturn host\n\t\t}\n\t}\n\treturn nil\n}"
	return s
}

func genRRTokens(repo string) (string, error) {
	txt, err := funcText(repo, "pkg/upstream/cluster/loadbalancer.go", "roundRobinLoadBalancer", "ChooseHost")
	if err != nil {
		return "", err
	}
	var b strings.Builder
	b.WriteString("From MV Require Import Model.RRConc.\n")
	switch normText(txt) {
	case normText(rrChooseText(false)):
		b.WriteString("Definition rr_second_pass : sp_variant := SPReduced.\nDefinition RRTokens_translator_ok := true.\n")
	case normText(rrChooseText(true)):
		b.WriteString("Definition rr_second_pass : sp_variant := SPRaw.\nDefinition RRTokens_translator_ok := true.\n")
	default:
		b.WriteString("(* roundRobinLoadBalancer.ChooseHost: text not recognised *)\nDefinition rr_second_pass : sp_variant := SPReduced.\nDefinition RRTokens_translator_ok := false.\n")
	}
	return b.String(), nil
}

// ---------------------------------------------------------------------------
// genHealthStoreOps: which operations does package cluster perform on the per-address store `healthStore`?
// Every non-test, non-verif file of pkg/upstream/cluster is parsed; every occurrence of the identifier healthStore
// must be its declaration or the receiver of a method call.
//
//	only LoadOrStore / Load           => StoreAppendOnly
//	additionally Delete               => StoreReleaseZero (entries can disappear while host objects hold the word)
//	anything else (Store, Range, Swap, CompareAndSwap, LoadAndDelete, the variable passed around or re-assigned)
//	                                  => HealthStoreOps_translator_ok := false
func genHealthStoreOps(repo string) (string, error) {
	dir := filepath.Join(repo, "pkg/upstream/cluster")
	fset := token.NewFileSet()
	pkgs, err := parser.ParseDir(fset, dir, func(fi os.FileInfo) bool {
		n := fi.Name()
		return !strings.HasSuffix(n, "_test.go") && !strings.HasPrefix(n, "verif_hooks")
	}, 0)
	if err != nil {
		return "", err
	}
	methods := map[string]int{}
	other := 0
	decls := 0
	for _, pkg := range pkgs {
		for _, f := range pkg.Files {
			recv := map[*ast.Ident]bool{}
			ast.Inspect(f, func(n ast.Node) bool {
				switch x := n.(type) {
				case *ast.CallExpr:
					if sel, ok := x.Fun.(*ast.SelectorExpr); ok {
						if id, ok := sel.X.(*ast.Ident); ok && id.Name == "healthStore" {
							methods[sel.Sel.Name]++
							recv[id] = true
						}
					}
				case *ast.ValueSpec:
					for _, nm := range x.Names {
						if nm.Name == "healthStore" {
							decls++
							recv[nm] = true
						}
					}
				}
				return true
			})
			ast.Inspect(f, func(n ast.Node) bool {
				if id, ok := n.(*ast.Ident); ok && id.Name == "healthStore" && !recv[id] {
					other++
				}
				return true
			})
		}
	}
	var b strings.Builder
	b.WriteString("From MV Require Import Model.HealthStore.\n")
	names := make([]string, 0, len(methods))
	for m := range methods {
		names = append(names, m)
	}
	sort.Strings(names)
	fmt.Fprintf(&b, "(* methods called on healthStore: %s *)\n", strings.Join(names, ", "))
	ok := decls == 1 && other == 0 && methods["LoadOrStore"] > 0
	mode := "StoreAppendOnly"
	for _, m := range names {
		switch m {
		case "LoadOrStore", "Load":
		case "Delete":
			mode = "StoreReleaseZero"
		default:
			ok = false
		}
	}
	fmt.Fprintf(&b, "Definition hs_mode : store_mode := %s.\nDefinition HealthStoreOps_translator_ok := %v.\n", mode, ok)
	return b.String(), nil
}

// ---------------------------------------------------------------------------
// genSubsetTokens: the shape of subsetLoadBalancerBuilder.filterHosts (pre-indexed subset builder).
//
//	FHAllPairs    : a pair whose key or value is not in the index => no host; intersection of the sets of ALL pairs
//	FHSkipUnknown : pairs that are not in the index are skipped (the "smallest set first" rewrite)
//
// The printed function body is compared with the two known texts; any other text => not ok.
const filterHostsHead = "{\n\tif len(kvs) == 0 {\n\t\tret := make([]types.Host, 0, b.hosts.Size())\n\t\tb.hosts.Range(func(host types.Host) bool {\n\t\t\tret = append(ret, host)\n\t\t\treturn true\n\t\t})\n\t\treturn ret\n\t}\n"
const filterHostsAllPairs = filterHostsHead + "\tvar curSet *intsets.Sparse\n\tfor _, kv := range kvs {\n\t\tkey := kv.T1\n\t\tval := kv.T2\n\t\tvalueMap, ok := b.indexer[key]\n\t\tif !ok {\n\t\t\treturn make([]types.Host, 0)\n\t\t}\n\t\tset, ok := valueMap[val]\n\t\tif !ok {\n\t\t\treturn make([]types.Host, 0)\n\t\t}\n\t\tif curSet == nil {\n\t\t\tcurSet = &intsets.Sparse{}\n\t\t\tcurSet.Copy(set)\n\t\t} else {\n\t\t\tcurSet.IntersectionWith(set)\n\t\t}\n\t}\n\treturn b.selectHosts(curSet)\n}"
const filterHostsSkipUnknown = filterHostsHead + "\tsets := make([]*intsets.Sparse, 0, len(kvs))\n\tfor _, kv := range kvs {\n\t\tif set, ok := b.indexer[kv.T1][kv.T2]; ok {\n\t\t\tsets = append(sets, set)\n\t\t}\n\t}\n\tif len(sets) == 0 {\n\t\treturn make([]types.Host, 0)\n\t}\n\tsort.Slice(sets, func(i, j int) bool {\n\t\treturn sets[i].Len() < sets[j].Len()\n\t})\n\tcurSet := &intsets.Sparse{}\n\tcurSet.Copy(sets[0])\n\tfor _, set := range sets[1:] {\n\t\tif curSet.IsEmpty() {\n\t\t\tbreak\n\t\t}\n\t\tcurSet.IntersectionWith(set)\n\t}\n\treturn b.selectHosts(curSet)\n}"

func genSubsetTokens(repo string) (string, error) {
	txt, err := funcText(repo, "pkg/upstream/cluster/subset_loadbalancer_builder.go", "subsetLoadBalancerBuilder", "filterHosts")
	if err != nil {
		return "", err
	}
	var b strings.Builder
	b.WriteString("From MV Require Import Model.Subset.\n")
	switch normText(txt) {
	case normText(filterHostsAllPairs):
		b.WriteString("Definition fh_mode : fh_shape := FHAllPairs.\nDefinition SubsetTokens_translator_ok := true.\n")
	case normText(filterHostsSkipUnknown):
		b.WriteString("Definition fh_mode : fh_shape := FHSkipUnknown.\nDefinition SubsetTokens_translator_ok := true.\n")
	default:
		b.WriteString("(* filterHosts: text not recognised *)\nDefinition fh_mode : fh_shape := FHAllPairs.\nDefinition SubsetTokens_translator_ok := false.\n")
	}
	return b.String(), nil
}

// ---------------------------------------------------------------------------
// genHostSetTokens: does AppendSimpleHostHandler publish a host set that is distinct by address?
//
//	true  : hosts = new objects ++ old hosts, published through NewHostSet (the text in the tree)
//	false : hosts = new objects ++ old hosts whose address is not appended, published through NewNoDistinctHostSet
//
// NewSimpleHostHandler and RemoveClusterHosts must publish through NewHostSet; any other text => not ok.
const appendHandlerTail = "\tif snap.ClusterInfo().SlowStart().Mode != \"\" {\n\t\ttransferHostSetStates(snap.HostSet(), ns)\n\t}\n\tc.UpdateHosts(ns)\n}"
const appendHandlerDistinct = "{\n\tsnap := c.Snapshot()\n\thosts := make([]types.Host, 0, len(hostConfigs))\n\tfor _, hc := range hostConfigs {\n\t\thosts = append(hosts, NewSimpleHost(hc, snap.ClusterInfo()))\n\t}\n\tsnap.HostSet().Range(func(host types.Host) bool {\n\t\thosts = append(hosts, host)\n\t\treturn true\n\t})\n\tns := NewHostSet(hosts)\n" + appendHandlerTail
const appendHandlerNoDistinct = "{\n\tsnap := c.Snapshot()\n\toldHosts := snap.HostSet()\n\thosts := make([]types.Host, 0, len(hostConfigs)+oldHosts.Size())\n\tappended := make(map[string]struct{}, len(hostConfigs))\n\tfor _, hc := range hostConfigs {\n\t\thosts = append(hosts, NewSimpleHost(hc, snap.ClusterInfo()))\n\t\tappended[hc.Address] = struct{}{}\n\t}\n\toldHosts.Range(func(host types.Host) bool {\n\t\tif _, replaced := appended[host.AddressString()]; !replaced {\n\t\t\thosts = append(hosts, host)\n\t\t}\n\t\treturn true\n\t})\n\tns := NewNoDistinctHostSet(hosts)\n" + appendHandlerTail

func genHostSetTokens(repo string) (string, error) {
	const file = "pkg/upstream/cluster/cluster_manager.go"
	app, err := funcText(repo, file, "", "AppendSimpleHostHandler")
	if err != nil {
		return "", err
	}
	upd, _ := funcText(repo, file, "", "NewSimpleHostHandler")
	rem, _ := funcText(repo, file, "clusterManager", "RemoveClusterHosts")
	var b strings.Builder
	ok := strings.Contains(upd, "ns := NewHostSet(hosts)") && !strings.Contains(upd, "NewNoDistinctHostSet") &&
		strings.Contains(rem, "c.UpdateHosts(NewHostSet(sortedHosts))") && !strings.Contains(rem, "NewNoDistinctHostSet")
	switch normText(app) {
	case normText(appendHandlerDistinct):
		b.WriteString("Definition hs_append_distinct := true.\n")
	case normText(appendHandlerNoDistinct):
		b.WriteString("Definition hs_append_distinct := false.\n")
	default:
		ok = false
		b.WriteString("(* AppendSimpleHostHandler: text not recognised *)\nDefinition hs_append_distinct := true.\n")
	}
	fmt.Fprintf(&b, "Definition HostSetTokens_translator_ok := %v.\n", ok)
	return b.String(), nil
}

// ---------------------------------------------------------------------------
// genCriteriaTokens: how does downStream.MetadataMatchCriteria (pkg/proxy/downstream.go) produce the criteria of a
// request that carries dynamic metadata?
//
//	CritFresh        : route pairs whose key the request does not name are added to the request's map and a NEW object
//	                   is built with router.NewMetadataMatchCriteriaImpl (the text in the tree)
//	CritMergeInPlace : routerMeta.MergeMatchCriteria(varMeta) - writes into the route's shared object
//
// Any other text => not ok.
const critHead = "{\n\tvar varMeta map[string]string\n\tif v, err := variable.Get(s.context, types.VarRouterMeta); err == nil && v != nil {\n\t\tif m, ok := v.(map[string]string); ok {\n\t\t\tvarMeta = m\n\t\t}\n\t}\n\tvar routerMeta api.MetadataMatchCriteria\n\tif s.requestInfo.RouteEntry() != nil {\n\t\trouterMeta = s.requestInfo.RouteEntry().MetadataMatchCriteria(s.cluster.Name())\n\t}\n\tif varMeta == nil {\n\t\treturn routerMeta\n\t}\n"
const critFresh = critHead + "\tif routerMeta != nil {\n\t\tfor _, kv := range routerMeta.MetadataMatchCriteria() {\n\t\t\tif _, ok := varMeta[kv.MetadataKeyName()]; !ok {\n\t\t\t\tvarMeta[kv.MetadataKeyName()] = kv.MetadataValue()\n\t\t\t}\n\t\t}\n\t}\n\treturn router.NewMetadataMatchCriteriaImpl(varMeta)\n}"
const critInPlace = critHead + "\tif routerMeta == nil {\n\t\treturn router.NewMetadataMatchCriteriaImpl(varMeta)\n\t}\n\treturn routerMeta.MergeMatchCriteria(varMeta)\n}"

func genCriteriaTokens(repo string) (string, error) {
	txt, err := funcText(repo, "pkg/proxy/downstream.go", "downStream", "MetadataMatchCriteria")
	if err != nil {
		return "", err
	}
	var b strings.Builder
	b.WriteString("From MV Require Import Model.Criteria.\n")
	switch normText(txt) {
	case normText(critFresh):
		b.WriteString("Definition crit_mode : crit_shape := CritFresh.\nDefinition CriteriaTokens_translator_ok := true.\n")
	case normText(critInPlace):
		b.WriteString("Definition crit_mode : crit_shape := CritMergeInPlace.\nDefinition CriteriaTokens_translator_ok := true.\n")
	default:
		b.WriteString("(* downStream.MetadataMatchCriteria: text not recognised *)\nDefinition crit_mode : crit_shape := CritFresh.\nDefinition CriteriaTokens_translator_ok := false.\n")
	}
	return b.String(), nil
}

// ---------------------------------------------------------------------------
// genHealthXferTokens: what does transferHostSetStates (cluster_manager.go, host replacement at the same address in a
// slow-start cluster) do with health flags?
//
//	XferNone        : only LastHealthCheckPassTime is carried over (the text in the tree)
//	XferReadThenSet : additionally `if flags := h.HealthFlag(); flags != 0 { host.SetHealthFlag(flags) }`
//
// Any other text => not ok.
const xferHead = "{\n\tif ns.Size() == 0 {\n\t\treturn\n\t}\n\toldHosts := make(map[string]types.Host, os.Size())\n\tos.Range(func(host types.Host) bool {\n\t\toldHosts[host.AddressString()] = host\n\t\treturn true\n\t})\n\tnow := time.Now()\n\tns.Range(func(host types.Host) bool {\n\t\tif h, ok := oldHosts[host.AddressString()]; ok {\n\t\t\thost.SetLastHealthCheckPassTime(h.LastHealthCheckPassTime())\n"
const xferTail = "\t\t} else {\n\t\t\thost.SetLastHealthCheckPassTime(now)\n\t\t}\n\t\treturn true\n\t})\n}"
const xferReadThenSet = "\t\t\tif flags := h.HealthFlag(); flags != 0 {\n\t\t\t\thost.SetHealthFlag(flags)\n\t\t\t}\n"

func genHealthXferTokens(repo string) (string, error) {
	txt, err := funcText(repo, "pkg/upstream/cluster/cluster_manager.go", "", "transferHostSetStates")
	if err != nil {
		return "", err
	}
	var b strings.Builder
	b.WriteString("From MV Require Import Model.HealthTransfer.\n")
	switch normText(txt) {
	case normText(xferHead + xferTail):
		b.WriteString("Definition xfer_mode : xfer_shape := XferNone.\nDefinition HealthXferTokens_translator_ok := true.\n")
	case normText(xferHead + xferReadThenSet + xferTail):
		b.WriteString("Definition xfer_mode : xfer_shape := XferReadThenSet.\nDefinition HealthXferTokens_translator_ok := true.\n")
	default:
		b.WriteString("(* transferHostSetStates: text not recognised *)\nDefinition xfer_mode : xfer_shape := XferNone.\nDefinition HealthXferTokens_translator_ok := false.\n")
	}
	return b.String(), nil
}

// ---------------------------------------------------------------------------
// genHealthLifecycleTokens: what does healthChecker.stopCheck (pkg/upstream/healthcheck/healthchecker.go) do with the
// health flag of the host whose session is stopped?
//
//	StopKeeps  : nothing (the text in the tree)
//	StopClears : it clears FAILED_ACTIVE_HC when it is set
//
// Any other text => not ok.
const stopCheckHead = "{\n\taddr := host.AddressString()\n\tif c, ok := hc.checkers[addr]; ok {\n\t\tc.Stop()\n\t\tdelete(hc.checkers, addr)\n"
const stopCheckTail = "\t\tif log.DefaultLogger.GetLogLevel() >= log.INFO {\n\t\t\tlog.DefaultLogger.Infof(\"[upstream] [health check] remove a health check session for %s\", addr)\n\t\t}\n\t}\n}"
const stopCheckKeeps = stopCheckHead + "\t\tatomic.AddInt64(&hc.localProcessHealthy, ^int64(0))\n" + stopCheckTail
const stopCheckClears = stopCheckHead + "\t\tif c.Host.ContainHealthFlag(api.FAILED_ACTIVE_HC) {\n\t\t\tc.Host.ClearHealthFlag(api.FAILED_ACTIVE_HC)\n\t\t} else {\n\t\t\tatomic.AddInt64(&hc.localProcessHealthy, ^int64(0))\n\t\t}\n" + stopCheckTail

func genHealthLifecycleTokens(repo string) (string, error) {
	txt, err := funcText(repo, "pkg/upstream/healthcheck/healthchecker.go", "healthChecker", "stopCheck")
	if err != nil {
		return "", err
	}
	var b strings.Builder
	b.WriteString("From MV Require Import Model.HealthLifecycle.\n")
	switch normText(txt) {
	case normText(stopCheckKeeps):
		b.WriteString("Definition stop_mode : stop_shape := StopKeeps.\nDefinition HealthLifecycleTokens_translator_ok := true.\n")
	case normText(stopCheckClears):
		b.WriteString("Definition stop_mode : stop_shape := StopClears.\nDefinition HealthLifecycleTokens_translator_ok := true.\n")
	default:
		b.WriteString("(* healthChecker.stopCheck: text not recognised *)\nDefinition stop_mode : stop_shape := StopKeeps.\nDefinition HealthLifecycleTokens_translator_ok := false.\n")
	}
	return b.String(), nil
}

// ---------------------------------------------------------------------------
// genHostUpdateTokens: does NewSimpleHostHandler (the full host update) build EVERY host object from the new config?
//
//	ReuseNever          : hosts = NewSimpleHost(hc, info) for every config (the text in the tree)
//	ReuseIfLabelsSubset : the object of an address is kept when hostConfigUnchanged(host.Config(), hc)
//
// Any other text => not ok.
const updHandlerTail = "\tns := NewHostSet(hosts)\n\tif snap.ClusterInfo().SlowStart().Mode != \"\" {\n\t\ttransferHostSetStates(snap.HostSet(), ns)\n\t}\n\tc.UpdateHosts(ns)\n}"
const updHandlerNever = "{\n\tsnap := c.Snapshot()\n\thosts := make([]types.Host, 0, len(hostConfigs))\n\tfor _, hc := range hostConfigs {\n\t\thosts = append(hosts, NewSimpleHost(hc, snap.ClusterInfo()))\n\t}\n" + updHandlerTail
const updHandlerReuse = "{\n\tsnap := c.Snapshot()\n\tcurrent := make(map[string]types.Host, snap.HostSet().Size())\n\tsnap.HostSet().Range(func(host types.Host) bool {\n\t\tcurrent[host.AddressString()] = host\n\t\treturn true\n\t})\n\thosts := make([]types.Host, 0, len(hostConfigs))\n\tfor _, hc := range hostConfigs {\n\t\tif host, ok := current[hc.Address]; ok && hostConfigUnchanged(host.Config(), hc) {\n\t\t\thosts = append(hosts, host)\n\t\t\tcontinue\n\t\t}\n\t\thosts = append(hosts, NewSimpleHost(hc, snap.ClusterInfo()))\n\t}\n" + updHandlerTail

func genHostUpdateTokens(repo string) (string, error) {
	txt, err := funcText(repo, "pkg/upstream/cluster/cluster_manager.go", "", "NewSimpleHostHandler")
	if err != nil {
		return "", err
	}
	var b strings.Builder
	b.WriteString("From MV Require Import Model.HostUpdate.\n")
	switch normText(txt) {
	case normText(updHandlerNever):
		b.WriteString("Definition reuse_mode : reuse_shape := ReuseNever.\nDefinition HostUpdateTokens_translator_ok := true.\n")
	case normText(updHandlerReuse):
		b.WriteString("Definition reuse_mode : reuse_shape := ReuseIfLabelsSubset.\nDefinition HostUpdateTokens_translator_ok := true.\n")
	default:
		b.WriteString("(* NewSimpleHostHandler: text not recognised *)\nDefinition reuse_mode : reuse_shape := ReuseNever.\nDefinition HostUpdateTokens_translator_ok := false.\n")
	}
	return b.String(), nil
}
