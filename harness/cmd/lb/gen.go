package main

// Translators of the group `lb` (weights, load balancers, health).

import (
	"fmt"
	"go/ast"
	"go/token"
	"strings"

	. "vh/vhlib"
)

var gens = map[string]GenFn{"SrcTokens": genSrcTokens}

// genSrcTokens: literal tokens / constants at named sites.
//
//	wc_cmp : the comparison of the weighted-cluster scan in router/base_rule.go ClusterName
func genSrcTokens(repo string) (string, error) {
	var b strings.Builder
	b.WriteString("Require Import ZArith.\n")
	_, f, err := ParseGoFile(repo, "pkg/router/base_rule.go")
	if err != nil {
		return "", err
	}
	fd := FindFunc(f, "RouteRuleImplBase", "ClusterName")
	if fd == nil {
		return "", fmt.Errorf("ClusterName not found")
	}
	// expected shape:  for _, wc := range rri.weightedClusters { sel = sel - int(wc.clusterWeight); if sel OP 0 { return wc.clusterName } }
	op := ""
	nrange := 0
	ast.Inspect(fd.Body, func(n ast.Node) bool {
		rs, ok := n.(*ast.RangeStmt)
		if !ok {
			return true
		}
		nrange++
		if len(rs.Body.List) != 2 {
			return true
		}
		as, ok1 := rs.Body.List[0].(*ast.AssignStmt)
		is, ok2 := rs.Body.List[1].(*ast.IfStmt)
		if !ok1 || !ok2 || len(as.Lhs) != 1 || len(as.Rhs) != 1 {
			return true
		}
		sub, ok := as.Rhs[0].(*ast.BinaryExpr)
		if !(ok && sub.Op == token.SUB) && !(as.Tok == token.SUB_ASSIGN) {
			return true
		}
		be, ok := is.Cond.(*ast.BinaryExpr)
		if !ok {
			return true
		}
		lit, ok := be.Y.(*ast.BasicLit)
		if !ok || lit.Value != "0" {
			return true
		}
		if len(is.Body.List) == 1 {
			if _, ok := is.Body.List[0].(*ast.ReturnStmt); ok && is.Else == nil {
				op = be.Op.String()
			}
		}
		return true
	})
	ok := nrange == 1
	switch op {
	case "<":
		b.WriteString("Definition wc_cmp (v : Z) : bool := Z.ltb v 0.\nDefinition wc_cmp_is_lt := true.\n")
	case "<=":
		b.WriteString("Definition wc_cmp (v : Z) : bool := Z.leb v 0.\nDefinition wc_cmp_is_lt := false.\n")
	default:
		ok = false
		b.WriteString("Definition wc_cmp (v : Z) : bool := Z.ltb v 0.\nDefinition wc_cmp_is_lt := false.\n")
	}
	fmt.Fprintf(&b, "Definition SrcTokens_translator_ok := %v.\n", ok)
	return b.String(), nil
}
