package main

// C16, part 4: the per-address store of flag words behind the host objects.  Histories over the REAL cluster manager
// with one address in two or three clusters: append, remove from one cluster (while healthy and while flagged), re-add,
// UpdateClusterHosts replacing the host objects, conditions set / cleared through any live host object including old
// ones the harness keeps (as a health-check session does) and stand-alone NewSimpleHost objects.  After every operation
// Health() / HealthFlag() / ContainHealthFlag are read through EVERY live host object of each address.
// Finder: objects of one address disagree.  Compared with Model/HealthStore.v (hs_mismatches under the store mode read
// from the source).

import (
	"context"
	"fmt"
	"sort"
	"strings"

	"mosn.io/api"
	v2 "mosn.io/mosn/pkg/config/v2"
	"mosn.io/mosn/pkg/types"
	"mosn.io/mosn/pkg/upstream/cluster"

	. "vh/vhlib"
)

type hsHandle struct {
	obj      types.Host
	addr     int
	alive    bool
	retained bool
}

func c16store(run *Run) {
	r := run.R
	cm := cluster.NewClusterManagerSingleton(nil, nil, nil)
	names := []string{"c16hs-A", "c16hs-B", "c16hs-C"}
	for _, n := range names {
		if err := cm.AddOrUpdatePrimaryCluster(v2.Cluster{Name: n, ClusterType: v2.SIMPLE_CLUSTER, LbType: v2.LB_ROUNDROBIN}); err != nil {
			fmt.Println("cluster error", err)
			return
		}
	}
	sinfo := cluster.NewClusterInfo(v2.Cluster{Name: "c16hs-solo", LbType: v2.LB_ROUNDROBIN})
	sh := run.NewShard("From MV Require Import Gen.HealthStoreOps Model.HealthStore.\nFrom Coq Require Import List NArith.\nImport ListNotations.\n",
		"hs_case", "hs_mismatches hs_mode")
	addrSeq := 0
	nh := run.N(250, 2500)
	for hix := 0; hix < nh; hix++ {
		// fresh addresses for every history
		na := 1 + r.Intn(2)
		addrs := make([]string, na)
		for i := range addrs {
			addrSeq++
			addrs[i] = fmt.Sprintf("10.19.%d.%d:%d", (addrSeq>>8)&255, addrSeq&255, 2000+(addrSeq>>16))
		}
		members := map[string][]int{} // cluster -> address numbers
		for _, n := range names {
			cm.UpdateClusterHosts(n, nil)
			members[n] = nil
		}
		var handles []*hsHandle
		seen := map[types.Host]int{}
		var items []string // Coq items
		var log []string
		failed := false
		hostCfg := func(as []int) []v2.Host {
			var out []v2.Host
			for _, a := range as {
				out = append(out, v2.Host{HostConfig: v2.HostConfig{Address: addrs[a], Weight: 1}})
			}
			return out
		}
		addrNo := func(s string) int {
			for i, a := range addrs {
				if a == s {
					return i
				}
			}
			return -1
		}
		// after every operation: discover new host objects, retire dead ones, observe
		settle := func() {
			inSnap := map[types.Host]bool{}
			for _, n := range names {
				snap := cm.GetClusterSnapshot(context.Background(), n)
				if snap == nil {
					continue
				}
				snap.HostSet().Range(func(h types.Host) bool {
					inSnap[h] = true
					if _, ok := seen[h]; !ok {
						if a := addrNo(h.AddressString()); a >= 0 {
							seen[h] = len(handles)
							handles = append(handles, &hsHandle{obj: h, addr: a, alive: true})
							items = append(items, fmt.Sprintf("HOp (ONew %d)", a))
						}
					}
					return true
				})
			}
			for id, h := range handles {
				if h.alive && !h.retained && !inSnap[h.obj] {
					h.alive = false
					items = append(items, fmt.Sprintf("HOp (ODrop %d)", id))
				}
			}
			var obs []string
			byAddr := map[int][]int{}
			for id, h := range handles {
				if !h.alive {
					continue
				}
				obs = append(obs, fmt.Sprintf("(%d, %d%%N)", id, uint64(h.obj.HealthFlag())))
				byAddr[h.addr] = append(byAddr[h.addr], id)
			}
			items = append(items, "HObs "+CoqList(obs))
			// ---- the property itself: every live host object of an address reports the same conditions
			for a, ids := range byAddr {
				h0 := handles[ids[0]].obj
				for _, id := range ids[1:] {
					h := handles[id].obj
					if h.Health() != h0.Health() || h.HealthFlag() != h0.HealthFlag() ||
						h.ContainHealthFlag(api.FAILED_ACTIVE_HC) != h0.ContainHealthFlag(api.FAILED_ACTIVE_HC) ||
						h.ContainHealthFlag(api.FAILED_OUTLIER_CHECK) != h0.ContainHealthFlag(api.FAILED_OUTLIER_CHECK) {
						if !failed {
							failed = true
							run.Fail("health:handles-of-one-address-disagree",
								fmt.Sprintf("address #%d: host object %d reports Health()=%v flags=%#x, host object %d reports Health()=%v flags=%#x after: %s",
									a, ids[0], h0.Health(), uint64(h0.HealthFlag()), id, h.Health(), uint64(h.HealthFlag()), strings.Join(log, "; ")),
								map[string]interface{}{"part": "store", "addresses": addrs, "history": append([]string{}, log...)})
						}
					}
				}
			}
		}
		contains := func(xs []int, a int) bool {
			for _, x := range xs {
				if x == a {
					return true
				}
			}
			return false
		}
		doAppend := func(c string, a int) {
			if contains(members[c], a) {
				return
			}
			cm.AppendClusterHosts(c, hostCfg([]int{a}))
			members[c] = append(members[c], a)
			log = append(log, fmt.Sprintf("append addr%d to %s", a, c))
			settle()
		}
		doRemove := func(c string, a int) {
			if !contains(members[c], a) {
				return
			}
			cm.RemoveClusterHosts(c, []string{addrs[a]})
			var rest []int
			for _, x := range members[c] {
				if x != a {
					rest = append(rest, x)
				}
			}
			members[c] = rest
			items = append(items, fmt.Sprintf("HOp (ORelease %d)", a))
			log = append(log, fmt.Sprintf("remove addr%d from %s", a, c))
			settle()
		}
		doUpdate := func(c string) {
			cm.UpdateClusterHosts(c, hostCfg(members[c]))
			log = append(log, fmt.Sprintf("UpdateClusterHosts %s %v", c, members[c]))
			settle()
		}
		doFlag := func(id int, set bool, flag api.HealthFlag) {
			h := handles[id]
			if !h.alive {
				return
			}
			if set {
				h.obj.SetHealthFlag(flag)
				items = append(items, fmt.Sprintf("HOp (OSet %d %d%%N)", id, uint64(flag)))
			} else {
				h.obj.ClearHealthFlag(flag)
				items = append(items, fmt.Sprintf("HOp (OClear %d %d%%N)", id, uint64(flag)))
			}
			log = append(log, fmt.Sprintf("set=%v flag %#x through host object %d (addr%d)", set, uint64(flag), id, h.addr))
			settle()
		}
		aliveIDs := func() []int {
			var ids []int
			for id, h := range handles {
				if h.alive {
					ids = append(ids, id)
				}
			}
			sort.Ints(ids)
			return ids
		}
		switch hix {
		case 0: // one address in two clusters, removed from one while healthy, re-added, flagged through the old object
			doAppend(names[0], 0)
			doAppend(names[1], 0)
			doRemove(names[0], 0)
			doAppend(names[0], 0)
			doFlag(1, true, api.FAILED_ACTIVE_HC)
			doFlag(2, true, api.FAILED_OUTLIER_CHECK)
			doFlag(1, false, api.FAILED_ACTIVE_HC)
		case 1: // removed while flagged, re-added
			doAppend(names[0], 0)
			doAppend(names[1], 0)
			doFlag(0, true, api.FAILED_ACTIVE_HC)
			doRemove(names[0], 0)
			doAppend(names[0], 0)
			doFlag(2, false, api.FAILED_ACTIVE_HC)
		case 2: // a health-check session keeps the old object; the only cluster drops and re-adds the address
			doAppend(names[0], 0)
			handles[0].retained = true
			doRemove(names[0], 0)
			doUpdate(names[0])
			doAppend(names[0], 0)
			doFlag(0, true, api.FAILED_ACTIVE_HC)
			doUpdate(names[0])
		default:
			for step := 0; step < 22; step++ {
				c := names[r.Intn(len(names))]
				a := r.Intn(na)
				switch x := r.Intn(20); {
				case x < 5:
					doAppend(c, a)
				case x < 8:
					doRemove(c, a)
				case x < 10:
					doUpdate(c)
				case x < 16:
					if ids := aliveIDs(); len(ids) > 0 {
						flag := api.FAILED_ACTIVE_HC
						if r.Bool() {
							flag = api.FAILED_OUTLIER_CHECK
						}
						doFlag(ids[r.Intn(len(ids))], r.Pct(55), flag)
					}
				case x < 18:
					if ids := aliveIDs(); len(ids) > 0 {
						id := ids[r.Intn(len(ids))]
						handles[id].retained = !handles[id].retained
						log = append(log, fmt.Sprintf("retained(host object %d)=%v", id, handles[id].retained))
						settle()
					}
				default:
					h := cluster.NewSimpleHost(v2.Host{HostConfig: v2.HostConfig{Address: addrs[a], Weight: 1}}, sinfo)
					seen[h] = len(handles)
					handles = append(handles, &hsHandle{obj: h, addr: a, alive: true, retained: true})
					items = append(items, fmt.Sprintf("HOp (ONew %d)", a))
					log = append(log, fmt.Sprintf("stand-alone host object for addr%d", a))
					settle()
				}
			}
		}
		multi := false
		cnt := map[int]int{}
		for _, h := range handles {
			cnt[h.addr]++
			if cnt[h.addr] >= 3 {
				multi = true
			}
		}
		rep := map[string]interface{}{"part": "store", "addresses": addrs, "history": log}
		run.Count("store|"+strings.Join(log, ";"), multi, "store:histories")
		if multi && len(run.Sum.Samples) < 6 && hix%50 == 3 {
			run.Sample(rep)
		}
		sh.Add(CoqList(items), rep)
		if sh.Len() >= 130 {
			sh.Close()
			sh = run.NewShard(sh.Header, sh.Typ, sh.Eval)
		}
	}
	sh.Close()
	for _, n := range names {
		cm.UpdateClusterHosts(n, nil)
	}
}
