package main

// C16 - host health state: (1) the REAL SetHealthFlag / ClearHealthFlag under a controlled scheduler over
// every interleaving of small thread sets (yield hook between load and write-back), compared with
// Model/Health.v; (2) the REAL sessionChecker HandleSuccess / HandleFailure on all short result
// sequences and random long ones, compared with Model/HealthCheck.v.  The finder evaluates the property
// itself (no lost / invented condition; threshold exactness) with oracles written independently of the model.

import (
	"fmt"
	"strings"
	"sync/atomic"

	"mosn.io/api"
	v2 "mosn.io/mosn/pkg/config/v2"
	"mosn.io/mosn/pkg/types"
	"mosn.io/mosn/pkg/upstream/cluster"
	"mosn.io/mosn/pkg/upstream/healthcheck"

	. "vh/vhlib"
)

type hOp struct {
	Set  bool   `json:"set"`
	Mask uint64 `json:"mask"`
}

const (
	evInner = iota // parked at the yield hook inside Set/ClearHealthFlag (after the load)
	evPre          // parked before the next operation of the thread
	evDone
)

type hThread struct {
	ops    []hOp
	resume chan struct{}
	ev     chan int
	state  int // evPre (also: not started) | evInner | evDone
}

var hCur *hThread // the one thread currently running (the scheduler runs one thread at a time)

func hYield() {
	t := hCur
	if t == nil {
		return
	}
	t.ev <- evInner
	<-t.resume
}

type hRunResult struct {
	sched  []int // model micro-steps (thread ids)
	final  uint64
	health bool
	flag   uint64
	// for DFS: at each scheduling point, the chosen thread and the enabled alternatives
	choices [][]int // choices[i] = enabled thread ids at point i
	chosen  []int
}

var hAddrSeq int
var hInfo types.ClusterInfo

// hExec runs the per-thread operation lists on one fresh real host under the schedule prefix (then lowest
// enabled thread first).  When rnd != nil the continuation after the prefix is random.
func hExec(w0 uint64, progs [][]hOp, prefix []int, rnd *Rng) hRunResult {
	hAddrSeq++
	addr := fmt.Sprintf("10.16.%d.%d:%d", (hAddrSeq>>8)&255, hAddrSeq&255, 1000+(hAddrSeq>>16))
	host := cluster.NewSimpleHost(v2.Host{HostConfig: v2.HostConfig{Address: addr}}, hInfo)
	p := cluster.GetHealthFlagPointer(addr)
	atomic.StoreUint64(p, w0)
	ths := make([]*hThread, len(progs))
	for i, ops := range progs {
		t := &hThread{ops: ops, resume: make(chan struct{}), ev: make(chan int), state: evPre}
		if len(ops) == 0 {
			t.state = evDone
		}
		ths[i] = t
		go func(t *hThread) {
			<-t.resume
			for j, op := range t.ops {
				if j > 0 {
					t.ev <- evPre
					<-t.resume
				}
				if op.Set {
					host.SetHealthFlag(api.HealthFlag(int64(op.Mask)))
				} else {
					host.ClearHealthFlag(api.HealthFlag(int64(op.Mask)))
				}
			}
			t.ev <- evDone
		}(t)
	}
	var res hRunResult
	for step := 0; ; step++ {
		var enabled []int
		for i, t := range ths {
			if t.state != evDone {
				enabled = append(enabled, i)
			}
		}
		if len(enabled) == 0 {
			break
		}
		k := enabled[0]
		if step < len(prefix) {
			k = prefix[step]
		} else if rnd != nil {
			k = enabled[rnd.Intn(len(enabled))]
		}
		t := ths[k]
		if t.state == evDone {
			panic("scheduled a finished thread")
		}
		res.choices = append(res.choices, enabled)
		res.chosen = append(res.chosen, k)
		hCur = t
		t.resume <- struct{}{}
		e := <-t.ev
		hCur = nil
		// translate to model micro-steps
		if t.state == evInner && e == evInner {
			// CAS failed and the loop re-loaded: two micro-steps
			res.sched = append(res.sched, k, k)
		} else {
			res.sched = append(res.sched, k)
		}
		t.state = e
		if len(res.sched) > 10000 {
			panic("schedule does not terminate")
		}
	}
	res.final = atomic.LoadUint64(p)
	res.health = host.Health()
	res.flag = uint64(host.HealthFlag())
	return res
}

// expected final word by the property itself: every operation takes effect, per thread in program order
// (threads own disjoint masks, so thread order is irrelevant).
func hExpected(w0 uint64, progs [][]hOp) uint64 {
	w := w0
	for _, ops := range progs {
		for _, op := range ops {
			if op.Set {
				w |= op.Mask
			} else {
				w &^= op.Mask
			}
		}
	}
	return w
}

func coqHop(op hOp) string {
	if op.Set {
		return fmt.Sprintf("HSet %d", op.Mask)
	}
	return fmt.Sprintf("HClear %d", op.Mask)
}

func opPatterns(mask uint64, n int) [][]hOp {
	var out [][]hOp
	for m := 0; m < 1<<n; m++ {
		ops := make([]hOp, n)
		for i := range ops {
			ops[i] = hOp{Set: m>>i&1 == 1, Mask: mask}
		}
		out = append(out, ops)
	}
	return out
}

func c16(args []string) int {
	run := NewRun("C16", args)
	r := run.R
	run.Sum.Rule = "flags: thread sets (2 threads x 1-2 ops, 3 threads x 1 op: EVERY Set/Clear pattern, every interleaving of the real Set/ClearHealthFlag under the yield-hook scheduler; 3 threads x 2 ops and 4 threads: random schedules in quick, more in thorough) x initial words; a case is non-trivial when >=2 threads interleave (schedule is not a concatenation of whole threads); distinct by (w0, programs, schedule). thresholds: (unhealthy,healthy) in 0..4 x init flag x EVERY success/failure sequence up to length 10 (finder), ternary sequences incl. timeouts of length 5 and random long ones to Coq; non-trivial when the sequence has at least one transition; distinct by (thresholds, init, sequence). loop: the real sessionChecker.Start with a scripted session (check latencies below the timeout, between timeout and the next check, beyond the next check; timeout 60 ms, interval 80 ms), event order from observed timestamps, scenarios with order-relevant events closer than 15 ms or with two disagreeing runs are skipped; non-trivial when a response arrives after its timeout. store: histories over the real cluster manager (1-2 addresses in up to 3 clusters: append, remove while healthy / flagged, re-add, UpdateClusterHosts, set/clear through any live host object incl. retained old ones and stand-alone objects), every live host object of an address read after every operation; non-trivial when an address had >= 3 host objects. transfer: UpdateClusterHosts replacing the host of an address in a slow-start cluster while checker / outlier writers set or clear their condition at forced points (before the update, at each method the replacement code calls on the old host - before and after the underlying read -, after the update) x initial words x writer programs; non-trivial when a writer ran between a flag read of the replacement and its end. lifecycle: histories on the real healthChecker over 2-3 addresses (check results per address, SetHealthCheckerHostSet dropping / adding / keeping addresses, Stop + new checker), thresholds 1..3, FAILED_ACTIVE_HC of every address read after every operation."
	hInfo = cluster.NewClusterInfo(v2.Cluster{Name: "c16", LbType: v2.LB_RANDOM})
	cluster.VerifYieldFn = hYield
	defer func() { cluster.VerifYieldFn = nil }()

	header := "From MV Require Import Gen.HealthOps Model.Health.\nFrom Coq Require Import List NArith.\nImport ListNotations.\nOpen Scope N_scope.\n"
	sh := run.NewShard(header, "h_case", "h_mismatches health_set_shape health_clear_shape")
	addCase := func(w0 uint64, progs [][]hOp, res hRunResult, kind string) {
		exp := hExpected(w0, progs)
		// non-trivial: some thread is scheduled, then another, then the first again
		nontriv := false
		seen := map[int]bool{}
		last := -1
		for _, k := range res.chosen {
			if k != last && seen[k] {
				nontriv = true
			}
			seen[k] = true
			last = k
		}
		var ps []string
		for _, ops := range progs {
			var os []string
			for _, op := range ops {
				os = append(os, coqHop(op))
			}
			ps = append(ps, CoqList(os))
		}
		var ss []string
		for _, k := range res.sched {
			ss = append(ss, fmt.Sprintf("%d%%nat", k))
		}
		rep := map[string]interface{}{"part": "flags", "w0": w0, "programs": progs, "schedule_microsteps": res.sched, "scheduler_choices": res.chosen,
			"final": res.final, "expected": exp, "health": res.health}
		key := fmt.Sprintf("%d|%v|%v", w0, progs, res.sched)
		run.Count(key, nontriv, "flags:"+kind)
		if res.final != exp {
			lost := exp &^ res.final
			inv := res.final &^ exp
			what := fmt.Sprintf("concurrent Set/ClearHealthFlag on different conditions: final word %#x, required %#x (conditions lost %#x, invented %#x); w0=%#x programs=%v schedule=%v",
				res.final, exp, lost, inv, w0, progs, res.chosen)
			run.Fail("health-flag:lost-update", what, rep)
		}
		if res.health != (res.final == 0) || res.flag != res.final {
			run.Fail("health-flag:health-not-iff-zero", fmt.Sprintf("Health()=%v HealthFlag()=%#x but word=%#x", res.health, res.flag, res.final), rep)
		}
		if nontriv && len(run.Sum.Samples) < 3 {
			run.Sample(rep)
		}
		sh.Add(fmt.Sprintf("(%d, %s, %s, %d, %s)", w0, CoqList(ps), CoqList(ss), res.final, CoqBool(res.health)), rep)
		if sh.Len() >= 400 {
			sh.Close()
			sh = run.NewShard(sh.Header, sh.Typ, sh.Eval)
		}
	}
	// exhaustive DFS over schedules
	var dfs func(w0 uint64, progs [][]hOp, kind string, limit int) int
	dfs = func(w0 uint64, progs [][]hOp, kind string, limit int) int {
		n := 0
		stack := [][]int{{}}
		for len(stack) > 0 && (limit <= 0 || n < limit) {
			prefix := stack[len(stack)-1]
			stack = stack[:len(stack)-1]
			res := hExec(w0, progs, prefix, nil)
			n++
			addCase(w0, progs, res, kind)
			for i := len(res.chosen) - 1; i >= len(prefix); i-- {
				for _, a := range res.choices[i] {
					if a > res.chosen[i] {
						np := append(append([]int{}, res.chosen[:i]...), a)
						stack = append(stack, np)
					}
				}
			}
		}
		return n
	}
	masks := []uint64{uint64(api.FAILED_ACTIVE_HC), uint64(api.FAILED_OUTLIER_CHECK), 1 << 63, 0x30}
	allMask := masks[0] | masks[1] | masks[2] | masks[3]
	w0s := func(i int) uint64 {
		switch i % 3 {
		case 0:
			return 0
		case 1:
			return allMask | 0x100
		}
		return masks[0] | 0x4
	}
	cfg := 0
	exhaustive := 0
	// 2 threads x (1..2 ops): every pattern, every interleaving
	for n0 := 1; n0 <= 2; n0++ {
		for n1 := 1; n1 <= 2; n1++ {
			for _, p0 := range opPatterns(masks[0], n0) {
				for _, p1 := range opPatterns(masks[1], n1) {
					nw := run.N(1, 3)
					for wi := 0; wi < nw; wi++ {
						exhaustive += dfs(w0s(cfg+wi), [][]hOp{p0, p1}, fmt.Sprintf("2thr-%dx%d", n0, n1), 0)
					}
					cfg++
				}
			}
		}
	}
	// 3 threads x 1 op: every pattern, every interleaving
	for _, p0 := range opPatterns(masks[0], 1) {
		for _, p1 := range opPatterns(masks[1], 1) {
			for _, p2 := range opPatterns(masks[2], 1) {
				exhaustive += dfs(w0s(cfg), [][]hOp{p0, p1, p2}, "3thr-1", 0)
				cfg++
			}
		}
	}
	run.Sum.Extra["flags_exhaustive_schedules"] = exhaustive
	// thorough: 3 threads x 2 ops exhaustive for two patterns
	if run.Thorough() {
		n := dfs(0, [][]hOp{{{true, masks[0]}, {false, masks[0]}}, {{true, masks[1]}, {false, masks[1]}}, {{true, masks[2]}}}, "3thr-2-2-1", 0)
		run.Sum.Extra["flags_exhaustive_3thr_221"] = n
	}
	// random schedules: 3-4 threads x 1-3 ops
	for i := 0; i < run.N(300, 4000); i++ {
		nt := 3 + r.Intn(2)
		progs := make([][]hOp, nt)
		for t := range progs {
			no := 1 + r.Intn(3)
			for j := 0; j < no; j++ {
				m := masks[t]
				if t == 3 && r.Bool() {
					m = 0x10 << uint(r.Intn(2))
				}
				progs[t] = append(progs[t], hOp{Set: r.Bool(), Mask: m})
			}
		}
		w0 := w0s(r.Intn(3))
		if r.Pct(30) {
			w0 = r.U64()
		}
		res := hExec(w0, progs, nil, r)
		addCase(w0, progs, res, fmt.Sprintf("rand-%dthr", nt))
	}
	sh.Close()

	// ------------------------------------------------------------------ part 2: thresholds
	hsh := run.NewShard("From MV Require Import Model.HealthCheck.\nFrom Coq Require Import List NArith.\nImport ListNotations.\nOpen Scope N_scope.\n",
		"hc_case", "hc_mismatches")
	type obs struct {
		Changed, IsHealthy, Flag bool
		Un, H                    uint32
	}
	hostSeq := 0
	runSeq := func(u, h uint32, init bool, other uint64, seq []byte) []obs {
		hostSeq++
		addr := fmt.Sprintf("10.17.%d.%d:%d", (hostSeq>>8)&255, hostSeq&255, 1000+(hostSeq>>16))
		host := cluster.NewSimpleHost(v2.Host{HostConfig: v2.HostConfig{Address: addr}}, hInfo)
		p := cluster.GetHealthFlagPointer(addr)
		w := other &^ uint64(api.FAILED_ACTIVE_HC)
		if init {
			w |= uint64(api.FAILED_ACTIVE_HC)
		}
		atomic.StoreUint64(p, w)
		var cbs []obs
		vc := healthcheck.VerifNewChecker(host, u, h, func(hst types.Host, changed bool, isHealthy bool) {
			cbs = append(cbs, obs{Changed: changed, IsHealthy: isHealthy})
		})
		out := make([]obs, 0, len(seq))
		for _, c := range seq {
			n0 := len(cbs)
			switch c {
			case 'S':
				vc.Success()
			case 'F':
				vc.Failure()
			default:
				vc.Timeout()
			}
			if len(cbs) != n0+1 {
				run.Fail("healthcheck:callback-count", fmt.Sprintf("%d callbacks for one check result", len(cbs)-n0), map[string]interface{}{"part": "thresholds", "u": u, "h": h, "seq": string(seq)})
				cbs = append(cbs, obs{})
			}
			o := cbs[len(cbs)-1]
			o.Flag = host.ContainHealthFlag(api.FAILED_ACTIVE_HC)
			o.Un, o.H = vc.Counts()
			// the other conditions of the word must be untouched
			if atomic.LoadUint64(p)&^uint64(api.FAILED_ACTIVE_HC) != other&^uint64(api.FAILED_ACTIVE_HC) {
				run.Fail("healthcheck:foreign-condition-changed", "health checker changed a condition other than FAILED_ACTIVE_HC", map[string]interface{}{"part": "thresholds", "seq": string(seq)})
			}
			out = append(out, o)
		}
		return out
	}
	// oracle for the property itself (independent of the model): walk the sequence with the textual rule
	check := func(u, h uint32, init bool, seq []byte, out []obs) (bool, string) {
		eu, eh := u, h
		if eu == 0 {
			eu = 1
		}
		if eh == 0 {
			eh = 1
		}
		unhealthy := init
		trans := false
		for i := range seq {
			// length of the run of equal-class results ending at i
			isS := seq[i] == 'S'
			runLen := 0
			for j := i; j >= 0 && (seq[j] == 'S') == isS; j-- {
				runLen++
			}
			want := unhealthy
			if !unhealthy && !isS && runLen >= int(eu) {
				want = true
			}
			if unhealthy && isS && runLen >= int(eh) {
				want = false
			}
			wantChanged := want != unhealthy
			if out[i].Flag != want || out[i].Changed != wantChanged || out[i].IsHealthy != isS {
				return trans, fmt.Sprintf("step %d (%c): host unhealthy=%v changed=%v isHealthy=%v, required unhealthy=%v changed=%v isHealthy=%v", i, seq[i], out[i].Flag, out[i].Changed, out[i].IsHealthy, want, wantChanged, isS)
			}
			if wantChanged {
				trans = true
			}
			unhealthy = want
		}
		return trans, ""
	}
	toCoq := func(u, h uint32, init bool, seq []byte, out []obs) string {
		var rs, os []string
		for i, c := range seq {
			switch c {
			case 'S':
				rs = append(rs, "RSuccess")
			case 'F':
				rs = append(rs, "RFailure")
			default:
				rs = append(rs, "RTimeout")
			}
			o := out[i]
			os = append(os, fmt.Sprintf("(%s, %s, %s, %d, %d)", CoqBool(o.Changed), CoqBool(o.IsHealthy), CoqBool(o.Flag), o.Un, o.H))
		}
		return fmt.Sprintf("(%d, %d, %s, %s, %s)", u, h, CoqBool(init), CoqList(rs), CoqList(os))
	}
	one := func(u, h uint32, init bool, other uint64, seq []byte, coq bool, kind string) {
		out := runSeq(u, h, init, other, seq)
		trans, bad := check(u, h, init, seq, out)
		rep := map[string]interface{}{"part": "thresholds", "unhealthy_threshold": u, "healthy_threshold": h, "initially_unhealthy": init, "results": string(seq)}
		run.Count(fmt.Sprintf("hc|%d|%d|%v|%s", u, h, init, seq), trans, "thresholds:"+kind)
		if bad != "" {
			run.Fail("healthcheck:threshold-not-exact", fmt.Sprintf("thresholds (unhealthy=%d, healthy=%d) results %s: %s", u, h, seq, bad), rep)
		}
		if coq {
			hsh.Add(toCoq(u, h, init, seq, out), rep)
			if hsh.Len() >= 800 {
				hsh.Close()
				hsh = run.NewShard(hsh.Header, hsh.Typ, hsh.Eval)
			}
		}
		if trans && len(seq) >= 6 && len(run.Sum.Samples) < 6 {
			run.Sample(rep)
		}
	}
	// every success/failure sequence of length exactly L (its prefixes are checked step by step)
	L := run.N(10, 12)
	for u := uint32(0); u <= 4; u++ {
		for h := uint32(0); h <= 4; h++ {
			for _, init := range []bool{false, true} {
				for m := 0; m < 1<<L; m++ {
					seq := make([]byte, L)
					for i := range seq {
						if m>>i&1 == 1 {
							seq[i] = 'S'
						} else {
							seq[i] = 'F'
						}
					}
					one(u, h, init, 0, seq, false, "binary-exhaustive")
				}
			}
		}
	}
	// ternary sequences (with timeouts) of length T to Coq
	T := run.N(5, 7)
	pow := 1
	for i := 0; i < T; i++ {
		pow *= 3
	}
	for u := uint32(1); u <= 3; u++ {
		for h := uint32(1); h <= 3; h++ {
			for _, init := range []bool{false, true} {
				for m := 0; m < pow; m++ {
					seq := make([]byte, T)
					x := m
					for i := range seq {
						seq[i] = "SFT"[x%3]
						x /= 3
					}
					one(u, h, init, 0, seq, true, "ternary-exhaustive")
				}
			}
		}
	}
	// random long sequences, thresholds 0..8, other conditions set on the host
	for i := 0; i < run.N(300, 3000); i++ {
		u, h := uint32(r.Intn(9)), uint32(r.Intn(9))
		n := 10 + r.Intn(run.N(100, 400))
		seq := make([]byte, n)
		bias := 20 + r.Intn(60)
		for j := range seq {
			if r.Pct(bias) {
				seq[j] = 'S'
			} else if r.Pct(70) {
				seq[j] = 'F'
			} else {
				seq[j] = 'T'
			}
		}
		other := uint64(0)
		if r.Bool() {
			other = uint64(api.FAILED_OUTLIER_CHECK)
		}
		one(u, h, r.Bool(), other, seq, true, "random-long")
	}
	hsh.Close()
	c16loop(run)
	c16store(run)
	c16xfer(run)
	c16life(run)
	run.Sum.Exhaustive = false
	_ = strings.Join
	return run.Finish()
}
