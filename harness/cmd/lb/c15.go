package main

// C15 - subset load balancing.  Builds BOTH real subset balancers (NewSubsetLoadBalancer = filtering builder,
// NewSubsetLoadBalancerPreIndex = pre-indexed builder) on generated host metadata / selectors / default subsets /
// fallback policies, queries them with generated criteria and compares HostNum, IsExistsHosts and the set of hosts
// ChooseHost returns (inner policy: round robin, enough calls to exhaust it) with Model/Subset.v and with each other.
// The finder evaluates the property itself: criteria pairs contained in the chosen host's metadata when the subset
// applies, exact fallback otherwise, builders observationally equal.

import (
	"context"
	"fmt"
	"sort"
	"strings"

	"mosn.io/api"
	v2 "mosn.io/mosn/pkg/config/v2"
	"mosn.io/mosn/pkg/router"
	"mosn.io/mosn/pkg/types"
	"mosn.io/mosn/pkg/upstream/cluster"
	"mosn.io/pkg/variable"

	. "vh/vhlib"
)

type ssCtx struct {
	lbCtx
	mmc api.MetadataMatchCriteria
}

func (c *ssCtx) MetadataMatchCriteria() api.MetadataMatchCriteria { return c.mmc }

var ssKeys = []string{"k1", "k2", "k3", "k9"} // k9: never on a host unless generated as "unknown"
var ssDeepKeys = []string{"k1", "k2", "k3", "k4", "k5", "k6", "k7", "k8"}
var ssVals = []string{"a", "b", "c", "z"}

func ssKeyNo(k string) int { return int(k[1] - '0') }
func ssValNo(v string) int { return int(v[0]-'a') + 1 }

type ssObs struct {
	Num    int    `json:"host_num"`
	Exists bool   `json:"is_exists"`
	IDs    []int  `json:"chosen_ids"`
	Panic  string `json:"panic,omitempty"`
}

func coqPath(m map[string]string) string {
	ks := make([]string, 0, len(m))
	for k := range m {
		ks = append(ks, k)
	}
	sort.Strings(ks)
	var ps []string
	for _, k := range ks {
		ps = append(ps, fmt.Sprintf("(%d, %d)", ssKeyNo(k), ssValNo(m[k])))
	}
	return CoqList(ps)
}

func c15(args []string) int {
	run := NewRun("C15", args)
	r := run.R
	run.Sum.Rule = "configurations: host sets of 0..7 hosts with partial, overlapping metadata over keys {k1,k2,k3} x values {a,b,c} (same values under different keys on purpose), some hosts unhealthy; selector lists incl. nested, duplicate, unsorted and EMPTY key sets, selectors of 4..8 keys (scripted depths 4, 5, 6, 8 first, then ~12 %) over hosts agreeing on the first three keys with 2-3 values per late key, and (45 %) a pair of selectors one of whose sorted key lists is a prefix / suffix / subset of the other's, in both orders; the three fallback policies; default subsets (empty, matching, non-matching). queries per configuration: nil criteria, empty criteria, every selector instantiated from a host (hit), with one value changed, strict subsets and supersets of selectors, unknown keys and values. A configuration is non-trivial when it has >= 2 hosts and >= 1 selector; distinct by (hosts, selectors, policy, default). criteria: histories of 2-6 requests through one real route rule (metadata_match of 0-2 pairs), ~55 % of the requests with dynamic metadata, real downStream.MetadataMatchCriteria, then the real subset balancer; non-trivial when the route has metadata_match and some request carries metadata."
	header := "From MV Require Import Gen.SubsetTokens Model.Subset.\nFrom Coq Require Import List Arith.\nImport ListNotations.\n"
	sh := run.NewShard(header, "ss_case", "ss_mismatches fh_mode")
	hostSeq := 0
	nconf := run.N(1500, 8000)
	for ci := 0; ci < nconf; ci++ {
		// ---- hosts
		n := r.Intn(8)
		if ci < 8 {
			n = ci % 4
		}
		// deep configurations: selectors of 4..8 keys (k1..k8) over hosts that agree on the first keys and differ on the
		// late ones (several values per late key); scripted depths 4, 5, 6, 8 first
		deep, depth := false, 0
		if ci >= 8 && ci < 16 {
			deep, depth = true, []int{4, 5, 6, 8, 4, 5, 7, 8}[ci-8]
		} else if ci >= 16 && r.Pct(12) {
			deep, depth = true, 4+r.Intn(5)
		}
		if deep {
			n = 3 + r.Intn(5)
		}
		metas := make([]map[string]string, n)
		healthy := make([]bool, n)
		dense := r.Pct(50)
		sick := r.Pct(15) // mostly unhealthy hosts: matched subsets without a selectable host
		for i := range metas {
			m := map[string]string{}
			for _, k := range ssKeys[:3] {
				p := 55
				if dense {
					p = 85
				}
				if r.Pct(p) {
					m[k] = ssVals[r.Intn(3)]
				}
			}
			if deep {
				for j, k := range ssDeepKeys[:depth] {
					switch {
					case j < 3:
						m[k] = "a" // all hosts agree on the first three keys
					case r.Pct(90):
						m[k] = ssVals[r.Intn(2+j%2)] // 2-3 values per late key
					default:
						delete(m, k)
					}
				}
			}
			metas[i] = m
			if sick {
				healthy[i] = !r.Pct(65)
			} else {
				healthy[i] = !r.Pct(15)
			}
		}
		// ---- selectors
		ns := r.Intn(4)
		if r.Pct(10) {
			ns = 4 + r.Intn(2)
		}
		var selectors [][]string
		for i := 0; i < ns; i++ {
			var s []string
			switch x := r.Intn(20); {
			case x == 0:
				s = []string{} // empty selector
			case x == 1:
				s = []string{"k9"}
			default:
				nk := 1 + r.Intn(3)
				for j := 0; j < nk; j++ {
					s = append(s, ssKeys[r.Intn(3)]) // may repeat a key, unsorted
				}
			}
			selectors = append(selectors, s)
		}
		if deep {
			full := append([]string{}, ssDeepKeys[:depth]...)
			selectors = append(selectors, full)
			if r.Bool() && depth > 4 {
				selectors = append(selectors, append([]string{}, ssDeepKeys[:4]...))
			}
			if r.Bool() {
				selectors = append(selectors, append([]string{}, ssDeepKeys[1:depth]...))
			}
			run.Sum.Distribution[fmt.Sprintf("config:deep-selector-%d-keys", depth)]++
		}
		// selectors whose sorted keys are a prefix / suffix / subset of another selector's, in both orders
		if r.Pct(45) {
			base := [][]string{{"k1", "k2"}, {"k1", "k3"}, {"k2", "k3"}, {"k1", "k2", "k3"}}[r.Intn(4)]
			var derived []string
			switch r.Intn(3) {
			case 0:
				derived = base[:1+r.Intn(len(base)-1)] // prefix
			case 1:
				derived = base[1+r.Intn(len(base)-1):] // suffix
			default:
				for _, k := range base { // subset
					if r.Bool() {
						derived = append(derived, k)
					}
				}
				if len(derived) == 0 || len(derived) == len(base) {
					derived = base[len(base)-1:]
				}
			}
			b2 := append([]string{}, base...)
			if r.Bool() { // configured unsorted
				b2[0], b2[len(b2)-1] = b2[len(b2)-1], b2[0]
			}
			pair := [][]string{b2, append([]string{}, derived...)}
			if r.Bool() {
				pair[0], pair[1] = pair[1], pair[0]
			}
			at := 0
			if len(selectors) > 0 {
				at = r.Intn(len(selectors) + 1)
			}
			rest := append([][]string{}, selectors[at:]...)
			selectors = append(append(selectors[:at:at], pair...), rest...)
			run.Sum.Distribution["config:related-selectors"]++
		}
		// the configured key sets (sorted, distinct), independently of GenerateSubsetKeys
		var cfgSets [][]string
		for _, s := range selectors {
			m := map[string]bool{}
			var ks []string
			for _, k := range s {
				if !m[k] {
					m[k] = true
					ks = append(ks, k)
				}
			}
			sort.Strings(ks)
			dup := false
			for _, o := range cfgSets {
				if strings.Join(o, ",") == strings.Join(ks, ",") {
					dup = true
				}
			}
			if !dup {
				cfgSets = append(cfgSets, ks)
			}
		}
		pol := uint8(r.Intn(3))
		// default subset of 0..3 pairs: pairs carried by a host, values absent from every host ("z"), a key absent from every
		// host (k9), and mixtures (a host matching only some of the pairs)
		dflt := map[string]string{}
		if r.Pct(80) {
			np := r.Intn(4)
			var src map[string]string
			if n > 0 {
				src = metas[r.Intn(n)]
			}
			for j := 0; j < np; j++ {
				k := ssKeys[r.Intn(3)]
				switch x := r.Intn(10); {
				case x < 5 && src != nil:
					if v, ok := src[k]; ok {
						dflt[k] = v
					} else {
						dflt[k] = ssVals[r.Intn(3)]
					}
				case x < 7:
					dflt[k] = "z" // carried by no host
				case x < 8:
					dflt["k9"] = ssVals[r.Intn(3)] // key carried by no host
				default:
					dflt[k] = ssVals[r.Intn(3)]
				}
			}
		}
		if len(dflt) >= 2 {
			absent, present := false, false
			for k, v := range dflt {
				some := false
				for i := 0; i < n; i++ {
					if metas[i][k] == v {
						some = true
					}
				}
				if some {
					present = true
				} else {
					absent = true
				}
			}
			if absent && present {
				run.Sum.Distribution["config:default-subset-with-absent-and-present-pairs"]++
			}
		}
		info := cluster.NewClusterInfo(v2.Cluster{Name: "c15", LbType: v2.LB_ROUNDROBIN,
			LBSubSetConfig: v2.LBSubsetConfig{FallBackPolicy: pol, DefaultSubset: dflt, SubsetSelectors: selectors}})
		hosts := make([]types.Host, n)
		idOf := map[string]int{}
		for i := range hosts {
			hostSeq++
			addr := fmt.Sprintf("10.15.%d.%d:%d", (hostSeq>>8)&255, hostSeq&255, 1000+(hostSeq>>16))
			h := cluster.NewSimpleHost(v2.Host{HostConfig: v2.HostConfig{Address: addr, Weight: 1}, MetaData: api.Metadata(metas[i])}, info)
			if !healthy[i] {
				h.SetHealthFlag(api.FAILED_ACTIVE_HC)
			}
			hosts[i] = h
			idOf[addr] = i
		}
		hostSet := cluster.NewHostSet(hosts)
		confRep := map[string]interface{}{"hosts": metas, "healthy": healthy, "selectors": selectors, "fallback_policy": pol, "default_subset": dflt}
		// ---- build both (the pre-indexed builder may panic)
		lb1 := cluster.NewSubsetLoadBalancer(info, hostSet)
		var lb2 types.LoadBalancer
		panicMsg := ""
		func() {
			defer func() {
				if e := recover(); e != nil {
					panicMsg = fmt.Sprint(e)
				}
			}()
			lb2 = cluster.NewSubsetLoadBalancerPreIndex(info, hostSet)
		}()
		run.Count(fmt.Sprintf("%v|%v|%v|%d|%v", metas, healthy, selectors, pol, dflt), n >= 2 && len(selectors) >= 1,
			fmt.Sprintf("hosts=%d", n), fmt.Sprintf("selectors=%d", len(selectors)), fmt.Sprintf("policy=%d", pol))
		if lb2 == nil {
			hasEmpty := false
			for _, s := range selectors {
				if len(s) == 0 {
					hasEmpty = true
				}
			}
			sig := "subset:preindex-builder-panic"
			if hasEmpty {
				sig = "subset:preindex-builder-panic-on-empty-selector"
			}
			run.Fail(sig, "NewSubsetLoadBalancerPreIndex panicked ("+panicMsg+") where NewSubsetLoadBalancer builds a balancer: the builders are not observationally equivalent", confRep)
			continue
		}
		// ---- criteria
		var crits []map[string]string
		crits = append(crits, nil, map[string]string{})
		subInfo := info.LbSubsetInfo()
		// the property itself on the configuration: every configured key set must survive the normalisation
		for _, want := range cfgSets {
			found := false
			for _, ks := range subInfo.SubsetKeys() {
				if strings.Join(ks.Keys(), ",") == strings.Join(want, ",") {
					found = true
				}
			}
			if !found {
				run.Fail("subset:configured-selector-dropped", fmt.Sprintf("configured selectors %v: the selector with keys %v is missing from the subset keys the balancers are built from", selectors, want), confRep)
			}
		}
		for _, keys := range cfgSets {
			for rep := 0; rep < 2; rep++ {
				c := map[string]string{}
				if n > 0 && r.Pct(75) {
					src := metas[r.Intn(n)]
					for _, k := range keys {
						if v, ok := src[k]; ok {
							c[k] = v
						} else {
							c[k] = ssVals[r.Intn(3)]
						}
					}
				} else {
					for _, k := range keys {
						c[k] = ssVals[r.Intn(4)]
					}
				}
				crits = append(crits, c)
				// one value changed
				if len(keys) > 0 && r.Pct(50) {
					c2 := map[string]string{}
					for k, v := range c {
						c2[k] = v
					}
					c2[keys[r.Intn(len(keys))]] = ssVals[r.Intn(4)]
					crits = append(crits, c2)
				}
				// strict subset
				if len(keys) > 1 && r.Pct(50) {
					c3 := map[string]string{}
					for k, v := range c {
						c3[k] = v
					}
					delete(c3, keys[r.Intn(len(keys))])
					crits = append(crits, c3)
				}
				// superset (extra known or unknown key)
				if r.Pct(40) {
					c4 := map[string]string{}
					for k, v := range c {
						c4[k] = v
					}
					c4[ssKeys[r.Intn(4)]] = ssVals[r.Intn(3)]
					crits = append(crits, c4)
				}
			}
		}
		for j := 0; j < 2; j++ {
			c := map[string]string{}
			for _, k := range ssKeys {
				if r.Pct(40) {
					c[k] = ssVals[r.Intn(4)]
				}
			}
			crits = append(crits, c)
		}
		// ---- numbered configuration for the model
		var selNums, obsNums [][]int
		for _, sel := range selectors {
			var s []int
			for _, k := range sel {
				s = append(s, ssKeyNo(k))
			}
			selNums = append(selNums, s)
		}
		for _, ks := range subInfo.SubsetKeys() {
			var s []int
			for _, k := range ks.Keys() {
				s = append(s, ssKeyNo(k))
			}
			obsNums = append(obsNums, s)
		}
		dfltPairs := subInfo.DefaultSubset()
		observe := func(lb types.LoadBalancer, c map[string]string) ssObs {
			var mmc api.MetadataMatchCriteria
			if c != nil {
				mmc = router.NewMetadataMatchCriteriaImpl(c)
			}
			var o ssObs
			o.Num = lb.HostNum(mmc)
			o.Exists = lb.IsExistsHosts(mmc)
			seen := map[int]bool{}
			for k := 0; k < 2*n+3; k++ {
				ctx := &ssCtx{lbCtx: lbCtx{ctx: variable.NewVariableContext(context.Background())}, mmc: mmc}
				h := lb.ChooseHost(ctx)
				if h != nil {
					id, ok := idOf[h.AddressString()]
					if !ok {
						id = -1
					}
					seen[id] = true
				}
			}
			for id := range seen {
				o.IDs = append(o.IDs, id)
			}
			sort.Ints(o.IDs)
			return o
		}
		var qs []string
		firstObs := map[int][2]ssObs{}
		for ci2, c := range crits {
			o1 := observe(lb1, c)
			o2 := observe(lb2, c)
			if ci2 < 4 {
				firstObs[ci2] = [2]ssObs{o1, o2}
			}
			rep := map[string]interface{}{"config": confRep, "criteria": c, "filter_builder": o1, "preindex_builder": o2}
			// ---- the property itself
			if o1.Num != o2.Num || o1.Exists != o2.Exists || fmt.Sprint(o1.IDs) != fmt.Sprint(o2.IDs) {
				run.Fail("subset:builders-differ", fmt.Sprintf("criteria %v: filtering builder (HostNum %d, exists %v, hosts %v) vs pre-indexed builder (HostNum %d, exists %v, hosts %v)", c, o1.Num, o1.Exists, o1.IDs, o2.Num, o2.Exists, o2.IDs), rep)
			}
			if c != nil {
				// does a selector with exactly this key set exist, and which healthy hosts contain all pairs?
				ck := make([]string, 0, len(c))
				for k := range c {
					ck = append(ck, k)
				}
				sort.Strings(ck)
				selExists := false
				for _, ks := range cfgSets { // judged on the CONFIGURED selectors, not on GenerateSubsetKeys's output
					if len(ck) > 0 && strings.Join(ks, ",") == strings.Join(ck, ",") {
						selExists = true
					}
				}
				contains := func(i int, kv map[string]string) bool {
					for k, v := range kv {
						if hv, ok := metas[i][k]; !ok || hv != v {
							return false
						}
					}
					return true
				}
				matchAny, matchHealthy := false, false
				for i := 0; i < n; i++ {
					if contains(i, c) {
						matchAny = true
						if healthy[i] {
							matchHealthy = true
						}
					}
				}
				// the fallback set of the configured policy and whether it has a selectable host
				inFallback := func(i int) bool {
					switch pol {
					case 1:
						return true
					case 2:
						return contains(i, dflt)
					}
					return false
				}
				fallbackHealthy := false
				for i := 0; i < n; i++ {
					if healthy[i] && inFallback(i) {
						fallbackHealthy = true
					}
				}
				for _, bo := range []struct {
					name string
					o    ssObs
				}{{"filtering builder", o1}, {"pre-indexed builder", o2}} {
					ids := bo.o.IDs
					for _, id := range ids {
						switch {
						case id < 0:
							run.Fail("subset:non-member", bo.name+": ChooseHost returned a host outside the cluster", rep)
						case selExists && matchHealthy:
							if !contains(id, c) {
								run.Fail("subset:criteria-not-honoured", fmt.Sprintf("%s: criteria %v has a selector and a matching host, yet host #%d (metadata %v) was chosen", bo.name, c, id, metas[id]), rep)
							}
						case pol == 2:
							if !contains(id, dflt) {
								run.Fail("subset:default-subset-fallback-not-exact", fmt.Sprintf("%s: fallback default-subset %v: host #%d (metadata %v) was chosen for criteria %v", bo.name, dflt, id, metas[id], c), rep)
							}
						case pol == 0:
							run.Fail("subset:no-fallback-returned-host", fmt.Sprintf("%s: fallback policy none, no usable subset for criteria %v, yet host #%d was chosen", bo.name, c, id), rep)
						}
					}
					if selExists && matchHealthy && len(ids) == 0 {
						run.Fail("subset:no-host-for-matching-subset", fmt.Sprintf("%s: criteria %v has a selector and a healthy matching host but no host was returned", bo.name, c), rep)
					}
					// the fallback clause on the real answers: no usable subset (none, or none of its hosts selectable)
					// and the fallback set has a selectable host => a host must be returned (membership in the fallback
					// set is checked above)
					if !(selExists && matchHealthy) && fallbackHealthy && len(ids) == 0 {
						if selExists && matchAny {
							run.Fail("subset:fallback-not-applied-when-matched-subset-has-no-selectable-host",
								fmt.Sprintf("%s: criteria %v match a subset whose hosts are all unhealthy; fallback policy %d has a healthy host, yet ChooseHost returned no host in %d calls", bo.name, c, pol, 2*n+3), rep)
						} else {
							run.Fail("subset:fallback-not-applied-when-no-subset-matches",
								fmt.Sprintf("%s: no subset for criteria %v; fallback policy %d has a healthy host, yet ChooseHost returned no host in %d calls", bo.name, c, pol, 2*n+3), rep)
						}
					}
				}
				if selExists && matchAny && !matchHealthy {
					run.Sum.Distribution["query:matched-subset-all-unhealthy"]++
					if fallbackHealthy {
						run.Sum.Distribution["query:matched-subset-all-unhealthy+fallback-has-healthy"]++
					}
				}
			} else {
				// nil criteria: the balancer over all hosts (then the fallback, a sub-set of all hosts)
				anyHealthy := false
				for i := 0; i < n; i++ {
					if healthy[i] {
						anyHealthy = true
					}
				}
				for _, bo := range []struct {
					name string
					o    ssObs
				}{{"filtering builder", o1}, {"pre-indexed builder", o2}} {
					if anyHealthy && len(bo.o.IDs) == 0 {
						run.Fail("subset:no-criteria-no-host", bo.name+": nil criteria, a healthy host exists, yet ChooseHost returned no host", rep)
					}
				}
			}
			// (no random draw here: the generated inputs must not depend on what the implementation answered)
			if len(run.Sum.Samples) < 6 && n >= 3 && len(c) >= 2 && len(o1.IDs) > 0 && run.Sum.Distribution["queries"]%29 == 0 {
				run.Sample(rep)
			}
			cq := "None"
			if c != nil {
				cq = "(Some " + coqPath(c) + ")"
			}
			coqObs := func(o ssObs) string {
				var ids []string
				for _, id := range o.IDs {
					ids = append(ids, fmt.Sprint(id))
				}
				return fmt.Sprintf("(%d, %s, %s)", o.Num, CoqBool(o.Exists), CoqList(ids))
			}
			qs = append(qs, fmt.Sprintf("(%s, %s, %s)", cq, coqObs(o1), coqObs(o2)))
			run.Sum.Distribution["queries"]++
		}
		// ---- no state may leak between queries: the first criteria asked again after all the others (A -> B -> A) give
		// the same answers, and the same answers as balancers built afresh from the same host set
		{
			fresh1 := cluster.NewSubsetLoadBalancer(info, hostSet)
			fresh2 := cluster.NewSubsetLoadBalancerPreIndex(info, hostSet)
			for ci2 := 0; ci2 < 4 && ci2 < len(crits); ci2++ {
				c := crits[ci2]
				for bi, pair := range [][2]types.LoadBalancer{{lb1, fresh1}, {lb2, fresh2}} {
					again, fr := observe(pair[0], c), observe(pair[1], c)
					first := firstObs[ci2][bi]
					key := func(o ssObs) string { return fmt.Sprint(o.Num, o.Exists, o.IDs) }
					if key(again) != key(first) {
						run.Fail("subset:answer-depends-on-earlier-queries", fmt.Sprintf("criteria %v asked again after %d other queries: first (HostNum %d, exists %v, hosts %v), now (HostNum %d, exists %v, hosts %v)", c, len(crits), first.Num, first.Exists, first.IDs, again.Num, again.Exists, again.IDs),
							map[string]interface{}{"config": confRep, "criteria": c, "builder": bi})
					}
					if key(again) != key(fr) {
						run.Fail("subset:answer-differs-from-fresh-balancer", fmt.Sprintf("criteria %v: the balancer in use answers (HostNum %d, exists %v, hosts %v), a freshly built one (HostNum %d, exists %v, hosts %v)", c, again.Num, again.Exists, again.IDs, fr.Num, fr.Exists, fr.IDs),
							map[string]interface{}{"config": confRep, "criteria": c, "builder": bi})
					}
				}
			}
		}
		var hs []string
		for i := range hosts {
			hs = append(hs, fmt.Sprintf("mkSH %d %s %s", i, coqPath(metas[i]), CoqBool(healthy[i])))
		}
		for i := range hs {
			hs[i] = "(" + hs[i] + ")"
		}
		numList := func(xs [][]int) string {
			var out []string
			for _, s := range xs {
				var ks []string
				for _, k := range s {
					ks = append(ks, fmt.Sprint(k))
				}
				out = append(out, CoqList(ks))
			}
			return CoqList(out)
		}
		var dps []string
		for _, p := range dfltPairs {
			dps = append(dps, fmt.Sprintf("(%d, %d)", ssKeyNo(p.T1), ssValNo(p.T2)))
		}
		polCoq := []string{"NoFallBack", "AnyEndPoint", "DefaultSubset"}[pol]
		sh.Add(fmt.Sprintf("(%s, %s, %s, %s, %s, %s)", CoqList(hs), numList(selNums), numList(obsNums), polCoq, CoqList(dps), CoqList(qs)), confRep)
		if sh.Len() >= 100 {
			sh.Close()
			sh = run.NewShard(sh.Header, sh.Typ, sh.Eval)
		}
	}
	sh.Close()
	c15crit(run)
	c15upd(run)
	c15relabel(run)
	return run.Finish()
}
