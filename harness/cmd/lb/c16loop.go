package main

// C16, part 3: the REAL sessionChecker.Start loop (timers, channels, check ids) driven by a scripted
// HealthCheckSession whose CheckHealth returns after a scripted latency.  Short real timers; the order of the
// events the loop saw is derived from observed timestamps and a scenario is only used when every pair of events
// whose order matters is further apart than a safety margin AND two independent runs of the scenario give the same
// abstract trace - so machine load can make scenarios be skipped, never make them alarm.
// Compared with Model/HealthLoop.v (loop_mismatches under the id mode read from the source); the finder counts the
// results per sent check and evaluates threshold exactness over CHECKS with an oracle written from the property text.

import (
	"fmt"
	"sort"
	"strings"
	"sync"
	"sync/atomic"
	"time"

	"mosn.io/api"
	v2 "mosn.io/mosn/pkg/config/v2"
	"mosn.io/mosn/pkg/types"
	"mosn.io/mosn/pkg/upstream/cluster"
	"mosn.io/mosn/pkg/upstream/healthcheck"

	. "vh/vhlib"
)

const (
	loopTimeout  = 60 * time.Millisecond
	loopInterval = 80 * time.Millisecond
	loopInitial  = 10 * time.Millisecond
	loopMargin   = 15 * time.Millisecond
)

type loopScenario struct {
	U    uint32 `json:"unhealthy_threshold"`
	H    uint32 `json:"healthy_threshold"`
	Init bool   `json:"initially_unhealthy"`
	Lat  []int  `json:"latency_ms"` // per sent check; checks beyond the script answer healthy after 5 ms
	Ok   []bool `json:"healthy_answer"`
}

type loopEv struct {
	T         time.Duration
	Kind      byte // 't' check sent, 'r' CheckHealth returned, 'o' timeout handled by the loop, 'c' callback
	K         int  // ordinal of the check ('t', 'r')
	Ok        bool // 'r'
	Changed   bool // 'c'
	IsHealthy bool // 'c'
}

type loopSession struct {
	mu  sync.Mutex
	sc  *loopScenario
	t0  time.Time
	n   int
	evs []loopEv
}

func (s *loopSession) rec(e loopEv) {
	s.mu.Lock()
	e.T = time.Since(s.t0)
	s.evs = append(s.evs, e)
	s.mu.Unlock()
}

func (s *loopSession) CheckHealth() bool {
	s.mu.Lock()
	k := s.n
	s.n++
	s.mu.Unlock()
	s.rec(loopEv{Kind: 't', K: k})
	lat, ok := 5, true
	if k < len(s.sc.Lat) {
		lat, ok = s.sc.Lat[k], s.sc.Ok[k]
	}
	time.Sleep(time.Duration(lat) * time.Millisecond)
	s.rec(loopEv{Kind: 'r', K: k, Ok: ok})
	return ok
}

func (s *loopSession) OnTimeout() { s.rec(loopEv{Kind: 'o'}) }

var loopHostSeq int64

// runLoopScenario runs the real loop once and returns the recorded events (in the order they were recorded).
func runLoopScenario(sc *loopScenario, info types.ClusterInfo) []loopEv {
	seq := atomic.AddInt64(&loopHostSeq, 1)
	addr := fmt.Sprintf("10.18.%d.%d:%d", (seq>>8)&255, seq&255, 1000+(seq>>16))
	host := cluster.NewSimpleHost(v2.Host{HostConfig: v2.HostConfig{Address: addr}}, info)
	if sc.Init {
		host.SetHealthFlag(api.FAILED_ACTIVE_HC)
	}
	sess := &loopSession{sc: sc, t0: time.Now()}
	cfg := v2.HealthCheck{HealthCheckConfig: v2.HealthCheckConfig{HealthyThreshold: sc.H, UnhealthyThreshold: sc.U, ServiceName: "verifloop",
		InitialDelaySeconds: api.DurationConfig{Duration: loopInitial}}, Timeout: loopTimeout, Interval: loopInterval, IntervalJitter: 1}
	vc := healthcheck.VerifNewLoopChecker(host, sess, cfg, func(h types.Host, changed bool, isHealthy bool) {
		sess.rec(loopEv{Kind: 'c', Changed: changed, IsHealthy: isHealthy})
	})
	// run long enough for the scripted checks (and whatever they cause) to complete
	total := loopInitial
	maxLat := 0
	for _, l := range sc.Lat {
		d := time.Duration(l) * time.Millisecond
		if d > loopTimeout {
			d = loopTimeout
		}
		total += d + loopInterval
		if l > maxLat {
			maxLat = l
		}
	}
	total += time.Duration(maxLat)*time.Millisecond + loopTimeout + 2*loopMargin
	vc.Start()
	time.Sleep(total)
	vc.Stop()
	stopAt := time.Since(sess.t0)
	time.Sleep(5 * time.Millisecond)
	sess.mu.Lock()
	evs := append([]loopEv{}, sess.evs...)
	sess.mu.Unlock()
	// drop what was recorded at or after the stop (minus the margin): the tail is not judged
	cut := len(evs)
	for i, e := range evs {
		if e.T > stopAt-loopMargin {
			cut = i
			break
		}
	}
	// never cut between a cause and its callback
	for cut > 0 && cut < len(evs) && evs[cut].Kind == 'c' {
		cut--
	}
	return evs[:cut]
}

// loopAmbiguous: is there a pair of events whose relative order matters closer than the margin?
func loopAmbiguous(evs []loopEv) string {
	type pt struct {
		t    time.Duration
		kind string
		k    int
	}
	var pts []pt
	sent := -1
	for _, e := range evs {
		switch e.Kind {
		case 't':
			pts = append(pts, pt{e.T, "tick", e.K}, pt{e.T + loopTimeout, "timeout-due", e.K})
			sent = e.K
		case 'r':
			pts = append(pts, pt{e.T, "resp", e.K})
		case 'o':
			pts = append(pts, pt{e.T, "timeout", sent})
		}
	}
	sort.Slice(pts, func(i, j int) bool { return pts[i].t < pts[j].t })
	for i := range pts {
		for j := i + 1; j < len(pts) && pts[j].t-pts[i].t < loopMargin; j++ {
			a, b := pts[i], pts[j]
			if a.kind != "resp" && b.kind != "resp" {
				continue // timers among themselves are causally ordered (tick -> its timeout -> next tick)
			}
			if a.kind == "tick" && b.kind == "resp" && a.k == b.k {
				continue // a response always follows its own check
			}
			if (a.kind == "timeout-due" || b.kind == "timeout-due") && a.k != b.k {
				continue // the due time of a timeout only matters against the answer of its own check; for the
				// answers of other checks the observed timeout event is what counts
			}
			return fmt.Sprintf("%s(%d)@%v vs %s(%d)@%v", a.kind, a.k, a.t, b.kind, b.k, b.t)
		}
	}
	return ""
}

// abstract trace: the model events in observed order and the callbacks
func loopAbstract(evs []loopEv) (string, []string, []string) {
	var oe, cbs []string
	for _, e := range evs {
		switch e.Kind {
		case 't':
			oe = append(oe, "OTick")
		case 'r':
			oe = append(oe, fmt.Sprintf("OResp %d %s", e.K, CoqBool(e.Ok)))
		case 'o':
			oe = append(oe, "OTimeout")
		case 'c':
			cbs = append(cbs, fmt.Sprintf("(%s, %s)", CoqBool(e.Changed), CoqBool(e.IsHealthy)))
		}
	}
	return strings.Join(oe, ";") + "|" + strings.Join(cbs, ";"), oe, cbs
}

// loopFinder evaluates the property itself on one observed run; returns (signature, message) or ("","").
func loopFinder(sc *loopScenario, evs []loopEv) (string, string) {
	type chk struct {
		sent, resp time.Duration
		hasResp    bool
		ok         bool
		results    int
	}
	var checks []*chk
	// (1) results counted per sent check: the cause of a callback is the event recorded just before it
	var lastCause *loopEv
	for i := range evs {
		e := &evs[i]
		switch e.Kind {
		case 't':
			for len(checks) <= e.K {
				checks = append(checks, &chk{})
			}
			checks[e.K].sent = e.T
			lastCause = e
		case 'r':
			checks[e.K].resp, checks[e.K].hasResp, checks[e.K].ok = e.T, true, e.Ok
			lastCause = e
		case 'o':
			lastCause = e
		case 'c':
			if lastCause == nil || lastCause.Kind == 't' {
				return "healthcheck:loop:result-without-cause", fmt.Sprintf("a result was reported at %v with no response or timeout before it", e.T)
			}
			if lastCause.Kind == 'o' {
				if len(checks) > 0 {
					checks[len(checks)-1].results++
				}
			} else {
				checks[lastCause.K].results++
			}
			lastCause = nil
		}
	}
	for k, c := range checks {
		if c.results > 1 {
			return "healthcheck:loop:check-counted-more-than-once", fmt.Sprintf("check #%d (sent at %v, answered after %v) contributed %d results to the threshold automaton", k, c.sent, c.resp-c.sent, c.results)
		}
	}
	// (2) an answer that arrived before its check's timeout must be taken as that check's result
	for i := range evs {
		e := evs[i]
		if e.Kind != 'r' || e.T >= checks[e.K].sent+loopTimeout-loopMargin {
			continue
		}
		if i+1 >= len(evs) {
			continue // tail
		}
		if evs[i+1].Kind != 'c' || evs[i+1].IsHealthy != e.Ok {
			return "healthcheck:loop:in-time-response-ignored", fmt.Sprintf("check #%d answered healthy=%v after %v (timeout %v) but the answer was not taken as its result", e.K, e.Ok, e.T-checks[e.K].sent, loopTimeout)
		}
	}
	// (3) threshold exactness over checks: outcome of a check = its answer if in time, else timeout; in completion order
	type outc struct {
		t  time.Duration
		ok bool
	}
	var outs []outc
	last := time.Duration(0)
	if len(evs) > 0 {
		last = evs[len(evs)-1].T
	}
	for _, c := range checks {
		if c.hasResp && c.resp < c.sent+loopTimeout {
			outs = append(outs, outc{c.resp, c.ok})
		} else if c.sent+loopTimeout <= last {
			outs = append(outs, outc{c.sent + loopTimeout, false})
		}
	}
	sort.Slice(outs, func(i, j int) bool { return outs[i].t < outs[j].t })
	eu, eh := sc.U, sc.H
	if eu == 0 {
		eu = 1
	}
	if eh == 0 {
		eh = 1
	}
	var want []string
	unhealthy := sc.Init
	for i := range outs {
		runLen := 0
		for j := i; j >= 0 && outs[j].ok == outs[i].ok; j-- {
			runLen++
		}
		nu := unhealthy
		if !unhealthy && !outs[i].ok && runLen >= int(eu) {
			nu = true
		}
		if unhealthy && outs[i].ok && runLen >= int(eh) {
			nu = false
		}
		want = append(want, fmt.Sprintf("(%s, %s)", CoqBool(nu != unhealthy), CoqBool(outs[i].ok)))
		unhealthy = nu
	}
	_, _, got := loopAbstract(evs)
	// the last expected result may not have been reported yet when the run was cut
	if len(got) < len(want) && len(want)-len(got) <= 1 {
		want = want[:len(got)]
	}
	if strings.Join(got, ";") != strings.Join(want, ";") {
		return "healthcheck:loop:threshold-not-exact-over-checks", fmt.Sprintf("callbacks (changed, isHealthy) %v, required by the outcomes of the checks %v", got, want)
	}
	return "", ""
}

func c16loop(run *Run) {
	r := run.R
	info := cluster.NewClusterInfo(v2.Cluster{Name: "c16loop", LbType: v2.LB_RANDOM})
	// latency classes (ms), relative to timeout 60 and interval 80 (next check is sent ~140 after a timed-out one)
	fast := []int{5, 25, 40}
	mid := []int{85, 105, 120}        // after the timeout, before the next check
	slow := []int{160, 165, 230, 250} // after the next check has been sent
	var scs []*loopScenario
	fixed := []loopScenario{
		{U: 1, H: 1, Lat: []int{5, 5, 5}, Ok: []bool{true, false, true}},
		{U: 1, H: 1, Lat: []int{105, 5}, Ok: []bool{true, true}},                    // late success after the timeout
		{U: 2, H: 1, Lat: []int{105, 105, 5}, Ok: []bool{true, true, true}},         // slow checks must reach the threshold
		{U: 2, H: 2, Lat: []int{160, 40, 5, 5}, Ok: []bool{true, true, true, true}}, // very late answer while the next check is in flight
		{U: 1, H: 1, Init: true, Lat: []int{165, 40, 5}, Ok: []bool{false, true, true}},
		{U: 3, H: 2, Lat: []int{25, 105, 160, 40, 5}, Ok: []bool{false, false, true, true, true}},
	}
	for i := range fixed {
		scs = append(scs, &fixed[i])
	}
	for i := 0; i < run.N(90, 600); i++ {
		n := 2 + r.Intn(4)
		sc := &loopScenario{U: uint32(r.Intn(4)), H: uint32(r.Intn(4)), Init: r.Pct(30)}
		for k := 0; k < n; k++ {
			var l int
			switch x := r.Intn(10); {
			case x < 5:
				l = fast[r.Intn(len(fast))]
			case x < 8:
				l = mid[r.Intn(len(mid))]
			default:
				l = slow[r.Intn(len(slow))]
			}
			sc.Lat = append(sc.Lat, l)
			sc.Ok = append(sc.Ok, r.Pct(55))
		}
		scs = append(scs, sc)
	}
	type outT struct {
		evs      [][]loopEv
		skip     string
		sig, msg string
		failEvs  []loopEv
	}
	outs := make([]outT, len(scs))
	sem := make(chan struct{}, 24)
	var wg sync.WaitGroup
	for i := range scs {
		wg.Add(1)
		sem <- struct{}{}
		go func(i int) {
			defer wg.Done()
			defer func() { <-sem }()
			o := &outs[i]
			keys := map[string]int{}
			sigs := map[string]int{}
			sigMsg := map[string]string{}
			sigEvs := map[string][]loopEv{}
			for attempt := 0; attempt < 3; attempt++ {
				evs := runLoopScenario(scs[i], info)
				if amb := loopAmbiguous(evs); amb != "" {
					o.skip = "events closer than the safety margin: " + amb
					continue
				}
				o.evs = append(o.evs, evs)
				key, _, _ := loopAbstract(evs)
				keys[key]++
				if sig, msg := loopFinder(scs[i], evs); sig != "" {
					sigs[sig]++
					sigMsg[sig], sigEvs[sig] = msg, evs
				}
				if keys[key] >= 2 {
					break
				}
			}
			// a finder verdict needs two margin-clean runs showing the same failure
			for sig, n := range sigs {
				if n >= 2 {
					o.sig, o.msg, o.failEvs = sig, sigMsg[sig], sigEvs[sig]
				}
			}
			// the model is compared only with a trace seen twice
			var stable []loopEv
			for _, evs := range o.evs {
				key, _, _ := loopAbstract(evs)
				if keys[key] >= 2 {
					stable = evs
				}
			}
			if stable == nil {
				if o.skip == "" {
					o.skip = "runs of the scenario did not agree with each other"
				}
				o.evs = nil
				return
			}
			o.skip = ""
			o.evs = [][]loopEv{stable}
		}(i)
	}
	wg.Wait()
	sh := run.NewShard("From MV Require Import Gen.HealthLoop Model.HealthCheck Model.HealthLoop.\nFrom Coq Require Import List NArith.\nImport ListNotations.\nOpen Scope N_scope.\n",
		"loop_case", "loop_mismatches hl_idmode")
	for i, sc := range scs {
		o := outs[i]
		if o.evs == nil {
			run.Sum.Distribution["loop:skipped"]++
			if len(run.Sum.Extra) < 12 {
				run.Sum.Extra[fmt.Sprintf("loop_skip_%d", i)] = o.skip
			}
			if o.sig != "" {
				var tl []string
				for _, e := range o.failEvs {
					tl = append(tl, fmt.Sprintf("%c%d@%dms", e.Kind, e.K, e.T.Milliseconds()))
				}
				run.Fail(o.sig, fmt.Sprintf("thresholds (unhealthy=%d, healthy=%d), check latencies %v ms, answers %v: %s", sc.U, sc.H, sc.Lat, sc.Ok, o.msg),
					map[string]interface{}{"part": "loop", "scenario": sc, "timeout_ms": loopTimeout.Milliseconds(), "interval_ms": loopInterval.Milliseconds(), "observed": strings.Join(tl, " ")})
			}
			continue
		}
		evs := o.evs[0]
		_, oe, cbs := loopAbstract(evs)
		late, burn := false, false
		sentAt := map[int]time.Duration{}
		inflight := -1
		for _, e := range evs {
			switch e.Kind {
			case 't':
				sentAt[e.K] = e.T
				inflight = e.K
			case 'r':
				if e.T > sentAt[e.K]+loopTimeout {
					late = true
					if inflight != e.K {
						burn = true
					}
				}
			}
		}
		kinds := []string{"loop:scenarios"}
		if late {
			kinds = append(kinds, "loop:with-late-response")
		}
		if burn {
			kinds = append(kinds, "loop:late-response-while-next-check-in-flight")
		}
		var tl []string
		for _, e := range evs {
			tl = append(tl, fmt.Sprintf("%c%d@%dms", e.Kind, e.K, e.T.Milliseconds()))
		}
		rep := map[string]interface{}{"part": "loop", "scenario": sc, "timeout_ms": loopTimeout.Milliseconds(), "interval_ms": loopInterval.Milliseconds(),
			"observed": strings.Join(tl, " "), "events": oe, "callbacks": cbs}
		run.Count(fmt.Sprintf("loop|%v", *sc), late, kinds...)
		if o.sig != "" {
			run.Fail(o.sig, fmt.Sprintf("thresholds (unhealthy=%d, healthy=%d), check latencies %v ms, answers %v: %s", sc.U, sc.H, sc.Lat, sc.Ok, o.msg), rep)
		}
		if late && len(run.Sum.Samples) < 6 && i%7 == 0 {
			run.Sample(rep)
		}
		sh.Add(fmt.Sprintf("(%d, %d, %s, %s, %s)", sc.U, sc.H, CoqBool(sc.Init), CoqList(oe), CoqList(cbs)), rep)
	}
	sh.Close()
}
