package main

import (
	"context"
	"fmt"
	"math/rand"
	"sort"
	"strings"

	"mosn.io/api"
	v2 "mosn.io/mosn/pkg/config/v2"
	"mosn.io/mosn/pkg/router"
	"mosn.io/mosn/pkg/types"
	"mosn.io/mosn/pkg/upstream/cluster"

	. "vh/vhlib"
)

// scripted rand.Source: Intn(n) of a rand.Rand over it returns `next` (for next < n <= 2^31-1).
type scriptSrc struct{ next int64 }

func (s *scriptSrc) Int63() int64 { return s.next << 32 }
func (s *scriptSrc) Seed(int64)   {}

type wcl struct {
	Name string `json:"name"`
	W    uint32 `json:"w"`
}

// feasibleExact: can cluster c be the answer for draw v under SOME storage order, if selection is
// exactly "cumulative intervals of length weight" (probability weight/total for each order)?
func feasibleExact(cs []wcl, c int, v int) bool {
	if cs[c].W == 0 {
		return false
	}
	var others []int
	for i := range cs {
		if i != c {
			others = append(others, int(cs[i].W))
		}
	}
	for m := 0; m < 1<<len(others); m++ {
		s := 0
		for i, w := range others {
			if m>>i&1 == 1 {
				s += w
			}
		}
		if s <= v && v < s+int(cs[c].W) {
			return true
		}
	}
	return false
}

func c06(args []string) int {
	run := NewRun("C06", args)
	r := run.R
	run.Sum.Rule = "clusters: weight vectors (zeros, ones, one dominant weight, power-of-two and other totals, 1-6 clusters) x EVERY draw value 0..total-1 x several calls (Go map order is re-randomised per call); a case is non-trivial when the rule has >=2 clusters; distinct by (weights, draw, answer). edf: weight vectors over 1..128 (2-6 hosts) x pick sequences of the real scheduler; non-trivial when not all weights are equal; distinct by (weights, length)."

	// ---------------- part 1: weighted clusters ----------------
	var vectors [][]uint32
	fixed := [][]uint32{{1}, {5}, {1, 1}, {0, 2}, {2, 0}, {1, 2}, {0, 0, 3}, {1, 1, 1}, {1, 0, 1}, {3, 5}, {90, 10},
		{1, 2, 3, 4}, {8, 8}, {16, 0, 16}, {1, 1, 1, 1, 1, 1}, {100, 1, 1}, {0, 1, 0, 1, 0, 1}, {7, 9, 0, 2}}
	vectors = append(vectors, fixed...)
	nrand := run.N(25, 300)
	for i := 0; i < nrand; i++ {
		n := 1 + r.Intn(6)
		v := make([]uint32, n)
		for j := range v {
			switch r.Intn(6) {
			case 0:
				v[j] = 0
			case 1:
				v[j] = 1
			case 2:
				v[j] = uint32(1 << r.Intn(6))
			default:
				v[j] = uint32(r.Intn(run.N(40, 400)))
			}
		}
		tot := 0
		for _, w := range v {
			tot += int(w)
		}
		if tot == 0 {
			v[0] = 1
		}
		vectors = append(vectors, v)
	}
	sh := run.NewShard("From MV Require Import Gen.SrcTokens Model.WCluster.\nFrom Coq Require Import List ZArith String.\nImport ListNotations.\nOpen Scope Z_scope.\n",
		"wc_case", "wc_mismatches wc_cmp")
	reps := run.N(6, 30)
	ctx := context.Background()
	for _, vec := range vectors {
		cs := make([]wcl, len(vec))
		var wcs []v2.WeightedCluster
		total := 0
		for i, w := range vec {
			cs[i] = wcl{Name: fmt.Sprintf("c%d", i), W: w}
			wcs = append(wcs, v2.WeightedCluster{Cluster: v2.ClusterWeight{ClusterWeightConfig: v2.ClusterWeightConfig{Name: cs[i].Name, Weight: w}}})
			total += int(w)
		}
		rt := &v2.Router{}
		rt.Route.ClusterName = "dflt"
		rt.Route.WeightedClusters = wcs
		rule, err := router.NewRouteRuleImplBase(nil, rt)
		if err != nil {
			fmt.Println("rule error", err)
			return 2
		}
		src := &scriptSrc{}
		rule.VerifSetRand(rand.New(src))
		var coqcs []string
		for _, c := range cs {
			coqcs = append(coqcs, fmt.Sprintf("(%s, %s)", CoqString(c.Name), CoqZ(int64(c.W))))
		}
		hist := map[string]int{}
		seen := map[string]bool{}
		if gt := int(rule.VerifTotalWeight()); gt != total {
			run.Fail("wcluster:draw-range-differs-from-weight-sum", fmt.Sprintf("the draw is taken from [0,%d) but the weights sum to %d (weights %v): probabilities are not weight/total", gt, total, vec),
				map[string]interface{}{"part": "clusters", "weights": cs, "draw_bound": gt, "sum": total})
			total = gt // explore the draw space the code really uses
		}
		for v := 0; v < total; v++ {
			for k := 0; k < reps; k++ {
				src.next = int64(v)
				got := rule.ClusterName(ctx)
				hist[got]++
				key := fmt.Sprintf("%v|%d|%s", vec, v, got)
				run.Count(key, len(vec) >= 2, fmt.Sprintf("clusters=%d", len(vec)))
				// finder: the property itself, evaluated on the implementation
				idx := -1
				for i := range cs {
					if cs[i].Name == got {
						idx = i
					}
				}
				rep := map[string]interface{}{"part": "clusters", "weights": cs, "draw": v, "total": total, "got": got}
				if idx < 0 {
					run.Fail("wcluster:default-returned-in-range", fmt.Sprintf("draw %d < total %d returned %q, not a weighted cluster", v, total, got), rep)
				} else if cs[idx].W == 0 {
					run.Fail("wcluster:zero-weight-selected", fmt.Sprintf("zero-weight cluster %s selected on draw %d (weights %v)", got, v, vec), rep)
				} else if !feasibleExact(cs, idx, v) {
					run.Fail("wcluster:draw-outside-exact-interval", fmt.Sprintf("cluster %s (weight %d) selected on draw %d, impossible for any storage order if each cluster owns exactly `weight` draws (weights %v)", got, cs[idx].W, v, vec), rep)
				}
				if seen[key] {
					continue
				}
				seen[key] = true
				sh.Add(fmt.Sprintf("(%s, %s, %s, %s)", CoqList(coqcs), CoqZ(int64(v)), CoqString("dflt"), CoqString(got)), rep)
				if sh.Len() >= 400 {
					sh.Close()
					sh = run.NewShard(sh.Header, sh.Typ, sh.Eval)
				}
			}
		}
		if len(vec) >= 2 {
			run.Sample(map[string]interface{}{"part": "clusters", "weights": vec, "total": total, "calls_per_draw": reps, "histogram": hist})
		}
	}
	sh.Close()

	// ---------------- part 1b: configured lists WITH DUPLICATE NAMES (the entries live in a map: last one wins) ----------------
	d2 := run.NewShard("From MV Require Import Gen.SrcTokens Model.WCluster.\nFrom Coq Require Import List ZArith String.\nImport ListNotations.\nOpen Scope Z_scope.\n",
		"wc_case2", "wc_mismatches2 wc_cmp")
	type cfgEntry struct {
		Name string `json:"name"`
		W    uint32 `json:"w"`
	}
	dupCfgs := [][]cfgEntry{{{"a", 10}, {"b", 20}, {"a", 30}}, {{"a", 30}, {"b", 20}, {"a", 10}}, {{"a", 1}, {"a", 1}}, {{"a", 0}, {"b", 2}, {"a", 3}}, {{"x", 5}, {"y", 5}, {"x", 0}}}
	for i := 0; i < run.N(15, 150); i++ {
		n := 2 + r.Intn(4)
		c := make([]cfgEntry, n)
		for j := range c {
			c[j] = cfgEntry{Name: fmt.Sprintf("c%d", r.Intn(3)), W: uint32(r.Intn(12))}
		}
		dupCfgs = append(dupCfgs, c)
	}
	for _, cfg := range dupCfgs {
		var wcs []v2.WeightedCluster
		stored := map[string]uint32{}
		var order []string
		for _, e := range cfg {
			wcs = append(wcs, v2.WeightedCluster{Cluster: v2.ClusterWeight{ClusterWeightConfig: v2.ClusterWeightConfig{Name: e.Name, Weight: e.W}}})
			if _, ok := stored[e.Name]; !ok {
				order = append(order, e.Name)
			}
			stored[e.Name] = e.W
		}
		sum := 0
		var cs []wcl
		for _, n := range order {
			sum += int(stored[n])
			cs = append(cs, wcl{Name: n, W: stored[n]})
		}
		if sum == 0 {
			continue
		}
		rt := &v2.Router{}
		rt.Route.ClusterName = "dflt"
		rt.Route.WeightedClusters = wcs
		rule, err := router.NewRouteRuleImplBase(nil, rt)
		if err != nil {
			continue
		}
		src := &scriptSrc{}
		rule.VerifSetRand(rand.New(src))
		bound := int(rule.VerifTotalWeight())
		rep := map[string]interface{}{"part": "clusters-duplicate-names", "configured": cfg, "stored_last_wins": cs, "draw_bound": bound, "stored_sum": sum}
		run.Count(fmt.Sprintf("dup|%v", cfg), true, "clusters-duplicate-names")
		if bound != sum {
			dir := "exceeds"
			if bound < sum {
				dir = "is-below"
			}
			run.Fail("wcluster:duplicate-names:draw-bound-"+dir+"-stored-weight-sum", fmt.Sprintf("configured %v: the map stores %v (sum %d) but the draw is taken from [0,%d): probabilities are not weight/total", cfg, cs, sum, bound), rep)
		}
		var coqcfg []string
		for _, e := range cfg {
			coqcfg = append(coqcfg, fmt.Sprintf("(%s, %s)", CoqString(e.Name), CoqZ(int64(e.W))))
		}
		seen := map[string]bool{}
		for v := 0; v < bound; v++ {
			for k := 0; k < reps; k++ {
				src.next = int64(v)
				got := rule.ClusterName(ctx)
				idx := -1
				for i := range cs {
					if cs[i].Name == got {
						idx = i
					}
				}
				if v < sum {
					if idx < 0 {
						run.Fail("wcluster:default-returned-in-range", fmt.Sprintf("draw %d < stored sum %d returned %q (configured %v)", v, sum, got, cfg), rep)
					} else if cs[idx].W == 0 {
						run.Fail("wcluster:zero-weight-selected", fmt.Sprintf("zero-weight cluster %s selected on draw %d (configured %v)", got, v, cfg), rep)
					} else if !feasibleExact(cs, idx, v) {
						run.Fail("wcluster:draw-outside-exact-interval", fmt.Sprintf("cluster %s selected on draw %d, impossible for any storage order (configured %v, stored %v)", got, v, cfg, cs), rep)
					}
				}
				key := fmt.Sprintf("%d|%s", v, got)
				if seen[key] {
					continue
				}
				seen[key] = true
				d2.Add(fmt.Sprintf("(%s, %s, %s, %s, %s)", CoqList(coqcfg), CoqZ(int64(bound)), CoqZ(int64(v)), CoqString("dflt"), CoqString(got)), rep)
			}
		}
	}
	d2.Close()

	// ---------------- part 2: EDF scheduler ----------------
	esh := run.NewShard("From MV Require Import Model.Edf.\nFrom Coq Require Import List ZArith.\nImport ListNotations.\nOpen Scope Z_scope.\n",
		"edf_case", "edf_mismatches")
	dsh := run.NewShard("From MV Require Import Model.Edf.\nFrom Coq Require Import List ZArith.\nImport ListNotations.\nOpen Scope Z_scope.\n",
		"edf_case", "edf_det_mismatches")
	evecs := [][]uint32{{1, 2}, {1, 128}, {2, 3}, {3, 6}, {1, 2, 4, 8}, {128, 64, 1}, {5, 7, 11}, {1, 1, 2}, {3, 3, 3, 5}, {100, 99}, {2, 4, 8, 16, 32, 64}}
	for i := 0; i < run.N(20, 200); i++ {
		n := 2 + r.Intn(5)
		v := make([]uint32, n)
		for j := range v {
			if r.Pct(30) {
				v[j] = uint32(1 << r.Intn(8))
			} else {
				v[j] = uint32(1 + r.Intn(128))
			}
		}
		evecs = append(evecs, v)
	}
	for i := 0; i < run.N(15, 150); i++ { // all-power-of-two vectors: float deadlines are exact, many ties
		n := 2 + r.Intn(7)
		v := make([]uint32, n)
		for j := range v {
			v[j] = uint32(1 << r.Intn(8))
		}
		evecs = append(evecs, v)
	}
	npicks := run.N(300, 3000)
	hsh := run.NewShard("From MV Require Import Model.EdfHeap.\nFrom Coq Require Import List ZArith.\nImport ListNotations.\nOpen Scope Z_scope.\n",
		"heap_case", "heap_mismatches")
	lay := func(l []int) string {
		var xs []string
		for _, x := range l {
			xs = append(xs, fmt.Sprintf("%d%%nat", x))
		}
		return CoqList(xs)
	}
	for _, vec := range evecs {
		ed := cluster.VerifNewEdf(len(vec))
		pow2 := true
		alleq := true
		for i, w := range vec {
			ed.Add(i, w)
			if w&(w-1) != 0 {
				pow2 = false
			}
			if w != vec[0] {
				alleq = false
			}
		}
		lay0 := ed.Layout()
		picks := make([]int, npicks)
		var steps []string
		for k := range picks {
			picks[k] = ed.Next()
			if k < 120 { // exact array layout after every pick (index-for-index tie to Model/EdfHeap.v); exact only when float deadlines are exact
				steps = append(steps, fmt.Sprintf("(%d%%nat, %s)", picks[k], lay(ed.Layout())))
			}
		}
		run.Count(fmt.Sprintf("edf|%v|%d", vec, npicks), !alleq, fmt.Sprintf("edf-hosts=%d", len(vec)))
		// finder: the window inequality itself on the Go sequence, for every window and every pair
		if bad := edfWindowViolation(vec, picks); bad != "" {
			run.Fail("edf:window-bound", bad, map[string]interface{}{"part": "edf", "weights": vec, "picks": picks})
		}
		var ws, ps []string
		for _, w := range vec {
			ws = append(ws, CoqZ(int64(w)))
		}
		for _, p := range picks {
			ps = append(ps, fmt.Sprintf("%d%%nat", p))
		}
		term := fmt.Sprintf("(%s, %s)", CoqList(ws), CoqList(ps))
		rep := map[string]interface{}{"part": "edf", "weights": vec, "npicks": npicks, "first_picks": picks[:20]}
		esh.Add(term, rep)
		if pow2 {
			var hws []string
			for _, w := range vec {
				hws = append(hws, CoqZ(int64(w)))
			}
			hsh.Add(fmt.Sprintf("(%s, %s, %s)", CoqList(hws), lay(lay0), CoqList(steps)), rep)
			dsh.Add(term, rep)
			run.Sum.Distribution["edf-pow2-exact"]++
		}
		if len(run.Sum.Samples) < 6 && !alleq {
			run.Sum.Samples = append(run.Sum.Samples, rep)
		}
	}
	esh.Close()
	dsh.Close()
	hsh.Close()

	// ---------------- part 2b: hosts ADDED to a running scheduler (Add interleaved with NextAndPush) ----------------
	osh := run.NewShard("From MV Require Import Model.Edf.\nFrom Coq Require Import List ZArith.\nImport ListNotations.\nOpen Scope Z_scope.\n",
		"edf_ops_case", "edf_ops_mismatches")
	for ci := 0; ci < run.N(40, 400); ci++ {
		n := 2 + r.Intn(4)
		ws := make([]uint32, n)
		for j := range ws {
			switch r.Intn(4) {
			case 0:
				ws[j] = 1
			case 1:
				ws[j] = 128
			default:
				ws[j] = uint32(1 + r.Intn(128))
			}
		}
		if ci == 0 {
			ws = []uint32{1, 128, 64}
		}
		ed := cluster.VerifNewEdf(len(ws))
		var ops []string
		var opsJ []interface{}
		added := 0
		add := func() {
			ed.Add(added, ws[added])
			added++
			ops = append(ops, "None")
			opsJ = append(opsJ, "add")
		}
		add()
		if r.Pct(70) || ci == 0 {
			add()
		}
		// segments of picks between Adds; the window bound must hold inside every segment for the hosts present
		bad := ""
		for added <= len(ws) {
			seg := 1 + r.Intn(run.N(200, 600))
			if ci == 0 && added == 2 {
				seg = 128
			}
			picks := make([]int, seg)
			for k := range picks {
				picks[k] = ed.Next()
				ops = append(ops, fmt.Sprintf("(Some %d%%nat)", picks[k]))
				opsJ = append(opsJ, picks[k])
			}
			if b := edfWindowViolation(ws[:added], picks); b != "" && bad == "" {
				bad = fmt.Sprintf("segment after %d Adds: %s", added, b)
			}
			if added == len(ws) {
				break
			}
			add()
		}
		run.Count(fmt.Sprintf("edfops|%v|%d", ws, len(ops)), true, "edf-add-after-picks")
		rep := map[string]interface{}{"part": "edf-add-interleaved", "weights_in_add_order": ws, "ops": opsJ}
		if bad != "" {
			run.Fail("edf:window-bound-after-late-add", bad, rep)
		}
		var wsz []string
		for _, w := range ws {
			wsz = append(wsz, CoqZ(int64(w)))
		}
		osh.Add(fmt.Sprintf("(%s, %s)", CoqList(wsz), CoqList(ops)), map[string]interface{}{"part": "edf-add-interleaved", "weights_in_add_order": ws, "nops": len(ops)})
		if osh.Len() >= 60 {
			osh.Close()
			osh = run.NewShard(osh.Header, osh.Typ, osh.Eval)
		}
	}
	osh.Close()

	// ---------------- part 2c: weights that CHANGE under a running scheduler ----------------
	// NextAndPush asks the weight function at every pick; a host's weight may go A -> B -> A (drained and restored).
	// Every pick is recorded with the weight reported at that pick and replayed in Model/EdfVar.v (time scaled by
	// D = lcm of the pool, so pools are chosen with a small lcm: non-tied exact deadlines then differ by >= 1/D,
	// far above float64 rounding). Finder: once the weights stand still and every host has been re-queued, the
	// window bound of the property holds with the final weights.
	vhdr := "From MV Require Import Model.Edf Model.EdfVar.\nFrom Coq Require Import List ZArith.\nImport ListNotations.\nOpen Scope Z_scope.\n"
	vsh := run.NewShard(vhdr, "edfw_case", "edfw_mismatches")
	pools := [][]uint32{{1, 2, 4, 8, 16, 32, 64, 128}, {1, 2, 3, 4, 6, 12}, {1, 2, 3, 4, 5, 6, 10, 12, 15, 20, 30, 60},
		{1, 2, 4, 5, 8, 10, 20, 25, 40, 50, 100}, {1, 3, 9, 27, 81}, {7, 14, 28, 56, 112}, {1, 2, 3, 6, 9, 18, 27, 54, 108}, {1, 127}, {128, 1}, {1, 11, 121}}
	nvar := run.N(40, 500)
	for ci := 0; ci < nvar; ci++ {
		var pool []uint32
		if ci < len(pools) || r.Pct(50) {
			pool = pools[ci%len(pools)]
		} else { // random pool with lcm <= 2^21
			pool = []uint32{1}
			l := uint64(1)
			for len(pool) < 4 {
				w := uint32(1 + r.Intn(128))
				if nl := lcm64(l, uint64(w)); nl <= 1<<21 {
					l = nl
					pool = append(pool, w)
				} else if r.Pct(30) {
					break
				}
			}
		}
		D := uint64(1)
		for _, w := range pool {
			D = lcm64(D, uint64(w))
		}
		n := 2 + r.Intn(4)
		cand := make([][]uint32, n) // the weights each host alternates between
		for i := range cand {
			k := 2 + r.Intn(2)
			for j := 0; j < k; j++ {
				cand[i] = append(cand[i], pool[r.Intn(len(pool))])
			}
		}
		type seg struct {
			picks  int
			host   int
			weight uint32
		}
		var script []seg
		if ci == 0 { // the drained-and-restored shape: weights 4,2,1; host 0 goes 4 -> 1 -> 4
			D, n = 4, 3
			cand = [][]uint32{{4, 1}, {2}, {1}}
			script = []seg{{14, 0, 1}, {12, 0, 4}}
		} else {
			for k := 0; k < 2+r.Intn(8); k++ {
				h := r.Intn(n)
				script = append(script, seg{1 + r.Intn(60), h, cand[h][r.Intn(len(cand[h]))]})
			}
			if r.Pct(60) { // make sure an A -> B -> A round trip of one host is in the history
				h := r.Intn(n)
				script = append(script, seg{1 + r.Intn(40), h, cand[h][1]}, seg{1 + r.Intn(40), h, cand[h][0]})
			}
		}
		ed := cluster.VerifNewEdfW(n)
		cur := make([]uint32, n)
		var ops []string
		var opsJ []interface{}
		late := -1
		if ci != 0 && n > 2 && r.Pct(30) {
			late = n - 1 // the last host joins after the first segment
		}
		for i := 0; i < n; i++ {
			cur[i] = cand[i][0]
			if i == late {
				continue
			}
			ed.Add(cur[i])
			ops = append(ops, fmt.Sprintf("WAddW %d", cur[i]))
			opsJ = append(opsJ, fmt.Sprintf("add w=%d", cur[i]))
		}
		bad := ""
		pick := func() int {
			id, w := ed.Next()
			if id < 0 || id >= n || w != cur[id] {
				if bad == "" {
					bad = fmt.Sprintf("pick returned id %d weight %d (current weights %v)", id, w, cur)
				}
				return -1
			}
			ops = append(ops, fmt.Sprintf("WPickW %d%%nat %d", id, w))
			opsJ = append(opsJ, []int{id, int(w)})
			return id
		}
		for si, sg := range script {
			for k := 0; k < sg.picks; k++ {
				pick()
			}
			if si == 0 && late >= 0 {
				ed.Add(cur[late])
				ops = append(ops, fmt.Sprintf("WAddW %d", cur[late]))
				opsJ = append(opsJ, fmt.Sprintf("add w=%d", cur[late]))
			}
			cur[sg.host] = sg.weight
			ed.SetWeight(sg.host, sg.weight)
			opsJ = append(opsJ, fmt.Sprintf("set host %d w=%d", sg.host, sg.weight))
		}
		// warm-up: until every host has been re-queued under the final weights (bounded), then the window
		seen := map[int]bool{}
		for k := 0; k < 4000 && len(seen) < n && bad == ""; k++ {
			seen[pick()] = true
		}
		if len(seen) < n && bad == "" {
			bad = fmt.Sprintf("a host was not picked once in 4000 picks (weights %v)", cur)
		}
		win := make([]int, 0, 400)
		for k := 0; k < run.N(300, 1200) && bad == ""; k++ {
			win = append(win, pick())
		}
		rep := map[string]interface{}{"part": "edf-weight-changes", "D": D, "final_weights": append([]uint32{}, cur...), "ops": opsJ}
		run.Count(fmt.Sprintf("edfw|%v|%v|%d", cand, script, len(ops)), true, "edf-weight-changes")
		if bad == "" {
			if b := edfWindowViolation(cur, win); b != "" {
				bad = "after the weights stood still and every host was re-queued once: " + b
			}
		}
		if bad != "" {
			run.Fail("edf:window-bound-after-weight-change", bad, rep)
		}
		small := map[string]interface{}{"part": "edf-weight-changes", "D": D, "candidate_weights": cand, "final_weights": append([]uint32{}, cur...), "nops": len(ops)}
		vsh.Add(fmt.Sprintf("(%d, %s)", D, CoqList(ops)), small)
		if len(run.Sum.Samples) < 8 && ci < 2 {
			run.Sum.Samples = append(run.Sum.Samples, small)
		}
		if vsh.Len() >= 25 {
			vsh.Close()
			vsh = run.NewShard(vhdr, "edfw_case", "edfw_mismatches")
		}
	}
	vsh.Close()

	// ---------------- part 3: the weighted round robin BALANCER (EdfLoadBalancer.refresh + ChooseHost) ----------------
	// all hosts healthy; the balancer is rebuilt several times so that different numbers of random pre-picks are seen
	wsh := run.NewShard("From MV Require Import Model.Edf.\nFrom Coq Require Import List ZArith.\nImport ListNotations.\nOpen Scope Z_scope.\n",
		"edf_case", "wrr_mismatches")
	winfo := cluster.NewClusterInfo(v2.Cluster{Name: "c06wrr", LbType: v2.LbType(types.WeightedRoundRobin)})
	wvecs := [][]uint32{{1, 128}, {128, 1}, {1, 2}, {2, 1, 1}, {1, 1, 1, 100}, {3, 3, 3}, {5, 5}, {1, 2, 3, 64}, {0, 7}, {200, 1}, {300, 128, 64}}
	for i := 0; i < run.N(12, 120); i++ {
		n := 2 + r.Intn(4)
		v := make([]uint32, n)
		for j := range v {
			switch r.Intn(5) {
			case 0:
				v[j] = 1
			case 1:
				v[j] = 128
			default:
				v[j] = uint32(1 + r.Intn(128))
			}
		}
		wvecs = append(wvecs, v)
	}
	wpicks := run.N(200, 1500)
	for vi, vec := range wvecs {
		eff := make([]uint32, len(vec)) // effective weights after fixHostWeight: clamp to 1..128
		alleq := true
		for i, w := range vec {
			eff[i] = w
			if w < 1 {
				eff[i] = 1
			}
			if w > 128 {
				eff[i] = 128
			}
			if w != vec[0] {
				alleq = false
			}
		}
		for rep := 0; rep < run.N(6, 20); rep++ {
			var hosts []types.Host
			idx := map[string]int{}
			for i, w := range vec {
				addr := fmt.Sprintf("10.6.%d.%d:%d", vi%250, i, 1000+rep)
				h := cluster.NewSimpleHost(v2.Host{HostConfig: v2.HostConfig{Address: addr, Weight: w}}, winfo)
				h.ClearHealthFlag(api.FAILED_ACTIVE_HC)
				h.ClearHealthFlag(api.FAILED_OUTLIER_CHECK)
				hosts = append(hosts, h)
				idx[addr] = i
			}
			lb := cluster.NewLoadBalancer(winfo, cluster.NewHostSet(hosts))
			picks := make([]int, wpicks)
			bad := ""
			for k := range picks {
				h := lb.ChooseHost(nil)
				if h == nil {
					bad = fmt.Sprintf("ChooseHost returned nil at pick %d with all hosts healthy", k)
					picks = picks[:k]
					break
				}
				picks[k] = idx[h.AddressString()]
			}
			run.Count(fmt.Sprintf("wrr|%v|%d", vec, rep), !alleq, fmt.Sprintf("wrr-hosts=%d", len(vec)))
			rep2 := map[string]interface{}{"part": "wrr-balancer", "weights": vec, "effective_weights": eff, "npicks": len(picks), "first_picks": picks[:minInt(40, len(picks))]}
			if bad == "" {
				bad = edfWindowViolation(eff, picks)
			}
			if bad != "" {
				run.Fail("wrr:window-bound", "weighted round robin balancer (all hosts healthy): "+bad, rep2)
			}
			if !alleq { // with equal weights there is no scheduler (plain round robin): only the finder applies
				var ws, ps []string
				for _, w := range eff {
					ws = append(ws, CoqZ(int64(w)))
				}
				for _, p := range picks[:minInt(120, len(picks))] {
					ps = append(ps, fmt.Sprintf("%d%%nat", p))
				}
				wsh.Add(fmt.Sprintf("(%s, %s)", CoqList(ws), CoqList(ps)), rep2)
			}
		}
	}
	wsh.Close()

	// ---------------- part 3b: the BALANCER with hosts whose weight changes (4 -> 1 -> 4 ...) ----------------
	wwsh := run.NewShard("From MV Require Import Model.Edf Model.EdfVar.\nFrom Coq Require Import List ZArith.\nImport ListNotations.\nOpen Scope Z_scope.\n",
		"wrrw_case", "wrrw_mismatches")
	wpools := [][]uint32{{4, 2, 1}, {6, 3, 2}, {1, 2, 4, 8, 16, 32, 64, 128}, {1, 2, 3, 4, 6, 12}, {5, 10, 20, 40}, {1, 3, 9, 27}}
	for ci := 0; ci < run.N(16, 160); ci++ {
		pool := wpools[ci%len(wpools)]
		D := uint64(1)
		for _, w := range pool {
			D = lcm64(D, uint64(w))
		}
		n := 2 + r.Intn(3)
		cur := make([]uint32, n)
		orig := make([]uint32, n)
		var hosts []types.Host
		idx := map[string]int{}
		whs := make([]*c06WHost, n)
		for i := 0; i < n; i++ {
			cur[i] = pool[(i+ci/len(wpools))%len(pool)]
			if i > 0 && ci >= len(wpools) {
				cur[i] = pool[r.Intn(len(pool))]
			}
			orig[i] = cur[i]
			addr := fmt.Sprintf("10.66.%d.%d:%d", ci%250, i, 2000+ci/250)
			h := cluster.NewSimpleHost(v2.Host{HostConfig: v2.HostConfig{Address: addr, Weight: cur[i]}}, winfo)
			h.ClearHealthFlag(api.FAILED_ACTIVE_HC)
			h.ClearHealthFlag(api.FAILED_OUTLIER_CHECK)
			whs[i] = &c06WHost{Host: h, w: cur[i]}
			hosts = append(hosts, whs[i])
			idx[addr] = i
		}
		alleq := true
		for _, w := range cur {
			if w != cur[0] {
				alleq = false
			}
		}
		if alleq { // equal weights at construction: no scheduler is built (plain round robin), nothing to observe here
			cur[0] = pool[0]
			if cur[0] == cur[1] {
				cur[0] = pool[1]
			}
			orig[0] = cur[0]
			whs[0].w = cur[0]
		}
		lb := cluster.NewLoadBalancer(winfo, cluster.NewHostSet(hosts))
		var ops []string
		var opsJ []interface{}
		bad := ""
		pick := func() int {
			h := lb.ChooseHost(nil)
			if h == nil {
				if bad == "" {
					bad = "ChooseHost returned nil with all hosts healthy"
				}
				return -1
			}
			i := idx[h.AddressString()]
			ops = append(ops, fmt.Sprintf("WPickW %d%%nat %d", i, cur[i]))
			opsJ = append(opsJ, []int{i, int(cur[i])})
			return i
		}
		// host 0 leaves its weight and comes back to it; other hosts may change in between
		for k := 0; k < 1+r.Intn(40); k++ {
			pick()
		}
		for round := 0; round < 1+r.Intn(3); round++ {
			other := pool[r.Intn(len(pool))]
			for _, step := range []uint32{other, orig[0]} {
				cur[0] = step
				whs[0].w = step
				opsJ = append(opsJ, fmt.Sprintf("set host 0 w=%d", step))
				if r.Pct(30) {
					j := 1 + r.Intn(n-1)
					cur[j] = pool[r.Intn(len(pool))]
					whs[j].w = cur[j]
					opsJ = append(opsJ, fmt.Sprintf("set host %d w=%d", j, cur[j]))
				}
				for k := 0; k < 1+r.Intn(40); k++ {
					pick()
				}
			}
		}
		seen := map[int]bool{}
		for k := 0; k < 4000 && len(seen) < n && bad == ""; k++ {
			seen[pick()] = true
		}
		var win []int
		for k := 0; k < run.N(200, 800) && bad == ""; k++ {
			win = append(win, pick())
		}
		rep := map[string]interface{}{"part": "wrr-balancer-weight-changes", "D": D, "initial_weights": orig, "final_weights": append([]uint32{}, cur...), "ops": opsJ}
		run.Count(fmt.Sprintf("wrrw|%v|%v|%d", orig, cur, len(ops)), true, "wrr-weight-changes")
		if bad == "" && len(seen) == n {
			if b := edfWindowViolation(cur, win); b != "" {
				bad = "after the weights stood still and every host was re-queued once: " + b
			}
		}
		if bad != "" {
			run.Fail("wrr:window-bound-after-weight-change", bad, rep)
		}
		var wsz []string
		for _, w := range orig {
			wsz = append(wsz, CoqZ(int64(w)))
		}
		if len(ops) > 260 {
			ops = ops[:260]
		}
		wwsh.Add(fmt.Sprintf("(%d, %s, %s)", D, CoqList(wsz), CoqList(ops)), map[string]interface{}{"part": "wrr-balancer-weight-changes", "D": D, "initial_weights": orig, "final_weights": append([]uint32{}, cur...), "nops": len(ops)})
	}
	wwsh.Close()

	// ---------------- part 3c: the BALANCER built while some hosts are UNHEALTHY, which recover later ----------------
	// refresh queues every host (healthy or not); ChooseHost skips unhealthy picks (up to `total`, then the unweighted
	// fallback). After all hosts are healthy again every window must meet the bound - without any rebuild.
	whsh := run.NewShard("From MV Require Import Model.Edf Model.EdfHealth.\nFrom Coq Require Import List ZArith.\nImport ListNotations.\nOpen Scope Z_scope.\n",
		"wrrh_case", "wrrh_mismatches")
	for ci := 0; ci < run.N(24, 240); ci++ {
		pool := wpools[ci%len(wpools)]
		D := uint64(1)
		for _, w := range pool {
			D = lcm64(D, uint64(w))
		}
		n := 2 + r.Intn(3)
		ws := make([]uint32, n)
		for i := range ws {
			ws[i] = pool[r.Intn(len(pool))]
		}
		if ci == 0 { // the shape of the recovered heavy host: weights 1,2,5 -> pool {4,2,1}: 1,2,4 with the heaviest down at build time
			n, ws = 3, []uint32{1, 2, 4}
		}
		alleq := true
		for _, w := range ws {
			if w != ws[0] {
				alleq = false
			}
		}
		if alleq {
			ws[0] = pool[0]
			if ws[0] == ws[1] {
				ws[0] = pool[1]
			}
		}
		var hosts []types.Host
		idx := map[string]int{}
		hs := make([]types.Host, n)
		for i := 0; i < n; i++ {
			addr := fmt.Sprintf("10.67.%d.%d:%d", ci%250, i, 3000+ci/250)
			h := cluster.NewSimpleHost(v2.Host{HostConfig: v2.HostConfig{Address: addr, Weight: ws[i]}}, winfo)
			h.ClearHealthFlag(api.FAILED_ACTIVE_HC)
			h.ClearHealthFlag(api.FAILED_OUTLIER_CHECK)
			hs[i] = h
			hosts = append(hosts, h)
			idx[addr] = i
		}
		unh := make([]bool, n)
		setUnh := func(i int, v bool) {
			unh[i] = v
			if v {
				hs[i].SetHealthFlag(api.FAILED_ACTIVE_HC)
			} else {
				hs[i].ClearHealthFlag(api.FAILED_ACTIVE_HC)
			}
		}
		nHealthy := func() int {
			c := 0
			for _, u := range unh {
				if !u {
					c++
				}
			}
			return c
		}
		// unhealthy at build time: a non-empty proper subset (case 0: the heaviest host)
		if ci == 0 {
			setUnh(2, true)
		} else {
			for i := 0; i < n; i++ {
				if r.Pct(45) && nHealthy() > 1 {
					setUnh(i, true)
				}
			}
			if nHealthy() == n {
				setUnh(r.Intn(n), true)
			}
		}
		builtUnh := append([]bool{}, unh...)
		lb := cluster.NewLoadBalancer(winfo, cluster.NewHostSet(hosts))
		var obs []string
		var obsJ []interface{}
		bad := ""
		flags := func() string {
			var xs []string
			for _, u := range unh {
				if u {
					xs = append(xs, "true")
				} else {
					xs = append(xs, "false")
				}
			}
			return CoqList(xs)
		}
		pick := func(record bool) int {
			h := lb.ChooseHost(nil)
			if h == nil {
				if bad == "" {
					bad = fmt.Sprintf("ChooseHost returned nil with %d healthy hosts", nHealthy())
				}
				return -1
			}
			i := idx[h.AddressString()]
			if unh[i] && bad == "" {
				bad = fmt.Sprintf("ChooseHost returned the unhealthy host %d", i)
			}
			if record {
				obs = append(obs, fmt.Sprintf("(%s, %d%%nat)", flags(), i))
				obsJ = append(obsJ, map[string]interface{}{"unhealthy": append([]bool{}, unh...), "picked": i})
			}
			return i
		}
		// phase A: picks while some hosts are unhealthy, with further flips
		ka := 0
		if ci != 0 && r.Pct(60) {
			ka = 1 + r.Intn(10)
		}
		for k := 0; k < ka; k++ {
			pick(true)
			if r.Pct(25) {
				i := r.Intn(n)
				if unh[i] || nHealthy() > 1 {
					setUnh(i, !unh[i])
				}
			}
		}
		// recovery: every host healthy again, no rebuild
		for i := 0; i < n; i++ {
			setUnh(i, false)
		}
		var win []int
		for k := 0; k < run.N(200, 800) && bad == ""; k++ {
			win = append(win, pick(k < 40))
		}
		rep := map[string]interface{}{"part": "wrr-balancer-health-flips", "D": D, "weights": ws, "unhealthy_at_build": builtUnh, "observed": obsJ}
		run.Count(fmt.Sprintf("wrrh|%v|%v|%d", ws, builtUnh, ka), true, "wrr-health-flips")
		if bad == "" {
			if b := edfWindowViolation(ws, win); b != "" {
				bad = "all hosts healthy again (no rebuild), some were unhealthy when the balancer was built: " + b
			}
		}
		if bad != "" {
			run.Fail("wrr:window-bound-after-health-flip", bad, rep)
		}
		var wsz []string
		for _, w := range ws {
			wsz = append(wsz, CoqZ(int64(w)))
		}
		whsh.Add(fmt.Sprintf("(%d, %s, %s)", D, CoqList(wsz), CoqList(obs)), map[string]interface{}{"part": "wrr-balancer-health-flips", "D": D, "weights": ws, "unhealthy_at_build": builtUnh, "nobs": len(obs)})
		for i := 0; i < n; i++ {
			hs[i].ClearHealthFlag(api.FAILED_ACTIVE_HC)
		}
	}
	whsh.Close()
	return run.Finish()
}

// c06WHost is a host whose weight the harness changes while the balancer runs.
type c06WHost struct {
	types.Host
	w uint32
}

func (h *c06WHost) Weight() uint32 { return h.w }

// edfWindowViolation checks |n_i/w_i - n_j/w_j| <= 1/w_i + 1/w_j (multiplied by w_i*w_j) over every window.
func edfWindowViolation(ws []uint32, picks []int) string {
	n := len(ws)
	// prefix counts
	pre := make([][]int, len(picks)+1)
	pre[0] = make([]int, n)
	for k, p := range picks {
		row := make([]int, n)
		copy(row, pre[k])
		if p >= 0 && p < n {
			row[p]++
		} else {
			return fmt.Sprintf("pick %d out of range at step %d", p, k)
		}
		pre[k+1] = row
	}
	for i := 0; i < n; i++ {
		for j := i + 1; j < n; j++ {
			wi, wj := int(ws[i]), int(ws[j])
			// d(k) = cnt_i(k)*wj - cnt_j(k)*wi ; window (a,b]: |d(b)-d(a)| <= wi+wj ; it suffices to track min and max of d
			mn, mx := 0, 0
			for k := 1; k <= len(picks); k++ {
				d := pre[k][i]*wj - pre[k][j]*wi
				if d-mn > wi+wj || mx-d > wi+wj {
					return fmt.Sprintf("window ending at pick %d: hosts %d,%d weights %d,%d exceed the lag bound", k, i, j, wi, wj)
				}
				if d < mn {
					mn = d
				}
				if d > mx {
					mx = d
				}
			}
		}
	}
	return ""
}

func lcm64(a, b uint64) uint64 {
	x, y := a, b
	for y != 0 {
		x, y = y, x%y
	}
	return a / x * b
}

func minInt(a, b int) int {
	if a < b {
		return a
	}
	return b
}

var _ = sort.Strings
var _ = strings.Join
