package main

// C15, the criteria-merging step: histories of requests through ONE real route rule (metadata_match) with the REAL
// downStream.MetadataMatchCriteria (hook proxy.VerifMetadataMatchCriteria), some requests carrying dynamic metadata
// (variable VarRouterMeta).  The criteria of request k must be merge(route metadata_match, metadata of request k) -
// whatever the earlier requests were - and the route's own criteria must never change; the criteria then go to a real
// subset balancer and the hosts reached are compared with those reached by freshly built criteria.
// Compared with Model/Criteria.v (crit_mismatches under the shape read from the source).

import (
	"context"
	"fmt"
	"sort"
	"strings"

	"mosn.io/api"
	v2 "mosn.io/mosn/pkg/config/v2"
	"mosn.io/mosn/pkg/proxy"
	"mosn.io/mosn/pkg/router"
	"mosn.io/mosn/pkg/types"
	"mosn.io/mosn/pkg/upstream/cluster"
	"mosn.io/pkg/variable"

	. "vh/vhlib"
)

type critRoute struct {
	*router.RouteRuleImplBase
}

func (r *critRoute) HeaderMatchCriteria() api.KeyValueMatchCriteria { return nil }
func (r *critRoute) PathMatchCriterion() api.PathMatchCriterion     { return nil }

func critPairs(m api.MetadataMatchCriteria) (map[string]string, []string, bool) {
	if m == nil || (fmt.Sprintf("%v", m) == "<nil>") {
		return nil, nil, false
	}
	ret := map[string]string{}
	var order []string
	for _, kv := range m.MetadataMatchCriteria() {
		ret[kv.MetadataKeyName()] = kv.MetadataValue()
		order = append(order, kv.MetadataKeyName())
	}
	return ret, order, true
}

func coqOptPath(m map[string]string, some bool) string {
	if !some {
		return "None"
	}
	return "(Some " + coqPath(m) + ")"
}

func c15crit(run *Run) {
	r := run.R
	sh := run.NewShard("From MV Require Import Gen.CriteriaTokens Model.Subset Model.Criteria.\nFrom Coq Require Import List Arith.\nImport ListNotations.\n",
		"crit_case", "crit_mismatches crit_mode")
	hostSeq := 0
	nh := run.N(300, 3000)
	for hix := 0; hix < nh; hix++ {
		// ---- route metadata_match (0..2 pairs) and a cluster with subset selectors over its keys
		routeMeta := map[string]string{}
		for j := r.Intn(3); j > 0; j-- {
			routeMeta[ssKeys[r.Intn(3)]] = ssVals[r.Intn(3)]
		}
		if hix == 0 {
			routeMeta = map[string]string{"k2": "a"}
		}
		rt := &v2.Router{}
		rt.Route.ClusterName = "c15crit"
		if len(routeMeta) > 0 {
			rt.Route.MetadataMatch = api.Metadata(routeMeta)
		}
		base, err := router.NewRouteRuleImplBase(nil, rt)
		if err != nil {
			fmt.Println("route error", err)
			return
		}
		rule := &critRoute{base}
		pol := uint8(r.Intn(3))
		info := cluster.NewClusterInfo(v2.Cluster{Name: "c15crit", LbType: v2.LB_ROUNDROBIN, LBSubSetConfig: v2.LBSubsetConfig{
			FallBackPolicy: pol, SubsetSelectors: [][]string{{"k1"}, {"k2"}, {"k1", "k2"}, {"k2", "k3"}, {"k1", "k2", "k3"}}}})
		n := 3 + r.Intn(4)
		hosts := make([]types.Host, n)
		idOf := map[string]int{}
		for i := range hosts {
			m := map[string]string{}
			for _, k := range ssKeys[:3] {
				if r.Pct(80) {
					m[k] = ssVals[r.Intn(3)]
				}
			}
			hostSeq++
			addr := fmt.Sprintf("10.25.%d.%d:%d", (hostSeq>>8)&255, hostSeq&255, 1000+(hostSeq>>16))
			hosts[i] = cluster.NewSimpleHost(v2.Host{HostConfig: v2.HostConfig{Address: addr, Weight: 1}, MetaData: api.Metadata(m)}, info)
			idOf[addr] = i
		}
		lb := cluster.NewSubsetLoadBalancer(info, cluster.NewHostSet(hosts))
		reach := func(mmc api.MetadataMatchCriteria) string {
			seen := map[int]bool{}
			for k := 0; k < 2*n+3; k++ {
				if h := lb.ChooseHost(&ssCtx{lbCtx: lbCtx{ctx: variable.NewVariableContext(context.Background())}, mmc: mmc}); h != nil {
					seen[idOf[h.AddressString()]] = true
				}
			}
			var ids []int
			for id := range seen {
				ids = append(ids, id)
			}
			sort.Ints(ids)
			return fmt.Sprint(ids)
		}
		// ---- the history of requests
		nreq := 2 + r.Intn(5)
		var items, log []string
		failed := map[string]bool{}
		fail := func(sig, what string, rep interface{}) {
			if !failed[sig] {
				failed[sig] = true
				run.Fail(sig, what, rep)
			}
		}
		dyn := false
		for q := 0; q < nreq; q++ {
			var req map[string]string
			if r.Pct(55) {
				req = map[string]string{}
				for j := r.Intn(3); j > 0; j-- {
					req[ssKeys[r.Intn(3)]] = ssVals[r.Intn(4)]
				}
			}
			if hix == 0 { // a request naming another key, then a request without metadata
				req = []map[string]string{{"k1": "b"}, nil, {"k1": "z"}, nil}[q%4]
			}
			ctx := variable.NewVariableContext(context.Background())
			reqCopy := map[string]string{}
			if req != nil {
				dyn = true
				for k, v := range req {
					reqCopy[k] = v
				}
				variable.Set(ctx, types.VarRouterMeta, reqCopy)
			}
			used := proxy.VerifMetadataMatchCriteria(ctx, rule, info)
			usedMap, _, usedSome := critPairs(used)
			afterMap, _, afterSome := critPairs(rule.MetadataMatchCriteria("c15crit"))
			// ---- the property itself: merge(route configuration, this request), independent of the earlier requests
			var want map[string]string
			wantSome := false
			if req == nil {
				if len(routeMeta) > 0 {
					want, wantSome = routeMeta, true
				}
			} else {
				want, wantSome = map[string]string{}, true
				for k, v := range routeMeta {
					want[k] = v
				}
				for k, v := range req {
					want[k] = v
				}
			}
			log = append(log, fmt.Sprintf("request metadata %v -> criteria %v", req, usedMap))
			rep := map[string]interface{}{"part": "criteria", "route_metadata_match": routeMeta, "history": append([]string{}, log...)}
			if usedSome != wantSome || fmt.Sprint(usedMap) != fmt.Sprint(want) {
				fail("subset:criteria-depend-on-earlier-request", fmt.Sprintf("route metadata_match %v, request metadata %v: criteria %v, required %v; history: %s", routeMeta, req, usedMap, want, strings.Join(log, "; ")), rep)
			}
			if afterSome != (len(routeMeta) > 0) || (afterSome && fmt.Sprint(afterMap) != fmt.Sprint(routeMeta)) {
				fail("subset:route-criteria-mutated", fmt.Sprintf("route metadata_match %v: the route's own criteria are %v after: %s", routeMeta, afterMap, strings.Join(log, "; ")), rep)
			}
			var wantMMC api.MetadataMatchCriteria
			if wantSome {
				wantMMC = router.NewMetadataMatchCriteriaImpl(want)
			}
			var usedMMC api.MetadataMatchCriteria
			if usedSome {
				usedMMC = used
			}
			if a, b := reach(usedMMC), reach(wantMMC); a != b {
				fail("subset:hosts-depend-on-earlier-request", fmt.Sprintf("route metadata_match %v, request metadata %v: hosts reached %s, with the request's own criteria %v: %s; history: %s", routeMeta, req, a, want, b, strings.Join(log, "; ")), rep)
			}
			reqCoq := "None"
			if req != nil {
				reqCoq = "(Some " + coqPath(req) + ")"
			}
			items = append(items, fmt.Sprintf("(%s, %s, %s)", reqCoq, coqOptPath(usedMap, usedSome), coqOptPath(afterMap, afterSome)))
		}
		run.Count(fmt.Sprintf("crit|%v|%s", routeMeta, strings.Join(log, ";")), dyn && len(routeMeta) > 0, "criteria:histories")
		if dyn && len(routeMeta) > 0 && len(run.Sum.Samples) < 6 && hix%40 == 1 {
			run.Sample(map[string]interface{}{"part": "criteria", "route_metadata_match": routeMeta, "history": log})
		}
		sh.Add(fmt.Sprintf("(%s, %s)", coqOptPath(routeMeta, len(routeMeta) > 0), CoqList(items)), map[string]interface{}{"part": "criteria", "route_metadata_match": routeMeta, "history": log})
		if sh.Len() >= 500 {
			sh.Close()
			sh = run.NewShard(sh.Header, sh.Typ, sh.Eval)
		}
	}
	sh.Close()
}

// c15upd: stale state across updates.  One REAL cluster with subset balancing (both build modes), its hosts replaced
// A -> B -> A' where A' has the addresses of A with CHANGED metadata / health; after every UpdateHosts the cluster's
// published balancer must answer exactly like a balancer built afresh from the published host set.
func c15upd(run *Run) {
	r := run.R
	seq := 0
	for hix := 0; hix < run.N(60, 600); hix++ {
		mode := []cluster.SubsetBuildMode{cluster.SubsetPreIndexBuildMode, cluster.SubsetFilterBuildMode}[hix%2]
		cluster.SetSubsetBuildMode(mode)
		pol := uint8(r.Intn(3))
		dflt := map[string]string{}
		if r.Bool() {
			dflt[ssKeys[r.Intn(3)]] = ssVals[r.Intn(3)]
		}
		cfg := v2.Cluster{Name: "c15upd", ClusterType: v2.SIMPLE_CLUSTER, LbType: v2.LB_ROUNDROBIN, LBSubSetConfig: v2.LBSubsetConfig{
			FallBackPolicy: pol, DefaultSubset: dflt, SubsetSelectors: [][]string{{"k1"}, {"k2"}, {"k1", "k2"}, {"k1", "k2", "k3"}}}}
		cl := cluster.NewCluster(cfg)
		info := cl.Snapshot().ClusterInfo()
		n := 2 + r.Intn(4)
		addrs := make([]string, n+2)
		for i := range addrs {
			seq++
			addrs[i] = fmt.Sprintf("10.26.%d.%d:%d", (seq>>8)&255, seq&255, 1000+(seq>>16))
		}
		mkHosts := func(as []string) ([]types.Host, []map[string]string) {
			var hs []types.Host
			var ms []map[string]string
			for _, a := range as {
				m := map[string]string{}
				for _, k := range ssKeys[:3] {
					if r.Pct(80) {
						m[k] = ssVals[r.Intn(3)]
					}
				}
				h := cluster.NewSimpleHost(v2.Host{HostConfig: v2.HostConfig{Address: a, Weight: 1}, MetaData: api.Metadata(m)}, info)
				if r.Pct(15) {
					h.SetHealthFlag(api.FAILED_ACTIVE_HC)
				} else {
					h.ClearHealthFlag(api.FAILED_ACTIVE_HC)
				}
				hs = append(hs, h)
				ms = append(ms, m)
			}
			return hs, ms
		}
		var log []string
		for step, as := range [][]string{addrs[:n], addrs[2:], addrs[:n]} { // A -> B (overlapping) -> A with new attributes
			hosts, metas := mkHosts(as)
			cl.UpdateHosts(cluster.NewHostSet(hosts))
			log = append(log, fmt.Sprintf("UpdateHosts %v", metas))
			snap := cl.Snapshot()
			published := snap.LoadBalancer()
			var fresh types.LoadBalancer
			if mode == cluster.SubsetPreIndexBuildMode {
				fresh = cluster.NewSubsetLoadBalancerPreIndex(info, snap.HostSet())
			} else {
				fresh = cluster.NewSubsetLoadBalancer(info, snap.HostSet())
			}
			idOf := map[string]int{}
			for i, h := range hosts {
				idOf[h.AddressString()] = i
			}
			for q := 0; q < 6; q++ {
				var c map[string]string
				if q > 0 {
					c = map[string]string{}
					src := metas[r.Intn(len(metas))]
					for _, k := range ssKeys[:3] {
						if v, ok := src[k]; ok && r.Pct(60) {
							c[k] = v
						}
					}
				}
				var mmc api.MetadataMatchCriteria
				if c != nil {
					mmc = router.NewMetadataMatchCriteriaImpl(c)
				}
				obs := func(lb types.LoadBalancer) string {
					seen := map[int]bool{}
					for k := 0; k < 2*len(hosts)+3; k++ {
						if h := lb.ChooseHost(&ssCtx{lbCtx: lbCtx{ctx: variable.NewVariableContext(context.Background())}, mmc: mmc}); h != nil {
							id, ok := idOf[h.AddressString()]
							if !ok || hosts[id] != h {
								id = -1 - id // a host object that is not in the published set (stale)
							}
							seen[id] = true
						}
					}
					var ids []int
					for id := range seen {
						ids = append(ids, id)
					}
					sort.Ints(ids)
					return fmt.Sprint(lb.HostNum(mmc), lb.IsExistsHosts(mmc), ids)
				}
				a, b := obs(published), obs(fresh)
				run.Count(fmt.Sprintf("c15upd|%d|%d|%d", hix, step, q), step > 0, "subset-update:queries")
				if a != b || strings.Contains(a, "-") {
					run.Fail("subset:cluster-balancer-stale-after-update", fmt.Sprintf("build mode %d, criteria %v after %s: the cluster's balancer answers %s, a balancer built from the published host set %s", mode, c, strings.Join(log, " ; "), a, b),
						map[string]interface{}{"part": "subset-update", "build_mode": mode, "history": append([]string{}, log...), "criteria": c})
				}
			}
		}
	}
	cluster.SetSubsetBuildMode(cluster.SubsetPreIndexBuildMode)
}

// c15relabel: re-labelling through the REAL cluster manager.  One cluster with subset balancing (both build modes);
// every publication goes through UpdateClusterHosts (NewSimpleHostHandler) with the SAME addresses and labels changed
// in one of the shapes {key added, key removed, value changed, superset then value change of the added key, subset,
// unchanged}.  The oracle tracks the PUBLISHED labels per address (not the host object's own Metadata()): every query
// must be answered from them.
func c15relabel(run *Run) {
	r := run.R
	cm := cluster.NewClusterManagerSingleton(nil, nil, nil)
	sels := [][]string{{"k1"}, {"k2"}, {"k3"}, {"k1", "k2"}, {"k1", "k3"}, {"k2", "k3"}, {"k1", "k2", "k3"}}
	seq := 0
	for hix := 0; hix < run.N(80, 800); hix++ {
		mode := []cluster.SubsetBuildMode{cluster.SubsetPreIndexBuildMode, cluster.SubsetFilterBuildMode}[hix%2]
		cluster.SetSubsetBuildMode(mode)
		pol := uint8(r.Intn(3))
		dflt := map[string]string{}
		if r.Bool() {
			dflt[ssKeys[r.Intn(3)]] = ssVals[r.Intn(3)]
		}
		name := fmt.Sprintf("c15relabel-%d", hix%2)
		if err := cm.AddOrUpdatePrimaryCluster(v2.Cluster{Name: name, ClusterType: v2.SIMPLE_CLUSTER, LbType: v2.LB_ROUNDROBIN,
			LBSubSetConfig: v2.LBSubsetConfig{FallBackPolicy: pol, DefaultSubset: dflt, SubsetSelectors: sels}}); err != nil {
			fmt.Println("cluster error", err)
			return
		}
		n := 2 + r.Intn(3)
		addrs := make([]string, n)
		labels := make([]map[string]string, n) // PUBLISHED labels per address
		for i := range addrs {
			seq++
			addrs[i] = fmt.Sprintf("10.27.%d.%d:%d", (seq>>8)&255, seq&255, 1000+(seq>>16))
			labels[i] = map[string]string{}
			for _, k := range ssKeys[:3] {
				if r.Pct(45) {
					labels[i][k] = ssVals[r.Intn(3)]
				}
			}
		}
		if hix < 2 { // scripted: a label key is ADDED (nothing removed or changed), then only its value changes
			labels[0] = map[string]string{"k1": "a"}
		}
		var log []string
		failedSig := map[string]bool{}
		fail := func(sig, what string, rep interface{}) {
			if !failedSig[sig] {
				failedSig[sig] = true
				run.Fail(sig, what, rep)
			}
		}
		contains := func(m, c map[string]string) bool {
			for k, v := range c {
				if mv, ok := m[k]; !ok || mv != v {
					return false
				}
			}
			return true
		}
		for step := 0; step < 5; step++ {
			shape := "initial"
			if step > 0 {
				i := r.Intn(n)
				shape = []string{"key-added", "key-removed", "value-changed", "unchanged", "key-added", "subset"}[r.Intn(6)]
				if hix < 2 {
					i, shape = 0, []string{"", "key-added", "added-key-value-changed", "key-added", "value-changed"}[step]
				}
				m := map[string]string{}
				for k, v := range labels[i] {
					m[k] = v
				}
				var absent, present []string
				for _, k := range ssKeys[:3] {
					if _, ok := m[k]; ok {
						present = append(present, k)
					} else {
						absent = append(absent, k)
					}
				}
				switch shape {
				case "key-added":
					if len(absent) > 0 {
						m[absent[r.Intn(len(absent))]] = ssVals[r.Intn(3)]
					}
				case "key-removed":
					if len(present) > 0 {
						delete(m, present[r.Intn(len(present))])
					}
				case "value-changed", "added-key-value-changed":
					if len(present) > 0 {
						k := present[len(present)-1]
						m[k] = ssVals[(ssValNo(m[k]))%3] // the next value
					}
				case "subset":
					for _, k := range present {
						if r.Bool() {
							delete(m, k)
						}
					}
				}
				labels[i] = m
				shape = fmt.Sprintf("%s addr%d", shape, i)
			}
			var cfgs []v2.Host
			for i, a := range addrs {
				m := map[string]string{}
				for k, v := range labels[i] {
					m[k] = v
				}
				cfgs = append(cfgs, v2.Host{HostConfig: v2.HostConfig{Address: a, Weight: 1}, MetaData: api.Metadata(m)})
			}
			cm.UpdateClusterHosts(name, cfgs)
			log = append(log, fmt.Sprintf("publish (%s) %v", shape, labels))
			snap := cm.GetClusterSnapshot(context.Background(), name)
			rep := map[string]interface{}{"part": "relabel", "build_mode": mode, "fallback_policy": pol, "default_subset": dflt, "history": append([]string{}, log...)}
			idOf := map[string]int{}
			for i, a := range addrs {
				idOf[a] = i
			}
			// the live host set must report the published labels
			snap.HostSet().Range(func(h types.Host) bool {
				i := idOf[h.AddressString()]
				if fmt.Sprint(map[string]string(h.Metadata())) != fmt.Sprint(labels[i]) {
					fail("lb:hostset:stale-host-attributes:metadata", fmt.Sprintf("address #%d is published with labels %v, the live host reports %v; history: %s", i, labels[i], h.Metadata(), strings.Join(log, " ; ")), rep)
				}
				return true
			})
			lb := snap.LoadBalancer()
			for q := 0; q < 5; q++ {
				c := map[string]string{}
				src := labels[r.Intn(n)]
				if hix < 2 {
					src = labels[0]
				}
				for _, k := range ssKeys[:3] {
					if v, ok := src[k]; ok && (q == 0 || r.Pct(70)) {
						c[k] = v
					}
				}
				if len(c) == 0 {
					continue
				}
				mmc := router.NewMetadataMatchCriteriaImpl(c)
				seen := map[int]bool{}
				for k := 0; k < 2*n+3; k++ {
					if h := lb.ChooseHost(&ssCtx{lbCtx: lbCtx{ctx: variable.NewVariableContext(context.Background())}, mmc: mmc}); h != nil {
						seen[idOf[h.AddressString()]] = true
					}
				}
				var want []int
				for i := 0; i < n; i++ {
					if contains(labels[i], c) {
						want = append(want, i)
					}
				}
				run.Count(fmt.Sprintf("relabel|%d|%d|%d", hix, step, q), step > 0, "subset-relabel:queries")
				// every selector over k1..k3 is configured, all hosts are healthy: the subset applies iff some published labels match
				if len(want) > 0 {
					var got []int
					for i := 0; i < n; i++ {
						if seen[i] {
							got = append(got, i)
						}
					}
					if fmt.Sprint(got) != fmt.Sprint(want) || lb.HostNum(mmc) != len(want) || !lb.IsExistsHosts(mmc) {
						fail("subset:stale-labels-after-host-update", fmt.Sprintf("criteria %v: hosts reached %v (HostNum %d, exists %v), the published labels select %v; history: %s", c, got, lb.HostNum(mmc), lb.IsExistsHosts(mmc), want, strings.Join(log, " ; ")), rep)
					}
				} else {
					for i := range seen {
						if pol == 0 || (pol == 2 && !contains(labels[i], dflt)) {
							fail("subset:stale-labels-after-host-update", fmt.Sprintf("criteria %v match no published labels, fallback policy %d (default %v), yet address #%d (published labels %v) was chosen; history: %s", c, pol, dflt, i, labels[i], strings.Join(log, " ; ")), rep)
						}
					}
				}
			}
		}
		cm.UpdateClusterHosts(name, nil)
	}
	cluster.SetSubsetBuildMode(cluster.SubsetPreIndexBuildMode)
}
