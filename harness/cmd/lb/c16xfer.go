package main

// C16, part 5: host replacement at the same address as an actor on the shared flag word.  A slow-start cluster on the
// REAL cluster manager holds a host object wrapped so that the methods the replacement code may call on the OLD host
// (LastHealthCheckPassTime, HealthFlag, ContainHealthFlag) run scripted writer operations (health checker clears /
// sets FAILED_ACTIVE_HC, outlier regulator clears / sets FAILED_OUTLIER_CHECK through another host object of the
// address) before or after the underlying read: forced interleavings of UpdateClusterHosts -> NewSimpleHostHandler ->
// transferHostSetStates with the writers.  Finder: every flag must end as its last writer left it.
// Compared with Model/HealthTransfer.v (xfer_mismatches under the shape read from the source).

import (
	"fmt"
	"time"

	"mosn.io/api"
	v2 "mosn.io/mosn/pkg/config/v2"
	"mosn.io/mosn/pkg/types"
	"mosn.io/mosn/pkg/upstream/cluster"

	. "vh/vhlib"
)

type xferEnv struct {
	at     map[string][]func() // interference point -> actions
	events *[]string
}

func (e *xferEnv) fire(point string) {
	for _, f := range e.at[point] {
		f()
	}
	delete(e.at, point)
}

type xferHost struct {
	types.Host
	env *xferEnv
}

func (h *xferHost) LastHealthCheckPassTime() time.Time {
	h.env.fire("last-pass-time")
	return h.Host.LastHealthCheckPassTime()
}

func (h *xferHost) HealthFlag() api.HealthFlag {
	h.env.fire("before-flag-read")
	f := h.Host.HealthFlag()
	*h.env.events = append(*h.env.events, "T")
	h.env.fire("after-flag-read")
	return f
}

func (h *xferHost) ContainHealthFlag(flag api.HealthFlag) bool {
	h.env.fire("before-flag-read")
	r := h.Host.ContainHealthFlag(flag)
	*h.env.events = append(*h.env.events, "T")
	h.env.fire("after-flag-read")
	return r
}

func c16xfer(run *Run) {
	cm := cluster.NewClusterManagerSingleton(nil, nil, nil)
	const name = "c16xfer"
	if err := cm.AddOrUpdatePrimaryCluster(v2.Cluster{Name: name, ClusterType: v2.SIMPLE_CLUSTER, LbType: v2.LB_RANDOM,
		SlowStart: v2.SlowStartConfig{Mode: string(types.ModeDuration)}}); err != nil {
		fmt.Println("cluster error", err)
		return
	}
	sh := run.NewShard("From MV Require Import Gen.HealthXferTokens Model.Health Model.HealthTransfer.\nFrom Coq Require Import List NArith.\nImport ListNotations.\nOpen Scope N_scope.\n",
		"xfer_case", "xfer_mismatches xfer_mode")
	type wop struct {
		set  bool
		flag api.HealthFlag
	}
	w1s := [][]wop{{}, {{false, 1}}, {{true, 1}}, {{false, 1}, {true, 1}}, {{true, 1}, {false, 1}}}
	w2s := [][]wop{{}, {{false, 2}}, {{true, 2}}}
	points := []string{"before-update", "last-pass-time", "before-flag-read", "after-flag-read", "after-update"}
	seq := 0
	counter := 0
	for w0 := uint64(0); w0 < 4; w0++ {
		for _, w1 := range w1s {
			for _, w2 := range w2s {
				for _, p1 := range points {
					for _, p2 := range points {
						counter++
						if !run.Thorough() && len(w1) > 0 && len(w2) > 0 && counter%3 != 0 {
							continue // quick: a third of the two-writer scenarios
						}
						seq++
						addr := fmt.Sprintf("10.20.%d.%d:%d", (seq>>8)&255, seq&255, 3000+(seq>>16))
						cfg := v2.Host{HostConfig: v2.HostConfig{Address: addr, Weight: 1}}
						info := cm.GetClusterSnapshot(nil, name).ClusterInfo()
						writerObj := cluster.NewSimpleHost(cfg, info) // the object the writers hold (e.g. the checker session's host)
						oldObj := cluster.NewSimpleHost(cfg, info)
						var events []string
						env := &xferEnv{at: map[string][]func(){}, events: &events}
						if w0&1 != 0 {
							writerObj.SetHealthFlag(1)
						}
						if w0&2 != 0 {
							writerObj.SetHealthFlag(2)
						}
						mk := func(id int, ops []wop) func() {
							return func() {
								for _, o := range ops {
									if o.set {
										writerObj.SetHealthFlag(o.flag)
									} else {
										writerObj.ClearHealthFlag(o.flag)
									}
									events = append(events, fmt.Sprintf("W%d", id))
								}
							}
						}
						env.at[p1] = append(env.at[p1], mk(0, w1))
						env.at[p2] = append(env.at[p2], mk(1, w2))
						wrapped := &xferHost{Host: oldObj, env: env}
						cm.UpdateHosts(name, nil, func(c types.Cluster, _ []v2.Host) {
							c.UpdateHosts(cluster.NewHostSet([]types.Host{wrapped}))
						})
						env.fire("before-update")
						cm.UpdateClusterHosts(name, []v2.Host{cfg}) // the host replacement at the same address
						events = append(events, "U")                // the replacement has finished
						// whatever did not fire (the code never called that method) runs after the update
						for _, p := range points {
							env.fire(p)
						}
						final := uint64(writerObj.HealthFlag())
						// ---- the property itself: every flag ends as its last writer left it
						exp := w0
						last := map[uint64]string{}
						for _, ops := range [][]wop{w1, w2} {
							for _, o := range ops {
								if o.set {
									exp |= uint64(o.flag)
									last[uint64(o.flag)] = "set"
								} else {
									exp &^= uint64(o.flag)
									last[uint64(o.flag)] = "cleared"
								}
							}
						}
						rep := map[string]interface{}{"part": "transfer", "w0": w0, "checker_ops": fmt.Sprint(w1), "checker_at": p1, "outlier_ops": fmt.Sprint(w2), "outlier_at": p2,
							"events": events, "final": final, "required": exp}
						nontriv := false
						for i, e := range events {
							if e == "T" && i+1 < len(events) && events[i+1] != "T" && events[i+1] != "U" {
								nontriv = true
							}
						}
						run.Count(fmt.Sprintf("xfer|%d|%v|%s|%v|%s", w0, w1, p1, w2, p2), nontriv, "transfer:scenarios")
						if final != exp {
							for _, bit := range []uint64{1, 2} {
								switch {
								case final&bit != 0 && exp&bit == 0:
									run.Fail("health:flag-resurrected-by-host-replacement", fmt.Sprintf("condition %#x was %s by its last writer, yet it is set after the host of %s was replaced (w0=%#x, checker %v at %s, outlier %v at %s, events %v, final %#x)", bit, last[bit], addr, w0, w1, p1, w2, p2, events, final), rep)
								case final&bit == 0 && exp&bit != 0:
									run.Fail("health:lost-set-by-host-replacement", fmt.Sprintf("condition %#x was %s by its last writer, yet it is clear after the host of %s was replaced (w0=%#x, events %v, final %#x)", bit, last[bit], addr, w0, events, final), rep)
								}
							}
						}
						// ---- the case for the model: threads 0,1 = writers, 2 = the replacement
						coqOps := func(ops []wop) string {
							var xs []string
							for _, o := range ops {
								if o.set {
									xs = append(xs, fmt.Sprintf("HSet %d", o.flag))
								} else {
									xs = append(xs, fmt.Sprintf("HClear %d", o.flag))
								}
							}
							return CoqList(xs)
						}
						var sched []string
						for _, e := range events {
							switch e {
							case "W0":
								sched = append(sched, "0%nat")
							case "W1":
								sched = append(sched, "1%nat")
							case "T":
								sched = append(sched, "2%nat")
							case "U":
								sched = append(sched, "2%nat", "2%nat", "2%nat")
							}
						}
						sh.Add(fmt.Sprintf("(%d, [XWriter %s; XWriter %s; XTransfer XStart], %s, %d)", w0, coqOps(w1), coqOps(w2), CoqList(sched), final), rep)
						if sh.Len() >= 700 {
							sh.Close()
							sh = run.NewShard(sh.Header, sh.Typ, sh.Eval)
						}
					}
				}
			}
		}
	}
	sh.Close()
	cm.UpdateClusterHosts(name, nil)
}
