package main

// C05, cluster-manager level histories: AddOrUpdatePrimaryCluster, UpdateClusterHosts, AppendClusterHosts (incl. the
// same address twice inside one batch and re-appends), RemoveClusterHosts on the REAL cluster manager, one cluster per
// policy; after every operation the addresses of the published host set are compared with Model/HostSetOps.v, the set
// must be distinct by address, and lookups through the cluster's balancer must stay inside the set the operations
// define (computed independently: update => the batch, append => old + batch, remove => old - addresses).

import (
	"context"
	"fmt"
	"strings"

	"mosn.io/api"
	v2 "mosn.io/mosn/pkg/config/v2"
	"mosn.io/mosn/pkg/types"
	"mosn.io/mosn/pkg/upstream/cluster"
	"mosn.io/pkg/variable"
	"sync/atomic"

	. "vh/vhlib"
)

func c05cm(run *Run) {
	r := run.R
	cm := cluster.NewClusterManagerSingleton(nil, nil, nil)
	sh := run.NewShard("From MV Require Import Gen.HostSetTokens Model.HostSetOps.\nFrom Coq Require Import List Arith.\nImport ListNotations.\n",
		"cm_case", "cm_mismatches hs_append_distinct")
	addrOf := func(a int) string { return fmt.Sprintf("10.7.1.%d:80", 100+a) } // string order = numeric order
	noOf := func(s string) int {
		var a int
		fmt.Sscanf(s, "10.7.1.%d:80", &a)
		return a - 100
	}
	nh := run.N(25, 250)
	for _, pol := range c05Policies {
		name := "c05cm-" + pol.name
		if err := cm.AddOrUpdatePrimaryCluster(v2.Cluster{Name: name, ClusterType: v2.SIMPLE_CLUSTER, LbType: pol.lbType}); err != nil {
			fmt.Println("cluster error", err)
			continue
		}
		for hix := 0; hix < nh; hix++ {
			cm.UpdateClusterHosts(name, nil)
			for a := 0; a < 8; a++ {
				atomicClear(addrOf(a))
			}
			expected := map[int]bool{} // the set the operations define
			removed := map[int]bool{}  // removed and not added again
			var items, log []string
			failedSig := map[string]bool{}
			fail := func(sig, what string, rep interface{}) {
				if !failedSig[sig] {
					failedSig[sig] = true
					run.Fail(sig, what, rep)
				}
			}
			batch := func(maxLen int) []int {
				n := r.Intn(maxLen + 1)
				var l []int
				for i := 0; i < n; i++ {
					if len(l) > 0 && r.Pct(30) {
						l = append(l, l[r.Intn(len(l))]) // the same address again inside one batch
					} else {
						l = append(l, r.Intn(8))
					}
				}
				return l
			}
			wantWeight := map[int]uint32{} // "same address, different attributes": the weight the operations leave on an address
			unhealthy := map[int]bool{}    // health is a property of the ADDRESS: it survives host-object replacement
			type hostAttr struct {
				w        uint32
				hostname string
				tls      bool
				meta     map[string]string
			}
			wantAttr := map[int]hostAttr{} // what the operations leave on an address (metadata, hostname, tls flag, weight)
			cfgs := func(l []int) []v2.Host {
				var out []v2.Host
				batchSeen := map[int]bool{}
				for _, a := range l {
					at, had := wantAttr[a]
					switch x := r.Intn(10); {
					case had && x < 4: // re-labelled by ADDING a key, everything else as before
						m := map[string]string{}
						for _, k := range []string{"k1", "k2", "k3"} {
							if v, ok := at.meta[k]; ok {
								m[k] = v
							}
						}
						for _, k := range []string{"k1", "k2", "k3"} {
							if _, ok := m[k]; !ok {
								m[k] = []string{"a", "b", "c"}[r.Intn(3)]
								break
							}
						}
						at.meta = m
					case had && x < 6: // unchanged
					default:
						at = hostAttr{w: uint32(1 + r.Intn(5)), hostname: fmt.Sprintf("h%d", r.Intn(3)), tls: r.Pct(30), meta: map[string]string{}}
						for _, k := range []string{"k1", "k2", "k3"} {
							if r.Pct(40) {
								at.meta[k] = []string{"a", "b", "c"}[r.Intn(3)]
							}
						}
					}
					m := map[string]string{}
					for k, v := range at.meta {
						m[k] = v
					}
					out = append(out, v2.Host{HostConfig: v2.HostConfig{Address: addrOf(a), Weight: at.w, Hostname: at.hostname, TLSDisable: at.tls}, MetaData: api.Metadata(m)})
					if !batchSeen[a] { // NewHostSet keeps the first object of an address inside one batch
						batchSeen[a] = true
						wantWeight[a] = at.w
						wantAttr[a] = at
					}
				}
				return out
			}
			coqNats := func(l []int) string {
				var xs []string
				for _, a := range l {
					xs = append(xs, fmt.Sprint(a))
				}
				return CoqList(xs)
			}
			steps := 8
			if hix == 0 {
				steps = 3
			}
			for step := 0; step < steps; step++ {
				var l []int
				var op string
				kind := r.Intn(10)
				if hix%3 == 1 && step%2 == 1 {
					kind = 10 // a health flip through the host object currently published
				}
				if hix == 0 { // append a batch naming one address twice, remove it, look up
					kind = []int{4, 8, 4}[step]
				}
				switch {
				case kind < 2:
					l = batch(6)
					op = "MUpdate"
					cm.UpdateClusterHosts(name, cfgs(l))
					expected = map[int]bool{}
					for _, a := range l {
						expected[a] = true
						delete(removed, a)
					}
				case kind < 7:
					l = batch(4)
					if hix == 0 && step == 0 {
						l = []int{3, 5, 3}
					}
					if hix == 0 && step == 2 {
						l = []int{6}
					}
					op = "MAppend"
					cm.AppendClusterHosts(name, cfgs(l))
					for _, a := range l {
						expected[a] = true
						delete(removed, a)
					}
				case kind == 10:
					snap0 := cm.GetClusterSnapshot(context.Background(), name)
					if snap0.HostSet().Size() == 0 {
						continue
					}
					h := snap0.HostSet().Get(r.Intn(snap0.HostSet().Size()))
					a := noOf(h.AddressString())
					if unhealthy[a] {
						h.ClearHealthFlag(api.FAILED_ACTIVE_HC)
						delete(unhealthy, a)
					} else {
						h.SetHealthFlag(api.FAILED_ACTIVE_HC)
						unhealthy[a] = true
					}
					log = append(log, fmt.Sprintf("flip health of addr %d (unhealthy=%v)", a, unhealthy[a]))
				default:
					l = batch(3)
					if hix == 0 {
						l = []int{3}
					}
					op = "MRemove"
					var as []string
					for _, a := range l {
						as = append(as, addrOf(a))
						if expected[a] {
							removed[a] = true
						}
						delete(expected, a)
					}
					cm.RemoveClusterHosts(name, as)
				}
				if op != "" {
					log = append(log, fmt.Sprintf("%s %v", op, l))
				}
				snap := cm.GetClusterSnapshot(context.Background(), name)
				var got []int
				dup := false
				seen := map[int]bool{}
				staleAttr := ""
				staleMeta := ""
				anyHealthy := false
				snap.HostSet().Range(func(h types.Host) bool {
					a := noOf(h.AddressString())
					if seen[a] {
						dup = true
					}
					seen[a] = true
					got = append(got, a)
					if w, ok := wantWeight[a]; ok && h.Weight() != w && staleAttr == "" {
						staleAttr = fmt.Sprintf("addr %d is published with weight %d, the operations leave weight %d on it", a, h.Weight(), w)
					}
					if at, ok := wantAttr[a]; ok {
						cfg := h.Config()
						if fmt.Sprint(map[string]string(h.Metadata())) != fmt.Sprint(at.meta) && staleMeta == "" {
							staleMeta = fmt.Sprintf("metadata|addr %d is published with labels %v, the live host reports %v", a, at.meta, h.Metadata())
						}
						if h.Hostname() != at.hostname && staleMeta == "" {
							staleMeta = fmt.Sprintf("hostname|addr %d is published with hostname %q, the live host reports %q", a, at.hostname, h.Hostname())
						}
						if cfg.TLSDisable != at.tls && staleMeta == "" {
							staleMeta = fmt.Sprintf("tls|addr %d is published with tls_disable=%v, the live host reports %v", a, at.tls, cfg.TLSDisable)
						}
					}
					if h.Health() == unhealthy[a] && staleAttr == "" {
						staleAttr = fmt.Sprintf("addr %d is published with Health()=%v, the address is unhealthy=%v", a, h.Health(), unhealthy[a])
					}
					if !unhealthy[a] {
						anyHealthy = true
					}
					return true
				})
				if op != "" {
					items = append(items, fmt.Sprintf("(%s %s, %s)", op, coqNats(l), coqNats(got)))
				}
				rep := map[string]interface{}{"kind": "cluster-manager", "policy": pol.name, "history": append([]string{}, log...), "published": got}
				// ---- the property itself
				if staleMeta != "" {
					parts := strings.SplitN(staleMeta, "|", 2)
					fail("lb:hostset:stale-host-attributes:"+parts[0], fmt.Sprintf("%s: %s after: %s", pol.name, parts[1], strings.Join(log, "; ")), rep)
				}
				if staleAttr != "" {
					fail("lb:hostset:stale-host-attributes", fmt.Sprintf("%s: %s after: %s", pol.name, staleAttr, strings.Join(log, "; ")), rep)
				}
				if dup {
					fail("lb:hostset:duplicate-address", fmt.Sprintf("%s: the published host set %v names an address twice after: %s", pol.name, got, strings.Join(log, "; ")), rep)
				}
				for a := range seen {
					if !expected[a] {
						fail("lb:hostset:not-the-set-the-operations-define", fmt.Sprintf("%s: published host set %v contains addr %d which the operations (%s) do not leave in the cluster", pol.name, got, a, strings.Join(log, "; ")), rep)
					}
				}
				// lookups through the policy of this cluster (all hosts healthy)
				lb := snap.LoadBalancer()
				vctx := variable.NewVariableContext(context.Background())
				for k := 0; k < 2*len(got)+3; k++ {
					lctx := &lbCtx{ctx: vctx, route: &fakeRoute{rule: &fakeRule{pol: &fakePolicy{hp: &fakeHash{h: r.U64()}}}}}
					h := lb.ChooseHost(lctx)
					run.Sum.Distribution["cm-lookups"]++
					if h == nil {
						if len(expected) > 0 && len(got) > 0 && anyHealthy {
							fail("lb:"+pol.name+":no-host-while-healthy-exists", fmt.Sprintf("%s returned no host for the host set %v (all healthy)", pol.name, got), rep)
						}
						continue
					}
					a := noOf(h.AddressString())
					if unhealthy[a] && anyHealthy {
						fail("lb:"+pol.name+":unhealthy-host-returned", fmt.Sprintf("%s returned unhealthy addr %d while a healthy host is published, after: %s", pol.name, a, strings.Join(log, "; ")), rep)
					}
					if !expected[a] {
						sig := "lb:" + pol.name + ":non-member-returned"
						if removed[a] {
							sig = "lb:removed-host-still-returned"
						}
						fail(sig, fmt.Sprintf("%s returned addr %d after: %s (the operations leave %v in the cluster)", pol.name, a, strings.Join(log, "; "), keysOf(expected)), rep)
					}
				}
			}
			run.Count("cm|"+pol.name+"|"+strings.Join(log, ";"), len(log) >= 3, "kind:cluster-manager")
			sh.Add(CoqList(items), map[string]interface{}{"kind": "cluster-manager", "policy": pol.name, "history": log})
			if sh.Len() >= 400 {
				sh.Close()
				sh = run.NewShard(sh.Header, sh.Typ, sh.Eval)
			}
		}
		cm.UpdateClusterHosts(name, nil)
	}
	sh.Close()
}

func keysOf(m map[int]bool) []int {
	var out []int
	for i := 0; i < 64; i++ {
		if m[i] {
			out = append(out, i)
		}
	}
	return out
}

// atomicClear resets the shared health word of an address (between histories)
func atomicClear(addr string) { atomic.StoreUint64(cluster.GetHealthFlagPointer(addr), 0) }
