package main

// C05 - load balancers return only current, healthy members.  Runs every REAL policy of
// pkg/upstream/cluster (random, round robin, WRR, least request, least connection, peak EWMA, maglev,
// request RR) with scripted random draws (VerifSetRand), a known round-robin cursor and the observed EDF pick
// order, over every health pattern of small host sets, and compares with Model/LB.v case by case.
// The finder evaluates the property itself on the implementation (member / healthy / complete), the
// concurrent mode checks the snapshot statement while host sets are being replaced.

import (
	"context"
	"fmt"
	"math/rand"
	"net"
	"strconv"
	"sync"
	"sync/atomic"

	"github.com/trainyao/go-maglev"
	"mosn.io/api"
	v2 "mosn.io/mosn/pkg/config/v2"
	"mosn.io/mosn/pkg/types"
	"mosn.io/mosn/pkg/upstream/cluster"
	"mosn.io/pkg/variable"

	. "vh/vhlib"
)

// scripted rand.Source delivering a queue of values: Intn(n) returns the next value v (for v < n <= 2^31-1)
type queueSrc struct {
	vals []int64
	pos  int
}

func (s *queueSrc) Int63() int64 {
	v := int64(0)
	if s.pos < len(s.vals) {
		v = s.vals[s.pos]
	}
	s.pos++
	return v << 32
}
func (s *queueSrc) Seed(int64) {}

// ---- LoadBalancerContext with an optional route carrying a hash policy
type lbCtx struct {
	ctx   context.Context
	route api.Route
}

func (c *lbCtx) MetadataMatchCriteria() api.MetadataMatchCriteria { return nil }
func (c *lbCtx) DownstreamConnection() net.Conn                   { return nil }
func (c *lbCtx) DownstreamHeaders() api.HeaderMap                 { return nil }
func (c *lbCtx) DownstreamContext() context.Context               { return c.ctx }
func (c *lbCtx) DownstreamCluster() types.ClusterInfo             { return nil }
func (c *lbCtx) DownstreamRoute() api.Route                       { return c.route }

type fakeHash struct{ h uint64 }

func (f *fakeHash) GenerateHash(context.Context) uint64 { return f.h }

type fakePolicy struct {
	api.Policy
	hp api.HashPolicy
}

func (p *fakePolicy) HashPolicy() api.HashPolicy { return p.hp }

type fakeRule struct {
	api.RouteRule
	pol api.Policy
}

func (r *fakeRule) Policy() api.Policy { return r.pol }

type fakeRoute struct {
	api.Route
	rule api.RouteRule
}

func (r *fakeRoute) RouteRule() api.RouteRule { return r.rule }

// ---- host pool: hosts are reused across cases (stats and health word are per address), reset per case
type hostSpec struct {
	W       uint32 `json:"w"`
	Healthy bool   `json:"healthy"`
	Req     int64  `json:"req"`
	Conn    int64  `json:"conn"`
}

var c05Infos = map[string]types.ClusterInfo{}
var c05Hosts = map[string]types.Host{}

func c05Info(lbType v2.LbType, choice uint32) types.ClusterInfo {
	key := fmt.Sprintf("%s/%d", lbType, choice)
	if in, ok := c05Infos[key]; ok {
		return in
	}
	ch := choice
	in := cluster.NewClusterInfo(v2.Cluster{Name: "c05", LbType: lbType, LbConfig: &v2.LbConfig{ChoiceCount: &ch}})
	c05Infos[key] = in
	return in
}

func c05Host(info types.ClusterInfo, slot int, gen int, sp hostSpec) types.Host {
	addr := fmt.Sprintf("10.5.%d.%d:%d", sp.W%250, slot, 80+gen)
	h, ok := c05Hosts[addr]
	if !ok {
		h = cluster.NewSimpleHost(v2.Host{HostConfig: v2.HostConfig{Address: addr, Weight: sp.W}}, info)
		c05Hosts[addr] = h
	}
	if sp.Healthy {
		h.ClearHealthFlag(api.FAILED_ACTIVE_HC)
	} else {
		h.SetHealthFlag(api.FAILED_ACTIVE_HC)
	}
	st := h.HostStats()
	st.UpstreamRequestActive.Clear()
	st.UpstreamRequestActive.Inc(sp.Req)
	st.UpstreamConnectionActive.Clear()
	st.UpstreamConnectionActive.Inc(sp.Conn)
	return h
}

type polSpec struct {
	name   string
	coq    string
	lbType v2.LbType
}

var c05Policies = []polSpec{
	{"random", "PRandom", v2.LB_RANDOM},
	{"round_robin", "PRoundRobin", v2.LB_ROUNDROBIN},
	{"wrr", "PWRR", v2.LbType(types.WeightedRoundRobin)},
	{"least_request", "PLeastRequest", v2.LB_LEAST_REQUEST},
	{"least_connection", "PLeastConn", v2.LbType(types.LeastActiveConnection)},
	{"peak_ewma", "PPeakEwma", v2.LbType(types.PeakEwma)},
	{"maglev", "PMaglev", v2.LB_MAGLEV},
	{"request_rr", "PReqRR", v2.LbType(types.RequestRoundRobin)},
}

func coqVar(set bool, s string) string {
	if !set {
		return "VarUnset"
	}
	i, err := strconv.Atoi(s)
	if err != nil {
		return "VarBad"
	}
	return fmt.Sprintf("(VarInt %s)", CoqZ(int64(i)))
}

func c05(args []string) int {
	run := NewRun("C05", args)
	r := run.R
	run.Sum.Rule = "per policy (8): host sets of size 0..5 (thorough 0..6) x EVERY health pattern x weight vectors (equal / unequal -> EDF scheduler absent / present) x active-count vectors x round-robin cursors (0, random, 2^32-2) x scripted draw vectors (all of them for sets <= 3, random above) x choice counts (0..3) x retry re-entries on the same request context (maglev, request-RR) ; plus WRR call sequences on one real balancer with unequal weights and unhealthy hosts (all picks of all calls must be a run of the EDF scheduler model; window bound over healthy hosts), histories through a real cluster (ChooseHost / health flips / UpdateHosts), a concurrent replace-while-choosing run, and round robin under deterministic re-entrant lookups (sizes 1..7, every single-healthy position, cursors 2^32-1-k for k < 3*size, an interference - k foreign cursor increments, 1-2 complete nested lookups, a health flip - at every probe position of the lookup; non-trivial when the interference fired and the cursor wraps during the lookup); cluster-manager histories per policy (UpdateClusterHosts / AppendClusterHosts incl. the same address twice in a batch / RemoveClusterHosts, published addresses and lookups after every operation). A case is non-trivial when the set has >= 2 hosts and at least one unhealthy host; distinct by (policy, hosts, cursor, draws, picks, ctx)."
	header := "From MV Require Import Gen.LBTokens Model.LB.\nFrom Coq Require Import List ZArith NArith.\nImport ListNotations.\nOpen Scope Z_scope.\n"
	sh := run.NewShard(header, "lb_case", "lb_mismatches lr_fallback_aware lc_fallback_aware")
	gen := 0

	// one real ChooseHost call, recorded as a case
	type callEnv struct {
		pol    polSpec
		lb     types.LoadBalancer
		specs  []hostSpec
		hosts  []types.Host
		choice uint32
		picks  *[]int
		kind   string
	}
	idxOf := func(hosts []types.Host, h types.Host) int {
		for i, x := range hosts {
			if x.AddressString() == h.AddressString() {
				return i
			}
		}
		return -1
	}
	doCall := func(e *callEnv, rr uint32, draws []int64, vctx context.Context, hasPolicy bool, hash uint64) {
		n := len(e.hosts)
		src := &queueSrc{vals: draws}
		cluster.VerifSetRand(e.lb, rand.New(src))
		hasRR := cluster.VerifSetRRIndex(e.lb, rr)
		if !hasRR {
			rr = 0
		}
		*e.picks = (*e.picks)[:0]
		varBefore, errB := variable.GetString(vctx, cluster.VarProxyUpstreamIndex)
		lctx := &lbCtx{ctx: vctx}
		lookup := 0
		table := false
		if e.pol.name == "maglev" {
			var hp api.HashPolicy
			if hasPolicy {
				hp = &fakeHash{h: hash}
			}
			lctx.route = &fakeRoute{rule: &fakeRule{pol: &fakePolicy{hp: hp}}}
			if n > 0 {
				table = true
				names := make([]string, n)
				for i, h := range e.hosts {
					names[i] = h.AddressString()
				}
				lookup = maglev.New(names, uint64(maglev.SmallM)).Lookup(hash)
			}
		}
		drawsOrig := append([]int64{}, draws...)
		got := e.lb.ChooseHost(lctx)
		rrAfter, _ := cluster.VerifRRIndex(e.lb)
		if !hasRR {
			rrAfter = 0
		}
		varAfter, errA := variable.GetString(vctx, cluster.VarProxyUpstreamIndex)
		// ---- no state may leak from earlier calls: the same call on a FRESHLY built balancer in the same logical state
		// (same hosts, cursor, scripted draws, request context) must give the same answer.  (Balancers with an EDF
		// scheduler are excluded here: their pick order is covered by the wrr-sequence part and C06.)
		if !cluster.VerifHasScheduler(e.lb) {
			fresh := cluster.NewLoadBalancer(c05Info(e.pol.lbType, e.choice), cluster.NewHostSet(e.hosts))
			if !cluster.VerifHasScheduler(fresh) {
				cluster.VerifSetRand(fresh, rand.New(&queueSrc{vals: drawsOrig}))
				cluster.VerifSetRRIndex(fresh, rr)
				fctx := variable.NewVariableContext(context.Background())
				if errB == nil {
					variable.SetString(fctx, cluster.VarProxyUpstreamIndex, varBefore)
				}
				fgot := fresh.ChooseHost(&lbCtx{ctx: fctx, route: lctx.route})
				frr, _ := cluster.VerifRRIndex(fresh)
				if !hasRR {
					frr = 0
				}
				fvar, ferr := variable.GetString(fctx, cluster.VarProxyUpstreamIndex)
				same := (fgot == nil) == (got == nil) && frr == rrAfter && (ferr == nil) == (errA == nil) && fvar == varAfter
				if same && got != nil && fgot.AddressString() != got.AddressString() {
					same = false
				}
				if !same {
					run.Fail("lb:"+e.pol.name+":result-differs-from-fresh-balancer", fmt.Sprintf("%s: the balancer in use answered differently from a freshly built one in the same state (hosts %+v, cursor %d, draws %v, ctx index %q)", e.pol.name, e.specs, rr, drawsOrig, varBefore),
						map[string]interface{}{"policy": e.pol.name, "hosts": e.specs, "rr_cursor": rr, "draws": drawsOrig, "kind": e.kind})
				}
				run.Sum.Distribution["fresh-balancer-comparisons"]++
			}
		}
		used := src.pos
		if used > len(draws) {
			used = len(draws) // the source returned 0 for the missing ones; emit them as 0
			for len(draws) < src.pos {
				draws = append(draws, 0)
			}
			used = src.pos
		}
		// ---- the property itself
		anyHealthy := false
		for _, h := range e.hosts {
			if h.Health() {
				anyHealthy = true
			}
		}
		gi := -1
		rep := map[string]interface{}{"policy": e.pol.name, "hosts": e.specs, "rr_cursor": rr, "draws": draws[:used], "choice": e.choice,
			"ctx_index_before": varBefore, "ctx_index_set": errB == nil, "hash_policy": hasPolicy, "kind": e.kind}
		if got != nil {
			gi = idxOf(e.hosts, got)
			rep["got"] = got.AddressString()
			if gi < 0 {
				run.Fail("lb:"+e.pol.name+":non-member-returned", fmt.Sprintf("%s returned %s which is not in the current host set", e.pol.name, got.AddressString()), rep)
			} else if !got.Health() && anyHealthy {
				// (the text demands a healthy host "when at least one host is healthy"; with none healthy an unhealthy
				// answer is outside the statement and is only compared with the model)
				run.Fail("lb:"+e.pol.name+":unhealthy-host-returned", fmt.Sprintf("%s returned unhealthy host #%d while a healthy host exists (hosts %+v, draws %v)", e.pol.name, gi, e.specs, draws[:used]), rep)
			}
		} else {
			rep["got"] = nil
			pre := true
			if e.pol.name == "maglev" && !(table && hasPolicy) {
				pre = false
			}
			if errB == nil {
				if i, err := strconv.Atoi(varBefore); err == nil && i < -1 {
					pre = false
				}
			}
			if anyHealthy && pre {
				run.Fail("lb:"+e.pol.name+":no-host-while-healthy-exists", fmt.Sprintf("%s returned no host although a healthy host exists (hosts %+v)", e.pol.name, e.specs), rep)
			}
		}
		// ---- the case for the model
		var hs []string
		unhealthy := 0
		for i, sp := range e.specs {
			score := sp.Req
			hs = append(hs, fmt.Sprintf("mkHost %d %d%%N %s %d%%N %d%%N %d%%N", i, sp.W, CoqBool(sp.Healthy), sp.Req, sp.Conn, score))
			if !sp.Healthy {
				unhealthy++
			}
		}
		var ds, ps []string
		for _, d := range draws[:used] {
			ds = append(ds, CoqZ(d))
		}
		for _, p := range *e.picks {
			ps = append(ps, CoqZ(int64(p)))
		}
		res := "RNone"
		if got != nil {
			res = fmt.Sprintf("(RHost %d)", gi)
		}
		for i := range hs {
			hs[i] = "(" + hs[i] + ")"
		}
		term := fmt.Sprintf("(%s, %s, %d%%N, (%s, %s, %s, %d%%nat, %s, %s, %s, %s), (%s, %d%%N, %s))",
			e.pol.coq, CoqList(hs), rr, CoqList(ds), CoqList(ps), CoqBool(cluster.VerifHasScheduler(e.lb)), e.choice,
			CoqBool(table), CoqBool(hasPolicy), CoqZ(int64(lookup)), coqVar(errB == nil, varBefore),
			res, rrAfter, coqVar(errA == nil, varAfter))
		key := fmt.Sprintf("%s|%v|%d|%v|%v|%s|%v|%d", e.pol.name, e.specs, rr, draws[:used], *e.picks, varBefore, hasPolicy, lookup)
		run.Count(key, n >= 2 && unhealthy >= 1, "policy:"+e.pol.name, fmt.Sprintf("size=%d", n), "kind:"+e.kind)
		if n >= 3 && unhealthy >= 1 && unhealthy < n && len(run.Sum.Samples) < 6 && r.Pct(2) {
			run.Sample(rep)
		}
		sh.Add(term, rep)
		if sh.Len() >= 800 {
			sh.Close()
			sh = run.NewShard(sh.Header, sh.Typ, sh.Eval)
		}
	}
	build := func(pol polSpec, specs []hostSpec, choice uint32, kind string) *callEnv {
		info := c05Info(pol.lbType, choice)
		gen++
		hosts := make([]types.Host, len(specs))
		for i, sp := range specs {
			hosts[i] = c05Host(info, i, 0, sp)
		}
		lb := cluster.NewLoadBalancer(info, cluster.NewHostSet(hosts))
		e := &callEnv{pol: pol, lb: lb, specs: specs, hosts: hosts, choice: choice, picks: new([]int), kind: kind}
		cluster.VerifTracePicks(lb, func(h types.Host) {
			*e.picks = append(*e.picks, idxOf(e.hosts, h))
		})
		return e
	}
	rrs := func() []uint32 { return []uint32{0, uint32(r.U64()), 4294967294} }
	drawVectors := func(n, k int) [][]int64 {
		// all vectors in [0,n)^k when small, else 3 random ones
		if n == 0 {
			return [][]int64{{}}
		}
		tot := 1
		for i := 0; i < k; i++ {
			tot *= n
		}
		var out [][]int64
		if tot <= 27 {
			for m := 0; m < tot; m++ {
				v := make([]int64, k)
				x := m
				for i := range v {
					v[i] = int64(x % n)
					x /= n
				}
				out = append(out, v)
			}
			return out
		}
		for j := 0; j < 3; j++ {
			v := make([]int64, k)
			for i := range v {
				v[i] = int64(r.Intn(n))
			}
			out = append(out, v)
		}
		return out
	}
	maxN := run.N(5, 6)
	for _, pol := range c05Policies {
		for n := 0; n <= maxN; n++ {
			for pat := 0; pat < 1<<n; pat++ {
				counterPolicy := pol.name == "least_request" || pol.name == "least_connection" || pol.name == "peak_ewma"
				for wv := 0; wv < 3; wv++ {
					if n < 2 && wv >= 1 {
						continue
					}
					if wv == 2 && !counterPolicy {
						continue
					}
					specs := make([]hostSpec, n)
					for i := range specs {
						w := uint32(1)
						if wv == 1 {
							w = uint32(1 + (i*3)%5)
							if i == 0 {
								w = 7
							}
						}
						specs[i] = hostSpec{W: w, Healthy: pat>>i&1 == 1, Req: int64(r.Intn(4)), Conn: int64(r.Intn(4))}
						if wv == 2 {
							// counters as input: the UNHEALTHY hosts have the lowest counters, healthy ones sit at boundaries
							// (0, equal, MaxUint32, beyond 32 bits) - health must never be traded for load
							big := []int64{0, 7, 4294967295, 1 << 40}[(i+pat)%4]
							if pat%3 == 0 {
								big = 7 // all healthy hosts equal
							}
							if specs[i].Healthy {
								specs[i].Req, specs[i].Conn = big, big
							} else {
								specs[i].Req, specs[i].Conn = 0, 0
							}
						}
					}
					choice := uint32(2)
					if pol.name == "least_request" || pol.name == "least_connection" || pol.name == "peak_ewma" {
						choice = uint32([]int{2, 2, 1, 3, 0, 2, 5}[(pat+n+wv)%7])
					}
					e := build(pol, specs, choice, "enumerated")
					switch pol.name {
					case "maglev", "request_rr":
						// fresh context, then retry re-entries on the same context; plus odd stored values
						for _, hasPol := range []bool{true, false} {
							if pol.name == "request_rr" && !hasPol {
								continue
							}
							vctx := variable.NewVariableContext(context.Background())
							hash := r.U64()
							for k := 0; k <= n+1 && k < 5; k++ {
								doCall(e, 0, nil, vctx, hasPol, hash)
							}
						}
						for _, stored := range []string{"x", "-1", strconv.Itoa(n + 3), "0"} {
							vctx := variable.NewVariableContext(context.Background())
							variable.SetString(vctx, cluster.VarProxyUpstreamIndex, stored)
							doCall(e, 0, nil, vctx, true, r.U64())
						}
					default:
						k := 1
						if pol.name == "least_request" || pol.name == "least_connection" || pol.name == "peak_ewma" {
							k = int(choice) + 1
							if k > 3 && n > 2 {
								k = int(choice) + 1
							}
						}
						dvs := drawVectors(n, k)
						if pol.name == "round_robin" || pol.name == "wrr" {
							dvs = dvs[:1]
						}
						for _, rr := range rrs() {
							for _, dv := range dvs {
								vctx := variable.NewVariableContext(context.Background())
								doCall(e, rr, append([]int64{}, dv...), vctx, false, 0)
							}
						}
					}
				}
			}
		}
	}

	// ---- WRR with the scheduler in the loop: consecutive ChooseHost calls on ONE real WRR balancer with unequal weights
	// and some unhealthy hosts.  Every call is also a case above (doCall); here the picks of ALL calls, in order, must be
	// a run of the EDF scheduler model from a state reachable by the < n pre-picks of refresh (trace inclusion, any
	// tie-break), and the finder evaluates the window bound on the hosts the scheduler path returned (healthy pairs).
	wsh := run.NewShard("From MV Require Import Model.LB Model.Edf Model.WRR.\nFrom Coq Require Import List ZArith NArith.\nImport ListNotations.\nOpen Scope Z_scope.\n",
		"wrrseq_case", "wrrseq_mismatches")
	for wi := 0; wi < run.N(60, 600); wi++ {
		n := 2 + r.Intn(4)
		specs := make([]hostSpec, n)
		alleq, anyHealthy := true, false
		for i := range specs {
			w := uint32(1 + r.Intn(8))
			switch r.Intn(6) {
			case 0:
				w = 128
			case 1:
				w = uint32(1 + r.Intn(128))
			}
			specs[i] = hostSpec{W: w, Healthy: r.Pct(65)}
			if w != specs[0].W {
				alleq = false
			}
			anyHealthy = anyHealthy || specs[i].Healthy
		}
		if alleq || !anyHealthy {
			specs[0].W, specs[n-1].W = 3, 5
			specs[0].Healthy = true
		}
		e := build(c05Policies[2], specs, 2, "wrr-sequence")
		if !cluster.VerifHasScheduler(e.lb) {
			continue
		}
		vctx := variable.NewVariableContext(context.Background())
		rr := uint32(r.U64())
		var calls [][]int
		var hits []int
		total := 0
		for k := 0; k < 80 && total < 150; k++ {
			doCall(e, rr, nil, vctx, false, 0)
			rr, _ = cluster.VerifRRIndex(e.lb)
			c := append([]int{}, (*e.picks)...)
			calls = append(calls, c)
			total += len(c)
			if len(c) > 0 && specs[c[len(c)-1]].Healthy {
				hits = append(hits, c[len(c)-1])
			}
		}
		eff := make([]uint32, n)
		mask := make([]bool, n)
		for i, sp := range specs {
			eff[i] = sp.W
			if eff[i] < 1 {
				eff[i] = 1
			}
			if eff[i] > 128 {
				eff[i] = 128
			}
			mask[i] = sp.Healthy
		}
		rep := map[string]interface{}{"policy": "wrr", "kind": "wrr-sequence", "hosts": specs, "calls_picks": calls, "scheduler_path_results": hits}
		run.Count(fmt.Sprintf("wrrseq|%v|%v", specs, calls), true, "kind:wrr-sequence")
		if bad := windowViolationMasked(eff, hits, mask); bad != "" {
			run.Fail("lb:wrr:window-bound-over-healthy-hosts", "weighted round robin with unhealthy hosts: "+bad, rep)
		}
		var hs, ws, cs, hp []string
		for i, sp := range specs {
			hs = append(hs, fmt.Sprintf("(mkHost %d %d%%N %s 0%%N 0%%N 0%%N)", i, sp.W, CoqBool(sp.Healthy)))
			ws = append(ws, CoqZ(int64(eff[i])))
		}
		for _, c := range calls {
			var ps []string
			for _, p := range c {
				ps = append(ps, fmt.Sprintf("%d%%nat", p))
			}
			cs = append(cs, CoqList(ps))
		}
		for _, p := range hits {
			hp = append(hp, fmt.Sprintf("%d%%nat", p))
		}
		wsh.Add(fmt.Sprintf("(%s, %s, %s, %s)", CoqList(hs), CoqList(ws), CoqList(cs), CoqList(hp)), rep)
		if wsh.Len() >= 60 {
			wsh.Close()
			wsh = run.NewShard(wsh.Header, wsh.Typ, wsh.Eval)
		}
	}
	wsh.Close()

	// ---- histories through a real cluster: ChooseHost / health flips / UpdateHosts
	nh := run.N(40, 400)
	for hix := 0; hix < nh; hix++ {
		pol := c05Policies[r.Intn(len(c05Policies))]
		choice := uint32(1 + r.Intn(3))
		info := c05Info(pol.lbType, choice)
		cl := cluster.NewCluster(v2.Cluster{Name: "c05", LbType: pol.lbType, LbConfig: &v2.LbConfig{ChoiceCount: &choice}})
		var e *callEnv
		install := func(specs []hostSpec) {
			hosts := make([]types.Host, len(specs))
			for i, sp := range specs {
				hosts[i] = c05Host(info, i, 1, sp)
			}
			cl.UpdateHosts(cluster.NewHostSet(hosts))
			lb := cl.Snapshot().LoadBalancer()
			ne := &callEnv{pol: pol, lb: lb, specs: specs, hosts: hosts, choice: choice, picks: new([]int), kind: "history"}
			cluster.VerifTracePicks(lb, func(h types.Host) { *ne.picks = append(*ne.picks, idxOf(ne.hosts, h)) })
			e = ne
		}
		mk := func() []hostSpec {
			n := r.Intn(7)
			specs := make([]hostSpec, n)
			uneq := r.Bool()
			for i := range specs {
				w := uint32(1)
				if uneq {
					w = uint32(1 + r.Intn(9))
				}
				specs[i] = hostSpec{W: w, Healthy: r.Pct(55), Req: int64(r.Intn(5)), Conn: int64(r.Intn(5))}
			}
			return specs
		}
		install(mk())
		vctx := variable.NewVariableContext(context.Background())
		rr := uint32(r.U64())
		for step := 0; step < 25; step++ {
			switch x := r.Intn(10); {
			case x < 6:
				n := len(e.hosts)
				draws := make([]int64, 8)
				for i := range draws {
					if n > 0 {
						draws[i] = int64(r.Intn(n))
					}
				}
				if r.Pct(20) {
					vctx = variable.NewVariableContext(context.Background())
				}
				doCall(e, rr, draws, vctx, true, r.U64())
				rr, _ = cluster.VerifRRIndex(e.lb)
			case x < 9:
				if len(e.specs) > 0 {
					k := r.Intn(len(e.specs))
					e.specs[k].Healthy = !e.specs[k].Healthy
					if e.specs[k].Healthy {
						e.hosts[k].ClearHealthFlag(api.FAILED_ACTIVE_HC)
					} else {
						e.hosts[k].SetHealthFlag(api.FAILED_ACTIVE_HC)
					}
				}
			default:
				install(mk())
				vctx = variable.NewVariableContext(context.Background())
			}
		}
	}
	sh.Close()

	// ---- concurrent mode: replace the host set while 8 goroutines choose; each lookup must return a member of
	// the host set of the SAME snapshot it read (entirely old or entirely new), and a healthy one
	for _, pol := range c05Policies {
		if pol.name == "maglev" {
			continue // needs a route; covered sequentially
		}
		choice := uint32(2)
		info := c05Info(pol.lbType, choice)
		cl := cluster.NewCluster(v2.Cluster{Name: "c05", LbType: pol.lbType, LbConfig: &v2.LbConfig{ChoiceCount: &choice}})
		mkSet := func(g int, n int) types.HostSet {
			hosts := make([]types.Host, n)
			for i := range hosts {
				hosts[i] = c05Host(info, i, 2+g, hostSpec{W: uint32(1 + i%3), Healthy: i%4 != 1, Req: int64(i), Conn: int64(i)})
			}
			return cluster.NewHostSet(hosts)
		}
		sets := []types.HostSet{mkSet(0, 5), mkSet(1, 7), mkSet(2, 3)}
		cl.UpdateHosts(sets[0])
		var stop int32
		var wg sync.WaitGroup
		var bad, unh int64
		var lookups int64
		var badMsg atomic.Value
		for g := 0; g < 8; g++ {
			wg.Add(1)
			go func() {
				defer wg.Done()
				for atomic.LoadInt32(&stop) == 0 {
					snap := cl.Snapshot()
					h := snap.LoadBalancer().ChooseHost(&lbCtx{ctx: variable.NewVariableContext(context.Background())})
					atomic.AddInt64(&lookups, 1)
					if h == nil {
						atomic.AddInt64(&bad, 1)
						badMsg.Store("no host returned although every set has healthy hosts")
						continue
					}
					found := false
					snap.HostSet().Range(func(x types.Host) bool {
						if x == h {
							found = true
							return false
						}
						return true
					})
					if !found {
						atomic.AddInt64(&bad, 1)
						badMsg.Store("host " + h.AddressString() + " is not in the host set of the snapshot the lookup read")
					} else if !h.Health() {
						atomic.AddInt64(&unh, 1)
					}
				}
			}()
		}
		for i := 0; i < run.N(300, 3000); i++ {
			cl.UpdateHosts(sets[i%3])
		}
		atomic.StoreInt32(&stop, 1)
		wg.Wait()
		run.Count("concurrent|"+pol.name, true, "kind:concurrent")
		run.Sum.Distribution["concurrent-lookups"] += int(lookups)
		if unh > 0 {
			run.Fail("lb:"+pol.name+":unhealthy-host-returned", fmt.Sprintf("%s: %d of %d concurrent lookups returned an unhealthy host", pol.name, unh, lookups),
				map[string]interface{}{"policy": pol.name, "mode": "concurrent"})
		}
		if bad > 0 {
			msg, _ := badMsg.Load().(string)
			run.Fail("lb:"+pol.name+":snapshot-lookup", fmt.Sprintf("%s: %d of %d concurrent lookups broke the snapshot statement: %s", pol.name, bad, lookups, msg),
				map[string]interface{}{"policy": pol.name, "mode": "concurrent"})
		}
	}
	c05rr(run)
	c05cm(run)
	return run.Finish()
}

// windowViolationMasked checks |n_i/w_i - n_j/w_j| <= 1/w_i + 1/w_j (times w_i*w_j) over every window of the result
// sequence, for pairs of hosts with mask true.
func windowViolationMasked(ws []uint32, res []int, mask []bool) string {
	n := len(ws)
	for i := 0; i < n; i++ {
		for j := i + 1; j < n; j++ {
			if !mask[i] || !mask[j] {
				continue
			}
			wi, wj := int(ws[i]), int(ws[j])
			ci, cj, mn, mx := 0, 0, 0, 0
			for k, p := range res {
				if p == i {
					ci++
				}
				if p == j {
					cj++
				}
				d := ci*wj - cj*wi
				if d-mn > wi+wj || mx-d > wi+wj {
					return fmt.Sprintf("window ending at result %d: healthy hosts %d,%d with weights %d,%d exceed the lag bound", k, i, j, wi, wj)
				}
				if d < mn {
					mn = d
				}
				if d > mx {
					mx = d
				}
			}
		}
	}
	return ""
}
