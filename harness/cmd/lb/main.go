package main

import . "vh/vhlib"

func main() {
	Main(map[string]CmdFn{
		"gen": func(a []string) int { return RunGen(gens, a) },
		"c05": c05,
		"c06": c06,
		"c15": c15,
		"c16": c16,
	})
}
