package main

// C16, part 6: the health checker LIFECYCLE.  Histories on the REAL healthChecker (sessions created by
// SetHealthCheckerHostSet / startCheck, stopped by stopCheck / Stop; a cluster update = Stop of the old checker and a new
// checker over the same addresses) with check results fed to the session of an address, over real hosts sharing the
// per-address flag word.  After every operation the FAILED_ACTIVE_HC condition of EVERY address is read.
// Finder: the condition of an address changes only at a threshold crossing of its own check results.
// Compared with Model/HealthLifecycle.v (lc_mismatches under the stopCheck shape read from the source).

import (
	"fmt"
	"strings"
	"sync/atomic"
	"time"

	"mosn.io/api"
	v2 "mosn.io/mosn/pkg/config/v2"
	"mosn.io/mosn/pkg/types"
	"mosn.io/mosn/pkg/upstream/cluster"
	"mosn.io/mosn/pkg/upstream/healthcheck"

	. "vh/vhlib"
)

func c16life(run *Run) {
	r := run.R
	info := cluster.NewClusterInfo(v2.Cluster{Name: "c16life", LbType: v2.LB_RANDOM})
	sh := run.NewShard("From MV Require Import Gen.HealthLifecycleTokens Model.HealthCheck Model.HealthLifecycle.\nFrom Coq Require Import List NArith.\nImport ListNotations.\n",
		"lc_case", "lc_mismatches stop_mode")
	seq := 0
	for hix := 0; hix < run.N(250, 2500); hix++ {
		n := 2 + r.Intn(2)
		u, h := uint32(1+r.Intn(3)), uint32(1+r.Intn(3))
		addrs := make([]string, n)
		ptrs := make([]*uint64, n)
		var flags0 []string
		for i := range addrs {
			seq++
			addrs[i] = fmt.Sprintf("10.21.%d.%d:%d", (seq>>8)&255, seq&255, 4000+(seq>>16))
			ptrs[i] = cluster.GetHealthFlagPointer(addrs[i])
			f := r.Pct(25)
			if hix < 3 {
				f = false
			}
			if f {
				atomic.StoreUint64(ptrs[i], uint64(api.FAILED_ACTIVE_HC))
			}
			flags0 = append(flags0, CoqBool(f))
		}
		readFlags := func() []bool {
			out := make([]bool, n)
			for i, p := range ptrs {
				out[i] = atomic.LoadUint64(p)&uint64(api.FAILED_ACTIVE_HC) != 0
			}
			return out
		}
		var lastCb *[2]bool
		newChecker := func() *healthcheck.VerifHealthChecker {
			return healthcheck.VerifNewHealthChecker(v2.HealthCheck{HealthCheckConfig: v2.HealthCheckConfig{HealthyThreshold: h, UnhealthyThreshold: u, ServiceName: "veriflife",
				InitialDelaySeconds: api.DurationConfig{Duration: time.Hour}}, Timeout: time.Hour, Interval: time.Hour, IntervalJitter: 1},
				func(hst types.Host, changed bool, isHealthy bool) { lastCb = &[2]bool{changed, isHealthy} })
		}
		vc := newChecker()
		hasSess := make([]bool, n)
		failRun := make([]uint32, n) // consecutive failures while healthy, within the current session
		succRun := make([]uint32, n)
		var items, log []string
		failedSig := map[string]bool{}
		fail := func(sig, what string) {
			if !failedSig[sig] {
				failedSig[sig] = true
				run.Fail(sig, what, map[string]interface{}{"part": "lifecycle", "unhealthy_threshold": u, "healthy_threshold": h, "history": append([]string{}, log...)})
			}
		}
		coqBools := func(bs []bool) string {
			var xs []string
			for _, b := range bs {
				xs = append(xs, CoqBool(b))
			}
			return CoqList(xs)
		}
		setHosts := func(l []int) {
			var hosts []types.Host
			var ls []string
			inL := make([]bool, n)
			for _, a := range l {
				hosts = append(hosts, cluster.NewSimpleHost(v2.Host{HostConfig: v2.HostConfig{Address: addrs[a]}}, info))
				ls = append(ls, fmt.Sprintf("%d%%nat", a))
				inL[a] = true
			}
			before := readFlags()
			vc.SetHostSet(cluster.NewHostSet(hosts))
			after := readFlags()
			log = append(log, fmt.Sprintf("SetHealthCheckerHostSet %v", l))
			for a := 0; a < n; a++ {
				if inL[a] && !hasSess[a] {
					failRun[a], succRun[a] = 0, 0
				}
				hasSess[a] = inL[a]
				if before[a] != after[a] {
					fail("healthcheck:lifecycle:flag-changed-without-check-result", fmt.Sprintf("FAILED_ACTIVE_HC of address #%d went %v -> %v at a host-set change of the checker (no check result); history: %s", a, before[a], after[a], strings.Join(log, "; ")))
				}
			}
			items = append(items, fmt.Sprintf("(LSetHosts %s, %s, None)", CoqList(ls), coqBools(after)))
		}
		stopAll := func() {
			before := readFlags()
			vc.Stop()
			vc = newChecker() // a cluster update: the old checker is stopped, a new one takes over
			after := readFlags()
			log = append(log, "Stop (new checker)")
			for a := 0; a < n; a++ {
				hasSess[a] = false
				if before[a] != after[a] {
					fail("healthcheck:lifecycle:flag-changed-without-check-result", fmt.Sprintf("FAILED_ACTIVE_HC of address #%d went %v -> %v when the checker was stopped (no check result); history: %s", a, before[a], after[a], strings.Join(log, "; ")))
				}
			}
			items = append(items, fmt.Sprintf("(LStopAll, %s, None)", coqBools(after)))
		}
		result := func(a int, ok bool) {
			before := readFlags()
			lastCb = nil
			had := vc.Result(addrs[a], ok)
			after := readFlags()
			log = append(log, fmt.Sprintf("check of address #%d healthy=%v", a, ok))
			cbCoq := "None"
			if lastCb != nil {
				cbCoq = fmt.Sprintf("(Some (%s, %s))", CoqBool(lastCb[0]), CoqBool(lastCb[1]))
			}
			// ---- the property itself
			for b := 0; b < n; b++ {
				if b != a && before[b] != after[b] {
					fail("healthcheck:lifecycle:flag-changed-without-check-result", fmt.Sprintf("FAILED_ACTIVE_HC of address #%d changed at a check result of address #%d; history: %s", b, a, strings.Join(log, "; ")))
				}
			}
			want := before[a]
			if had {
				if ok {
					failRun[a] = 0
					if before[a] {
						succRun[a]++
						if succRun[a] == h {
							want = false
						}
					}
				} else {
					succRun[a] = 0
					if !before[a] {
						failRun[a]++
						if failRun[a] == u {
							want = true
						}
					}
				}
			}
			if after[a] != want {
				fail("healthcheck:lifecycle:threshold-not-exact", fmt.Sprintf("address #%d: FAILED_ACTIVE_HC is %v after this result, required %v (thresholds unhealthy=%d healthy=%d, counted within the current session); history: %s", a, after[a], want, u, h, strings.Join(log, "; ")))
			}
			if had && (lastCb == nil || lastCb[0] != (before[a] != after[a]) || lastCb[1] != ok) {
				fail("healthcheck:lifecycle:changed-callback-wrong", fmt.Sprintf("address #%d: callback %v for a result healthy=%v with the condition going %v -> %v; history: %s", a, lastCb, ok, before[a], after[a], strings.Join(log, "; ")))
			}
			r0 := "RFailure"
			if ok {
				r0 = "RSuccess"
			}
			items = append(items, fmt.Sprintf("(LResult %d%%nat %s, %s, %s)", a, r0, coqBools(after), cbCoq))
		}
		all := func() []int {
			var l []int
			for a := 0; a < n; a++ {
				l = append(l, a)
			}
			return l
		}
		switch hix {
		case 0: // marked unhealthy, then the cluster configuration is updated (old checker stopped, new one inherits the hosts)
			u, h = 2, 2
			vc = newChecker()
			setHosts(all())
			result(0, false)
			result(0, false)
			stopAll()
			setHosts(all())
			result(0, true)
		case 1: // marked unhealthy, removed from the host set, re-added with the same address
			u, h = 1, 2
			vc = newChecker()
			setHosts(all())
			result(1, false)
			setHosts([]int{0})
			setHosts(all())
			result(1, true)
			result(1, true)
		default:
			setHosts(all())
			for step := 0; step < 14; step++ {
				switch x := r.Intn(10); {
				case x < 6:
					result(r.Intn(n), r.Pct(40))
				case x < 9:
					var l []int
					for a := 0; a < n; a++ {
						if r.Pct(65) {
							l = append(l, a)
						}
					}
					setHosts(l)
				default:
					stopAll()
					setHosts(all())
				}
			}
		}
		vc.Stop()
		for _, p := range ptrs {
			atomic.StoreUint64(p, 0)
		}
		run.Count("life|"+strings.Join(log, ";"), true, "lifecycle:histories")
		if len(run.Sum.Samples) < 6 && hix%60 == 2 {
			run.Sample(map[string]interface{}{"part": "lifecycle", "unhealthy_threshold": u, "healthy_threshold": h, "history": log})
		}
		sh.Add(fmt.Sprintf("(%d%%N, %d%%N, %s, %s)", u, h, CoqList(flags0), CoqList(items)), map[string]interface{}{"part": "lifecycle", "history": log})
		if sh.Len() >= 400 {
			sh.Close()
			sh = run.NewShard(sh.Header, sh.Typ, sh.Eval)
		}
	}
	sh.Close()
}
