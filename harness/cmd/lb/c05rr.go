package main

// C05, round robin under concurrent / re-entrant lookups.  The REAL roundRobinLoadBalancer (and the random balancer,
// which falls back to it) over real hosts wrapped in a host type whose Health() runs a scripted interference at a
// scripted probe of the outer lookup: k foreign cursor increments, one or two complete nested ChooseHost calls, or a
// health flip - i.e. a deterministic interleaving of concurrent lookups at the granularity of the AddUint32 / Health()
// calls.  Cursors near 2^32, sizes 1..7.  Compared with Model/RRConc.v (rr_mismatches under the second-pass expression
// read from the source); finder: nil although a host is healthy throughout.

import (
	"fmt"
	"math/rand"

	"mosn.io/api"
	v2 "mosn.io/mosn/pkg/config/v2"
	"mosn.io/mosn/pkg/types"
	"mosn.io/mosn/pkg/upstream/cluster"

	. "vh/vhlib"
)

type rrAction struct {
	Kind string `json:"kind"` // "bump" | "nest" | "flip"
	N    int    `json:"n"`    // increments / nested lookups / position to flip
}

type rrEnv struct {
	lb      types.LoadBalancer
	hosts   []types.Host // the wrapped hosts
	depth   int
	probes  int
	at      int
	act     rrAction
	fired   bool
	nested  []int // results of nested lookups (-1 = nil)
	indexOf map[string]int
}

type hookHost struct {
	types.Host
	env *rrEnv
}

func (h *hookHost) Health() bool {
	e := h.env
	if e.depth == 0 {
		if e.probes == e.at && !e.fired {
			e.fired = true
			e.depth++
			switch e.act.Kind {
			case "bump":
				cur, _ := cluster.VerifRRIndex(e.lb)
				cluster.VerifSetRRIndex(e.lb, cur+uint32(e.act.N))
			case "nest":
				for i := 0; i < e.act.N; i++ {
					r := e.lb.ChooseHost(nil)
					if r == nil {
						e.nested = append(e.nested, -1)
					} else {
						e.nested = append(e.nested, e.indexOf[r.AddressString()])
					}
				}
			case "flip":
				t := e.hosts[e.act.N].(*hookHost).Host
				if t.Health() {
					t.SetHealthFlag(api.FAILED_ACTIVE_HC)
				} else {
					t.ClearHealthFlag(api.FAILED_ACTIVE_HC)
				}
			}
			e.depth--
		}
		e.probes++
	}
	return h.Host.Health()
}

func c05rr(run *Run) {
	r := run.R
	infoRR := cluster.NewClusterInfo(v2.Cluster{Name: "c05rr", LbType: v2.LB_ROUNDROBIN})
	infoRnd := cluster.NewClusterInfo(v2.Cluster{Name: "c05rr", LbType: v2.LB_RANDOM})
	sh := run.NewShard("From MV Require Import Gen.RRTokens Model.RRConc.\nFrom Coq Require Import List NArith.\nImport ListNotations.\n",
		"rr_case", "rr_mismatches rr_second_pass")
	baseHosts := make([]types.Host, 7)
	for i := range baseHosts {
		baseHosts[i] = cluster.NewSimpleHost(v2.Host{HostConfig: v2.HostConfig{Address: fmt.Sprintf("10.55.0.%d:80", i), Weight: 1}}, infoRR)
	}
	counter := 0
	maxN := 7
	for n := 1; n <= maxN; n++ {
		// health patterns: every single healthy position, none, and (n >= 3) two healthy positions
		var pats [][]bool
		for h := 0; h < n; h++ {
			p := make([]bool, n)
			p[h] = true
			pats = append(pats, p)
		}
		pats = append(pats, make([]bool, n))
		if n >= 3 {
			p := make([]bool, n)
			p[0], p[n-1] = true, true
			pats = append(pats, p)
		}
		var cursors []uint32
		for k := 0; k < 3*n; k++ {
			cursors = append(cursors, uint32(4294967295-uint64(k)))
		}
		cursors = append(cursors, 0, 12345)
		var acts []rrAction
		for k := 1; k <= 2*n+2; k++ {
			acts = append(acts, rrAction{"bump", k})
		}
		acts = append(acts, rrAction{"nest", 1}, rrAction{"nest", 2}, rrAction{"flip", 0}, rrAction{"flip", n - 1})
		for _, pat := range pats {
			for _, cur := range cursors {
				for at := 0; at < 2*n; at++ {
					for _, act := range acts {
						for _, policy := range []string{"rr", "random"} {
							counter++
							if policy == "random" && counter%5 != 0 {
								continue
							}
							env := &rrEnv{at: at, act: act, indexOf: map[string]int{}}
							hosts := make([]types.Host, n)
							for i := 0; i < n; i++ {
								if pat[i] {
									baseHosts[i].ClearHealthFlag(api.FAILED_ACTIVE_HC)
								} else {
									baseHosts[i].SetHealthFlag(api.FAILED_ACTIVE_HC)
								}
								hosts[i] = &hookHost{Host: baseHosts[i], env: env}
								env.indexOf[baseHosts[i].AddressString()] = i
							}
							env.hosts = hosts
							draw := 0
							if policy == "rr" {
								env.lb = cluster.NewLoadBalancer(infoRR, cluster.NewHostSet(hosts))
							} else {
								env.lb = cluster.NewLoadBalancer(infoRnd, cluster.NewHostSet(hosts))
								// first draw on an unhealthy position when there is one, so that the RR fallback runs
								for i := 0; i < n; i++ {
									if !pat[i] {
										draw = i
									}
								}
								cluster.VerifSetRand(env.lb, rand.New(&queueSrc{vals: []int64{int64(draw)}}))
							}
							cluster.VerifSetRRIndex(env.lb, cur)
							got := env.lb.ChooseHost(nil)
							curAfter, _ := cluster.VerifRRIndex(env.lb)
							outer := -1
							if got != nil {
								outer = env.indexOf[got.AddressString()]
							}
							// ---- the property itself: a host healthy throughout (healthy before, not flipped) excludes nil
							stable := false
							for i := 0; i < n; i++ {
								if pat[i] && !(env.fired && act.Kind == "flip" && act.N == i) {
									stable = true
								}
							}
							rep := map[string]interface{}{"kind": "rr-concurrent", "policy": policy, "healthy": pat, "cursor": cur, "interference_at_probe": at,
								"interference": act, "fired": env.fired, "outer_result": outer, "nested_results": env.nested, "cursor_after": curAfter}
							nilSeen := outer < 0
							for _, x := range env.nested {
								if x < 0 {
									nilSeen = true
								}
							}
							nontriv := env.fired && uint64(cur)+uint64(4*n) >= 4294967296
							run.Count(fmt.Sprintf("rrc|%s|%v|%d|%d|%v", policy, pat, cur, at, act), nontriv, "kind:rr-concurrent", "rrc-policy:"+policy)
							if stable && nilSeen {
								run.Fail("lb:"+map[string]string{"rr": "rr", "random": "random"}[policy]+":nil-although-healthy-under-concurrent-lookups",
									fmt.Sprintf("%s balancer, %d hosts, healthy %v, cursor %d: with %s(%d) at probe %d of the lookup a lookup returned nil although a host is healthy throughout (outer %d, nested %v)",
										policy, n, pat, cur, act.Kind, act.N, at, outer, env.nested), rep)
							}
							for _, x := range append([]int{outer}, env.nested...) {
								if x >= n {
									run.Fail("lb:rr:non-member-under-concurrent-lookups", "a lookup returned a host outside the set", rep)
								}
							}
							if policy != "rr" {
								continue
							}
							// ---- the case for the micro-step model (a sample; every case of the small sizes)
							if !(n <= 2 || counter%23 == 0 || (nilSeen && stable)) {
								continue
							}
							var hl []string
							for _, b := range pat {
								hl = append(hl, CoqBool(b))
							}
							threads := []string{"new_lookup"}
							var sched []string
							add := func(id, k int) {
								for i := 0; i < k; i++ {
									sched = append(sched, fmt.Sprintf("%d%%nat", id))
								}
							}
							if env.fired {
								pre := 2*at + 1
								if at >= n {
									pre = 2*n + 1 + (at - n)
								}
								add(0, pre)
								switch act.Kind {
								case "bump":
									threads = append(threads, fmt.Sprintf("RBump %d", act.N))
									add(1, act.N)
								case "nest":
									for j := 0; j < act.N; j++ {
										threads = append(threads, "new_lookup")
										add(1+j, 3*n+3)
									}
								case "flip":
									threads = append(threads, fmt.Sprintf("RFlip %d false", act.N))
									add(1, 1)
								}
							}
							add(0, 3*n+3)
							res := []string{"RNil"}
							if outer >= 0 {
								res[0] = fmt.Sprintf("RIdx %d", outer)
							}
							for _, x := range env.nested {
								if x < 0 {
									res = append(res, "RNil")
								} else {
									res = append(res, fmt.Sprintf("RIdx %d", x))
								}
							}
							sh.Add(fmt.Sprintf("(%s, %d%%N, %s, %s, %s, %d%%N)", CoqList(hl), cur, CoqList(threads), CoqList(sched), CoqList(res), curAfter), rep)
							if sh.Len() >= 500 {
								sh.Close()
								sh = run.NewShard(sh.Header, sh.Typ, sh.Eval)
							}
							_ = r
						}
					}
				}
			}
		}
	}
	sh.Close()
	for i := range baseHosts {
		baseHosts[i].ClearHealthFlag(api.FAILED_ACTIVE_HC)
	}
}
