package main

// Protocol clients and scripted upstreams of the C11 in-process sweep: bolt (raw frames), HTTP/1.1 (raw bytes on the
// request side so that "headers sent" / "body half sent" are exact), HTTP/2 (golang.org/x/net/http2 over cleartext,
// prior knowledge, with a staged request body).  A request is sent in three parts:
//   part 1 (bolt: the first 30 bytes of the frame; HTTP/1: request line + all headers; HTTP/2: the HEADERS frame)
//   pause RecvH, part 2 (first half of the body), pause RecvB, part 3 (the rest).

import (
	"bufio"
	"bytes"
	"encoding/json"
	"fmt"
	"io"
	"net"
	"net/http"
	"strconv"
	"time"

	"golang.org/x/net/http2"
	"golang.org/x/net/http2/h2c"
)

type reqPlan struct {
	T0    int `json:"t0"`     // ms after the scenario origin at which part 1 is sent
	RecvH int `json:"recv_h"` // pause after part 1 ("headers sent")
	RecvB int `json:"recv_b"` // pause after part 2 ("body half sent")
	Up    int `json:"up"`     // upstream delay
	Gap   int `json:"gap"`    // pause in the middle of the upstream's response ("response half written")
	// observed (ms after origin)
	FirstAt int  `json:"first_byte_at"`
	HdrAt   int  `json:"part1_sent_at"`
	HalfAt  int  `json:"part2_sent_at"`
	SentAt  int  `json:"sent_at"`
	ReplyAt int  `json:"reply_at"` // -1: none
	OK      bool `json:"ok"`
}

type client interface {
	warmup() error
	do(id int, p *reqPlan, ms func() int)
	goneAway() string // what the server told this connection: "", "goaway", "connection-close"
	close()
}

func pause(msec int) {
	if msec > 0 {
		time.Sleep(time.Duration(msec) * time.Millisecond)
	}
}

func newClient(proto, addr string, timeout time.Duration) (client, error) {
	c, err := dialLocal(addr, timeout)
	if err != nil {
		return nil, err
	}
	switch proto {
	case "bolt":
		return &boltClient{c: c}, nil
	case "http1":
		return &http1Client{c: c, br: bufio.NewReader(c)}, nil
	case "http2":
		tr := &http2.Transport{AllowHTTP: true}
		cc, err := tr.NewClientConn(c)
		if err != nil {
			c.Close()
			return nil, err
		}
		return &http2Client{c: c, cc: cc}, nil
	}
	return nil, fmt.Errorf("unknown protocol %s", proto)
}

// ---------------------------------------------------------------- bolt
type boltClient struct {
	c    net.Conn
	away string
}

func (b *boltClient) roundTrip(id uint32, frame []byte, parts func(frame []byte)) bool {
	b.c.SetDeadline(time.Now().Add(generous))
	parts(frame)
	for {
		typ, code, rid, content, err := readBoltFrame(b.c)
		if err != nil {
			return false
		}
		if typ == 1 && code == 0x64 { // goaway command
			b.away = "goaway"
			continue
		}
		if typ == 0 && rid == id {
			return string(content) == "ok"
		}
	}
}

func (b *boltClient) warmup() error {
	body, _ := json.Marshal(script{})
	if !b.roundTrip(1000, boltRequest(1000, body), func(f []byte) { b.c.Write(f) }) {
		return fmt.Errorf("bolt warm-up got no reply")
	}
	return nil
}

func (b *boltClient) do(id int, p *reqPlan, ms func() int) {
	body, _ := json.Marshal(script{Up: p.Up, Gap: p.Gap})
	frame := boltRequest(uint32(id), append(body, bytes.Repeat([]byte{' '}, 40)...))
	p.OK = b.roundTrip(uint32(id), frame, func(f []byte) {
		p.FirstAt = ms()
		if p.RecvH == 0 && p.RecvB == 0 {
			b.c.Write(f)
			p.HdrAt, p.HalfAt, p.SentAt = ms(), ms(), ms()
			return
		}
		half := 30 + (len(f)-30)/2
		b.c.Write(f[:30])
		p.HdrAt = ms()
		pause(p.RecvH)
		b.c.Write(f[30:half])
		p.HalfAt = ms()
		pause(p.RecvB)
		b.c.Write(f[half:])
		p.SentAt = ms()
	})
	if p.OK {
		p.ReplyAt = ms()
	}
}
func (b *boltClient) goneAway() string { return b.away }
func (b *boltClient) close()           { b.c.Close() }

// ---------------------------------------------------------------- HTTP/1.1
type http1Client struct {
	c    net.Conn
	br   *bufio.Reader
	away string
}

func (h *http1Client) exchange(up, gap int, send func(head, body []byte)) bool {
	body := bytes.Repeat([]byte("0123456789abcdef"), 4)
	head := []byte(fmt.Sprintf("POST /vh HTTP/1.1\r\nHost: vh.test\r\nservice: vh\r\nX-Up: %d\r\nX-Gap: %d\r\nContent-Type: text/plain\r\nContent-Length: %d\r\n\r\n", up, gap, len(body)))
	h.c.SetDeadline(time.Now().Add(generous))
	send(head, body)
	resp, err := http.ReadResponse(h.br, nil)
	if err != nil {
		return false
	}
	b, err := io.ReadAll(resp.Body)
	resp.Body.Close()
	if resp.Close {
		h.away = "connection-close"
	}
	return err == nil && resp.StatusCode == 200 && string(b) == "ok"
}

func (h *http1Client) warmup() error {
	if !h.exchange(0, 0, func(head, body []byte) { h.c.Write(append(append([]byte{}, head...), body...)) }) {
		return fmt.Errorf("http1 warm-up got no reply")
	}
	return nil
}

func (h *http1Client) do(id int, p *reqPlan, ms func() int) {
	p.OK = h.exchange(p.Up, p.Gap, func(head, body []byte) {
		p.FirstAt = ms()
		if p.RecvH == 0 && p.RecvB == 0 {
			h.c.Write(append(append([]byte{}, head...), body...))
			p.HdrAt, p.HalfAt, p.SentAt = ms(), ms(), ms()
			return
		}
		h.c.Write(head)
		p.HdrAt = ms()
		pause(p.RecvH)
		h.c.Write(body[:len(body)/2])
		p.HalfAt = ms()
		pause(p.RecvB)
		h.c.Write(body[len(body)/2:])
		p.SentAt = ms()
	})
	if p.OK {
		p.ReplyAt = ms()
	}
}
func (h *http1Client) goneAway() string { return h.away }
func (h *http1Client) close()           { h.c.Close() }

// ---------------------------------------------------------------- HTTP/2 (h2c, prior knowledge)
type http2Client struct {
	c  net.Conn
	cc *http2.ClientConn
}

// stagedBody hands the request body to the transport in two halves with pauses; the transport has written the HEADERS
// frame when it first asks for body bytes.
type stagedBody struct {
	p     *reqPlan
	ms    func() int
	data  []byte
	stage int
}

func (s *stagedBody) Read(b []byte) (int, error) {
	switch s.stage {
	case 0:
		s.p.HdrAt = s.ms()
		pause(s.p.RecvH)
		s.stage = 1
		n := copy(b, s.data[:len(s.data)/2])
		return n, nil
	case 1:
		s.p.HalfAt = s.ms()
		pause(s.p.RecvB)
		s.stage = 2
		n := copy(b, s.data[len(s.data)/2:])
		return n, nil
	default:
		if s.stage == 2 {
			s.p.SentAt = s.ms()
			s.stage = 3
		}
		return 0, io.EOF
	}
}
func (s *stagedBody) Close() error { return nil }

func (h *http2Client) roundTrip(up, gap int, body io.ReadCloser, n int) bool {
	req, _ := http.NewRequest("POST", "http://vh.test/vh", body)
	req.ContentLength = int64(n)
	req.Header.Set("service", "vh")
	req.Header.Set("X-Up", strconv.Itoa(up))
	req.Header.Set("X-Gap", strconv.Itoa(gap))
	req.Header.Set("Content-Type", "text/plain")
	type res struct {
		ok bool
	}
	ch := make(chan res, 1)
	go func() {
		resp, err := h.cc.RoundTrip(req)
		if err != nil {
			ch <- res{false}
			return
		}
		b, err := io.ReadAll(resp.Body)
		resp.Body.Close()
		ch <- res{err == nil && resp.StatusCode == 200 && string(b) == "ok"}
	}()
	select {
	case r := <-ch:
		return r.ok
	case <-time.After(generous):
		return false
	}
}

func (h *http2Client) warmup() error {
	data := []byte("warm")
	if !h.roundTrip(0, 0, io.NopCloser(bytes.NewReader(data)), len(data)) {
		return fmt.Errorf("http2 warm-up got no reply")
	}
	return nil
}

func (h *http2Client) do(id int, p *reqPlan, ms func() int) {
	data := bytes.Repeat([]byte("0123456789abcdef"), 4)
	p.FirstAt = ms()
	p.OK = h.roundTrip(p.Up, p.Gap, &stagedBody{p: p, ms: ms, data: data}, len(data))
	if p.OK {
		p.ReplyAt = ms()
	}
	if p.SentAt == 0 {
		p.SentAt = p.HalfAt
	}
}
func (h *http2Client) goneAway() string {
	st := h.cc.State()
	if st.Closing || st.Closed {
		return "goaway"
	}
	return ""
}
func (h *http2Client) close() { h.cc.Close(); h.c.Close() }

// ---------------------------------------------------------------- scripted HTTP upstream (HTTP/1.1 and h2c on one port)
func startHTTPUpstream() (string, func()) {
	ln := listenLocal()
	handler := http.HandlerFunc(func(w http.ResponseWriter, r *http.Request) {
		io.Copy(io.Discard, r.Body)
		up, _ := strconv.Atoi(r.Header.Get("X-Up"))
		gap, _ := strconv.Atoi(r.Header.Get("X-Gap"))
		pause(up)
		w.Header().Set("Content-Length", "2")
		w.Header().Set("Content-Type", "text/plain")
		w.WriteHeader(200)
		if gap > 0 {
			w.Write([]byte("o"))
			if f, ok := w.(http.Flusher); ok {
				f.Flush()
			}
			pause(gap)
			w.Write([]byte("k"))
		} else {
			w.Write([]byte("ok"))
		}
	})
	srv := &http.Server{Handler: h2c.NewHandler(handler, &http2.Server{})}
	go srv.Serve(ln)
	return ln.Addr().String(), func() { srv.Close() }
}

func upstreamFor(proto string) (string, func()) {
	if proto == "bolt" {
		return startUpstream()
	}
	return startHTTPUpstream()
}
