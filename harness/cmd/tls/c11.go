package main

import . "vh/vhlib"

func c11(args []string) int {
	run := NewRun("C11", args)
	return run.Finish()
}

func genTransferTokens(repo string) (string, error) {
	return "Definition TransferTokens_translator_ok := true.\n", nil
}
