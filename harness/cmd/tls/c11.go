package main

import . "vh/vhlib"

func c11(args []string) int {
	run := NewRun("C11", args)
	return run.Finish()
}

