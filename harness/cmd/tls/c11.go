package main

// C11 - graceful shutdown and hot upgrade.
//
// part 1  transfer message codec: the real transferBuildHead / transferSendHead / transferRecvHead /
//         transferReadRecvData / transferWrite{Send,Recv}Data / transfer{Send,Recv}ID (through verif wrappers) over a
//         real unix socket pair, arbitrary contents, boundary lengths.
// part 2  listener state machine: the real network.NewListener driven by generated Start/Shutdown/Close histories
//         (Shutdown under stagemanager state Running and Upgrading), probed with real TCP connects after each step.
// part 3  in-process MOSN (real connHandler, listener, proxy, bolt codec) in front of a scripted upstream;
//         GracefulStopListener at offsets sweeping the request lifetime (c11srv.go).
// finder: the property itself on the implementation (round trip / no accept after stop / in-flight requests answered
//         before Shutdown returns).

import (
	"context"
	"fmt"
	"net"
	"os"
	"path/filepath"
	"strings"
	"sync"
	"time"

	"mosn.io/api"
	v2 "mosn.io/mosn/pkg/config/v2"
	"mosn.io/mosn/pkg/log"
	"mosn.io/mosn/pkg/network"
	"mosn.io/mosn/pkg/stagemanager"
	"mosn.io/pkg/buffer"

	. "vh/vhlib"
)

const c11Header = "From MV Require Import Lib.Bytes Lib.Seg Model.Shutdown.\nFrom Coq Require Import List NArith.\nImport ListNotations.\n"

func unixPair(dir string) (*net.UnixConn, *net.UnixConn, func()) {
	path := filepath.Join(dir, fmt.Sprintf("vh-c11-%d.sock", os.Getpid()))
	os.Remove(path)
	ln, err := net.Listen("unix", path)
	if err != nil {
		panic(err)
	}
	type acc struct {
		c   net.Conn
		err error
	}
	ch := make(chan acc, 1)
	go func() { c, err := ln.Accept(); ch <- acc{c, err} }()
	a, err := net.Dial("unix", path)
	if err != nil {
		panic(err)
	}
	b := <-ch
	if b.err != nil {
		panic(b.err)
	}
	return a.(*net.UnixConn), b.c.(*net.UnixConn), func() { a.Close(); b.c.Close(); ln.Close(); os.Remove(path) }
}

func readN(c net.Conn, n int) ([]byte, error) {
	b := make([]byte, n)
	off := 0
	for off < n {
		k, err := c.Read(b[off:])
		if err != nil {
			return b[:off], err
		}
		off += k
	}
	return b, nil
}

// patterned payloads keep the Coq terms small (CoqBytes run-length compresses), short ones are random
func payload(r *Rng, n int) []byte {
	if n <= 600 {
		return r.Bytes(n)
	}
	b := make([]byte, n)
	fill := byte(r.Intn(256))
	for i := range b {
		b[i] = fill
	}
	// a few random islands and random ends
	for k := 0; k < 4; k++ {
		p := r.Intn(n - 8)
		copy(b[p:], r.Bytes(8))
	}
	copy(b, r.Bytes(5))
	copy(b[n-5:], r.Bytes(5))
	return b
}

func c11(args []string) int {
	run := NewRun("C11", args)
	log.DefaultLogger.SetLogLevel(log.FATAL)
	jit = startJitter()
	run.Sum.Rule = "codec: head values and buffer lengths over the boundaries 0,1,7,8,9,255,256,65535,65536,2^31,2^32-1 (heads) / 0,1,2^16-1,2^16,2^16+1,2^20,2^20+1,2^24,2^31-1,2^31,2^32-1 in BOTH head fields of the read path and the write path (second field = connection id); buffers up to 1 MiB+1 (quick) / 3 MiB (thorough), random and patterned contents, extra bytes following on the socket; non-trivial = non-empty data or tls; distinct by (lengths, first bytes). listener: histories of 3-6 operations from {Start, Start(restart), Shutdown, Shutdown while Upgrading, Close} on a real TCP listener, a connect probe after every step; non-trivial = history contains a Shutdown; distinct by history. drain: in-process MOSN, bolt request whose upstream delay sets the phase, GracefulStopListener at offsets sweeping receiving / waiting-for-upstream / reply phases; distinct by (phase durations, offset)."

	dir, err := os.MkdirTemp("", "vh-c11-")
	if err != nil {
		panic(err)
	}
	defer os.RemoveAll(dir)

	// ---------------- part 1: codec ----------------
	c11Codec(run, dir)

	// ---------------- part 2: listener ----------------
	if rc := c11Listener(run); rc != 0 {
		return rc
	}
	// ---------------- part 3: in-process server ----------------
	if rc := c11Stage(run, dir); rc != 0 {
		return rc
	}
	if rc := c11Server(run, dir); rc != 0 {
		return rc
	}
	if run.Thorough() || os.Getenv("VH_TWO_PROCESS") != "" {
		c11TwoProcess(run, dir)
	}
	return run.Finish()
}

func bucket(n int) int {
	for _, b := range []int{0, 8, 256, 4096, 65536, 1 << 20} {
		if n <= b {
			return b
		}
	}
	return 1 << 30
}

func min(a, b int) int {
	if a < b {
		return a
	}
	return b
}

// ---------------------------------------------------------------------------------------------

type probeCB struct {
	mu        sync.Mutex
	accepted  map[string]bool // remote address of accepted connections
	shutdowns int
	addr      string
	scale     int
	drainCode int // result of the connect made inside the last OnShutdown: 0 refused, 1 established but not accepted, 2 accepted, 9 none
}

// probe connects to the listener and reports whether the connection was refused (0), established but not accepted by
// this process (1: it sits in the kernel backlog), or accepted (2).
func (p *probeCB) probe() int {
	c, err := dialLocal(p.addr, time.Second)
	if err != nil {
		return 0
	}
	defer c.Close()
	me := c.LocalAddr().String()
	sc := p.scale
	if sc < 1 {
		sc = 1
	}
	// an accepting listener calls OnAccept within a millisecond or so; wait 60 ms (x scale), longer if the machine stutters
	t0 := time.Now()
	for w := 0; w < 12*sc; w++ {
		time.Sleep(5 * time.Millisecond)
		p.mu.Lock()
		acc := p.accepted[me]
		p.mu.Unlock()
		if acc {
			return 2
		}
	}
	if j := jit.max(t0, time.Now()); j > 5 {
		for w := 0; w < 4*j/5+1; w++ {
			time.Sleep(5 * time.Millisecond)
			p.mu.Lock()
			acc := p.accepted[me]
			p.mu.Unlock()
			if acc {
				return 2
			}
		}
	}
	return 1
}

func (p *probeCB) OnAccept(rawc net.Conn, _ bool, _ net.Addr, _ chan api.Connection, _ []byte, _ []api.ConnectionEventListener) {
	p.mu.Lock()
	p.accepted[rawc.RemoteAddr().String()] = true
	p.mu.Unlock()
	rawc.Close()
}
func (p *probeCB) OnNewConnection(ctx context.Context, conn api.Connection) {}
func (p *probeCB) OnClose()                                                 {}
func (p *probeCB) OnShutdown() {
	// this is the drain: the property says no new connection is accepted from here on
	code := p.probe()
	p.mu.Lock()
	p.shutdowns++
	p.drainCode = code
	p.mu.Unlock()
}
func (p *probeCB) PreStopHook(ctx context.Context) func() error { return nil }

// freePort picks a port below the ephemeral range (so no outgoing connection of any process on the machine can take it
// between this check and the listen that follows), verified free by binding once.
var portSeq = os.Getpid()*7919 + int(time.Now().UnixNano()%9973)

// listenLocal listens on a loopback port below the ephemeral range (the ephemeral range can be exhausted by TIME_WAIT
// sockets of other harnesses running on the machine; `:0` then fails with "address already in use").
func listenLocal() net.Listener {
	for try := 0; try < 5000; try++ {
		portSeq += 37
		p := 20000 + (portSeq % 12000)
		if p < 0 {
			p = -p
		}
		if ln, err := net.Listen("tcp", fmt.Sprintf("127.0.0.1:%d", p)); err == nil {
			return ln
		}
	}
	panic("no free loopback port")
}

// dialLocal retries a loopback connect a few times (transient source-port exhaustion).
func dialLocal(addr string, timeout time.Duration) (net.Conn, error) {
	var c net.Conn
	var err error
	for try := 0; try < 6; try++ {
		if c, err = net.DialTimeout("tcp", addr, timeout); err == nil {
			return c, nil
		}
		if !strings.Contains(err.Error(), "cannot assign requested address") && !strings.Contains(err.Error(), "address already in use") {
			return nil, err
		}
		time.Sleep(300 * time.Millisecond)
	}
	return nil, err
}

func freePort() int {
	for try := 0; try < 2000; try++ {
		portSeq += 37
		p := 20000 + (portSeq % 12000)
		if p < 0 {
			p = -p
		}
		ln, err := net.Listen("tcp", fmt.Sprintf("127.0.0.1:%d", p))
		if err != nil {
			continue
		}
		ln.Close()
		return p
	}
	panic("no free port")
}

// runListenerHistory drives one fresh real listener through ops; scale stretches every wait (re-runs use larger scales).
func runListenerHistory(name string, bind bool, ops []int, scale int) (tr []lisObs, cb *probeCB) {
	port := freePort()
	addr := &net.TCPAddr{IP: net.ParseIP("127.0.0.1"), Port: port}
	lc := &v2.Listener{ListenerConfig: v2.ListenerConfig{Name: name, BindToPort: bind}, Addr: addr}
	l := network.NewListener(lc)
	cb = &probeCB{accepted: map[string]bool{}, addr: addr.String(), drainCode: 9, scale: scale}
	l.SetListenerCallbacks(cb)
	settle := func() {
		// let the operation take effect: the base wait, stretched by the scale and by the jitter seen just now
		t0 := time.Now()
		time.Sleep(time.Duration(25*scale) * time.Millisecond)
		if j := jit.max(t0, time.Now()); j > 5 {
			time.Sleep(time.Duration(4*j) * time.Millisecond)
		}
	}
	for _, o := range ops {
		switch o {
		case 0:
			go l.Start(nil, false)
		case 1:
			go l.Start(nil, true)
		case 2:
			stagemanager.SetState(stagemanager.Running)
			l.Shutdown(nil)
		case 3:
			stagemanager.SetState(stagemanager.Upgrading)
			l.Shutdown(nil)
			stagemanager.SetState(stagemanager.Running)
		case 4:
			l.Close(nil)
		}
		settle()
		acc := cb.probe() == 2
		cb.mu.Lock()
		dr, dcode := cb.shutdowns, cb.drainCode
		cb.drainCode = 9
		cb.mu.Unlock()
		tr = append(tr, lisObs{acc, dr, dcode})
	}
	l.Close(nil)
	return tr, cb
}

func c11Listener(run *Run) int {
	r := run.R
	sh := run.NewShard(c11Header, "lis_case", "lis_mismatches")
	opNames := []string{"OpStart false", "OpStart true", "OpShutdown false", "OpShutdown true", "OpClose"}
	nseq := run.N(14, 120)
	for s := 0; s < nseq; s++ {
		bind := !r.Pct(10)
		n := 3 + r.Intn(4)
		// every history starts the listener first: Start on a listener that was stop-accepted before it ever listened
		// dereferences the nil raw listener (listener.go Start, metrics.AddListenerAddr) - a corner outside this property
		ops := []int{0}
		for len(ops) < n {
			ops = append(ops, r.Intn(len(opNames)))
		}
		// run; a history whose observations disagree with the mirror of the model is re-run with longer waits (a slow
		// accept loop looks like "not accepted"); only a history that disagrees every time goes to Coq as it is
		var obs []lisObs
		attempts := 0
		for _, scale := range []int{1, 4, 12} {
			attempts++
			obs, _ = runListenerHistory(fmt.Sprintf("vh-lis-%d-%d", s, scale), bind, ops, scale)
			if lisAgrees(bind, ops, obs) {
				break
			}
		}
		var tr, hist []string
		afterStop, afterStopAccept, hasShutdown := false, false, false
		for i, o := range ops {
			switch o {
			case 0:
				afterStopAccept = false
			case 1:
				afterStop, afterStopAccept = false, false
			case 2:
				afterStop, hasShutdown = true, true
			case 3:
				afterStopAccept, hasShutdown = true, true
			}
			ob := obs[i]
			hist = append(hist, opNames[o])
			tr = append(tr, fmt.Sprintf("(%s, %s, %d%%nat, %d%%N)", opNames[o], CoqBool(ob.acc), ob.dr, ob.dcode))
			rep := map[string]interface{}{"part": "listener", "bind_port": bind, "history": append([]string{}, hist...), "accepted": ob.acc, "on_shutdown_calls": ob.dr, "connect_inside_OnShutdown": ob.dcode, "attempts": attempts}
			// "accepted" is a positive observation (OnAccept ran for this very connection): no timing can fake it
			if bind && ob.acc && afterStop {
				run.Fail("listener:accepted-after-graceful-stop", fmt.Sprintf("a connection was accepted after Shutdown (history %v)", hist), rep)
			}
			if bind && ob.acc && afterStopAccept {
				run.Fail("listener:accepted-by-old-process-after-upgrade-stop", fmt.Sprintf("the old process accepted a connection after Shutdown while Upgrading (history %v)", hist), rep)
			}
			if bind && o == 2 && (ob.dcode == 1 || ob.dcode == 2) {
				run.Fail("listener:connect-not-refused-while-draining", fmt.Sprintf("graceful stop: a connect made while OnShutdown (the drain) was running was %s instead of refused (history %v)", map[int]string{1: "established into the backlog of a socket nobody accepts from", 2: "accepted"}[ob.dcode], hist), rep)
			}
		}
		kinds := []string{"listener-history", fmt.Sprintf("listener-ops=%d", len(ops))}
		if attempts > 1 {
			kinds = append(kinds, fmt.Sprintf("listener-history-rerun-%d-times", attempts-1))
		}
		run.Count(fmt.Sprintf("lis|%v|%v", bind, hist), hasShutdown, kinds...)
		rep := map[string]interface{}{"part": "listener", "bind_port": bind, "history": hist, "trace": tr, "attempts": attempts}
		sh.Add(fmt.Sprintf("(%s, %s)", CoqBool(bind), CoqList(tr)), rep)
		if s < 2 {
			run.Sample(rep)
		}
	}
	sh.Close()
	return 0
}

// ---------------------------------------------------------------------------------------------
// part 1: the transfer codec.  Every call into the real codec is guarded: an error or a panic of the codec on a
// well-formed message is a property failure (run.Fail with the header values / lengths as replay), never a crash of the
// harness; after a failure the socket pair is replaced because unread bytes would desynchronise the following cases.

type codecPair struct {
	dir   string
	a, b  *net.UnixConn
	close func()
}

func (p *codecPair) reset() {
	if p.close != nil {
		p.close()
	}
	p.a, p.b, p.close = unixPair(p.dir)
}

// guard runs f and turns a panic into an error.
func guard(f func() error) (err error) {
	defer func() {
		if r := recover(); r != nil {
			err = fmt.Errorf("panic: %v", r)
		}
	}()
	return f()
}

var fullRange = []uint64{0, 1, 7, 8, 9, 255, 256, 257, 1<<16 - 1, 1 << 16, 1<<16 + 1, 1<<20 - 1, 1 << 20, 1<<20 + 1, 1 << 24, 1<<31 - 1, 1 << 31, 1<<32 - 1}

func c11Codec(run *Run, dir string) {
	r := run.R
	p := &codecPair{dir: dir}
	p.reset()
	defer func() { p.close() }()

	// ---- heads: both fields over the full uint32 range (read path: data length, TLS length; write path: data length, connection id)
	heads := run.NewShard(c11Header, "head_case", "head_mismatches")
	type hv struct{ s1, s2 uint64 }
	var hvs []hv
	for _, x := range fullRange { // every boundary value in each field, the other field small and large
		hvs = append(hvs, hv{x, 0}, hv{0, x}, hv{x, x}, hv{5, x}, hv{x, 5})
	}
	for i := 0; i < run.N(40, 600); i++ {
		pick := func() uint64 {
			if r.Pct(50) {
				return fullRange[r.Intn(len(fullRange))]
			}
			return r.U64() & 0xffffffff
		}
		hvs = append(hvs, hv{pick(), pick()})
	}
	for _, h := range hvs {
		s1, s2 := h.s1, h.s2
		var built []byte
		var p1, p2 int
		err := guard(func() error {
			built = network.VerifTransferBuildHead(uint32(s1), uint32(s2))
			if err := network.VerifTransferSendHead(p.a, uint32(s1), uint32(s2)); err != nil {
				return fmt.Errorf("send: %v", err)
			}
			var err error
			p1, p2, err = network.VerifTransferRecvHead(p.b)
			return err
		})
		run.Count(fmt.Sprintf("head|%d|%d", s1, s2), s1 != 0 || s2 != 0, "codec-head")
		rep := map[string]interface{}{"part": "head", "field1": s1, "field2": s2, "built": Hex(built), "parsed": []int{p1, p2}, "error": fmt.Sprint(err)}
		switch {
		case err != nil:
			run.Fail("transfer:head-rejected", fmt.Sprintf("the transfer head (%d, %d) - a data length with a TLS length (read path) or a connection id (write path) - was refused by the real receiver: %v", s1, s2, err), rep)
			p.reset()
		case uint64(p1) != s1 || uint64(p2) != s2:
			run.Fail("transfer:head-roundtrip-differs", fmt.Sprintf("head (%d,%d) came back as (%d,%d)", s1, s2, p1, p2), rep)
		}
		heads.Add(fmt.Sprintf("(%s, %s, %s, %s, %s)", CoqN(s1), CoqN(s2), CoqBytes(built), CoqN(uint64(p1)), CoqN(uint64(p2))), rep)
	}
	heads.Close()

	// ---- read messages
	rm := run.NewShard(c11Header, "rmsg_case", "rmsg_mismatches")
	dataLens := []int{0, 1, 7, 8, 9, 255, 256, 257, 1023, 1024, 4095, 4096, 65535, 65536, 65537, 70000, 1<<20 + 1}
	if run.Thorough() {
		dataLens = append(dataLens, 262144, 1<<20-1, 1<<20, 2<<20, 3<<20+7)
	}
	tlsLens := []int{0, 0, 1, 8, 100, 700}
	nm := run.N(40, 300)
	for i := 0; i < nm; i++ {
		dl := dataLens[i%len(dataLens)]
		if i >= len(dataLens) && r.Pct(50) {
			dl = r.Intn(3000)
		}
		tl := tlsLens[r.Intn(len(tlsLens))]
		data, tls, extra := payload(r, dl), payload(r, tl), r.Bytes(r.Intn(6))
		send := func() error {
			return guard(func() error {
				buf := buffer.GetIoBuffer(dl + tl)
				buf.Write(data)
				buf.Write(tls)
				return network.VerifTransferReadSend(p.a, buf, dl, tl)
			})
		}
		// wire image: the same send captured raw
		var wire []byte
		var wg sync.WaitGroup
		wg.Add(1)
		go func(b *net.UnixConn) { defer wg.Done(); wire, _ = readN(b, 8+dl+tl) }(p.b)
		serr := send()
		wg.Wait()
		// the real receiver, followed by extra bytes that must stay on the socket
		var d2, t2, rest []byte
		var rerr error
		if serr == nil {
			wg.Add(1)
			go func(b *net.UnixConn) {
				defer wg.Done()
				rerr = guard(func() error {
					var err error
					d2, t2, err = network.VerifTransferReadRecv(b)
					return err
				})
				if rerr != nil {
					b.Close() // unblock the sender: nobody will read the rest
					return
				}
				rest, _ = readN(b, len(extra))
			}(p.b)
			serr2 := send()
			p.a.Write(extra)
			wg.Wait()
			if rerr == nil && serr2 != nil {
				serr = serr2
			}
		}
		run.Count(fmt.Sprintf("rmsg|%d|%d|%x", dl, tl, append(append([]byte{}, data[:min(4, dl)]...), tls[:min(4, tl)]...)), dl+tl > 0, "codec-read-msg", fmt.Sprintf("codec-read-len<=%d", bucket(dl)))
		rep := map[string]interface{}{"part": "read-msg", "data_len": dl, "tls_len": tl, "extra": Hex(extra), "data_head": Hex(data[:min(16, dl)]), "send_error": fmt.Sprint(serr), "recv_error": fmt.Sprint(rerr)}
		switch {
		case serr != nil:
			run.Fail("transfer:read-message-send-failed", fmt.Sprintf("sending a hand-over message with %d B of buffered data and %d B of TLS state failed: %v", dl, tl, serr), rep)
			p.reset()
		case rerr != nil:
			run.Fail("transfer:read-message-rejected", fmt.Sprintf("hand-over of a connection with %d B of buffered read data and %d B of TLS state was refused by the real receiver: %v", dl, tl, rerr), rep)
			p.reset()
		case string(d2) != string(data) || string(t2) != string(tls) || string(rest) != string(extra):
			run.Fail("transfer:read-message-roundtrip-differs", fmt.Sprintf("data %d B / tls %d B came back as %d B / %d B (contents differ or following bytes consumed)", dl, tl, len(d2), len(t2)), rep)
			p.reset()
		}
		rm.Add(fmt.Sprintf("(%s, %s, %s, %s, %s, %s)", CoqBytes(data), CoqBytes(tls), CoqBytes(wire), CoqBytes(extra), CoqBytes(d2), CoqBytes(t2)), rep)
		if i < 3 {
			run.Sample(rep)
		}
	}
	rm.Close()

	// ---- write messages: the second head field is the CONNECTION ID of the new process, over the full uint32 range
	wm := run.NewShard(c11Header, "wmsg_case", "wmsg_mismatches")
	type wv struct {
		id uint64
		dl int
	}
	var wvs []wv
	for _, x := range fullRange {
		if x != 0 { // 0 is transferErr
			wvs = append(wvs, wv{x, 1 + r.Intn(300)})
		}
	}
	wvs = append(wvs, wv{1 << 32, 10}, wv{1<<32 + 5, 10}, wv{1 << 40, 0}, wv{3, 1<<20 + 1}, wv{1<<20 + 2, 1 << 20})
	if run.Thorough() {
		wvs = append(wvs, wv{9, 2 << 20}, wv{1<<31 + 1, 3<<20 + 7})
	}
	for i := 0; i < run.N(20, 200); i++ {
		dl := dataLens[r.Intn(len(dataLens)-1)]
		if r.Pct(50) {
			dl = r.Intn(2000)
		}
		id := uint64(1 + r.Intn(1<<20))
		if r.Pct(40) {
			id = r.U64()&0xffffffff | 1
		}
		wvs = append(wvs, wv{id, dl})
	}
	for _, w := range wvs {
		id, dl := w.id, w.dl
		data := payload(r, dl)
		send := func() error {
			return guard(func() error {
				return network.VerifTransferWriteSend(p.a, int(id), buffer.NewIoBufferBytes(append([]byte{}, data...)))
			})
		}
		var wire []byte
		var wg sync.WaitGroup
		wg.Add(1)
		go func(b *net.UnixConn) { defer wg.Done(); wire, _ = readN(b, 8+dl) }(p.b)
		serr := send()
		wg.Wait()
		var id2 int
		var d2 []byte
		var rerr error
		var id3 uint64
		if serr == nil {
			wg.Add(1)
			go func(b *net.UnixConn) {
				defer wg.Done()
				rerr = guard(func() error {
					var err error
					id2, d2, err = network.VerifTransferWriteRecv(b)
					return err
				})
				if rerr != nil {
					b.Close()
				}
			}(p.b)
			serr2 := send()
			wg.Wait()
			if rerr == nil && serr2 != nil {
				serr = serr2
			}
			if rerr == nil && serr == nil {
				// the id message (new process -> old process)
				rerr = guard(func() error {
					if err := network.VerifTransferSendID(p.a, id); err != nil {
						return err
					}
					id3 = network.VerifTransferRecvID(p.b)
					return nil
				})
			}
		}
		run.Count(fmt.Sprintf("wmsg|%d|%d", id, dl), true, "codec-write-msg")
		rep := map[string]interface{}{"part": "write-msg", "connection_id": id, "data_len": dl, "id_back": id2, "id_msg_back": id3, "send_error": fmt.Sprint(serr), "recv_error": fmt.Sprint(rerr)}
		switch {
		case serr != nil:
			run.Fail("transfer:write-message-send-failed", fmt.Sprintf("forwarding %d B for connection id %d failed on the sending side: %v", dl, id, serr), rep)
			p.reset()
		case rerr != nil:
			run.Fail("transfer:write-message-rejected", fmt.Sprintf("a forwarded write of %d B for connection id %d was refused by the real receiver: %v", dl, id, rerr), rep)
			p.reset()
		case string(d2) != string(data) || (id < 1<<32 && (uint64(id2) != id || id3 != id)):
			run.Fail("transfer:write-message-roundtrip-differs", fmt.Sprintf("id %d / %d B came back as id %d (id message %d) / %d B", id, dl, id2, id3, len(d2)), rep)
			p.reset()
		case uint64(id2) != id3:
			run.Fail("transfer:id-encodings-disagree", "the id in the write head and the id message decode differently", rep)
		}
		wm.Add(fmt.Sprintf("(%s, %s, %s, %s, %s)", CoqN(id), CoqBytes(data), CoqBytes(wire), CoqN(uint64(id2)), CoqBytes(d2)), rep)
	}
	wm.Close()
}
