package main

// C11 part 3b: a server with SEVERAL listeners (ingress + egress ..., different protocols).  For each group a second
// connection handler (server.NewHandler) gets three listeners; an in-flight request (waiting for its upstream) sits on
// the listener at position p - every position in turn - and an idle warmed-up connection on every listener; then the real
// GracefulStopListeners (what server.Shutdown calls: all listeners in parallel) runs.  Per-listener assertions:
//   every listener stops accepting, every listener's connections get the shutdown event (visible as HTTP/2 GOAWAY),
//   GracefulStopListeners returns only after the in-flight request, whichever listener it is on.

import (
	"fmt"
	"sync"
	"time"

	v2 "mosn.io/mosn/pkg/config/v2"
	"mosn.io/mosn/pkg/configmanager"
	"mosn.io/mosn/pkg/server"

	. "vh/vhlib"
)

type mlListener struct {
	Proto string `json:"protocol"`
	Name  string `json:"listener"`
	Addr  string `json:"-"`
	cfg   v2.Listener
	// observed
	OpenAfter string `json:"connect_after_shutdown"` // refused | established
	Announced string `json:"idle_connection_was_told"`
}

type mlGroup struct {
	Ls       []*mlListener `json:"listeners"`
	Pos      int           `json:"in_flight_request_on_listener"`
	Req      *reqPlan      `json:"request"`
	Signal   int           `json:"signal_planned"`
	SigObs   int           `json:"signal_at"`
	ReturnAt int           `json:"GracefulStopListeners_returned_at"`
	Drain    int           `json:"drain_ms"`
	Jitter   int           `json:"scheduling_jitter_ms"`
	Tol      int           `json:"tolerance_ms"`
	Attempts int           `json:"attempts"`
	Err      string        `json:"harness_error,omitempty"`
}

// mlPlan allocates the listener configs of n groups (they are added to handlers of their own later; routers and clusters
// go into the in-process MOSN's start configuration).
func mlPlan(n int, closers *[]func()) ([]*mlGroup, []*v2.RouterConfiguration, []v2.Cluster) {
	var gs []*mlGroup
	var rcs []*v2.RouterConfiguration
	var cls []v2.Cluster
	base := []string{"http2", "bolt", "http1"}
	for g := 0; g < n; g++ {
		grp := &mlGroup{}
		for i := 0; i < 3; i++ {
			proto := base[(i+g)%3] // rotate: every position hosts every protocol in some group
			upAddr, closeUp := upstreamFor(proto)
			*closers = append(*closers, closeUp)
			name := fmt.Sprintf("vh-ml-%d-%d", g, i)
			addr := fmt.Sprintf("127.0.0.1:%d", freePort())
			l, rc, cl := listenerFor(name, addr, proto, "vh-router-"+name, "vh-up-"+name, upAddr)
			grp.Ls = append(grp.Ls, &mlListener{Proto: proto, Name: name, Addr: addr, cfg: l})
			rcs, cls = append(rcs, rc), append(cls, cl)
		}
		gs = append(gs, grp)
	}
	return gs, rcs, cls
}

func (g *mlGroup) positionName() string {
	switch {
	case g.Pos == len(g.Ls)-1:
		return "last"
	case g.Pos == 0:
		return "first"
	}
	return "middle"
}

func runMLGroup(mu *mosnUnderTest, g *mlGroup, pos int, drain int) {
	g.Pos, g.Drain = pos, drain
	h := server.NewHandler(noopCMF{}, mu.m.Clustermanager)
	for _, l := range g.Ls {
		cfg := l.cfg
		lc := configmanager.ParseListenerConfig(&cfg, nil, nil)
		if _, err := h.AddOrUpdateListener(lc); err != nil {
			g.Err = "AddOrUpdateListener: " + err.Error()
			return
		}
	}
	h.StartListeners(nil)
	var idle []client
	defer func() {
		for _, c := range idle {
			c.close()
		}
	}()
	for _, l := range g.Ls {
		var c client
		var err error
		for w := 0; w < 150; w++ {
			if c, err = newClient(l.Proto, l.Addr, 200*time.Millisecond); err == nil {
				break
			}
			time.Sleep(20 * time.Millisecond)
		}
		if err != nil {
			g.Err = "listener did not start: " + err.Error()
			return
		}
		if err := c.warmup(); err != nil {
			g.Err = "warm-up: " + err.Error()
			return
		}
		idle = append(idle, c)
	}
	// the in-flight request uses a connection of its own on listener `pos`
	rc, err := newClient(g.Ls[pos].Proto, g.Ls[pos].Addr, time.Second)
	if err != nil {
		g.Err = "dial: " + err.Error()
		return
	}
	defer rc.close()
	if err := rc.warmup(); err != nil {
		g.Err = "warm-up: " + err.Error()
		return
	}
	g.Req = &reqPlan{Up: 240, ReplyAt: -1}
	g.Signal = 100
	time.Sleep(30 * time.Millisecond)
	origin := time.Now()
	ms := func() int { return int(time.Since(origin) / time.Millisecond) }
	var wg sync.WaitGroup
	wg.Add(1)
	go func() { defer wg.Done(); rc.do(7, g.Req, ms) }()
	time.Sleep(time.Until(origin.Add(time.Duration(g.Signal) * time.Millisecond)))
	g.SigObs = ms()
	h.GracefulStopListeners(nil)
	g.ReturnAt = ms()
	// every listener must refuse new connections now
	for _, l := range g.Ls {
		l.OpenAfter = "refused"
		if c, err := dialLocal(l.Addr, 200*time.Millisecond); err == nil {
			l.OpenAfter = "established"
			c.Close()
		}
	}
	wg.Wait()
	// every listener's connections must have got the shutdown event: observable on HTTP/2 connections as GOAWAY
	for i, l := range g.Ls {
		l.Announced = "n/a"
		if l.Proto == "http2" {
			for w := 0; w < 150 && idle[i].goneAway() == ""; w++ {
				time.Sleep(20 * time.Millisecond)
			}
			l.Announced = idle[i].goneAway()
			if l.Announced == "" {
				l.Announced = "nothing"
			}
		}
	}
	// leave nothing listening (a skipped listener would stay open)
	if ch, ok := h.(interface{ CloseListeners() }); ok {
		ch.CloseListeners()
	}
}

type mlJudgement struct {
	racy, agree bool
	verdicts    []verdict
}

func judgeML(g *mlGroup) mlJudgement {
	var j mlJudgement
	J := g.Jitter
	g.Tol = 70 + 4*J
	margin := 15 + 2*J
	p := g.Req
	dec, done := decodeAt(g.Ls[g.Pos].Proto, p), p.ReplyAt
	if done < 0 {
		done = p.SentAt + p.Up
	}
	for _, b := range []int{dec, done} {
		if d := g.SigObs - b; d > -margin && d < margin {
			j.racy = true
		}
	}
	if J > 60 {
		j.racy = true
	}
	pred := drainMirror([]mreq{{dec, done}}, g.SigObs, g.Drain, 10)
	d := pred - g.ReturnAt
	j.agree = d <= g.Tol && -d <= g.Tol
	rep := map[string]interface{}{"part": "multi-listener", "group": g}
	where := fmt.Sprintf("listener-position=%s-of-%d", g.positionName(), len(g.Ls))
	if !j.racy && g.SigObs >= dec+margin && done-g.SigObs <= g.Drain-40-2*J {
		switch {
		case p.ReplyAt < 0 || !p.OK:
			j.verdicts = append(j.verdicts, verdict{"shutdown:multi-listener:in-flight-request-failed:" + where, fmt.Sprintf("the %s request in flight on listener %d of %d got no reply", g.Ls[g.Pos].Proto, g.Pos, len(g.Ls)), rep, false})
		case p.ReplyAt > g.ReturnAt+20+2*J:
			j.verdicts = append(j.verdicts, verdict{"shutdown:multi-listener:returned-before-in-flight-reply:" + where, fmt.Sprintf("GracefulStopListeners returned at %d ms, before the reply (%d ms) of the %s request in flight on listener %d of %d (signal at %d ms, remaining %d ms <= drain %d ms)", g.ReturnAt, p.ReplyAt, g.Ls[g.Pos].Proto, g.Pos, len(g.Ls), g.SigObs, done-g.SigObs, g.Drain), rep, false})
		}
	}
	// timing-free observations
	for i, l := range g.Ls {
		pos := "middle"
		if i == len(g.Ls)-1 {
			pos = "last"
		} else if i == 0 {
			pos = "first"
		}
		if l.OpenAfter == "established" {
			j.verdicts = append(j.verdicts, verdict{"shutdown:multi-listener:listener-still-accepting-after-server-shutdown:listener-position=" + pos, fmt.Sprintf("after GracefulStopListeners returned a connect to listener %d of %d (%s) still succeeded", i, len(g.Ls), l.Proto), rep, true})
		}
		if l.Announced == "nothing" {
			j.verdicts = append(j.verdicts, verdict{"shutdown:multi-listener:connections-got-no-shutdown-event:listener-position=" + pos, fmt.Sprintf("the idle HTTP/2 connection on listener %d of %d received no GOAWAY", i, len(g.Ls)), rep, true})
		}
	}
	return j
}

// c11Multi runs every position; a group that disagrees with the mirror or yields a timing-based verdict is re-run on a
// spare group (up to three runs).  `listed` is used here for "needs no confirmation by a re-run" (timing-free observation).
func c11Multi(run *Run, mu *mosnUnderTest, groups []*mlGroup, drain int) int {
	sh := run.NewShard(inlineGen(genTransferTokens)+c11Header, "srv_case", "srv_mismatches shutdown_goroutine_has_own_listener")
	next := 0
	take := func() *mlGroup {
		if next < len(groups) {
			next++
			return groups[next-1]
		}
		return nil
	}
	positions := []int{0, 1, 2}
	if run.Thorough() {
		positions = []int{0, 1, 2, 0, 1, 2, 0, 1, 2}
	}
	for _, pos := range positions {
		var g *mlGroup
		var j mlJudgement
		for attempt := 1; attempt <= 3; attempt++ {
			ng := take()
			if ng == nil {
				break
			}
			g = ng
			t0 := time.Now()
			runMLGroup(mu, g, pos, drain)
			g.Jitter = jit.max(t0, time.Now())
			g.Attempts = attempt
			if g.Err != "" {
				continue
			}
			j = judgeML(g)
			again := !j.racy && !j.agree
			for _, v := range j.verdicts {
				if !v.listed {
					again = true
				}
			}
			if j.racy {
				again = true // try to get a comparable run
			}
			if !again {
				break
			}
		}
		if g == nil || g.Err != "" {
			run.Count(fmt.Sprintf("ml|not-run|%d", pos), false, "multi-listener-group-could-not-run")
			continue
		}
		for _, v := range j.verdicts {
			if j.racy && !v.listed {
				continue
			}
			run.Fail(v.sig, v.what, v.rep)
		}
		kinds := []string{"multi-listener-in-flight-on-position=" + g.positionName(), "multi-listener-in-flight-protocol=" + g.Ls[g.Pos].Proto}
		if g.Attempts > 1 {
			kinds = append(kinds, fmt.Sprintf("multi-listener-rerun-%d-times", g.Attempts-1))
		}
		if j.racy {
			kinds = append(kinds, "multi-listener-signal-on-boundary-not-compared")
		}
		run.Count(fmt.Sprintf("ml|%d|%s", pos, g.Ls[g.Pos].Proto), true, kinds...)
		rep := map[string]interface{}{"part": "multi-listener", "group": g}
		if !j.racy {
			var xss, open []string
			for i, l := range g.Ls {
				if i == g.Pos {
					p := g.Req
					first, hdr, sent := p.FirstAt, max(p.HdrAt, p.FirstAt), max(p.SentAt, max(p.HdrAt, p.FirstAt))
					done := p.ReplyAt
					if done < 0 {
						done = sent + p.Up
					}
					xss = append(xss, fmt.Sprintf("[mkX %s %d%%nat %d%%nat %d%%nat %d%%nat]", coqProto[l.Proto], first, hdr, sent, max(done, sent)))
				} else {
					xss = append(xss, "[]")
				}
				open = append(open, CoqBool(l.OpenAfter == "established"))
			}
			sh.Add(fmt.Sprintf("(%s, %d%%nat, %d%%nat, 10%%nat, %d%%nat, %d%%nat, %s)", CoqList(xss), g.SigObs, g.Drain, g.Tol, g.ReturnAt, CoqList(open)), rep)
		}
		run.Sample(rep)
	}
	sh.Close()
	return 0
}
