package main

import . "vh/vhlib"

func main() {
	Main(map[string]CmdFn{
		"gen":      func(a []string) int { return RunGen(gens, a) },
		"c13":      c13,
		"c13hs":    c13hs,
		"c11":      c11,
		"c12":      c12,
		"c11stage": c11stageChild,
	})
}
