package main

// C12 (part of group tls): runtime LISTENER updates are coherent with the dumped configuration.
//
// Generated update histories (AddOrUpdateListener with and without TLS contexts, inspector flips, route changes, idle
// time-out changes, same-name re-adds, DeleteListener) are applied through the real ListenerAdapter (the LDS entry points)
// of an in-process MOSN.  Afterwards every listener of the history is probed with a TLS client, a plaintext client and an
// idle connection, and so is a listener FRESHLY built from the listener config that configmanager holds for the dump.
// finder: the property itself - live must equal fresh-from-dump, field by field; a deleted listener must be gone from both.

import (
	gotls "crypto/tls"
	"encoding/json"
	"fmt"
	"io"
	"net"
	"os"
	"reflect"
	"strings"
	"sync"
	"time"

	"mosn.io/api"
	v2 "mosn.io/mosn/pkg/config/v2"
	"mosn.io/mosn/pkg/configmanager"
	"mosn.io/mosn/pkg/log"
	"mosn.io/mosn/pkg/server"
	"mosn.io/mosn/pkg/types"

	. "vh/vhlib"
)

var c12Header = inlineGen(genListenerTokens) + "From MV Require Import Model.ListenerUpdate.\nFrom Coq Require Import List.\nImport ListNotations.\n"

type luConf struct {
	Ctxs  []int `json:"tls_contexts"` // 1 = certificate A, 2 = certificate B
	Insp  bool  `json:"inspector"`
	Route int   `json:"route_target"` // 1 = upstream A, 2 = upstream B
	Idle  int   `json:"idle_timeout"` // 0 unset, 1 = 400 ms
	// the fields an in-place update does not apply to a running listener, as an index into luStatics
	Static int `json:"static_fields"`
	// a stream filter entry (a field an update DOES apply; only compared between the live config and the dump)
	SF bool `json:"stream_filter,omitempty"`
}

// luStatic is one combination of the listener fields an in-place update leaves alone.
type luStatic struct {
	Bind  bool            `json:"bind_port"`
	Type  v2.ListenerType `json:"type"`
	Reuse bool            `json:"reuseport"`
	ALog  bool            `json:"access_logs"`
	Buf   int             `json:"default_read_buffer_size"`
}

var luStatics = []luStatic{
	{true, v2.INGRESS, false, false, 0},
	{false, v2.INGRESS, false, false, 0}, // only in update documents
	{true, v2.EGRESS, false, false, 0},
	{true, v2.INGRESS, true, false, 0},
	{true, v2.INGRESS, false, true, 0},
	{true, v2.INGRESS, false, false, 8192},
	{false, v2.EGRESS, true, true, 8192}, // everything at once; only in update documents
	{true, v2.EGRESS, true, true, 8192},
}
var luAddStatics = []int{0, 2, 3, 4, 5, 7}

// staticToken maps the static fields of a listener config back to the index (99 = none of the generated combinations).
func staticToken(l *v2.Listener) int {
	got := luStatic{l.BindToPort, l.Type, l.ReusePort, len(l.AccessLogs) > 0, l.DefaultReadBufferSize}
	for i, st := range luStatics {
		if st == got {
			return i
		}
	}
	return 99
}

// configDiff compares the dumped listener config with the live listener's own config, field by field (every field of
// v2.ListenerConfig, by its JSON form, and the resolved address).
func configDiff(live, dump *v2.Listener) []string {
	var out []string
	lv, dv := reflect.ValueOf(live.ListenerConfig), reflect.ValueOf(dump.ListenerConfig)
	for i := 0; i < lv.NumField(); i++ {
		a, _ := json.Marshal(lv.Field(i).Interface())
		b, _ := json.Marshal(dv.Field(i).Interface())
		if string(a) != string(b) {
			name := lv.Type().Field(i).Tag.Get("json")
			if k := strings.Index(name, ","); k >= 0 {
				name = name[:k]
			}
			out = append(out, name)
		}
	}
	la, da := "", ""
	if live.Addr != nil {
		la = live.Addr.String()
	}
	if dump.Addr != nil {
		da = dump.Addr.String()
	}
	if la != da {
		out = append(out, "resolved-address")
	}
	return out
}

type luOp struct {
	Remove bool    `json:"remove,omitempty"`
	Name   int     `json:"listener"`
	Conf   *luConf `json:"config,omitempty"`
}

type luObs struct {
	Listening   bool `json:"listening"`
	TLS         bool `json:"tls_handshake"`
	Cert        int  `json:"certificate"`
	Plain       bool `json:"plaintext_served"`
	Route       int  `json:"route_target"`
	IdleClosed  bool `json:"idle_connection_closed"`
	Static      int  `json:"static_fields_of_live_config"`
	InDump      bool `json:"-"`
	tlsRoute    int
	plainRoute  int
	idleChecked bool
}

func (o luObs) coq() string {
	return fmt.Sprintf("(%s, %s, %d%%nat, %s, %d%%nat, %s, %d%%nat)", CoqBool(o.Listening), CoqBool(o.TLS), o.Cert, CoqBool(o.Plain), o.Route, CoqBool(o.IdleClosed), o.Static)
}

func (c *luConf) coq() string {
	var cs []string
	for _, t := range c.Ctxs {
		cs = append(cs, fmt.Sprintf("%d%%nat", t))
	}
	return fmt.Sprintf("(mkLC %s %s %d%%nat %d%%nat %d%%nat)", CoqList(cs), CoqBool(c.Insp), c.Route, c.Idle, c.Static)
}

type c12Env struct {
	leaf    map[int]*leaf
	routers map[int]string
	addr    map[string]string // listener name -> address
	scale   int
	dir     string
}

func (e *c12Env) listenerConfig(name, addr string, c *luConf) *v2.Listener {
	proxy := &v2.Proxy{DownstreamProtocol: "bolt", UpstreamProtocol: "bolt", RouterConfigName: e.routers[c.Route]}
	var tcs []v2.TLSConfig
	for _, t := range c.Ctxs {
		tcs = append(tcs, v2.TLSConfig{Status: true, CertChain: e.leaf[t].certPEM, PrivateKey: e.leaf[t].keyPEM})
	}
	st := luStatics[c.Static]
	l := v2.Listener{ListenerConfig: v2.ListenerConfig{Name: name, AddrConfig: addr, BindToPort: st.Bind, Type: st.Type, ReusePort: st.Reuse,
		DefaultReadBufferSize: st.Buf, Network: "tcp", Inspector: c.Insp,
		FilterChains: []v2.FilterChain{{TLSContexts: tcs, FilterChainConfig: v2.FilterChainConfig{Filters: []v2.Filter{{Type: "proxy", Config: toMap(proxy)}}}}}}}
	if st.ALog {
		l.AccessLogs = []v2.AccessLog{{Path: e.dir + "/access-" + name + ".log", Format: "%start_time% %protocol%"}}
	}
	if c.SF {
		l.StreamFilters = []v2.Filter{{Type: "vh-unregistered-stream-filter", Config: map[string]interface{}{"k": "v"}}}
	}
	if c.Idle == 1 {
		l.ConnectionIdleTimeout = &api.DurationConfig{Duration: 400 * time.Millisecond}
	}
	return configmanager.ParseListenerConfig(&l, nil, nil)
}

// boltOver sends one bolt request over c and returns the content of the reply ("" = none).
func boltOver(c net.Conn, id uint32) string {
	c.SetDeadline(time.Now().Add(generous))
	body, _ := json.Marshal(script{})
	if _, err := c.Write(boltRequest(id, body)); err != nil {
		return ""
	}
	for {
		typ, _, rid, content, err := readBoltFrame(c)
		if err != nil {
			return ""
		}
		if typ == 0 && rid == id {
			return string(content)
		}
	}
}

func tagRoute(s string) int {
	switch s {
	case "A":
		return 1
	case "B":
		return 2
	}
	return 0
}

// closedWithin reports whether the server closes the (idle) connection within d.
func closedWithin(c net.Conn, d time.Duration) bool {
	c.SetReadDeadline(time.Now().Add(d))
	_, err := c.Read(make([]byte, 1))
	if err == nil {
		return false
	}
	if ne, ok := err.(net.Error); ok && ne.Timeout() {
		return false
	}
	return true // EOF / reset
}

// observeListener probes one address the way a client can.
func (e *c12Env) observeListener(addr string, scale int) luObs {
	var o luObs
	c, err := dialLocal(addr, 500*time.Millisecond)
	if err != nil {
		return o
	}
	c.Close()
	o.Listening = true
	idleWait := time.Duration(2500*scale) * time.Millisecond
	// TLS client
	if raw, err := dialLocal(addr, time.Second); err == nil {
		raw.SetDeadline(time.Now().Add(generous))
		tc := gotls.Client(raw, &gotls.Config{InsecureSkipVerify: true})
		if tc.Handshake() == nil {
			o.TLS = true
			if pcs := tc.ConnectionState().PeerCertificates; len(pcs) > 0 {
				for t, lf := range e.leaf {
					if string(lf.der) == string(pcs[0].Raw) {
						o.Cert = t
					}
				}
			}
			o.tlsRoute = tagRoute(boltOver(tc, 11))
			if o.tlsRoute != 0 {
				o.IdleClosed, o.idleChecked = closedWithin(tc, idleWait), true
			}
		}
		raw.Close()
	}
	// plaintext client
	if raw, err := dialLocal(addr, time.Second); err == nil {
		o.plainRoute = tagRoute(boltOver(raw, 12))
		o.Plain = o.plainRoute != 0
		if o.Plain && !o.idleChecked {
			o.IdleClosed, o.idleChecked = closedWithin(raw, idleWait), true
		}
		raw.Close()
	}
	o.Route = o.tlsRoute
	if o.Route == 0 {
		o.Route = o.plainRoute
	}
	return o
}

// dumpedListener returns the listener config configmanager holds for the dump (unredacted, through the verif accessor).
func dumpedListener(name string) (v2.Listener, bool) {
	m, ok := reflect.ValueOf(configmanager.VerifConf()).Elem().FieldByName("Listener").Interface().(map[string]v2.Listener)
	if !ok {
		return v2.Listener{}, false
	}
	l, ok := m[name]
	return l, ok
}

func c12(args []string) int {
	run := NewRun("C12", args)
	r := run.R
	log.DefaultLogger.SetLogLevel(log.FATAL)
	jit = startJitter()
	run.Sum.Rule = "histories of 2-6 operations on 1-2 listener names from {AddOrUpdateListener(config), DeleteListener}; a config = TLS contexts in {none, A, B, A+B} x inspector x route target {A, B} x idle time-out {unset, 400 ms} x stream filter entry x static fields (bind_port, type, reuseport, access_logs, default_read_buffer_size: default, one changed at a time, all changed; half of the update documents differ from the running listener in them; bind_port=false only in update documents; network cannot differ: such an update is rejected); biased towards inspector flips / idle changes with otherwise unchanged config, same-name re-adds after a delete; after the history each listener is probed (TLS client, plaintext client, idle connection) and compared with the model and with a listener freshly built from the dumped config, and every field of the running listener's own config is compared with the dumped listener; non-trivial = the history updates an existing listener or deletes one; distinct by history."
	dir, err := os.MkdirTemp("", "vh-c12-")
	if err != nil {
		panic(err)
	}
	defer os.RemoveAll(dir)
	// read time-outs are the granularity of the idle checker: make 400 ms observable
	types.DefaultConnReadTimeout = 100 * time.Millisecond

	right := newAuthority("right-ca")
	env := &c12Env{leaf: map[int]*leaf{}, routers: map[int]string{1: "r-A", 2: "r-B"}, addr: map[string]string{}, scale: 1, dir: dir}
	env.leaf[1], _ = right.issue("lu-a.test", []string{"lu-a.test"}, leafOpt{})
	env.leaf[2], _ = right.issue("lu-b.test", []string{"lu-b.test"}, leafOpt{})
	upA, closeA := startUpstreamTagged("A")
	defer closeA()
	upB, closeB := startUpstreamTagged("B")
	defer closeB()
	dl, rcA, clA := listenerFor("vh-c12-base", fmt.Sprintf("127.0.0.1:%d", freePort()), "bolt", "r-A", "up-A", upA)
	_, rcB, clB := listenerFor("unused", "127.0.0.1:1", "bolt", "r-B", "up-B", upB)
	if _, err := startMOSN(dir, nil, []v2.Listener{dl}, []*v2.RouterConfiguration{rcA, rcB}, []v2.Cluster{clA, clB}); err != nil {
		fmt.Println(err)
		return 2
	}
	adapter := server.GetListenerAdapterInstance()

	sh := run.NewShard(c12Header, "lu_case", "lu_mismatches listener_flags")
	ctxSets := [][]int{{}, {1}, {2}, {1, 2}}
	genConf := func() *luConf {
		c := &luConf{Ctxs: ctxSets[r.Intn(len(ctxSets))], Insp: r.Bool(), Route: 1 + r.Intn(2), Idle: r.Intn(2), SF: r.Pct(25)}
		if r.Pct(50) {
			c.Static = luAddStatics[r.Intn(len(luAddStatics))]
		}
		return c
	}
	// an update document: the applied fields of nc, static fields that (often) differ from the running listener's - one
	// field at a time or all at once; the listener keeps its own static fields (old), which is what the mirror records
	update := func(cur map[int]*luConf, n int, old *luConf, nc luConf) luOp {
		doc := nc
		doc.Static = old.Static
		if r.Pct(50) {
			doc.Static = r.Intn(len(luStatics))
		}
		merged := nc
		merged.Static = old.Static
		cur[n] = &merged
		return luOp{Name: n, Conf: &doc}
	}
	nHist := run.N(10, 40)
	type histRes struct {
		ops        []luOp
		names      []int
		live       map[int]luObs
		fresh      map[int]luObs
		dump       map[int]bool
		dumpStatic map[int]int
		liveStatic map[int]int
		cfgDiff    map[int][]string
		want       map[int]luObs // what the mirror of the model expects (used only to decide on a re-probe)
	}
	results := make([]*histRes, nHist)
	var wgAll sync.WaitGroup
	sem := make(chan struct{}, 4)
	for hi := 0; hi < nHist; hi++ {
		// plan
		nNames := 1 + r.Intn(2)
		cur := map[int]*luConf{}
		var ops []luOp
		for len(ops) < 2+r.Intn(5) {
			n := r.Intn(nNames)
			c, exists := cur[n]
			switch k := r.Intn(10); {
			case !exists:
				nc := genConf()
				cur[n] = nc
				ops = append(ops, luOp{Name: n, Conf: nc})
			case k < 2:
				delete(cur, n)
				ops = append(ops, luOp{Remove: true, Name: n})
			case k < 5: // inspector flips, the rest unchanged
				nc := *c
				nc.Insp = !c.Insp
				ops = append(ops, update(cur, n, c, nc))
			case k < 7: // idle time-out changes, the rest unchanged
				nc := *c
				nc.Idle = 1 - c.Idle
				ops = append(ops, update(cur, n, c, nc))
			case k < 8: // identical applied fields
				ops = append(ops, update(cur, n, c, *c))
			default:
				ops = append(ops, update(cur, n, c, *genConf()))
			}
		}
		// the clause that is only visible right after an update: end a third of the histories with an inspector flip
		if r.Pct(35) {
			for n, c := range cur {
				if len(c.Ctxs) > 0 {
					nc := *c
					nc.Insp = !c.Insp
					ops = append(ops, update(cur, n, c, nc))
					break
				}
			}
		}
		res := &histRes{ops: ops, live: map[int]luObs{}, fresh: map[int]luObs{}, dump: map[int]bool{}, want: map[int]luObs{}, dumpStatic: map[int]int{}, liveStatic: map[int]int{}, cfgDiff: map[int][]string{}}
		for n, c := range cur { // mirror of the model with all switches on: live = fresh(last config)
			w := luObs{Listening: true, TLS: len(c.Ctxs) > 0, Route: c.Route, IdleClosed: c.Idle == 1, Static: c.Static}
			if w.TLS {
				w.Cert = c.Ctxs[0]
			}
			w.Plain = !w.TLS || c.Insp
			res.want[n] = w
		}
		results[hi] = res
		for n := 0; n < nNames; n++ {
			res.names = append(res.names, n)
			env.addr[fmt.Sprintf("vh-lu-%d-%d", hi, n)] = fmt.Sprintf("127.0.0.1:%d", freePort())
		}
		// apply (updates are serialised: the adapter and configmanager are process-wide)
		for _, o := range ops {
			name := fmt.Sprintf("vh-lu-%d-%d", hi, o.Name)
			if o.Remove {
				if err := adapter.DeleteListener("", name); err != nil {
					fmt.Println("DeleteListener:", err)
					return 2
				}
				continue
			}
			if err := adapter.AddOrUpdateListener("", env.listenerConfig(name, env.addr[name], o.Conf)); err != nil {
				fmt.Println("AddOrUpdateListener:", err)
				return 2
			}
		}
		// fresh listeners from the dump are created here (serialised), probed in parallel below
		freshAddr := map[int]string{}
		for _, n := range res.names {
			name := fmt.Sprintf("vh-lu-%d-%d", hi, n)
			dl, ok := dumpedListener(name)
			res.dump[n] = ok
			// the running listener's own config, compared with the dump field by field
			var liveCfg *v2.Listener
			if ln := adapter.FindListenerByName("", name); ln != nil {
				c := *ln.Config()
				liveCfg = &c
				res.liveStatic[n] = staticToken(liveCfg)
				if ln.IsBindToPort() != liveCfg.BindToPort {
					res.liveStatic[n] = 98
				}
			}
			if !ok {
				continue
			}
			res.dumpStatic[n] = staticToken(&dl)
			if liveCfg != nil {
				res.cfgDiff[n] = configDiff(liveCfg, &dl)
			}
			fl := dl
			fl.Name = name + "-fresh"
			fl.AddrConfig = fmt.Sprintf("127.0.0.1:%d", freePort())
			fl.Addr = nil
			fl.InheritListener = nil
			freshAddr[n] = fl.AddrConfig
			if err := adapter.AddOrUpdateListener("", configmanager.ParseListenerConfig(&fl, nil, nil)); err != nil {
				fmt.Println("fresh listener from the dump:", err)
				return 2
			}
		}
		wgAll.Add(1)
		go func(hi int, res *histRes, freshAddr map[int]string) {
			defer wgAll.Done()
			sem <- struct{}{}
			defer func() { <-sem }()
			time.Sleep(150 * time.Millisecond) // let new listeners start
			same := func(a, b luObs) bool {
				return a.Listening == b.Listening && a.TLS == b.TLS && a.Cert == b.Cert && a.Plain == b.Plain && a.Route == b.Route && a.IdleClosed == b.IdleClosed
			}
			for _, n := range res.names {
				name := fmt.Sprintf("vh-lu-%d-%d", hi, n)
				// a probe that disagrees with the mirror or with the fresh listener is repeated with longer waits (the idle
				// probe is wall-clock based); the last probe is the one reported
				for _, scale := range []int{1, 3, 6} {
					lo := env.observeListener(env.addr[name], scale)
					if lo.Listening {
						lo.Static = res.liveStatic[n]
					}
					res.live[n] = lo
					a, hasFresh := freshAddr[n]
					if hasFresh {
						res.fresh[n] = env.observeListener(a, scale)
					}
					if same(res.live[n], res.want[n]) && (!hasFresh || same(res.live[n], res.fresh[n])) {
						break
					}
				}
			}
		}(hi, res, freshAddr)
	}
	wgAll.Wait()

	for hi, res := range results {
		var coqOps []string
		nontrivial := false
		seen := map[int]bool{}
		for _, o := range res.ops {
			if o.Remove {
				coqOps = append(coqOps, fmt.Sprintf("URemove %d%%nat", o.Name))
				nontrivial = true
			} else {
				coqOps = append(coqOps, fmt.Sprintf("UAddOrUpdate %d%%nat %s", o.Name, o.Conf.coq()))
				if seen[o.Name] {
					nontrivial = true
				}
				seen[o.Name] = true
			}
		}
		for _, n := range res.names {
			live := res.live[n]
			rep := map[string]interface{}{"part": "listener-updates", "history": res.ops, "listener": n, "live": live, "in_dump": res.dump[n]}
			run.Count(fmt.Sprintf("lu|%d|%v|%d", hi, coqOps, n), nontrivial, "listener-update-history", fmt.Sprintf("listener-update-ops=%d", len(res.ops)))
			dumped := "None"
			if res.dump[n] {
				dumped = fmt.Sprintf("(Some %d%%nat)", res.dumpStatic[n])
				rep["static_fields_of_dumped_config"] = res.dumpStatic[n]
			}
			rep["static_field_combinations"] = luStatics
			sh.Add(fmt.Sprintf("(%s, %d%%nat, %s, %s)", CoqList(coqOps), n, live.coq(), dumped), rep)
			// finder: the dumped listener config is the running listener's own config, field by field
			for _, f := range res.cfgDiff[n] {
				run.Fail("c12:listener-dump-differs-from-live:"+f, fmt.Sprintf("after the update history the dumped config of the listener differs from the running listener's own config in %s", f), rep)
			}
			// finder: live = fresh(dump)
			if !res.dump[n] {
				if live.Listening {
					run.Fail("c12:listener:live-differs-from-fresh-from-dump:listener-missing-from-dump", "a live listener has no entry in the dumped configuration", rep)
				}
				continue
			}
			fresh := res.fresh[n]
			rep["fresh_from_dump"] = fresh
			if !live.Listening {
				run.Fail("c12:listener:live-differs-from-fresh-from-dump:deleted-listener-still-in-dump", "the listener was deleted (nothing listens on its address) but the dumped configuration still contains it: a fresh MOSN started from the dump serves it", rep)
				continue
			}
			if !fresh.Listening {
				run.Fail("c12:listener:live-differs-from-fresh-from-dump:bind-accept", "the live listener is bound and accepts connections, a listener freshly built from its dumped config does not", rep)
				continue
			}
			for _, f := range []struct {
				field string
				diff  bool
			}{{"tls-handshake", live.TLS != fresh.TLS}, {"certificate", live.Cert != fresh.Cert}, {"inspector(plaintext-served)", live.Plain != fresh.Plain},
				{"route-target", live.Route != fresh.Route}, {"idle-timeout", live.IdleClosed != fresh.IdleClosed}} {
				if f.diff {
					run.Fail("c12:listener:live-differs-from-fresh-from-dump:"+f.field, fmt.Sprintf("after the update history the live listener and a listener freshly built from its dumped config differ in %s (live %+v, fresh %+v)", f.field, live, fresh), rep)
				}
			}
			if hi < 3 {
				run.Sample(rep)
			}
		}
	}
	sh.Close()
	return run.Finish()
}

var _ = io.EOF
