package main

// C13 part B8: RESUMED handshakes.  A session accepted by resumption (TLS 1.2 session ticket / TLS 1.3 PSK) must be one a
// full handshake with the same peer certificate would accept under the policy of the context selected for THIS connection
// and at the time in force NOW.
//
// One real server context manager with three contexts (two static ones and one SDS context, selected by server name; each
// with its own require_client_cert / verify_client / CA).  The session ticket keys turn out to belong to the tls.Config of
// ONE context (Config.Clone initialises them), so a ticket decrypts only for the context object that issued it; an in-place
// change of the SDS context (validation CA pushed) and a listener update (new manager) bring new keys - the histories try
// all of these anyway (ticket of one context offered to another, after a CA rotation, after a rebuild).  The clock of the server contexts is injected through the
// verif hook (crypto/tls Config.Time), so client certificates expire between two handshakes without any waiting: no
// wall-clock dependence.  The client is crypto/tls of the Go distribution with a session cache the harness controls (which
// ticket is offered, which one is kept).
//
// finder (real against real): after every ACCEPTED RESUMPTION a control connection does a FULL handshake (no ticket)
// presenting the certificate the ticket carries, to the same context, same clock, same policy; the control being refused is
// the violation.

import (
	gotls "crypto/tls"
	"fmt"
	"io"
	"strings"
	"sync/atomic"
	"time"

	v2 "mosn.io/mosn/pkg/config/v2"
	"mosn.io/mosn/pkg/mtls"
	"mosn.io/mosn/pkg/types"

	. "vh/vhlib"
)

type resPol struct {
	Require bool `json:"require_client_cert"`
	Verify  bool `json:"verify_client"`
	CA      int  `json:"ca"`
}

func (p resPol) coq() string {
	return fmt.Sprintf("(mkRP %s %s %d%%nat)", CoqBool(p.Require), CoqBool(p.Verify), p.CA)
}

type resOp struct {
	Op     string   `json:"op"` // full | resume | tick | policy | rebuild
	Ctx    int      `json:"context,omitempty"`
	Ticket int      `json:"ticket,omitempty"`
	Cert   int      `json:"client_cert,omitempty"` // 0 none, else index into resCerts
	D      int      `json:"ticks,omitempty"`
	Pol    *resPol  `json:"policy,omitempty"`
	Pols   []resPol `json:"policies,omitempty"`
	Out    string   `json:"outcome,omitempty"`
}

// client certificates: issuing CA, validity in ticks (one tick = 1 h; the start of a history is tick 24)
type resCertSpec struct {
	CA, From, To int
}

var resCerts = map[int]resCertSpec{
	1: {1, 23, 25}, // short lived
	2: {1, 0, 143}, // long lived
	3: {2, 23, 25},
	4: {2, 0, 143},
	5: {1, 23, 27},
}

func resCertCoq(k int) string {
	if k == 0 {
		return "None"
	}
	c := resCerts[k]
	return fmt.Sprintf("(Some (mkRC %d%%nat %d%%nat %d%%nat))", c.CA, c.From, c.To)
}

func polsCoq(ps []resPol) string {
	var xs []string
	for _, p := range ps {
		xs = append(xs, p.coq())
	}
	return CoqList(xs)
}

// resCache is the client session cache of ONE connection: it offers what the harness chose and keeps what the server sent.
type resCache struct {
	offer *gotls.ClientSessionState
	got   *gotls.ClientSessionState
}

func (c *resCache) Get(string) (*gotls.ClientSessionState, bool) { return c.offer, c.offer != nil }
func (c *resCache) Put(_ string, s *gotls.ClientSessionState) {
	if s != nil {
		c.got = s
	}
}

var resOutNames = []string{"refused", "accepted-full", "accepted-resumed"}

// resHandshake: one connection of the reference client; 0 refused, 1 accepted by a full handshake, 2 accepted by resumption.
func resHandshake(addr string, results chan srvOutcome, sni string, cert *gotls.Certificate, offer *gotls.ClientSessionState, ver uint16) (int, *gotls.ClientSessionState) {
	conn, err := dialLocal(addr, hsTimeout)
	if err != nil {
		panic(err)
	}
	defer conn.Close()
	conn.SetDeadline(time.Now().Add(hsTimeout))
	cache := &resCache{offer: offer}
	tc := gotls.Client(conn, &gotls.Config{ServerName: sni, InsecureSkipVerify: true, MinVersion: ver, MaxVersion: ver, ClientSessionCache: cache,
		GetClientCertificate: func(*gotls.CertificateRequestInfo) (*gotls.Certificate, error) {
			if cert == nil {
				return &gotls.Certificate{}, nil
			}
			return cert, nil
		}})
	clientOK, resumed := false, false
	if tc.Handshake() == nil {
		tc.Write([]byte("ping"))
		b := make([]byte, 4)
		// the read also lets a TLS 1.3 client take the session ticket
		if _, err := io.ReadFull(tc, b); err == nil && string(b) == "pong" {
			clientOK = true
			resumed = tc.ConnectionState().DidResume
		}
	}
	so := <-results
	if !(clientOK && so.mode == 1 && so.hsErr == nil && string(so.got) == "ping") {
		return 0, nil
	}
	if resumed {
		return 2, cache.got
	}
	return 1, cache.got
}

func runResumeHistories(run *Run, right, other *authority, ver string, maxVer uint16) []hsResult {
	r := run.R
	var out []hsResult
	cas := map[int]*authority{1: right, 2: other}
	t0 := time.Now().Truncate(time.Second)
	var off int64 // ticks since the start of the history
	clock := func() time.Time {
		return t0.Add(time.Duration(atomic.LoadInt64(&off))*time.Hour + 30*time.Minute)
	}
	at := func(tick int) time.Time { return t0.Add(time.Duration(tick-24) * time.Hour) }
	certs := map[int]*gotls.Certificate{}
	for k, cs := range resCerts {
		// valid at the ticks From..To: the clock reads tick + 30 min
		lf, err := cas[cs.CA].issue(fmt.Sprintf("res-client-%d", k), nil, leafOpt{notBefore: at(cs.From), notAfter: at(cs.To + 1)})
		if err != nil {
			panic(err)
		}
		kp, _ := gotls.X509KeyPair([]byte(lf.certPEM), []byte(lf.keyPEM))
		certs[k] = &kp
	}
	var srvLeaf [3]*leaf
	for i := range srvLeaf {
		srvLeaf[i], _ = right.issue(fmt.Sprintf("res-s%d.test", i), nil, leafOpt{})
	}
	sni := []string{"r0.test", "r1.test", "r2.test"}

	genPol := func() resPol { return resPol{Require: r.Pct(70), Verify: r.Pct(75), CA: 1 + r.Intn(2)} }
	strict := func(ca int) resPol { return resPol{true, true, ca} }
	scripted := []struct {
		pols []resPol
		ops  []resOp
	}{
		// the certificate expires between the full handshake and the resumption
		{[]resPol{strict(1), strict(1), strict(1)}, []resOp{{Op: "full", Ctx: 0, Cert: 1}, {Op: "resume", Ctx: 0, Ticket: 0, Cert: 1}, {Op: "tick", D: 2},
			{Op: "full", Ctx: 0, Cert: 1}, {Op: "resume", Ctx: 0, Ticket: 0, Cert: 1}, {Op: "resume", Ctx: 2, Ticket: 0, Cert: 1}}},
		// the ticket of one context offered to a context that trusts another CA
		{[]resPol{strict(1), strict(2), {false, true, 2}}, []resOp{{Op: "full", Ctx: 0, Cert: 2}, {Op: "resume", Ctx: 1, Ticket: 0, Cert: 2}, {Op: "resume", Ctx: 2, Ticket: 0, Cert: 2},
			{Op: "full", Ctx: 1, Cert: 4}, {Op: "resume", Ctx: 0, Ticket: 1, Cert: 4}, {Op: "resume", Ctx: 1, Ticket: 1, Cert: 4}}},
		// the CA is rotated out (SDS push) on the same manager; then the listener is updated (new manager)
		{[]resPol{strict(1), strict(1), strict(1)}, []resOp{{Op: "full", Ctx: 2, Cert: 2}, {Op: "resume", Ctx: 2, Ticket: 0, Cert: 2}, {Op: "policy", Ctx: 2, Pol: &resPol{true, true, 2}},
			{Op: "resume", Ctx: 2, Ticket: 0, Cert: 2}, {Op: "full", Ctx: 2, Cert: 4}, {Op: "rebuild", Pols: []resPol{strict(1), strict(1), strict(2)}}, {Op: "resume", Ctx: 2, Ticket: 1, Cert: 4}}},
	}
	nHist := len(scripted) + run.N(7, 40)
	for hi := 0; hi < nHist; hi++ {
		base := fmt.Sprintf("res-%s-%d-%d", ver, run.Seed, hi)
		atomic.StoreInt64(&off, 0)
		var pols []resPol
		var script []resOp
		if hi < len(scripted) {
			pols, script = append([]resPol{}, scripted[hi].pols...), scripted[hi].ops
		} else {
			pols = []resPol{genPol(), genPol(), genPol()}
			if r.Pct(50) { // mostly strict contexts: that is where the property bites
				pols[r.Intn(3)] = strict(1 + r.Intn(2))
			}
		}
		pols0 := append([]resPol{}, pols...)
		gen := 0
		var mng types.TLSContextManager
		var addr string
		var results chan srvOutcome
		var closers []func()
		build := func() bool {
			lc := &v2.Listener{}
			lc.Name = fmt.Sprintf("%s-g%d", base, gen)
			var tcs []v2.TLSConfig
			for i := 0; i < 2; i++ {
				tcs = append(tcs, v2.TLSConfig{Status: true, ServerName: sni[i], CertChain: srvLeaf[i].certPEM, PrivateKey: srvLeaf[i].keyPEM, CACert: cas[pols[i].CA].pem,
					RequireClientCert: pols[i].Require, VerifyClient: pols[i].Verify})
			}
			tcs = append(tcs, v2.TLSConfig{Status: true, ServerName: sni[2], RequireClientCert: pols[2].Require, VerifyClient: pols[2].Verify,
				SdsConfig: &v2.SdsConfig{CertificateConfig: &v2.SecretConfigWrapper{Name: lc.Name + "-cert"}, ValidationConfig: &v2.SecretConfigWrapper{Name: lc.Name + "-ca"}}})
			lc.FilterChains = []v2.FilterChain{{TLSContexts: tcs}}
			m, err := mtls.NewTLSServerContextManager(lc)
			if err != nil {
				return false
			}
			mng = m
			sds.SetSecret(lc.Name+"-cert", &types.SdsSecret{Name: lc.Name + "-cert", CertificatePEM: srvLeaf[2].certPEM, PrivateKeyPEM: srvLeaf[2].keyPEM})
			sds.SetSecret(lc.Name+"-ca", &types.SdsSecret{Name: lc.Name + "-ca", ValidationPEM: cas[pols[2].CA].pem})
			if mtls.VerifSetServerTime(mng, clock) != 3 {
				return false
			}
			var closer func()
			addr, results, closer = serveMOSN(mng, 4)
			closers = append(closers, closer)
			return true
		}
		key := fmt.Sprintf("res|%s|%d", ver, hi)
		if !build() {
			out = append(out, hsResult{Kind: "skip", Ver: ver, Key: key, Kinds: []string{"resume-history-setup-failed"}})
			continue
		}
		type ticket struct {
			st   *gotls.ClientSessionState
			cert int // the certificate the session carries (0: none)
			ctx  int
			gen  int
		}
		var tickets []ticket
		var ops []resOp
		var coqOps []string
		var outs []string
		var fail struct{ sig, what string }
		nOps := 6 + r.Intn(5)
		hadResume, hadAcceptedResume := false, false
		for oi := 0; ; oi++ {
			var o resOp
			if script != nil {
				if oi >= len(script) {
					break
				}
				o = script[oi]
			} else {
				if oi >= nOps {
					break
				}
				k := r.Intn(100)
				switch {
				case len(tickets) == 0 || k < 22:
					o = resOp{Op: "full", Ctx: r.Intn(3), Cert: r.Intn(6)}
					if len(tickets) == 0 && r.Pct(70) { // get a ticket early
						o.Cert = []int{1, 2, 3, 4, 5}[r.Intn(5)]
						if pols[o.Ctx].Verify { // a certificate the context accepts now, mostly a short lived one
							o.Cert = []int{1, 5, 1, 5, 2}[r.Intn(5)]
							if pols[o.Ctx].CA == 2 {
								o.Cert = []int{3, 3, 4}[r.Intn(3)]
							}
						}
					}
				case k < 62:
					t := r.Intn(len(tickets))
					o = resOp{Op: "resume", Ctx: tickets[t].ctx, Ticket: t, Cert: tickets[t].cert}
					if r.Pct(25) { // a ticket decrypts only for the context that issued it; the others are still tried
						o.Ctx = r.Intn(3)
					}
					if r.Pct(20) {
						o.Cert = r.Intn(6)
					}
				case k < 80:
					o = resOp{Op: "tick", D: 1 + r.Intn(3)}
				case k < 92:
					p := pols[2]
					p.CA = 3 - p.CA
					o = resOp{Op: "policy", Ctx: 2, Pol: &p}
				default:
					np := append([]resPol{}, pols...)
					if r.Bool() {
						np[r.Intn(3)] = genPol()
					}
					o = resOp{Op: "rebuild", Pols: np}
				}
			}
			switch o.Op {
			case "tick":
				atomic.AddInt64(&off, int64(o.D))
				coqOps = append(coqOps, fmt.Sprintf("RTick %d%%nat", o.D))
			case "policy":
				// in place: the validation CA of the SDS context is pushed; the manager (and its ticket keys) stays
				pols[2] = *o.Pol
				name := fmt.Sprintf("%s-g%d-ca", base, gen)
				sds.SetSecret(name, &types.SdsSecret{Name: name, ValidationPEM: cas[o.Pol.CA].pem})
				mtls.VerifSetServerTime(mng, clock)
				coqOps = append(coqOps, fmt.Sprintf("RPolicy 2%%nat %s", o.Pol.coq()))
			case "rebuild":
				pols = append([]resPol{}, o.Pols...)
				gen++
				if !build() {
					fail.sig = "-"
				}
				coqOps = append(coqOps, "RRebuild "+polsCoq(pols))
			case "full", "resume":
				var offer *gotls.ClientSessionState
				if o.Op == "resume" {
					offer = tickets[o.Ticket].st
					hadResume = true
				}
				res, got := resHandshake(addr, results, sni[o.Ctx], certs[o.Cert], offer, maxVer)
				o.Out = resOutNames[res]
				outs = append(outs, fmt.Sprintf("%d%%nat", res))
				if o.Op == "full" {
					coqOps = append(coqOps, fmt.Sprintf("RFull %d%%nat %s", o.Ctx, resCertCoq(o.Cert)))
				} else {
					coqOps = append(coqOps, fmt.Sprintf("RResume %d%%nat %d%%nat %s", o.Ctx, o.Ticket, resCertCoq(o.Cert)))
				}
				if res == 1 {
					if got == nil {
						fail.sig = "-" // no ticket handed out: the rest of the history cannot be run (not a violation)
					}
					carried := o.Cert
					if !pols[o.Ctx].Require && !pols[o.Ctx].Verify {
						carried = 0 // the server did not ask for a certificate
					}
					tickets = append(tickets, ticket{st: got, cert: carried, ctx: o.Ctx, gen: gen})
				}
				if res == 2 {
					hadAcceptedResume = true
					// ---- finder: the control - a full handshake with the certificate the ticket carries
					tk := tickets[o.Ticket]
					ctl, _ := resHandshake(addr, results, sni[o.Ctx], certs[tk.cert], nil, maxVer)
					if ctl == 0 && fail.sig == "" {
						now := 24 + int(atomic.LoadInt64(&off))
						what := "differently"
						fail.sig = "tls:resumed-session-accepted-but-full-handshake-refused"
						if cs, has := resCerts[tk.cert]; has {
							switch {
							case cs.CA != pols[o.Ctx].CA:
								fail.sig, what = "tls:resumed-session-accepts-untrusted-client-cert", fmt.Sprintf("issued by CA %d while the context trusts CA %d", cs.CA, pols[o.Ctx].CA)
							case now > cs.To || now < cs.From:
								fail.sig, what = "tls:resumed-session-accepts-expired-client-cert", fmt.Sprintf("valid at ticks %d..%d while the server clock is at tick %d", cs.From, cs.To, now)
							}
						}
						fail.what = fmt.Sprintf("%s: operation %d offered ticket %d to context %d (%+v) and the session was RESUMED, but a full handshake with the client certificate the ticket carries (certificate %d, %s) is refused by the same context at the same time", ver, len(ops), o.Ticket, o.Ctx, pols[o.Ctx], tk.cert, what)
					}
				}
			}
			ops = append(ops, o)
			if fail.sig == "-" {
				break
			}
		}
		for _, c := range closers {
			c()
		}
		rp := map[string]interface{}{"part": "resumed-handshakes", "ver": ver, "contexts": pols0, "server_names": sni, "client_certificates": resCerts, "history": ops,
			"note": "one tick = 1 h on the injected server clock; a history starts at tick 24; outcomes are those of the real handshakes"}
		kinds := []string{"resume-history-" + ver}
		if hadResume {
			kinds = append(kinds, "resume-history-offers-ticket")
		}
		if hadAcceptedResume {
			kinds = append(kinds, "resume-history-resumed")
		}
		h := hsResult{Kind: "res", Ver: ver, Key: key + "|" + strings.Join(coqOps, ";"), Kinds: kinds, Rep: rp,
			Coq: fmt.Sprintf("(24%%nat, %s, %s, %s)", polsCoq(pols0), CoqList(coqOps), CoqList(outs))}
		if fail.sig != "" && fail.sig != "-" {
			h.FailSig, h.FailWhat = fail.sig, fail.what
		}
		out = append(out, h)
	}
	return out
}
