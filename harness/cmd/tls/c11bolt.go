package main

// raw bolt v1 frames, the scripted bolt upstream, small helpers shared by the C11 server parts

import (
	"encoding/binary"
	"encoding/json"
	"fmt"
	"io"
	"net"
	"os"
	"sync"
	"time"
)

// ---- raw bolt v1 frames ----
func boltRequest(id uint32, content []byte) []byte {
	hdr := kv("service", "vh")
	b := make([]byte, 22, 22+len(hdr)+len(content))
	b[0], b[1] = 1, 1 // protocol code, request
	binary.BigEndian.PutUint16(b[2:], 1)
	b[4] = 1
	binary.BigEndian.PutUint32(b[5:], id)
	b[9] = 1
	binary.BigEndian.PutUint32(b[10:], 10000) // timeout ms
	binary.BigEndian.PutUint16(b[14:], 0)
	binary.BigEndian.PutUint16(b[16:], uint16(len(hdr)))
	binary.BigEndian.PutUint32(b[18:], uint32(len(content)))
	b = append(b, hdr...)
	return append(b, content...)
}

func boltResponse(id uint32, content []byte) []byte {
	b := make([]byte, 20, 20+len(content))
	b[0], b[1] = 1, 0
	binary.BigEndian.PutUint16(b[2:], 2)
	b[4] = 1
	binary.BigEndian.PutUint32(b[5:], id)
	b[9] = 1
	binary.BigEndian.PutUint16(b[10:], 0) // status success
	binary.BigEndian.PutUint16(b[12:], 0)
	binary.BigEndian.PutUint16(b[14:], 0)
	binary.BigEndian.PutUint32(b[16:], uint32(len(content)))
	return append(b, content...)
}

func kv(k, v string) []byte {
	b := make([]byte, 0, 8+len(k)+len(v))
	l := make([]byte, 4)
	binary.BigEndian.PutUint32(l, uint32(len(k)))
	b = append(append(b, l...), k...)
	binary.BigEndian.PutUint32(l, uint32(len(v)))
	return append(append(b, l...), v...)
}

// readBoltFrame reads one frame; returns cmd type (1 request, 0 response), cmd code, request id, content.
func readBoltFrame(c net.Conn) (typ byte, code uint16, id uint32, content []byte, err error) {
	h := make([]byte, 20)
	if _, err = io.ReadFull(c, h); err != nil {
		return
	}
	typ = h[1]
	code = binary.BigEndian.Uint16(h[2:])
	id = binary.BigEndian.Uint32(h[5:])
	var cl, hl, bl int
	if typ == 0 { // response: 20 byte header
		cl, hl, bl = int(binary.BigEndian.Uint16(h[12:])), int(binary.BigEndian.Uint16(h[14:])), int(binary.BigEndian.Uint32(h[16:]))
	} else { // request: 22 byte header
		h2 := make([]byte, 2)
		if _, err = io.ReadFull(c, h2); err != nil {
			return
		}
		h = append(h, h2...)
		cl, hl, bl = int(binary.BigEndian.Uint16(h[14:])), int(binary.BigEndian.Uint16(h[16:])), int(binary.BigEndian.Uint32(h[18:]))
	}
	rest := make([]byte, cl+hl+bl)
	if _, err = io.ReadFull(c, rest); err != nil {
		return
	}
	content = rest[cl+hl:]
	return
}

// scripted upstream: the request content is JSON {"up":ms,"gap":ms}: wait `up`, write the first half of the response,
// wait `gap`, write the rest.
type script struct {
	Up   int `json:"up"`
	Gap  int `json:"gap"`
	Size int `json:"size,omitempty"` // > 0: the response content is bigContent(Size) instead of the tag
}

// bigContent is a deterministic content of n bytes made of 4 KiB blocks of one byte value each (so that foreign bytes
// inside it are recognisable and long runs keep any textual form short).
func bigContent(n int) []byte {
	b := make([]byte, n)
	for i := range b {
		b[i] = byte(33 + (i/4096)%90)
	}
	return b
}

func startUpstream() (string, func()) { return startUpstreamTagged("ok") }

// startUpstreamTagged answers every request with the given content (so a client can tell which upstream served it).
func startUpstreamTagged(tag string) (string, func()) {
	ln := listenLocal()
	go func() {
		for {
			c, err := ln.Accept()
			if err != nil {
				return
			}
			go func(c net.Conn) {
				defer c.Close()
				var wmu sync.Mutex
				for {
					typ, code, id, content, err := readBoltFrame(c)
					if err != nil {
						return
					}
					if typ != 1 || code != 1 {
						continue // heartbeat etc.
					}
					var sc script
					json.Unmarshal(content, &sc)
					if os.Getenv("VH_TRACE") != "" {
						fmt.Println("upstream got request", id, sc, time.Now().Format("05.000"), c.RemoteAddr())
					}
					go func() {
						time.Sleep(time.Duration(sc.Up) * time.Millisecond)
						if os.Getenv("VH_TRACE") != "" {
							fmt.Println("upstream writes response", id, time.Now().Format("05.000"))
						}
						resp := boltResponse(id, []byte(tag))
						if sc.Size > 0 {
							resp = boltResponse(id, bigContent(sc.Size))
						}
						wmu.Lock()
						defer wmu.Unlock()
						if sc.Gap > 0 {
							c.Write(resp[:11])
							time.Sleep(time.Duration(sc.Gap) * time.Millisecond)
							c.Write(resp[11:])
						} else {
							c.Write(resp)
						}
					}()
				}
			}(c)
		}
	}()
	return ln.Addr().String(), func() { ln.Close() }
}

func toMap(v interface{}) map[string]interface{} {
	m := map[string]interface{}{}
	b, _ := json.Marshal(v)
	json.Unmarshal(b, &m)
	return m
}
