package main

// C13 part B6: the context of an SDS provider after a history of secret pushes and config updates must be the one built
// from the LATEST certificate, the LATEST validation CA and the LATEST config.  Server side: a listener with a static
// default context followed by one SDS context; client side: an SDS cluster context.  After every event the context in
// force is observed through the real code only: GetConfigForClient for both candidate server names (which certificate,
// which ClientCAs, NextProtos, ClientAuth), a real handshake with client certificates of both CAs when the mode verifies,
// a real upstream handshake against a server with an untrusted certificate (insecure_skip).

import (
	"bytes"
	gotls "crypto/tls"
	"fmt"
	"io"
	"strings"
	"time"

	v2 "mosn.io/mosn/pkg/config/v2"
	"mosn.io/mosn/pkg/mtls"
	mtlstls "mosn.io/mosn/pkg/mtls/crypto/tls"
	"mosn.io/mosn/pkg/types"

	. "vh/vhlib"
)

type sdsCfg struct {
	SName   int  `json:"server_name"` // 1 sn1.test, 2 sn2.test
	ALPN    int  `json:"alpn"`        // 0 none, 1 h2, 2 http/1.1
	Require bool `json:"require_client_cert"`
	Verify  bool `json:"verify_client"`
	Skip    bool `json:"insecure_skip"`
}

func (c sdsCfg) coq() string {
	return fmt.Sprintf("(mkSC %d%%nat %d%%nat %s %s %s)", c.SName, c.ALPN, CoqBool(c.Require), CoqBool(c.Verify), CoqBool(c.Skip))
}

type sdsEvent struct {
	Kind string  `json:"event"` // cert | ca | config
	Tok  int     `json:"token,omitempty"`
	Cfg  *sdsCfg `json:"config,omitempty"`
}

var sdsNames = map[int]string{1: "sn1.test", 2: "sn2.test"}
var sdsALPN = map[int]string{0: "", 1: "h2", 2: "http/1.1"}

func runSDSHistories(run *Run, right, other *authority, ver string, maxVer uint16) []hsResult {
	r := run.R
	var out []hsResult
	cas := map[int]*authority{1: right, 2: other}
	rogue := newAuthority("rogue-ca")
	leafTok := map[int]*leaf{}
	for k := 1; k <= 2; k++ {
		leafTok[k], _ = right.issue(fmt.Sprintf("sds-s%d.test", k), []string{fmt.Sprintf("sds-s%d.test", k)}, leafOpt{})
	}
	dflt, _ := right.issue("sds-default.test", []string{"sds-default.test"}, leafOpt{})
	clientCert := map[int]*gotls.Certificate{}
	for k, a := range cas {
		lf, _ := a.issue("sds-client", []string{"sds-client.test"}, leafOpt{})
		kp, _ := gotls.X509KeyPair([]byte(lf.certPEM), []byte(lf.keyPEM))
		clientCert[k] = &kp
	}
	// an upstream whose certificate chains to neither CA: a client context accepts it iff insecure_skip is in force
	rlf, _ := rogue.issue("up.test", []string{"up.test"}, leafOpt{})
	rkp, _ := gotls.X509KeyPair([]byte(rlf.certPEM), []byte(rlf.keyPEM))
	uln := listenLocal()
	defer uln.Close()
	go func() {
		for {
			raw, err := uln.Accept()
			if err != nil {
				return
			}
			go func() {
				raw.SetDeadline(time.Now().Add(hsTimeout))
				ts := gotls.Server(raw, &gotls.Config{Certificates: []gotls.Certificate{rkp}, MaxVersion: maxVer})
				if ts.Handshake() == nil {
					b := make([]byte, 4)
					if _, err := io.ReadFull(ts, b); err == nil {
						ts.Write([]byte("pong"))
					}
				}
				raw.Close()
			}()
		}
	}()

	genCfg := func() sdsCfg {
		return sdsCfg{SName: 1 + r.Intn(2), ALPN: r.Intn(3), Require: r.Bool(), Verify: r.Bool(), Skip: r.Bool()}
	}
	nHist := run.N(6, 30)
	for hi := 0; hi < nHist; hi++ {
		base := fmt.Sprintf("sds-%s-%d-%d", ver, run.Seed, hi)
		cfg0 := genCfg()
		cur := cfg0
		curCert, curCA := 0, 0
		// plan: become ready (certificate and CA in random order, maybe a config update in between), then single-field updates
		var evs []sdsEvent
		first := []sdsEvent{{Kind: "cert", Tok: 1 + r.Intn(2)}, {Kind: "ca", Tok: 1 + r.Intn(2)}}
		if r.Bool() {
			first[0], first[1] = first[1], first[0]
		}
		evs = append(evs, first[0])
		if r.Pct(30) {
			c := genCfg()
			evs = append(evs, sdsEvent{Kind: "config", Cfg: &c})
		}
		evs = append(evs, first[1])
		pc := cfg0
		pcert, pca := 0, 0
		for _, e := range evs {
			switch e.Kind {
			case "cert":
				pcert = e.Tok
			case "ca":
				pca = e.Tok
			case "config":
				pc = *e.Cfg
			}
		}
		for n := 2 + r.Intn(4); n > 0; n-- {
			switch r.Intn(6) {
			case 0:
				pcert = 3 - pcert
				evs = append(evs, sdsEvent{Kind: "cert", Tok: pcert})
			case 1:
				pca = 3 - pca
				evs = append(evs, sdsEvent{Kind: "ca", Tok: pca})
			case 2:
				pc.SName = 3 - pc.SName
				c := pc
				evs = append(evs, sdsEvent{Kind: "config", Cfg: &c})
			case 3:
				pc.Skip = !pc.Skip
				c := pc
				evs = append(evs, sdsEvent{Kind: "config", Cfg: &c})
			case 4:
				pc.ALPN = (pc.ALPN + 1) % 3
				c := pc
				evs = append(evs, sdsEvent{Kind: "config", Cfg: &c})
			default:
				if r.Bool() {
					pc.Require = !pc.Require
				} else {
					pc.Verify = !pc.Verify
				}
				c := pc
				evs = append(evs, sdsEvent{Kind: "config", Cfg: &c})
			}
		}

		var srv types.TLSContextManager
		var cli types.TLSClientContextManager
		build := func(c sdsCfg) {
			lc := &v2.Listener{}
			lc.Name = base
			lc.FilterChains = []v2.FilterChain{{TLSContexts: []v2.TLSConfig{
				{Status: true, CertChain: dflt.certPEM, PrivateKey: dflt.keyPEM},
				{Status: true, ServerName: sdsNames[c.SName], ALPN: sdsALPN[c.ALPN], RequireClientCert: c.Require, VerifyClient: c.Verify,
					SdsConfig: &v2.SdsConfig{CertificateConfig: &v2.SecretConfigWrapper{Name: base + "-cert"}, ValidationConfig: &v2.SecretConfigWrapper{Name: base + "-ca"}}},
			}}}
			var err error
			if srv, err = mtls.NewTLSServerContextManager(lc); err != nil {
				panic(err)
			}
			if cli, err = mtls.NewTLSClientContextManager(base, &v2.TLSConfig{Status: true, ServerName: "up.test", InsecureSkip: c.Skip,
				SdsConfig: &v2.SdsConfig{CertificateConfig: &v2.SecretConfigWrapper{Name: base + "-ccert"}, ValidationConfig: &v2.SecretConfigWrapper{Name: base + "-cca"}}}); err != nil {
				panic(err)
			}
		}
		build(cfg0)
		var coqEvs []string
		var descr []sdsEvent
		for si, e := range evs {
			switch e.Kind {
			case "cert":
				curCert = e.Tok
				for _, n := range []string{base + "-cert", base + "-ccert"} {
					sds.SetSecret(n, &types.SdsSecret{Name: n, CertificatePEM: leafTok[e.Tok].certPEM, PrivateKeyPEM: leafTok[e.Tok].keyPEM})
				}
				coqEvs = append(coqEvs, fmt.Sprintf("EvCert %d%%nat", e.Tok))
			case "ca":
				curCA = e.Tok
				for _, n := range []string{base + "-ca", base + "-cca"} {
					sds.SetSecret(n, &types.SdsSecret{Name: n, ValidationPEM: cas[e.Tok].pem})
				}
				coqEvs = append(coqEvs, fmt.Sprintf("EvCA %d%%nat", e.Tok))
			case "config":
				cur = *e.Cfg
				build(cur)
				coqEvs = append(coqEvs, "EvCfg "+cur.coq())
			}
			descr = append(descr, e)
			// ---- observe the server-side context in force
			gcfc := srv.(configForClient)
			obsS := -1
			var got *mtlstls.Config
			for k := 1; k <= 2; k++ {
				cfg, err := gcfc.GetConfigForClient(&mtlstls.ClientHelloInfo{ServerName: sdsNames[k]})
				if err != nil || cfg == nil || len(cfg.Certificates) == 0 {
					continue
				}
				der := cfg.Certificates[0].Certificate[0]
				if !bytes.Equal(der, dflt.der) {
					if obsS == -1 {
						obsS, got = k, cfg
					} else {
						obsS = 3 // both names select it
					}
				}
			}
			rp := map[string]interface{}{"part": "sds-history", "ver": ver, "initial_config": cfg0, "history": append([]sdsEvent{}, descr...),
				"latest": map[string]interface{}{"certificate": curCert, "validation_ca": curCA, "config": cur}}
			h := hsResult{Kind: "sds", Ver: ver, Key: fmt.Sprintf("sds|%s|%s|%s", ver, cfg0.coq(), strings.Join(coqEvs, ";")), Kinds: []string{"sds-history-" + ver, fmt.Sprintf("sds-history-step=%d", si), "sds-event=" + e.Kind}, Rep: rp}
			ready := curCert != 0 && curCA != 0
			if got == nil {
				rp["context_in_force"] = "not ready"
				h.Coq = fmt.Sprintf("(%s, %s, None)", cfg0.coq(), CoqList(coqEvs))
				if ready {
					h.FailSig, h.FailWhat = "tls-sds:update-ignored:not-ready-or-not-selectable-by-its-server_name", "certificate and validation CA were pushed but no server name selects the SDS context"
				}
				out = append(out, h)
				continue
			}
			oCert, oCA, oALPN := 0, 0, 0
			for k, lf := range leafTok {
				if bytes.Equal(got.Certificates[0].Certificate[0], lf.der) {
					oCert = k
				}
			}
			if got.ClientCAs != nil {
				for _, sub := range got.ClientCAs.Subjects() {
					for k, a := range cas {
						if bytes.Equal(sub, a.cert.RawSubject) {
							if oCA == 0 {
								oCA = k
							} else if oCA != k {
								oCA = 3
							}
						}
					}
				}
			}
			switch strings.Join(got.NextProtos, ",") {
			case "h2":
				oALPN = 1
			case "http/1.1":
				oALPN = 2
			case "":
				oALPN = 0
			default:
				oALPN = 9
			}
			oAuth := int(got.ClientAuth)
			// ---- client side: does the context in force skip verification?
			oSkip := false
			if cli.Enabled() {
				if raw, err := dialLocal(uln.Addr().String(), hsTimeout); err == nil {
					raw.SetDeadline(time.Now().Add(hsTimeout))
					if c, cerr := cli.Conn(raw); cerr == nil {
						c.SetDeadline(time.Now().Add(hsTimeout))
						c.Write([]byte("ping"))
						b := make([]byte, 4)
						if _, err := io.ReadFull(c, b); err == nil && string(b) == "pong" {
							oSkip = true
						}
						c.Close()
					} else {
						raw.Close()
					}
				}
			}
			rp["context_in_force"] = map[string]interface{}{"certificate": oCert, "client_ca": oCA, "selected_by_server_name": obsS, "alpn": oALPN, "client_auth": oAuth, "upstream_unverified": oSkip}
			h.Coq = fmt.Sprintf("(%s, %s, Some (%d%%nat, %d%%nat, %d%%nat, %d%%nat, %d%%N, %s))", cfg0.coq(), CoqList(coqEvs), oCert, oCA, obsS, oALPN, oAuth, CoqBool(oSkip))
			// ---- finder: every field of the context in force is the latest one
			wantAuth := (&ctxSpec{Require: cur.Require, Verify: cur.Verify}).wantAuth()
			for _, f := range []struct {
				field string
				bad   bool
			}{{"certificate", oCert != curCert}, {"validation-ca", oCA != curCA}, {"server_name", obsS != cur.SName}, {"alpn", oALPN != cur.ALPN},
				{"verify-flags", oAuth != wantAuth}, {"insecure_skip", oSkip != cur.Skip}} {
				if f.bad && h.FailSig == "" {
					h.FailSig, h.FailWhat = "tls-sds:update-ignored:"+f.field, fmt.Sprintf("after the history %v the SDS context in force does not carry the latest %s (latest: certificate %d, CA %d, config %+v; in force: %v)", coqEvs, f.field, curCert, curCA, cur, rp["context_in_force"])
				}
			}
			// ---- the CA in force, by real handshakes, when the mode verifies and requires
			if cur.Require && cur.Verify && h.FailSig == "" {
				for k := 1; k <= 2; k++ {
					acc := sdsHandshake(srv, sdsNames[cur.SName], clientCert[k], maxVer)
					if acc != (k == curCA) {
						h.FailSig, h.FailWhat = "tls-sds:update-ignored:validation-ca", fmt.Sprintf("verify_client+require_client_cert: a client certificate of CA %d was %s although the latest validation CA is %d", k, map[bool]string{true: "accepted", false: "rejected"}[acc], curCA)
					}
				}
			}
			out = append(out, h)
		}
	}
	return out
}

// sdsHandshake: one real handshake of a reference client (SNI, client certificate) against the manager; true = accepted.
func sdsHandshake(mng types.TLSContextManager, sni string, cert *gotls.Certificate, maxVer uint16) bool {
	addr, results, closer := serveMOSN(mng, 4)
	defer closer()
	conn, err := dialLocal(addr, hsTimeout)
	if err != nil {
		panic(err)
	}
	defer conn.Close()
	conn.SetDeadline(time.Now().Add(hsTimeout))
	tc := gotls.Client(conn, &gotls.Config{ServerName: sni, InsecureSkipVerify: true, MaxVersion: maxVer,
		GetClientCertificate: func(*gotls.CertificateRequestInfo) (*gotls.Certificate, error) { return cert, nil }})
	if tc.Handshake() == nil {
		tc.Write([]byte("ping"))
		io.ReadFull(tc, make([]byte, 4))
	}
	so := <-results
	return so.mode == 1 && so.hsErr == nil && string(so.got) == "ping"
}
