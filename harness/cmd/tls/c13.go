package main

// C13 - TLS policy is enforced as configured.
//
// part A  selection:  generated ordered context lists (static / SDS-ready / SDS-not-ready providers; CN, SANs with
//         wildcards, ALPN config, server_name) -> real NewTLSServerContextManager -> real GetConfigForClient with
//         generated ClientHelloInfo; the chosen context is identified by its leaf certificate.
//         Also the real MatchedServerName / MatchedALPN of single providers on arbitrary strings.
// part B  real handshakes over loopback TCP (Conn() only wraps *net.TCPConn):
//         B1 the certificate a Go crypto/tls reference client sees, B2 trust matrix of the server side,
//         B3 MOSN as TLS client against a reference server (insecure_skip), B4 Conn() inspector modes.
// finder: the documented rule, evaluated here in Go on the real answers (never through the Coq model).

import (
	"bufio"
	"context"
	gotls "crypto/tls"
	"crypto/x509"
	"encoding/json"
	"fmt"
	"io"
	"net"
	"os"
	"os/exec"
	"sort"
	"strings"
	"sync"
	"time"

	v2 "mosn.io/mosn/pkg/config/v2"
	"mosn.io/mosn/pkg/log"
	"mosn.io/mosn/pkg/mtls"
	mtlstls "mosn.io/mosn/pkg/mtls/crypto/tls"
	"mosn.io/mosn/pkg/types"

	. "vh/vhlib"
)

// ---------------------------------------------------------------------------------------------
// mock SDS client (installed through the verif hook); secrets are delivered by the harness.

type sdsMock struct {
	mu  sync.Mutex
	cbs map[string][]types.SdsUpdateCallbackFunc
}

func (m *sdsMock) AddUpdateCallback(name string, cb types.SdsUpdateCallbackFunc) error {
	m.mu.Lock()
	m.cbs[name] = append(m.cbs[name], cb)
	m.mu.Unlock()
	return nil
}
func (m *sdsMock) DeleteUpdateCallback(name string) error { return nil }
func (m *sdsMock) RequireSecret(name string)              {}
func (m *sdsMock) FetchSecret(_ context.Context, name string) (*types.SdsSecret, error) {
	return nil, fmt.Errorf("not supported")
}
func (m *sdsMock) SetSecret(name string, secret *types.SdsSecret) {
	m.mu.Lock()
	cbs := append([]types.SdsUpdateCallbackFunc(nil), m.cbs[name]...)
	m.mu.Unlock()
	for _, cb := range cbs {
		cb(name, secret)
	}
}
func (m *sdsMock) AckResponse(resp interface{}) {}

// ---------------------------------------------------------------------------------------------

type ctxSpec struct {
	CN         string   `json:"cn"`
	SANs       []string `json:"sans"`
	ALPN       []string `json:"alpn_cfg"`
	ServerName string   `json:"server_name"`
	Kind       string   `json:"kind"` // static | sds-ready | sds-notready
	Require    bool     `json:"require_client_cert"`
	Verify     bool     `json:"verify_client"`
	lf         *leaf
}

func (c *ctxSpec) ready() bool { return c.Kind != "sds-notready" }

var alpnWhite = map[string]bool{"h2": true, "http/1.1": true, "sofa": true} // the documented ALPN values (config reference)

func (c *ctxSpec) effALPN() []string {
	var out []string
	for _, t := range c.ALPN {
		if alpnWhite[strings.ToLower(t)] {
			out = append(out, t)
		}
	}
	return out
}

func (c *ctxSpec) coq() string {
	var sans, al []string
	for _, s := range c.SANs {
		sans = append(sans, CoqString(s))
	}
	for _, s := range c.ALPN {
		al = append(al, CoqString(s))
	}
	return fmt.Sprintf("(mkP %s %s %s %s %s %s %s)", CoqBool(c.ready()), CoqString(c.CN), CoqList(sans), CoqList(al), CoqString(c.ServerName), CoqBool(c.Require), CoqBool(c.Verify))
}

var nameAlphabet = []string{"a.com", "b.com", "a.b.com", "c.b.com", "x.a.com", "com", "b", "*.com", "*.b.com", "*.a.com", "*.c.b.com",
	"h2", "sofa", "http/1.1", "A.com", "Svc1", "*.B.com", "svc2", "a.com", "b.com", "*.com"}
var sniWire = []string{"a.com", "b.com", "a.b.com", "c.b.com", "x.y.b.com", "x.a.com", "x.c.b.com", "com", "b", "h2", "sofa", "http/1.1",
	"A.COM", "a.Com", "Svc1", "svc1", "svc2", "SVC2", "zzz.org", "", "", "q.com", "A.com", "*.com", "x.B.com"}
var sniOdd = []string{"a.com.", "a.com..", ".", "..", "b.com.", "x.b.com.", ".com", "a..com", "*.b.com", "X.A.COM.", "com."}
var protoAlphabet = []string{"h2", "http/1.1", "sofa", "H2", "a.com", "b", "spdy/3", "Sofa", "svc2", "com"}
var alpnCfgAlphabet = []string{"h2", "http/1.1", "sofa", "H2", "bogus", "Http/1.1"}

func genCtx(r *Rng, right *authority, li, ci int) (*ctxSpec, error) {
	c := &ctxSpec{Kind: "static"}
	switch k := r.Intn(10); {
	case k < 2:
		c.CN = ""
	case k < 4:
		c.CN = fmt.Sprintf("Cert%d", ci)
	default:
		c.CN = r.PickS(nameAlphabet)
	}
	for n := r.Intn(4); n > 0; n-- {
		c.SANs = append(c.SANs, r.PickS(nameAlphabet))
	}
	if r.Pct(60) {
		for n := 1 + r.Intn(3); n > 0; n-- {
			c.ALPN = append(c.ALPN, r.PickS(alpnCfgAlphabet))
		}
	}
	if r.Pct(45) {
		c.ServerName = r.PickS(nameAlphabet)
	}
	switch k := r.Intn(10); {
	case k < 2:
		c.Kind = "sds-notready"
	case k < 4:
		c.Kind = "sds-ready"
	}
	c.Require, c.Verify = r.Pct(40), r.Pct(40)
	lf, err := right.issue(c.CN, c.SANs, leafOpt{})
	if err != nil {
		return nil, err
	}
	c.lf = lf
	return c, nil
}

type listenerUnderTest struct {
	name string
	ctxs []*ctxSpec
	mng  types.TLSContextManager
}

var rightCAPEM string

var sds = &sdsMock{cbs: map[string][]types.SdsUpdateCallbackFunc{}}

func buildListener(name string, ctxs []*ctxSpec, inspector bool, tweak func(i int, cfg *v2.TLSConfig)) (*listenerUnderTest, error) {
	lc := &v2.Listener{}
	lc.Name = name
	lc.Inspector = inspector
	var tcs []v2.TLSConfig
	for i, c := range ctxs {
		cfg := v2.TLSConfig{Status: true, ServerName: c.ServerName, ALPN: strings.Join(c.ALPN, ","), RequireClientCert: c.Require, VerifyClient: c.Verify}
		if c.Kind == "static" {
			cfg.CertChain, cfg.PrivateKey, cfg.CACert = c.lf.certPEM, c.lf.keyPEM, rightCAPEM
		} else {
			cfg.SdsConfig = &v2.SdsConfig{CertificateConfig: &v2.SecretConfigWrapper{Name: fmt.Sprintf("%s-c%d", name, i)}}
		}
		if tweak != nil {
			tweak(i, &cfg)
		}
		tcs = append(tcs, cfg)
	}
	// contexts spread over one or two filter chains (the manager flattens them in order)
	if len(tcs) > 2 {
		lc.FilterChains = []v2.FilterChain{{TLSContexts: tcs[:2]}, {TLSContexts: tcs[2:]}}
	} else {
		lc.FilterChains = []v2.FilterChain{{TLSContexts: tcs}}
	}
	mng, err := mtls.NewTLSServerContextManager(lc)
	if err != nil {
		return nil, err
	}
	for i, c := range ctxs {
		if c.Kind == "sds-ready" {
			n := fmt.Sprintf("%s-c%d", name, i)
			sds.SetSecret(n, &types.SdsSecret{Name: n, CertificatePEM: c.lf.certPEM, PrivateKeyPEM: c.lf.keyPEM})
		}
	}
	return &listenerUnderTest{name: name, ctxs: ctxs, mng: mng}, nil
}

type configForClient interface {
	GetConfigForClient(info *mtlstls.ClientHelloInfo) (*mtlstls.Config, error)
}

// choose calls the real GetConfigForClient and identifies the chosen context (-1: error, -2: unknown certificate).
func (l *listenerUnderTest) choose(sni string, protos []string) int {
	i, _, _ := l.chooseEff(sni, protos)
	return i
}

// chooseEff also returns the ClientAuth and NextProtos of the config handed to crypto/tls.
func (l *listenerUnderTest) chooseEff(sni string, protos []string) (int, int, []string) {
	cfg, err := l.mng.(configForClient).GetConfigForClient(&mtlstls.ClientHelloInfo{ServerName: sni, SupportedProtos: protos})
	if err != nil || cfg == nil {
		return -1, 0, nil
	}
	if len(cfg.Certificates) == 0 || len(cfg.Certificates[0].Certificate) == 0 {
		return -2, 0, nil
	}
	return l.byDER(cfg.Certificates[0].Certificate[0]), int(cfg.ClientAuth), cfg.NextProtos
}

// the client-auth mode the configuration asks for (tls.ClientAuthType numbering)
func (c *ctxSpec) wantAuth() int {
	switch {
	case c.Require && c.Verify:
		return 4 // RequireAndVerifyClientCert
	case c.Verify:
		return 3 // VerifyClientCertIfGiven
	case c.Require:
		return 1 // RequestClientCert
	}
	return 0
}

func sameStrs(a, b []string) bool {
	if len(a) != len(b) {
		return false
	}
	for i := range a {
		if a[i] != b[i] {
			return false
		}
	}
	return true
}

// host names: no empty label (an absent SNI is the empty string)
func isHostName(s string) bool {
	if s == "" {
		return true
	}
	for _, l := range strings.Split(s, ".") {
		if l == "" {
			return false
		}
	}
	return true
}

func (l *listenerUnderTest) byDER(der []byte) int {
	for i, c := range l.ctxs {
		if string(c.lf.der) == string(der) {
			return i
		}
	}
	return -2
}

// ---------------------------------------------------------------------------------------------
// the documented rule, under every reading the text leaves open.  Each reading is evaluated independently;
// the implementation is faulted only when its answer is not the answer of ANY reading.

type reading struct{ ci, multiLabel, emptyLit, alpnCI bool }

func stripDots(s string) string {
	for len(s) > 0 && s[len(s)-1] == '.' {
		s = s[:len(s)-1]
	}
	return s
}

func nameMatches(name, sni string, rd reading) bool {
	eq := func(a, b string) bool {
		if rd.ci {
			return strings.EqualFold(a, b)
		}
		return a == b
	}
	if eq(name, sni) {
		return true
	}
	if strings.HasPrefix(name, "*.") && len(sni) > len(name)-1 {
		suffix := name[1:] // ".b.com"
		pre, tail := sni[:len(sni)-len(suffix)], sni[len(sni)-len(suffix):]
		if eq(tail, suffix) && pre != "" && (rd.multiLabel || !strings.Contains(pre, ".")) {
			return true
		}
	}
	return false
}

func ctxNameMatch(c *ctxSpec, sni string, rd reading) bool {
	sni = stripDots(sni)
	if sni == "" {
		return rd.emptyLit && c.ServerName == ""
	}
	var names []string
	if c.CN != "" {
		names = append(names, c.CN)
	}
	names = append(names, c.SANs...)
	if c.ServerName != "" {
		names = append(names, c.ServerName)
	}
	for _, n := range names {
		if nameMatches(n, sni, rd) {
			return true
		}
	}
	return false
}

func ctxALPNMatch(c *ctxSpec, protos []string, rd reading) bool {
	for _, t := range c.effALPN() {
		for _, q := range protos {
			if t == q || (rd.alpnCI && strings.EqualFold(t, q)) {
				return true
			}
		}
	}
	return false
}

func specSelect(cs []*ctxSpec, sni string, protos []string, rd reading) int {
	for i, c := range cs {
		if c.ready() && ctxNameMatch(c, sni, rd) {
			return i
		}
	}
	for i, c := range cs {
		if c.ready() && ctxALPNMatch(c, protos, rd) {
			return i
		}
	}
	for i, c := range cs {
		if c.ready() {
			return i
		}
	}
	return -1
}

func allReadings() []reading {
	var out []reading
	for m := 0; m < 16; m++ {
		out = append(out, reading{m&1 != 0, m&2 != 0, m&4 != 0, m&8 != 0})
	}
	return out
}

func wireFeasible(sni string, protos []string) bool {
	if strings.HasSuffix(sni, ".") { // crypto/tls rejects a ClientHello whose SNI ends in a dot
		return false
	}
	for _, q := range protos {
		if q == "" || len(q) > 255 {
			return false
		}
	}
	return true
}

func hasUpper(s string) bool { return strings.ToLower(s) != s }

// classify names the input class of a selection that no reading of the rule allows.
func classify(cs []*ctxSpec, sni string, protos []string, got int) string {
	n := strings.ToLower(stripDots(sni))
	codeLike := reading{true, true, true, true}
	if got >= 0 && got < len(cs) {
		g := cs[got]
		if !ctxNameMatch(g, sni, codeLike) {
			for _, t := range g.effALPN() {
				if strings.ToLower(t) == n {
					return "tls-select:sni-equals-alpn-token"
				}
			}
		}
		if !ctxNameMatch(g, sni, codeLike) && !ctxALPNMatch(g, protos, codeLike) {
			names := append([]string{g.CN, g.ServerName}, g.SANs...)
			for _, q := range protos {
				for _, nm := range names {
					if nm != "" && strings.ToLower(q) == strings.ToLower(nm) {
						return "tls-select:client-alpn-equals-context-name"
					}
				}
			}
		}
	}
	want := specSelect(cs, sni, protos, codeLike)
	if want >= 0 && want != got {
		w := cs[want]
		names := append([]string{w.CN, w.ServerName}, w.SANs...)
		for _, nm := range names {
			if hasUpper(nm) && nameMatches(nm, stripDots(sni), codeLike) {
				return "tls-select:name-with-upper-case-letters-never-matches"
			}
		}
		for _, t := range w.effALPN() {
			if hasUpper(t) {
				return "tls-select:alpn-with-upper-case-letters-never-matches"
			}
		}
	}
	return "tls-select:other"
}

// ---------------------------------------------------------------------------------------------

var c13Header = inlineGen(genTLSTokens) + "From MV Require Import Model.TLSSelect Model.TLSResume.\nFrom Coq Require Import List String NArith.\nImport ListNotations.\nOpen Scope string_scope.\n"

func coqStrs(xs []string) string {
	var o []string
	for _, x := range xs {
		o = append(o, CoqString(x))
	}
	return CoqList(o)
}

func c13(args []string) int {
	run := NewRun("C13", args)
	r := run.R
	log.DefaultLogger.SetLogLevel(log.FATAL)
	mtls.VerifSetSdsClientFunc(func(cfg interface{}) types.SdsClient { return sds })
	run.Sum.Rule = "selection: ordered lists of 1-5 contexts (CN/SANs/server_name from a 21-name alphabet with wildcards, upper-case names and the ALPN tokens; ALPN config from 6 tokens; static / SDS-ready / SDS-not-ready providers) x ClientHello (SNI from 25 wire-feasible + 11 odd strings, 0-3 client protocols from 10 tokens), answered by the real GetConfigForClient; non-trivial = at least 2 ready contexts; distinct by (contexts, sni, protos). match: real MatchedServerName/MatchedALPN of single providers on the same alphabets. handshake: loopback TCP, Go crypto/tls reference peer; trust matrix = 4 client-auth modes x 5 peer relations x TLS1.2/1.3; upstream = insecure_skip x 4 relations x name ok/bad/unset; inspector = any_ready x inspector x 9 first bytes + a real ClientHello."

	right := newAuthority("right-ca")
	other := newAuthority("other-ca")
	rightCAPEM = right.pem

	// ---------------- part A: selection ----------------
	sel := run.NewShard(c13Header, "sel_case", "sel_mismatches tls_keys_lowered tls_one_mixed_set tls_alpn_white")
	mat := run.NewShard(c13Header, "match_case", "match_mismatches tls_keys_lowered tls_one_mixed_set tls_alpn_white")
	readings := allReadings()
	nL := run.N(160, 2500)
	perL := run.N(12, 30)
	sideOK := 0
	var hsListeners []*listenerUnderTest
	for li := 0; li < nL; li++ {
		n := 1 + r.Intn(5)
		var ctxs []*ctxSpec
		for ci := 0; ci < n; ci++ {
			c, err := genCtx(r, right, li, ci)
			if err != nil {
				fmt.Println("certificate generation failed:", err)
				return 2
			}
			ctxs = append(ctxs, c)
		}
		l, err := buildListener(fmt.Sprintf("L%d-%d", run.Seed, li), ctxs, false, nil)
		if err != nil {
			fmt.Println("NewTLSServerContextManager failed:", err)
			return 2
		}
		nready := 0
		var pcoq []string
		for _, c := range ctxs {
			if c.ready() {
				nready++
			}
			pcoq = append(pcoq, c.coq())
		}
		if nready >= 2 && len(hsListeners) < run.N(12, 60) {
			hsListeners = append(hsListeners, l)
		}
		for k := 0; k < perL; k++ {
			var sni string
			if r.Pct(85) {
				sni = r.PickS(sniWire)
			} else {
				sni = r.PickS(sniOdd)
			}
			// bias: half of the time aim at a name that exists in this listener
			if r.Pct(35) {
				c := ctxs[r.Intn(len(ctxs))]
				cand := append([]string{c.CN, c.ServerName}, c.SANs...)
				s := cand[r.Intn(len(cand))]
				if strings.HasPrefix(s, "*.") {
					s = r.PickS([]string{"x", "x.y", "Q"}) + s[1:]
				}
				if r.Pct(30) {
					s = strings.ToLower(s)
				}
				sni = s
			}
			var protos []string
			for m := r.Intn(4); m > 0; m-- {
				protos = append(protos, r.PickS(protoAlphabet))
			}
			if r.Pct(3) {
				protos = append(protos, "")
			}
			got, gauth, gprotos := l.chooseEff(sni, protos)
			key := fmt.Sprintf("%s|%s|%v", strings.Join(pcoq, ";"), sni, protos)
			kinds := []string{fmt.Sprintf("sel-ready=%d", nready)}
			rep := map[string]interface{}{"part": "select", "listener": l.name, "contexts": ctxs, "sni": sni, "protos": protos, "chosen": got, "client_auth": gauth, "next_protos": gprotos}
			// finder: the chosen context must carry ITS OWN configured client-auth mode and ALPN list
			if got >= 0 {
				g := ctxs[got]
				if gauth != g.wantAuth() || !sameStrs(gprotos, g.effALPN()) {
					kinds = append(kinds, "sel-foreign-settings")
					run.Fail("tls-config:context-serves-with-settings-of-another-context", fmt.Sprintf("context %d (%s) was chosen but its tls.Config has ClientAuth=%d NextProtos=%v; configured: ClientAuth=%d NextProtos=%v", got, g.Kind, gauth, gprotos, g.wantAuth(), g.effALPN()), rep)
				}
			}
			// finder: precedence
			if wireFeasible(sni, protos) && isHostName(sni) {
				allowed := map[int]bool{}
				for _, rd := range readings {
					allowed[specSelect(ctxs, sni, protos, rd)] = true
				}
				if !allowed[got] {
					var al []int
					for a := range allowed {
						al = append(al, a)
					}
					sort.Ints(al)
					sig := classify(ctxs, sni, protos, got)
					rep["allowed_by_the_rule"] = al
					run.Fail(sig, fmt.Sprintf("GetConfigForClient(sni=%q, alpn=%v) chose context %d; the documented precedence allows only %v (under every reading of case, wildcard depth and absent SNI)", sni, protos, got, al), rep)
					kinds = append(kinds, "sel-finder-flagged")
				}
				if len(allowed) > 1 {
					kinds = append(kinds, "sel-readings-differ")
				}
				switch want := specSelect(ctxs, sni, protos, reading{true, true, true, true}); {
				case want < 0:
					kinds = append(kinds, "sel-none-ready")
				case ctxNameMatch(ctxs[want], sni, reading{true, true, true, true}):
					kinds = append(kinds, "sel-by-name")
				case ctxALPNMatch(ctxs[want], protos, reading{true, true, true, true}):
					kinds = append(kinds, "sel-by-alpn")
				default:
					kinds = append(kinds, "sel-default")
				}
			} else {
				kinds = append(kinds, "sel-not-wire-feasible")
			}
			run.Count(key, nready >= 2, kinds...)
			if got == -2 {
				run.Fail("tls-select:unknown-certificate", "GetConfigForClient returned a config whose leaf is none of the configured ones", rep)
			}
			gs := "None"
			if got >= 0 {
				gs = fmt.Sprintf("(Some %d%%nat)", got)
			}
			sel.Add(fmt.Sprintf("(%s, %s, %s, %s, %d%%N, %s)", CoqList(pcoq), CoqString(sni), coqStrs(protos), gs, gauth, coqStrs(gprotos)), rep)
			if sel.Len() >= 350 {
				sel.Close()
				sel = run.NewShard(c13Header, "sel_case", sel.Eval)
			}
			if nready >= 2 {
				run.Sample(rep)
			}
			_ = sideOK
		}
		// single-provider matchers on arbitrary strings (static providers only: NewProvider is the public constructor)
		if li%2 == 0 {
			c := ctxs[0]
			if c.Kind == "static" {
				p, err := mtls.NewProvider("vh-match", &v2.TLSConfig{Status: true, ServerName: c.ServerName, ALPN: strings.Join(c.ALPN, ","), CertChain: c.lf.certPEM, PrivateKey: c.lf.keyPEM})
				if err != nil || p == nil {
					fmt.Println("NewProvider failed:", err)
					return 2
				}
				for k := 0; k < 4; k++ {
					s := r.PickS(append(append([]string{}, sniWire...), sniOdd...))
					if r.Pct(30) {
						s = s + strings.Repeat(".", r.Intn(3))
					}
					var protos []string
					for m := r.Intn(3); m > 0; m-- {
						protos = append(protos, r.PickS(protoAlphabet))
					}
					gn, ga := p.MatchedServerName(s), p.MatchedALPN(protos)
					run.Count("m|"+c.coq()+"|"+s+fmt.Sprint(protos), true, "match")
					mat.Add(fmt.Sprintf("(%s, %s, %s, %s, %s)", c.coq(), CoqString(s), CoqBool(gn), coqStrs(protos), CoqBool(ga)),
						map[string]interface{}{"part": "match", "context": c, "string": s, "protos": protos, "name": gn, "alpn": ga})
				}
			}
		}
	}
	sel.Close()
	mat.Close()

	// ---------------- part B: handshakes ----------------
	res := runHandshakes(run, right, other, hsListeners, "tls12")
	// TLS 1.3 is opt-in in MOSN's crypto/tls fork (GODEBUG=tls13=1, cached per process): second process
	if out, err := runSelf13(run); err != nil {
		fmt.Println("TLS1.3 sub-process failed:", err)
		return 2
	} else {
		res = append(res, out...)
	}
	emitHandshakeResults(run, res)
	return run.Finish()
}

// ---------------------------------------------------------------------------------------------
// handshake results are plain records so the TLS1.3 sub-process can hand them back as JSON.

type hsResult struct {
	Kind     string                 `json:"kind"` // sel | auth | up | insp
	Ver      string                 `json:"ver"`
	Coq      string                 `json:"coq"`
	Key      string                 `json:"key"`
	Kinds    []string               `json:"kinds"`
	FailSig  string                 `json:"fail_sig,omitempty"`
	FailWhat string                 `json:"fail_what,omitempty"`
	Rep      map[string]interface{} `json:"rep"`
}

func runSelf13(run *Run) ([]hsResult, error) {
	cmd := exec.Command(os.Args[0], "c13hs", "--seed", fmt.Sprint(run.Seed), "--tier", run.Tier, "--out", run.Out)
	cmd.Env = append(os.Environ(), "GODEBUG=tls13=1")
	cmd.Stderr = os.Stderr
	outp, err := cmd.StdoutPipe()
	if err != nil {
		return nil, err
	}
	if err := cmd.Start(); err != nil {
		return nil, err
	}
	var out []hsResult
	sc := bufio.NewScanner(outp)
	sc.Buffer(make([]byte, 1<<20), 1<<26)
	for sc.Scan() {
		line := sc.Text()
		if !strings.HasPrefix(line, "{") {
			continue
		}
		var h hsResult
		if err := json.Unmarshal([]byte(line), &h); err == nil {
			out = append(out, h)
		}
	}
	if err := cmd.Wait(); err != nil {
		return nil, err
	}
	if len(out) == 0 {
		return nil, fmt.Errorf("no results from the TLS1.3 sub-process")
	}
	return out, nil
}

// c13hs: the handshake part alone, with TLS1.3 enabled in the fork; prints one JSON line per result.
func c13hs(args []string) int {
	run := NewRun("C13", args)
	log.DefaultLogger.SetLogLevel(log.FATAL)
	mtls.VerifSetSdsClientFunc(func(cfg interface{}) types.SdsClient { return sds })
	run.R = NewRng(run.Seed ^ 0x13)
	right := newAuthority("right-ca")
	other := newAuthority("other-ca")
	rightCAPEM = right.pem
	var ls []*listenerUnderTest
	for li := 0; len(ls) < run.N(6, 30) && li < 1000; li++ {
		n := 2 + run.R.Intn(4)
		var ctxs []*ctxSpec
		nready := 0
		for ci := 0; ci < n; ci++ {
			c, err := genCtx(run.R, right, li, ci)
			if err != nil {
				return 2
			}
			if c.ready() {
				nready++
			}
			ctxs = append(ctxs, c)
		}
		if nready < 2 {
			continue
		}
		l, err := buildListener(fmt.Sprintf("T13-%d-%d", run.Seed, li), ctxs, false, nil)
		if err != nil {
			return 2
		}
		ls = append(ls, l)
	}
	w := bufio.NewWriter(os.Stdout)
	for _, h := range runHandshakes(run, right, other, ls, "tls13") {
		b, _ := json.Marshal(h)
		w.Write(b)
		w.WriteString("\n")
	}
	w.Flush()
	return 0
}

func emitHandshakeResults(run *Run, res []hsResult) {
	shards := map[string]*Shard{}
	typ := map[string][2]string{
		"sel":  {"sel_case", "sel_mismatches tls_keys_lowered tls_one_mixed_set tls_alpn_white"},
		"auth": {"auth_case", "auth_mismatches"},
		"up":   {"up_case", "up_mismatches"},
		"insp": {"insp_case", "insp_mismatches"},
		"upd":  {"upd_case", "upd_mismatches tls_manager_cached"},
		"sds":  {"sds_case", "sds_mismatches sds_update_always_installs"},
		"file": {"file_case", "file_mismatches tls_ca_pool_cached"},
		"res":  {"res_case", "res_mismatches tls_resume_verifies"},
		"lis":  {"lis_case", "lis_mismatches tls_update_ctxs_before_manager tls_update_insp_before_manager"},
	}
	for _, h := range res {
		if h.Kind == "skip" { // recorded in the distribution only (plus an additional finder verdict, if any)
			run.Count(h.Key, false, h.Kinds...)
			if h.FailSig != "" {
				run.Fail(h.FailSig, h.FailWhat, h.Rep)
			}
			continue
		}
		sh := shards[h.Kind]
		if sh == nil {
			sh = run.NewShard(c13Header, typ[h.Kind][0], typ[h.Kind][1])
			shards[h.Kind] = sh
		}
		sh.Add(h.Coq, h.Rep)
		run.Count(h.Key, true, h.Kinds...)
		if h.FailSig != "" {
			run.Fail(h.FailSig, h.FailWhat, h.Rep)
		}
		if h.Kind != "sel" && len(run.Sum.Samples) < 6 && h.Kind == "auth" && strings.Contains(h.Key, "PeerOtherCA") {
			run.Sum.Samples = append(run.Sum.Samples, h.Rep)
		}
	}
	for _, k := range []string{"sel", "auth", "up", "insp", "upd", "sds", "file", "res", "lis"} {
		if shards[k] != nil {
			shards[k].Close()
		}
	}
}

// ---------------------------------------------------------------------------------------------

const hsTimeout = 15 * time.Second // generous: a slow machine must not turn a handshake into a failure

// serveMOSN accepts connections on a loopback TCP listener and passes each through the real manager's Conn().
type srvOutcome struct {
	mode    int // 0 raw, 1 tls, 2 plain(*mtls.Conn), 9 error from Conn()
	hsErr   error
	got     []byte // application bytes the server read
	connErr error
}

func serveMOSN(mng types.TLSContextManager, want int) (addr string, results chan srvOutcome, closer func()) {
	ln := listenLocal()
	results = make(chan srvOutcome, 64)
	go func() {
		for {
			raw, err := ln.Accept()
			if err != nil {
				return
			}
			func() {
				defer raw.Close()
				raw.SetDeadline(time.Now().Add(hsTimeout))
				var o srvOutcome
				c, err := mng.Conn(raw)
				if err != nil {
					o.mode, o.connErr = 9, err
					results <- o
					return
				}
				switch tc := c.(type) {
				case *mtls.TLSConn:
					o.mode = 1
					tc.SetDeadline(time.Now().Add(hsTimeout))
					if err := tc.Handshake(); err != nil {
						o.hsErr = err
						results <- o
						return
					}
				case *mtls.Conn:
					o.mode = 2
				default:
					o.mode = 0
				}
				c.SetDeadline(time.Now().Add(hsTimeout))
				buf := make([]byte, want)
				n, _ := io.ReadFull(c, buf)
				o.got = buf[:n]
				if n == want {
					c.Write([]byte("pong"))
				}
				results <- o
			}()
		}
	}()
	return ln.Addr().String(), results, func() { ln.Close() }
}

func relName(i int) string {
	return []string{"PeerNone", "PeerSelfSigned", "PeerOtherCA", "PeerRightCA", "PeerExpired"}[i]
}

func runHandshakes(run *Run, right, other *authority, ls []*listenerUnderTest, ver string) []hsResult {
	r := run.R
	var out []hsResult
	maxVer := uint16(gotls.VersionTLS12)
	if ver == "tls13" {
		maxVer = gotls.VersionTLS13
	}
	// ---- B1: certificate seen by a reference client ----
	b1lf, _ := right.issue("client", []string{"client.test"}, leafOpt{})
	b1kp, _ := gotls.X509KeyPair([]byte(b1lf.certPEM), []byte(b1lf.keyPEM))
	b1Cert := &b1kp
	for _, l := range ls {
		addr, results, closer := serveMOSN(l.mng, 4)
		var pcoq []string
		for _, c := range l.ctxs {
			pcoq = append(pcoq, c.coq())
		}
		for k := 0; k < run.N(5, 12); k++ {
			sni := r.PickS(sniWire)
			if r.Pct(40) {
				c := l.ctxs[r.Intn(len(l.ctxs))]
				cand := append([]string{c.CN, c.ServerName}, c.SANs...)
				s := cand[r.Intn(len(cand))]
				if strings.HasPrefix(s, "*.") {
					s = "x" + s[1:]
				}
				sni = s
			}
			if strings.ContainsAny(sni, "*/") || net.ParseIP(sni) != nil {
				continue // the Go client refuses or rewrites these
			}
			var protos []string
			for m := r.Intn(3); m > 0; m-- {
				protos = append(protos, r.PickS(protoAlphabet))
			}
			conn, err := dialLocal(addr, hsTimeout)
			if err != nil {
				continue
			}
			conn.SetDeadline(time.Now().Add(hsTimeout))
			seen := -1
			tc := gotls.Client(conn, &gotls.Config{ServerName: sni, NextProtos: protos, InsecureSkipVerify: true, MaxVersion: maxVer,
				GetClientCertificate: func(*gotls.CertificateRequestInfo) (*gotls.Certificate, error) { return b1Cert, nil },
				VerifyPeerCertificate: func(raw [][]byte, _ [][]*x509.Certificate) error {
					if len(raw) > 0 {
						seen = l.byDER(raw[0])
					}
					return nil
				}})
			herr := tc.Handshake()
			negotiated := ""
			if herr == nil {
				st := tc.ConnectionState()
				negotiated = fmt.Sprintf("%x/%s", st.Version, st.NegotiatedProtocol)
				tc.Write([]byte("ping"))
				io.ReadFull(tc, make([]byte, 4))
			}
			conn.Close()
			so := <-results
			direct, dauth, dprotos := l.chooseEff(sni, protos)
			rep := map[string]interface{}{"part": "handshake-select", "ver": ver, "contexts": l.ctxs, "sni": sni, "protos": protos,
				"certificate_seen": seen, "direct_call": direct, "negotiated": negotiated, "client_err": fmt.Sprint(herr), "server_err": fmt.Sprint(so.hsErr)}
			h := hsResult{Kind: "sel", Ver: ver, Key: fmt.Sprintf("hs|%s|%s|%s|%v", ver, strings.Join(pcoq, ";"), sni, protos), Kinds: []string{"hs-select-" + ver}, Rep: rep}
			if seen < 0 {
				// no certificate was shown: not a selection observation
				h.Kinds = []string{"hs-select-no-certificate-" + ver}
				h.Kind = "skip"
				if direct >= 0 {
					h.FailSig, h.FailWhat = "tls-handshake:no-certificate-presented", fmt.Sprintf("reference client saw no certificate (%v / server %v) although a context is selectable", herr, so.hsErr)
				}
			} else {
				if seen != direct {
					h.FailSig, h.FailWhat = "tls-handshake:certificate-differs-from-GetConfigForClient", fmt.Sprintf("client saw context %d, direct call chose %d", seen, direct)
				}
				allowed := map[int]bool{}
				for _, rd := range allReadings() {
					allowed[specSelect(l.ctxs, sni, protos, rd)] = true
				}
				if !allowed[seen] && h.FailSig == "" {
					h.FailSig = classify(l.ctxs, sni, protos, seen)
					h.FailWhat = fmt.Sprintf("handshake with sni=%q alpn=%v presented context %d; the documented precedence does not allow it", sni, protos, seen)
				}
				h.Coq = fmt.Sprintf("(%s, %s, %s, (Some %d%%nat), %d%%N, %s)", CoqList(pcoq), CoqString(sni), coqStrs(protos), seen, dauth, coqStrs(dprotos))
			}
			if h.Kind != "skip" {
				out = append(out, h)
			} else if h.FailSig != "" {
				h.Kind = "sel"
				h.Coq = fmt.Sprintf("(%s, %s, %s, %s, %d%%N, %s)", CoqList(pcoq), CoqString(sni), coqStrs(protos), map[bool]string{true: fmt.Sprintf("(Some %d%%nat)", direct), false: "None"}[direct >= 0], dauth, coqStrs(dprotos))
				out = append(out, h)
			}
		}
		closer()
	}

	// ---- B2: trust matrix of the server side ----
	srvLeaf, _ := right.issue("srv.test", []string{"srv.test"}, leafOpt{})
	mk := func(a *authority, o leafOpt) *gotls.Certificate {
		lf, err := a.issue("client", []string{"client.test"}, o)
		if err != nil {
			panic(err)
		}
		kp, err := gotls.X509KeyPair([]byte(lf.certPEM), []byte(lf.keyPEM))
		if err != nil {
			panic(err)
		}
		return &kp
	}
	clientCerts := []*gotls.Certificate{nil, mk(right, leafOpt{selfSigned: true}), mk(other, leafOpt{}), mk(right, leafOpt{}), mk(right, leafOpt{expired: true})}
	for mode := 0; mode < 4; mode++ {
		require, verify := mode&1 != 0, mode&2 != 0
		ctx := &ctxSpec{CN: "srv.test", SANs: []string{"srv.test"}, Kind: "static", lf: srvLeaf}
		l, err := buildListener(fmt.Sprintf("auth-%s-%d-%d", ver, run.Seed, mode), []*ctxSpec{ctx}, false, func(i int, cfg *v2.TLSConfig) {
			cfg.CACert = right.pem
			cfg.RequireClientCert, cfg.VerifyClient = require, verify
		})
		if err != nil {
			panic(err)
		}
		addr, results, closer := serveMOSN(l.mng, 4)
		for rel := 0; rel < 5; rel++ {
			for rep := 0; rep < run.N(1, 3); rep++ {
				conn, err := dialLocal(addr, hsTimeout)
				if err != nil {
					panic(err)
				}
				conn.SetDeadline(time.Now().Add(hsTimeout))
				cc := &gotls.Config{ServerName: "srv.test", InsecureSkipVerify: true, MaxVersion: maxVer}
				if clientCerts[rel] != nil {
					cert := clientCerts[rel]
					// present the certificate whatever CA list the server advertises
					cc.GetClientCertificate = func(*gotls.CertificateRequestInfo) (*gotls.Certificate, error) { return cert, nil }
				}
				tc := gotls.Client(conn, cc)
				herr := tc.Handshake()
				clientOK := false
				if herr == nil {
					tc.Write([]byte("ping"))
					b := make([]byte, 4)
					if _, err := io.ReadFull(tc, b); err == nil && string(b) == "pong" {
						clientOK = true
					}
				}
				conn.Close()
				so := <-results
				accepted := so.mode == 1 && so.hsErr == nil && string(so.got) == "ping"
				rp := map[string]interface{}{"part": "trust-matrix", "ver": ver, "require_client_cert": require, "verify_client": verify, "peer": relName(rel),
					"server_accepted": accepted, "client_saw_reply": clientOK, "server_err": fmt.Sprint(so.hsErr), "client_err": fmt.Sprint(herr)}
				h := hsResult{Kind: "auth", Ver: ver, Key: fmt.Sprintf("auth|%s|%v|%v|%s", ver, require, verify, relName(rel)), Kinds: []string{"auth-" + ver}, Rep: rp,
					Coq: fmt.Sprintf("(%s, %s, %s, %s)", CoqBool(require), CoqBool(verify), relName(rel), CoqBool(accepted))}
				// finder: the property text
				switch {
				case require && verify && accepted && rel != 3:
					h.FailSig, h.FailWhat = "tls-auth:require-and-verify-accepted-unproven-peer", fmt.Sprintf("verify_client+require_client_cert accepted a peer with relation %s", relName(rel))
				case verify && accepted && (rel == 1 || rel == 2 || rel == 4):
					h.FailSig, h.FailWhat = "tls-auth:verify-client-accepted-untrusted-certificate", fmt.Sprintf("verify_client accepted a presented certificate with relation %s", relName(rel))
				case rel == 3 && !accepted:
					h.FailSig, h.FailWhat = "tls-auth:right-ca-peer-rejected", "a peer with a valid certificate of the configured CA was rejected"
				case accepted != clientOK:
					h.FailSig, h.FailWhat = "tls-auth:server-and-client-disagree", "server and client disagree on whether the connection was established"
				}
				out = append(out, h)
			}
		}
		closer()
	}

	// ---- B3: MOSN as client (upstream side) against a reference server ----
	// matrix: insecure_skip x server_name {matches, differs, unset} x configured CA {right, other, none, SDS secret without
	// validation context} x certificate of the upstream {issued by right CA, by other CA, self-signed, right CA but expired}
	type upSrv struct {
		issuer  string // IssRight | IssOther | IssSelf
		expired bool
		cert    gotls.Certificate
	}
	mkSrv := func(a *authority, o leafOpt) gotls.Certificate {
		lf, err := a.issue("up.test", []string{"up.test"}, o)
		if err != nil {
			panic(err)
		}
		kp, _ := gotls.X509KeyPair([]byte(lf.certPEM), []byte(lf.keyPEM))
		return kp
	}
	servers := []upSrv{{"IssSelf", false, mkSrv(right, leafOpt{selfSigned: true})}, {"IssOther", false, mkSrv(other, leafOpt{})},
		{"IssRight", false, mkSrv(right, leafOpt{})}, {"IssRight", true, mkSrv(right, leafOpt{expired: true})}, {"IssOther", true, mkSrv(other, leafOpt{expired: true})}}
	// the client certificate an SDS client context is completed with (an SDS provider is ready only with a certificate)
	sdsLeaf, _ := right.issue("sds-client", []string{"sds-client.test"}, leafOpt{})
	type caCfg struct{ coq, descr string }
	cas := []caCfg{{"CaRight", "right-ca"}, {"CaOther", "other-ca"}, {"CaNone", "none"}, {"CaSdsNoValidation", "sds-without-validation-context"}}
	for si, us := range servers {
		ln := listenLocal()
		srvRes := make(chan bool, 16)
		go func(cert gotls.Certificate) {
			for {
				raw, err := ln.Accept()
				if err != nil {
					return
				}
				raw.SetDeadline(time.Now().Add(hsTimeout))
				ts := gotls.Server(raw, &gotls.Config{Certificates: []gotls.Certificate{cert}, MaxVersion: maxVer})
				ok := false
				if ts.Handshake() == nil {
					b := make([]byte, 4)
					if _, err := io.ReadFull(ts, b); err == nil {
						ts.Write([]byte("pong"))
						ok = true
					}
				}
				raw.Close()
				srvRes <- ok
			}
		}(us.cert)
		for _, skip := range []bool{false, true} {
			for ni, sname := range []string{"up.test", "other.test", ""} {
				for ci, ca := range cas {
					tcfg := &v2.TLSConfig{Status: true, ServerName: sname, InsecureSkip: skip}
					switch ca.coq {
					case "CaRight":
						tcfg.CACert = right.pem
					case "CaOther":
						tcfg.CACert = other.pem
					case "CaSdsNoValidation":
						tcfg.SdsConfig = &v2.SdsConfig{CertificateConfig: &v2.SecretConfigWrapper{Name: fmt.Sprintf("up-%s-%d-%d-%v-%d-%d", ver, run.Seed, si, skip, ni, ci)}}
					}
					cm, err := mtls.NewTLSClientContextManager(fmt.Sprintf("vh-up-%s-%d-%v-%d-%d", ver, si, skip, ni, ci), tcfg)
					if err != nil {
						panic(err)
					}
					if tcfg.SdsConfig != nil {
						n := tcfg.SdsConfig.CertificateConfig.Name
						sds.SetSecret(n, &types.SdsSecret{Name: n, CertificatePEM: sdsLeaf.certPEM, PrivateKeyPEM: sdsLeaf.keyPEM})
					}
					nameCoq := []string{"NameMatches", "NameDiffers", "NameUnset"}[ni]
					combo := fmt.Sprintf("server_name=%s,ca=%s,upstream-cert=%s%s", []string{"matching", "non-matching", "unset"}[ni], ca.descr,
						map[string]string{"IssRight": "right-ca", "IssOther": "other-ca", "IssSelf": "self-signed"}[us.issuer], map[bool]string{true: "-expired", false: ""}[us.expired])
					rp := map[string]interface{}{"part": "upstream", "ver": ver, "insecure_skip": skip, "server_name": sname, "configured_ca": ca.descr,
						"upstream_certificate_issuer": us.issuer, "upstream_certificate_expired": us.expired, "combination": combo}
					accepted := false
					if !cm.Enabled() {
						// TLS is not enabled on this cluster (no ready provider): the connection would be plaintext - recorded, not a handshake
						rp["tls_enabled"] = false
						out = append(out, hsResult{Kind: "skip", Ver: ver, Key: "up-disabled|" + combo, Kinds: []string{"upstream-tls-not-enabled-" + ver}, Rep: rp})
						continue
					}
					raw, err := dialLocal(ln.Addr().String(), hsTimeout)
					if err != nil {
						panic(err)
					}
					raw.SetDeadline(time.Now().Add(hsTimeout))
					c, cerr := cm.Conn(raw)
					if cerr == nil {
						if _, isTLS := c.(*mtls.TLSConn); isTLS {
							c.SetDeadline(time.Now().Add(hsTimeout))
							c.Write([]byte("ping"))
							b := make([]byte, 4)
							if _, err := io.ReadFull(c, b); err == nil && string(b) == "pong" {
								accepted = true
							}
						}
						c.Close()
					} else {
						raw.Close()
					}
					<-srvRes
					rp["accepted"], rp["err"] = accepted, fmt.Sprint(cerr)
					h := hsResult{Kind: "up", Ver: ver, Key: fmt.Sprintf("up|%s|%v|%s", ver, skip, combo), Kinds: []string{"upstream-" + ver, "upstream-ca=" + ca.descr}, Rep: rp,
						Coq: fmt.Sprintf("(%s, %s, %s, %s, %s, %s)", CoqBool(skip), ca.coq, us.issuer, CoqBool(us.expired), nameCoq, CoqBool(accepted))}
					// finder: the property text.  Without insecure_skip a handshake must fail unless the upstream certificate
					// chains to the CONFIGURED CA (with no CA configured: to the host's roots, which these never do).
					chains := !us.expired && ((ca.coq == "CaRight" && us.issuer == "IssRight") || (ca.coq == "CaOther" && us.issuer == "IssOther"))
					if !skip && accepted && !chains {
						h.FailSig, h.FailWhat = "tls-upstream:unverified-certificate-accepted:"+combo, fmt.Sprintf("insecure_skip is off but the handshake with an upstream whose certificate does not chain to the configured CA completed (%s)", combo)
					}
					if chains && ni == 0 && !accepted {
						h.FailSig, h.FailWhat = "tls-upstream:valid-upstream-rejected:"+combo, "an upstream with a valid certificate of the configured CA for server_name was rejected"
					}
					out = append(out, h)
				}
			}
		}
		ln.Close()
	}

	// ---- B4: Conn(): inspector ----
	firstBytes := []byte{0x16, 0x15, 0x17, 'G', 'P', 0x00, 0x01, 0xff, 0x80}
	for _, anyReady := range []bool{true, false} {
		for _, insp := range []bool{false, true} {
			kind := "static"
			if !anyReady {
				kind = "sds-notready"
			}
			ctx := &ctxSpec{CN: "srv.test", SANs: []string{"srv.test"}, Kind: kind, lf: srvLeaf}
			l, err := buildListener(fmt.Sprintf("insp-%s-%d-%v-%v", ver, run.Seed, anyReady, insp), []*ctxSpec{ctx}, insp, nil)
			if err != nil {
				panic(err)
			}
			payloadLen := 24
			addr, results, closer := serveMOSN(l.mng, payloadLen)
			for _, fb := range firstBytes {
				payload := append([]byte{fb}, r.Bytes(payloadLen-1)...)
				conn, err := dialLocal(addr, hsTimeout)
				if err != nil {
					panic(err)
				}
				conn.SetDeadline(time.Now().Add(hsTimeout))
				conn.Write(payload)
				io.ReadFull(conn, make([]byte, 4))
				conn.Close()
				so := <-results
				served := (so.mode == 0 || so.mode == 2) && string(so.got) == string(payload)
				code := so.mode
				if (so.mode == 0 || so.mode == 2) && !served {
					code = 8 // plaintext path but the bytes were damaged (e.g. the peeked byte lost)
				}
				rp := map[string]interface{}{"part": "inspector", "ver": ver, "any_ready": anyReady, "inspector": insp, "first_byte": fb, "mode": so.mode, "plaintext_served_intact": served, "hs_err": fmt.Sprint(so.hsErr)}
				h := hsResult{Kind: "insp", Ver: ver, Key: fmt.Sprintf("insp|%s|%v|%v|%d", ver, anyReady, insp, fb), Kinds: []string{"inspector-" + ver}, Rep: rp,
					Coq: fmt.Sprintf("(%s, %s, %d%%N, %d%%N)", CoqBool(anyReady), CoqBool(insp), fb, code)}
				if anyReady && !insp && served {
					h.FailSig, h.FailWhat = "tls-inspector:plaintext-served-with-inspector-off", fmt.Sprintf("plaintext starting with byte %#x was served on a TLS listener whose inspector is off", fb)
				}
				if code == 8 {
					h.FailSig, h.FailWhat = "tls-inspector:plaintext-bytes-damaged", "the plaintext path delivered different bytes than were sent"
				}
				out = append(out, h)
			}
			// a real ClientHello
			if anyReady {
				conn, err := dialLocal(addr, hsTimeout)
				if err != nil {
					panic(err)
				}
				conn.SetDeadline(time.Now().Add(hsTimeout))
				tc := gotls.Client(conn, &gotls.Config{InsecureSkipVerify: true, MaxVersion: maxVer})
				herr := tc.Handshake()
				if herr == nil {
					tc.Write(make([]byte, payloadLen))
					io.ReadFull(tc, make([]byte, 4))
				}
				conn.Close()
				so := <-results
				code := so.mode
				if so.hsErr != nil || herr != nil {
					code = 7
				}
				rp := map[string]interface{}{"part": "inspector", "ver": ver, "any_ready": anyReady, "inspector": insp, "first_byte": "ClientHello", "mode": so.mode, "hs_err": fmt.Sprint(so.hsErr, herr)}
				h := hsResult{Kind: "insp", Ver: ver, Key: fmt.Sprintf("insp|%s|%v|%v|hello", ver, anyReady, insp), Kinds: []string{"inspector-" + ver}, Rep: rp,
					Coq: fmt.Sprintf("(%s, %s, 22%%N, %d%%N)", CoqBool(anyReady), CoqBool(insp), code)}
				if code != 1 {
					h.FailSig, h.FailWhat = "tls-inspector:tls-client-not-served", "a TLS client could not complete a handshake on a TLS listener"
				}
				out = append(out, h)
			}
			closer()
		}
	}
	// ---- B5: one listener name configured again and again (LDS updates): the manager in force after every prefix ----
	leafA, _ := right.issue("upd-a.test", []string{"upd-a.test"}, leafOpt{})
	leafB, _ := right.issue("upd-b.test", []string{"upd-b.test"}, leafOpt{})
	ctxSets := [][]int{{1}, {2}, {1, 2}, {}}
	nHist := run.N(8, 40)
	for hi := 0; hi < nHist; hi++ {
		name := fmt.Sprintf("upd-%s-%d-%d", ver, run.Seed, hi)
		type step struct {
			ctxs []int
			insp bool
		}
		var hist []step
		cur := step{ctxs: ctxSets[r.Intn(3)], insp: r.Bool()}
		hist = append(hist, cur)
		for n := 1 + r.Intn(3); n > 0; n-- {
			switch r.Intn(4) {
			case 0, 1: // inspector flips, contexts unchanged
				cur = step{ctxs: cur.ctxs, insp: !cur.insp}
			case 2: // contexts change, inspector unchanged
				cur = step{ctxs: ctxSets[r.Intn(len(ctxSets))], insp: cur.insp}
			default:
				cur = step{ctxs: ctxSets[r.Intn(len(ctxSets))], insp: r.Bool()}
			}
			hist = append(hist, cur)
		}
		var coqHist []string
		var descr []map[string]interface{}
		for si, st := range hist {
			lc := &v2.Listener{}
			lc.Name = name
			lc.Inspector = st.insp
			var tcs []v2.TLSConfig
			for _, t := range st.ctxs {
				lf := leafA
				if t == 2 {
					lf = leafB
				}
				tcs = append(tcs, v2.TLSConfig{Status: true, CertChain: lf.certPEM, PrivateKey: lf.keyPEM})
			}
			lc.FilterChains = []v2.FilterChain{{TLSContexts: tcs}}
			mng, err := mtls.NewTLSServerContextManager(lc)
			if err != nil {
				panic(err)
			}
			var cs []string
			for _, t := range st.ctxs {
				cs = append(cs, fmt.Sprintf("%d%%nat", t))
			}
			coqHist = append(coqHist, fmt.Sprintf("(%s, %s)", CoqList(cs), CoqBool(st.insp)))
			descr = append(descr, map[string]interface{}{"tls_contexts": st.ctxs, "inspector": st.insp})
			for _, fb := range []int{'G', -1} {
				code, served := probeManager(mng, maxVer, fb)
				fbN := fb
				if fb < 0 {
					fbN = 22
				}
				rp := map[string]interface{}{"part": "manager-updates", "ver": ver, "listener": name, "history": append([]map[string]interface{}{}, descr...), "client": map[bool]string{true: "TLS ClientHello", false: "plaintext"}[fb < 0], "mode": code, "plaintext_served": served}
				h := hsResult{Kind: "upd", Ver: ver, Key: fmt.Sprintf("upd|%s|%s|%d", ver, strings.Join(coqHist, ";"), fb), Kinds: []string{"manager-update-history-" + ver, fmt.Sprintf("manager-update-step=%d", si)}, Rep: rp,
					Coq: fmt.Sprintf("(%s, %d%%N, %d%%N)", CoqList(coqHist), fbN, code)}
				if len(st.ctxs) > 0 && !st.insp && served {
					h.FailSig, h.FailWhat = "tls-inspector:plaintext-served-although-inspector-off:after-update", fmt.Sprintf("listener %s: after the update history %v the configuration in force has TLS contexts and inspector OFF, yet a plaintext client was served", name, descr)
				}
				if len(st.ctxs) > 0 && fb < 0 && code != 1 {
					h.FailSig, h.FailWhat = "tls-inspector:tls-client-not-served:after-update", fmt.Sprintf("listener %s: after the update history %v a TLS client could not complete a handshake", name, descr)
				}
				out = append(out, h)
			}
		}
	}
	// ---- B6: SDS providers over histories of secret pushes and config updates ----
	out = append(out, runSDSHistories(run, right, other, ver, maxVer)...)
	// ---- B7: file-backed material over histories of configuration applications ----
	out = append(out, runFileHistories(run, right, other, ver, maxVer)...)
	out = append(out, runResumeHistories(run, right, other, ver, maxVer)...)
	if ver == "tls12" { // the update path does not depend on the TLS version
		out = append(out, runListenerUpdateHistories(run, right, ver, maxVer)...)
	}
	return out
}

var _ = x509.NewCertPool

// probeManager connects once to a loopback server that passes the connection through mng.Conn().  firstByte >= 0: a
// plaintext payload starting with that byte; firstByte < 0: a real TLS ClientHello.  Returns the mode code (0 raw, 1 tls,
// 2 plain, 7 TLS handshake failed, 8 plaintext damaged) and whether plaintext was served intact.
func probeManager(mng types.TLSContextManager, maxVer uint16, firstByte int) (int, bool) {
	const n = 24
	addr, results, closer := serveMOSN(mng, n)
	defer closer()
	conn, err := dialLocal(addr, hsTimeout)
	if err != nil {
		panic(err)
	}
	defer conn.Close()
	conn.SetDeadline(time.Now().Add(hsTimeout))
	if firstByte >= 0 {
		payload := append([]byte{byte(firstByte)}, []byte("ET / HTTP/1.1 plaintext")...)[:n]
		conn.Write(payload)
		io.ReadFull(conn, make([]byte, 4))
		so := <-results
		served := (so.mode == 0 || so.mode == 2) && string(so.got) == string(payload)
		if (so.mode == 0 || so.mode == 2) && !served {
			return 8, false
		}
		return so.mode, served
	}
	tc := gotls.Client(conn, &gotls.Config{InsecureSkipVerify: true, MaxVersion: maxVer})
	herr := tc.Handshake()
	if herr == nil {
		tc.Write(make([]byte, n))
		io.ReadFull(tc, make([]byte, 4))
	}
	so := <-results
	if so.mode == 1 && (so.hsErr != nil || herr != nil) {
		return 7, false
	}
	return so.mode, false
}
