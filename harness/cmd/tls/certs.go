package main

// In-memory CAs and leaf certificates (ECDSA P-256) for the C13 harness.

import (
	"crypto/ecdsa"
	"crypto/elliptic"
	"crypto/rand"
	"crypto/x509"
	"crypto/x509/pkix"
	"encoding/pem"
	"math/big"
	"time"
)

type authority struct {
	cert *x509.Certificate
	key  *ecdsa.PrivateKey
	pem  string
}

type leaf struct {
	certPEM, keyPEM string
	der             []byte
}

var serialNo int64 = 1000

func pemOf(typ string, b []byte) string {
	return string(pem.EncodeToMemory(&pem.Block{Type: typ, Bytes: b}))
}

func newAuthority(cn string) *authority {
	key, err := ecdsa.GenerateKey(elliptic.P256(), rand.Reader)
	if err != nil {
		panic(err)
	}
	serialNo++
	tmpl := &x509.Certificate{
		SerialNumber:          big.NewInt(serialNo),
		Subject:               pkix.Name{CommonName: cn, Organization: []string{"vh"}},
		NotBefore:             time.Now().Add(-48 * time.Hour),
		NotAfter:              time.Now().Add(240 * time.Hour),
		KeyUsage:              x509.KeyUsageCertSign | x509.KeyUsageDigitalSignature,
		BasicConstraintsValid: true,
		IsCA:                  true,
	}
	der, err := x509.CreateCertificate(rand.Reader, tmpl, tmpl, &key.PublicKey, key)
	if err != nil {
		panic(err)
	}
	c, _ := x509.ParseCertificate(der)
	return &authority{cert: c, key: key, pem: pemOf("CERTIFICATE", der)}
}

type leafOpt struct {
	expired    bool
	selfSigned bool
	// explicit validity (both set): overrides the default window
	notBefore, notAfter time.Time
}

// issue creates a leaf with the given CN / DNS SANs, signed by a (or by itself).
func (a *authority) issue(cn string, sans []string, o leafOpt) (*leaf, error) {
	key, err := ecdsa.GenerateKey(elliptic.P256(), rand.Reader)
	if err != nil {
		return nil, err
	}
	serialNo++
	tmpl := &x509.Certificate{
		SerialNumber: big.NewInt(serialNo),
		Subject:      pkix.Name{CommonName: cn},
		NotBefore:    time.Now().Add(-24 * time.Hour),
		NotAfter:     time.Now().Add(120 * time.Hour),
		KeyUsage:     x509.KeyUsageDigitalSignature,
		ExtKeyUsage:  []x509.ExtKeyUsage{x509.ExtKeyUsageServerAuth, x509.ExtKeyUsageClientAuth},
		DNSNames:     sans,
	}
	if o.expired {
		tmpl.NotBefore = time.Now().Add(-72 * time.Hour)
		tmpl.NotAfter = time.Now().Add(-24 * time.Hour)
	}
	if !o.notBefore.IsZero() && !o.notAfter.IsZero() {
		tmpl.NotBefore, tmpl.NotAfter = o.notBefore, o.notAfter
	}
	parent, signer := a.cert, a.key
	if o.selfSigned {
		parent, signer = tmpl, key
	}
	der, err := x509.CreateCertificate(rand.Reader, tmpl, parent, &key.PublicKey, signer)
	if err != nil {
		return nil, err
	}
	kb, err := x509.MarshalECPrivateKey(key)
	if err != nil {
		return nil, err
	}
	return &leaf{certPEM: pemOf("CERTIFICATE", der), keyPEM: pemOf("EC PRIVATE KEY", kb), der: der}, nil
}
