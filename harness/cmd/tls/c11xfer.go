package main

// C11 part 4: the hot-upgrade path as far as it can be done in ONE process.  An "old" server (the in-process MOSN of part
// 3) and a "new" connection handler (server.NewHandler) whose listener INHERITS the old listening socket (a dup of the old
// listener's file, the way the new process gets it over listen.sock), joined by the real connection-transfer code:
// network.TransferServer(newHandler) on the real unix socket, and on the old side the real read loop -> transfer() ->
// transferRead / transferWrite once StopConnection() has fired.  No hook is used.
//
//   * a bolt connection whose request has been received only up to byte offset k - for EVERY k of the frame - is handed
//     over; the rest is then sent; the request must be answered exactly once (the real-code tie of c11_handover_stream);
//   * connections whose request is waiting for the upstream at hand-over: the reply reaches the old process and must be
//     forwarded through the write-path messages, exactly once;
//   * a new connection made after the switch is accepted by the new handler (inherited socket) and served.

import (
	"context"
	"encoding/json"
	"fmt"
	"net"
	"os"
	"strconv"
	"sync"
	"time"

	v2 "mosn.io/mosn/pkg/config/v2"
	"mosn.io/mosn/pkg/configmanager"
	"mosn.io/mosn/pkg/network"
	"mosn.io/mosn/pkg/server"
	"mosn.io/mosn/pkg/stagemanager"
	"mosn.io/mosn/pkg/types"

	. "vh/vhlib"
)

func numConns(h types.ConnectionHandler) uint64 {
	if n, ok := h.(interface{ NumConnections() uint64 }); ok {
		return n.NumConnections()
	}
	return 0
}

type noopCMF struct{}

func (noopCMF) OnCreated(types.ClusterConfigFactoryCb, types.ClusterHostFactoryCb) {}

const xferListener = "vh-xfer"

type xferConn struct {
	Kind    string `json:"kind"`   // partial | in-flight | new-after-switch
	Offset  int    `json:"offset"` // bytes of the request sent before the hand-over
	Frame   int    `json:"frame_bytes"`
	Replies int    `json:"replies"`
	Err     string `json:"error,omitempty"`
	c       net.Conn
	frame   []byte
	id      uint32
}

// fixedBody is the upstream script as JSON padded with spaces to a fixed length, so that every frame has the same size.
func fixedBody(up int) []byte {
	b, _ := json.Marshal(script{Up: up})
	for len(b) < 40 {
		b = append(b, ' ')
	}
	return b
}

// readReplies counts the responses with the given id that arrive within the window.
func readReplies(c net.Conn, id uint32, first, extra time.Duration) (int, string) {
	n := 0
	c.SetReadDeadline(time.Now().Add(first))
	for {
		typ, _, rid, content, err := readBoltFrame(c)
		if err != nil {
			if ne, ok := err.(net.Error); ok && ne.Timeout() {
				return n, ""
			}
			if n > 0 {
				return n, ""
			}
			return n, err.Error()
		}
		if typ == 0 && rid == id && string(content) == "ok" {
			n++
			c.SetReadDeadline(time.Now().Add(extra)) // a duplicate would follow shortly
		}
	}
}

func c11Transfer(run *Run, mu *mosnUnderTest, xl v2.Listener) int {
	oldH := mu.handler
	addr := xl.AddrConfig
	// shorter timers for this part only: a read loop notices StopConnection at its next read timeout, then waits
	// TransferTimeout + rand(TransferTimeout) before it hands the connection over
	types.DefaultConnReadTimeout = 150 * time.Millisecond
	network.SetTransferTimeout(60 * time.Millisecond)

	sample := boltRequest(1, fixedBody(20))
	var conns []*xferConn
	for k := 0; k <= len(sample)-1; k++ {
		conns = append(conns, &xferConn{Kind: "partial", Offset: k, Frame: len(sample)})
	}
	// a large request (6 kB of content): hand-over with the buffered byte count around the sizes of the buffer pool
	bigOffsets := []int{127, 128, 129, 255, 256, 257, 511, 512, 513, 1023, 1024, 1025, 2047, 2048, 2049, 4095, 4096, 4097}
	for _, k := range bigOffsets {
		conns = append(conns, &xferConn{Kind: "partial-large", Offset: k})
	}
	nIn := run.N(4, 12)
	for i := 0; i < nIn; i++ {
		conns = append(conns, &xferConn{Kind: "in-flight", Frame: len(sample)})
	}
	// connect + warm up (an xprotocol connection supports transfer once its stream connection exists), send the prefix
	var wg sync.WaitGroup
	for i, xc := range conns {
		wg.Add(1)
		go func(i int, xc *xferConn) {
			defer wg.Done()
			var c net.Conn
			var err error
			for try := 0; try < 3; try++ { // an overloaded machine may need more than one attempt
				if c, err = dialLocal(addr, 2*time.Second); err != nil {
					continue
				}
				if err = (&boltClient{c: c}).warmup(); err == nil {
					break
				}
				c.Close()
			}
			if err != nil {
				xc.Err = "set-up: " + err.Error()
				return
			}
			xc.c = c
			xc.id = uint32(xferIDBase() + i)
			up := 20
			if xc.Kind == "in-flight" {
				up = 1300 // longer than drain + hand-over: the reply arrives at the old process after the transfer
				xc.Offset = len(sample)
			}
			xc.frame = boltRequest(xc.id, fixedBody(up))
			if xc.Kind == "partial-large" {
				big := fixedBody(up)
				for len(big) < 6000 {
					big = append(big, ' ')
				}
				xc.frame = boltRequest(xc.id, big)
			}
			xc.Frame = len(xc.frame)
			if xc.Offset > len(xc.frame) {
				xc.Offset = len(xc.frame)
			}
			c.SetWriteDeadline(time.Now().Add(2 * time.Second))
			if xc.Offset > 0 {
				c.Write(xc.frame[:xc.Offset])
			}
		}(i, xc)
	}
	wg.Wait()
	for _, xc := range conns {
		if xc.Err != "" {
			// not an observation of the hand-over: the part is skipped and says so
			fmt.Fprintln(os.Stderr, "transfer part could not set up its connections:", xc.Err)
			run.Count("xfer|skipped", false, "upgrade-part-skipped-setup-failed")
			return 0
		}
	}
	time.Sleep(60 * time.Millisecond)
	oldBefore := numConns(oldH)

	// ---- the "new process": a second connection handler whose listener inherits the old listening socket
	ol := oldH.FindListenerByName(xferListener)
	if ol == nil {
		fmt.Println("old listener not found")
		return 2
	}
	lf, err := ol.ListenerFile()
	if err != nil {
		fmt.Println("ListenerFile:", err)
		return 2
	}
	inherited, err := net.FileListener(lf)
	lf.Close()
	if err != nil {
		fmt.Println("FileListener:", err)
		return 2
	}
	newH := server.NewHandler(noopCMF{}, mu.m.Clustermanager)
	nlc := xl
	nlc.Addr = nil
	lc := configmanager.ParseListenerConfig(&nlc, []net.Listener{inherited}, nil)
	if lc.InheritListener == nil {
		fmt.Println("the new listener did not inherit the socket")
		return 2
	}
	if _, err := newH.AddOrUpdateListener(lc); err != nil {
		fmt.Println("new handler AddOrUpdateListener:", err)
		return 2
	}
	go network.TransferServer(newH)
	time.Sleep(80 * time.Millisecond)
	newH.StartListeners(context.Background())

	// ---- the old process: what ReconfigureHandler does after the new one is up
	stagemanager.SetState(stagemanager.Upgrading)
	oldH.GracefulStopListener(context.Background(), xferListener) // stopAccept + drain
	stagemanager.SetState(stagemanager.Running)
	oldH.StopConnection() // every read loop of the old handler now hands its connection over

	// wait until the new handler owns the connections
	want := uint64(len(conns))
	deadline := time.Now().Add(generous)
	for numConns(newH) < want && time.Now().Before(deadline) {
		time.Sleep(20 * time.Millisecond)
	}
	transferred := numConns(newH)
	time.Sleep(100 * time.Millisecond)

	// ---- the clients go on: rest of the request, then count the replies
	for _, xc := range conns {
		wg.Add(1)
		go func(xc *xferConn) {
			defer wg.Done()
			xc.c.SetWriteDeadline(time.Now().Add(2 * time.Second))
			if xc.Offset < len(xc.frame) {
				if _, err := xc.c.Write(xc.frame[xc.Offset:]); err != nil {
					xc.Err = "write after hand-over: " + err.Error()
				}
			}
			xc.Replies, xc.Err = readReplies(xc.c, xc.id, generous, 600*time.Millisecond)
			xc.c.Close()
		}(xc)
	}
	// a new connection after the switch: accepted through the inherited socket by the new handler
	nx := &xferConn{Kind: "new-after-switch", Frame: len(sample), id: 9000}
	if c, err := dialLocal(addr, time.Second); err != nil {
		nx.Err = "dial: " + err.Error()
	} else {
		c.SetWriteDeadline(time.Now().Add(2 * time.Second))
		c.Write(boltRequest(nx.id, fixedBody(10)))
		nx.Replies, nx.Err = readReplies(c, nx.id, generous, 400*time.Millisecond)
		c.Close()
	}
	wg.Wait()
	conns = append(conns, nx)

	// ---- evaluate
	run.Sum.Extra["in_process_upgrade"] = map[string]interface{}{"connections_on_old_before": oldBefore, "connections_to_hand_over": len(conns) - 1, "connections_owned_by_new_handler_after": transferred}
	if transferred < want {
		run.Fail("upgrade:connections-not-handed-over", fmt.Sprintf("only %d of %d xprotocol connections reached the new handler through the transfer socket", transferred, want),
			map[string]interface{}{"part": "transfer", "handed_over": transferred, "expected": want})
	}
	sh := run.NewShard("From MV Require Import Gen.TransferTokens.\n"+c11Header, "xfer_case", "xfer_mismatches transfer_buffer_has_room")
	for _, xc := range conns {
		rep := map[string]interface{}{"part": "transfer", "connection": xc}
		run.Count(fmt.Sprintf("xfer|%s|%d", xc.Kind, xc.Offset), true, "upgrade-"+xc.Kind)
		switch {
		case xc.Replies == 0:
			run.Fail("upgrade:request-on-handed-over-connection-lost:"+xc.Kind, fmt.Sprintf("%s connection (request received up to byte %d of %d at hand-over): no reply (%s)", xc.Kind, xc.Offset, xc.Frame, xc.Err), rep)
		case xc.Replies > 1:
			run.Fail("upgrade:request-on-handed-over-connection-answered-twice:"+xc.Kind, fmt.Sprintf("%s connection (offset %d of %d): %d replies", xc.Kind, xc.Offset, xc.Frame, xc.Replies), rep)
		}
		if xc.Kind == "partial" || xc.Kind == "partial-large" {
			// model: old process fed the first k bytes, hand-over, new process fed the rest: number of frames extracted
			sh.Add(fmt.Sprintf("(%s, %d%%nat, %d%%nat)", CoqBytes(xc.frame), xc.Offset, xc.Replies), rep)
		}
	}
	sh.Close()
	run.Sample(map[string]interface{}{"part": "transfer", "offsets": len(sample), "handed_over": transferred})
	return 0
}

func xferIDBase() int {
	if v := os.Getenv("VH_XFER_IDBASE"); v != "" {
		n, _ := strconv.Atoi(v)
		return n
	}
	return 100
}
